#!/bin/bash
# ./seedverify.sh <seed-dir> [Cxx ...]  -- confirms a candidate seeded change independently:
#  (1) patch applies to a scratch worktree of /repo HEAD, builds, and the repository's whole test suite passes with it;
#  (2) the demonstration passes WITHOUT the patch and fails WITH it;
#  (3) runs the quick check(s) of the given properties against the patched worktree (VERIF_REPO) and reports CAUGHT/MISSED.
# Nothing is applied to /repo. Worktrees live under /dev/shm and are removed.
d="$(readlink -f "$1")"; shift
cd "$(dirname "$(readlink -f "$0")")"
export GOPROXY=off GOSUMDB=off GOTOOLCHAIN=local
demo=$(jq -r .demonstration "$d/meta.json")
pkgdir=$(echo "$demo" | grep -oE '(lib|lang|cmd|internal)/[A-Za-z0-9_/]*[A-Za-z0-9_]' | head -1)
runcmd=$(echo "$demo" | grep -oE "go test [^\`]*\./(lib|lang|cmd|internal)/[A-Za-z0-9_/]+" | head -1 | tr -d "'")
echo "demo dir: $pkgdir ; cmd: $runcmd"
wt=$(mktemp -d /dev/shm/seedv.XXXXXX); rmdir $wt
git -C /repo worktree add -q --detach "$wt" HEAD || exit 2
cleanup() { git -C /repo worktree remove --force "$wt" 2>/dev/null; git -C /repo worktree prune; rm -rf "$wt.out"; }
trap cleanup EXIT
if [ -f "$d/demo_test.go" ] && [ -n "$pkgdir" ]; then
  cp "$d/demo_test.go" "$wt/$pkgdir/zz_demo_test.go"
  (cd "$wt" && GOFLAGS=-mod=readonly $runcmd >"$wt.out.pre" 2>&1); pre=$?
  echo "demo without patch: exit $pre (want 0)"; [ $pre -ne 0 ] && tail -5 "$wt.out.pre"
  rm -f "$wt/$pkgdir/zz_demo_test.go"
fi
if [ -f "$d/demo/demo.sh" ]; then
  (bash "$d/demo/demo.sh" "$wt" >"$wt.out.pre2" 2>&1); pre2=$?
  echo "demo.sh without patch: exit $pre2 (want 0)"; [ $pre2 -ne 0 ] && tail -5 "$wt.out.pre2"
  git -C "$wt" checkout -q -- . ; git -C "$wt" clean -fdq
fi
git -C "$wt" apply "$d/patch.diff" || { echo "PATCH DOES NOT APPLY"; exit 1; }
(cd "$wt" && GOFLAGS=-mod=readonly go build ./... 2>&1 | tail -3 && GOFLAGS=-mod=readonly go test -vet=off -count=1 ./... 2>&1 | grep -v "^ok\|no test files" | tail -5); 
(cd "$wt" && GOFLAGS=-mod=readonly go test -vet=off -count=1 ./... >/dev/null 2>&1); echo "test suite with patch: exit $? (want 0)"
if [ -f "$d/demo_test.go" ] && [ -n "$pkgdir" ]; then
  cp "$d/demo_test.go" "$wt/$pkgdir/zz_demo_test.go"
  (cd "$wt" && GOFLAGS=-mod=readonly $runcmd >"$wt.out.post" 2>&1); post=$?
  echo "demo with patch: exit $post (want non-zero)"; grep -m3 -E "^\s+.*_test.go|FAIL" "$wt.out.post" | cut -c1-300
  rm -f "$wt/$pkgdir/zz_demo_test.go"
fi
if [ -f "$d/demo/demo.sh" ]; then
  (bash "$d/demo/demo.sh" "$wt" >"$wt.out.post2" 2>&1); post2=$?
  echo "demo.sh with patch: exit $post2 (want non-zero)"; tail -4 "$wt.out.post2" | cut -c1-300
  git -C "$wt" status --short | grep -v "^ M\|^M " | head -3
fi
rm -f "$wt.out.pre" "$wt.out.post" "$wt.out.pre2" "$wt.out.post2"
for id in "$@"; do
  out=$(C11_PHASE1_S=${SEED_BUDGET_S:-3000} VERIF_BUDGET_S=${SEED_BUDGET_S:-3000} VERIF_REPO="$wt" VERIF_OUT="$wt.out" ./run.sh "$id" ${SEED_TIER:-quick} 2>&1); code=$?
  mkdir -p /dev/shm/seedlogs; echo "$out" > "/dev/shm/seedlogs/$(basename $(dirname $d))_$(basename $d).$id.check.log"
  nv=$(echo "$out" | grep -c '^VIOLATION')
  if [ $code -eq 1 ] && [ $nv -gt 0 ]; then echo "CAUGHT by $id ($nv violations): $(echo "$out" | grep -m1 'signature:' | sed 's/^ *//' | cut -c1-300)"; else echo "MISSED by $id (exit $code)"; echo "$out" | tail -2; fi
done
