#!/bin/bash
# ./selftest.sh <Cxx> [patch ...]  -- for each patch (default mutants/<Cxx>/*.diff and seeded/*/patch.diff whose meta names <Cxx>):
# makes a scratch worktree of /repo's HEAD under /dev/shm, applies the patch there, runs the quick check with VERIF_REPO pointing
# at it and expects a VIOLATION; removes the worktree. /repo itself is never modified. Not part of quick/thorough.
cd "$(dirname "$(readlink -f "$0")")"
id="$1"; shift
files=("$@")
if [ ${#files[@]} -eq 0 ]; then
  files=(mutants/$id/*.diff)
  for m in seeded/*/meta.json; do
    [ -f "$m" ] && jq -e --arg id "$id" '.property==$id or ((.also_breaks // []) | index($id))' "$m" >/dev/null 2>&1 && files+=("$(dirname $m)/patch.diff")
  done
fi
rc=0
for m in "${files[@]}"; do
  [ -f "$m" ] || continue
  wt=$(mktemp -d /dev/shm/verif-wt.XXXXXX); rmdir "$wt"
  git -C /repo worktree add -q --detach "$wt" HEAD || { echo "cannot create worktree"; exit 2; }
  if ! git -C "$wt" apply "$PWD/$m" 2>/dev/null; then echo "SKIP $m (does not apply)"; rc=1
  else
    out=$(VERIF_REPO="$wt" VERIF_OUT="$wt.out" VERIF_BUDGET_S=${SELFTEST_BUDGET_S:-400} ./run.sh "$id" ${SELFTEST_TIER:-quick} 2>&1); code=$?
    nv=$(echo "$out" | grep -c '^VIOLATION')
    sig=$(echo "$out" | grep -m1 'signature:' | sed 's/^ *//')
    if [ $code -eq 1 ] && [ $nv -gt 0 ]; then echo "CAUGHT $m ($nv violations; first $sig)"; else echo "MISSED $m (exit $code)"; echo "$out" | tail -3; rc=1; fi
  fi
  git -C /repo worktree remove --force "$wt"; rm -rf "$wt.out"
done
git -C /repo worktree prune
exit $rc
