#!/bin/bash
# ./selftest.sh <Cxx> [mutant.diff ...]  -- applies each mutant to /repo, runs the quick check, expects a VIOLATION, reverts.
# Not part of quick/thorough. Refuses to run if /repo has uncommitted changes.
cd /verif
id="$1"; shift
if [ -n "$(git -C /repo status --short)" ]; then echo "/repo is dirty; refusing"; exit 2; fi
files=("$@"); [ ${#files[@]} -eq 0 ] && files=(mutants/$id/*.diff)
rc=0
for m in "${files[@]}"; do
  if ! git -C /repo apply --check "$PWD/$m" 2>/dev/null; then echo "SKIP $m (does not apply)"; rc=1; continue; fi
  git -C /repo apply "$PWD/$m"
  out=$(VERIF_BUDGET_S=${SELFTEST_BUDGET_S:-400} ./run.sh "$id" quick 2>&1); code=$?
  git -C /repo apply -R "$PWD/$m"
  nv=$(echo "$out" | grep -c '^VIOLATION')
  sig=$(echo "$out" | grep -m1 'signature:' | sed 's/^ *//')
  if [ $code -eq 1 ] && [ $nv -gt 0 ]; then echo "CAUGHT $m ($nv violations; first $sig)"; else echo "MISSED $m (exit $code)"; rc=1; fi
done
rm -rf replays/$id
exit $rc
