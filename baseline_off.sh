#!/bin/bash
# Runs the repository's own test suite with no verif tag (there are no guarded hooks in /repo:
# all instrumentation is injected with go build -overlay at check time).
cd /repo && GOPROXY=off GOSUMDB=off GOTOOLCHAIN=local go test -mod=mod -json -vet=off -count=1 -timeout 25m ./...
rc=$?
git -C /repo checkout -- go.mod go.sum 2>/dev/null
exit $rc
