// C16: cutting DEFLATE/zlib data yields a valid stream that decodes to a prefix.
//
// Bounded-exhaustive: (A) reference-encoder streams (compress/flate levels
// -2,0,1,5,9, Flush at every position, zlib with/without preset dictionary) for
// every payload over {0x00,'a',0xFF} up to a length bound and for structured
// long payloads; (B) a hand bit-writer enumerating streams of <= 3 blocks
// (stored / fixed / dynamic incl. degenerate trees and 15-bit codes) that
// compress/flate itself decodes; for each stream EVERY maxEncodedLen from 0 to
// len+2, with and without the optional writer; (C) robustness on short byte
// strings and on single-byte replacements of seed streams.
//
// Oracle: on success encodedLen <= limit, <= len(buf); compress/flate
// (compress/zlib) decodes encoded[:encodedLen] completely, without error, to
// exactly original[:decodedLen]; equal to the writer's bytes; the whole
// original if limit >= len(stream). Arbitrary bytes: no panic; an error, or
// lengths inside limit and buffer.
package main

import (
	"bytes"
	"compress/flate"
	"compress/zlib"
	"encoding/hex"
	"encoding/json"
	"fmt"
	"hash/adler32"
	"os"
	"strings"
	"time"

	"verif/internal/ev"
)

var levels = []int{-2, 0, 1, 5, 9}

// ---- reference encoder ---------------------------------------------------------

type refGen struct {
	fw  map[int]*flate.Writer
	zw  map[string]*zlib.Writer
	out bytes.Buffer
}

func (g *refGen) gen(kind, level int, dictName string, dict, payload []byte, flushAt []int) []byte {
	g.out.Reset()
	type wfc interface {
		Write([]byte) (int, error)
		Flush() error
		Close() error
	}
	var w wfc
	if kind == kFlate {
		if g.fw == nil {
			g.fw = map[int]*flate.Writer{}
		}
		fw := g.fw[level]
		if fw == nil {
			var err error
			if fw, err = flate.NewWriter(&g.out, level); err != nil {
				ev.Fatal("flate.NewWriter: %v", err)
			}
			g.fw[level] = fw
		} else {
			fw.Reset(&g.out)
		}
		w = fw
	} else {
		if g.zw == nil {
			g.zw = map[string]*zlib.Writer{}
		}
		key := fmt.Sprint(level, "/", dictName)
		zw := g.zw[key]
		if zw == nil {
			var err error
			if zw, err = zlib.NewWriterLevelDict(&g.out, level, dict); err != nil {
				ev.Fatal("zlib.NewWriterLevelDict: %v", err)
			}
			g.zw[key] = zw
		} else {
			zw.Reset(&g.out)
		}
		w = zw
	}
	prev := 0
	for _, f := range flushAt {
		if _, err := w.Write(payload[prev:f]); err != nil {
			ev.Fatal("reference encoder Write: %v", err)
		}
		if err := w.Flush(); err != nil {
			ev.Fatal("reference encoder Flush: %v", err)
		}
		prev = f
	}
	if _, err := w.Write(payload[prev:]); err != nil {
		ev.Fatal("reference encoder Write: %v", err)
	}
	if err := w.Close(); err != nil {
		ev.Fatal("reference encoder Close: %v", err)
	}
	return append([]byte(nil), g.out.Bytes()...)
}

type variant struct {
	kind     int
	dictName string
	dict     []byte
}

var p1Dict = []byte("a\x00\xffaa\x00\x00\xff\xffaaa\x00\x00\x00\xff\xff\xff")

func flushPatterns(n int) [][]int {
	pats := [][]int{nil}
	for k := 0; k <= n; k++ {
		pats = append(pats, []int{k})
	}
	var all []int
	for k := 0; k <= n; k++ {
		all = append(all, k)
	}
	return append(pats, all)
}

var p1Alpha = []byte{0x00, 'a', 0xFF}

func refP1(r *ev.Run, ws []*worker, gens []*refGen, maxLen int) {
	total, pow := 0, 1
	var offs []int
	for L := 0; L <= maxLen; L++ {
		offs = append(offs, total)
		total += pow
		pow *= 3
	}
	variants := []variant{{kFlate, "", nil}, {kZlib, "", nil}, {kZlib, "p1", p1Dict}}
	ev.ParFor(total, func(k, idx int) {
		if r.Expired() {
			return
		}
		w, g := ws[k], gens[k]
		L := maxLen
		for L > 0 && offs[L] > idx {
			L--
		}
		x := idx - offs[L]
		payload := make([]byte, L)
		for i := L - 1; i >= 0; i-- {
			payload[i] = p1Alpha[x%3]
			x /= 3
		}
		pats := flushPatterns(L)
		for _, v := range variants {
			seen := map[string]bool{}
			for _, lv := range levels {
				for _, fp := range pats {
					data := g.gen(v.kind, lv, v.dictName, v.dict, payload, fp)
					if seen[string(data)] {
						continue
					}
					seen[string(data)] = true
					fam := "ref-P1:" + pkgName[v.kind]
					if v.dict != nil {
						fam += "+dict"
					}
					s := &stream{kind: v.kind, data: data, dict: v.dict, family: fam,
						desc: fmt.Sprintf("level=%d flush=%v payload=%x", lv, fp, payload)}
					p := prepare(s, &w.dOrig)
					if !p.valid || !bytes.Equal(p.original, payload) {
						ev.Fatal("reference encoder output does not round-trip: %s %s", fam, s.desc)
					}
					w.note(p)
					w.checkAll(p, true)
				}
			}
		}
	})
}

// ---- structured long payloads ----------------------------------------------------

func p2Payload(pattern string, n int) []byte {
	b := make([]byte, n)
	switch pattern {
	case "zeros":
	case "ff":
		for i := range b {
			b[i] = 0xFF
		}
	case "2cycle":
		for i := range b {
			if i&1 == 1 {
				b[i] = 'a'
			}
		}
	case "256cycle":
		for i := range b {
			b[i] = byte(i)
		}
	case "lcg":
		x := uint32(12345)
		for i := range b {
			x = x*1103515245 + 12345
			b[i] = byte(x >> 16)
		}
	case "skewed":
		// few symbols, skewed frequencies: makes the encoder choose dynamic Huffman blocks
		x := uint32(99)
		for i := range b {
			x = x*1103515245 + 12345
			v := (x >> 16) & 63
			switch {
			case v < 30:
				b[i] = 'e'
			case v < 45:
				b[i] = 't'
			case v < 53:
				b[i] = ' '
			case v < 58:
				b[i] = 0x00
			case v < 61:
				b[i] = 0xFF
			default:
				b[i] = byte(v)
			}
		}
	case "farmatch":
		blk := n / 4
		if blk > 24 {
			blk = 24
		}
		x := uint32(777)
		for i := 0; i < blk; i++ {
			x = x*1103515245 + 12345
			b[i] = byte(x >> 16)
		}
		for i := blk; i < n-blk; i++ {
			b[i] = byte(i * 7)
		}
		copy(b[n-blk:], b[:blk])
	}
	return b
}

var p2Patterns = []string{"zeros", "ff", "2cycle", "256cycle", "lcg", "skewed", "farmatch"}

func p2Dict() []byte {
	var d []byte
	d = append(d, p2Payload("lcg", 48)...)
	d = append(d, p2Payload("256cycle", 64)...)
	d = append(d, p2Payload("skewed", 64)...)
	d = append(d, "a\x00a\x00a\x00a\x00\xff\xff\xff\xff\x00\x00\x00\x00"...)
	return d
}

func refP2Streams(r *ev.Run, g *refGen) []*stream {
	var sizes []int
	for n := 0; n <= 40; n++ {
		sizes = append(sizes, n)
	}
	sizes = append(sizes, 255, 256, 257, 258, 259, 260, 4095, 4096, 4097)
	if r.Thorough() {
		sizes = append(sizes, 1023, 1024, 1025, 5000)
	}
	dict := p2Dict()
	variants := []variant{{kFlate, "", nil}, {kZlib, "", nil}, {kZlib, "p2", dict}}
	var out []*stream
	seen := map[string]bool{}
	for _, n := range sizes {
		for _, pat := range p2Patterns {
			payload := p2Payload(pat, n)
			pats := [][]int{nil, {n / 4, n / 2, 3 * n / 4}}
			if r.Thorough() {
				pats = append(pats, []int{n / 4}, []int{n / 2}, []int{3 * n / 4}, []int{n})
			}
			for _, v := range variants {
				for _, lv := range levels {
					for _, fp := range pats {
						data := g.gen(v.kind, lv, v.dictName, v.dict, payload, fp)
						key := fmt.Sprint(v.kind, v.dictName, "|") + string(data)
						if seen[key] {
							continue
						}
						seen[key] = true
						fam := "ref-P2:" + pkgName[v.kind]
						if v.dict != nil {
							fam += "+dict"
						}
						out = append(out, &stream{kind: v.kind, data: data, dict: v.dict, family: fam,
							desc: fmt.Sprintf("level=%d flush=%v pattern=%s n=%d", lv, fp, pat, n), mustValid: true})
					}
				}
			}
		}
	}
	return out
}

// ---- generic runner over materialised streams ------------------------------------

type unit struct {
	p      *prepared
	lo, hi int
	few    bool
}

func runStreams(r *ev.Run, ws []*worker, streams []*stream, allLimits bool) {
	preps := make([]*prepared, len(streams))
	ev.ParFor(len(streams), func(k, i int) {
		p := prepare(streams[i], &ws[k].dOrig)
		streams[i].checkModel(p)
		ws[k].note(p)
		preps[i] = p
	})
	var units []unit
	for _, p := range preps {
		if p.valid && allLimits {
			top := len(p.data) + 2
			step := top + 1
			if len(p.data) > 256 {
				step = 64
			}
			for lo := 0; lo <= top; lo += step {
				hi := lo + step - 1
				if hi > top {
					hi = top
				}
				units = append(units, unit{p, lo, hi, false})
			}
		} else {
			units = append(units, unit{p, 0, 0, true})
		}
	}
	ev.ParFor(len(units), func(k, i int) {
		if r.Expired() {
			return
		}
		u := units[i]
		if u.few {
			ws[k].checkAll(u.p, false)
		} else {
			ws[k].checkRange(u.p, u.lo, u.hi)
		}
	})
}

// ---- hand-built streams -------------------------------------------------------------

type handSet struct {
	streams []*stream
	seen    map[string]bool
	skipped int64
}

func (h *handSet) add(family string, blocks []*block, wrap string) {
	var hist []byte
	if wrap == "zlib+dict" {
		hist = handDict
	}
	data, want, expect, ok := buildWithHistory(blocks, hist)
	if !ok {
		h.skipped++
		return
	}
	s := &stream{kind: kFlate, data: data, family: family, desc: descBlocks(blocks), hasModel: true, want: want, expect: expect}
	switch wrap {
	case "zlib":
		s.kind = kZlib
		s.data = wrapZlib(data, want, nil)
		s.family += ":zlib"
	case "zlib+dict":
		s.kind = kZlib
		s.dict = handDict
		s.data = wrapZlib(data, want, handDict)
		s.family += ":zlib+dict"
	}
	key := fmt.Sprint(s.kind, len(s.dict), "|") + string(s.data)
	if h.seen[key] {
		return
	}
	h.seen[key] = true
	h.streams = append(h.streams, s)
}

var handDict = []byte("0123456789abcdefghij\x00\xff\x00\xffzyxwvu")

func wrapZlib(deflate, want, dict []byte) []byte {
	var b []byte
	if dict == nil {
		b = append(b, 0x78, 0x9c)
	} else {
		b = append(b, 0x78, 0xbb)
		a := adler32.Checksum(dict)
		b = append(b, byte(a>>24), byte(a>>16), byte(a>>8), byte(a))
	}
	b = append(b, deflate...)
	a := adler32.Checksum(want)
	return append(b, byte(a>>24), byte(a>>16), byte(a>>8), byte(a))
}

func buildWithHistory(blocks []*block, hist []byte) (data, want []byte, expect int, ok bool) {
	return buildH(blocks, hist)
}

func fixedBlk(s ...sym) *block { return &block{kind: 1, syms: s} }
func storedBlk(n int, pad uint32) *block {
	return &block{kind: 0, n: n, pad: pad}
}
func dynBlk(t *tree, s ...sym) *block { return &block{kind: 2, tr: t, syms: s} }

func handStreams(r *ev.Run) []*stream {
	T := trees()
	h := &handSet{seen: map[string]bool{}}
	thorough := r.Thorough()

	// --- one block: the full menu
	for _, n := range []int{0, 1, 5} {
		for _, pad := range []uint32{0, 1} {
			for _, wrap := range []string{"", "zlib", "zlib+dict"} {
				h.add("hand-1blk", []*block{storedBlk(n, pad)}, wrap)
			}
		}
	}
	fAlpha := []sym{lit(0x00), lit('a'), lit(0x90), lit(0xFF), match(3, 1), match(258, 1), matchAlt(1), match(4, 2), rawL(286)}
	if thorough {
		fAlpha = append(fAlpha, lit(0x8F), match(10, 3), match(3, 32768), rawD(30))
	}
	for _, s := range symStrings(fAlpha, 4) {
		h.add("hand-1blk", []*block{fixedBlk(s...)}, "")
		if len(s) <= 3 {
			h.add("hand-1blk", []*block{fixedBlk(s...)}, "zlib")
			h.add("hand-1blk", []*block{fixedBlk(s...)}, "zlib+dict")
		}
	}
	type style struct{ rle, skew, h19 bool }
	styles := []style{{true, false, false}, {true, true, false}, {false, false, true}, {false, true, false}}
	var treeNames []string
	for name := range T {
		treeNames = append(treeNames, name)
	}
	sortStrings(treeNames)
	for _, name := range treeNames {
		t := T[name]
		maxSyms := 3
		if len(t.alpha) > 4 && !thorough {
			maxSyms = 2
		}
		for _, st := range styles {
			ts := t.styled(st.rle, st.skew, st.h19)
			for _, s := range symStrings(t.alpha, maxSyms) {
				h.add("hand-1blk", []*block{dynBlk(ts, s...)}, "")
				if len(s) <= 2 {
					h.add("hand-1blk", []*block{dynBlk(ts, s...)}, "zlib")
				}
				if len(s) <= 1 && st.rle && !st.skew {
					h.add("hand-1blk", []*block{dynBlk(ts, s...)}, "zlib+dict")
				}
			}
		}
	}

	// --- two blocks: medium menu
	var m2 []*block
	m2 = append(m2, storedBlk(0, 0), storedBlk(1, 0), storedBlk(1, 1), storedBlk(5, 0))
	f2 := []sym{lit('a'), lit(0x90), match(3, 1), match(258, 1)}
	if thorough {
		f2 = append(f2, lit(0x00), match(4, 2))
	}
	for _, s := range symStrings(f2, 2) {
		m2 = append(m2, fixedBlk(s...))
	}
	dyn2 := []string{"eob-only", "eob-only/nodist", "a+eob", "a+eob/dist2", "3lit", "lz4sym", "chain15/eob-last", "chain15/eob-1bit", "chain15/eob-then-257", "8x3", "bytes257", "full286"}
	for _, name := range dyn2 {
		ts := T[name].styled(true, false, false)
		n := 1
		if thorough {
			n = 2
		}
		a := ts.alpha
		if len(a) > 3 {
			a = a[:3]
		}
		for _, s := range symStrings(a, n) {
			m2 = append(m2, dynBlk(ts, s...))
		}
	}
	m2 = append(m2, dynBlk(T["a+eob"].styled(false, true, false), lit('a')), dynBlk(T["8x3"].styled(false, false, true), lit('a'), match(3, 1)))
	for _, a := range m2 {
		for _, b := range m2 {
			h.add("hand-2blk", []*block{a, b}, "")
			h.add("hand-2blk", []*block{a, b}, "zlib")
		}
	}

	// --- three blocks: small menu
	m3 := []*block{storedBlk(0, 0), storedBlk(1, 1), storedBlk(5, 0),
		fixedBlk(), fixedBlk(lit('a')), fixedBlk(lit(0x90)), fixedBlk(match(3, 1)), fixedBlk(lit('a'), match(258, 1)),
		dynBlk(T["eob-only"].styled(true, false, false)), dynBlk(T["a+eob"].styled(true, false, false), lit('a')),
		dynBlk(T["lz4sym"].styled(true, false, false), lit('a'), match(3, 1)), dynBlk(T["chain15/eob-last"].styled(true, false, false), lit('a')),
		dynBlk(T["8x3"].styled(true, false, false)), dynBlk(T["bytes257"].styled(true, false, false), lit(255))}
	if thorough {
		m3 = append(m3, storedBlk(1, 0), fixedBlk(lit(0xFF), lit(0xFF)), fixedBlk(match(4, 2)), fixedBlk(matchAlt(1)),
			dynBlk(T["eob-only/dist2"].styled(false, true, false)), dynBlk(T["3lit"].styled(true, true, false), lit(0), lit(255)),
			dynBlk(T["chain15/eob-then-257"].styled(true, false, false), lit(0), match(3, 1)), dynBlk(T["chain15/eob-1bit"].styled(true, false, false), lit('a')),
			dynBlk(T["full286"].styled(true, false, false), lit('a'), match(5, 2)), dynBlk(T["8x3"].styled(true, false, false), lit(255), match(258, 2)))
	}
	for _, a := range m3 {
		for _, b := range m3 {
			for _, c := range m3 {
				h.add("hand-3blk", []*block{a, b, c}, "")
				if thorough {
					h.add("hand-3blk", []*block{a, b, c}, "zlib")
				}
			}
		}
	}
	r.Add("hand_specs_skipped_symbol_not_in_tree", h.skipped)
	return h.streams
}

// bigStreams: streams containing 65535-byte stored blocks (distance-32768
// matches become valid) and long Huffman blocks that expand (the only way to
// reach the 0xFFFF cap of the single-stored-block fallback).
func bigStreams(r *ev.Run) []*stream {
	T := trees()
	h := &handSet{seen: map[string]bool{}}
	big := storedBlk(65535, 0)
	far := T["far"].styled(true, false, false)
	tiny := []*block{storedBlk(1, 1), fixedBlk(), fixedBlk(lit('a')), fixedBlk(match(258, 32768)), dynBlk(far, match(258, 32768)), dynBlk(far, match(3, 24577), lit('a'))}
	h.add("hand-big-stored", []*block{big}, "")
	h.add("hand-big-stored", []*block{big}, "zlib")
	for _, x := range tiny {
		h.add("hand-big-stored", []*block{big, x}, "")
		h.add("hand-big-stored", []*block{x, big}, "")
	}
	h.add("hand-big-stored", []*block{big, fixedBlk(match(258, 32768))}, "zlib")
	if r.Thorough() {
		for _, x := range tiny {
			for _, y := range tiny {
				h.add("hand-big-stored", []*block{big, x, y}, "")
				h.add("hand-big-stored", []*block{x, big, y}, "")
				h.add("hand-big-stored", []*block{x, y, big}, "")
			}
		}
		h.add("hand-big-stored", []*block{big, big}, "")
		h.add("hand-big-stored", []*block{big, big, big}, "")
	} else {
		for _, xy := range [][2]*block{{tiny[0], tiny[3]}, {tiny[1], tiny[4]}} {
			h.add("hand-big-stored", []*block{big, xy[0], xy[1]}, "")
			h.add("hand-big-stored", []*block{xy[0], big, xy[1]}, "")
		}
	}
	// long expanding Huffman blocks
	rep := func(s sym, n int) []sym {
		out := make([]sym, n)
		for i := range out {
			out[i] = s
		}
		return out
	}
	h.add("hand-long-huffman", []*block{fixedBlk(rep(lit(0xFF), 70000)...)}, "")
	// non-uniform content, and a first part coded with 8-bit codes (no expansion) followed by a
	// part coded with 9-bit codes (expansion): the single-stored-block fallback then re-encodes
	// more than one 32 KiB decoder window, with input and output positions close together
	mixed := func(n8, n9 int) []sym {
		out := make([]sym, 0, n8+n9)
		for i := 0; i < n8; i++ {
			out = append(out, lit('0' + i%75))
		}
		for i := 0; i < n9; i++ {
			out = append(out, lit(0x90 + i%100))
		}
		return out
	}
	h.add("hand-long-huffman", []*block{fixedBlk(mixed(33000, 40000)...)}, "")
	h.add("hand-long-huffman", []*block{fixedBlk(mixed(0, 36000)...)}, "")
	if r.Thorough() {
		h.add("hand-long-huffman", []*block{fixedBlk(mixed(32768, 34000)...)}, "")
		h.add("hand-long-huffman", []*block{fixedBlk(mixed(65540, 9000)...)}, "")
		h.add("hand-long-huffman", []*block{fixedBlk(mixed(33000, 40000)...)}, "zlib")
		h.add("hand-long-huffman", []*block{fixedBlk(rep(lit(0xFF), 66000)...), storedBlk(1, 0)}, "")
		h.add("hand-long-huffman", []*block{dynBlk(T["chain15/eob-1bit"].styled(true, false, false), rep(lit('a'), 40000)...)}, "")
		h.add("hand-long-huffman", []*block{fixedBlk(rep(lit(0xFF), 70000)...)}, "zlib")
		h.add("hand-long-huffman", []*block{storedBlk(5, 0), fixedBlk(rep(lit(0x90), 67000)...)}, "")
	}
	return h.streams
}

// ---- robustness ------------------------------------------------------------------------

var robAlpha = [...][]byte{
	kFlate: {0x00, 0x01, 0x02, 0x03, 0x05, 0x07, 0xFE, 0xFF},
	kZlib:  {0x78, 0x9C, 0xBB, 0x00, 0x01, 0x03, 0xFE, 0xFF},
}

func (w *worker) arbitrary(kind int, family string, data []byte, allLimits bool) {
	s := &stream{kind: kind, data: append([]byte(nil), data...), family: family, desc: "enumerated byte string"}
	if kind == kZlib && len(data) >= 2 && data[1]&0x20 != 0 {
		s.dict = handDict
	}
	p := prepare(s, &w.dOrig)
	w.note(p)
	w.checkAll(p, allLimits)
}

func robustness(r *ev.Run, ws []*worker, seeds []*stream) {
	// every byte string of length <= 2
	ev.ParFor(257, func(k, i int) {
		w := ws[k]
		for kind := 0; kind < 2; kind++ {
			fam := "robust-len<=2:" + pkgName[kind]
			if i == 256 {
				w.arbitrary(kind, fam, nil, true)
				continue
			}
			w.arbitrary(kind, fam, []byte{byte(i)}, true)
			for j := 0; j < 256; j++ {
				w.arbitrary(kind, fam, []byte{byte(i), byte(j)}, true)
			}
		}
	})
	// length 3..maxL over an 8-byte alphabet; zlib additionally header + body
	maxL := 5
	bodyL := 5
	if r.Thorough() {
		maxL, bodyL = 6, 7
	}
	ev.ParFor(64, func(k, i int) {
		w := ws[k]
		for kind := 0; kind < 2; kind++ {
			A := robAlpha[kind]
			fam := "robust-alphabet:" + pkgName[kind]
			for L := 3; L <= maxL; L++ {
				b := make([]byte, L)
				b[0], b[1] = A[i/8], A[i%8]
				n := 1
				for j := 2; j < L; j++ {
					n *= 8
				}
				for x := 0; x < n; x++ {
					y := x
					for j := L - 1; j >= 2; j-- {
						b[j] = A[y%8]
						y /= 8
					}
					w.arbitrary(kind, fam, b, true)
				}
			}
		}
		if r.Expired() {
			return
		}
		// zlib: valid header (with and without FDICT) + first body byte by shard + body over the flate alphabet
		A := robAlpha[kFlate]
		a := adler32.Checksum(handDict)
		for _, hdr := range [][]byte{{0x78, 0x9c}, {0x78, 0x01}, {0x78, 0xbb, byte(a >> 24), byte(a >> 16), byte(a >> 8), byte(a)}, {0x78, 0xbb, 0, 0, 0, 1}} {
			for L := 2; L <= bodyL; L++ {
				b := make([]byte, len(hdr)+L)
				copy(b, hdr)
				body := b[len(hdr):]
				body[0], body[1] = A[i/8], A[i%8]
				n := 1
				for j := 2; j < L; j++ {
					n *= 8
				}
				for x := 0; x < n; x++ {
					y := x
					for j := L - 1; j >= 2; j-- {
						body[j] = A[y%8]
						y /= 8
					}
					w.arbitrary(kZlib, "robust-zlib-header+alphabet", b, true)
				}
			}
		}
	})
	// single-byte replacements of the seed streams
	type su struct {
		s   *stream
		pos int
	}
	var units []su
	for _, s := range seeds {
		for i := range s.data {
			units = append(units, su{s, i})
		}
	}
	ev.ParFor(len(units), func(k, i int) {
		if r.Expired() {
			return
		}
		u := units[i]
		w := ws[k]
		b := append([]byte(nil), u.s.data...)
		orig := b[u.pos]
		for v := 0; v < 256; v++ {
			if byte(v) == orig {
				continue
			}
			b[u.pos] = byte(v)
			s := &stream{kind: u.s.kind, data: append([]byte(nil), b...), dict: u.s.dict, family: "robust-seed-replace:" + pkgName[u.s.kind],
				desc: fmt.Sprintf("seed {%s} with byte %d replaced by %#02x", u.s.desc, u.pos, v)}
			p := prepare(s, &w.dOrig)
			w.note(p)
			w.checkAll(p, false)
		}
	})
}

func seedStreams(g *refGen) []*stream {
	T := trees()
	var out []*stream
	pay := p2Payload("skewed", 160)
	pay2 := append(p2Payload("farmatch", 60), p2Payload("2cycle", 40)...)
	dict := p2Dict()
	add := func(kind, lv int, dn string, d, payload []byte, fl []int) {
		out = append(out, &stream{kind: kind, dict: d, data: g.gen(kind, lv, dn, d, payload, fl), family: "seed",
			desc: fmt.Sprintf("%s level=%d flush=%v %d-byte payload dict=%q", pkgName[kind], lv, fl, len(payload), dn)})
	}
	for _, lv := range levels {
		add(kFlate, lv, "", nil, pay, nil)
	}
	for _, lv := range levels {
		add(kFlate, lv, "", nil, pay2, []int{30, 70})
	}
	add(kZlib, 0, "", nil, pay2, nil)
	add(kZlib, 5, "", nil, pay, []int{80})
	add(kZlib, -2, "", nil, pay, nil)
	add(kZlib, 5, "p2", dict, pay, nil)
	add(kZlib, 9, "p2", dict, pay2, []int{50})
	h := &handSet{seen: map[string]bool{}}
	h.add("seed", []*block{dynBlk(T["8x3"].styled(true, false, false), lit('a'), match(3, 1), lit(255), match(258, 2), match(4, 2))}, "")
	h.add("seed", []*block{fixedBlk(lit('a'), lit(0x90), match(3, 1), match(258, 1), lit(0), matchAlt(2))}, "")
	h.add("seed", []*block{storedBlk(5, 0), fixedBlk(lit('a'), match(3, 1)), dynBlk(T["lz4sym"].styled(true, false, false), lit('a'), match(3, 4))}, "")
	h.add("seed", []*block{dynBlk(T["chain15/eob-then-257"].styled(false, true, false), lit(0), match(3, 1), lit(0))}, "zlib")
	h.add("seed", []*block{storedBlk(5, 1), storedBlk(0, 0), storedBlk(5, 0)}, "")
	return append(out, h.streams...)
}

// ---- replay --------------------------------------------------------------------------------

func replay(path string) {
	b, err := os.ReadFile(path)
	if err != nil {
		ev.Fatal("%v", err)
	}
	var doc struct {
		Signature string  `json:"signature"`
		Witness   witness `json:"witness"`
	}
	if err := json.Unmarshal(b, &doc); err != nil {
		ev.Fatal("%v", err)
	}
	wt := doc.Witness
	data, _ := hex.DecodeString(wt.StreamHex)
	dict, _ := hex.DecodeString(wt.DictHex)
	if len(dict) == 0 {
		dict = nil
	}
	kind := kFlate
	if wt.Pkg == "zlibcut" {
		kind = kZlib
	}
	fmt.Printf("replaying %s\n %s.Cut on a %d-byte stream (%s; %s), maxEncodedLen=%d, writer=%v\n", doc.Signature, wt.Pkg, len(data), wt.Family, wt.Desc, wt.Limit, wt.WithWriter)
	var d1, d2 goDec
	p := prepare(&stream{kind: kind, data: data, dict: dict, family: wt.Family, desc: wt.Desc}, &d1)
	fmt.Printf(" reference decoder: valid=%v %s original=%d bytes, blocks=%s\n", p.valid, p.why, len(p.original), p.shape)
	fmt.Printf(" stream  = %x\n", clip(data, 96))
	buf := append([]byte(nil), data...)
	var wb bytes.Buffer
	var o cutObs
	if wt.WithWriter {
		o, _ = doCut(kind, &wb, buf, wt.Limit)
	} else {
		o, _ = doCut(kind, nil, buf, wt.Limit)
	}
	fmt.Printf(" observed: encodedLen=%d decodedLen=%d err=%q panic=%q\n", o.EncLen, o.DecLen, o.Err, o.Panic)
	if o.Err == "" && o.Panic == "" && o.EncLen >= 0 && o.EncLen <= len(buf) {
		fmt.Printf(" output  = %x\n", clip(buf[:o.EncLen], 96))
	}
	v := judge(p, wt.Limit, wt.WithWriter, o, buf, wb.Bytes(), &d2)
	if v.clause == "" {
		fmt.Println(" oracle: property holds on this witness (not reproduced)")
		return
	}
	fmt.Printf(" oracle: clause %q violated: %s\n", v.clause, v.detail)
	os.Exit(1)
}

func sortStrings(s []string) {
	for i := 1; i < len(s); i++ {
		for j := i; j > 0 && s[j] < s[j-1]; j-- {
			s[j], s[j-1] = s[j-1], s[j]
		}
	}
}

func main() {
	if len(os.Args) > 2 && os.Args[1] == "replay" {
		replay(os.Args[2])
		return
	}
	r := ev.Start("C16", "exploration")
	r.SetBudget(8*time.Minute, 45*time.Minute)
	nw := ev.Workers()
	watch := ev.NewWatch(nw)
	ws := make([]*worker, nw)
	gens := make([]*refGen, nw)
	for i := range ws {
		ws[i] = newWorker(r, i, watch)
		gens[i] = &refGen{}
	}
	watch.Start(90*time.Second, 12<<30, func(worker int, id int64, why string) {
		w := ws[worker]
		p := w.cur
		if p == nil {
			return
		}
		r.Violation(pkgName[p.kind]+".Cut:does-not-return:"+p.limitShape(w.curLimit), fmt.Sprintf("%s.Cut on a %d-byte stream with maxEncodedLen=%d: %s", pkgName[p.kind], len(p.data), w.curLimit, why),
			witness{Pkg: pkgName[p.kind], Family: p.family, Desc: p.desc, StreamHex: hex.EncodeToString(p.data), DictHex: hex.EncodeToString(p.dict), Limit: w.curLimit, Valid: p.valid, Clause: "does-not-return", Detail: why})
	}, func() {
		r.MarkCapped()
		r.Finish(ev.Coverage{Evaluations: 1, DistinctNontrivial: 2, Rule: "aborted by hang watchdog; see violation"}, nil)
	})

	maxLen := 7
	if r.Thorough() {
		maxLen = 9
	}
	t0 := time.Now()
	phase := func(name string) {
		r.Add("phase_ms_"+name, time.Since(t0).Milliseconds())
		t0 = time.Now()
	}
	// C16_PHASES (development aid only; unset = everything) selects phases.
	on := func(name string) bool {
		sel := os.Getenv("C16_PHASES")
		if sel != "" {
			r.MarkCapped() // a partial run is never reported as exhaustive
		}
		return sel == "" || strings.Contains(","+sel+",", ","+name+",")
	}
	hand := handStreams(r)
	phase("hand_build")
	if on("hand") {
		runStreams(r, ws, hand, true)
	}
	phase("hand_streams")
	p2 := refP2Streams(r, gens[0])
	if on("p2") {
		runStreams(r, ws, p2, true)
	}
	phase("ref_P2")
	seeds := seedStreams(gens[0])
	if on("rob") {
		runStreams(r, ws, seeds, true)
		robustness(r, ws, seeds)
	}
	phase("robustness")
	big := bigStreams(r)
	if on("big") {
		runStreams(r, ws, big, true)
	}
	phase("big_streams")
	if on("p1") {
		refP1(r, ws, gens, maxLen)
	}
	phase("ref_P1")
	for _, w := range ws {
		w.flush()
	}
	r.Add("hand_streams_enumerated", int64(len(hand)+len(big)))
	r.Add("ref_P2_streams", int64(len(p2)))
	r.Add("seed_streams", int64(len(seeds)))
	for _, s := range []*stream{hand[len(hand)/3], hand[2*len(hand)/3], p2[len(p2)/2], seeds[0]} {
		r.Sample(map[string]any{"family": s.family, "pkg": pkgName[s.kind], "desc": s.desc, "stream_hex": hex.EncodeToString(clip(s.data, 80)), "limits": fmt.Sprintf("0..%d, with and without writer", len(s.data)+2)})
	}
	r.Sample(map[string]any{"family": "ref-P1", "desc": "payload 00 61 ff 61 at level 5 with Flush after byte 2, as raw DEFLATE, zlib and zlib+FDICT, every limit"})
	cuts := r.Counters["cut_calls"]
	r.Finish(ev.Coverage{
		Evaluations:        cuts,
		DistinctNontrivial: r.Counters["nontrivial_cuts"],
		Rule: fmt.Sprintf("every payload over {00,'a',ff} of length <= %d and %d structured payloads (<= 5000 bytes) x compress/flate levels %v x flush patterns x {deflate, zlib, zlib+FDICT}, plus hand-written streams of <= 3 blocks (stored/fixed/dynamic incl. degenerate trees, 15-bit codes, 65535-byte stored blocks, expanding 70000-symbol blocks) accepted by compress/flate, each at EVERY maxEncodedLen in 0..len+2 with and without the writer; "+
			"robustness: all byte strings of length <= 2, length 3.. over 8-byte alphabets, zlib header + body, every single-byte replacement of %d seed streams; "+
			"evaluations = Cut calls; non-trivial = successful nil-writer cuts of a valid stream with limit < len(stream) and 0 < decodedLen < len(original) that pass the oracle (one per stream and limit)", maxLen, len(p2), levels, len(seeds)),
		Exhaustive: true,
		Extra:      map[string]any{"errors_on_valid_streams_one_sample_each(not violations)": errSamples},
	}, []string{
		"'valid stream' = compress/flate (compress/zlib) decodes it without error and consumes every byte, as DESIGN defines it",
		"the statement constrains successful cuts only: an error returned for a valid stream is counted (histogram errors_returned) but is not a violation",
		"limits below the documented minimum (2 / 8) get the robustness clause only",
		"streams over 1<<30 bytes (the internal clamp of maxEncodedLen) are out of reach",
	})
}
