package main

// An independent, deliberately simple DEFLATE walker written from RFC 1951
// (bit-at-a-time canonical decoding). It is NOT the oracle (the property
// names compress/flate as the observer); it supplies the block structure of a
// stream (for the path histogram and the violation signatures) and is itself
// cross-checked against compress/flate on every valid stream (ev.Fatal on a
// mismatch), which in turn validates the hand bit-writer's model.

import "errors"

var (
	rfcLBase  = [29]int{3, 4, 5, 6, 7, 8, 9, 10, 11, 13, 15, 17, 19, 23, 27, 31, 35, 43, 51, 59, 67, 83, 99, 115, 131, 163, 195, 227, 258}
	rfcLExtra = [29]uint{0, 0, 0, 0, 0, 0, 0, 0, 1, 1, 1, 1, 2, 2, 2, 2, 3, 3, 3, 3, 4, 4, 4, 4, 5, 5, 5, 5, 0}
	rfcDBase  = [30]int{1, 2, 3, 4, 5, 7, 9, 13, 17, 25, 33, 49, 65, 97, 129, 193, 257, 385, 513, 769, 1025, 1537, 2049, 3073, 4097, 6145, 8193, 12289, 16385, 24577}
	rfcDExtra = [30]uint{0, 0, 0, 0, 1, 1, 2, 2, 3, 3, 4, 4, 5, 5, 6, 6, 7, 7, 8, 8, 9, 9, 10, 10, 11, 11, 12, 12, 13, 13}
	rfcClOrd  = [19]int{16, 17, 18, 0, 8, 7, 9, 6, 10, 5, 11, 4, 12, 3, 13, 2, 14, 1, 15}
)

type blk struct {
	typ      int // 0 stored, 1 fixed, 2 dynamic
	final    bool
	startBit int // bit offset of the BFINAL bit
	dataBit  int // first symbol bit (Huffman) / LEN field (stored)
	endBit   int // one past the last bit of the block
	decStart int
	decEnd   int
	nsyms    int // literal / match symbols (EOB not counted)
	nmatch   int
	maxLen   int // longest code length declared in the block's trees
}

func (b blk) letter() string { return [...]string{"S", "F", "D"}[b.typ] }

type bitRd struct {
	b   []byte
	pos int
}

var errWalk = errors.New("walker: malformed")

func (r *bitRd) bits(n uint) (int, bool) {
	v := 0
	for i := uint(0); i < n; i++ {
		if r.pos>>3 >= len(r.b) {
			return 0, false
		}
		v |= int(r.b[r.pos>>3]>>(uint(r.pos)&7)&1) << i
		r.pos++
	}
	return v, true
}

type hcode struct {
	count  [16]int
	symbol []int
	max    int
}

func mkcode(lengths []int) hcode {
	var h hcode
	for _, l := range lengths {
		h.count[l]++
		if l > h.max {
			h.max = l
		}
	}
	var offs [17]int
	for i := 1; i <= 15; i++ {
		offs[i+1] = offs[i] + h.count[i]
	}
	h.symbol = make([]int, len(lengths))
	for s, l := range lengths {
		if l != 0 {
			h.symbol[offs[l]] = s
			offs[l]++
		}
	}
	h.count[0] = 0
	return h
}

func (r *bitRd) sym(h *hcode) int {
	code, first, index := 0, 0, 0
	for l := 1; l <= 15; l++ {
		b, ok := r.bits(1)
		if !ok {
			return -1
		}
		code |= b
		c := h.count[l]
		if code-c < first {
			return h.symbol[index+(code-first)]
		}
		index += c
		first += c
		first <<= 1
		code <<= 1
	}
	return -1
}

var fixedL, fixedD = func() (hcode, hcode) {
	l := make([]int, 288)
	for i := range l {
		switch {
		case i < 144:
			l[i] = 8
		case i < 256:
			l[i] = 9
		case i < 280:
			l[i] = 7
		default:
			l[i] = 8
		}
	}
	d := make([]int, 30)
	for i := range d {
		d[i] = 5
	}
	return mkcode(l), mkcode(d)
}()

// walk decodes a complete DEFLATE stream (history pre-loaded with dict). On
// malformed input it returns the blocks parsed so far together with errWalk.
func walk(data, dict []byte) (out []byte, blocks []blk, usedBytes int, err error) {
	r := &bitRd{b: data}
	hist := append([]byte(nil), dict...)
	base := len(hist)
	for {
		var b blk
		b.startBit = r.pos
		b.decStart = len(hist) - base
		f, ok := r.bits(1)
		if !ok {
			return nil, blocks, 0, errWalk
		}
		b.final = f == 1
		t, ok := r.bits(2)
		if !ok || t == 3 {
			return nil, blocks, 0, errWalk
		}
		b.typ = t
		if t == 0 {
			r.pos = (r.pos + 7) &^ 7
			b.dataBit = r.pos
			n, ok1 := r.bits(16)
			m, ok2 := r.bits(16)
			if !ok1 || !ok2 || n^m != 0xFFFF {
				return nil, blocks, 0, errWalk
			}
			p := r.pos >> 3
			if p+n > len(data) {
				return nil, blocks, 0, errWalk
			}
			hist = append(hist, data[p:p+n]...)
			r.pos += 8 * n
		} else {
			lc, dc := &fixedL, &fixedD
			if t == 2 {
				nl, ok1 := r.bits(5)
				nd, ok2 := r.bits(5)
				nc, ok3 := r.bits(4)
				if !ok1 || !ok2 || !ok3 {
					return nil, blocks, 0, errWalk
				}
				nl, nd, nc = nl+257, nd+1, nc+4
				var cl [19]int
				for i := 0; i < nc; i++ {
					v, ok := r.bits(3)
					if !ok {
						return nil, blocks, 0, errWalk
					}
					cl[rfcClOrd[i]] = v
				}
				ch := mkcode(cl[:])
				lens := make([]int, nl+nd)
				for i := 0; i < nl+nd; {
					s := r.sym(&ch)
					if s < 0 {
						return nil, blocks, 0, errWalk
					}
					if s < 16 {
						lens[i] = s
						i++
						continue
					}
					v, n := 0, 0
					switch s {
					case 16:
						if i == 0 {
							return nil, blocks, 0, errWalk
						}
						v = lens[i-1]
						e, ok := r.bits(2)
						if !ok {
							return nil, blocks, 0, errWalk
						}
						n = 3 + e
					case 17:
						e, ok := r.bits(3)
						if !ok {
							return nil, blocks, 0, errWalk
						}
						n = 3 + e
					case 18:
						e, ok := r.bits(7)
						if !ok {
							return nil, blocks, 0, errWalk
						}
						n = 11 + e
					}
					if i+n > nl+nd {
						return nil, blocks, 0, errWalk
					}
					for ; n > 0; n-- {
						lens[i] = v
						i++
					}
				}
				l, d := mkcode(lens[:nl]), mkcode(lens[nl:])
				lc, dc = &l, &d
				b.maxLen = l.max
				if d.max > b.maxLen {
					b.maxLen = d.max
				}
			} else {
				b.maxLen = 9
			}
			b.dataBit = r.pos
			for {
				s := r.sym(lc)
				if s < 0 {
					return nil, blocks, 0, errWalk
				}
				if s == 256 {
					break
				}
				b.nsyms++
				if s < 256 {
					hist = append(hist, byte(s))
					continue
				}
				s -= 257
				if s >= 29 {
					return nil, blocks, 0, errWalk
				}
				e, ok := r.bits(rfcLExtra[s])
				if !ok {
					return nil, blocks, 0, errWalk
				}
				length := rfcLBase[s] + e
				ds := r.sym(dc)
				if ds < 0 || ds >= 30 {
					return nil, blocks, 0, errWalk
				}
				e, ok = r.bits(rfcDExtra[ds])
				if !ok {
					return nil, blocks, 0, errWalk
				}
				dist := rfcDBase[ds] + e
				if dist > len(hist) {
					return nil, blocks, 0, errWalk
				}
				b.nmatch++
				for ; length > 0; length-- {
					hist = append(hist, hist[len(hist)-dist])
				}
			}
		}
		b.endBit = r.pos
		b.decEnd = len(hist) - base
		blocks = append(blocks, b)
		if b.final {
			break
		}
	}
	return hist[base:], blocks, (r.pos + 7) >> 3, nil
}
