package main

// Hand bit-writer: builds DEFLATE streams block by block from explicit symbol
// strings and code-length sets, together with a model of what they must decode
// to. compress/flate decides which of them are valid streams; where the model
// has an opinion, a disagreement with compress/flate is a harness error.

import (
	"fmt"
	"sort"
	"strings"
)

type bitW struct {
	b []byte
	n uint
}

func (w *bitW) bit(v uint32) {
	if w.n&7 == 0 {
		w.b = append(w.b, 0)
	}
	w.b[len(w.b)-1] |= byte(v&1) << (w.n & 7)
	w.n++
}

// bits writes k bits of v, least significant first (header fields, extra bits).
func (w *bitW) bits(v uint32, k uint) {
	for i := uint(0); i < k; i++ {
		w.bit(v >> i)
	}
}

// code writes a k-bit Huffman code, most significant bit first.
func (w *bitW) code(c uint32, k uint) {
	for i := k; i > 0; i-- {
		w.bit(c >> (i - 1))
	}
}

func (w *bitW) align(pad uint32) {
	for w.n&7 != 0 {
		w.bit(pad)
	}
}

// canon assigns canonical codes (RFC 1951 section 3.2.2).
func canon(lengths []int) []uint32 {
	var cnt [17]int
	for _, l := range lengths {
		cnt[l]++
	}
	cnt[0] = 0
	var next [17]uint32
	c := uint32(0)
	for b := 1; b <= 15; b++ {
		c = (c + uint32(cnt[b-1])) << 1
		next[b] = c
	}
	codes := make([]uint32, len(lengths))
	for s, l := range lengths {
		if l != 0 {
			codes[s] = next[l]
			next[l]++
		}
	}
	return codes
}

const (
	symLit   = iota
	symMatch // length/dist
	symRawL  // a raw literal/length symbol (e.g. 286) with no operand: always invalid
	symRawD  // a match of length 3 with raw distance symbol (30/31): always invalid
)

type sym struct {
	kind   int
	lit    int
	length int
	dist   int
	alt    bool // length 258 spelled as symbol 284 + extra 31
	raw    int
}

func lit(b int) sym      { return sym{kind: symLit, lit: b} }
func match(l, d int) sym { return sym{kind: symMatch, length: l, dist: d} }
func matchAlt(d int) sym { return sym{kind: symMatch, length: 258, dist: d, alt: true} }
func rawL(s int) sym     { return sym{kind: symRawL, raw: s} }
func rawD(s int) sym     { return sym{kind: symRawD, raw: s, length: 3} }
func (s sym) String() string {
	switch s.kind {
	case symLit:
		return fmt.Sprintf("%02x", s.lit)
	case symMatch:
		if s.alt {
			return fmt.Sprintf("(258via284,%d)", s.dist)
		}
		return fmt.Sprintf("(%d,%d)", s.length, s.dist)
	case symRawL:
		return fmt.Sprintf("L%d", s.raw)
	}
	return fmt.Sprintf("(3,D%d)", s.raw)
}

func lenSym(length int, alt bool) (s int, eb uint, ev uint32) {
	if length == 258 && !alt {
		return 285, 0, 0
	}
	for i := 27; i >= 0; i-- {
		if rfcLBase[i] <= length {
			return 257 + i, rfcLExtra[i], uint32(length - rfcLBase[i])
		}
	}
	panic("bad length")
}

func distSym(d int) (s int, eb uint, ev uint32) {
	for i := 29; i >= 0; i-- {
		if rfcDBase[i] <= d {
			return i, rfcDExtra[i], uint32(d - rfcDBase[i])
		}
	}
	panic("bad dist")
}

// tree is a dynamic block's pair of code-length sets plus header spelling.
type tree struct {
	name    string
	lit     [288]int
	dist    [32]int
	nlit    int // 0 = minimal
	ndist   int // 0 = minimal
	rle     bool
	skew    bool // skewed (long) code-length code instead of the balanced one
	hclen19 bool
	alpha   []sym // symbols worth using with this tree
	expect  int   // 0: model expects compress/flate to accept, 1: to reject, 2: no opinion
}

func (t *tree) styled(rle, skew, hclen19 bool) *tree {
	c := *t
	c.rle, c.skew, c.hclen19 = rle, skew, hclen19
	c.name = fmt.Sprintf("%s/%s%s%s", t.name, map[bool]string{true: "rle", false: "plain"}[rle], map[bool]string{true: "+skew", false: ""}[skew], map[bool]string{true: "+hclen19", false: ""}[hclen19])
	return &c
}

type block struct {
	kind int // 0 stored, 1 fixed, 2 dynamic
	n    int
	pad  uint32
	tr   *tree
	syms []sym
}

func (b *block) String() string {
	switch b.kind {
	case 0:
		return fmt.Sprintf("stored(%d,pad%d)", b.n, b.pad)
	case 1:
		return "fixed" + fmt.Sprint(b.syms)
	}
	return "dyn{" + b.tr.name + "}" + fmt.Sprint(b.syms)
}

func storedByte(blockIndex, i int) byte { return byte(i*131 + 7*blockIndex + 1) }

var fixedLitLens, fixedDistLens = func() ([]int, []int) {
	l := make([]int, 288)
	for i := range l {
		switch {
		case i < 144:
			l[i] = 8
		case i < 256:
			l[i] = 9
		case i < 280:
			l[i] = 7
		default:
			l[i] = 8
		}
	}
	d := make([]int, 32)
	for i := range d {
		d[i] = 5
	}
	return l, d
}()
var fixedLitCodes, fixedDistCodes = canon(fixedLitLens), canon(fixedDistLens)

// emitSyms writes the symbols and the end-of-block code; it updates the model
// output. ok=false: a symbol has no code in this tree (the spec is skipped).
// modelValid=false: the model says the stream is not valid DEFLATE.
func emitSyms(w *bitW, syms []sym, ll []int, lc []uint32, dl []int, dc []uint32, out *[]byte, modelValid *bool) (ok bool) {
	put := func(s int, l []int, c []uint32) bool {
		if s >= len(l) || l[s] == 0 {
			return false
		}
		w.code(c[s], uint(l[s]))
		return true
	}
	for _, s := range syms {
		switch s.kind {
		case symLit:
			if !put(s.lit, ll, lc) {
				return false
			}
			*out = append(*out, byte(s.lit))
		case symRawL:
			if !put(s.raw, ll, lc) {
				return false
			}
			*modelValid = false
		case symMatch, symRawD:
			ls, eb, evv := lenSym(s.length, s.alt)
			if !put(ls, ll, lc) {
				return false
			}
			w.bits(evv, eb)
			if s.kind == symRawD {
				if !put(s.raw, dl, dc) {
					return false
				}
				*modelValid = false
				continue
			}
			ds, eb, evv := distSym(s.dist)
			if !put(ds, dl, dc) {
				return false
			}
			w.bits(evv, eb)
			if s.dist > len(*out) {
				*modelValid = false
				continue
			}
			for i := 0; i < s.length; i++ {
				*out = append(*out, (*out)[len(*out)-s.dist])
			}
		}
	}
	if len(ll) > 256 && ll[256] == 0 {
		// a tree without an end-of-block code: the block can never end
		*modelValid = false
		return true
	}
	return put(256, ll, lc)
}

type clSym struct {
	s  int
	eb uint
	ev uint32
}

func clSequence(lens []int, rle bool) []clSym {
	var seq []clSym
	for i := 0; i < len(lens); {
		v := lens[i]
		run := 1
		for i+run < len(lens) && lens[i+run] == v {
			run++
		}
		if !rle {
			seq = append(seq, clSym{s: v})
			i++
			continue
		}
		if v == 0 && run >= 3 {
			n := run
			if n > 138 {
				n = 138
			}
			if n >= 11 {
				seq = append(seq, clSym{18, 7, uint32(n - 11)})
			} else {
				seq = append(seq, clSym{17, 3, uint32(n - 3)})
			}
			i += n
			continue
		}
		seq = append(seq, clSym{s: v})
		i++
		if v != 0 && run >= 4 {
			rest := run - 1
			for rest >= 3 {
				n := rest
				if n > 6 {
					n = 6
				}
				seq = append(seq, clSym{16, 2, uint32(n - 3)})
				i += n
				rest -= n
			}
		}
	}
	return seq
}

// emitDynHeader writes HLIT/HDIST/HCLEN, the code-length code and the two
// code-length sets.
func emitDynHeader(w *bitW, t *tree) (ll, dl []int) {
	nlit, ndist := t.nlit, t.ndist
	if nlit == 0 {
		nlit = 257
		for i := 257; i < 286; i++ {
			if t.lit[i] != 0 {
				nlit = i + 1
			}
		}
	}
	if ndist == 0 {
		ndist = 1
		for i := 1; i < 30; i++ {
			if t.dist[i] != 0 {
				ndist = i + 1
			}
		}
	}
	ll, dl = t.lit[:nlit], t.dist[:ndist]
	lens := append(append([]int{}, ll...), dl...)
	seq := clSequence(lens, t.rle)
	var freq [19]int
	for _, c := range seq {
		freq[c.s]++
	}
	var used []int
	for s, f := range freq {
		if f > 0 {
			used = append(used, s)
		}
	}
	var cl [19]int
	k := len(used)
	switch {
	case k == 1:
		cl[used[0]] = 1
	case t.skew && k <= 8:
		sort.SliceStable(used, func(i, j int) bool { return freq[used[i]] > freq[used[j]] })
		for i, s := range used {
			cl[s] = i + 1
			if i == k-1 {
				cl[s] = k - 1
			}
		}
	default:
		m := 0
		for 1<<(m+1) <= k {
			m++
		}
		short := 1<<(m+1) - k // symbols with m bits
		if 1<<m == k {
			short = k
		}
		sort.SliceStable(used, func(i, j int) bool { return freq[used[i]] > freq[used[j]] })
		for i, s := range used {
			if i < short {
				cl[s] = m
			} else {
				cl[s] = m + 1
			}
		}
	}
	clc := canon(cl[:])
	hclen := 4
	for i := 0; i < 19; i++ {
		if cl[rfcClOrd[i]] != 0 && i+1 > hclen {
			hclen = i + 1
		}
	}
	if t.hclen19 {
		hclen = 19
	}
	w.bits(uint32(nlit-257), 5)
	w.bits(uint32(ndist-1), 5)
	w.bits(uint32(hclen-4), 4)
	for i := 0; i < hclen; i++ {
		w.bits(uint32(cl[rfcClOrd[i]]), 3)
	}
	for _, c := range seq {
		w.code(clc[c.s], uint(cl[c.s]))
		w.bits(c.ev, c.eb)
	}
	return ll, dl
}

// build emits a stream of the given blocks (the last one is marked final).
// ok=false: some symbol cannot be written with its block's tree.
// expect: 0 model says valid (want = decoded bytes), 1 model says invalid, 2 no opinion (want meaningful if accepted).
func buildH(blocks []*block, hist []byte) (data, want []byte, expect int, ok bool) {
	w := &bitW{}
	want = append([]byte(nil), hist...)
	defer func() {
		if ok {
			want = want[len(hist):]
		}
	}()
	valid := true
	unsure := false
	for i, b := range blocks {
		f := uint32(0)
		if i == len(blocks)-1 {
			f = 1
		}
		w.bit(f)
		w.bits(uint32(b.kind), 2)
		switch b.kind {
		case 0:
			w.align(b.pad)
			w.bits(uint32(b.n), 16)
			w.bits(uint32(b.n)^0xFFFF, 16)
			for j := 0; j < b.n; j++ {
				c := storedByte(i, j)
				w.b = append(w.b, c)
				want = append(want, c)
			}
			w.n += 8 * uint(b.n)
		case 1:
			if !emitSyms(w, b.syms, fixedLitLens, fixedLitCodes, fixedDistLens, fixedDistCodes, &want, &valid) {
				return nil, nil, 0, false
			}
		case 2:
			ll, dl := emitDynHeader(w, b.tr)
			switch b.tr.expect {
			case 1:
				valid = false
			case 2:
				unsure = true
			}
			if !emitSyms(w, b.syms, ll, canon(ll), dl, canon(dl), &want, &valid) {
				return nil, nil, 0, false
			}
		}
	}
	switch {
	case !valid:
		expect = 1
	case unsure:
		expect = 2
	}
	return w.b, want, expect, true
}

func descBlocks(blocks []*block) string {
	var s []string
	for _, b := range blocks {
		s = append(s, b.String())
	}
	return strings.Join(s, " ")
}

// ---- menus -----------------------------------------------------------------

func mkTree(name string, litLens map[int]int, distLens map[int]int, alpha []sym) *tree {
	t := &tree{name: name, alpha: alpha, rle: true}
	for s, l := range litLens {
		t.lit[s] = l
	}
	for s, l := range distLens {
		t.dist[s] = l
	}
	return t
}

func chain(syms []int) map[int]int {
	// lengths 1,2,...,k-1,k-1 over the given symbols, in this order
	m := map[int]int{}
	for i, s := range syms {
		m[s] = i + 1
		if i == len(syms)-1 {
			m[s] = len(syms) - 1
		}
	}
	return m
}

func trees() map[string]*tree {
	T := map[string]*tree{}
	add := func(t *tree) *tree { T[t.name] = t; return t }
	d1 := map[int]int{0: 1}
	d2 := map[int]int{0: 1, 1: 1}
	none := map[int]int{}
	add(mkTree("eob-only", map[int]int{256: 1}, d1, nil))
	add(mkTree("eob-only/nodist", map[int]int{256: 1}, none, nil))
	add(mkTree("eob-only/dist2", map[int]int{256: 1}, d2, nil))
	add(mkTree("a+eob", map[int]int{'a': 1, 256: 1}, d1, []sym{lit('a')}))
	add(mkTree("a+eob/nodist", map[int]int{'a': 1, 256: 1}, none, []sym{lit('a')}))
	add(mkTree("a+eob/dist2", map[int]int{'a': 1, 256: 1}, d2, []sym{lit('a')}))
	add(mkTree("3lit", map[int]int{0: 2, 'a': 2, 255: 2, 256: 2}, d1, []sym{lit(0), lit('a'), lit(255)}))
	add(mkTree("3lit/nodist", map[int]int{0: 2, 'a': 2, 255: 2, 256: 2}, none, []sym{lit(0), lit('a'), lit(255)}))
	add(mkTree("lz4sym", map[int]int{'a': 2, 256: 2, 257: 2, 285: 2}, map[int]int{0: 1, 3: 1},
		[]sym{lit('a'), match(3, 1), match(258, 1), match(3, 4)}))
	// 15-bit codes
	c15 := []int{}
	for i := 0; i < 14; i++ {
		c15 = append(c15, i)
	}
	add(mkTree("chain15/eob-last", chain(append(append([]int{}, c15...), 'a', 256)), d1, []sym{lit(0), lit('a')}))
	add(mkTree("chain15/eob-1bit", chain(append(append([]int{256}, c15[:13]...), 13, 'a')), d1, []sym{lit(0), lit('a')}))
	add(mkTree("chain15/eob-then-257", chain(append(append([]int{}, c15...), 256, 257)), d1, []sym{lit(0), match(3, 1)}))
	add(mkTree("8x3", map[int]int{0: 3, 'a': 3, 255: 3, 256: 3, 257: 3, 258: 3, 284: 3, 285: 3}, d2,
		[]sym{lit('a'), lit(255), match(3, 1), match(258, 2), {kind: symMatch, length: 257, dist: 1}, match(4, 2)}))
	{
		t := mkTree("far", map[int]int{'a': 2, 256: 2, 257: 2, 285: 2}, map[int]int{29: 1}, []sym{match(258, 32768), match(3, 24577), lit('a')})
		t.nlit, t.ndist = 286, 30
		add(t)
	}
	{
		m := map[int]int{}
		for i := 0; i < 255; i++ {
			m[i] = 8
		}
		m[255], m[256] = 9, 9
		add(mkTree("bytes257", m, d1, []sym{lit(0), lit('a'), lit(255)}))
	}
	{
		m := map[int]int{}
		for i := 0; i < 286; i++ {
			if i < 226 {
				m[i] = 8
			} else {
				m[i] = 9
			}
		}
		d := map[int]int{}
		for i := 0; i < 30; i++ {
			if i < 2 {
				d[i] = 4
			} else {
				d[i] = 5
			}
		}
		add(mkTree("full286", m, d, []sym{lit('a'), lit(255), match(3, 1), match(258, 1), match(5, 2), match(3, 32768)}))
	}
	// trees compress/flate must reject
	for _, t := range []*tree{
		mkTree("bad/undersubscribed", map[int]int{'a': 2, 256: 2}, d1, []sym{lit('a')}),
		mkTree("bad/oversubscribed", map[int]int{0: 1, 'a': 1, 256: 1}, d1, []sym{lit('a')}),
		mkTree("bad/no-eob", map[int]int{0: 1, 'a': 1}, d1, []sym{lit('a')}),
	} {
		t.expect = 1
		add(t)
	}
	{
		t := mkTree("odd/dist-one-2bit-code", map[int]int{'a': 1, 256: 1}, map[int]int{0: 2}, []sym{lit('a')})
		t.expect = 2
		add(t)
	}
	return T
}

// strings over an alphabet of length <= maxLen
func symStrings(alpha []sym, maxLen int) [][]sym {
	out := [][]sym{{}}
	prev := [][]sym{{}}
	for l := 1; l <= maxLen; l++ {
		var cur [][]sym
		for _, p := range prev {
			for _, a := range alpha {
				s := append(append([]sym{}, p...), a)
				cur = append(cur, s)
			}
		}
		out = append(out, cur...)
		prev = cur
	}
	return out
}
