package main

import (
	"bytes"
	"compress/flate"
	"compress/zlib"
	"encoding/hex"
	"fmt"
	"io"
	"strings"
	"sync"

	"verif/internal/ev"

	"github.com/google/wuffs/lib/flatecut"
	"github.com/google/wuffs/lib/zlibcut"
)

const (
	kFlate = 0
	kZlib  = 1
)

var pkgName = [...]string{"flatecut", "zlibcut"}
var minLimit = [...]int{flatecut.SmallestValidMaxEncodedLen, zlibcut.SmallestValidMaxEncodedLen}

// stream is one element of the enumerated space.
type stream struct {
	kind   int
	data   []byte
	dict   []byte // zlib preset dictionary (FDICT) or nil
	family string
	desc   string

	mustValid bool   // reference-encoder output: compress/flate must accept it
	hasModel  bool   // hand-built: want/expect come from the bit-writer's model
	want      []byte // model's decompression
	expect    int    // 0 model: valid, 1 model: invalid, 2 no opinion
}

// checkModel is the self-check of the generators against compress/flate.
func (s *stream) checkModel(p *prepared) {
	if s.mustValid && !p.valid {
		ev.Fatal("self-check: reference encoder output rejected by the reference decoder (%s): %s %s", p.why, s.family, s.desc)
	}
	if !s.hasModel {
		return
	}
	switch {
	case s.expect == 0 && !p.valid:
		ev.Fatal("self-check: bit-writer model says valid, compress/flate says %s: %s %s %x", p.why, s.family, s.desc, clip(s.data, 64))
	case s.expect == 1 && p.valid:
		ev.Fatal("self-check: bit-writer model says invalid, compress/flate accepts: %s %s %x", s.family, s.desc, clip(s.data, 64))
	case p.valid && !bytes.Equal(p.original, s.want):
		ev.Fatal("self-check: bit-writer model and compress/flate decode differently: %s %s %x", s.family, s.desc, clip(s.data, 64))
	}
}

// prepared is a stream after classification by the reference decoders.
type prepared struct {
	*stream
	valid    bool   // compress/flate (compress/zlib) decodes it without error and consumes every byte
	why      string // when !valid
	original []byte
	blocks   []blk // block structure of the DEFLATE part (valid streams)
	pstart   int   // offset of the DEFLATE part (0 / 2 / 6)
	shape    string
}

// goDec wraps reusable compress/flate and compress/zlib readers.
type goDec struct {
	br  bytes.Reader
	fr  io.ReadCloser
	zr  io.ReadCloser
	buf []byte
}

// decode returns the decompressed bytes (aliasing d.buf), the number of
// unread source bytes and the decoder's error.
func (d *goDec) decode(kind int, data, dict []byte) (out []byte, unread int, err error) {
	d.br.Reset(data)
	var rd io.Reader
	if kind == kFlate {
		if d.fr == nil {
			d.fr = flate.NewReader(&d.br)
		} else if err := d.fr.(flate.Resetter).Reset(&d.br, nil); err != nil {
			return nil, d.br.Len(), err
		}
		rd = d.fr
	} else {
		if d.zr == nil {
			zr, err := zlib.NewReaderDict(&d.br, dict)
			if err != nil {
				return nil, d.br.Len(), err
			}
			d.zr = zr
		} else if err := d.zr.(zlib.Resetter).Reset(&d.br, dict); err != nil {
			return nil, d.br.Len(), err
		}
		rd = d.zr
	}
	if cap(d.buf) < 4096 {
		d.buf = make([]byte, 0, 4096)
	}
	out = d.buf[:0]
	for {
		if len(out) == cap(out) {
			out = append(out, 0)[:len(out)]
		}
		n, e := rd.Read(out[len(out):cap(out)])
		out = out[:len(out)+n]
		if e == io.EOF {
			break
		}
		if e != nil {
			d.buf = out[:0]
			return out, d.br.Len(), e
		}
	}
	d.buf = out[:0]
	return out, d.br.Len(), nil
}

func shapeOf(blocks []blk) string {
	var sb strings.Builder
	for i, b := range blocks {
		if i == 4 {
			sb.WriteString("+")
			break
		}
		sb.WriteString(b.letter())
		if b.typ != 0 && b.nsyms == 0 {
			sb.WriteString("0")
		}
		if b.typ == 0 && b.decEnd == b.decStart {
			sb.WriteString("0")
		}
	}
	return sb.String()
}

// prepare classifies a stream with the reference decoders and, for valid
// streams, cross-checks the independent walker against them.
func prepare(s *stream, d *goDec) *prepared {
	p := &prepared{stream: s}
	out, unread, err := d.decode(s.kind, s.data, s.dict)
	if err != nil {
		p.why = "go-decoder-error"
		return p
	}
	if unread != 0 {
		p.why = "trailing-bytes-after-stream"
		return p
	}
	p.valid = true
	p.original = append([]byte(nil), out...)
	if s.kind == kZlib {
		p.pstart = 2
		if s.data[1]&0x20 != 0 {
			p.pstart = 6
		}
	}
	end := len(s.data)
	if s.kind == kZlib {
		end -= 4
	}
	var hist []byte
	if p.pstart == 6 {
		hist = s.dict
	}
	wout, blocks, used, werr := walk(s.data[p.pstart:end], hist)
	if werr != nil || !bytes.Equal(wout, p.original) || used != end-p.pstart {
		ev.Fatal("self-check: independent walker disagrees with compress/flate on %s stream %x (family %s, %s): walker err=%v used=%d/%d equal=%v",
			pkgName[s.kind], clip(s.data, 64), s.family, s.desc, werr, used, end-p.pstart, bytes.Equal(wout, p.original))
	}
	p.blocks = blocks
	p.shape = shapeOf(blocks)
	return p
}

func clip(b []byte, n int) []byte {
	if len(b) > n {
		return b[:n]
	}
	return b
}

// limitShape names the block of the input in which the limit falls: this is
// the "abstract shape" part of a violation signature. For arbitrary bytes the
// leading blocks that still parse are used.
func (p *prepared) limitShape(limit int) string {
	prefix := ""
	blocks := p.blocks
	pstart := p.pstart
	if !p.valid {
		prefix = "arbitrary-bytes:"
		end := len(p.data)
		if p.kind == kZlib {
			if len(p.data) < 2 {
				return "arbitrary-bytes"
			}
			pstart = 2
			if p.data[1]&0x20 != 0 {
				pstart = 6
			}
			end -= 4
		}
		if end <= pstart {
			return "arbitrary-bytes"
		}
		_, blocks, _, _ = walk(p.data[pstart:end], nil)
	} else if limit >= len(p.data) {
		return "limit>=len"
	}
	pl := limit - pstart
	if p.kind == kZlib {
		pl -= 4
	}
	if pl < 0 {
		return prefix + "limit-in-header"
	}
	for i, b := range blocks {
		if 8*pl < b.endBit || (p.valid && i == len(blocks)-1) {
			if b.typ != 0 && b.nsyms == 0 {
				return prefix + "limit-in-empty-huffman-block"
			}
			pos := "first"
			if i > 0 {
				pos = "later"
			}
			e := ""
			if b.typ == 0 && b.decEnd == b.decStart {
				e = "empty-"
			}
			return prefix + "limit-in-" + e + b.letter() + "-" + pos + "-block"
		}
	}
	return prefix + "limit-in-unparsable-part"
}

// pathOf infers which internal route produced a successful cut.
func (p *prepared) pathOf(out []byte, encLen, decLen int) string {
	in := p.data
	if encLen == len(in) && bytes.Equal(out[:encLen], in) {
		return "whole-unchanged"
	}
	if p.kind == kZlib {
		if encLen < p.pstart+4 {
			return "other"
		}
		out = out[p.pstart : encLen-4]
		encLen -= p.pstart + 4
	} else {
		out = out[:encLen]
	}
	if encLen == 2 && out[0] == 3 && out[1] == 0 && decLen == 0 {
		return "fallback-empty-fixed"
	}
	if len(out) > 0 && out[0]&7 == 1 && p.blocks[0].typ != 0 {
		return "fallback-single-stored"
	}
	for i, b := range p.blocks {
		if b.decEnd == decLen && 8*encLen >= b.endBit && 8*encLen-b.endBit < 8 {
			if i == len(p.blocks)-1 {
				return "whole-rewritten"
			}
			return "dropped-trailing-blocks:after-" + b.letter()
		}
	}
	for i, b := range p.blocks {
		if b.decStart <= decLen && decLen < b.decEnd {
			pos := ":first"
			if i > 0 {
				pos = ":later"
			}
			if b.typ == 0 {
				return "stored-shortened" + pos
			}
			return "huffman-eob-inserted:" + b.letter() + pos
		}
	}
	return "other"
}

type cutObs struct {
	Panic  string `json:"panic,omitempty"`
	EncLen int    `json:"encoded_len"`
	DecLen int    `json:"decoded_len"`
	Err    string `json:"err,omitempty"`
}

// doCut calls the function under test on buf (which it modifies in place).
func doCut(kind int, w io.Writer, buf []byte, limit int) (o cutObs, failed bool) {
	defer func() {
		if e := recover(); e != nil {
			o.Panic = fmt.Sprint(e)
			failed = true
		}
	}()
	var err error
	if kind == kFlate {
		o.EncLen, o.DecLen, err = flatecut.Cut(w, buf, limit)
	} else {
		o.EncLen, o.DecLen, err = zlibcut.Cut(w, buf, limit)
	}
	if err != nil {
		o.Err = err.Error()
		return o, true
	}
	return o, false
}

func panicClass(s string) string {
	var b []byte
	for i := 0; i < len(s) && len(b) < 48; i++ {
		c := s[i]
		if c >= '0' && c <= '9' {
			if len(b) == 0 || b[len(b)-1] != '#' {
				b = append(b, '#')
			}
			continue
		}
		b = append(b, c)
	}
	return string(b)
}

// verdict is the outcome of the oracle on one call.
type verdict struct {
	clause string // "" = held
	detail string
}

// judge applies the property to one observed call. buf is the buffer after the
// call, wbuf the bytes the optional writer received (nil when no writer).
func judge(p *prepared, limit int, withWriter bool, o cutObs, buf []byte, wbuf []byte, d *goDec) verdict {
	if o.Panic != "" {
		return verdict{"panic:" + panicClass(o.Panic), o.Panic}
	}
	if o.Err != "" {
		return verdict{} // the statement constrains successful cuts only
	}
	// Success: lengths stay inside the limit and the buffer (both clauses).
	if o.EncLen < 0 || o.DecLen < 0 {
		return verdict{"negative-length", fmt.Sprintf("encodedLen=%d decodedLen=%d", o.EncLen, o.DecLen)}
	}
	if o.EncLen > limit {
		return verdict{"encodedLen>limit", fmt.Sprintf("encodedLen=%d > maxEncodedLen=%d", o.EncLen, limit)}
	}
	if o.EncLen > len(buf) {
		return verdict{"encodedLen>len", fmt.Sprintf("encodedLen=%d > len(encoded)=%d", o.EncLen, len(buf))}
	}
	if !p.valid || limit < minLimit[p.kind] {
		return verdict{}
	}
	out, unread, err := d.decode(p.kind, buf[:o.EncLen], p.dict)
	if err != nil {
		return verdict{"not-decodable", fmt.Sprintf("decoding encoded[:%d] fails: %v", o.EncLen, err)}
	}
	if o.DecLen > len(p.original) {
		return verdict{"decodedLen>original", fmt.Sprintf("decodedLen=%d > len(original)=%d", o.DecLen, len(p.original))}
	}
	if len(out) != o.DecLen {
		return verdict{"decodedLen-mismatch", fmt.Sprintf("encoded[:%d] decodes to %d bytes, decodedLen=%d", o.EncLen, len(out), o.DecLen)}
	}
	if !bytes.Equal(out, p.original[:o.DecLen]) {
		i := 0
		for i < len(out) && out[i] == p.original[i] {
			i++
		}
		return verdict{"wrong-bytes", fmt.Sprintf("decoded byte %d is %#02x, original has %#02x (decodedLen=%d)", i, out[i], p.original[i], o.DecLen)}
	}
	if withWriter && !bytes.Equal(wbuf, out) {
		return verdict{"writer-mismatch", fmt.Sprintf("writer received %d bytes, cut stream decodes to %d bytes", len(wbuf), len(out))}
	}
	if limit >= len(p.data) && o.DecLen != len(p.original) {
		return verdict{"not-whole-at-full-limit", fmt.Sprintf("limit %d >= len %d but decodedLen=%d of %d", limit, len(p.data), o.DecLen, len(p.original))}
	}
	// "the first that-many bytes form a complete valid stream": nothing may follow the stream's end.
	if unread != 0 {
		return verdict{"trailing-bytes", fmt.Sprintf("encoded[:%d] is a complete stream followed by %d extra bytes", o.EncLen, unread)}
	}
	return verdict{}
}

type witness struct {
	Pkg        string `json:"pkg"`
	Family     string `json:"family"`
	Desc       string `json:"desc"`
	StreamHex  string `json:"stream_hex"`
	DictHex    string `json:"dict_hex,omitempty"`
	Limit      int    `json:"limit"`
	WithWriter bool   `json:"with_writer"`
	Valid      bool   `json:"valid_stream"`
	Shape      string `json:"block_shape,omitempty"`
	Clause     string `json:"clause"`
	Detail     string `json:"detail"`
	Obs        cutObs `json:"observed"`
}

// worker holds per-goroutine state and local statistics.
type worker struct {
	r        *ev.Run
	id       int
	watch    *ev.Watch
	seq      int64
	dOrig    goDec
	dOut     goDec
	buf      []byte
	wb       bytes.Buffer
	cuts     int64
	succ     int64
	nontriv  int64
	errs     map[string]int64
	paths    map[string]int64
	shapes   map[string]int64
	fams     map[string]int64
	invalid  map[string]int64
	maxCode  map[string]int64
	outcomes map[string]int64
	errSeen  map[string]bool
	cur      *prepared // for the hang report
	curLimit int
}

func newWorker(r *ev.Run, id int, watch *ev.Watch) *worker {
	return &worker{r: r, id: id, watch: watch, errs: map[string]int64{}, paths: map[string]int64{}, shapes: map[string]int64{},
		fams: map[string]int64{}, invalid: map[string]int64{}, maxCode: map[string]int64{}, outcomes: map[string]int64{}}
}

func (w *worker) flush() {
	r := w.r
	r.Add("cut_calls", w.cuts)
	r.Add("cut_calls_successful", w.succ)
	r.Add("nontrivial_cuts", w.nontriv)
	r.MergeHist("errors_returned(pkg|stream class|text)", w.errs)
	r.MergeHist("cut_path_of_successful_cuts_on_valid_streams", w.paths)
	r.MergeHist("valid_stream_block_shapes(S=stored,F=fixed,D=dynamic,0=empty)", w.shapes)
	r.MergeHist("streams_by_family(valid|invalid)", w.fams)
	r.MergeHist("max_code_length_in_valid_streams", w.maxCode)
}

// one runs Cut once and applies the oracle.
func (w *worker) one(p *prepared, limit int, withWriter bool) {
	w.buf = append(w.buf[:0], p.data...)
	var wr io.Writer
	if withWriter {
		w.wb.Reset()
		wr = &w.wb
	}
	w.seq++
	w.cur, w.curLimit = p, limit
	w.watch.EnterFast(w.id, w.seq)
	o, failed := doCut(p.kind, wr, w.buf, limit)
	w.watch.Leave(w.id)
	w.cuts++
	var wbuf []byte
	if withWriter {
		wbuf = w.wb.Bytes()
	}
	v := judge(p, limit, withWriter, o, w.buf, wbuf, &w.dOut)
	vs := "arbitrary"
	if p.valid {
		vs = "valid"
		if p.dict != nil && p.pstart == 6 {
			vs = "valid+FDICT"
		}
	}
	if failed {
		if o.Err != "" {
			lc := ""
			if limit < minLimit[p.kind] {
				lc = "(limit<min)"
			}
			w.errs[pkgName[p.kind]+"|"+vs+lc+"|"+panicClass(o.Err)]++
			if p.valid && limit >= minLimit[p.kind] {
				w.errOnValid(p, limit, o.Err)
			}
		}
	} else {
		w.succ++
		if p.valid && limit >= minLimit[p.kind] && v.clause == "" && !withWriter {
			w.paths[pkgName[p.kind]+":"+p.pathOf(w.buf, o.EncLen, o.DecLen)]++
			if limit < len(p.data) && o.DecLen > 0 && o.DecLen < len(p.original) {
				w.nontriv++
			}
		}
	}
	if v.clause == "" {
		return
	}
	sig := pkgName[p.kind] + ".Cut:" + v.clause + ":" + p.limitShape(limit)
	wmode := "nil writer"
	if withWriter {
		wmode = "with writer"
	}
	what := fmt.Sprintf("%s.Cut(%s, %d-byte %s stream [%s], maxEncodedLen=%d): %s", pkgName[p.kind], wmode, len(p.data),
		map[bool]string{true: "valid", false: "arbitrary"}[p.valid], p.shape, limit, v.detail)
	w.r.Violation(sig, what, witness{Pkg: pkgName[p.kind], Family: p.family, Desc: p.desc, StreamHex: hex.EncodeToString(p.data),
		DictHex: hex.EncodeToString(p.dict), Limit: limit, WithWriter: withWriter, Valid: p.valid, Shape: p.shape, Clause: v.clause, Detail: v.detail, Obs: o})
}

// errOnValid keeps one sample per (package, stream class, error) of a valid
// stream for which Cut returned an error (not a violation; reported for triage).
func (w *worker) errOnValid(p *prepared, limit int, e string) {
	key := pkgName[p.kind] + "|" + panicClass(e)
	if p.pstart == 6 {
		key += "|FDICT"
	}
	if w.errSeen == nil {
		w.errSeen = map[string]bool{}
	}
	if w.errSeen[key] {
		return
	}
	w.errSeen[key] = true
	errSamplesMu.Lock()
	if _, ok := errSamples[key]; !ok {
		errSamples[key] = map[string]any{"pkg": pkgName[p.kind], "error": e, "limit": limit, "stream_hex": hex.EncodeToString(clip(p.data, 64)), "stream_len": len(p.data), "blocks": p.shape, "family": p.family, "desc": p.desc}
	}
	errSamplesMu.Unlock()
}

var (
	errSamplesMu sync.Mutex
	errSamples   = map[string]map[string]any{}
)

func (w *worker) note(p *prepared) {
	if p.valid {
		w.fams[p.family+"|valid"]++
		w.shapes[pkgName[p.kind]+":"+p.shape]++
		m := 0
		for _, b := range p.blocks {
			if b.maxLen > m {
				m = b.maxLen
			}
		}
		w.maxCode[fmt.Sprint(m)]++
	} else {
		w.fams[p.family+"|invalid"]++
	}
}

// robustLimits: {below the minimum, min, len/2, len, len+2}.
func robustLimits(kind, n int) []int {
	c := []int{0, 1, minLimit[kind], n / 2, n, n + 2}
	var out []int
	for _, l := range c {
		dup := false
		for _, x := range out {
			dup = dup || x == l
		}
		if !dup {
			out = append(out, l)
		}
	}
	return out
}

// checkRange runs every limit in [lo, hi] (valid streams) with and without the writer.
func (w *worker) checkRange(p *prepared, lo, hi int) {
	for l := lo; l <= hi; l++ {
		w.one(p, l, false)
		w.one(p, l, true)
	}
}

// checkAll: every limit from 0 (limits below the documented minimum get the
// robustness oracle only) to len+2 for valid streams; the robustness limits otherwise.
func (w *worker) checkAll(p *prepared, allLimits bool) {
	if p.valid && allLimits {
		w.checkRange(p, 0, len(p.data)+2)
		return
	}
	for _, l := range robustLimits(p.kind, len(p.data)) {
		w.one(p, l, false)
		w.one(p, l, true)
	}
}
