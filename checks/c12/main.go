// C12: both formatters change only white space and are idempotent.
//
// (A) lib/dumbindent: every text of length <= L over a 17-symbol alphabet that
//
//	an independent lexer deems lexically closed, x {2 spaces, 3 spaces, tabs};
//	plus every C file in the repository under whole-file and per-line
//	indentation perturbations.
//
// (B) lang/render (wuffsfmt): every .wuffs file in the repository and every
//
//	layout mutation of it (newline/blank-line/comment/semicolon insertion,
//	numeric literal respelling) that the formatter accepts.
package main

import (
	"bytes"
	"encoding/json"
	"fmt"
	"math/big"
	"os"
	"os/exec"
	"path/filepath"
	"sort"
	"strings"
	"sync/atomic"
	"time"

	"verif/internal/ev"

	"github.com/google/wuffs/lang/parse"
	"github.com/google/wuffs/lang/render"
	t "github.com/google/wuffs/lang/token"
	"github.com/google/wuffs/lib/dumbindent"
)

var alphabet = []byte{' ', '\t', '\n', '{', '}', '(', ')', ';', '"', '\'', '`', '/', '*', '\\', '#', '=', 'x'}

// closed reports whether every string, character, raw-string and comment
// delimiter in s is terminated. Written from the property statement, not from
// dumbindent: "..." and '...' end on their own line with \-escapes (an escape
// of the line end is not accepted), `...` and /*...*/ may span lines, //... runs
// to the end of the line.
func closed(s []byte) bool {
	lineStart := true // at the start of a physical line, outside any multi-line construct
	preprocCont := false
	for i := 0; i < len(s); {
		if lineStart {
			// Preprocessor lines (first non-blank byte '#', and their \-continuations)
			// are opaque to the indenter; to stay inside what both readings agree is
			// "terminated", such a line must be closed on its own.
			j := i
			for j < len(s) && (s[j] == ' ' || s[j] == '\t') {
				j++
			}
			if preprocCont || (j < len(s) && s[j] == '#') {
				e := bytes.IndexByte(s[i:], '\n')
				end := len(s)
				if e >= 0 {
					end = i + e
				}
				line := s[i:end]
				if !closedPlain(line) {
					return false
				}
				tr := bytes.TrimRight(line, " \t")
				preprocCont = len(tr) > 0 && tr[len(tr)-1] == '\\'
				if bytes.IndexByte(line, '`') >= 0 || bytes.Contains(line, []byte("/*")) {
					// even a closed raw string / comment inside a directive is read
					// differently by the two lexers when it hides a quote; keep out of scope
					if bytes.IndexByte(line, '"') >= 0 || bytes.IndexByte(line, '\'') >= 0 {
						return false
					}
				}
				i = end + 1
				continue
			}
			lineStart = false
		}
		switch c := s[i]; {
		case c == '\n':
			lineStart = true
			i++
		case c == '"' || c == '\'':
			j := i + 1
			for {
				if j >= len(s) || s[j] == '\n' {
					return false
				}
				if s[j] == '\\' {
					if j+1 >= len(s) || s[j+1] == '\n' {
						return false
					}
					j += 2
					continue
				}
				if s[j] == c {
					break
				}
				j++
			}
			i = j + 1
		case c == '`':
			j := bytes.IndexByte(s[i+1:], '`')
			if j < 0 {
				return false
			}
			i += 1 + j + 1
		case c == '/' && i+1 < len(s) && s[i+1] == '/':
			j := bytes.IndexByte(s[i:], '\n')
			if j < 0 {
				return true
			}
			i += j // the newline itself is handled above
		case c == '/' && i+1 < len(s) && s[i+1] == '*':
			j := bytes.Index(s[i+2:], []byte("*/"))
			if j < 0 {
				return false
			}
			i += 2 + j + 2
		default:
			i++
		}
	}
	return true
}

// closedPlain: the same lexer without preprocessor handling, for one line.
func closedPlain(s []byte) bool {
	for i := 0; i < len(s); {
		switch c := s[i]; {
		case c == '"' || c == '\'':
			j := i + 1
			for {
				if j >= len(s) {
					return false
				}
				if s[j] == '\\' {
					if j+1 >= len(s) {
						return false
					}
					j += 2
					continue
				}
				if s[j] == c {
					break
				}
				j++
			}
			i = j + 1
		case c == '`':
			j := bytes.IndexByte(s[i+1:], '`')
			if j < 0 {
				return false
			}
			i += 1 + j + 1
		case c == '/' && i+1 < len(s) && s[i+1] == '/':
			return true
		case c == '/' && i+1 < len(s) && s[i+1] == '*':
			j := bytes.Index(s[i+2:], []byte("*/"))
			if j < 0 {
				return false
			}
			i += 2 + j + 2
		default:
			i++
		}
	}
	return true
}

// normalise strips each line's leading and trailing blanks, trailing blank
// lines, and (oracle correction, see DESIGN "Oracle corrections") leading blank
// lines, which dumbindent removes on purpose (trimLeadingWhiteSpaceAndNewLines).
func normalise(s []byte) []byte {
	lines := bytes.Split(s, []byte("\n"))
	for i, l := range lines {
		lines[i] = bytes.Trim(l, " \t")
	}
	for len(lines) > 0 && len(lines[len(lines)-1]) == 0 {
		lines = lines[:len(lines)-1]
	}
	for len(lines) > 0 && len(lines[0]) == 0 {
		lines = lines[1:]
	}
	return bytes.Join(lines, []byte("\n"))
}

type optSpec struct {
	name string
	o    *dumbindent.Options
}

var optList = []optSpec{
	{"spaces2", nil},
	{"spaces3", &dumbindent.Options{Spaces: 3}},
	{"tabs", &dumbindent.Options{Tabs: true}},
}

type indWitness struct {
	Kind   string `json:"kind"`
	Opts   string `json:"opts"`
	Input  string `json:"input"`
	Output string `json:"output,omitempty"`
	Clause string `json:"clause"`
}

// shape abstracts a text for the violation signature: delimiter skeleton.
func shape(s []byte) string {
	var b []byte
	for _, c := range s {
		switch c {
		case ' ', '\t':
			if len(b) == 0 || b[len(b)-1] != '_' {
				b = append(b, '_')
			}
		case '\n':
			b = append(b, 'N')
		case '{', '}', '(', ')', '"', '\'', '`', '/', '*', '\\', '#', '=':
			b = append(b, c)
		default:
			if len(b) == 0 || b[len(b)-1] != 'x' {
				b = append(b, 'x')
			}
		}
	}
	if len(b) > 40 {
		b = b[:40]
	}
	return string(b)
}

// checkIndent runs the three oracles on one text; returns true if non-trivial
// (the formatter changed something).
func checkIndent(r *ev.Run, kind string, src []byte, buf1, buf2 *[]byte, sigShape bool) bool {
	changedAny := false
	n := len(src)
	nLines := bytes.Count(src, []byte("\n")) + 1
	growth := nLines*(6*n+64) + 4*n + 64
	for _, os_ := range optList {
		var out []byte
		fail := func(clause string) {
			sh := "file"
			if sigShape {
				sh = shape(src)
			}
			in := string(src)
			if len(in) > 4000 {
				in = in[:4000]
			}
			o := string(out)
			if len(o) > 4000 {
				o = o[:4000]
			}
			r.Violation("indent:"+clause+":"+kind+":"+sh, fmt.Sprintf("dumbindent %s opts=%s input=%q", clause, os_.name, in),
				indWitness{kind, os_.name, in, o, clause})
		}
		if p := safeFormat(&out, (*buf1)[:0], src, os_.o); p != "" {
			fail("panic:" + p)
			continue
		}
		*buf1 = out
		if len(out) > growth {
			fail("output-growth")
			continue
		}
		if !bytes.Equal(normalise(out), normalise(src)) {
			fail("not-whitespace-only")
			continue
		}
		var out2 []byte
		if p := safeFormat(&out2, (*buf2)[:0], out, os_.o); p != "" {
			fail("panic-on-own-output:" + p)
			continue
		}
		*buf2 = out2
		if !bytes.Equal(out, out2) {
			fail("not-idempotent")
		}
		if !bytes.Equal(out, src) {
			changedAny = true
		}
	}
	return changedAny
}

func safeFormat(out *[]byte, dst, src []byte, o *dumbindent.Options) (panicked string) {
	defer func() {
		if e := recover(); e != nil {
			panicked = fmt.Sprint(e)
			if len(panicked) > 40 {
				panicked = panicked[:40]
			}
		}
	}()
	*out = dumbindent.FormatBytes(dst, src, o)
	return ""
}

func indenterShort(r *ev.Run, maxLen int) (evals, nontrivial, closedCount int64) {
	A := len(alphabet)
	workers := ev.Workers()
	watch := NewWatchFor(r, workers)
	var nEval, nNon, nClosed atomic.Int64
	for L := 0; L <= maxLen; L++ {
		pre := L
		if pre > 3 {
			pre = 3
		}
		blocks := 1
		for i := 0; i < pre; i++ {
			blocks *= A
		}
		rest := L - pre
		inner := 1
		for i := 0; i < rest; i++ {
			inner *= A
		}
		LL := L
		ev.ParFor(blocks, func(w, b int) {
			if r.Expired() {
				return
			}
			txt := make([]byte, LL)
			bb := b
			for i := pre - 1; i >= 0; i-- {
				txt[i] = alphabet[bb%A]
				bb /= A
			}
			idx := make([]int, rest)
			var buf1, buf2 []byte
			var le, ln, lc int64
			for k := 0; k < inner; k++ {
				for i := 0; i < rest; i++ {
					txt[pre+i] = alphabet[idx[i]]
				}
				le++
				if closed(txt) {
					lc++
					watch.set(w, txt)
					if checkIndent(r, "short", txt, &buf1, &buf2, true) {
						ln++
					}
					watch.clear(w)
				}
				for i := rest - 1; i >= 0; i-- {
					idx[i]++
					if idx[i] < A {
						break
					}
					idx[i] = 0
				}
			}
			nEval.Add(le)
			nNon.Add(ln)
			nClosed.Add(lc)
		})
	}
	return nEval.Load(), nNon.Load(), nClosed.Load()
}

// hangWatch records the current input per worker so that a non-returning
// FormatBytes call can be reported with its witness.
type hangWatch struct {
	w    *ev.Watch
	cur  [][]byte
	seq  []int64
	kind []string
}

func NewWatchFor(r *ev.Run, workers int) *hangWatch {
	h := &hangWatch{w: ev.NewWatch(workers), cur: make([][]byte, workers), seq: make([]int64, workers), kind: make([]string, workers)}
	h.w.Start(60*time.Second, 6<<30, func(worker int, id int64, why string) {
		in := string(h.cur[worker])
		if len(in) > 4000 {
			in = in[:4000]
		}
		r.Violation("indent:hang:"+shape(h.cur[worker]), fmt.Sprintf("dumbindent.FormatBytes does not return (%s) on input %q", why, in),
			indWitness{"hang", "any", in, "", "terminates"})
	}, func() {
		r.MarkCapped()
		r.Finish(ev.Coverage{Evaluations: 1, DistinctNontrivial: 2, Rule: "aborted by hang watchdog; see violation"}, nil)
	})
	return h
}

func (h *hangWatch) set(worker int, txt []byte) {
	h.cur[worker] = txt
	h.seq[worker]++
	h.w.EnterFast(worker, h.seq[worker])
}
func (h *hangWatch) clear(worker int) { h.w.Leave(worker) }

func listFiles(root string, exts ...string) []string {
	var out []string
	filepath.Walk(root, func(p string, info os.FileInfo, err error) error {
		if err != nil {
			return nil
		}
		if info.IsDir() {
			if info.Name() == ".git" {
				return filepath.SkipDir
			}
			return nil
		}
		for _, e := range exts {
			if strings.HasSuffix(p, e) {
				out = append(out, p)
			}
		}
		return nil
	})
	sort.Strings(out)
	return out
}

func indenterFiles(r *ev.Run) (evals, nontrivial int64) {
	files := listFiles(ev.Repo(), ".c", ".h", ".cc")
	var nEval, nNon atomic.Int64
	watch := NewWatchFor(r, ev.Workers())
	type job struct {
		name string
		src  []byte
	}
	var jobs []job
	for _, f := range files {
		b, err := os.ReadFile(f)
		if err != nil || len(b) > 8<<20 {
			continue
		}
		if !closed(b) {
			r.Add("c_files_not_lexically_closed_skipped", 1)
			continue
		}
		jobs = append(jobs, job{f, b})
	}
	r.Add("c_files", int64(len(jobs)))
	relead := func(src []byte, f func(i int, lead []byte) []byte) []byte {
		lines := bytes.Split(src, []byte("\n"))
		var out []byte
		for i, l := range lines {
			tr := bytes.TrimLeft(l, " \t")
			lead := l[:len(l)-len(tr)]
			out = append(out, f(i, lead)...)
			out = append(out, tr...)
			if i != len(lines)-1 {
				out = append(out, '\n')
			}
		}
		return out
	}
	ev.ParFor(len(jobs), func(w, i int) {
		if r.Expired() {
			return
		}
		j := jobs[i]
		var b1, b2 []byte
		variants := [][]byte{j.src,
			relead(j.src, func(int, []byte) []byte { return nil }),
			relead(j.src, func(int, []byte) []byte { return []byte("\t") }),
			relead(j.src, func(int, []byte) []byte { return []byte("       ") }),
			relead(j.src, func(i int, l []byte) []byte {
				if i%2 == 0 {
					return nil
				}
				return append([]byte(" "), l...)
			}),
		}
		// the formatter's own output as a further starting point
		variants = append(variants, dumbindent.FormatBytes(nil, j.src, nil))
		nl := bytes.Count(j.src, []byte("\n"))
		if nl <= 600 {
			// every single line's leading white space altered, and every 2-line window joined
			lines := bytes.Split(j.src, []byte("\n"))
			for k := range lines {
				for _, lead := range []string{"", "\t", "       "} {
					v := relead(j.src, func(i int, l []byte) []byte {
						if i == k {
							return []byte(lead)
						}
						return l
					})
					variants = append(variants, v)
				}
				if k+1 < len(lines) {
					var v []byte
					for i, l := range lines {
						v = append(v, l...)
						if i == k {
							v = append(v, ' ')
						} else if i != len(lines)-1 {
							v = append(v, '\n')
						}
					}
					if closed(v) {
						variants = append(variants, v)
					}
				}
			}
		}
		for _, v := range variants {
			if !closed(v) {
				continue
			}
			watch.set(w, v)
			nEval.Add(1)
			if checkIndent(r, "file:"+filepath.Base(j.name), v, &b1, &b2, false) {
				nNon.Add(1)
			}
			watch.clear(w)
		}
	})
	return nEval.Load(), nNon.Load()
}

// ---- Wuffs formatter -------------------------------------------------------

type fmtResult struct {
	ok     bool
	stream []string // tokens and comments in order, numerics canonicalised
	out    []byte
}

func canonNum(s string) string {
	if len(s) == 0 || s[0] < '0' || s[0] > '9' {
		return s
	}
	c := strings.ReplaceAll(s, "_", "")
	v, ok := new(big.Int).SetString(c, 0)
	if !ok {
		return s
	}
	return "#" + v.String()
}

func tokStream(tm *t.Map, toks []t.Token, comments []string) []string {
	var out []string
	ci := uint32(0)
	emitComments := func(upto uint32) {
		for ; ci < upto && int(ci) < len(comments); ci++ {
			if comments[ci] != "" {
				out = append(out, strings.TrimRight(comments[ci], " "))
			}
		}
	}
	for _, tk := range toks {
		emitComments(tk.Line)
		out = append(out, canonNum(tm.ByID(tk.ID)))
	}
	emitComments(uint32(len(comments)))
	return out
}

func runFmtSafe(src []byte) (res fmtResult, stage string, err error) {
	defer func() {
		if e := recover(); e != nil {
			err = fmt.Errorf("panic: %v", e)
		}
	}()
	return runFmt(src)
}

func runFmt(src []byte) (res fmtResult, stage string, err error) {
	tm := &t.Map{}
	toks, comments, err := t.Tokenize(tm, "x.wuffs", src)
	if err != nil {
		return res, "tokenize", err
	}
	if _, err := parse.Parse(tm, "x.wuffs", toks, &parse.Options{AllowDoubleUnderscoreNames: true}); err != nil {
		return res, "parse", err
	}
	buf := &bytes.Buffer{}
	if err := render.Render(buf, tm, toks, comments); err != nil {
		return res, "render", err
	}
	return fmtResult{true, tokStream(tm, toks, comments), buf.Bytes()}, "", nil
}

type fmtWitness struct {
	Seed     string `json:"seed"`
	Mutation string `json:"mutation"`
	Clause   string `json:"clause"`
	Detail   string `json:"detail"`
	Source   string `json:"source"`
}

// checkFmt returns (accepted, changed).
func checkFmt(r *ev.Run, seed, mut string, src []byte) (accepted, changed bool) {
	defer func() {
		if e := recover(); e != nil {
			// A crash of the toolchain is C11's business; counted, not reported here.
			r.Add("fmt_panics_seen(C11)", 1)
		}
	}()
	a, _, err := runFmt(src)
	if err != nil {
		return false, false
	}
	fail := func(clause, detail string) {
		s := string(src)
		if len(s) > 6000 {
			s = s[:6000]
		}
		kind := mut
		if i := strings.IndexByte(kind, '@'); i >= 0 {
			kind = kind[:i]
		}
		r.Violation("fmt:"+clause+":"+kind+":"+detailClass(detail), fmt.Sprintf("wuffsfmt %s on %s mutated by %s: %s", clause, seed, mut, detail),
			fmtWitness{seed, mut, clause, detail, s})
	}
	b, stage, err := runFmt(a.out)
	if err != nil {
		fail("output-rejected", stage+": "+err.Error())
		return true, true
	}
	if len(a.stream) != len(b.stream) {
		fail("tokens-changed", fmt.Sprintf("stream length %d -> %d; first difference: %s", len(a.stream), len(b.stream), firstDiff(a.stream, b.stream)))
		return true, true
	}
	for i := range a.stream {
		if a.stream[i] != b.stream[i] {
			fail("tokens-changed", firstDiff(a.stream, b.stream))
			return true, true
		}
	}
	if !bytes.Equal(a.out, b.out) {
		fail("not-idempotent", firstLineDiff(a.out, b.out))
	}
	return true, !bytes.Equal(a.out, src)
}

func detailClass(d string) string {
	// strip digits and quoted parts so that one root cause gives one signature
	var b []byte
	inq := false
	for i := 0; i < len(d) && len(b) < 60; i++ {
		c := d[i]
		if c == '"' {
			inq = !inq
			continue
		}
		if inq || (c >= '0' && c <= '9') {
			continue
		}
		b = append(b, c)
	}
	return string(b)
}

func firstDiff(a, b []string) string {
	n := len(a)
	if len(b) < n {
		n = len(b)
	}
	for i := 0; i < n; i++ {
		if a[i] != b[i] {
			lo := i - 3
			if lo < 0 {
				lo = 0
			}
			return fmt.Sprintf("at %d: %q vs %q (context %q)", i, a[i], b[i], a[lo:i])
		}
	}
	return fmt.Sprintf("one is a prefix of the other at %d", n)
}

func firstLineDiff(a, b []byte) string {
	la, lb := bytes.Split(a, []byte("\n")), bytes.Split(b, []byte("\n"))
	for i := 0; i < len(la) && i < len(lb); i++ {
		if !bytes.Equal(la[i], lb[i]) {
			return fmt.Sprintf("line %d: %q vs %q", i+1, la[i], lb[i])
		}
	}
	return "length"
}

var numSpellings = func(s string) []string {
	c := strings.ReplaceAll(s, "_", "")
	out := []string{c, strings.ToLower(c), strings.ToUpper(c)}
	if len(c) > 2 && (c[1] == 'x' || c[1] == 'X') {
		d := c[2:]
		out = append(out, "0x"+strings.ToLower(d), "0X"+d)
		if len(d) > 1 {
			out = append(out, "0x"+d[:1]+"_"+d[1:], "0x"+d[:len(d)-1]+"_"+d[len(d)-1:])
		}
	} else if len(c) > 1 && c[0] != '0' {
		out = append(out, c[:1]+"_"+c[1:], c[:len(c)-1]+"_"+c[len(c)-1:])
	}
	if c != "" && c[0] >= '0' && c[0] <= '9' && !(len(c) > 1 && (c[1] == 'x' || c[1] == 'X' || c[1] == 'b' || c[1] == 'B')) {
		// a leading zero separated by an underscore (0_17): if the tokenizer takes it, the
		// formatter must not turn it into something the tokenizer refuses (017).
		out = append(out, "0_"+c, "00_"+c, "0_0_"+c)
	} else if len(c) > 2 {
		out = append(out, c[:2]+"_"+c[2:], c[:2]+"0_"+c[2:])
	}
	return out
}

func wuffsFormatter(r *ev.Run) (evals, accepted, nontrivial int64) {
	// quick: files over 300 lines get every 8th line mutated (rotated by VERIF_SEED); thorough: every line.
	stride := 8
	if r.Thorough() {
		stride = 1
	}
	r.Add("formatter_line_stride_for_large_files", int64(stride))
	files := listFiles(ev.Repo(), ".wuffs")
	var nEval, nAcc, nNon atomic.Int64
	type job struct {
		seed string
		src  []byte
	}
	var jobs []job
	for _, f := range files {
		b, err := os.ReadFile(f)
		if err != nil {
			continue
		}
		jobs = append(jobs, job{strings.TrimPrefix(f, ev.Repo()+"/"), b})
	}
	r.Add("wuffs_seed_files", int64(len(jobs)))
	// Per-file mutation list is generated lazily; shard by (file, mutation index block).
	type unit struct {
		j      job
		lo, hi int // token-boundary / line index range
		kind   string
	}
	var units []unit
	nChunks, nWhole := 0, 0
	for _, j := range jobs {
		units = append(units, unit{j, 0, 0, "seed"})
		// Split into top-level chunks (a blank line followed by a line starting in
		// column 0 while no '{' is open): formatting state does not cross them, and a
		// chunk re-parses ~20x faster than the file. A chunk the formatter rejects on
		// its own falls back to whole-file mutation.
		lines := bytes.Split(j.src, []byte("\n"))
		depth, start := 0, 0
		flush := func(end int) {
			if end <= start {
				return
			}
			chunk := bytes.Join(lines[start:end], []byte("\n"))
			chunk = append(chunk, '\n')
			cj := job{fmt.Sprintf("%s[%d:%d]", j.seed, start+1, end), chunk}
			if _, _, err := runFmtSafe(chunk); err != nil {
				cj = job{j.seed, j.src}
				for lo := start; lo < end; lo += 16 {
					hi := lo + 16
					if hi > end {
						hi = end
					}
					units = append(units, unit{cj, lo, hi, "line"})
				}
				nWhole++
			} else {
				n := end - start
				for lo := 0; lo < n; lo += 32 {
					hi := lo + 32
					if hi > n {
						hi = n
					}
					units = append(units, unit{cj, lo, hi, "line"})
				}
				nChunks++
			}
			start = end
		}
		for k, l := range lines {
			if depth == 0 && k > start && len(bytes.TrimSpace(lines[k-1])) == 0 && len(l) > 0 && l[0] != ' ' && l[0] != '\t' && l[0] != '}' && l[0] != ')' {
				flush(k)
			}
			code := l
			if i := bytes.Index(l, []byte("//")); i >= 0 {
				code = l[:i]
			}
			inq := byte(0)
			for _, c := range code {
				if inq != 0 {
					if c == inq {
						inq = 0
					}
					continue
				}
				switch c {
				case '"', '\'':
					inq = c
				case '{', '(', '[':
					depth++
				case '}', ')', ']':
					depth--
				}
			}
		}
		flush(len(lines))
	}
	r.Add("formatter_chunks", int64(nChunks))
	r.Add("formatter_chunks_falling_back_to_whole_file", int64(nWhole))
	ev.ParFor(len(units), func(w, ui int) {
		if r.Expired() {
			return
		}
		u := units[ui]
		try := func(mut string, src []byte) {
			nEval.Add(1)
			acc, ch := checkFmt(r, u.j.seed, mut, src)
			if acc {
				nAcc.Add(1)
			}
			if ch {
				nNon.Add(1)
			}
		}
		if u.kind == "seed" {
			try("none", u.j.src)
			try("crlf-free-trailing-space", bytes.ReplaceAll(u.j.src, []byte("\n"), []byte(" \n")))
			try("no-indent", func() []byte {
				var o []byte
				for _, l := range bytes.Split(u.j.src, []byte("\n")) {
					o = append(o, bytes.TrimLeft(l, " \t")...)
					o = append(o, '\n')
				}
				return o
			}())
			try("tabs-to-8-spaces", bytes.ReplaceAll(u.j.src, []byte("    "), []byte("\t")))
			return
		}
		lines := bytes.Split(u.j.src, []byte("\n"))
		join := func(ls [][]byte) []byte { return bytes.Join(ls, []byte("\n")) }
		repl := func(k int, with ...[]byte) []byte {
			ls := make([][]byte, 0, len(lines)+len(with))
			ls = append(ls, lines[:k]...)
			ls = append(ls, with...)
			ls = append(ls, lines[k+1:]...)
			return join(ls)
		}
		for k := u.lo; k < u.hi; k++ {
			// cost per mutant grows with the chunk, so large chunks are line-strided
			// (rotated by VERIF_SEED): quick 1+(n/120)^2, thorough 1+n/400.
			st := 1 + (len(lines)/120)*(len(lines)/120)
			if stride == 1 {
				st = 1 + len(lines)/400
			}
			if (k+int(r.Seed))%st != 0 {
				continue
			}
			l := lines[k]
			at := fmt.Sprintf("@%d", k+1)
			// blank-line runs 0..3 before this line
			for n := 1; n <= 3; n++ {
				w := make([][]byte, 0, n+1)
				for i := 0; i < n; i++ {
					w = append(w, nil)
				}
				try(fmt.Sprintf("blank%d%s", n, at), repl(k, append(w, l)...))
			}
			if len(bytes.TrimSpace(l)) == 0 && k+1 < len(lines) {
				// remove a blank line
				ls := append(append([][]byte{}, lines[:k]...), lines[k+1:]...)
				try("blank0"+at, join(ls))
			}
			hasComment := bytes.Contains(l, []byte("//"))
			if !hasComment {
				try("comment-eol"+at, repl(k, append(append([]byte{}, l...), []byte(" // zz")...)))
				try("semicolon-eol"+at, repl(k, append(append([]byte{}, l...), ';')))
			}
			try("comment-own-line"+at, repl(k, []byte("// zz  "), l))
			// join with next line (newline removed)
			if k+1 < len(lines) && !hasComment {
				ls := append(append([][]byte{}, lines[:k]...), append(append(append([]byte{}, l...), ' '), lines[k+1]...))
				ls = append(ls, lines[k+2:]...)
				try("join"+at, join(ls))
			}
			// newline / extra spaces inserted at every token gap of this line (outside strings/comments)
			code := l
			if i := bytes.Index(l, []byte("//")); i >= 0 {
				code = l[:i]
			}
			inq := byte(0)
			for p := 1; p < len(code); p++ {
				c := code[p-1]
				if inq != 0 {
					if c == inq {
						inq = 0
					}
					continue
				}
				if c == '"' || c == '\'' {
					inq = c
					continue
				}
				isWord := func(b byte) bool {
					return b == '_' || (b >= '0' && b <= '9') || (b >= 'a' && b <= 'z') || (b >= 'A' && b <= 'Z')
				}
				if isWord(code[p-1]) && isWord(code[p]) {
					continue // inside an identifier / literal
				}
				for _, ins := range []string{"\n", "   "} {
					m := append(append(append([]byte{}, l[:p]...), ins...), l[p:]...)
					try("gap"+fmt.Sprintf("%q", ins)+at, repl(k, m))
				}
			}
			// numeric literal respellings
			for p := 0; p < len(code); {
				if code[p] >= '0' && code[p] <= '9' && (p == 0 || !isWordByte(code[p-1])) {
					q := p
					for q < len(code) && isWordByte(code[q]) {
						q++
					}
					for _, sp := range numSpellings(string(code[p:q])) {
						m := append(append(append([]byte{}, l[:p]...), sp...), l[q:]...)
						try("num"+at, repl(k, m))
					}
					p = q
				} else {
					p++
				}
			}
		}
	})
	return nEval.Load(), nAcc.Load(), nNon.Load()
}

// formatterCommand exercises the formatter as users run it: the wuffsfmt binary built from the
// working tree (stdin -> stdout mode and -w mode), on every .wuffs file and on every source of up
// to 3 lines over a small alphabet of line kinds (so comment-only, blank-only and token-free
// sources are all there). Same oracle as the in-process pass, applied to the command's output.
func formatterCommand(r *ev.Run) (evals, nontrivial int64) {
	scratch := os.Getenv("VERIF_SCRATCH")
	if scratch == "" {
		d, _ := os.MkdirTemp("/dev/shm", "verif-c12-")
		defer os.RemoveAll(d)
		scratch = d
	}
	bin := filepath.Join(scratch, "wuffsfmt")
	cmd := exec.Command("go", "build", "-o", bin, "github.com/google/wuffs/cmd/wuffsfmt")
	cmd.Dir = ev.Root
	if o, err := cmd.CombinedOutput(); err != nil {
		ev.Fatal("building cmd/wuffsfmt failed: %v\n%s", err, o)
	}
	type job struct {
		name string
		src  []byte
	}
	var jobs []job
	for _, f := range listFiles(ev.Repo(), ".wuffs") {
		b, err := os.ReadFile(f)
		if err == nil {
			jobs = append(jobs, job{strings.TrimPrefix(f, ev.Repo()+"/"), b})
		}
	}
	lines := []string{"// c\n", "\n", "pri const X : base.u8 = 0x1f\n", "pub status \"#bad\"  // why\n", "   // indented comment\n", "pri func foo.bar() {\n}\n"}
	var rec func(prefix string, depth int)
	rec = func(prefix string, depth int) {
		jobs = append(jobs, job{fmt.Sprintf("tiny%q", prefix), []byte(prefix)})
		if depth == 3 {
			return
		}
		for _, l := range lines {
			rec(prefix+l, depth+1)
		}
	}
	rec("", 0)
	jobs = append(jobs, job{"tiny-no-final-newline", []byte("// only a comment")}, job{"tiny-spaces", []byte("   \n\t\n")})
	run := func(args []string, stdin []byte) (out []byte, code int) {
		c := exec.Command(bin, args...)
		if stdin != nil {
			c.Stdin = bytes.NewReader(stdin)
		}
		var so bytes.Buffer
		c.Stdout = &so
		err := c.Run()
		if err != nil {
			if ee, ok := err.(*exec.ExitError); ok {
				return so.Bytes(), ee.ExitCode()
			}
			ev.Fatal("running wuffsfmt: %v", err)
		}
		return so.Bytes(), 0
	}
	var nEval, nNon atomic.Int64
	ev.ParFor(len(jobs), func(w, i int) {
		j := jobs[i]
		ref, _, refErr := runFmtSafe(j.src) // in-process Tokenize+Parse+Render: decides "accepted", supplies the input's stream
		out, code := run(nil, j.src)
		nEval.Add(1)
		fail := func(clause, detail string) {
			s := string(j.src)
			if len(s) > 6000 {
				s = s[:6000]
			}
			r.Violation("fmt:command:"+clause, fmt.Sprintf("cmd/wuffsfmt on %s: %s: %s", j.name, clause, detail), fmtWitness{j.name, "command", clause, detail, s})
		}
		if refErr != nil {
			return // not a source the formatter accepts (the command's exit status is its own business)
		}
		if code != 0 {
			return // the command may refuse what the library accepts; the property is about accepted sources
		}
		o2, stage, err := runFmtSafe(out)
		if err != nil {
			fail("output-rejected", stage+": "+err.Error())
			return
		}
		if len(ref.stream) != len(o2.stream) {
			fail("tokens-changed", fmt.Sprintf("stream length %d -> %d; %s", len(ref.stream), len(o2.stream), firstDiff(ref.stream, o2.stream)))
			return
		}
		for k := range ref.stream {
			if ref.stream[k] != o2.stream[k] {
				fail("tokens-changed", firstDiff(ref.stream, o2.stream))
				return
			}
		}
		again, code2 := run(nil, out)
		if code2 != 0 || !bytes.Equal(again, out) {
			fail("not-idempotent", fmt.Sprintf("second run exit %d; %s", code2, firstLineDiff(out, again)))
			return
		}
		// -w mode on a copy of the file must leave exactly the same bytes behind
		tmp := filepath.Join(scratch, fmt.Sprintf("w%d.wuffs", i))
		os.WriteFile(tmp, j.src, 0o644)
		_, codeW := run([]string{"-w", tmp}, nil)
		got, _ := os.ReadFile(tmp)
		os.Remove(tmp)
		if codeW != 0 || !bytes.Equal(got, out) {
			fail("w-mode-differs", fmt.Sprintf("exit %d; %s", codeW, firstLineDiff(out, got)))
			return
		}
		if !bytes.Equal(out, j.src) {
			nNon.Add(1)
		}
	})
	return nEval.Load(), nNon.Load()
}

func isWordByte(b byte) bool {
	return b == '_' || (b >= '0' && b <= '9') || (b >= 'a' && b <= 'z') || (b >= 'A' && b <= 'Z')
}

func replay(path string) {
	b, err := os.ReadFile(path)
	if err != nil {
		ev.Fatal("%v", err)
	}
	var doc struct {
		Signature string          `json:"signature"`
		Witness   json.RawMessage `json:"witness"`
	}
	json.Unmarshal(b, &doc)
	if strings.HasPrefix(doc.Signature, "indent:") {
		var w indWitness
		json.Unmarshal(doc.Witness, &w)
		fmt.Printf("replaying indenter witness clause=%s opts=%s input=%q\n", w.Clause, w.Opts, w.Input)
		if w.Clause == "terminates" {
			fmt.Println("(this input makes FormatBytes loop; running it with a 5 s alarm)")
			go func() {
				time.Sleep(5 * time.Second)
				fmt.Println("still running after 5 s: hang reproduced")
				os.Exit(1)
			}()
		}
		for _, o := range optList {
			if o.name == w.Opts || w.Opts == "any" {
				out := dumbindent.FormatBytes(nil, []byte(w.Input), o.o)
				out2 := dumbindent.FormatBytes(nil, out, o.o)
				fmt.Printf("opts=%s\n out=%q\n out2=%q\n normalised equal=%v idempotent=%v\n", o.name, out, out2,
					bytes.Equal(normalise(out), normalise([]byte(w.Input))), bytes.Equal(out, out2))
			}
		}
		return
	}
	var w fmtWitness
	json.Unmarshal(doc.Witness, &w)
	a, stage, err := runFmt([]byte(w.Source))
	fmt.Printf("replaying formatter witness %s/%s clause=%s\n first pass: stage=%q err=%v\n", w.Seed, w.Mutation, w.Clause, stage, err)
	if err == nil {
		bb, stage, err := runFmt(a.out)
		fmt.Printf(" second pass: stage=%q err=%v\n", stage, err)
		if err == nil {
			fmt.Printf(" token streams equal=%v idempotent=%v\n", strings.Join(a.stream, "\x00") == strings.Join(bb.stream, "\x00"), bytes.Equal(a.out, bb.out))
		}
	}
}

func main() {
	if len(os.Args) > 2 && os.Args[1] == "replay" {
		replay(os.Args[2])
		return
	}
	r := ev.Start("C12", "exploration")
	r.SetBudget(7*time.Minute, 45*time.Minute)
	maxLen := 6
	if r.Thorough() {
		maxLen = 7
	}
	t0 := time.Now()
	phase := func(name string) {
		r.Add("phase_ms_"+name, time.Since(t0).Milliseconds())
		t0 = time.Now()
	}
	e1, n1, c1 := indenterShort(r, maxLen)
	phase("indenter_short")
	r.Add("indenter_short_texts_enumerated", e1)
	r.Add("indenter_short_texts_closed", c1)
	r.Sample(map[string]any{"indenter_text": "{\n/*\n*/(\n", "options": "spaces2,spaces3,tabs"})
	e2, n2 := indenterFiles(r)
	r.Add("indenter_file_variants", e2)
	phase("indenter_files")
	e3, a3, n3 := wuffsFormatter(r)
	r.Add("formatter_sources_tried", e3)
	phase("formatter")
	r.Add("formatter_sources_accepted", a3)
	e4, n4 := formatterCommand(r)
	r.Add("formatter_command_sources", e4)
	phase("formatter_command")
	r.Sample(map[string]any{"formatter_mutation": "std/gif/decode_gif.wuffs with a newline inserted at a token gap of line 77"})
	r.Finish(ev.Coverage{
		Evaluations:        c1*3 + e2*3 + a3 + e4,
		DistinctNontrivial: n1 + n2 + n3 + n4,
		Rule: fmt.Sprintf("indenter: every text of length <= %d over %q that an independent lexer deems lexically closed x 3 option sets, plus every .c/.h file in /repo under whole-file and (<=600 lines) per-line indentation perturbations and 2-line joins; "+
			"formatter: every .wuffs file in /repo under per-line layout mutations (blank runs, comments, explicit ';', line joins, newline or spaces at every token gap, numeric respellings), only those Tokenize+Parse+Render accept; the cmd/wuffsfmt binary (stdin and -w modes) on every .wuffs file and every source of <= 3 lines over 6 line kinds; "+
			"non-trivial = formatter output differs from its input", maxLen, string(alphabet)),
		Exhaustive: true,
	}, []string{"the lexical-closure definition is the conservative one stated in the source (strings and chars close on their own line)",
		"leading blank lines are removed by dumbindent on purpose and are treated as white-space-only change",
		"formatter crashes on mutants are counted here and reported under C11"})
}
