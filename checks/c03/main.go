// C03: the C generated from the working tree's std/ is memory-safe and well-behaved on any input.
//
// Bounded-exhaustive explicit-state exploration (engine E4) on the real, freshly generated C, driven
// through the cserve state server (ASan+UBSan build, and an -O2 build with allocator counters):
//
//	A. per decoder/hasher a level-synchronous byte-feed search from the initial state: transitions
//	   feed(b) (source open, ample destination) and close; all 256 byte values to depth 2 (thorough 3),
//	   then the format's reduced alphabet to depth 6 (thorough 8); states deduplicated by a 128-bit hash
//	   of (object bytes, unread source + position, destination, work buffer, configs, phase, status).
//	B. per seed (small test/data files + reference-encoder output for tiny payloads): the seed fed
//	   bytewise and one-shot under every configuration (destination capacity per call in {ample,0,1,7},
//	   work buffer {min,max}, closed {at end, never}; image decoders: pixel format {BGRA_NONPREMUL,
//	   native}); a truncation (close) at every prefix; from every prefix state all 255 single-byte
//	   deviations, each followed by (a) the rest of the seed and (b) the reduced alphabet to depth 2.
//	C. hashers: all chunk-length pairs x update/update_u32-style x slice alignments.
//	D. chunk scripts (asan): every seed one-shot, at every two-chunk split and in uniform chunks of
//	   2..16, 31..33, 63..65 bytes through the canonical call sequence, work buffer exactly
//	   workbuf_len().min (exact-size allocation); plus generated families: JSON texts over a tiny
//	   grammar and CBOR items (every literal/number/string form at the end of input), PNGs from an own
//	   writer (colour type x depth x filter type per row x width x height, + Adam7), LZW streams whose
//	   output straddles the decoder's internal 4096-byte flush and that are followed by other bytes.
//
// Image/token decoders run the canonical call sequence (decode_image_config, decode_frame_config,
// decode_frame, ...; decode_tokens) with the byte feed applied to whichever call is current.
// Oracle (DESIGN E4 per-transition invariants): sanitizer silence; buffer contract computed in C;
// status is ok/note/suspension/error, never "internal error"; "$short read" only on an open source;
// "$short write" never with nothing written into an empty ample destination; "$short workbuf" is
// answered by growing the work buffer; after an error the next call gives "#base: disabled by
// previous error"; zero allocator calls; every call returns (30 s watchdog inside the server).
package main

import (
	"encoding/json"
	"fmt"
	"os"
	"sort"
	"strconv"
	"strings"
	"sync"
	"time"

	"verif/internal/cserve"
	"verif/internal/ev"
)

var quickPkgs = []string{"deflate", "zlib", "gzip", "lzw", "png", "gif", "json", "cbor"}

type tierParams struct {
	fullDepth, maxDepth int
	capStates           int
	capFrontier         int
	plainMaxDepth       int
	seedMaxLen          int64
	seedFiles           int
	devMaxLen           int // seeds up to this length get the 255-deviation treatment at every prefix
	devPrefixCap        int // longer seeds: only this many leading prefixes
	contLimit           int // reduced-alphabet continuation for prefixes below this position
	walkAllCfgMaxLen    int
	hashLenMax          int
	splitAllMaxLen      int // seeds up to this length get every two-chunk split
	jsonMaxLen          int
}

func main() {
	if len(os.Args) > 2 && os.Args[1] == "replay" {
		replay(os.Args[2])
		return
	}
	tStart := time.Now()
	var allEngs []*eng
	r := ev.Start("C03", "model_checking")
	tp := tierParams{fullDepth: 2, maxDepth: 6, capStates: 400000, capFrontier: 3000, plainMaxDepth: 2, seedMaxLen: 320, seedFiles: 3,
		devMaxLen: 48, devPrefixCap: 24, contLimit: 4, walkAllCfgMaxLen: 320, hashLenMax: 72, splitAllMaxLen: 320, jsonMaxLen: 10}
	if r.Thorough() {
		tp = tierParams{fullDepth: 3, maxDepth: 8, capStates: 4000000, capFrontier: 60000, plainMaxDepth: 3, seedMaxLen: 4096, seedFiles: 8,
			devMaxLen: 4096, devPrefixCap: 4096, contLimit: 32, walkAllCfgMaxLen: 4096, hashLenMax: 200, splitAllMaxLen: 4096, jsonMaxLen: 12}
	}

	scratch, mine, err := cserve.Scratch()
	if err != nil {
		ev.Fatal("%v", err)
	}
	if mine {
		defer os.RemoveAll(scratch)
	}
	table, _, err := cserve.ScanStd(ev.Repo())
	if err != nil {
		ev.Fatal("%v", err)
	}
	var modules []string // nil = all
	if !r.Thorough() {
		modules = append(modules, quickPkgs...)
		for _, t := range table {
			if t.Kind == cserve.KindHasherU32 || t.Kind == cserve.KindHasherU64 || t.Kind == cserve.KindHasherBitvec256 {
				modules = append(modules, t.Pkg)
			}
		}
	}
	if f := os.Getenv("C03_PKGS"); f != "" { // development aid: compile only these packages
		modules = strings.Split(f, ",")
		for i := range modules {
			modules[i] = strings.SplitN(modules[i], ".", 2)[0]
		}
	}
	famCh := make(chan map[string][]seed, 1)
	go func() { // generated seed families do not depend on the build
		thorough := os.Getenv("VERIF_TIER") == "thorough" || (len(os.Args) > 1 && os.Args[1] == "thorough")
		famCh <- map[string][]seed{"png": pngFamily(thorough), "lzw": lzwFlushFamily(thorough)}
	}()
	t0 := time.Now()
	built, err := cserve.Build(scratch, []string{cserve.Asan, cserve.Plain}, modules)
	if err != nil {
		ev.Fatal("build: %v", err)
	}
	if os.Getenv("CSERVE_REUSE") == "" {
		defer os.RemoveAll(built.Dir)
	}
	// the exploration budget starts after the build (whose duration depends on how busy the machine is)
	fmt.Printf("C03: generated C from %s; %d std packages, %d in this tier; gen %.0fs, compile asan %.0fs plain %.0fs (wall %.0fs)\n",
		ev.Repo(), built.PackageCount, len(built.Table), built.GenSeconds, built.CompileSeconds[cserve.Asan], built.CompileSeconds[cserve.Plain], time.Since(t0).Seconds())

	nw := ev.Workers()
	mk := func(variant string) []*eng {
		srvs, err := built.StartN(variant, nw)
		if err != nil {
			ev.Fatal("start %s: %v", variant, err)
		}
		es := make([]*eng, nw)
		for i := range es {
			es[i] = &eng{r: r, srv: srvs[i], built: built, variant: variant, st: newStats()}
		}
		return es
	}
	engA, engP := mk(cserve.Asan), mk(cserve.Plain)
	allEngs = append(append(allEngs, engA...), engP...)
	defer func() {
		for _, e := range append(engA, engP...) {
			e.srv.Close()
		}
	}()
	setPkg := func(es []*eng, pk pkgInfo, cfg config) {
		for _, e := range es {
			e.pk, e.cfg = pk, cfg
		}
	}

	var pkgs []pkgInfo
	for _, t := range built.Table {
		name := t.Pkg
		pkgs = append(pkgs, pkgInfo{name: name, kind: t.Kind})
	}
	names := built.Names()
	for i := range pkgs {
		pkgs[i].name = names[i]
	}
	if f := os.Getenv("C03_PKGS"); f != "" { // development aid: restrict the run to some packages
		var keep []pkgInfo
		for _, p := range pkgs {
			if strings.Contains(","+f+",", ","+p.name+",") {
				keep = append(keep, p)
			}
		}
		pkgs = keep
	}
	sort.SliceStable(pkgs, func(i, j int) bool { // decoders first, hashers last
		hi := pkgs[i].kind >= cserve.KindHasherU32 && pkgs[i].kind <= cserve.KindHasherBitvec256
		hj := pkgs[j].kind >= cserve.KindHasherU32 && pkgs[j].kind <= cserve.KindHasherBitvec256
		return !hi && hj
	})

	var bfsReps []bfsReport
	var seedReps []seedReport
	var hashReps []map[string]any
	full := make([]byte, 256)
	for i := range full {
		full[i] = byte(i)
	}
	isHasher := func(k int) bool {
		return k == cserve.KindHasherU32 || k == cserve.KindHasherU64 || k == cserve.KindHasherBitvec256
	}
	seedsOf := map[string][]seed{}
	alphaOf := map[string][]byte{}
	for _, pk := range pkgs {
		if isHasher(pk.kind) {
			alphaOf[pk.name] = []byte{0x00, 0x61, 0x80, 0xFF}
			continue
		}
		ss := generatedSeeds(pk.name)
		ss = append(ss, fileSeeds(pk.name, tp.seedMaxLen, tp.seedFiles)...)
		seedsOf[pk.name] = ss
		alphaOf[pk.name] = reducedAlphabet(pk.name, ss)
	}

	families := <-famCh
	total := 170 * time.Second
	if r.Thorough() {
		total = 30 * time.Minute
	}
	if s := os.Getenv("VERIF_BUDGET_S"); s != "" { // selftest: VERIF_BUDGET_S covers build + exploration
		if n, err := strconv.Atoi(s); err == nil {
			// VERIF_BUDGET_S is an upper bound for build + exploration; never explore less than 150 s or more than twice the tier default
			total = min(2*total, max(150*time.Second, time.Duration(n)*time.Second-time.Since(tStart)-15*time.Second))
		}
	}
	r.SetBudget(time.Since(tStart)+total+20*time.Second, time.Since(tStart)+total+time.Minute)
	t1 := time.Now()
	endChunk, endWalk, endA, endDev, endAll := t1.Add(total*22/100), t1.Add(total*42/100), t1.Add(total*66/100), t1.Add(total*93/100), t1.Add(total)
	setDeadline := func(d time.Time) {
		for _, e := range allEngs {
			e.deadline = d
		}
	}
	slice := func(end time.Time, remaining int) time.Time {
		now := time.Now()
		if !end.After(now) {
			return now
		}
		return now.Add(end.Sub(now) / time.Duration(max(1, remaining)))
	}
	// ---- phase B0: chunk scripts (chunk-length dimension; exact-size work buffer) ------------------
	type chunkReport struct {
		Package string  `json:"package"`
		Seeds   int     `json:"seeds"`
		Scripts int     `json:"scripts"`
		Done    int     `json:"scripts_completed"`
		Seconds float64 `json:"seconds"`
	}
	var chunkReps []chunkReport
	{
		var cpk []pkgInfo
		for _, pk := range pkgs {
			if !isHasher(pk.kind) {
				cpk = append(cpk, pk)
			}
		}
		for pi, pk := range cpk {
			if r.Expired() {
				break
			}
			t := time.Now()
			var scripts []*script
			nseeds := 0
			for _, s := range seedsOf[pk.name] {
				scripts = append(scripts, chunkScripts(s.name, s.data, len(s.data) <= tp.splitAllMaxLen, uniformLens)...)
				nseeds++
			}
			switch pk.name {
			case "json":
				for _, t := range jsonTexts(tp.jsonMaxLen) {
					scripts = append(scripts, chunkScripts("gen:json/"+string(t), t, true, []int{2, 3, 7, 8})...)
					nseeds++
				}
			case "cbor":
				for _, t := range cborTexts() {
					scripts = append(scripts, chunkScripts(fmt.Sprintf("gen:cbor/%x", t), t, true, []int{2, 3})...)
					nseeds++
				}
			case "lzw":
				for _, s := range families["lzw"] {
					scripts = append(scripts, chunkScripts(s.name, s.data, false, []int{64})...)
					nseeds++
				}
			case "png":
				for _, s := range families["png"] {
					scripts = append(scripts, chunkScripts(s.name, s.data, false, []int{16})...)
					nseeds++
				}
			}
			// one-shot scripts first (if the time slice runs out, every seed has at least been decoded whole)
			sort.SliceStable(scripts, func(i, j int) bool { return len(scripts[i].ins) == 1 && len(scripts[j].ins) != 1 })
			setDeadline(slice(endChunk, len(cpk)-pi))
			setPkg(engA, pk, defaultConfig(pk.kind))
			const per = 48
			nch := (len(scripts) + per - 1) / per
			doneBy := make([]int, nch)
			ev.ParFor(nch, func(w, ci int) {
				doneBy[ci] = engA[w].runScripts(scripts[ci*per : min((ci+1)*per, len(scripts))])
			})
			rep := chunkReport{Package: pk.name, Seeds: nseeds, Scripts: len(scripts), Seconds: time.Since(t).Seconds()}
			for _, d := range doneBy {
				rep.Done += d
			}
			if pk.name == "png" && !r.Expired() {
				// the generated PNGs once more, one-shot, into the image's native pixel format
				cfg := defaultConfig(pk.kind)
				cfg.PixFmt = 0xFFFFFFFF
				setPkg(engA, pk, cfg)
				var ns []*script
				for _, s := range families["png"] {
					ns = append(ns, &script{name: s.name + "/native", ins: []input{{s.data, true}}})
				}
				nch := (len(ns) + per - 1) / per
				db := make([]int, nch)
				ev.ParFor(nch, func(w, ci int) { db[ci] = engA[w].runScripts(ns[ci*per : min((ci+1)*per, len(ns))]) })
				rep.Scripts += len(ns)
				for _, d := range db {
					rep.Done += d
				}
			}
			chunkReps = append(chunkReps, rep)
			r.Add("chunk_scripts", int64(rep.Scripts))
			r.Add("chunk_scripts_completed", int64(rep.Done))
		}
	}

	// ---- phase B1: seed walks (all configurations) -- first: cheap and the most diverse ----------------------------------------------------------------
	type walkJob struct {
		pk      pkgInfo
		s       seed
		cfg     config
		closeAt bool
		variant string
	}
	var jobs []walkJob
	maxSeeds := 0
	for _, pk := range pkgs {
		maxSeeds = max(maxSeeds, len(seedsOf[pk.name]))
	}
	for si := 0; si < maxSeeds; si++ { // round-robin over packages so that a time cap does not starve the later ones
		for _, pk := range pkgs {
			if si >= len(seedsOf[pk.name]) {
				continue
			}
			s := seedsOf[pk.name][si]
			cfgs := allConfigs(pk.kind)
			if len(s.data) > tp.walkAllCfgMaxLen {
				cfgs = cfgs[:1]
			}
			for _, cfg := range cfgs {
				jobs = append(jobs, walkJob{pk, s, cfg, true, cserve.Asan}, walkJob{pk, s, cfg, true, cserve.Plain})
			}
		}
	}
	setDeadline(endWalk)
	var mu sync.Mutex
	finals := map[string]string{}
	walkDone := 0
	ev.ParFor(len(jobs), func(w, i int) {
		j := jobs[i]
		e := engA[w]
		if j.variant == cserve.Plain {
			e = engP[w]
		}
		if e.expired() {
			return
		}
		e.pk, e.cfg = j.pk, j.cfg
		_, final, ok := e.walk(r, j.s.data, false)
		one := ""
		if j.closeAt {
			one = e.oneShot(j.s.data)
		}
		mu.Lock()
		if ok {
			walkDone++
		}
		if j.closeAt && j.variant == cserve.Asan && j.cfg == defaultConfig(j.pk.kind) {
			finals[j.pk.name+"/"+j.s.name] = final + " | one-shot: " + one
		}
		mu.Unlock()
	})
	r.Add("seed_walks", int64(walkDone))
	r.Add("seed_walk_jobs", int64(len(jobs)))

	var pathsBeforeA int64
	for _, e := range append(engA, engP...) {
		pathsBeforeA += e.st.paths
	}
	// ---- phase A: byte-feed search --------------------------------------------------
	for pi, pk := range pkgs {
		if r.Expired() {
			break
		}
		t := time.Now()
		setPkg(engA, pk, defaultConfig(pk.kind))
		fd, md, pmd := tp.fullDepth, tp.maxDepth, tp.plainMaxDepth
		if isHasher(pk.kind) {
			fd, md, pmd = 2, 2, 2 // a hasher never merges states and has no statuses: its space is phase C
		}
		sl := slice(endA, len(pkgs)-pi)
		setDeadline(time.Now().Add(sl.Sub(time.Now()) / 5))
		setPkg(engP, pk, defaultConfig(pk.kind))
		rep := bfs(r, engP, full, alphaOf[pk.name], min(fd, pmd), pmd, tp.capStates, tp.capFrontier)
		rep.Seconds = time.Since(t).Seconds()
		bfsReps = append(bfsReps, rep)
		t = time.Now()
		setDeadline(slice(endA, len(pkgs)-pi))
		rep = bfs(r, engA, full, alphaOf[pk.name], fd, md, tp.capStates, tp.capFrontier)
		rep.Seconds = time.Since(t).Seconds()
		bfsReps = append(bfsReps, rep)
	}

	var pathsA int64
	for _, e := range append(engA, engP...) {
		pathsA += e.st.paths
	}
	pathsA -= pathsBeforeA

	// deviations (asan, default configuration)
	type devJob struct {
		pk pkgInfo
		s  seed
	}
	var djobs []devJob
	for si := 0; si < maxSeeds; si++ {
		for _, pk := range pkgs {
			if !isHasher(pk.kind) && si < len(seedsOf[pk.name]) {
				djobs = append(djobs, devJob{pk, seedsOf[pk.name][si]})
			}
		}
	}
	for di, dj := range djobs {
		{
			pk, s := dj.pk, dj.s
			if r.Expired() {
				break
			}
			setDeadline(slice(endDev, len(djobs)-di))
			rep := seedReport{Package: pk.name, Seed: s.name, Len: len(s.data), FinalStatus: finals[pk.name+"/"+s.name]}
			rep.Configs = len(allConfigs(pk.kind))
			if len(s.data) > tp.walkAllCfgMaxLen {
				rep.Configs = 1
			}
			setPkg(engA, pk, defaultConfig(pk.kind))
			nodes, _, ok := engA[0].walk(r, s.data, true)
			rep.PrefixStates = len(nodes)
			if !ok || len(nodes) == 0 {
				rep.Capped = true
				seedReps = append(seedReps, rep)
				continue
			}
			limit := len(nodes)
			if len(s.data) > tp.devMaxLen && limit > tp.devPrefixCap {
				limit = tp.devPrefixCap
				rep.Capped = true
			}
			chunk := max(4, limit/(4*nw))
			nch := (limit + chunk - 1) / chunk
			var seen sync.Map
			doneBy := make([]int, nch)
			ev.ParFor(nch, func(w, ci int) {
				lo, hi := ci*chunk, min((ci+1)*chunk, limit)
				doneBy[ci] = engA[w].deviations(r, s.data, nodes, lo, hi, tp.contLimit, alphaOf[pk.name], &seen)
			})
			for ci, d := range doneBy {
				rep.DevPrefixes += d
				lo := ci * chunk
				for p := lo; p < lo+d; p++ {
					if p < tp.contLimit {
						rep.ContPrefixes++
					}
				}
			}
			if rep.DevPrefixes < min(limit, len(s.data)) {
				rep.Capped = true
			}
			seedReps = append(seedReps, rep)
		}
	}

	// ---- phase C: hashers, chunk lengths --------------------------------------------------
	nh := 0
	for _, pk := range pkgs {
		if isHasher(pk.kind) {
			nh++
		}
	}
	for _, pk := range pkgs {
		if !isHasher(pk.kind) || r.Expired() {
			continue
		}
		setDeadline(slice(endAll, nh))
		nh--
		setPkg(engA, pk, config{})
		setPkg(engP, pk, config{})
		hashReps = append(hashReps, hasherChunks(r, engA, pk, tp.hashLenMax), hasherChunks(r, engP, pk, min(tp.hashLenMax, 40)))
	}

	// ---- evidence ---------------------------------------------------------------------------
	var states, transitions, paths, crashes int64
	for _, b := range bfsReps {
		states += b.States
	}
	outcomes := map[string]int64{}
	classes := map[string]int64{}
	for _, e := range append(engA, engP...) {
		transitions += e.st.transitions
		paths += e.st.paths
		crashes += e.st.crashes
		for k, v := range e.st.status {
			outcomes[k] += v
		}
		for k, v := range e.st.classes {
			classes[k] += v
		}
	}
	// per-package outcome lists: collected through the status histogram keys of the bfs/seed phases
	r.MergeHist("method_status", outcomes)
	r.MergeHist("settled_state_class", classes)
	for _, b := range bfsReps {
		if b.Variant == cserve.Asan {
			r.Sample(b)
		}
	}
	for i, s := range seedReps {
		if i < 4 {
			r.Sample(s)
		}
	}
	exhaustive := !r.Capped()
	capped := []string{}
	for _, b := range bfsReps {
		if b.CapHit {
			capped = append(capped, b.Package+"/"+b.Variant)
			exhaustive = false
		}
	}
	sort.Strings(capped)
	r.Add("server_crashes", crashes)
	r.Finish(ev.Coverage{
		Evaluations:        transitions,
		DistinctNontrivial: int64(len(outcomes)),
		Rule:               "distinct (method, returned status) pairs observed on the generated C (e.g. 'transform_io #deflate: bad block'); evaluations = wuffs calls executed",
		States:             states + (paths - pathsA),
		Transitions:        transitions,
		TracesValidated:    paths,
		Explanation: "states = distinct settled-state keys of the byte-feed search (128-bit hash of object, unread source+position, destination, work buffer, configs, phase, status) plus the states settled in the seed phases (not deduplicated across seeds); " +
			"transitions = calls executed on the freshly generated C; traces = explored paths (each a clone of a state + one input + continuation calls), all run on the real code",
		Exhaustive: exhaustive,
		Extra: map[string]any{
			"std_packages":            built.PackageCount,
			"packages_in_tier":        names,
			"compile_seconds":         built.CompileSeconds,
			"gen_seconds":             built.GenSeconds,
			"byte_feed_search":        bfsReps,
			"seeds":                   seedReps,
			"hasher_chunking":         hashReps,
			"chunk_scripts":           chunkReps,
			"caps_hit":                capped,
			"reduced_alphabets":       hexAlpha(alphaOf),
			"seed_final_status":       finals,
			"variants":                []string{cserve.Asan, cserve.Plain},
			"ample_destination_bytes": ampleBytes,
		},
	}, []string{
		"C compiler and sanitizers: gcc 12 -O1 -fsanitize=address,undefined -fno-sanitize-recover=all; an overflow that stays inside one struct member array with a static bound is caught by -fsanitize=bounds only when indexed directly",
		"objects are memcpy-cloned between transitions (wuffs objects hold no pointers to caller memory; function pointers are process-stable in a non-PIE binary); replaying a state's recorded history is self-checked to reproduce the same hashes",
		"state merging assumes the next call's behaviour is a function of the hashed bytes (hermeticity, property C10)",
		"every input is bounded as stated in coverage (alphabets, depths, seeds, one deviation)",
	})
}

func hexAlpha(m map[string][]byte) map[string]string {
	out := map[string]string{}
	for k, v := range m {
		out[k] = fmt.Sprintf("% x", v)
	}
	return out
}

// hasherChunks: every (len1, len2) chunking x {update, update_val} x a few alignments; exact-size slices.
func hasherChunks(r *ev.Run, engs []*eng, pk pkgInfo, lenMax int) map[string]any {
	lens := []int{}
	for l := 0; l <= lenMax; l++ {
		lens = append(lens, l)
	}
	for _, l := range []int{127, 128, 129, 255, 256, 257, 511, 512, 513, 1023, 1024, 1025, 4095, 4096, 4097, 65535, 65536, 65537} {
		if l > lenMax {
			lens = append(lens, l)
		}
	}
	data := make([]byte, 2*65537+8)
	for i := range data {
		data[i] = byte(i*131 + i>>8)
	}
	var mu sync.Mutex
	sums := map[[4]uint64]struct{}{}
	var calls, mismatches int64
	ev.ParFor(len(lens), func(w, i int) {
		e := engs[w] // one engine (server) per ParFor worker: a Server is not safe for concurrent use
		if e.expired() {
			return
		}
		l1 := lens[i]
		var cmds []cserve.Cmd
		for _, l2 := range lens {
			if l1 > 600 && l2 > 600 && l1 != l2 {
				continue
			}
			for mode := 0; mode < 4; mode++ {
				pad := uint64((l1*7 + l2*3 + mode) % 17)
				a := cserve.Update(1, data[:l1])
				if mode&1 == 1 {
					a = cserve.UpdateVal(1, data[:l1])
				}
				b := cserve.Update(1, data[l1:l1+l2])
				if mode&2 == 2 {
					b = cserve.UpdateVal(1, data[l1:l1+l2])
				}
				a.A0, b.A0 = pad, (pad+uint64(l1))%64
				one := cserve.UpdateVal(2, data[:l1+l2])
				cmds = append(cmds, cserve.New(1, pk.name, cserve.NewOpts{Prefill: 0xA5}), a, b, cserve.Checksum(1),
					cserve.New(2, pk.name, cserve.NewOpts{}), one, cserve.Checksum(2))
			}
		}
		if !e.do(cmds, nil) {
			return
		}
		local := map[[4]uint64]struct{}{}
		var mm, n int64
		for k := 0; k+6 < len(cmds); k += 7 {
			for _, x := range []int{1, 2, 3, 5, 6} {
				res := &e.resBuf[k+x]
				n++
				e.st.transitions++
				e.st.status[methodNames[cmds[k+x].Method]+" (no status)"]++
				if res.Contract&cserve.InfoMask != 0 || res.Allocs != 0 {
					wc := cmds[k+1 : k+x+1]
					if x > 3 {
						wc = cmds[k+5 : k+x+1]
					}
					e.violation("io-contract:"+strings.Join(cserve.ContractNames(res.Contract), ","), methodNames[cmds[k+x].Method],
						"hasher call broke the contract / called the allocator", &hist{cmds: wc}, nil, "")
				}
			}
			e.st.paths++
			local[e.resBuf[k+3].V] = struct{}{}
			if e.resBuf[k+3].V != e.resBuf[k+6].V || e.resBuf[k+5].V != e.resBuf[k+6].V {
				mm++
			}
		}
		mu.Lock()
		calls += n
		mismatches += mm
		for k := range local {
			sums[k] = struct{}{}
		}
		mu.Unlock()
	})
	if mismatches > 0 {
		fmt.Printf("NOTE: %s [%s]: %d chunked checksums differ from the one-shot checksum (that is property C05, not C03)\n", pk.name, engs[0].variant, mismatches)
	}
	return map[string]any{"package": pk.name, "variant": engs[0].variant, "chunk_lengths": len(lens), "calls": calls, "distinct_checksums": len(sums), "chunked_vs_oneshot_mismatches": mismatches}
}

// ---- replay ---------------------------------------------------------------------------------

func replay(path string) {
	b, err := os.ReadFile(path)
	if err != nil {
		ev.Fatal("%v", err)
	}
	var doc struct {
		Signature string  `json:"signature"`
		What      string  `json:"what"`
		Witness   witness `json:"witness"`
	}
	if err := json.Unmarshal(b, &doc); err != nil {
		ev.Fatal("%v", err)
	}
	w := doc.Witness
	fmt.Printf("replaying %s\n %s\n package %s, variant %s, %s, %d commands\n", doc.Signature, doc.What, w.Package, w.Variant, w.Config, len(w.Cmds))
	scratch, mine, err := cserve.Scratch()
	if err != nil {
		ev.Fatal("%v", err)
	}
	if mine {
		defer os.RemoveAll(scratch)
	}
	pkgOnly := strings.SplitN(w.Package, ".", 2)[0]
	built, err := cserve.Build(scratch, []string{w.Variant}, []string{pkgOnly})
	if err != nil {
		ev.Fatal("build: %v", err)
	}
	defer os.RemoveAll(built.Dir)
	run := func(first bool) (obs []string, verdict string) {
		srv, err := built.Start(w.Variant)
		if err != nil {
			ev.Fatal("%v", err)
		}
		defer srv.Close()
		res, err := srv.Replay(w.Cmds)
		afterErr := ""
		for i, x := range res {
			c := w.Cmds[i]
			if c.Op != cserve.OpCall && c.Op != cserve.OpNew {
				continue
			}
			st := x.Status
			if x.OK {
				st = "ok"
			}
			if !x.HasStatus {
				st = "(no status)"
			}
			if x.Err != "" {
				st = "!" + x.Err
			}
			closed := c.Flags&cserve.FClosed != 0
			obs = append(obs, fmt.Sprintf("#%d %s data=%d bytes closed=%v dst_cap=%d -> %q src ri %d->%d wi=%d, dst wi %d->%d, contract=%v allocs=%d magic=%#x",
				i, opName(c), len(c.Data), closed, c.DstCap, st, x.SrcRi0, x.SrcRi1, x.SrcWi1, x.DstWi0, x.DstWi1, cserve.ContractNames(x.Contract), x.Allocs, x.Magic))
			if c.Op != cserve.OpCall || verdict != "" {
				continue
			}
			switch {
			case x.Contract&cserve.InfoMask != 0:
				verdict = "buffer contract broken: " + strings.Join(cserve.ContractNames(x.Contract), ",")
			case x.Allocs != 0:
				verdict = "allocator called"
			case x.HasStatus && !x.OK && (st == "" || !strings.ContainsRune("@$#", rune(st[0]))):
				verdict = "bad status class " + st
			case strings.Contains(st, "internal error"):
				verdict = "internal error status"
			case st == "$base: short read" && closed:
				verdict = "\"$base: short read\" on a closed source"
			case st == "$base: short write" && x.DstWi0 == 0 && w.Config.Ample && x.NWritten == 0 && c.Method != cserve.MDecodeFrame:
				verdict = "\"$base: short write\" with nothing written into an empty ample destination"
			case afterErr != "" && x.HasStatus && st != disabledStatus:
				verdict = "after " + afterErr + " a later call returned " + st
			case x.HasStatus && strings.HasPrefix(st, "$") && st != "$base: short read" && st != "$base: short write" && st != "$base: short workbuf":
				verdict = "unjustified suspension " + st
			}
			if x.HasStatus && strings.HasPrefix(st, "#") && afterErr == "" {
				afterErr = st
			}
		}
		if err != nil {
			if ce, ok := err.(*cserve.CrashError); ok {
				k, d := crashKind(ce) // no addresses: they differ from run to run (stack ASLR)
				verdict = "server " + ce.Kind + ": " + k + " in " + d
				obs = append(obs, fmt.Sprintf("#%d %s -> %s", ce.CmdIndex, opName(w.Cmds[ce.CmdIndex]), verdict))
				if first {
					fmt.Println("  " + firstN(ce.Stderr, 1500))
				}
			} else {
				ev.Fatal("%v", err)
			}
		}
		return obs, verdict
	}
	o1, v1 := run(true)
	o2, v2 := run(false)
	start := max(0, len(o1)-12)
	for _, l := range o1[start:] {
		fmt.Println("  " + l)
	}
	if strings.Join(o1, "\n") != strings.Join(o2, "\n") || v1 != v2 {
		ev.Fatal("two replays of the same witness gave different observations")
	}
	if v1 == "" {
		fmt.Println(" oracle: property holds on this witness (not reproduced)")
		return
	}
	fmt.Printf(" oracle: violated: %s\n", v1)
	os.Exit(1)
}

func opName(c cserve.Cmd) string {
	if c.Op == cserve.OpNew {
		return "initialize"
	}
	if n, ok := methodNames[c.Method]; ok {
		return n
	}
	return fmt.Sprintf("op%d/m%d", c.Op, c.Method)
}

func firstN(s string, n int) string {
	if len(s) > n {
		return s[:n] + "..."
	}
	return s
}
