package main

import (
	"bytes"
	"compress/flate"
	"compress/gzip"
	"compress/lzw"
	"compress/zlib"
	"encoding/binary"
	"image"
	"image/color"
	"image/gif"
	"image/jpeg"
	"image/png"
	"os"
	"os/exec"
	"path/filepath"
	"sort"
	"strings"

	"verif/internal/ev"
)

type seed struct {
	name string
	data []byte
}

var extPkg = map[string]string{
	".gz": "gzip", ".zlib": "zlib", ".deflate": "deflate", ".bz2": "bzip2", ".xz": "xz", ".lzma": "lzma", ".lz": "lzip",
	".png": "png", ".gif": "gif", ".jpeg": "jpeg", ".jpg": "jpeg", ".bmp": "bmp", ".wbmp": "wbmp", ".nie": "nie",
	".json": "json", ".cbor": "cbor", ".webp": "webp", ".pkm": "etc2", ".th": "thumbhash", ".handsum": "handsum",
	".ppm": "netpbm", ".pgm": "netpbm", ".pbm": "netpbm", ".qoi": "qoi", ".tga": "targa",
}

var payloads = []struct {
	name string
	data []byte
}{
	{"empty", nil},
	{"a", []byte("a")},
	{"abc", []byte(strings.Repeat("abc", 14))},
	{"zeros", make([]byte, 64)},
}

func tool(name string, in []byte, args ...string) []byte {
	p, err := exec.LookPath(name)
	if err != nil {
		return nil
	}
	cmd := exec.Command(p, args...)
	cmd.Stdin = bytes.NewReader(in)
	out, err := cmd.Output()
	if err != nil {
		return nil
	}
	return out
}

func testImage(kind string) image.Image {
	switch kind {
	case "gray":
		m := image.NewGray(image.Rect(0, 0, 3, 2))
		for i := range m.Pix {
			m.Pix[i] = uint8(i * 40)
		}
		return m
	case "pal":
		m := image.NewPaletted(image.Rect(0, 0, 3, 3), color.Palette{color.RGBA{0, 0, 0, 255}, color.RGBA{255, 0, 0, 255}, color.RGBA{0, 255, 0, 255}, color.RGBA{0, 0, 255, 0}})
		for i := range m.Pix {
			m.Pix[i] = uint8(i % 4)
		}
		return m
	}
	m := image.NewNRGBA(image.Rect(0, 0, 2, 2))
	m.Set(0, 0, color.NRGBA{1, 2, 3, 255})
	m.Set(1, 0, color.NRGBA{200, 5, 6, 255})
	m.Set(0, 1, color.NRGBA{7, 8, 9, 128})
	m.Set(1, 1, color.NRGBA{10, 11, 12, 0})
	return m
}

// generated seeds: reference-encoder output for tiny payloads.
func generatedSeeds(pkg string) []seed {
	var out []seed
	add := func(n string, b []byte) {
		if len(b) > 0 {
			out = append(out, seed{"gen:" + n, b})
		}
	}
	for _, p := range payloads {
		var b bytes.Buffer
		switch pkg {
		case "deflate":
			for _, lv := range []int{flate.DefaultCompression, flate.NoCompression, flate.HuffmanOnly} {
				b.Reset()
				w, _ := flate.NewWriter(&b, lv)
				w.Write(p.data)
				w.Close()
				add("flate"+itoa(lv)+"/"+p.name, append([]byte(nil), b.Bytes()...))
			}
		case "zlib":
			w := zlib.NewWriter(&b)
			w.Write(p.data)
			w.Close()
			add("zlib/"+p.name, b.Bytes())
		case "gzip":
			w := gzip.NewWriter(&b)
			if p.name == "a" {
				w.Name, w.Comment, w.Extra = "n", "c", []byte{1, 2}
			}
			w.Write(p.data)
			w.Close()
			add("gzip/"+p.name, b.Bytes())
		case "lzw":
			w := lzw.NewWriter(&b, lzw.LSB, 8)
			w.Write(p.data)
			w.Close()
			add("lzw/"+p.name, b.Bytes())
		case "bzip2":
			add("bzip2/"+p.name, tool("bzip2", p.data, "-c"))
		case "xz":
			add("xz/"+p.name, tool("xz", p.data, "-c", "-T1"))
		case "lzma":
			add("lzma/"+p.name, tool("xz", p.data, "-c", "--format=lzma"))
		case "lzip":
			add("lzip/"+p.name, tool("lzip", p.data, "-c"))
		}
	}
	var b bytes.Buffer
	switch pkg {
	case "png":
		for _, k := range []string{"nrgba", "gray", "pal"} {
			b.Reset()
			png.Encode(&b, testImage(k))
			add("png/"+k, append([]byte(nil), b.Bytes()...))
		}
	case "gif":
		b.Reset()
		gif.Encode(&b, testImage("pal"), nil)
		add("gif/pal", append([]byte(nil), b.Bytes()...))
		b.Reset()
		f := testImage("pal").(*image.Paletted)
		gif.EncodeAll(&b, &gif.GIF{Image: []*image.Paletted{f, f}, Delay: []int{1, 2}, LoopCount: 3})
		add("gif/2frames", append([]byte(nil), b.Bytes()...))
	case "jpeg":
		m := image.NewGray(image.Rect(0, 0, 8, 8))
		for i := range m.Pix {
			m.Pix[i] = uint8(i * 3)
		}
		jpeg.Encode(&b, m, &jpeg.Options{Quality: 50})
		add("jpeg/gray8x8", append([]byte(nil), b.Bytes()...))
		b.Reset()
		jpeg.Encode(&b, testImage("nrgba"), &jpeg.Options{Quality: 90})
		add("jpeg/rgb2x2", append([]byte(nil), b.Bytes()...))
	case "json":
		add("json/obj", []byte(`{"a":[1,-2.5e3,true,false,null],"b\n":"éx"}`))
		add("json/num", []byte(`123`))
		add("json/str", []byte(`"abc"`))
		add("json/nested", []byte(`[[[{"":{}}]]]`))
	case "cbor":
		add("cbor/map", []byte{0xA2, 0x61, 0x61, 0x83, 0x01, 0x20, 0xF5, 0x61, 0x62, 0x5F, 0x41, 0x78, 0xFF})
		add("cbor/float", []byte{0xFB, 0x3F, 0xF1, 0x99, 0x99, 0x99, 0x99, 0x99, 0x9A})
		add("cbor/tag", []byte{0xC1, 0x1A, 0x51, 0x4B, 0x67, 0xB0})
	case "qoi":
		q := []byte("qoif")
		q = binary.BigEndian.AppendUint32(q, 3)
		q = binary.BigEndian.AppendUint32(q, 2)
		q = append(q, 4, 0)
		q = append(q, 0xFE, 10, 20, 30, 0xC1, 0x00|5, 0x40|0x2A, 0x80|33, 0x88, 0xFF, 1, 2, 3, 4)
		q = append(q, 0, 0, 0, 0, 0, 0, 0, 1)
		add("qoi/3x2", q)
	case "targa":
		h := make([]byte, 18)
		h[2] = 2 // uncompressed true-color
		h[12], h[14], h[16], h[17] = 2, 2, 24, 0x20
		add("targa/rgb2x2", append(h, 1, 2, 3, 4, 5, 6, 7, 8, 9, 10, 11, 12))
		h2 := append([]byte(nil), h...)
		h2[2] = 10 // RLE true-color
		add("targa/rle2x2", append(h2, 0x81, 1, 2, 3, 0x01, 4, 5, 6, 7, 8, 9))
	case "netpbm":
		add("netpbm/p5", []byte("P5\n2 2\n255\n\x01\x02\x03\x04"))
		add("netpbm/p6", []byte("P6 1 2 255\n\x01\x02\x03\x04\x05\x06"))
	case "bmp":
		h := []byte("BM")
		h = binary.LittleEndian.AppendUint32(h, 54+16)
		h = binary.LittleEndian.AppendUint32(h, 0)
		h = binary.LittleEndian.AppendUint32(h, 54)
		h = binary.LittleEndian.AppendUint32(h, 40)
		h = binary.LittleEndian.AppendUint32(h, 2)
		h = binary.LittleEndian.AppendUint32(h, 2)
		h = binary.LittleEndian.AppendUint16(h, 1)
		h = binary.LittleEndian.AppendUint16(h, 24)
		h = append(h, make([]byte, 24)...)
		h = append(h, 1, 2, 3, 4, 5, 6, 0, 0, 7, 8, 9, 10, 11, 12, 0, 0)
		add("bmp/rgb2x2", h)
	case "wbmp":
		add("wbmp/3x2", []byte{0, 0, 3, 2, 0xA0, 0x40})
	case "nie":
		n := []byte{0x6E, 0xC3, 0xAF, 0x45, 0xFF, 'b', 'n', '4'}
		n = binary.LittleEndian.AppendUint32(n, 2)
		n = binary.LittleEndian.AppendUint32(n, 1)
		add("nie/2x1", append(n, 1, 2, 3, 4, 5, 6, 7, 8))
	}
	return out
}

func itoa(n int) string {
	if n < 0 {
		return "m" + itoa(-n)
	}
	return string(rune('0' + n))
}

// fileSeeds: test/data files <= maxLen whose extension names the format, smallest first.
func fileSeeds(pkg string, maxLen int64, n int) []seed {
	root := filepath.Join(ev.Repo(), "test", "data")
	type fe struct {
		path string
		size int64
	}
	var fs []fe
	filepath.Walk(root, func(p string, fi os.FileInfo, err error) error {
		if err != nil || fi.IsDir() || fi.Size() > maxLen || fi.Size() == 0 {
			return nil
		}
		ext := strings.ToLower(filepath.Ext(p))
		if extPkg[ext] == pkg {
			fs = append(fs, fe{p, fi.Size()})
		}
		return nil
	})
	sort.Slice(fs, func(i, j int) bool {
		if fs[i].size != fs[j].size {
			return fs[i].size < fs[j].size
		}
		return fs[i].path < fs[j].path
	})
	var out []seed
	for _, f := range fs {
		if len(out) >= n {
			break
		}
		b, err := os.ReadFile(f.path)
		if err != nil {
			continue
		}
		rel, _ := filepath.Rel(root, f.path)
		out = append(out, seed{"file:" + rel, b})
	}
	if pkg == "vp8" {
		// a raw VP8 frame is the payload of the "VP8 " chunk of a lossy WebP file
		ws, _ := filepath.Glob(filepath.Join(root, "*.lossy.webp"))
		sort.Strings(ws)
		for _, w := range ws {
			b, err := os.ReadFile(w)
			if err != nil || int64(len(b)) > maxLen {
				continue
			}
			if i := bytes.Index(b, []byte("VP8 ")); i >= 0 && i+8 <= len(b) {
				n := int(binary.LittleEndian.Uint32(b[i+4:]))
				if i+8+n <= len(b) {
					out = append(out, seed{"file:" + filepath.Base(w) + "#VP8", b[i+8 : i+8+n]})
				}
			}
		}
	}
	return out
}

// hand-picked structural bytes for the quick-tier formats; other formats derive theirs from the
// leading bytes of their seeds (magic numbers and header fields).
var handAlphabet = map[string][]byte{
	"deflate": {0x00, 0x01, 0x02, 0x03, 0x04, 0x05, 0x06, 0x07, 0xFF, 0xFE, 0x80, 0x4B, 0x63, 0x10},
	"zlib":    {0x78, 0x9C, 0x01, 0xDA, 0x5E, 0x00, 0xFF, 0x03, 0x20, 0xBB, 0x08, 0x4B, 0x63, 0x07},
	"gzip":    {0x1F, 0x8B, 0x08, 0x00, 0x04, 0x02, 0x10, 0x1C, 0xFF, 0x03, 0x01, 0xE0, 0x4B, 0x61},
	"lzw":     {0x00, 0x01, 0x02, 0x03, 0x04, 0x08, 0x10, 0x41, 0x7F, 0x80, 0x81, 0xFE, 0xFF, 0x05},
	"png":     {0x89, 0x50, 0x4E, 0x47, 0x0D, 0x0A, 0x1A, 0x00, 0x49, 0x48, 0x44, 0x52, 0x01, 0x08, 0xFF, 0x06},
	"gif":     {'G', 'I', 'F', '8', '9', 'a', '7', 0x00, 0x01, 0x02, 0x2C, 0x21, 0x3B, 0xF9, 0xFF, 0x80},
	"json":    {'{', '}', '[', ']', '"', ':', ',', '0', '1', '-', '.', 'e', 't', '\\', ' ', 0xC3},
}

func reducedAlphabet(pkg string, seeds []seed) []byte {
	if a, ok := handAlphabet[pkg]; ok {
		return a
	}
	seen := map[byte]bool{}
	var out []byte
	put := func(b byte) {
		if !seen[b] && len(out) < 16 {
			seen[b] = true
			out = append(out, b)
		}
	}
	for _, b := range []byte{0x00, 0xFF, 0x01, 0x80} {
		put(b)
	}
	for pos := 0; pos < 12; pos++ {
		for _, s := range seeds {
			if pos < len(s.data) {
				put(s.data[pos])
			}
		}
	}
	sort.Slice(out, func(i, j int) bool { return out[i] < out[j] })
	return out
}
