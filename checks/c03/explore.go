package main

import (
	"fmt"
	"os"
	"sync"
	"time"

	"verif/internal/cserve"
	"verif/internal/ev"
)

// snode is a settled, non-terminal (or root) state known by its command history.
type snode struct {
	h     *hist
	phase int
	class int
	raw   [8]uint64 // server-side hashes at the settled state (replay self-check)
	key   [2]uint64
}

const (
	slotLinear = 1  // seeds: the prefix state, advanced in place
	slotBackup = 2  // seeds: copy of the linear state at the start of an optimistic batch
	slotStack  = 16 // BFS: slotStack+depth holds the ancestor at that depth
	// slot ids stay small: the server's slot table is an array indexed by id
	slotKids  = 1024  // children (at most 4096)
	slotKids2 = 8192  // deviations: second level (at most 2*255 groups of <= 17)
	slotKids3 = 20000 // deviations: third level (at most 256 groups of <= 17)
)

const aliveBudget = 6 << 20 // bytes of cloned objects a worker keeps alive in one batch

type stackEnt struct {
	h    *hist
	slot uint32
}

// rebuildCmds returns the commands that make state n available in a slot, replaying only the part of
// its history that is not already on the worker's ancestor stack; the last command is a Hash whose
// result must equal n.raw (deterministic replay self-check).
func (e *eng) rebuildCmds(n *snode, stack *[]stackEnt) (cmds []cserve.Cmd, top uint32) {
	var chain []*hist
	for x := n.h; x != nil; x = x.parent {
		chain = append(chain, x)
	}
	for i, j := 0, len(chain)-1; i < j; i, j = i+1, j-1 {
		chain[i], chain[j] = chain[j], chain[i]
	}
	keep := 0
	for keep < len(*stack) && keep < len(chain) && (*stack)[keep].h == chain[keep] {
		keep++
	}
	*stack = (*stack)[:keep]
	for i := keep; i < len(chain); i++ {
		slot := uint32(slotStack + i)
		if i == 0 {
			c := e.newCmd()
			c.Slot = slot
			cmds = append(cmds, c)
		} else {
			cmds = append(cmds, cserve.Clone((*stack)[i-1].slot, slot))
		}
		for _, c := range chain[i].cmds {
			c.Slot = slot
			cmds = append(cmds, c)
		}
		*stack = append(*stack, stackEnt{chain[i], slot})
	}
	top = (*stack)[len(*stack)-1].slot
	cmds = append(cmds, cserve.Hash(top))
	return cmds, top
}

// objSize: bytes a cloned slot costs (object + a typical pixel buffer for image decoders).
func (e *eng) objSize() int {
	n := 1
	if p, ok := e.srv.PackageByName(e.pk.name); ok {
		n = int(p.Sizeof)
	}
	if e.pk.kind == cserve.KindImageDecoder {
		n += 128 << 10
	}
	return n
}

type kidSum struct {
	h     *hist
	phase int
	class int
	key   [2]uint64
	raw   [8]uint64
}

type bfsReport struct {
	Package        string  `json:"package"`
	Variant        string  `json:"variant"`
	States         int64   `json:"states"`
	Transitions    int64   `json:"transitions"`
	FullDepth      int     `json:"full_alphabet_depth"`
	MaxDepth       int     `json:"max_depth"`
	DepthDone      int     `json:"depth_completed"`
	Reduced        int     `json:"reduced_alphabet_size"`
	Frontier       []int   `json:"frontier_per_level"`
	CapHit         bool    `json:"cap_hit"`
	FrontierCapped bool    `json:"frontier_capped"`
	Seconds        float64 `json:"seconds"`
}

// bfs: level-synchronous explicit-state search from the initial state. Transitions: feed(b) for b in
// the level's alphabet (closed=false) and close. Frontier states are rebuilt from their histories.
func bfs(r *ev.Run, engs []*eng, alphaFull, alphaReduced []byte, fullDepth, maxDepth int, capStates, capFrontier int) (rep bfsReport) {
	e0 := engs[0]
	rep = bfsReport{Package: e0.pk.name, Variant: e0.variant, FullDepth: fullDepth, MaxDepth: maxDepth, Reduced: len(alphaReduced)}
	var t0 int64
	for _, e := range engs {
		t0 += e.st.transitions
	}
	defer func() {
		for _, e := range engs {
			rep.Transitions += e.st.transitions
		}
		rep.Transitions -= t0
	}()
	root := &snode{h: &hist{}, class: clsWait}
	{
		c := e0.newCmd()
		c.Slot = slotLinear
		if !e0.do([]cserve.Cmd{c, cserve.Hash(slotLinear), cserve.Free(slotLinear)}, nil) {
			return rep
		}
		if !e0.resBuf[0].OK {
			e0.violation("initialize-failed", e0.resBuf[0].Status, "initialize returned "+e0.resBuf[0].Status, root.h, nil, "")
			return rep
		}
		root.raw = e0.resBuf[1].Hash
	}
	visited := map[[2]uint64]struct{}{}
	frontier := []*snode{root}
	stacks := make([][]stackEnt, len(engs))
	obj := e0.objSize()
	for depth := 0; depth < maxDepth && len(frontier) > 0; depth++ {
		alpha := alphaReduced
		if depth < fullDepth {
			alpha = alphaFull
		}
		ins := make([]input, 0, len(alpha)+1)
		for _, b := range alpha {
			ins = append(ins, input{[]byte{b}, false})
		}
		ins = append(ins, input{nil, true})
		rep.Frontier = append(rep.Frontier, len(frontier))
		tLevel := time.Now()
		out := make([][]kidSum, len(frontier))
		_ = obj
		chunk := max(1, min(64, 4096/len(ins)))
		nchunks := (len(frontier) + chunk - 1) / chunk
		var stopped bool
		var mu sync.Mutex
		ev.ParFor(nchunks, func(w, ci int) {
			e := engs[w]
			if e.expired() {
				mu.Lock()
				stopped = true
				mu.Unlock()
				return
			}
			lo, hi := ci*chunk, min((ci+1)*chunk, len(frontier))
			gs := make([]*group, 0, hi-lo)
			for pi := lo; pi < hi; pi++ {
				p := frontier[pi]
				pre, top := e.rebuildCmds(p, &stacks[w])
				gs = append(gs, &group{h: p.h, slot: top, phase: p.phase, ins: ins, base: uint32(slotKids + (pi-lo)*len(ins)), pre: pre, tag: pi})
			}
			ok := e.expandFast(gs, func(g *group, res []cserve.Result) {
				if got := res[len(res)-1].Hash; got != frontier[g.tag].raw {
					ev.Fatal("%s [%s]: replaying the recorded history of a state gave a different state (harness or hermeticity problem) at depth %d:\n got  %x\n want %x\n history %+v", e.pk.name, e.variant, g.h.depth, got, frontier[g.tag].raw, g.h.all())
				}
			})
			if !ok {
				stacks[w] = stacks[w][:0]
				return
			}
			for _, g := range gs {
				sums := make([]kidSum, 0, len(g.kids))
				for _, k := range g.kids {
					sums = append(sums, kidSum{phase: k.phase, class: k.class, key: k.key, raw: k.raw,
						h: &hist{parent: g.h, cmds: k.cmds, depth: g.h.depth + 1, last: k.status}})
				}
				out[g.tag] = sums
			}
		})
		if os.Getenv("C03_DEBUG") != "" {
			fmt.Printf("  %s/%s depth %d: %d parents x %d inputs, chunk %d, %.2fs\n", e0.pk.name, e0.variant, depth, len(frontier), len(ins), chunk, time.Since(tLevel).Seconds())
		}
		var next []*snode
		for _, sums := range out {
			for _, s := range sums {
				if _, seen := visited[s.key]; seen {
					continue
				}
				visited[s.key] = struct{}{}
				if !terminal(s.class) {
					next = append(next, &snode{h: s.h, phase: s.phase, class: s.class, raw: s.raw, key: s.key})
				}
			}
		}
		if stopped {
			rep.CapHit = true
			break
		}
		rep.DepthDone = depth + 1
		if len(visited) > capStates && depth+1 < maxDepth && len(next) > 0 {
			rep.CapHit = true
			break
		}
		if len(next) > capFrontier {
			// cap (reported): keep the paths made of reduced-alphabet bytes first, then the others in path order
			inRed := [256]bool{}
			for _, b := range alphaReduced {
				inRed[b] = true
			}
			pure := func(n *snode) bool {
				for x := n.h; x != nil && x.parent != nil; x = x.parent {
					for _, c := range x.cmds[:1] {
						if len(c.Data) == 1 && !inRed[c.Data[0]] {
							return false
						}
					}
				}
				return true
			}
			var a, b []*snode
			for _, n := range next {
				if pure(n) {
					a = append(a, n)
				} else {
					b = append(b, n)
				}
			}
			next = append(a, b...)[:capFrontier]
			rep.FrontierCapped = true
		}
		frontier = next
	}
	for _, e := range engs {
		e.flush()
	}
	rep.States = int64(len(visited)) + 1
	return rep
}

// ---- seeds -----------------------------------------------------------------------

type seedReport struct {
	Package      string `json:"package"`
	Seed         string `json:"seed"`
	Len          int    `json:"len"`
	Configs      int    `json:"configs_walked"`
	PrefixStates int    `json:"prefix_states"`
	DevPrefixes  int    `json:"prefixes_with_all_255_deviations"`
	ContPrefixes int    `json:"prefixes_with_reduced_continuation"`
	FinalStatus  string `json:"final_status_default_config"`
	Capped       bool   `json:"capped"`
}

// walk feeds the seed one byte at a time under e.cfg; at every prefix (including the end) it also
// takes the truncation transition (close, on a clone). The state reached before the final close is
// the "never closed" outcome. Returns the prefix states (until a terminal one) when keep is set.
// Steps are issued optimistically in batches and rolled back to the batch start when a step needs
// continuation calls.
func (e *eng) walk(r *ev.Run, seed []byte, keep bool) (nodes []*snode, final string, ok bool) {
	e.flush()
	c := e.newCmd()
	c.Slot = slotLinear
	if !e.do([]cserve.Cmd{c, cserve.Hash(slotLinear)}, nil) {
		return nil, "", false
	}
	cur := &snode{h: &hist{}, class: clsWait, raw: e.resBuf[1].Hash}
	if keep {
		nodes = append(nodes, cur)
	}
	final = "(open) $base: short read"
	K := 48
	if !e.cfg.Ample {
		K = 1
	}
	i := 0
	for i <= len(seed) {
		if e.expired() {
			return nodes, final, false
		}
		n := min(K, len(seed)+1-i)
		// one group per step: inputs {close, feed}; the feed child of step s is the parent of step s+1, so
		// groups are chained: group s+1's parent slot is group s's feed child.
		gs := make([]*group, 0, n)
		parent := uint32(slotLinear)
		for s := 0; s < n; s++ {
			pos := i + s
			ins := []input{{nil, true}}
			if pos < len(seed) {
				ins = append(ins, input{seed[pos : pos+1], false})
			}
			g := &group{slot: parent, phase: cur.phase, ins: ins, base: uint32(slotKids + 2*s), tag: pos}
			gs = append(gs, g)
			parent = g.base + 1
		}
		// Chained groups need the parent's history and phase, which are only known after the previous
		// step settled: run them one batch, but accept a step only if the previous step settled at once.
		accepted := 0
		if !e.chain(gs, cur, &accepted) {
			return nodes, final, false
		}
		for s := 0; s < accepted; s++ {
			g := gs[s]
			if g.tag == len(seed) {
				final = g.kids[0].status
				i = len(seed) + 1
				break
			}
			k := g.kids[1]
			cur = &snode{h: &hist{parent: cur.h, cmds: k.cmds, depth: g.tag + 1, last: k.status}, phase: k.phase, class: k.class, key: k.key, raw: k.raw}
			i = g.tag + 1
			if terminal(k.class) {
				final = k.status
				i = len(seed) + 1
				break
			}
			if keep {
				nodes = append(nodes, cur)
			}
		}
		// make the last accepted feed child the linear state, drop the rest
		if accepted > 0 && i <= len(seed) {
			last := gs[accepted-1]
			if !e.do([]cserve.Cmd{cserve.Clone(last.base+1, slotLinear)}, nil) {
				return nodes, final, false
			}
		}
		e.freeLater(slotKids, 2*n)
		if accepted < n && K > 1 {
			K = max(1, K/4)
		} else if accepted == n && e.cfg.Ample && K < 48 {
			K *= 2
		}
	}
	e.freeLater(slotLinear, 1)
	e.flush()
	return nodes, final, true
}

// chain runs the chained step groups in one pipelined batch. Step s is accepted if every earlier
// step's feed child settled with its first call into a non-terminal state without changing phase
// (so the speculative commands of step s were exactly what the driver would have issued); the first
// step is always accepted. Calls of rejected steps are not counted or judged.
func (e *eng) chain(gs []*group, cur *snode, accepted *int) bool {
	// step 0 with full settling
	g0 := gs[0]
	g0.h = cur.h
	if len(gs) == 1 {
		if !e.expandGroups(gs[:1], nil) {
			return false
		}
		*accepted = 1
		return true
	}
	// Speculative batch: all steps' first calls. Build by hand (expandGroups settles, which must not
	// happen for steps that may be rejected).
	cmds := append(e.cmdBuf[:0], e.deferred...)
	e.deferred = e.deferred[:0]
	off := len(cmds)
	type ref struct {
		g *group
		k *child
	}
	var refs []ref
	for _, g := range gs {
		g.kids = make([]*child, len(g.ins))
		for j, in := range g.ins {
			k := &child{slot: g.base + uint32(j), phase: g.phase, in: in}
			g.kids[j] = k
			first := e.callFor(k.slot, g.phase, in)
			cmds = append(cmds, cserve.Clone(g.slot, k.slot), first, cserve.Hash(k.slot))
			refs = append(refs, ref{g, k})
		}
	}
	e.cmdBuf = cmds
	hcur := cur.h
	if !e.do(cmds, func(i int) (*hist, *child) {
		j := (i - off) / 3
		if i < off || j >= len(refs) {
			return nil, nil
		}
		// history of the crashing step = history at the batch start + the (single, speculative) feed calls of the earlier steps
		h := hcur
		n := 0
		for _, g := range gs {
			if g == refs[j].g {
				break
			}
			if len(g.kids) > 1 {
				h = &hist{parent: h, cmds: []cserve.Cmd{cmds[off+3*(n+1)+1]}, depth: h.depth + 1}
			}
			n += len(g.kids)
		}
		return h, refs[j].k
	}) {
		return false
	}
	results := append([]cserve.Result(nil), e.resBuf[:len(cmds)]...)
	ri := 0
	h := cur.h
	phase := cur.phase
	*accepted = 0
	for s, g := range gs {
		if g.phase != phase {
			break // speculated with a stale phase: reject this and later steps
		}
		g.h = h
		okStep := true
		for j, k := range g.kids {
			idx := off + 3*(ri+j)
			cmd := cmds[idx+1]
			e.evaluate(h, k, &cmd, &results[idx+1])
			k.raw = results[idx+2].Hash
			k.key = keyOf(&results[idx+2], k)
			if k.pending != nil && j == 1 {
				okStep = false
			}
		}
		ri += len(g.kids)
		*accepted = s + 1
		if len(g.kids) < 2 {
			break
		}
		fk := g.kids[1]
		if !okStep || terminal(fk.class) || fk.phase != phase {
			break // the feed child needs more than its first call, ended, or changed phase: later speculative steps are void
		}
		h = &hist{parent: h, cmds: fk.cmds, depth: h.depth + 1, last: fk.status}
	}
	// continuation rounds for all accepted steps' children together (independent slots)
	if !e.settleAll(gs[:*accepted]) {
		return false
	}
	for s := 0; s < *accepted; s++ {
		for _, k := range gs[s].kids {
			k.settled = true
			e.st.paths++
			e.st.classes[clsNames[k.class]]++
		}
	}
	return true
}

// settleAll runs continuation rounds for all children of the groups that still have a pending call.
func (e *eng) settleAll(gs []*group) bool {
	type ref struct {
		g *group
		k *child
	}
	for {
		var cmds []cserve.Cmd
		var who []ref
		for _, g := range gs {
			for _, k := range g.kids {
				if k.pending != nil {
					cmds = append(cmds, *k.pending, cserve.Hash(k.slot))
					who = append(who, ref{g, k})
				}
			}
		}
		if len(cmds) == 0 {
			return true
		}
		if !e.do(cmds, func(i int) (*hist, *child) { return who[i/2].g.h, who[i/2].k }) {
			return false
		}
		for i, w := range who {
			cmd := cmds[2*i]
			wasCheck := w.k.checkDis
			e.evaluate(w.g.h, w.k, &cmd, &e.resBuf[2*i])
			if !wasCheck {
				w.k.raw = e.resBuf[2*i+1].Hash
				w.k.key = keyOf(&e.resBuf[2*i+1], w.k)
			}
		}
	}
}

// oneShot: the whole seed in a single closed call (the most common way to call a decoder).
func (e *eng) oneShot(seed []byte) string {
	c := e.newCmd()
	c.Slot = slotLinear
	g := &group{h: &hist{}, slot: slotLinear, ins: []input{{seed, true}}, base: slotKids, pre: []cserve.Cmd{c}}
	if !e.expandGroups([]*group{g}, nil) {
		return "<crash>"
	}
	e.freeLater(slotKids, 1)
	e.freeLater(slotLinear, 1)
	e.flush()
	return g.kids[0].status
}

// deviations: from the prefix states nodes[lo:hi] take all 255 single-byte deviations; each is followed by
// (a) the rest of the seed in one closed call and (b) (if pos < contLimit) the reduced alphabet to depth 2 (+ close).
func (e *eng) deviations(r *ev.Run, seed []byte, nodes []*snode, lo, hi, contLimit int, reduced []byte, seen *sync.Map) (done int) {
	obj := e.objSize()
	e.flush()
	// bring the linear slot to nodes[lo] by replaying its history
	cmds := []cserve.Cmd{e.newCmd()}
	cmds[0].Slot = slotLinear
	for _, c := range nodes[lo].h.all() {
		c.Slot = slotLinear
		cmds = append(cmds, c)
	}
	cmds = append(cmds, cserve.Hash(slotLinear))
	if !e.do(cmds, nil) {
		return 0
	}
	if e.resBuf[len(cmds)-1].Hash != nodes[lo].raw {
		ev.Fatal("%s: replay of a seed prefix diverged at %d", e.pk.name, lo)
	}
	ins1 := make([]input, 0, len(reduced)+1)
	for _, b := range reduced {
		ins1 = append(ins1, input{[]byte{b}, false})
	}
	ins2 := append(append([]input{}, ins1...), input{nil, true})
	for pos := lo; pos < hi && pos < len(seed); pos++ {
		if e.expired() {
			return done
		}
		p := nodes[pos]
		var pre []cserve.Cmd
		if pos > lo {
			for _, c := range p.h.cmds { // advance in place
				c.Slot = slotLinear
				pre = append(pre, c)
			}
			pre = append(pre, cserve.Hash(slotLinear))
		}
		var vals []byte
		for v := 0; v < 256; v++ {
			if byte(v) != seed[pos] {
				vals = append(vals, byte(v))
			}
		}
		perKid := 2
		if pos < contLimit {
			perKid = 2 + len(ins1)
		}
		group1 := max(1, min(255, aliveBudget/(obj*perKid)))
		for g0 := 0; g0 < len(vals); g0 += group1 {
			gv := vals[g0:min(g0+group1, len(vals))]
			ins := make([]input, len(gv))
			for i, v := range gv {
				ins[i] = input{[]byte{v}, false}
			}
			lvl1 := &group{h: p.h, slot: slotLinear, phase: p.phase, ins: ins, base: slotKids, pre: pre}
			ok := e.expandGroups([]*group{lvl1}, func(g *group, res []cserve.Result) {
				if res[len(res)-1].Hash != p.raw {
					ev.Fatal("%s: in-place advance of a seed prefix diverged at %d", e.pk.name, pos)
				}
			})
			pre = nil
			if !ok {
				return done // server restarted: the linear slot is gone; the rest of this chunk is skipped (a violation was recorded)
			}
			// level 2: (a) rest of the seed; (b) reduced alphabet
			var gs2 []*group
			for _, k := range lvl1.kids {
				if terminal(k.class) {
					continue
				}
				if _, dup := seen.LoadOrStore(k.key, struct{}{}); dup {
					continue
				}
				kh := &hist{parent: p.h, cmds: k.cmds, depth: pos + 1, last: k.status}
				n := len(gs2)
				gs2 = append(gs2, &group{h: kh, slot: k.slot, phase: k.phase, ins: []input{{seed[pos+1:], true}}, base: uint32(slotKids2 + n*(len(ins1)+1))})
				if pos < contLimit {
					gs2 = append(gs2, &group{h: kh, slot: k.slot, phase: k.phase, ins: ins1, base: uint32(slotKids2 + (n+1)*(len(ins1)+1)), tag: 1})
				}
			}
			if len(gs2) > 0 && !e.expandGroups(gs2, nil) {
				return done
			}
			// level 3
			var gs3 []*group
			flush3 := func() bool {
				if len(gs3) == 0 {
					return true
				}
				ok := e.expandGroups(gs3, nil)
				for _, g := range gs3 {
					e.freeLater(g.base, len(g.kids))
				}
				gs3 = gs3[:0]
				return ok
			}
			maxG3 := max(1, min(256, aliveBudget/(obj*len(ins2))))
			for _, g := range gs2 {
				if g.tag != 1 {
					continue
				}
				for _, k1 := range g.kids {
					if terminal(k1.class) {
						continue
					}
					k1h := &hist{parent: g.h, cmds: k1.cmds, depth: pos + 2, last: k1.status}
					gs3 = append(gs3, &group{h: k1h, slot: k1.slot, phase: k1.phase, ins: ins2, base: uint32(slotKids3 + len(gs3)*len(ins2))})
					if len(gs3) >= maxG3 {
						if !flush3() {
							return done
						}
					}
				}
			}
			if !flush3() {
				return done
			}
			for _, g := range gs2 {
				e.freeLater(g.base, len(g.kids))
			}
			e.freeLater(lvl1.base, len(lvl1.kids))
		}
		done++
	}
	e.freeLater(slotLinear, 1)
	e.flush()
	return done
}

func allConfigs(kind int) []config {
	var out []config
	switch kind {
	case cserve.KindIOTransformer, cserve.KindTokenDecoder:
		ample := uint32(ampleBytes)
		if kind == cserve.KindTokenDecoder {
			ample = ampleTokens
		}
		for _, d := range []struct {
			cap   uint32
			ample bool
			eager bool
		}{{ample, true, false}, {0, false, false}, {1, false, false}, {7, false, false}, {1, false, true}, {7, false, true}} {
			for _, wm := range []bool{false, true} {
				out = append(out, config{DstCap: d.cap, Ample: d.ample, WorkMax: wm, Eager: d.eager})
			}
		}
	case cserve.KindImageDecoder:
		for _, pf := range []uint64{0, 0xFFFFFFFF} {
			for _, wm := range []bool{false, true} {
				out = append(out, config{DstCap: 0, Ample: true, WorkMax: wm, PixFmt: pf})
			}
		}
	}
	return out
}

func (c config) id() string {
	return fmt.Sprintf("%d/%v/%v/%x", c.DstCap, c.Ample, c.WorkMax, c.PixFmt)
}
