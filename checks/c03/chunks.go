package main

import (
	"bytes"
	"compress/lzw"
	"fmt"
	"sort"

	"verif/internal/cserve"
	"verif/internal/ev"
	"verif/internal/pngmk"
)

// ---- chunk scripts ---------------------------------------------------------------
//
// The byte-feed phases never present more than one new byte per call. This phase adds the CHUNK
// LENGTH dimension: a seed delivered as a script of chunks (each chunk appended to the source in one
// call; the last one with the source closed), through the canonical call sequence of the decoder,
// with the default configuration: ample destination, work buffer exactly workbuf_len().min_incl
// (an exact-size allocation, like the source of every call and the pixel buffer).

type script struct {
	name string
	ins  []input
	// state
	next  int
	k     *child
	done  bool
	final string
}

var rootHist = &hist{}

const slotScripts = 1024

// runScripts executes the scripts in windows of slots, all scripts of a window in lockstep: one
// pipelined batch per round of calls. Every call goes through the per-transition oracle.
func (e *eng) runScripts(scripts []*script) (completed int) {
	obj := e.objSize()
	win := max(1, min(256, aliveBudget/obj))
	for lo := 0; lo < len(scripts); lo += win {
		if e.expired() {
			return completed
		}
		w := scripts[lo:min(lo+win, len(scripts))]
		cmds := make([]cserve.Cmd, 0, 2*len(w))
		for i, s := range w {
			c := e.newCmd()
			c.Slot = uint32(slotScripts + i)
			cmds = append(cmds, c)
			s.k = &child{slot: c.Slot}
			s.next, s.done = 0, false
		}
		if !e.do(cmds, nil) {
			continue
		}
		crashed := false
		for round := 0; !crashed; round++ {
			if round%8 == 7 && e.expired() {
				break // time slice used up: the window is abandoned (counted as not completed)
			}
			cmds = cmds[:0]
			var who []*script
			for _, s := range w {
				if s.done {
					continue
				}
				switch {
				case s.k.pending != nil:
					cmds = append(cmds, *s.k.pending)
				case s.next < len(s.ins) && (s.next == 0 || !terminal(s.k.class)):
					s.k.noProg, s.k.prevStatus = 0, s.k.status
					cmds = append(cmds, e.callFor(s.k.slot, s.k.phase, s.ins[s.next]))
					s.next++
				default:
					s.done = true
					s.final = s.k.status
					continue
				}
				who = append(who, s)
			}
			if len(cmds) == 0 {
				break
			}
			if !e.do(cmds, func(i int) (*hist, *child) { return rootHist, who[i].k }) {
				crashed = true
				break
			}
			for i, s := range who {
				cmd := cmds[i]
				e.evaluate(rootHist, s.k, &cmd, &e.resBuf[i])
			}
		}
		if crashed {
			continue // the server was restarted, the window's slots are gone (a violation has been recorded)
		}
		for i, s := range w {
			e.freeLater(uint32(slotScripts+i), 1)
			if !s.done {
				continue
			}
			e.st.paths++
			e.st.classes["script:"+clsNames[s.k.class]]++
			completed++
		}
	}
	e.flush()
	return completed
}

var uniformLens = []int{2, 3, 4, 5, 6, 7, 8, 9, 10, 11, 12, 13, 14, 15, 16, 31, 32, 33, 63, 64, 65}

// chunkScripts: one-shot, every two-chunk split, and the uniform chunk lengths.
func chunkScripts(name string, data []byte, allSplits bool, uniform []int) []*script {
	var out []*script
	out = append(out, &script{name: name + "/one-shot", ins: []input{{data, true}}})
	ks := []int{}
	if allSplits {
		for k := 0; k <= len(data); k++ {
			ks = append(ks, k)
		}
	} else {
		for _, k := range []int{1, 8, 33, len(data) / 2, len(data) - 12, len(data) - 1} {
			if k > 0 && k < len(data) {
				ks = append(ks, k)
			}
		}
	}
	for _, k := range ks {
		out = append(out, &script{name: fmt.Sprintf("%s/split@%d", name, k), ins: []input{{data[:k], false}, {data[k:], true}}})
	}
	for _, L := range uniform {
		if L >= len(data) {
			continue
		}
		var ins []input
		for o := 0; o < len(data); o += L {
			end := min(o+L, len(data))
			ins = append(ins, input{data[o:end], end == len(data)})
		}
		out = append(out, &script{name: fmt.Sprintf("%s/uniform%d", name, L), ins: ins})
	}
	return out
}

// ---- JSON texts over a tiny grammar ------------------------------------------------

func jsonTexts(maxLen int) [][]byte {
	scalars := []string{"true", "false", "null", "0", "1", "-1", "12", "1.5", "1e2", "-0.1", `""`, `"a"`, `"\n"`, `"é"`}
	seen := map[string]bool{}
	var out []string
	add := func(s string) {
		if len(s) <= maxLen && !seen[s] {
			seen[s] = true
			out = append(out, s)
		}
	}
	level := append([]string{}, scalars...)
	for _, s := range scalars {
		add(s)
	}
	add("[]")
	add("{}")
	for depth := 0; depth < 2; depth++ {
		var next []string
		vals := append(append([]string{}, level...), "[]", "{}")
		for _, v := range vals {
			for _, t := range []string{"[" + v + "]", `{"a":` + v + "}", "[" + v + ",1]", "[1," + v + "]", "[ " + v + " ]", `{"":` + v + `,"b":1}`} {
				if len(t) <= maxLen && !seen[t] {
					next = append(next, t)
				}
				add(t)
			}
		}
		for i, v := range vals {
			for j, u := range vals {
				if i < 14 && j < 14 {
					add("[" + v + "," + u + "]")
				}
			}
		}
		level = next
	}
	for _, s := range scalars[:3] {
		add(s + "\n")
		add(" " + s)
	}
	sort.Strings(out)
	res := make([][]byte, len(out))
	for i, s := range out {
		res[i] = []byte(s)
	}
	return res
}

// ---- CBOR items: every major type / argument width, alone, in an array, followed by another item ----

func cborTexts() [][]byte {
	items := [][]byte{
		{0x00}, {0x17}, {0x18, 0x18}, {0x19, 0x01, 0x00}, {0x1A, 0, 1, 0, 0}, {0x1B, 0, 0, 0, 1, 0, 0, 0, 0},
		{0x20}, {0x37}, {0x38, 0xFF}, {0x39, 1, 0}, {0x3A, 0, 1, 0, 0}, {0x3B, 0xFF, 0xFF, 0xFF, 0xFF, 0xFF, 0xFF, 0xFF, 0xFF},
		{0x40}, {0x41, 0x61}, {0x47, 1, 2, 3, 4, 5, 6, 7}, {0x58, 2, 0x61, 0x62}, {0x5F, 0x41, 0x61, 0x40, 0xFF},
		{0x60}, {0x61, 0x61}, {0x67, 'a', 'b', 'c', 'd', 'e', 'f', 'g'}, {0x62, 0xC3, 0xA9}, {0x78, 1, 0x61}, {0x7F, 0x61, 0x61, 0xFF},
		{0x80}, {0x81, 0x01}, {0x9F, 0x01, 0xFF}, {0x98, 1, 0x00},
		{0xA0}, {0xA1, 0x61, 0x61, 0x01}, {0xBF, 0x61, 0x61, 0x01, 0xFF},
		{0xC0, 0x60}, {0xC1, 0x00}, {0xD8, 0x20, 0x60}, {0xD9, 0xD9, 0xF7, 0x00},
		{0xF4}, {0xF5}, {0xF6}, {0xF7}, {0xF0}, {0xF8, 0x20},
		{0xF9, 0x3C, 0x00}, {0xFA, 0x3F, 0x80, 0, 0}, {0xFB, 0x3F, 0xF0, 0, 0, 0, 0, 0, 0},
	}
	var out [][]byte
	for _, it := range items {
		out = append(out, it)
		out = append(out, append([]byte{0x81}, it...))
		out = append(out, append(append([]byte{0x82}, it...), 0x01))
		out = append(out, append([]byte{0xA1, 0x61, 0x6B}, it...))
	}
	return out
}

// ---- LZW: output sizes around the decoder's 4096-byte internal flush, with trailing bytes ------------

func lzwFlushFamily(thorough bool) []seed {
	var out []seed
	ds := []int{0, 1, 7, 32}
	step := 3
	if thorough {
		ds = []int{0, 1, 2, 3, 5, 7, 11, 17, 23, 32}
		step = 1
	}
	for _, d := range ds {
		for n := 4090; n <= 4200; n += step {
			p := make([]byte, n)
			for i := range p {
				if i < d {
					p[i] = byte(i*7 + 1)
				} else {
					p[i] = 0x55
				}
			}
			var b bytes.Buffer
			w := lzw.NewWriter(&b, lzw.LSB, 8)
			w.Write(p)
			w.Close()
			b.Write([]byte{1, 2, 3, 4, 5, 6, 7, 8}) // the stream embedded in a container: bytes follow the end code
			out = append(out, seed{fmt.Sprintf("gen:lzw/flush-d%d-n%d", d, n), append([]byte(nil), b.Bytes()...)})
		}
	}
	return out
}

// ---- PNG family: internal/pngmk (colour type x depth x filter type per row x width x height, + Adam7) ----

// pngFamily returns the pngmk files; every one is checked against Go's image/png (pixel-exact), an
// independent decoder, so a broken writer is a harness error and not a finding.
func pngFamily(thorough bool) []seed {
	tier := "quick"
	if thorough {
		tier = "thorough"
	}
	var out []seed
	for _, im := range pngmk.Enumerate(tier) {
		if err := pngmk.Validate(im); err != nil {
			ev.Fatal("PNG writer self-check: %v", err)
		}
		out = append(out, seed{"gen:" + im.Name, im.Data})
	}
	return out
}
