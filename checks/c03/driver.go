package main

import (
	"fmt"
	"strings"
	"time"

	"verif/internal/cserve"
	"verif/internal/ev"
)

// ---- configuration of one exploration ------------------------------------------

const ampleBytes = 72 << 10 // >= 64 KiB + the largest single write of any std transformer (lzw: 8 KiB)
const ampleTokens = 512
const maxPixBytes = 1 << 20 // larger images: the harness refuses decode_frame (state class "refused")
const maxWorkBytes = 64 << 20

type config struct {
	DstCap  uint32 `json:"dst_cap"` // free space per call: bytes (io_transformer) or tokens (token_decoder)
	Ample   bool   `json:"ample"`
	WorkMax bool   `json:"work_max"` // false: workbuf_len().min, true: .max (capped at 64 MiB, else min)
	PixFmt  uint64 `json:"pixfmt"`   // 0: BGRA_NONPREMUL, 0xFFFFFFFF: the image's own format
	// Eager: with a small destination, do not drain the output with data-less calls after "$short write" while the
	// source is open: the next call brings the next input (a caller that refills both buffers); closed calls drain.
	Eager bool `json:"eager,omitempty"`
}

func (c config) String() string {
	w := "wmin"
	if c.WorkMax {
		w = "wmax"
	}
	d := fmt.Sprint(c.DstCap)
	if c.Ample {
		d = "ample"
	}
	p := ""
	if c.PixFmt != 0 {
		p = "/native"
	}
	if c.Eager {
		p += "/eager"
	}
	return "dst=" + d + "/" + w + p
}

func defaultConfig(kind int) config {
	c := config{DstCap: ampleBytes, Ample: true}
	if kind == cserve.KindTokenDecoder {
		c.DstCap = ampleTokens
	}
	return c
}

// ---- classes of settled states -----------------------------------------------

const (
	clsWait      = iota // suspended on "$short read" with an open source: more input can be fed
	clsStalled          // "$short write" with a non-ample destination that made no progress: still open for input
	clsOK               // terminal: ok (stream finished)
	clsEnd              // terminal: a note ("@base: end of data")
	clsErr              // terminal: error (object disabled)
	clsRefused          // terminal: the harness refused (pixel buffer too large)
	clsAbandoned        // terminal: driver gave up (no progress twice, or call cap)
)

var clsNames = []string{"wait", "stalled", "ok", "end", "err", "refused", "abandoned"}

func terminal(c int) bool { return c >= clsOK }

const (
	phDIC = 0
	phDFC = 1
	phDF  = 2
)

var phaseMethod = []int{cserve.MDecodeImageConfig, cserve.MDecodeFrameConfig, cserve.MDecodeFrame}
var methodNames = map[int]string{cserve.MTransformIO: "transform_io", cserve.MDecodeImageConfig: "decode_image_config",
	cserve.MDecodeFrameConfig: "decode_frame_config", cserve.MDecodeFrame: "decode_frame", cserve.MDecodeTokens: "decode_tokens",
	cserve.MUpdate: "update", cserve.MUpdateVal: "update_val", cserve.MChecksum: "checksum"}

// input is one transition: bytes appended to the source (+ whether the source is closed for this and the continuation calls).
type input struct {
	data   []byte
	closed bool
}

// hist is the command history of a state (a tree shared between siblings).
type hist struct {
	parent *hist
	cmds   []cserve.Cmd
	depth  int
	last   string // status in which this state settled
}

func (h *hist) all() []cserve.Cmd {
	var chain []*hist
	for x := h; x != nil; x = x.parent {
		chain = append(chain, x)
	}
	var out []cserve.Cmd
	for i := len(chain) - 1; i >= 0; i-- {
		out = append(out, chain[i].cmds...)
	}
	return out
}

// child is a state being settled.
type child struct {
	slot       uint32
	phase      int
	in         input
	cmds       []cserve.Cmd // calls executed on this child (after the clone)
	statuses   []string
	class      int
	status     string
	key        [2]uint64
	raw        [8]uint64
	pending    *cserve.Cmd // next call to issue (nil: settled)
	checkDis   bool        // the pending call is the "disabled after error" follow-up
	noProg     int
	prevStatus string
	written    uint64
	settled    bool
	redone     bool
}

type pkgInfo struct {
	name string
	kind int
}

// eng drives one server on behalf of one worker.
type eng struct {
	r        *ev.Run
	srv      *cserve.Server
	built    *cserve.Built
	variant  string
	pk       pkgInfo
	cfg      config
	st       *stats
	cmdBuf   []cserve.Cmd
	deferred []cserve.Cmd
	resBuf   []cserve.Result
	deadline time.Time // end of the current time slice (zero: none)
	dead     bool
}

type stats struct {
	transitions int64 // wuffs calls executed
	paths       int64 // children settled (explored paths)
	status      map[string]int64
	classes     map[string]int64
	viol        int64
	crashes     int64
	maxCalls    int
}

func newStats() *stats { return &stats{status: map[string]int64{}, classes: map[string]int64{}} }

// expired: the run's budget or the current time slice is used up (the run is then marked as capped).
func (e *eng) expired() bool {
	if e.r.Expired() {
		return true
	}
	if !e.deadline.IsZero() && time.Now().After(e.deadline) {
		e.r.MarkCapped()
		return true
	}
	return false
}

func (e *eng) newCmd() cserve.Cmd { return cserve.New(0, e.pk.name, cserve.NewOpts{}) }

func (e *eng) callFor(slot uint32, phase int, in input) cserve.Cmd {
	var c cserve.Cmd
	switch e.pk.kind {
	case cserve.KindIOTransformer:
		c = cserve.Feed(slot, cserve.MTransformIO, in.data, in.closed)
		c.DstCap = e.cfg.DstCap
		c.DstFill = 0xEE
	case cserve.KindTokenDecoder:
		c = cserve.Feed(slot, cserve.MDecodeTokens, in.data, in.closed)
		c.DstCap = e.cfg.DstCap
	case cserve.KindHasherU32, cserve.KindHasherU64, cserve.KindHasherBitvec256:
		switch {
		case in.closed:
			c = cserve.Checksum(slot)
		case len(in.data) > 0 && in.data[0]&1 == 1:
			c = cserve.UpdateVal(slot, in.data)
		default:
			c = cserve.Update(slot, in.data)
		}
		return c
	case cserve.KindImageDecoder:
		c = cserve.Feed(slot, phaseMethod[phase], in.data, in.closed)
		if phase == phDF {
			c.A0 = e.cfg.PixFmt
			c.A1 = maxPixBytes
			c.DstFill = 0xEE
		}
	default:
		panic("callFor: kind")
	}
	if c.Method == cserve.MTransformIO || c.Method == cserve.MDecodeTokens || c.Method == cserve.MDecodeFrame {
		c.WorkPolicy = cserve.WorkMin
		if e.cfg.WorkMax {
			c.WorkPolicy = cserve.WorkMaxCapped
			c.WorkLen = maxWorkBytes
		}
		c.WorkFill = 0xA5
	}
	return c
}

const disabledStatus = "#base: disabled by previous error"
const maxCallsPerStep = 4096

// witness is what a replay file holds.
type witness struct {
	Package  string       `json:"package"`
	Variant  string       `json:"variant"`
	Config   config       `json:"config"`
	Kind     string       `json:"kind"`
	Expect   string       `json:"expect"`
	Cmds     []cserve.Cmd `json:"cmds"`
	Statuses []string     `json:"statuses_of_last_step,omitempty"`
	Stderr   string       `json:"stderr,omitempty"`
}

func (e *eng) violation(kind, detail, what string, h *hist, c *child, stderr string) {
	e.st.viol++
	sig := e.pk.name + "|" + kind
	if detail != "" {
		sig += "|" + detail
	}
	cmds := []cserve.Cmd{e.newCmd()}
	cmds = append(cmds, h.all()...)
	var sts []string
	if c != nil {
		// the child's calls operate on c.slot, a clone of the parent: rewrite to slot 0 for the linear witness
		for _, x := range c.cmds {
			x.Slot = 0
			cmds = append(cmds, x)
		}
		sts = c.statuses
	}
	for i := range cmds {
		cmds[i].Slot = 0
	}
	e.r.Violation(sig, e.pk.name+" ["+e.variant+" "+e.cfg.String()+"]: "+what,
		witness{Package: e.pk.name, Variant: e.variant, Config: e.cfg, Kind: kind, Expect: what, Cmds: cmds, Statuses: sts, Stderr: stderr})
}

// evaluate applies the per-transition oracle to one executed call and decides what happens next.
func (e *eng) evaluate(h *hist, c *child, cmd *cserve.Cmd, res *cserve.Result) {
	e.st.transitions++
	c.cmds = append(c.cmds, *cmd)
	method := methodNames[cmd.Method]
	if res.Err != "" {
		c.statuses = append(c.statuses, "!"+res.Err)
		if !strings.Contains(res.Err, "too large") {
			ev.Fatal("%s: server refused %+v: %s", e.pk.name, *cmd, res.Err)
		}
		c.class, c.status, c.pending = clsRefused, "!"+res.Err, nil
		return
	}
	st := res.Status
	if res.OK {
		st = "ok"
	}
	c.statuses = append(c.statuses, st)
	e.st.status[method+" "+st]++
	closed := cmd.Flags&cserve.FClosed != 0
	if res.Contract&cserve.InfoMask != 0 {
		names := strings.Join(cserve.ContractNames(res.Contract&cserve.InfoMask), ",")
		e.violation("io-contract:"+names, method, fmt.Sprintf("%s broke the buffer contract (%s); status %q", method, names, st), h, c, "")
	}
	if res.Allocs != 0 && res.Contract&cserve.CAlloc == 0 {
		e.violation("allocator-called", method, fmt.Sprintf("%s made %d allocator calls", method, res.Allocs), h, c, "")
	}
	if !res.HasStatus {
		// hashers: no status; update leaves the state open, checksum ends the path
		c.pending = nil
		c.class, c.status = clsWait, "(no status)"
		if cmd.Method == cserve.MChecksum {
			c.class = clsOK
		}
		return
	}
	if !res.OK && (st == "" || (st[0] != '@' && st[0] != '$' && st[0] != '#')) {
		e.violation("bad-status-class", method, fmt.Sprintf("%s returned status %q which is neither ok, note, suspension nor error", method, st), h, c, "")
	}
	if strings.Contains(st, "internal error") {
		e.violation("internal-error", method+"|"+st, fmt.Sprintf("%s returned %q", method, st), h, c, "")
	}
	progress := res.SrcRi1 != res.SrcRi0 || res.NWritten > 0
	c.written += uint64(res.NWritten)
	if c.checkDis {
		// follow-up after an error: must be the sticky disabled error
		c.checkDis = false
		if st != disabledStatus {
			e.violation("not-disabled-after-error", method+"|after "+c.status,
				fmt.Sprintf("after %q the next %s call returned %q instead of %q", c.status, method, st, disabledStatus), h, c, "")
		}
		c.pending = nil
		return
	}
	if len(c.cmds) > maxCallsPerStep {
		c.class, c.status, c.pending = clsAbandoned, st, nil
		e.st.classes["driver-call-cap"]++
		return
	}
	cont := func() { // same call again, no new data
		n := e.callFor(c.slot, c.phase, input{nil, closed})
		c.pending = &n
	}
	c.pending = nil
	prev := c.prevStatus
	if prev == "" && h != nil {
		prev = h.last
	}
	c.prevStatus = st
	switch {
	case res.OK:
		if e.pk.kind == cserve.KindImageDecoder {
			switch c.phase {
			case phDIC:
				c.phase = phDFC
			case phDFC:
				c.phase = phDF
			case phDF:
				c.phase = phDFC
			}
			c.noProg = 0
			cont()
			return
		}
		c.class, c.status = clsOK, st
	case st[0] == '@':
		c.class, c.status = clsEnd, st
	case st[0] == '#':
		if res.Magic != cserve.MagicDisabled && st != disabledStatus {
			e.violation("not-disabled-after-error", method+"|magic", fmt.Sprintf("%s returned %q but the object's magic is %#x, not DISABLED", method, st, res.Magic), h, c, "")
		}
		c.class, c.status = clsErr, st
		c.checkDis = true
		cont()
	case st == "$base: short read":
		if closed {
			// Violation exactly as the property words it; then retry (DESIGN E4 driver policy) so that one
			// spurious suspension is reported once; abandon when two consecutive calls make no progress.
			e.violation("short-read-on-closed-source", method+"|previous call: "+orNone(prev),
				fmt.Sprintf("%s returned \"$base: short read\" although the source passed to it was closed (ri=%d wi=%d, previous status %q)", method, res.SrcRi1, res.SrcWi1, prev), h, c, "")
			if !progress {
				c.noProg++
			} else {
				c.noProg = 0
			}
			if c.noProg >= 2 {
				c.class, c.status = clsAbandoned, st
				return
			}
			cont()
			return
		}
		c.class, c.status = clsWait, st
	case st == "$base: short write":
		if cmd.Flags&cserve.FNullDst == 0 && res.DstWi0 == 0 && e.cfg.Ample && res.NWritten == 0 && cmd.Method != cserve.MDecodeFrame {
			e.violation("short-write-into-empty-ample-destination", method,
				fmt.Sprintf("%s returned \"$base: short write\" without writing anything into an empty destination of %d free units", method, cmd.DstCap), h, c, "")
			c.class, c.status = clsAbandoned, st
			return
		}
		if !progress {
			c.noProg++
		} else {
			c.noProg = 0
		}
		if e.cfg.Eager && !e.cfg.Ample && !closed {
			c.class, c.status = clsStalled, st
			return
		}
		if c.noProg >= 1 && !e.cfg.Ample && res.NWritten == 0 {
			// a destination of 0/1/7 units that cannot take the next write: legitimate; stay open for input
			c.class, c.status = clsStalled, st
			return
		}
		if c.noProg >= 2 {
			c.class, c.status = clsAbandoned, st
			return
		}
		cont()
	case st == "$base: short workbuf":
		// answered by re-querying workbuf_len and growing the work buffer (the call does that: WorkMin)
		if !progress {
			c.noProg++
		}
		if c.noProg >= 3 {
			c.class, c.status = clsAbandoned, st
			e.st.classes["short-workbuf-not-resolved"]++
			return
		}
		cont()
	default:
		e.violation("unjustified-suspension", method+"|"+st, fmt.Sprintf("%s returned suspension %q, which no buffer state of the canonical call sequence justifies", method, st), h, c, "")
		c.class, c.status = clsAbandoned, st
	}
}

func orNone(s string) string {
	if s == "" {
		return "none"
	}
	return s
}

// do runs a batch; a server crash is turned into a violation with a self-contained witness.
// Returns false if the server died (it has been restarted; all slots are lost).
func (e *eng) do(cmds []cserve.Cmd, owner func(i int) (*hist, *child)) bool {
	if cap(e.resBuf) < len(cmds) {
		e.resBuf = make([]cserve.Result, len(cmds)*2)
	}
	e.resBuf = e.resBuf[:len(cmds)]
	err := e.srv.DoInto(cmds, e.resBuf)
	if err == nil {
		for i := range cmds {
			if e.resBuf[i].Err != "" && cmds[i].Op != cserve.OpCall && cmds[i].Op != cserve.OpFree {
				ev.Fatal("%s [%s]: server refused command %d of %d (%+v): %s", e.pk.name, e.variant, i, len(cmds), cmds[i], e.resBuf[i].Err)
			}
		}
		return true
	}
	ce, ok := err.(*cserve.CrashError)
	if !ok {
		ev.Fatal("%s: %v", e.pk.name, err)
	}
	e.st.crashes++
	e.deferred = e.deferred[:0]
	var h *hist
	var c *child
	if ce.CmdIndex >= 0 && owner != nil {
		h, c = owner(ce.CmdIndex)
	}
	kind, detail := crashKind(ce)
	if c != nil && ce.CmdIndex >= 0 && ce.Sent[ce.CmdIndex].Op == cserve.OpCall {
		c.cmds = append(c.cmds, ce.Sent[ce.CmdIndex])
		c.statuses = append(c.statuses, "<"+ce.Kind+">")
	}
	if ce.Kind == "protocol" {
		ev.Fatal("%s: protocol error: %v", e.pk.name, ce)
	}
	if h == nil && c == nil {
		// cannot attribute: give the raw batch as witness
		e.st.viol++
		e.r.Violation(e.pk.name+"|"+kind+"|"+detail, e.pk.name+" ["+e.variant+"]: "+ce.Summary(),
			witness{Package: e.pk.name, Variant: e.variant, Config: e.cfg, Kind: kind, Expect: ce.Summary(), Cmds: ce.Sent, Stderr: ce.Stderr})
	} else {
		e.violation(kind, detail, ce.Summary(), h, c, ce.Stderr)
	}
	if err := e.srv.Restart(); err != nil {
		ev.Fatal("%s: cannot restart server: %v", e.pk.name, err)
	}
	return false
}

func crashKind(ce *cserve.CrashError) (kind, detail string) {
	if ce.Kind == "hang" {
		return "hang", "call did not return"
	}
	s := ce.Summary()
	kind = "sanitizer"
	for _, k := range []string{"heap-buffer-overflow", "stack-buffer-overflow", "global-buffer-overflow", "heap-use-after-free", "SEGV",
		"signed integer overflow", "shift exponent", "left shift", "out of bounds", "misaligned", "null pointer", "load of value", "division by zero", "WSERVER-SIGNAL", "WSERVER-OOM"} {
		if strings.Contains(s, k) {
			kind = "sanitizer:" + strings.ReplaceAll(k, " ", "-")
			break
		}
	}
	for _, f := range ce.Frames(12) {
		if strings.HasPrefix(f, "wuffs_") {
			detail = f
			break
		}
	}
	if detail == "" {
		if i := strings.Index(s, " in "); i >= 0 {
			detail = s[i+4:]
		}
	}
	return kind, detail
}

func keyOf(res *cserve.Result, c *child) [2]uint64 {
	h := res.Hash
	a := h[0] ^ (h[2] * 0x9e3779b97f4a7c15) ^ (h[4] * 0xc2b2ae3d27d4eb4f) ^ (h[6] * 0x165667b19e3779f9)
	b := h[1] ^ (h[3] * 0xff51afd7ed558ccd) ^ (h[5] * 0xc4ceb9fe1a85ec53) ^ (h[7] * 0x2545f4914f6cdd1d)
	a ^= uint64(c.phase+1) * 0xd6e8feb86659fd93
	b ^= uint64(c.class+1) * 0xa0761d6478bd642f
	for i := 0; i < len(c.status); i++ {
		b = (b ^ uint64(c.status[i])) * 0x100000001b3
	}
	return [2]uint64{a, b}
}

// group: one parent state and the inputs to apply to clones of it.
type group struct {
	h     *hist
	slot  uint32 // parent slot
	phase int
	ins   []input
	base  uint32       // children occupy base .. base+len(ins)-1
	pre   []cserve.Cmd // commands to run before this group's clones (e.g. the rebuild of the parent)
	kids  []*child
	tag   int
}

// expandGroups: for every group, clone the parent once per input, apply the input and settle each
// child (continuation calls, phase advances, the disabled-after-error follow-up), all groups
// pipelined together: one round trip per round of calls. Children keep their slots (free them with
// e.freeLater). Results of the `pre` commands are handed to onPre. Returns false if the server
// crashed (a violation has been recorded, the server restarted, all slots are lost).
func (e *eng) expandGroups(gs []*group, onPre func(g *group, res []cserve.Result)) bool {
	cmds := append(e.cmdBuf[:0], e.deferred...)
	e.deferred = e.deferred[:0]
	nFree := len(cmds)
	type own struct {
		g *group
		k *child
	}
	owners := make([]own, len(cmds), len(cmds)+64)
	type preSpan struct {
		g      *group
		lo, hi int
	}
	var spans []preSpan
	for _, g := range gs {
		if len(g.pre) > 0 {
			spans = append(spans, preSpan{g, len(cmds), len(cmds) + len(g.pre)})
			for range g.pre {
				owners = append(owners, own{})
			}
			cmds = append(cmds, g.pre...)
		}
		g.kids = make([]*child, len(g.ins))
		for i, in := range g.ins {
			k := &child{slot: g.base + uint32(i), phase: g.phase, in: in}
			g.kids[i] = k
			first := e.callFor(k.slot, g.phase, in)
			cmds = append(cmds, cserve.Clone(g.slot, k.slot), first, cserve.Hash(k.slot))
			owners = append(owners, own{}, own{g, k}, own{})
		}
	}
	_ = nFree
	for round := 0; ; round++ {
		if len(cmds) == 0 {
			break
		}
		e.cmdBuf = cmds
		if !e.do(cmds, func(i int) (*hist, *child) {
			if i < len(owners) && owners[i].k != nil {
				return owners[i].g.h, owners[i].k
			}
			return nil, nil
		}) {
			return false
		}
		if round == 0 && onPre != nil {
			for _, sp := range spans {
				onPre(sp.g, e.resBuf[sp.lo:sp.hi])
			}
		}
		type pend struct {
			g *group
			k *child
		}
		var next []pend
		for i := range cmds {
			o := owners[i]
			if o.k == nil {
				continue
			}
			cmd := cmds[i]
			wasCheck := o.k.checkDis
			e.evaluate(o.g.h, o.k, &cmd, &e.resBuf[i])
			if !wasCheck {
				// key and raw hashes are taken at the settled state, before the disabled-check follow-up
				o.k.raw = e.resBuf[i+1].Hash
				o.k.key = keyOf(&e.resBuf[i+1], o.k)
			}
			if o.k.pending != nil {
				next = append(next, pend{o.g, o.k})
			}
		}
		cmds = cmds[:0]
		owners = owners[:0]
		for _, p := range next {
			cmds = append(cmds, *p.k.pending, cserve.Hash(p.k.slot))
			owners = append(owners, own{p.g, p.k}, own{})
		}
	}
	for _, g := range gs {
		for _, k := range g.kids {
			k.settled = true
			e.st.paths++
			e.st.classes[clsNames[k.class]]++
			if len(k.cmds) > e.st.maxCalls {
				e.st.maxCalls = len(k.cmds)
			}
		}
	}
	return true
}

// freeLater queues Free commands that ride along with the next batch.
func (e *eng) freeLater(base uint32, n int) {
	for i := 0; i < n; i++ {
		e.deferred = append(e.deferred, cserve.Free(base+uint32(i)))
	}
}

// flush sends the queued frees.
func (e *eng) flush() {
	if len(e.deferred) > 0 {
		cmds := append([]cserve.Cmd(nil), e.deferred...)
		e.deferred = e.deferred[:0]
		e.do(cmds, nil)
	}
}

const slotTemp = 3
const slotRedo = 6000 // parents rebuilt for the slow path of expandFast (at most 64 per batch)

// expandFast does what expandGroups does, but runs every child through the single temporary slot
// slotTemp with one speculative follow-up call (Clone, Call, Hash, Call): no cloned object stays alive,
// which keeps the server's memory footprint (and page-fault cost) flat. The speculative call is
// exactly what the driver would issue next when the first call returned an error (the
// disabled-after-error check); it is ignored (not judged, not counted) when the first call settled
// the child. Children that need real continuation (short write with progress, short workbuf, phase
// advance) are redone through expandGroups. Children do not keep slots.
func (e *eng) expandFast(gs []*group, onPre func(g *group, res []cserve.Result)) bool {
	cmds := append(e.cmdBuf[:0], e.deferred...)
	e.deferred = e.deferred[:0]
	type ref struct {
		g   *group
		k   *child
		idx int // index of the first call
	}
	var refs []ref
	type preSpan struct {
		g      *group
		lo, hi int
	}
	var spans []preSpan
	for _, g := range gs {
		if len(g.pre) > 0 {
			spans = append(spans, preSpan{g, len(cmds), len(cmds) + len(g.pre)})
			cmds = append(cmds, g.pre...)
		}
		g.kids = make([]*child, len(g.ins))
		for i, in := range g.ins {
			k := &child{slot: slotTemp, phase: g.phase, in: in}
			g.kids[i] = k
			first := e.callFor(slotTemp, g.phase, in)
			spec := e.callFor(slotTemp, g.phase, input{nil, in.closed})
			refs = append(refs, ref{g, k, len(cmds) + 1})
			cmds = append(cmds, cserve.Clone(g.slot, slotTemp), first, cserve.Hash(slotTemp), spec)
		}
	}
	e.cmdBuf = cmds
	if !e.do(cmds, func(i int) (*hist, *child) {
		for _, r := range refs { // linear scan: only on a crash
			if i >= r.idx-1 && i <= r.idx+2 {
				if i == r.idx+2 && len(r.k.cmds) == 0 {
					r.k.cmds = append(r.k.cmds, cmds[r.idx]) // the crashing speculative call follows the first call
				}
				return r.g.h, r.k
			}
		}
		return nil, nil
	}) {
		return false
	}
	if onPre != nil {
		for _, sp := range spans {
			onPre(sp.g, e.resBuf[sp.lo:sp.hi])
		}
	}
	type slowRef struct {
		g *group
		i int
	}
	slow := map[*group][]int{}
	var slowOrder []*group
	for _, r := range refs {
		cmd := cmds[r.idx]
		e.evaluate(r.g.h, r.k, &cmd, &e.resBuf[r.idx])
		r.k.raw = e.resBuf[r.idx+1].Hash
		r.k.key = keyOf(&e.resBuf[r.idx+1], r.k)
		if r.k.pending == nil {
			continue
		}
		if r.k.checkDis {
			cmd2 := cmds[r.idx+2]
			e.evaluate(r.g.h, r.k, &cmd2, &e.resBuf[r.idx+2])
			continue
		}
		for i, k := range r.g.kids {
			if k == r.k {
				if len(slow[r.g]) == 0 {
					slowOrder = append(slowOrder, r.g)
				}
				slow[r.g] = append(slow[r.g], i)
			}
		}
	}
	if len(slowOrder) > 0 {
		var sgs []*group
		base := uint32(slotKids)
		for gi, g := range slowOrder {
			// The parent's slot may have been reused by a later group of the same batch (sibling parents share
			// their stack slot), so the parent is rebuilt from its recorded history in a slot of its own.
			ps := uint32(slotRedo + gi)
			nc := e.newCmd()
			nc.Slot = ps
			pre := []cserve.Cmd{nc}
			for _, c := range g.h.all() {
				c.Slot = ps
				pre = append(pre, c)
			}
			sg := &group{h: g.h, slot: ps, phase: g.phase, base: base, tag: g.tag, pre: pre}
			for _, i := range slow[g] {
				sg.ins = append(sg.ins, g.ins[i])
			}
			base += uint32(len(sg.ins))
			sgs = append(sgs, sg)
		}
		// expandGroups counts these children as paths itself
		if !e.expandGroups(sgs, nil) {
			return false
		}
		for gi, g := range slowOrder {
			for j, i := range slow[g] {
				g.kids[i] = sgs[gi].kids[j]
				g.kids[i].redone = true
			}
			e.freeLater(sgs[gi].base, len(sgs[gi].kids))
			e.freeLater(sgs[gi].slot, 1)
		}
	}
	for _, g := range gs {
		for _, k := range g.kids {
			if k.redone {
				continue
			}
			k.settled = true
			e.st.paths++
			e.st.classes[clsNames[k.class]]++
		}
	}
	return true
}
