// C09 — results depend only on the input, not on memory garbage, init flags or CPU paths.
//
// For every input (valid seeds of every std package + every 1-byte deviation of the short
// ones) the same call script is executed on the real generated C under a product of
// configurations: initialize options x prior contents of the object memory (constant fills,
// the object bytes left by complete / suspended / failed decodes of other seeds, re-initialised
// with the default or the leave-uninitialized option) x prefill of destination / pixel / work memory x {CPU-specific code,
// -DWUFFS_CONFIG__AVOID_CPU_ARCH}; plus continuing in a memcpy clone. Oracle: per call status,
// consumed count, written count, written bytes (up to wi), returned values, decoded configs,
// pixels — identical. See DESIGN.md section 4 "C09".
package main

import (
	"encoding/binary"
	"encoding/json"
	"fmt"
	"os"
	"sort"
	"strings"
	"sync"
	"sync/atomic"
	"time"

	"verif/checks/c09/wd"
	"verif/internal/cserve"
	"verif/internal/ev"
)

// ---- tier parameters

type params struct {
	thorough     bool
	maxSeedFile  int // largest test/data file used as a seed
	seedsPerPkg  int // seeds per package (shortest first)
	shortLen     int // seeds up to this length get every 1-byte deviation
	devSeeds     int // at most this many seeds per package get deviations
	devPrefix    int // packages without a short seed: deviations of the first devPrefix bytes of their shortest seed
	bigObjDevMax int // cap on deviation positions per seed for packages whose object is > 1 MiB
	garbageSeeds int // how many other seeds supply "bytes left by a previous decode"
	hashPrefix   int // hashers: every prefix length 0..hashPrefix of the payload
	maxOut       int
	maxPix       uint64
	maxWork      uint64
}

func tierParams(thorough bool) params {
	if thorough {
		return params{thorough: true, maxSeedFile: 120000, seedsPerPkg: 24, shortLen: 2000, devSeeds: 6, devPrefix: 2000, bigObjDevMax: 800,
			garbageSeeds: 4, hashPrefix: 2000, maxOut: 4 << 20, maxPix: 2 << 20, maxWork: 64 << 20}
	}
	return params{maxSeedFile: 4100, seedsPerPkg: 6, shortLen: 330, devSeeds: 2, devPrefix: 200, bigObjDevMax: 64,
		garbageSeeds: 2, hashPrefix: 400, maxOut: 1 << 20, maxPix: 256 << 10, maxWork: 16 << 20}
}

// ---- configurations

const (
	modeFresh  = 0 // New: prefill constant, initialize
	modeReinit = 2 // object memory = the bytes a previous decode left behind, initialize again
)

type config struct {
	Label    string  `json:"label"`
	Dim      string  `json:"dimension"` // coarse class for signatures
	Opts     uint32  `json:"init_opts"`
	Prefill  uint16  `json:"prefill"`
	Mode     int     `json:"mode"`
	G        int     `json:"garbage_index"`
	Fill     wd.Fill `json:"fill"`
	CloneMid bool    `json:"clone_mid"`
}

type garbageSpec struct {
	Name       string
	Kind       string // complete | suspended | errored
	Input      []byte
	NeverClose bool
}

const (
	optDefault = cserve.InitDefault
	optZeroed  = cserve.InitAlreadyZeroed
	optLeave   = cserve.InitLeaveInternalBuffersUninitialized
)

func optName(o uint32) string {
	switch o {
	case optDefault:
		return "default"
	case optZeroed:
		return "already-zeroed"
	case optLeave:
		return "leave-uninitialized"
	case optLeave | optZeroed:
		return "leave-uninitialized+already-zeroed"
	}
	return fmt.Sprintf("opts%d", o)
}

// makeConfigs builds the configuration list. configs[0] is the baseline. full: the whole
// product init x fill; otherwise every non-baseline value of each dimension against the
// baseline values of the others (pairwise).
func makeConfigs(gs []garbageSpec, full bool, withClone bool) []config {
	type ini struct {
		label, dim string
		opts       uint32
		prefill    uint16
		mode, g    int
	}
	inits := []ini{
		{"fresh/default/prefill=00", "baseline", optDefault, 0x00, modeFresh, 0},
		{"fresh/default/prefill=A5", "init-default-over-garbage", optDefault, 0xA5, modeFresh, 0},
		{"fresh/already-zeroed/prefill=00", "init-already-zeroed", optZeroed, 0x00, modeFresh, 0},
		{"fresh/leave-uninitialized/prefill=00", "init-leave-uninitialized", optLeave, 0x00, modeFresh, 0},
		{"fresh/leave-uninitialized/prefill=A5", "init-leave-uninitialized", optLeave, 0xA5, modeFresh, 0},
		{"fresh/leave-uninitialized/prefill=FF", "init-leave-uninitialized", optLeave, 0xFF, modeFresh, 0},
		{"fresh/leave-uninitialized+already-zeroed/prefill=00", "init-leave-uninitialized", optLeave | optZeroed, 0x00, modeFresh, 0},
	}
	for i, g := range gs {
		inits = append(inits,
			ini{"reinit-after-" + g.Kind + "-decode/default", "reinit", optDefault, cserve.PrefillLeave, modeReinit, i},
			ini{"reinit-after-" + g.Kind + "-decode/leave-uninitialized", "reinit-leave-uninitialized", optLeave, cserve.PrefillLeave, modeReinit, i})
	}
	var out []config
	for ii, in := range inits {
		for _, f := range []wd.Fill{{Dst: 0x00, Work: 0x00}, {Dst: 0xEE, Work: 0xEE}} {
			if !full && ii != 0 && f.Dst != 0 {
				continue
			}
			c := config{Label: in.label, Dim: in.dim, Opts: in.opts, Prefill: in.prefill, Mode: in.mode, G: in.g, Fill: f}
			if in.mode != modeFresh {
				c.Label += " [" + gs[in.g].Name + "]"
			}
			if f.Dst != 0 {
				c.Label += " dst/work-fill=EE"
				if ii == 0 {
					c.Dim = "dst-fill"
				}
			}
			out = append(out, c)
		}
	}
	b := out[0]
	out = append(out,
		config{Label: b.Label + " dst-fill=EE work-fill=00", Dim: "dst-fill", Fill: wd.Fill{Dst: 0xEE}},
		config{Label: b.Label + " dst-fill=00 work-fill=EE", Dim: "work-fill", Fill: wd.Fill{Work: 0xEE}})
	if withClone {
		out = append(out,
			config{Label: b.Label + " continue-in-clone", Dim: "clone", CloneMid: true},
			config{Label: b.Label + " continue-in-clone dst/work-fill=EE", Dim: "clone", CloneMid: true, Fill: wd.Fill{Dst: 0xEE, Work: 0xEE}})
	}
	return out
}

// ---- plan

type input struct {
	Seed    int    // index into plan.seeds
	Pos     int    // -1: the seed itself
	Val     byte   // deviation value
	Shape   int    // index into plan.shapes
	Full    bool   // full product
	Light   bool   // light list: baseline + the prefill dimensions (and the other build)
	Family  bool   // member of an enumerated family
	Encoder bool   // encoder-produced (JPEG exception)
	data    []byte // materialised lazily
}

type pkgPlan struct {
	name    string
	kind    int
	sizeof  uint64
	seeds   []wd.Seed
	garbage []garbageSpec
	shapes  []wd.Shape
	inputs  []input
	cfgFull []config
	cfgLite []config
	nFamily map[string]int
	cfgPair []config
}

const (
	slotWork  = 1
	slotClone = 2
	slotG0    = 100
)

func isSourceCall(c *cserve.Cmd) bool {
	if c.Op != cserve.OpCall {
		return false
	}
	switch c.Method {
	case cserve.MTransformIO, cserve.MDecodeTokens, cserve.MDecodeImageConfig, cserve.MDecodeFrameConfig, cserve.MDecodeFrame,
		cserve.MUpdate, cserve.MUpdateVal:
		return true
	}
	return false
}

// setupCmds: the commands that create the object of a configuration in slotWork.
func setupCmds(pkg string, c *config) []cserve.Cmd {
	o := cserve.NewOpts{InitOpts: c.Opts, Prefill: c.Prefill}
	if c.Mode == modeFresh {
		return []cserve.Cmd{cserve.New(slotWork, pkg, o)}
	}
	// Re-initialisation of a used object: the object bytes of the garbage slot (left by a complete /
	// suspended / failed decode) are put into a new slot without calling initialize, then initialize
	// runs over them. (Wuffs objects hold no pointers to themselves, so this is the same as calling
	// initialize again on the used object; the slot's bookkeeping — source, destination position,
	// buffers — starts afresh, as for a caller that reuses the decoder for a new stream.)
	return []cserve.Cmd{
		cserve.New(slotWork, pkg, cserve.NewOpts{NoInit: true, Prefill: cserve.PrefillCopySlot, CopySlot: uint32(slotG0 + c.G)}),
		cserve.Init(slotWork, cserve.NewOpts{InitOpts: c.Opts, Prefill: cserve.PrefillLeave}),
	}
}

// cfgCmds = setup + script (with the clone switch), and the positions of the script results.
func cfgCmds(pkg string, c *config, script []cserve.Cmd) (cmds []cserve.Cmd, obs []int) {
	cmds = setupCmds(pkg, c)
	bound := wd.Rebind(script, slotWork, c.Fill)
	cloned := false
	for i := range bound {
		if cloned {
			bound[i].Slot = slotClone
		}
		obs = append(obs, len(cmds))
		cmds = append(cmds, bound[i])
		if c.CloneMid && !cloned && isSourceCall(&bound[i]) {
			cmds = append(cmds, cserve.Clone(slotWork, slotClone))
			cloned = true
		}
	}
	return cmds, obs
}

// ---- worker

type worker struct {
	id      int
	b       *cserve.Built
	srv     map[string]*cserve.Server
	pkg     string
	gcmds   map[string][][]cserve.Cmd // variant -> garbage index -> commands that built it
	gok     map[string]bool
	evals   int64
	inputs  int64
	hStatus map[string]int64
	hDim    map[string]int64
	hEnd    map[string]int64
	hScrib  map[string]int64
	secs    map[string]float64
}

var variants = []string{cserve.Plain, cserve.NoArch}

type runCtx struct {
	r                          *ev.Run
	p                          params
	distinct                   sync.Map // outcome key -> struct{}
	nDist                      atomic.Int64
	reported                   sync.Map // pkg|dim -> struct{}
	jpegSkip                   atomic.Int64
	oracleChecked, oracleNotes atomic.Int64
	notes                      sync.Map
	crossCmp                   atomic.Int64
}

func (w *worker) exec(variant string, rec *[]cserve.Cmd) wd.Exec {
	return func(c cserve.Cmd) (cserve.Result, error) {
		if rec != nil {
			*rec = append(*rec, c)
		}
		res, err := w.srv[variant].Do(c)
		if err != nil {
			return cserve.Result{}, err
		}
		return res[0], nil
	}
}

// buildGarbage (re)creates the garbage slots of the current package in one server.
func (w *worker) buildGarbage(ctx *runCtx, p *pkgPlan, variant string) error {
	srv := w.srv[variant]
	if _, err := srv.Do(cserve.FreeAll()); err != nil {
		return err
	}
	w.gcmds[variant] = make([][]cserve.Cmd, len(p.garbage))
	for i, g := range p.garbage {
		var rec []cserve.Cmd
		ex := w.exec(variant, &rec)
		slot := uint32(slotG0 + i)
		if _, err := ex(cserve.New(slot, p.name, cserve.NewOpts{})); err != nil {
			return err
		}
		sh := p.shapes[0]
		sh.NeverClose = g.NeverClose
		if _, err := wd.Drive(ex, slot, p.kind, g.Input, sh, wd.Fill{Dst: 0x5D, Work: 0x5D}); err != nil {
			return err
		}
		w.gcmds[variant][i] = rec
	}
	w.gok[variant] = true
	return nil
}

func (w *worker) restart(variant string) {
	w.gok[variant] = false
	if err := w.srv[variant].Restart(); err != nil {
		ev.Fatal("cannot restart %s server: %v", variant, err)
	}
}

type witness struct {
	Pkg      string      `json:"pkg"`
	Input    string      `json:"input"`
	InputHex string      `json:"input_hex"`
	Shape    string      `json:"shape"`
	Diff     string      `json:"first_difference"`
	A        witnessSide `json:"a"`
	B        witnessSide `json:"b"`
	Crash    string      `json:"crash,omitempty"`
	Note     string      `json:"note,omitempty"`
	Modules  []string    `json:"modules"`
}

type witnessSide struct {
	Variant string       `json:"variant"`
	Config  string       `json:"config"`
	Fill    uint8        `json:"dst_fill"`
	Cmds    []cserve.Cmd `json:"cmds"`
	Obs     []int        `json:"observed_cmd_indexes"`
}

func hexs(b []byte) string { return fmt.Sprintf("%x", b) }

func diffField(d string) string {
	// d looks like `step 3: "transform_io status=ok consumed=.. written=.. v=.. contract=.. data=.." vs "..."`:
	// name the method and the first field that differs (status strings contain spaces: cut at the keys).
	i := strings.Index(d, ": \"")
	if i < 0 {
		if strings.Contains(d, "pixel") {
			return "pixels"
		}
		return "steps"
	}
	parts := strings.SplitN(d[i+3:], "\" vs \"", 2)
	if len(parts) != 2 {
		return "steps"
	}
	x, y := parts[0], strings.TrimSuffix(parts[1], "\"")
	method := strings.SplitN(x, " ", 2)[0]
	if method != strings.SplitN(y, " ", 2)[0] {
		return "method"
	}
	keys := []string{" status=", " consumed=", " written=", " v=", " contract=", " data=", " total="}
	seg := func(s, k string) string {
		i := strings.Index(s, k)
		if i < 0 {
			return ""
		}
		rest := s[i+len(k):]
		end := len(rest)
		for _, k2 := range keys {
			if j := strings.Index(rest, k2); j >= 0 && j < end {
				end = j
			}
		}
		return rest[:end]
	}
	for _, k := range keys {
		if seg(x, k) != seg(y, k) {
			return method + ":" + strings.Trim(k, " =")
		}
	}
	return method
}

func (w *worker) side(variant string, p *pkgPlan, c *config, script []cserve.Cmd) witnessSide {
	cmds, obs := cfgCmds(p.name, c, script)
	var pre []cserve.Cmd
	if c.Mode != modeFresh && w.gcmds[variant] != nil {
		pre = w.gcmds[variant][c.G]
	}
	for i := range obs {
		obs[i] += len(pre)
	}
	return witnessSide{Variant: variant, Config: c.Label, Fill: c.Fill.Dst, Cmds: append(append([]cserve.Cmd(nil), pre...), cmds...), Obs: obs}
}

func inputName(p *pkgPlan, in *input) string {
	s := p.seeds[in.Seed].Name
	if in.Pos >= 0 {
		s += fmt.Sprintf(" with byte %d set to %#02x", in.Pos, in.Val)
	}
	return s
}

func inputClass(in *input) string {
	if in.Pos >= 0 {
		return "1-byte-deviation"
	}
	if in.Family {
		return "enumerated-family"
	}
	return "seed"
}

// job is one input on its way through the configurations.
type job struct {
	in     *input
	data   []byte
	shape  wd.Shape
	cfgs   []config
	tr     *wd.Trace // baseline run on the plain build
	script []cserve.Cmd
	start  map[string][]int   // per build, per config: index of its first command in the shared batch (-1: not in the batch)
	obs    map[string][][]int // per build, per config: indexes (relative to start) of the script results
}

func (p *pkgPlan) inputData(in *input) []byte {
	data := p.seeds[in.Seed].Data
	if in.Pos >= 0 {
		data = append([]byte(nil), data...)
		data[in.Pos] = in.Val
	}
	return data
}

// process runs one input under all configurations.
func (w *worker) process(ctx *runCtx, p *pkgPlan, in *input) { w.processJobs(ctx, p, []*input{in}) }

// processJobs runs a group of inputs. Members of the enumerated families (valid files of a known
// call shape) use a fixed script (wd.StaticScript) and share their round trips; everything else
// gets its script from a reactive baseline run, one input at a time.
func (w *worker) processJobs(ctx *runCtx, p *pkgPlan, ins []*input) {
	for _, v := range variants {
		if !w.gok[v] {
			if err := w.buildGarbage(ctx, p, v); err != nil {
				ctx.r.Violation("crash|"+p.name+"|garbage-preparation|"+v, "server died while decoding a seed: "+err.Error(), map[string]any{"pkg": p.name, "error": err.Error()})
				w.restart(v)
				return
			}
		}
	}
	var jobs []*job
	for _, in := range ins {
		j := &job{in: in, data: p.inputData(in), shape: p.shapes[in.Shape], cfgs: p.cfgPair, start: map[string][]int{}, obs: map[string][][]int{}}
		if in.Full {
			j.cfgs = p.cfgFull
		} else if in.Light {
			j.cfgs = p.cfgLite
		}
		jobs = append(jobs, j)
	}
	retryAlone := func() {
		for _, in := range ins {
			w.processJobs(ctx, p, []*input{in})
		}
	}
	// 1. baseline on the CPU-specific build: this fixes the script.
	if len(jobs) == 1 && !(jobs[0].in.Family && jobs[0].in.Light) {
		j := jobs[0]
		base := &j.cfgs[0]
		if _, err := w.srv[cserve.Plain].Do(setupCmds(p.name, base)...); err != nil {
			w.crash(ctx, p, j.in, j.data, cserve.Plain, base, nil, err)
			return
		}
		tr, err := wd.Drive(w.exec(cserve.Plain, nil), slotWork, p.kind, j.data, j.shape, base.Fill)
		if err != nil {
			w.crash(ctx, p, j.in, j.data, cserve.Plain, base, tr.Cmds, err)
			return
		}
		j.tr, j.script = tr, tr.Cmds
	} else {
		var cmds []cserve.Cmd
		var at []int
		for _, j := range jobs {
			j.script = wd.StaticScript(slotWork, p.kind, j.data, j.shape, j.cfgs[0].Fill)
			at = append(at, len(cmds))
			cmds = append(cmds, setupCmds(p.name, &j.cfgs[0])...)
			cmds = append(cmds, j.script...)
		}
		res := make([]cserve.Result, len(cmds))
		if err := w.srv[cserve.Plain].DoInto(cmds, res); err != nil {
			if len(jobs) > 1 {
				w.restart(cserve.Plain)
				retryAlone()
				return
			}
			w.crash(ctx, p, jobs[0].in, jobs[0].data, cserve.Plain, &jobs[0].cfgs[0], jobs[0].script, err)
			return
		}
		for k, j := range jobs {
			n0 := at[k] + len(setupCmds(p.name, &j.cfgs[0]))
			j.tr = &wd.Trace{Cmds: j.script, Res: res[n0 : n0+len(j.script)], End: "static-script"}
		}
	}
	// 2. every configuration in both builds, pipelined (one batch per build for the whole group).
	type batch struct {
		cmds []cserve.Cmd
		res  []cserve.Result
		err  error
	}
	bs := map[string]*batch{}
	var wg sync.WaitGroup
	for _, v := range variants {
		b := &batch{}
		for _, j := range jobs {
			for ci := range j.cfgs {
				if v == cserve.Plain && ci == 0 {
					j.start[v] = append(j.start[v], -1)
					j.obs[v] = append(j.obs[v], nil)
					continue
				}
				cmds, obs := cfgCmds(p.name, &j.cfgs[ci], j.script)
				j.start[v] = append(j.start[v], len(b.cmds))
				j.obs[v] = append(j.obs[v], obs)
				b.cmds = append(b.cmds, cmds...)
			}
		}
		b.res = make([]cserve.Result, len(b.cmds))
		bs[v] = b
		wg.Add(1)
		go func(v string, b *batch) {
			defer wg.Done()
			b.err = w.srv[v].DoInto(b.cmds, b.res)
		}(v, b)
	}
	wg.Wait()
	if len(jobs) > 1 {
		bad := false
		for _, v := range variants {
			if bs[v].err != nil {
				w.restart(v)
				bad = true
			}
		}
		if bad { // find the culprit by running the members one by one
			retryAlone()
			return
		}
	}
	for _, j := range jobs {
		w.judge(ctx, p, j, func(v string) (cmds []cserve.Cmd, res []cserve.Result, err error) {
			return bs[v].cmds, bs[v].res, bs[v].err
		})
	}
}

// judge evaluates one job: statistics, the PNG oracle note, and all comparisons.
func (w *worker) judge(ctx *runCtx, p *pkgPlan, j *job, batchOf func(v string) ([]cserve.Cmd, []cserve.Result, error)) {
	in, data, shape, cfgs, tr, script := j.in, j.data, j.shape, j.cfgs, j.tr, j.script
	baseSteps := map[string][]wd.Step{cserve.Plain: wd.ObserveAll(tr.Cmds, tr.Res)}
	fillSteps := map[string][]wd.Step{} // per build: observation of the baseline initialisation with prefill EE
	st, _, _ := wd.Final(tr.Cmds, tr.Res)
	w.hStatus[p.name+": "+st]++
	w.hEnd[tr.End]++
	for i := range tr.Res {
		if tr.Res[i].Contract&cserve.IDstScribbled != 0 {
			w.hScrib[p.name]++
			break
		}
	}
	w.inputs++
	// Free C07-style oracle for the generated PNGs: the decoded pixels must be the encoder's intended
	// ones. A mismatch is information (signature prefix oracle-note|), not a C09 violation.
	if im := p.seeds[in.Seed].Png; im != nil && in.Pos < 0 && shape.PixFmt == 0 {
		if want, ok := wd.PngExpectBGRA(im); ok {
			ctx.oracleChecked.Add(1)
			var got []byte
			for i := len(tr.Res) - 1; i >= 0; i-- {
				if tr.Cmds[i].Op == cserve.OpGet && tr.Cmds[i].What == cserve.GetPixels {
					got = tr.Res[i].Data
					break
				}
			}
			note := ""
			switch {
			case st != "@base: end of data" && st != "ok":
				note = "valid file not decoded: final status " + st
			case len(got) != len(want):
				note = fmt.Sprintf("pixel buffer has %d bytes, intended image %d", len(got), len(want))
			default:
				for k := range want {
					if got[k] != want[k] {
						note = fmt.Sprintf("pixel %d (x=%d y=%d) channel %d (BGRA): decoded %#02x, intended %#02x", k/4, (k/4)%im.W, (k/4)/im.W, k%4, got[k], want[k])
						break
					}
				}
			}
			if note != "" {
				sig := fmt.Sprintf("oracle-note|png|decoded pixels differ from the intended ones|colortype=%d depth=%d interlaced=%v", im.ColorType, im.Depth, im.Interlaced)
				ctx.oracleNotes.Add(1)
				if _, dup := ctx.notes.LoadOrStore(sig, note+" ["+p.seeds[in.Seed].Name+"]"); !dup {
					fmt.Printf("ORACLE-NOTE (information, not a C09 violation) property=C09\n  signature: %s\n  what: %s, build plain: %s\n", sig, p.seeds[in.Seed].Name, note)
				}
			}
		}
	}
	if (in.Pos < 0 && in.Seed == 1 && in.Shape == 0) || (in.Pos == 5 && in.Val == 0) {
		var ss []string
		for _, s := range baseSteps[cserve.Plain] {
			ss = append(ss, s.S)
			if len(ss) >= 8 {
				break
			}
		}
		ctx.r.Sample(map[string]any{"package": p.name, "input": inputName(p, in), "input_bytes": len(data), "shape": shape.Name,
			"configurations_per_build": len(cfgs), "baseline_observation_first_steps": ss, "script_end": tr.End})
	}
	// distinct outcomes: (package, every step of the baseline observation)
	{
		h := uint64(1469598103934665603)
		for _, s := range baseSteps[cserve.Plain] {
			for i := 0; i < len(s.S); i++ {
				h = (h ^ uint64(s.S[i])) * 1099511628211
			}
			for _, b := range s.Pix {
				h = (h ^ uint64(b)) * 1099511628211
			}
		}
		key := fmt.Sprintf("%s/%x", p.name, h)
		if _, dup := ctx.distinct.LoadOrStore(key, struct{}{}); !dup {
			ctx.nDist.Add(1)
		}
	}

	for _, v := range variants {
		bcmds, bres, berr := batchOf(v)
		start, obsv := j.start[v], j.obs[v]
		ncfg := len(cfgs)
		if berr != nil {
			ce, _ := berr.(*cserve.CrashError)
			ci := -1
			if ce != nil && ce.CmdIndex >= 0 {
				for k := range start {
					if start[k] >= 0 && start[k] <= ce.CmdIndex {
						ci = k
					}
				}
			}
			var c *config
			if ci >= 0 {
				c = &cfgs[ci]
				ncfg = ci // configurations before the crash were answered completely
			} else {
				ncfg = 0
			}
			w.crash(ctx, p, in, data, v, c, script, berr)
		}
		for ci := 0; ci < ncfg; ci++ {
			if obsv[ci] == nil {
				continue
			}
			c := &cfgs[ci]
			// setup results must be fine
			setupBad := ""
			for k := start[ci]; k < start[ci]+obsv[ci][0]; k++ {
				r := &bres[k]
				if r.Err != "" {
					setupBad = "refused: " + r.Err
				} else if (bcmds[k].Op == cserve.OpNew || bcmds[k].Op == cserve.OpInit) && !bcmds[k].NoInit && !r.OK {
					setupBad = "initialize returned " + r.Status
				}
			}
			steps := make([]wd.Step, len(obsv[ci]))
			for k, o := range obsv[ci] {
				steps[k] = wd.Observe(&bcmds[start[ci]+o], &bres[start[ci]+o])
			}
			if ci == 0 {
				baseSteps[v] = steps
			}
			if ci == 1 {
				fillSteps[v] = steps
			}
			w.evals++
			w.hDim[c.Dim]++
			// Reference: the baseline initialisation with the same prefill (cfgs[0]: prefill 00,
			// cfgs[1]: prefill EE; cfgs[1] itself and the mixed prefills are compared with cfgs[0]), so
			// that each dimension is reported under its own name. Equality being transitive, the
			// whole product is still covered.
			ri := 0
			if ci > 1 && len(cfgs) > 1 && c.Fill == cfgs[1].Fill && fillSteps[v] != nil {
				ri = 1
			}
			ref := baseSteps[v]
			if ri == 1 {
				ref = fillSteps[v]
			}
			d := setupBad
			if d == "" {
				d = wd.Compare(ref, steps, cfgs[ri].Fill.Dst, c.Fill.Dst)
			}
			if d != "" {
				w.report(ctx, p, in, data, shape, script, v, &cfgs[ri], v, c, c.Dim, d)
			}
		}
	}
	// 3. the two builds against each other (baseline configuration).
	if a, b := baseSteps[cserve.Plain], baseSteps[cserve.NoArch]; a != nil && b != nil {
		if p.name == "jpeg" && !in.Encoder {
			// documented exception: the two IDCT variants need only agree on encoder-produced files
			ctx.jpegSkip.Add(1)
		} else {
			ctx.crossCmp.Add(1)
			w.evals++
			w.hDim["cpu-arch"]++
			if d := wd.Compare(a, b, 0, 0); d != "" {
				w.report(ctx, p, in, data, shape, script, cserve.Plain, &cfgs[0], cserve.NoArch, &cfgs[0], "cpu-arch", d)
			}
		}
	}
}

func (w *worker) report(ctx *runCtx, p *pkgPlan, in *input, data []byte, shape wd.Shape, script []cserve.Cmd,
	va string, ca *config, vb string, cb *config, dim, d string) {
	class := inputClass(in)
	if in.Family && shape.PixFmt != 0 {
		class += " " + strings.TrimPrefix(shape.Name, "one-shot/") // e.g. "enumerated-family dst=RGBA_NONPREMUL"
	}
	key := p.name + "|" + dim // one report per package and dimension ...
	if in.Family && shape.PixFmt != 0 {
		key += "|" + shape.Name // ... and destination pixel format, for the swizzle families
	}
	if _, dup := ctx.reported.LoadOrStore(key, struct{}{}); dup {
		return
	}
	sig := fmt.Sprintf("differs|%s|%s|%s|%s", p.name, dim, diffField(d), class)
	wit := witness{Pkg: p.name, Input: inputName(p, in), InputHex: hexs(data), Shape: shape.Name, Diff: d,
		A: w.side(va, p, ca, script), B: w.side(vb, p, cb, script), Modules: []string{p.name}}
	what := fmt.Sprintf("%s: input %q (%d bytes): configuration [%s, build %s] and configuration [%s, build %s] disagree: %s",
		p.name, wit.Input, len(data), ca.Label, va, cb.Label, vb, d)
	ctx.r.Violation(sig, what, wit)
}

func (w *worker) crash(ctx *runCtx, p *pkgPlan, in *input, data []byte, variant string, c *config, script []cserve.Cmd, err error) {
	label, dim := "?", "?"
	var side witnessSide
	if c != nil {
		label, dim = c.Label, c.Dim
		side = w.side(variant, p, c, script)
	}
	sum := err.Error()
	frames := ""
	if ce, ok := err.(*cserve.CrashError); ok {
		sum = ce.Summary()
		frames = strings.Join(ce.Frames(2), "<")
	}
	key := p.name + "|crash|" + dim
	if _, dup := ctx.reported.LoadOrStore(key, struct{}{}); !dup {
		sig := fmt.Sprintf("crash|%s|%s|%s|%s", p.name, dim, frames, inputClass(in))
		ctx.r.Violation(sig, fmt.Sprintf("%s: server (%s build) died on input %q under configuration [%s]: %s", p.name, variant, inputName(p, in), label, sum),
			witness{Pkg: p.name, Input: inputName(p, in), InputHex: hexs(data), Crash: sum, A: side, B: side, Modules: []string{p.name}})
	}
	w.restart(variant)
}

// ---- planning

func shapesFor(kind int, pr params) []wd.Shape {
	base := wd.Shape{Name: "one-shot", DstCap: 4096, MaxCalls: 4000, MaxOut: pr.maxOut, MaxFrames: 4, MaxPix: pr.maxPix, MaxWork: pr.maxWork}
	if kind == cserve.KindTokenDecoder {
		base.DstCap = 256
	}
	two := base
	two.Name = "two-pieces"
	two.CutNum, two.CutDen = 1, 2
	switch kind {
	case cserve.KindHasherU32, cserve.KindHasherU64, cserve.KindHasherBitvec256:
		two.Name = "two-updates-misaligned"
		two.CutNum, two.CutDen = 1, 3
		two.Pad = 1
	}
	out := []wd.Shape{base, two}
	switch kind {
	case cserve.KindImageDecoder:
		// shapes 2.. : one per destination pixel format (the swizzle families)
		fmts := wd.DstFormats
		if !pr.thorough {
			fmts = fmts[:6]
		}
		for _, f := range fmts {
			sh := base
			sh.Name = "one-shot/dst=" + f.Name
			sh.PixFmt = f.Fmt
			out = append(out, sh)
		}
	case cserve.KindHasherU32, cserve.KindHasherU64, cserve.KindHasherBitvec256:
		// shapes 2..16: the slice starts 1..15 bytes after a 16-byte boundary
		for pad := 1; pad <= 15; pad++ {
			sh := base
			sh.Name = fmt.Sprintf("one-update/misaligned-by-%d", pad)
			sh.Pad = uint64(pad)
			out = append(out, sh)
		}
	}
	return out
}

// addFamilies appends the enumerated families: every member gets the light configuration list
// (both builds, pixel/destination and work prefills), every 9th the pairwise list too.
func (p *pkgPlan) addFamilies(fam []wd.Seed, hasher bool) {
	p.nFamily = map[string]int{}
	if hasher {
		// alignment family: every length 0..160 at every misalignment 1..15 (0 is the ordinary seed input)
		for si := range p.seeds {
			if len(p.seeds[si].Data) > 160 {
				continue
			}
			for k := 2; k < len(p.shapes); k++ {
				p.inputs = append(p.inputs, input{Seed: si, Pos: -1, Shape: k, Light: true, Family: true, Encoder: true})
				p.nFamily["hasher-alignment"]++
			}
		}
		return
	}
	for i, s := range fam {
		si := len(p.seeds)
		p.seeds = append(p.seeds, s)
		shapes := []int{0}
		if p.kind == cserve.KindImageDecoder && s.Family != "pngmk" && s.Family != "png-width-filter" {
			shapes = shapes[:0]
			for k := 2; k < len(p.shapes); k++ {
				shapes = append(shapes, k)
			}
		} else if p.kind == cserve.KindImageDecoder {
			shapes = []int{2} // BGRA_NONPREMUL (the oracle's format)
		}
		for _, k := range shapes {
			p.inputs = append(p.inputs, input{Seed: si, Pos: -1, Shape: k, Light: true, Family: true, Encoder: s.EncoderProduced})
			p.nFamily[s.Family]++
		}
		if i%9 == 0 {
			p.inputs = append(p.inputs, input{Seed: si, Pos: -1, Shape: shapes[0], Family: true, Encoder: s.EncoderProduced})
			p.nFamily[s.Family+" (pairwise list)"]++
		}
	}
}

func mkPlan(name string, kind int, sizeof uint64, seeds []wd.Seed, pr params, errInputs map[int][]byte) *pkgPlan {
	p := &pkgPlan{name: name, kind: kind, sizeof: sizeof, seeds: seeds}
	p.shapes = shapesFor(kind, pr)
	hasher := kind == cserve.KindHasherU32 || kind == cserve.KindHasherU64 || kind == cserve.KindHasherBitvec256
	// garbage sources: the first garbageSeeds seeds (complete / suspended / errored)
	ng := 0
	for i := range seeds {
		if ng >= pr.garbageSeeds {
			break
		}
		s := &seeds[i]
		if len(s.Data) < 2 {
			continue
		}
		ng++
		p.garbage = append(p.garbage, garbageSpec{Name: s.Name, Kind: "complete", Input: s.Data})
		p.garbage = append(p.garbage, garbageSpec{Name: s.Name + " (first half, source left open)", Kind: "suspended", Input: s.Data[:len(s.Data)/2], NeverClose: true})
		if e := errInputs[i]; e != nil && !hasher {
			p.garbage = append(p.garbage, garbageSpec{Name: s.Name + " (corrupted)", Kind: "errored", Input: e})
		}
	}
	p.cfgFull = makeConfigs(p.garbage, true, true)
	p.cfgPair = makeConfigs(p.garbage, false, true)
	for _, c := range p.cfgPair {
		if !c.CloneMid && (c.Dim == "baseline" || c.Dim == "dst-fill" || c.Dim == "work-fill") {
			p.cfgLite = append(p.cfgLite, c)
		}
	}
	return p
}

// addSeedInputs: every seed one-shot under the full product, and cut in two under the pairwise list.
func (p *pkgPlan) addSeedInputs(pr params, long []bool) {
	for si := range p.seeds {
		s := &p.seeds[si]
		p.inputs = append(p.inputs, input{Seed: si, Pos: -1, Shape: 0, Full: !long[si], Encoder: s.EncoderProduced})
		if len(s.Data) >= 2 {
			// cut in the middle: the object is suspended (and, in the clone configurations, cloned) mid-stream
			p.inputs = append(p.inputs, input{Seed: si, Pos: -1, Shape: 1, Full: false, Encoder: s.EncoderProduced})
		}
	}
}

func main() {
	if len(os.Args) > 1 && os.Args[1] == "replay" {
		replay(os.Args[2])
		return
	}
	r := ev.Start("C09", "exploration")
	r.SetBudget(9*time.Minute, 42*time.Minute)
	pr := tierParams(r.Thorough())

	scratch, mine, err := cserve.Scratch()
	if err != nil {
		ev.Fatal("scratch: %v", err)
	}
	if mine {
		defer os.RemoveAll(scratch)
	}
	t0 := time.Now()
	b, err := wd.Build(scratch, variants, nil)
	if err != nil {
		ev.Fatal("build: %v", err)
	}
	buildS := time.Since(t0).Seconds()
	fmt.Printf("C09: build %.0fs (gen %.0fs, compile %v)\n", buildS, b.GenSeconds, b.CompileSeconds)

	// ---- which CPU-specific variants exist / get installed
	sites, predUses, err := wd.ScanChoose(b.ReleaseC)
	if err != nil {
		ev.Fatal("scan generated C: %v", err)
	}
	simdName := func(n string) bool {
		return strings.Contains(n, "_x86_") || strings.Contains(n, "_arm_") || strings.Contains(n, "bmi2") || strings.Contains(n, "__choosy_default")
	}
	syms := map[string]map[uint64]string{}
	for _, v := range variants {
		m, err := wd.FuncSyms(b.Bin[v], simdName)
		if err != nil {
			ev.Fatal("%v", err)
		}
		syms[v] = m
	}

	// ---- plans
	probe, err := b.Start(cserve.Plain)
	if err != nil {
		ev.Fatal("start: %v", err)
	}
	names := b.Names()
	var pkgs []string
	for _, n := range names {
		pkgs = append(pkgs, strings.SplitN(n, ".", 2)[0])
	}
	allSeeds := wd.Seeds(ev.Repo(), pkgs, pr.maxSeedFile)
	families := wd.Families(r.Tier)
	var plans []*pkgPlan
	seedStatus := map[string]string{}
	tPlan := time.Now()
	for _, n := range names {
		pk, _ := probe.PackageByName(n)
		dir := strings.SplitN(n, ".", 2)[0]
		hasher := pk.Kind == cserve.KindHasherU32 || pk.Kind == cserve.KindHasherU64 || pk.Kind == cserve.KindHasherBitvec256
		sh := shapesFor(pk.Kind, pr)[0]
		ex := func(c cserve.Cmd) (cserve.Result, error) {
			res, err := probe.Do(c)
			if err != nil {
				return cserve.Result{}, err
			}
			return res[0], nil
		}
		// status of a one-shot decode under the baseline configuration ("" if the server died:
		// the workers find and report that again)
		status := func(data []byte) (st, end string, written uint64) {
			if _, err := ex(cserve.New(slotWork, n, cserve.NewOpts{})); err != nil {
				probe.Restart()
				return "", "", 0
			}
			tr, err := wd.Drive(ex, slotWork, pk.Kind, data, sh, wd.Fill{})
			if err != nil {
				probe.Restart()
				return "", "", 0
			}
			st, _, written = wd.Final(tr.Cmds, tr.Res)
			return st, tr.End, written
		}
		var seeds []wd.Seed
		var long []bool
		if hasher {
			seeds = hasherSeeds(n, pr)
			long = make([]bool, len(seeds))
			r.HistAdd("seed_final_status", n+": (payloads)", int64(len(seeds)))
		} else {
			// probe every candidate, then pick: valid files first (shortest first), a few rejected ones, the longest valid ones
			var valid, invalid []wd.Seed
			for _, s := range allSeeds[dir] {
				st, end, _ := status(s.Data)
				seedStatus[n+": "+s.Name] = st + " [" + end + "]"
				if st == "ok" || st == "@base: end of data" {
					valid = append(valid, s)
				} else {
					invalid = append(invalid, s)
				}
			}
			seeds, long = pickSeeds(n, valid, invalid, pr)
			for _, s := range seeds {
				r.HistAdd("seed_final_status", n+": "+strings.SplitN(seedStatus[n+": "+s.Name], " [", 2)[0], 1)
			}
		}
		if len(seeds) == 0 {
			r.HistAdd("packages_without_seed", n, 1)
			continue
		}
		// per garbage seed, a deviation that makes the decoder fail (for the "errored" garbage)
		errIn := map[int][]byte{}
		if !hasher {
			ng := 0
			for si := range seeds {
				if ng >= pr.garbageSeeds {
					break
				}
				if len(seeds[si].Data) < 2 {
					continue
				}
				ng++
				d := seeds[si].Data
			search:
				for pos := len(d) / 3; pos < len(d); pos++ {
					for _, v := range wd.Deviations(d[pos]) {
						m := append([]byte(nil), d...)
						m[pos] = v
						if st, _, _ := status(m); strings.HasPrefix(st, "#") {
							errIn[si] = m
							break search
						}
					}
				}
			}
		}
		if only := os.Getenv("C09_ONLY"); only != "" && only != n { // development aid
			continue
		}
		p := mkPlan(n, pk.Kind, pk.Sizeof, seeds, pr, errIn)
		p.addSeedInputs(pr, long)
		for len(long) < len(seeds) {
			long = append(long, false)
		}
		nOwn := len(p.seeds)
		p.addFamilies(families[dir], hasher)
		for len(long) < len(p.seeds) {
			long = append(long, true) // family members get no deviations
		}
		_ = nOwn
		if !hasher {
			addDeviationInputs(p, pr, long)
		}
		// seeds (and families) first: the work items are cut at the first deviation input
		sort.SliceStable(p.inputs, func(i, j int) bool { return p.inputs[i].Pos < 0 && p.inputs[j].Pos >= 0 })
		plans = append(plans, p)
	}
	planS := time.Since(tPlan).Seconds()
	probe.Close()

	// ---- work items: (plan, range of inputs)
	type item struct {
		p      *pkgPlan
		lo, hi int
		phase  int
	}
	var items []item
	totalInputs := 0
	for _, p := range plans {
		totalInputs += len(p.inputs)
	}
	nw := ev.Workers()
	// Two phases: first the seeds of every package, then the deviations of every package, so that
	// a run that is cut short by its time budget has still seen every package. Within a phase every
	// package is cut into ~2*nw items so that all workers stay on the same package (the garbage
	// slots are per package) and finish it together.
	for phase := 0; phase < 2; phase++ {
		for _, p := range plans {
			nSeed := 0
			for nSeed < len(p.inputs) && p.inputs[nSeed].Pos < 0 {
				nSeed++
			}
			from, to := 0, nSeed
			if phase == 1 {
				from, to = nSeed, len(p.inputs)
			}
			per := (to - from + 2*nw - 1) / (2 * nw)
			if per < 1 {
				per = 1
			}
			for lo := from; lo < to; lo += per {
				hi := lo + per
				if hi > to {
					hi = to
				}
				items = append(items, item{p, lo, hi, phase})
			}
		}
	}
	fmt.Printf("C09: %d packages, %d inputs, %d work items, %d workers\n", len(plans), totalInputs, len(items), nw)

	ctx := &runCtx{r: r, p: pr}
	tExplore := time.Now()
	workers := make([]*worker, nw)
	var done atomic.Int64
	ev.ParFor(len(items), func(wi, i int) {
		w := workers[wi]
		if w == nil {
			w = &worker{id: wi, b: b, srv: map[string]*cserve.Server{}, gcmds: map[string][][]cserve.Cmd{}, gok: map[string]bool{},
				hStatus: map[string]int64{}, hDim: map[string]int64{}, hEnd: map[string]int64{}, hScrib: map[string]int64{}, secs: map[string]float64{}}
			for _, v := range variants {
				s, err := b.Start(v)
				if err != nil {
					ev.Fatal("start %s: %v", v, err)
				}
				w.srv[v] = s
			}
			workers[wi] = w
		}
		it := items[i]
		// The seed phase is small and always runs to completion (a slow C build on a busy machine
		// must not leave a run without any comparison); the time budget cuts the deviation phase.
		if it.phase == 1 && r.Expired() {
			return
		}
		if w.pkg != it.p.name {
			w.pkg = it.p.name
			for _, v := range variants {
				w.gok[v] = false
			}
		}
		tItem := time.Now()
		for k := it.lo; k < it.hi; {
			if it.phase == 1 && r.Expired() {
				break
			}
			// consecutive members of the enumerated families travel together (up to 24 per round trip)
			var group []*input
			for k < it.hi && len(group) < 24 && it.p.inputs[k].Family && it.p.inputs[k].Light {
				group = append(group, &it.p.inputs[k])
				k++
			}
			if len(group) > 0 {
				w.processJobs(ctx, it.p, group)
				continue
			}
			w.process(ctx, it.p, &it.p.inputs[k])
			k++
		}
		w.secs[it.p.name] += time.Since(tItem).Seconds()
		done.Add(int64(it.hi - it.lo))
	})
	exploreS := time.Since(tExplore).Seconds()
	fmt.Printf("C09: planning %.0fs, exploration %.0fs\n", planS, exploreS)
	pkgSeconds := map[string]float64{}
	var evals, inputs int64
	for _, w := range workers {
		if w == nil {
			continue
		}
		for _, s := range w.srv {
			s.Close()
		}
		evals += w.evals
		for k, v := range w.secs {
			pkgSeconds[k] += float64(int(v*10)) / 10
		}
		inputs += w.inputs
		r.MergeHist("final_status_by_package", w.hStatus)
		r.MergeHist("comparisons_by_dimension", w.hDim)
		r.MergeHist("script_end", w.hEnd)
		r.MergeHist("inputs_where_decoder_scribbled_beyond_wi (allowed, informational)", w.hScrib)
	}

	// ---- which variants were installed at run time: decode every seed once per build and look
	// for the addresses of CPU-specific functions inside the object.
	installed := map[string]map[string]int{}
	for _, v := range variants {
		installed[v] = observeInstalled(b, v, plans, syms[v], pr)
	}
	// vacuity guard for the LEAVE_INTERNAL_BUFFERS_UNINITIALIZED configurations: how many bytes of the
	// 0xA5 prefill survive initialize (the "second part" of the struct), per package
	leaveBytes := map[string]any{}
	if s, err := b.Start(cserve.Plain); err == nil {
		for _, p := range plans {
			res, err := s.Do(cserve.New(slotWork, p.name, cserve.NewOpts{InitOpts: optLeave, Prefill: 0xA5}), cserve.Get(slotWork, cserve.GetObject),
				cserve.New(slotWork, p.name, cserve.NewOpts{Prefill: 0xA5}), cserve.Get(slotWork, cserve.GetObject))
			if err != nil {
				break
			}
			cnt := func(d []byte) (n int) {
				for _, x := range d {
					if x == 0xA5 {
						n++
					}
				}
				return
			}
			leaveBytes[p.name] = map[string]int{"sizeof": len(res[1].Data), "0xA5_bytes_after_leave_uninitialized": cnt(res[1].Data), "0xA5_bytes_after_default": cnt(res[3].Data)}
		}
		s.Close()
	}
	simdSeen := 0
	for n := range installed[cserve.Plain] {
		if !strings.Contains(n, "__choosy_default") {
			simdSeen++
		}
	}
	noarchSimd := 0
	for n := range installed[cserve.NoArch] {
		if !strings.Contains(n, "__choosy_default") {
			noarchSimd++
		}
	}
	if len(sites) > 0 && simdSeen == 0 {
		// vacuity guard: both builds would have run the same portable code
		r.Violation("vacuous|cpu-arch|no CPU-specific function was installed in the CPU-specific build",
			"the generated C has choose sites but no CPU-specific function pointer was ever observed inside an object of the `plain` build: the SIMD-vs-portable comparison compared the portable code with itself",
			map[string]any{"host_cpu_flags": wd.HostCPUFlags(), "choose_sites": sites})
	}
	if noarchSimd > 0 {
		r.Violation("vacuous|cpu-arch|AVOID_CPU_ARCH build installed CPU-specific functions", "the noarch build contains/installs CPU-specific functions", installed[cserve.NoArch])
	}

	sitePkgs := map[string][]string{}
	for _, s := range sites {
		sitePkgs[s.Pkg] = append(sitePkgs[s.Pkg], s.Predicate+":"+s.Func)
	}
	for k := range sitePkgs {
		sort.Strings(sitePkgs[k])
	}
	pkgSummary := map[string]any{}
	for _, p := range plans {
		nd := 0
		for _, in := range p.inputs {
			if in.Pos >= 0 {
				nd++
			}
		}
		var sn []string
		for _, s := range p.seeds {
			if s.Family != "" {
				continue
			}
			sn = append(sn, fmt.Sprintf("%s (%d B, %s): %s", s.Name, len(s.Data), s.Origin, seedStatus[p.name+": "+s.Name]))
		}
		var gn []string
		for _, g := range p.garbage {
			gn = append(gn, g.Kind+": "+g.Name)
		}
		pkgSummary[p.name] = map[string]any{"sizeof": p.sizeof, "seeds": sn, "deviation_inputs": nd, "garbage_sources": gn, "enumerated_family_inputs": p.nFamily,
			"configs_full_product_per_build": len(p.cfgFull), "configs_pairwise_per_build": len(p.cfgPair)}
	}
	r.Sample(map[string]any{"example_configuration_labels": func() []string {
		var l []string
		if len(plans) > 0 {
			for _, c := range plans[len(plans)-1].cfgFull {
				l = append(l, c.Label)
			}
		}
		return l
	}()})
	r.Add("inputs", inputs)
	r.Add("png_files_checked_against_intended_pixels (oracle-note)", ctx.oracleChecked.Load())
	r.Add("oracle_notes", ctx.oracleNotes.Load())
	r.Add("jpeg_cross_build_comparisons_skipped_not_encoder_produced", ctx.jpegSkip.Load())
	r.Add("cross_build_comparisons", ctx.crossCmp.Load())

	r.Finish(ev.Coverage{
		Evaluations:        evals,
		DistinctNontrivial: ctx.nDist.Load(),
		Rule: "evaluations = (input, configuration, build) runs whose per-call observations (status, consumed, written, written bytes up to wi, " +
			"returned values, image/frame configs, pixels) were compared with the baseline configuration of the same build, plus one cross-build comparison per input; " +
			"distinct_nontrivial = number of distinct (package, complete baseline observation) outcomes over all inputs, i.e. behaviourally different inputs",
		Exhaustive: true,
		Explanation: "Inputs: per std package the shortest seeds (repository test/data files incl. artificial-*, Go reference encoders, a few hand-built files; hashers: every prefix length of a payload) and, " +
			"for the short seeds, every 1-byte deviation with replacement values {00, FF, ^b, b+1}; plus enumerated families that drive every CPU-specific loop and swizzler through all its tails " +
			"(pngmk: colour type x depth x width x height x per-row filter layout incl. first-row Sub/Average/Paeth and Adam7; PNG / netpbm / bmp / targa / wbmp / nie / qoi / gif of every width 1..40 decoded into 10 destination pixel formats; " +
			"JPEG of every width 1..72 colour 4:2:0 and gray; deflate of every payload length 1..300; hashers at every length 0..160 x misalignment 0..15), each under both builds and the pixel/destination/work prefills, every 9th under the pairwise list. Configurations per input and build: see example_configuration_labels; full product of " +
			"{initialize options x prior object memory} x {dst/pixel/work prefill 00, EE} on seeds and deviations of short seeds. The script of calls is fixed by the baseline run (one closed source, 4096-byte destination windows).",
		Extra: map[string]any{
			"build_seconds":                             buildS,
			"planning_seconds":                          planS,
			"exploration_seconds":                       exploreS,
			"cpu_seconds_by_package (sum over workers)": pkgSeconds,
			"host_cpu_flags":                            wd.HostCPUFlags(),
			"choose_sites_in_generated_c":               sitePkgs,
			"cpu_arch_predicate_uses_outside_choose (module:predicate -> count)": predUses,
			"cpu_specific_functions_compiled_into_build":                         map[string]int{cserve.Plain: countSimd(syms[cserve.Plain]), cserve.NoArch: countSimd(syms[cserve.NoArch])},
			"function_pointers_observed_inside_objects_after_decoding_seeds":     installed,
			"packages": pkgSummary,
			"oracle_notes_by_signature (png pixels vs pngmk intended pixels; information only)": func() map[string]string {
				m := map[string]string{}
				ctx.notes.Range(func(k, v any) bool { m[k.(string)] = v.(string); return true })
				return m
			}(),
			"object_bytes_left_uninitialized": leaveBytes,
		},
	}, []string{
		"The state server (csrc/wserver.c) presents exact-size buffers and reports per-call results faithfully; its memcpy Clone is an independent object (Wuffs objects hold no pointers into caller memory).",
		"`plain` (gcc -O2) exercises the CPU-specific code the host supports (see host_cpu_flags / function_pointers_observed...); ARM variants are never executed.",
		"JPEG: the plain-vs-noarch comparison is made only on encoder-produced inputs (Go image/jpeg output and the repository's test/data JPEGs, excluding artificial-jpeg/*); every other dimension is compared on all inputs.",
		"Pixels are compared byte for byte; between runs with different pixel prefills a byte may differ only where each run still holds its own prefill (pixel not written by the decoder).",
		"1-byte deviations use the reduced replacement set {0x00, 0xFF, ^b, b+1}.",
	})
}

func countSimd(m map[uint64]string) int {
	n := 0
	for _, s := range m {
		if !strings.Contains(s, "__choosy_default") {
			n++
		}
	}
	return n
}

// observeInstalled decodes every seed once and scans the object bytes for addresses of
// CPU-specific functions (the binaries are non-PIE, so symbol addresses are run-time addresses).
func observeInstalled(b *cserve.Built, variant string, plans []*pkgPlan, syms map[uint64]string, pr params) map[string]int {
	out := map[string]int{}
	srv, err := b.Start(variant)
	if err != nil {
		ev.Fatal("start: %v", err)
	}
	defer srv.Close()
	ex := func(c cserve.Cmd) (cserve.Result, error) {
		res, err := srv.Do(c)
		if err != nil {
			return cserve.Result{}, err
		}
		return res[0], nil
	}
	for _, p := range plans {
		for si := range p.seeds {
			if si > 8 {
				break
			}
			if _, err := ex(cserve.New(slotWork, p.name, cserve.NewOpts{})); err != nil {
				srv.Restart()
				continue
			}
			if _, err := wd.Drive(ex, slotWork, p.kind, p.seeds[si].Data, p.shapes[0], wd.Fill{}); err != nil {
				srv.Restart()
				continue
			}
			g, err := ex(cserve.Get(slotWork, cserve.GetObject))
			if err != nil {
				srv.Restart()
				continue
			}
			seen := map[string]bool{}
			for o := 0; o+8 <= len(g.Data); o += 8 {
				if n, ok := syms[binary.LittleEndian.Uint64(g.Data[o:])]; ok && !seen[n] {
					seen[n] = true
					out[n]++
				}
			}
		}
	}
	return out
}

// pickSeeds: the seedsPerPkg shortest valid files (every reference-encoder file is short, so
// they are in), up to two files the decoder rejects, and the two longest valid files (these get
// the pairwise configuration list only).
func pickSeeds(name string, valid, invalid []wd.Seed, pr params) (out []wd.Seed, long []bool) {
	n := pr.seedsPerPkg
	if strings.HasPrefix(name, "jpeg") {
		n += 6 // the IDCT variants want real photographs, baseline and progressive
	}
	k := len(valid)
	if k > n {
		k = n
	}
	out = append(out, valid[:k]...)
	for i := 0; i < len(invalid) && i < 2; i++ {
		out = append(out, invalid[i])
	}
	long = make([]bool, len(out))
	rest := valid[k:]
	if len(rest) > 2 {
		rest = rest[len(rest)-2:]
	}
	for _, s := range rest {
		out = append(out, s)
		long = append(long, true)
	}
	return out, long
}

func hasherSeeds(name string, pr params) []wd.Seed {
	var out []wd.Seed
	lens := []int{}
	for n := 0; n <= pr.hashPrefix; n++ {
		lens = append(lens, n)
	}
	// lengths around the block sizes of the SIMD loops (adler32: 5552-byte chunks; crc: 64/128-byte blocks)
	// (adler32 sse42: outer chunks of 5536 bytes, inner 32-byte steps; portable: 5552)
	for _, n := range []int{4095, 4096, 4097, 5535, 5536, 5537, 5551, 5552, 5553, 5567, 5568, 5569, 5584, 11071, 11072, 11073, 11104, 11105, 65535 + 31, 70001} {
		lens = append(lens, n)
	}
	pay := wd.Payload(70001)
	for _, n := range lens {
		out = append(out, wd.Seed{Pkg: name, Name: fmt.Sprintf("payload[:%d]", n), Data: pay[:n], Origin: "payload", EncoderProduced: true})
	}
	return out
}

// addDeviationInputs: every 1-byte deviation of the short seeds.
func addDeviationInputs(p *pkgPlan, pr params, long []bool) {
	n := 0
	for si := range p.seeds {
		if long[si] {
			continue
		}
		d := p.seeds[si].Data
		limit := len(d)
		if len(d) > pr.shortLen {
			if n > 0 || si > 0 {
				continue // only the shortest seed of a package without short seeds gets a prefix treatment
			}
			limit = pr.devPrefix
		}
		if n >= pr.devSeeds {
			break
		}
		n++
		if p.sizeof > 1<<20 && limit > pr.bigObjDevMax {
			limit = pr.bigObjDevMax
		}
		if limit > len(d) {
			limit = len(d)
		}
		for pos := 0; pos < limit; pos++ {
			for _, v := range wd.Deviations(d[pos]) {
				p.inputs = append(p.inputs, input{Seed: si, Pos: pos, Val: v, Shape: 0, Full: true})
			}
		}
	}
}

// ---- replay

func replay(path string) {
	raw, err := os.ReadFile(path)
	if err != nil {
		ev.Fatal("replay: %v", err)
	}
	var f struct {
		Signature string  `json:"signature"`
		What      string  `json:"what"`
		Witness   witness `json:"witness"`
	}
	if err := json.Unmarshal(raw, &f); err != nil {
		ev.Fatal("replay: %v", err)
	}
	w := f.Witness
	fmt.Printf("replaying %s\n  %s\n", f.Signature, f.What)
	if len(w.A.Cmds) == 0 {
		fmt.Println("witness has no command list (vacuity finding): nothing to execute")
		os.Exit(1)
	}
	scratch, mine, err := cserve.Scratch()
	if err != nil {
		ev.Fatal("scratch: %v", err)
	}
	if mine {
		defer os.RemoveAll(scratch)
	}
	vs := []string{w.A.Variant}
	if w.B.Variant != w.A.Variant {
		vs = append(vs, w.B.Variant)
	}
	mod := strings.SplitN(w.Pkg, ".", 2)[0]
	b, err := wd.Build(scratch, vs, []string{mod})
	if err != nil {
		ev.Fatal("build: %v", err)
	}
	run := func(s witnessSide) ([]wd.Step, error) {
		srv, err := b.Start(s.Variant)
		if err != nil {
			ev.Fatal("start: %v", err)
		}
		defer srv.Close()
		res, err := srv.Replay(s.Cmds)
		var steps []wd.Step
		for _, o := range s.Obs {
			if o < len(res) {
				steps = append(steps, wd.Observe(&s.Cmds[o], &res[o]))
			}
		}
		return steps, err
	}
	sa, ea := run(w.A)
	sb, eb := run(w.B)
	fmt.Printf("A: build %s, %s\nB: build %s, %s\n", w.A.Variant, w.A.Config, w.B.Variant, w.B.Config)
	for i := 0; i < len(sa) || i < len(sb); i++ {
		var x, y string
		if i < len(sa) {
			x = sa[i].S
		}
		if i < len(sb) {
			y = sb[i].S
		}
		mark := "  "
		if x != y {
			mark = "!="
		}
		fmt.Printf(" %s A: %s\n    B: %s\n", mark, x, y)
	}
	if ea != nil || eb != nil {
		fmt.Printf("REPRODUCED: server died: %v %v\n", ea, eb)
		os.Exit(1)
	}
	if d := wd.Compare(sa, sb, w.A.Fill, w.B.Fill); d != "" {
		fmt.Printf("REPRODUCED: %s\n", d)
		os.Exit(1)
	}
	fmt.Println("not reproduced: both configurations agree")
	os.Exit(0)
}
