package wd

// Enumerated input families: small generated files whose only purpose is to drive the
// CPU-specific (`choose`) loops and the pixel swizzlers through every filter type, row position,
// pixel size, width (= tail length of the vector loops) the decoders can meet. Every family is
// enumerated, not sampled.

import (
	"bytes"
	"compress/flate"
	"fmt"
	"image"
	"image/gif"
	"image/jpeg"
	"os/exec"

	"verif/internal/pngmk"
)

// Families returns the enumerated families per std package. tier is "quick" or "thorough".
func Families(tier string) map[string][]Seed {
	out := map[string][]Seed{}
	maxW := 40
	jpegW := 72
	if tier != "quick" {
		maxW, jpegW = 70, 140
	}
	add := func(pkg, fam, name string, data []byte, enc bool, im *pngmk.Image) {
		out[pkg] = append(out[pkg], Seed{Pkg: pkg, Name: fam + ":" + name, Data: data, Origin: "family:" + fam, EncoderProduced: enc, Family: fam, Png: im})
	}

	// ---- PNG 1: pngmk's enumeration (colour type x depth x width x height x filter layout + Adam7)
	for _, im := range pngmk.Enumerate(tier) {
		im := im
		add("png", "pngmk", im.Name, im.Data, false, &im)
	}
	// ---- PNG 2: widths beyond pngmk's, two rows (row 0 has no previous row, row 1 has), every
	// filter type: the SSE4.2 filters handle 4-byte (or 3-byte) pixels two at a time, the swizzlers
	// 4..16 pixels at a time.
	pw0 := 11
	if tier != "quick" {
		pw0 = 19
	}
	for _, cd := range pngmk.ColorDepths {
		bytesPP := pngmk.BitsPerPixel(cd[0], cd[1]) / 8
		for w := pw0; w <= maxW; w++ {
			for f := byte(0); f <= 4; f++ {
				if f != 0 && bytesPP != 3 && bytesPP != 4 {
					continue // the CPU-specific filters exist for filter distances 3 and 4 only
				}
				im := pngmk.Make(pngmk.Spec{ColorType: cd[0], Depth: cd[1], W: w, H: 2, Filters: []byte{f}, Salt: w})
				if im.Name == "" {
					im.Name = fmt.Sprintf("ct%d-d%d-%dx2-f%d", cd[0], cd[1], w, f)
				}
				fam := "png-width"
				if f != 0 {
					fam = "png-width-filter" // decoded into BGRA_NONPREMUL only
				}
				add("png", fam, im.Name, im.Data, false, &im)
			}
		}
	}

	// ---- xz: filter parameters. The Delta filter keeps a 256-byte ring per filter slot in the
	// part of the object that LEAVE_INTERNAL_BUFFERS_UNINITIALIZED does not clear; distances at the
	// ends of its range (1, 2, 255, 256), alone and after another block (seeded change C09-4).
	if _, err := exec.LookPath("xz"); err == nil {
		payload := make([]byte, 1280)
		for i := range payload {
			payload[i] = byte(i*7+i/5) | 1
		}
		for _, d := range []int{256, 255, 1, 2, 4, 16} {
			for _, bs := range []string{"", "--block-size=320"} {
				args := []string{"--format=xz", "-T1", "-c", fmt.Sprintf("--delta=dist=%d", d), "--lzma2=preset=0"}
				name := fmt.Sprintf("delta%d", d)
				if bs != "" {
					args = append(args, bs)
					name += "-4blocks"
				}
				cmd := exec.Command("xz", args...)
				cmd.Stdin = bytes.NewReader(payload)
				if b, err := cmd.Output(); err == nil && len(b) > 0 {
					add("xz", "xz-filter-params", name, b, true, nil)
				}
			}
		}
	}

	pix := func(x, y, c int) byte { return byte(x*37 + y*91 + c*53 + (x*y)%7 + 1) }

	// ---- netpbm: P5 (Y -> BGRA) and P6 (RGB -> BGRA), every width
	for w := 1; w <= maxW; w++ {
		for _, t := range []struct {
			magic string
			ch    int
		}{{"P5", 1}, {"P6", 3}} {
			b := []byte(fmt.Sprintf("%s\n%d 2\n255\n", t.magic, w))
			for y := 0; y < 2; y++ {
				for x := 0; x < w; x++ {
					for c := 0; c < t.ch; c++ {
						b = append(b, pix(x, y, c))
					}
				}
			}
			add("netpbm", "swizzle-width", fmt.Sprintf("%s-%dx2", t.magic, w), b, false, nil)
		}
	}
	// ---- bmp: 24-bit BGR, 32-bit BGRX, 8-bit indexed
	for w := 1; w <= maxW; w++ {
		for _, bits := range []int{24, 32, 8} {
			var b bytes.Buffer
			row := (w*bits/8 + 3) &^ 3
			npal := 0
			if bits == 8 {
				npal = 256
			}
			off := 54 + 4*npal
			b.WriteString("BM")
			b.Write(le32(uint32(off + row*2)))
			b.Write(le32(0))
			b.Write(le32(uint32(off)))
			b.Write(le32(40))
			b.Write(le32(uint32(w)))
			b.Write(le32(2))
			b.Write(le16(1))
			b.Write(le16(uint16(bits)))
			b.Write(le32(0))
			b.Write(le32(uint32(row * 2)))
			b.Write(le32(2835))
			b.Write(le32(2835))
			b.Write(le32(uint32(npal)))
			b.Write(le32(0))
			for i := 0; i < npal; i++ {
				b.Write([]byte{byte(i * 3), byte(255 - i), byte(i*7 + 1), 0})
			}
			for y := 0; y < 2; y++ {
				n := 0
				for x := 0; x < w; x++ {
					for c := 0; c < bits/8; c++ {
						b.WriteByte(pix(x, y, c))
						n++
					}
				}
				for ; n < row; n++ {
					b.WriteByte(0)
				}
			}
			add("bmp", "swizzle-width", fmt.Sprintf("%dbit-%dx2", bits, w), b.Bytes(), false, nil)
		}
	}
	// ---- targa: uncompressed 24 / 32 bit true colour, 8 bit gray
	for w := 1; w <= maxW; w++ {
		for _, t := range []struct{ typ, bits int }{{2, 24}, {2, 32}, {3, 8}} {
			desc := byte(0x20)
			if t.bits == 32 {
				desc = 0x28
			}
			b := []byte{0, 0, byte(t.typ), 0, 0, 0, 0, 0, 0, 0, 0, 0, byte(w), 0, 2, 0, byte(t.bits), desc}
			for y := 0; y < 2; y++ {
				for x := 0; x < w; x++ {
					for c := 0; c < t.bits/8; c++ {
						b = append(b, pix(x, y, c))
					}
				}
			}
			add("targa", "swizzle-width", fmt.Sprintf("type%d-%dbit-%dx2", t.typ, t.bits, w), b, false, nil)
		}
	}
	// ---- wbmp: 1 bit per pixel
	for w := 1; w <= maxW; w++ {
		b := []byte{0, 0, byte(w), 2}
		for y := 0; y < 2; y++ {
			for x := 0; x < (w+7)/8; x++ {
				b = append(b, pix(x, y, 0))
			}
		}
		add("wbmp", "swizzle-width", fmt.Sprintf("%dx2", w), b, false, nil)
	}
	// ---- nie: bn4 / bp4 (8 bit BGRA non-premultiplied / premultiplied), bn8 / bp8 (16 bit)
	for w := 1; w <= maxW; w++ {
		for _, k := range []string{"bn4", "bp4", "bn8", "bp8"} {
			b := append([]byte{0x6E, 0xC3, 0xAF, 0x45, 0xFF}, k...)
			b = append(b, le32(uint32(w))...)
			b = append(b, le32(2)...)
			bpp := int(k[2] - '0')
			for y := 0; y < 2; y++ {
				for x := 0; x < w; x++ {
					a := pix(x, y, 3)
					for c := 0; c < bpp; c++ {
						v := pix(x, y, c)
						if k[1] == 'p' { // premultiplied: colour <= alpha
							if bpp == 4 && c < 3 && v > a {
								v = a
							}
							if bpp == 8 {
								v = a // every 16-bit channel equals alpha's bytes: trivially premultiplied
							}
						}
						b = append(b, v)
					}
					if bpp == 4 {
						b[len(b)-1] = a
					}
				}
			}
			add("nie", "swizzle-width", fmt.Sprintf("%s-%dx2", k, w), b, false, nil)
		}
	}
	// ---- qoi: RGB / RGBA ops only
	for w := 1; w <= maxW; w++ {
		for _, ch := range []int{3, 4} {
			var b bytes.Buffer
			b.WriteString("qoif")
			b.Write([]byte{0, 0, 0, byte(w), 0, 0, 0, 2, byte(ch), 0})
			for y := 0; y < 2; y++ {
				for x := 0; x < w; x++ {
					if ch == 3 {
						b.Write([]byte{0xFE, pix(x, y, 0), pix(x, y, 1), pix(x, y, 2)})
					} else {
						b.Write([]byte{0xFF, pix(x, y, 0), pix(x, y, 1), pix(x, y, 2), pix(x, y, 3)})
					}
				}
			}
			b.Write([]byte{0, 0, 0, 0, 0, 0, 0, 1})
			add("qoi", "swizzle-width", fmt.Sprintf("%dch-%dx2", ch, w), b.Bytes(), false, nil)
		}
	}
	// ---- gif: indexed -> BGRA, Go's encoder
	for w := 1; w <= maxW; w++ {
		w := w
		add("gif", "swizzle-width", fmt.Sprintf("%dx2", w), enc("gif", func(b *bytes.Buffer) error { return gif.Encode(b, testImage(w, 2, "pal"), nil) }), true, nil)
	}
	// ---- jpeg: every width (the colour conversion handles 32 pixels at a time, the IDCT whole blocks;
	// partial MCUs at the right and bottom edge), 4:2:0 colour and gray; smooth content = in-range blocks
	for w := 1; w <= jpegW; w++ {
		w := w
		for _, h := range []int{1, 9} {
			h := h
			add("jpeg", "jpeg-width", fmt.Sprintf("ycbcr420-%dx%d", w, h), enc("jpeg", func(b *bytes.Buffer) error {
				return jpeg.Encode(b, testImage(w, h, "smooth"), &jpeg.Options{Quality: 80})
			}), true, nil)
		}
		if w <= maxW {
			add("jpeg", "jpeg-width", fmt.Sprintf("gray-%dx3", w), enc("jpeg", func(b *bytes.Buffer) error {
				m := image.NewGray(image.Rect(0, 0, w, 3))
				for y := 0; y < 3; y++ {
					for x := 0; x < w; x++ {
						m.Pix[y*m.Stride+x] = uint8(90 + x*2 + y*5)
					}
				}
				return jpeg.Encode(b, m, &jpeg.Options{Quality: 80})
			}), true, nil)
		}
	}
	// ---- deflate: every payload length (the fast Huffman loops need >= 8 source bytes and >= 266
	// destination bytes; what is left over goes to the slow loop): compressed text, byte by byte longer
	nd := 300
	if tier != "quick" {
		nd = 1200
	}
	text := payloadText(nd)
	for n := 1; n <= nd; n++ {
		n := n
		for _, lvl := range []int{flate.BestCompression, flate.HuffmanOnly} {
			if lvl == flate.HuffmanOnly && n%4 != 0 {
				continue
			}
			lvl := lvl
			add("deflate", "deflate-length", fmt.Sprintf("text[:%d].l%d", n, lvl), enc("flate", func(b *bytes.Buffer) error {
				w, err := flate.NewWriter(b, lvl)
				if err != nil {
					return err
				}
				w.Write(text[:n])
				return w.Close()
			}), true, nil)
		}
	}
	return out
}

// DstFormats: the destination pixel formats the swizzle families are decoded into (decode_frame's
// pixel format override; 0 = BGRA_NONPREMUL).
var DstFormats = []struct {
	Name string
	Fmt  uint64
}{
	// quick uses the first six (the 4-byte destinations have the SSE4.2 swizzlers)
	{"BGRA_NONPREMUL", 0}, {"native", 0xFFFFFFFF}, {"BGRA_PREMUL", 0x82008888}, {"RGBA_NONPREMUL", 0xA1008888}, {"BGRX", 0x90008888}, {"BGR_565", 0x80000565},
	{"BGR", 0x80000888}, {"RGBA_PREMUL", 0xA2008888}, {"RGB", 0xA0000888}, {"Y", 0x20000008},
}

// PngExpectBGRA converts pngmk's intended rows to BGRA_NONPREMUL bytes when that is a direct
// mapping (8-bit samples, palettes, sub-byte gray); ok=false for 16-bit samples.
func PngExpectBGRA(im *pngmk.Image) (out []byte, ok bool) {
	if im.Depth == 16 {
		return nil, false
	}
	out = make([]byte, 0, im.W*im.H*4)
	sample := func(row []byte, i, depth int) int { // i-th sample of `depth` bits, MSB first
		if depth == 8 {
			return int(row[i])
		}
		bit := i * depth
		return int(row[bit/8]>>(8-depth-bit%8)) & (1<<depth - 1)
	}
	for y := 0; y < im.H; y++ {
		row := im.Rows[y]
		for x := 0; x < im.W; x++ {
			switch im.ColorType {
			case pngmk.Gray:
				v := sample(row, x, im.Depth) * 255 / (1<<im.Depth - 1)
				out = append(out, byte(v), byte(v), byte(v), 255)
			case pngmk.Palette:
				i := sample(row, x, im.Depth)
				if 3*i+2 >= len(im.Palette) {
					return nil, false
				}
				out = append(out, im.Palette[3*i+2], im.Palette[3*i+1], im.Palette[3*i], 255)
			case pngmk.GrayAlpha:
				out = append(out, row[2*x], row[2*x], row[2*x], row[2*x+1])
			case pngmk.RGB:
				out = append(out, row[3*x+2], row[3*x+1], row[3*x], 255)
			case pngmk.RGBA:
				out = append(out, row[4*x+2], row[4*x+1], row[4*x], row[4*x+3])
			default:
				return nil, false
			}
		}
	}
	return out, true
}
