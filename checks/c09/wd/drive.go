package wd

import (
	"encoding/binary"
	"fmt"
	"strconv"

	"verif/internal/cserve"
)

// Shape fixes how an input is presented to a decoder. Everything in it is the same for all
// configurations that are compared with each other.
type Shape struct {
	Name      string
	DstCap    uint32 // free destination bytes per transform_io / tell_me_more call; tokens per decode_tokens call
	Cuts      []int  // the input is presented in pieces ending at these offsets; the last piece is closed. nil: one closed piece
	MaxCalls  int    // bound on wuffs calls per run
	MaxOut    int    // stop once this many output bytes / tokens were produced
	MaxFrames int
	MaxPix    uint64 // pixel buffer limit (bytes)
	MaxWork   uint64 // work buffer limit (bytes)
	Pad       uint64 // hashers: leading pad (alignment) of the slices given to update
	PixFmt    uint64 // decode_frame destination pixel format (0 = BGRA_NONPREMUL, 0xFFFFFFFF = the image's own)
	CutNum    int    // if CutDen > 0: one cut at len*CutNum/CutDen (instead of Cuts)
	CutDen    int
	// NeverClose: the source is never marked closed, so the run ends suspended ("short read")
	// when the input is used up.
	NeverClose bool
	Pure       bool   // PureCheck after every call
	QuirkKey   uint32 // get_quirk key used by PureCheck
}

// Fill is the prefill of destination / pixel memory beyond wi and of fresh work buffer memory.
type Fill struct{ Dst, Work uint8 }

// Exec executes one command and returns its result.
type Exec func(c cserve.Cmd) (cserve.Result, error)

// ExecN executes a few commands in one round trip (a call and the PureCheck that follows it).
type ExecN func(cs []cserve.Cmd) ([]cserve.Result, error)

// Trace is an executed script.
type Trace struct {
	Cmds []cserve.Cmd
	Res  []cserve.Result
	End  string // why the script ended
}

const (
	stShortRead    = "$base: short read"
	stShortWrite   = "$base: short write"
	stShortWorkbuf = "$base: short workbuf"
)

type drv struct {
	ex    ExecN
	slot  uint32
	in    []byte
	sh    Shape
	fill  Fill
	tr    *Trace
	fed   int
	cut   int
	calls int
	err   error
	quit  bool
	// trackWork: re-query workbuf_len after every source-consuming call; wl is the latest answer
	trackWork bool
	wl        uint64
}

func (d *drv) do(c cserve.Cmd) cserve.Result {
	return d.doN(c)[0]
}

// doN executes the commands in one round trip.
func (d *drv) doN(cs ...cserve.Cmd) []cserve.Result {
	if d.err != nil || d.quit {
		return []cserve.Result{{Err: "not executed"}}
	}
	rs, err := d.ex(cs)
	d.tr.Cmds = append(d.tr.Cmds, cs...)
	if err != nil {
		d.err = err
		d.tr.End = "crash"
		return []cserve.Result{{Err: "crash"}}
	}
	d.tr.Res = append(d.tr.Res, rs...)
	return rs
}

func (d *drv) end(why string) {
	if !d.quit {
		d.quit = true
		d.tr.End = why
	}
}

// nextPiece returns the next unfed piece of the input.
func (d *drv) nextPiece() []byte {
	if d.fed >= len(d.in) {
		return nil
	}
	to := len(d.in)
	for d.cut < len(d.sh.Cuts) {
		c := d.sh.Cuts[d.cut]
		d.cut++
		if c > d.fed && c < len(d.in) {
			to = c
			break
		}
	}
	p := d.in[d.fed:to]
	d.fed = to
	return p
}

// src issues a source-consuming call, feeding further pieces while it reports "short read".
func (d *drv) src(mk func() cserve.Cmd) cserve.Result {
	r, _ := d.srcX(mk)
	return r
}

// srcX is src with follow-up commands (getters) that ride in the same round trip when the whole
// input is presented at once (one-shot shapes); it returns their results, or nil if they were not
// issued (then the caller issues them itself).
func (d *drv) srcX(mk func() cserve.Cmd, extra ...cserve.Cmd) (cserve.Result, []cserve.Result) {
	ride := len(extra) > 0 && len(d.sh.Cuts) == 0 && !d.sh.Pure && !d.sh.NeverClose
	var data []byte
	if d.fed == 0 && len(d.in) > 0 {
		data = d.nextPiece()
	}
	for {
		if d.calls >= d.sh.MaxCalls {
			d.end("max-calls")
			return cserve.Result{Err: "max-calls"}, nil
		}
		d.calls++
		c := mk()
		c.Slot = d.slot
		c.Data = data
		c.DstFill, c.WorkFill = d.fill.Dst, d.fill.Work
		if d.fed >= len(d.in) && !d.sh.NeverClose {
			c.Flags |= cserve.FClosed
		}
		// one round trip: the call, the pure-method check of the state it leaves (C10), and the
		// work buffer length the next call has to provide (it changes once headers are parsed)
		batch := []cserve.Cmd{c}
		if d.sh.Pure {
			batch = append(batch, cserve.PureCheck(d.slot, d.sh.QuirkKey))
		}
		wlAt := -1
		if d.trackWork {
			wlAt = len(batch)
			batch = append(batch, cserve.Call(d.slot, cserve.MWorkbufLen))
		}
		exAt := len(batch)
		if ride {
			batch = append(batch, extra...)
		}
		rs := d.doN(batch...)
		r := rs[0]
		if wlAt >= 0 && len(rs) == len(batch) && rs[wlAt].Err == "" {
			d.wl = rs[wlAt].V[0]
			if d.wl > d.sh.MaxWork {
				d.end("work-too-large")
				return cserve.Result{Err: "work-too-large"}, nil
			}
		}
		if d.err != nil || r.Err != "" {
			d.end("refused:" + r.Err)
			return r, nil
		}
		if r.Status == stShortRead && d.fed < len(d.in) {
			data = d.nextPiece()
			continue
		}
		if ride && len(rs) == len(batch) {
			return r, rs[exAt:]
		}
		return r, nil
	}
}

func (d *drv) workLen(method int) (uint64, bool) {
	c := cserve.Call(d.slot, cserve.MWorkbufLen)
	r := d.do(c)
	if r.Err != "" {
		d.end("refused:" + r.Err)
		return 0, false
	}
	if r.V[0] > d.sh.MaxWork {
		d.end("work-too-large")
		return 0, false
	}
	return r.V[0], true
}

// Drive runs `in` through the object in `slot` (already created and initialised by the
// caller) following the shape, and records every command and result.
func Drive(ex Exec, slot uint32, kind int, in []byte, sh Shape, fill Fill) (*Trace, error) {
	return DriveN(func(cs []cserve.Cmd) ([]cserve.Result, error) {
		out := make([]cserve.Result, 0, len(cs))
		for _, c := range cs {
			r, err := ex(c)
			if err != nil {
				return out, err
			}
			out = append(out, r)
		}
		return out, nil
	}, slot, kind, in, sh, fill)
}

// DriveN is Drive with an executor that takes small batches.
func DriveN(ex ExecN, slot uint32, kind int, in []byte, sh Shape, fill Fill) (*Trace, error) {
	d := &drv{ex: ex, slot: slot, in: in, sh: sh, fill: fill, tr: &Trace{}}
	if sh.MaxCalls == 0 {
		d.sh.MaxCalls = 1 << 20
	}
	if sh.CutDen > 0 {
		d.sh.Cuts = []int{len(in) * sh.CutNum / sh.CutDen}
	}
	switch kind {
	case cserve.KindIOTransformer, cserve.KindTokenDecoder:
		method := cserve.MTransformIO
		if kind == cserve.KindTokenDecoder {
			method = cserve.MDecodeTokens
		}
		wl, ok := d.workLen(method)
		d.wl, d.trackWork = wl, true
		out, workRetries, stuck := 0, 0, 0
		dstCap := sh.DstCap
		for ok && !d.quit {
			r := d.src(func() cserve.Cmd {
				c := cserve.Call(slot, method)
				c.DstCap = dstCap
				c.WorkPolicy, c.WorkLen = cserve.WorkGiven, d.wl
				// no FNoAccum: the server derives the destination's stream position (meta.pos) from the accumulated length,
				// and e.g. deflate relies on it (history_position)
				// FCheckScribble: large destinations are pooled by the server; the full scan keeps the
				// all-prefill invariant of the pool exact (what lies beyond wi is then exactly DstFill)
				c.Flags = cserve.FWantBytes | cserve.FCheckScribble
				return c
			})
			if d.quit {
				break
			}
			out += int(r.NWritten)
			if r.Status == stShortWrite {
				if out >= sh.MaxOut {
					d.end("max-out")
				}
				// a decoder that needs a larger destination window than DstCap to make progress
				// would spin here: stop after a few calls without any progress
				if r.NWritten == 0 && r.SrcRi1 == r.SrcRi0 {
					if stuck++; stuck >= 2 {
						// e.g. lzma wants room for a whole maximum-length match: widen the window
						if dstCap < 1<<16 {
							dstCap *= 8
							stuck = 0
						} else {
							d.end("no-progress")
						}
					}
				} else {
					stuck = 0
				}
				continue
			}
			if r.Status == stShortWorkbuf && workRetries < 2 {
				workRetries++
				wl, ok = d.workLen(method)
				d.wl = wl
				continue
			}
			d.end("status")
		}
	case cserve.KindHasherU32, cserve.KindHasherU64, cserve.KindHasherBitvec256:
		for {
			p := d.nextPiece()
			last := d.fed >= len(d.in)
			var c cserve.Cmd
			if last {
				c = cserve.UpdateVal(slot, p)
			} else {
				c = cserve.Update(slot, p)
			}
			c.A0 = sh.Pad
			if sh.Pure {
				d.doN(c, cserve.PureCheck(slot, sh.QuirkKey))
			} else {
				d.do(c)
			}
			if last || d.quit || d.err != nil {
				break
			}
		}
		d.do(cserve.Checksum(slot))
		d.end("status")
	case cserve.KindImageDecoder:
		r, ex := d.srcX(func() cserve.Cmd { return cserve.Call(slot, cserve.MDecodeImageConfig) }, cserve.Get(slot, cserve.GetImageConfig))
		if d.quit {
			break
		}
		if !r.OK {
			d.end("status")
			break
		}
		var g cserve.Result
		if ex != nil {
			g = ex[0]
		} else {
			g = d.do(cserve.Get(slot, cserve.GetImageConfig))
		}
		if len(g.Data) < 64 {
			d.end("refused:short image config")
			break
		}
		w, h := binary.LittleEndian.Uint64(g.Data[24:]), binary.LittleEndian.Uint64(g.Data[32:])
		if w*h*4 > sh.MaxPix || w > 1<<20 || h > 1<<20 {
			d.end("pix-too-large")
			break
		}
		for f := 0; !d.quit; f++ {
			if f >= sh.MaxFrames {
				d.end("max-frames")
				break
			}
			r, ex = d.srcX(func() cserve.Cmd { return cserve.Call(slot, cserve.MDecodeFrameConfig) },
				cserve.Get(slot, cserve.GetFrameConfig), cserve.Call(slot, cserve.MWorkbufLen))
			if d.quit {
				break
			}
			if !r.OK {
				d.end("status")
				break
			}
			var wl uint64
			if ex != nil {
				if ex[1].Err != "" {
					d.end("refused:" + ex[1].Err)
					break
				}
				if wl = ex[1].V[0]; wl > sh.MaxWork {
					d.end("work-too-large")
					break
				}
			} else {
				d.do(cserve.Get(slot, cserve.GetFrameConfig))
				var ok bool
				if wl, ok = d.workLen(cserve.MDecodeFrame); !ok {
					break
				}
			}
			d.wl, d.trackWork = wl, ex == nil
			r, ex = d.srcX(func() cserve.Cmd {
				c := cserve.Call(slot, cserve.MDecodeFrame)
				c.WorkPolicy, c.WorkLen = cserve.WorkGiven, d.wl
				c.A0, c.A1 = sh.PixFmt, sh.MaxPix
				c.Blend = 0
				return c
			}, cserve.Call(slot, cserve.MFrameDirtyRect), cserve.Get(slot, cserve.GetPixels))
			d.trackWork = false
			if d.quit {
				break
			}
			if ex == nil {
				d.do(cserve.Call(slot, cserve.MFrameDirtyRect))
				d.do(cserve.Get(slot, cserve.GetPixels))
			}
			if !r.OK {
				d.end("status")
				break
			}
		}
	default:
		return nil, fmt.Errorf("wd: unknown kind %d", kind)
	}
	if d.tr.End == "" {
		d.tr.End = "done"
	}
	return d.tr, d.err
}

// Rebind returns a copy of the script bound to another slot and fill.
func Rebind(script []cserve.Cmd, slot uint32, fill Fill) []cserve.Cmd {
	out := make([]cserve.Cmd, len(script))
	for i, c := range script {
		c.Slot = slot
		if c.Op == cserve.OpCall {
			c.DstFill, c.WorkFill = fill.Dst, fill.Work
		}
		out[i] = c
	}
	return out
}

// ---- observations

// Step is the observable part of one executed command.
type Step struct {
	S   string // canonical rendering (data rendered as length + 64-bit hash)
	Pix []byte // GetPixels only: the raw pixel buffer (compared separately: untouched pixels keep the prefill)
}

func fnv64(b []byte) uint64 {
	h := uint64(0xcbf29ce484222325)
	for _, c := range b {
		h ^= uint64(c)
		h *= 0x100000001b3
	}
	// final avalanche so that short inputs spread
	h ^= h >> 29
	h *= 0xbf58476d1ce4e5b9
	h ^= h >> 32
	return h
}

var methodName = map[int]string{
	cserve.MTransformIO: "transform_io", cserve.MWorkbufLen: "workbuf_len", cserve.MSetQuirk: "set_quirk", cserve.MGetQuirk: "get_quirk",
	cserve.MDstHistoryRetainLength: "dst_history_retain_length", cserve.MUpdate: "update", cserve.MUpdateVal: "update_val",
	cserve.MChecksum: "checksum", cserve.MDecodeImageConfig: "decode_image_config", cserve.MDecodeFrameConfig: "decode_frame_config",
	cserve.MDecodeFrame: "decode_frame", cserve.MRestartFrame: "restart_frame", cserve.MTellMeMore: "tell_me_more",
	cserve.MNumDecodedFrames: "num_decoded_frames", cserve.MNumDecodedFrameConfigs: "num_decoded_frame_configs",
	cserve.MNumAnimationLoops: "num_animation_loops", cserve.MFrameDirtyRect: "frame_dirty_rect",
	cserve.MSetReportMetadata: "set_report_metadata", cserve.MDecodeTokens: "decode_tokens",
}

// MethodName names a cserve method constant.
func MethodName(m int) string {
	if s, ok := methodName[m]; ok {
		return s
	}
	return "method" + strconv.Itoa(m)
}

// StatusString renders the status of a result.
func StatusString(r *cserve.Result) string {
	if !r.HasStatus {
		return "-"
	}
	if r.OK {
		return "ok"
	}
	return r.Status
}

// Observe renders what the property's oracle looks at: status, consumed count, written count,
// the written bytes (up to wi only: the server returns/accumulates nothing beyond it), returned
// values, decoded configs; pixels separately.
func Observe(c *cserve.Cmd, r *cserve.Result) Step {
	b := make([]byte, 0, 96)
	if r.Err != "" {
		return Step{S: "refused: " + r.Err}
	}
	switch c.Op {
	case cserve.OpCall:
		b = append(b, MethodName(c.Method)...)
		b = append(b, " status="...)
		b = append(b, StatusString(r)...)
		b = append(b, " consumed="...)
		b = strconv.AppendUint(b, uint64(r.SrcRi1-r.SrcRi0), 10)
		b = append(b, " written="...)
		b = strconv.AppendUint(b, uint64(r.NWritten), 10)
		b = append(b, " v="...)
		for i := range r.V {
			b = strconv.AppendUint(b, r.V[i], 16)
			b = append(b, ',')
		}
		b = append(b, " contract="...)
		b = strconv.AppendUint(b, uint64(r.Contract&cserve.InfoMask&^cserve.CAlloc), 16)
		b = append(b, " data="...)
		b = strconv.AppendUint(b, uint64(len(r.Data)), 10)
		b = append(b, ':')
		b = strconv.AppendUint(b, fnv64(r.Data), 16)
	case cserve.OpGet:
		b = append(b, "get"...)
		b = strconv.AppendUint(b, uint64(c.What), 10)
		b = append(b, " total="...)
		b = strconv.AppendUint(b, r.Total, 10)
		if c.What == cserve.GetPixels {
			return Step{S: string(b), Pix: r.Data}
		}
		b = append(b, " data="...)
		for i := 0; i+8 <= len(r.Data) && len(r.Data) <= 128; i += 8 {
			b = strconv.AppendUint(b, binary.LittleEndian.Uint64(r.Data[i:]), 16)
			b = append(b, ',')
		}
		b = append(b, ':')
		b = strconv.AppendUint(b, fnv64(r.Data), 16)
	case cserve.OpPureCheck:
		b = append(b, "purecheck vals="...)
		for _, v := range r.PureVals {
			b = strconv.AppendUint(b, v, 16)
			b = append(b, ',')
		}
	default:
		b = append(b, "op"...)
		b = strconv.AppendUint(b, uint64(c.Op), 10)
	}
	return Step{S: string(b)}
}

// ObserveAll renders a whole trace.
func ObserveAll(cmds []cserve.Cmd, res []cserve.Result) []Step {
	out := make([]Step, len(res))
	for i := range res {
		out[i] = Observe(&cmds[i], &res[i])
	}
	return out
}

// Compare returns "" if the two observation lists agree. fa/fb are the destination prefills
// of the two runs: a pixel byte may differ only where both runs left their own prefill (the
// decoder did not write that pixel in either run).
func Compare(a, b []Step, fa, fb uint8) string {
	if len(a) != len(b) {
		return fmt.Sprintf("number of steps %d vs %d", len(a), len(b))
	}
	for i := range a {
		if a[i].S != b[i].S {
			return fmt.Sprintf("step %d: %q vs %q", i, a[i].S, b[i].S)
		}
		pa, pb := a[i].Pix, b[i].Pix
		if len(pa) != len(pb) {
			return fmt.Sprintf("step %d: pixel buffer length %d vs %d", i, len(pa), len(pb))
		}
		for k := range pa {
			if pa[k] != pb[k] && !(pa[k] == fa && pb[k] == fb && fa != fb) {
				return fmt.Sprintf("step %d: pixel byte %d (pixel %d, channel %d): %#02x vs %#02x (prefills %#02x / %#02x)", i, k, k/4, k%4, pa[k], pb[k], fa, fb)
			}
		}
	}
	return ""
}

// Final summarises a trace: last status seen, total consumed, total written.
func Final(cmds []cserve.Cmd, res []cserve.Result) (status string, consumed, written uint64) {
	status = "-"
	for i := range res {
		if cmds[i].Op != cserve.OpCall {
			continue
		}
		r := &res[i]
		if r.HasStatus {
			status = StatusString(r)
		}
		consumed += uint64(r.SrcRi1 - r.SrcRi0)
		written += uint64(r.NWritten)
	}
	return
}

// StaticScript is the fixed script used for the enumerated families (valid files whose call
// shape is known in advance): the whole input in one closed piece, work buffers sized by the
// server from workbuf_len() right before the call (WorkMin), one frame for images. Because it
// does not depend on any result, many inputs can share one round trip.
func StaticScript(slot uint32, kind int, in []byte, sh Shape, fill Fill) []cserve.Cmd {
	var out []cserve.Cmd
	call := func(method int) cserve.Cmd {
		c := cserve.Call(slot, method)
		c.DstFill, c.WorkFill = fill.Dst, fill.Work
		return c
	}
	srcCall := func(method int, data []byte) cserve.Cmd {
		c := call(method)
		c.Data = data
		c.Flags |= cserve.FClosed
		return c
	}
	switch kind {
	case cserve.KindIOTransformer, cserve.KindTokenDecoder:
		method := cserve.MTransformIO
		if kind == cserve.KindTokenDecoder {
			method = cserve.MDecodeTokens
		}
		c := srcCall(method, in)
		c.DstCap = sh.DstCap
		c.WorkPolicy = cserve.WorkMin
		c.Flags |= cserve.FWantBytes | cserve.FCheckScribble
		out = append(out, call(cserve.MWorkbufLen), c, call(cserve.MWorkbufLen))
	case cserve.KindHasherU32, cserve.KindHasherU64, cserve.KindHasherBitvec256:
		cut := 0
		if sh.CutDen > 0 {
			cut = len(in) * sh.CutNum / sh.CutDen
		}
		if cut > 0 && cut < len(in) {
			u := cserve.Update(slot, in[:cut])
			u.A0 = sh.Pad
			out = append(out, u)
		} else {
			cut = 0
		}
		u := cserve.UpdateVal(slot, in[cut:])
		u.A0 = sh.Pad
		out = append(out, u, cserve.Checksum(slot))
	case cserve.KindImageDecoder:
		df := srcCall(cserve.MDecodeFrame, nil)
		df.WorkPolicy = cserve.WorkMin
		df.A0, df.A1 = sh.PixFmt, sh.MaxPix
		out = append(out,
			srcCall(cserve.MDecodeImageConfig, in), cserve.Get(slot, cserve.GetImageConfig),
			srcCall(cserve.MDecodeFrameConfig, nil), cserve.Get(slot, cserve.GetFrameConfig), call(cserve.MWorkbufLen),
			df, call(cserve.MFrameDirtyRect), cserve.Get(slot, cserve.GetPixels),
			srcCall(cserve.MDecodeFrameConfig, nil), cserve.Get(slot, cserve.GetFrameConfig))
	}
	return out
}
