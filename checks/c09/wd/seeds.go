// Package wd ("wuffs drive") is shared by the C09 and C10 checks: seed files per std
// package (test/data + reference encoders), 1-byte deviations, and a deterministic driver
// that turns (package kind, input, shape) into a sequence of cserve commands.
package wd

import (
	"bytes"
	"compress/flate"
	"compress/gzip"
	"compress/lzw"
	"compress/zlib"
	"fmt"
	"image"
	"image/color"
	"image/color/palette"
	"image/gif"
	"image/jpeg"
	"image/png"
	"os"
	"path/filepath"
	"sort"
	"strings"

	"github.com/google/wuffs/lib/litonlylzma"

	"verif/internal/pngmk"
)

// Seed is one (intended-to-be) valid input of a std package.
type Seed struct {
	Pkg    string
	Name   string
	Data   []byte
	Origin string // "test/data" | "go-encoder" | "hand-built" | "payload"
	// EncoderProduced: the bytes come out of a real encoder (Go std encoders, or the
	// repository's test/data files that were made with cjpeg & co). Only these take part in
	// the JPEG SIMD-vs-portable comparison (the property's documented exception).
	EncoderProduced bool
	Family          string       // non-empty: member of an enumerated family (see family.go)
	Png             *pngmk.Image // png families: what the file must decode to
}

var extPkg = map[string]string{
	".bz2": "bzip2", ".cbor": "cbor", ".json": "json", ".nie": "nie", ".handsum": "handsum", ".wbmp": "wbmp",
	".webp": "webp", ".gif": "gif", ".png": "png", ".bmp": "bmp", ".gz": "gzip", ".zlib": "zlib", ".deflate": "deflate",
	".xz": "xz", ".lzma": "lzma", ".lz": "lzip", ".jpeg": "jpeg", ".pkm": "etc2", ".pgm": "netpbm", ".ppm": "netpbm",
	".pbm": "netpbm", ".pam": "netpbm", ".th": "thumbhash", ".qoi": "qoi", ".tga": "targa",
}

// Hashers lists the hasher packages (their inputs are plain payloads).
var Hashers = []string{"adler32", "crc32", "crc64", "sha256", "xxhash32", "xxhash64"}

func payloadText(n int) []byte {
	// deterministic, mildly compressible text
	var b bytes.Buffer
	words := []string{"wuffs", "the", "quick", "brown", "fox", "decoder", "0123456789", "abcabcabc", "zz", "Hello, "}
	for i := 0; b.Len() < n; i++ {
		b.WriteString(words[(i*7+i/3)%len(words)])
		b.WriteByte(" \n,.;"[i%5])
	}
	return b.Bytes()[:n]
}

func payloadBinary(n int) []byte {
	b := make([]byte, n)
	x := uint32(0x2545F491)
	for i := range b {
		x ^= x << 13
		x ^= x >> 17
		x ^= x << 5
		b[i] = byte(x >> 11)
		if i%11 < 4 {
			b[i] = byte(i / 11) // runs
		}
	}
	return b
}

func testImage(w, h int, kind string) image.Image {
	r := image.Rect(0, 0, w, h)
	switch kind {
	case "gray":
		m := image.NewGray(r)
		for y := 0; y < h; y++ {
			for x := 0; x < w; x++ {
				m.SetGray(x, y, color.Gray{uint8(x*37 + y*91 + (x*y)%13)})
			}
		}
		return m
	case "rgb":
		m := image.NewRGBA(r)
		for y := 0; y < h; y++ {
			for x := 0; x < w; x++ {
				m.SetRGBA(x, y, color.RGBA{uint8(x*29 + y*3), uint8(y*41 + x), uint8((x ^ y) * 17), 255})
			}
		}
		return m
	case "nrgba":
		m := image.NewNRGBA(r)
		for y := 0; y < h; y++ {
			for x := 0; x < w; x++ {
				m.SetNRGBA(x, y, color.NRGBA{uint8(x*29 + y*3), uint8(y*41 + x), uint8((x ^ y) * 17), uint8(255 - (x+y)*9)})
			}
		}
		return m
	case "pal":
		m := image.NewPaletted(r, palette.Plan9)
		for y := 0; y < h; y++ {
			for x := 0; x < w; x++ {
				m.SetColorIndex(x, y, uint8((x*7+y*13)%256))
			}
		}
		return m
	case "smooth": // smooth content: every JPEG block well inside the 10-bit range
		m := image.NewRGBA(r)
		for y := 0; y < h; y++ {
			for x := 0; x < w; x++ {
				m.SetRGBA(x, y, color.RGBA{uint8(64 + x*3 + y), uint8(96 + y*2), uint8(128 - x - y), 255})
			}
		}
		return m
	}
	panic("bad image kind")
}

func le32(v uint32) []byte { return []byte{byte(v), byte(v >> 8), byte(v >> 16), byte(v >> 24)} }
func le16(v uint16) []byte { return []byte{byte(v), byte(v >> 8)} }

// handBuilt returns tiny files written by hand for formats that have neither a small
// test/data file nor a Go encoder. Whether they are accepted is recorded in the evidence
// (seed status histogram); nothing depends on them being valid.
func handBuilt() []Seed {
	var out []Seed
	add := func(pkg, name string, data []byte) {
		out = append(out, Seed{Pkg: pkg, Name: "hand:" + name, Data: data, Origin: "hand-built"})
	}
	// QOI 5x3, RGB ops + a run + an index op
	{
		var b bytes.Buffer
		b.WriteString("qoif")
		b.Write([]byte{0, 0, 0, 5, 0, 0, 0, 3, 4, 0})
		for i := 0; i < 6; i++ {
			b.Write([]byte{0xFE, byte(10 + i*40), byte(200 - i*30), byte(i * 17)})
		}
		b.WriteByte(0xC0 | 3)                           // run of 4
		b.Write([]byte{0xFF, 1, 2, 3, 128})             // RGBA
		b.Write([]byte{0x40 | 0x2A, 0x80 | 0x21, 0x88}) // diff, luma
		b.Write([]byte{0xFE, 9, 8, 7, 0xFE, 6, 5, 4})   // two more
		b.Write([]byte{0, 0, 0, 0, 0, 0, 0, 1})         // end marker
		add("qoi", "5x3.qoi", b.Bytes())
	}
	// TGA 4x3 uncompressed 24 bit, and 4x2 RLE 32 bit
	{
		h := []byte{0, 0, 2, 0, 0, 0, 0, 0, 0, 0, 0, 0, 4, 0, 3, 0, 24, 0x20}
		for i := 0; i < 12; i++ {
			h = append(h, byte(i*20), byte(255-i*20), byte(i*i))
		}
		add("targa", "4x3.bgr.tga", h)
		r := []byte{0, 0, 10, 0, 0, 0, 0, 0, 0, 0, 0, 0, 4, 0, 2, 0, 32, 0x28}
		r = append(r, 0x83, 1, 2, 3, 255)                                        // run of 4
		r = append(r, 0x03, 9, 8, 7, 200, 6, 5, 4, 100, 3, 2, 1, 50, 0, 0, 0, 0) // 4 raw
		add("targa", "4x2.rle.tga", r)
	}
	// BMP 3x2 24 bit bottom-up
	{
		var b bytes.Buffer
		rowSize := 12
		b.WriteString("BM")
		b.Write(le32(uint32(54 + rowSize*2)))
		b.Write(le32(0))
		b.Write(le32(54))
		b.Write(le32(40))
		b.Write(le32(3))
		b.Write(le32(2))
		b.Write(le16(1))
		b.Write(le16(24))
		b.Write(le32(0))
		b.Write(le32(uint32(rowSize * 2)))
		b.Write(le32(2835))
		b.Write(le32(2835))
		b.Write(le32(0))
		b.Write(le32(0))
		for i := 0; i < 2; i++ {
			for x := 0; x < 3; x++ {
				b.Write([]byte{byte(x * 80), byte(i * 200), byte(255 - x*60)})
			}
			b.Write([]byte{0, 0, 0})
		}
		add("bmp", "3x2.bmp", b.Bytes())
	}
	// netpbm
	add("netpbm", "4x2.pgm", append([]byte("P5\n4 2\n255\n"), 0, 40, 80, 120, 160, 200, 240, 255))
	add("netpbm", "2x2.ppm", append([]byte("P6 2 2 255\n"), 1, 2, 3, 40, 50, 60, 200, 210, 220, 255, 0, 128))
	// wbmp 10x3
	add("wbmp", "10x3.wbmp", []byte{0, 0, 10, 3, 0xAA, 0x80, 0x55, 0x40, 0xF0, 0xC0})
	return out
}

func enc(name string, f func(*bytes.Buffer) error) []byte {
	var b bytes.Buffer
	if err := f(&b); err != nil {
		panic(fmt.Sprintf("wd: reference encoder %s: %v", name, err))
	}
	return b.Bytes()
}

// goEncoded returns reference-encoder output for tiny payloads / images.
func goEncoded() []Seed {
	var out []Seed
	add := func(pkg, name string, data []byte) {
		out = append(out, Seed{Pkg: pkg, Name: "go:" + name, Data: data, Origin: "go-encoder", EncoderProduced: true})
	}
	txt := payloadText(120)
	bin := payloadBinary(96)
	for _, p := range []struct {
		name string
		data []byte
	}{{"text120", txt}, {"bin96", bin}, {"empty", nil}} {
		for _, lvl := range []int{flate.BestCompression, flate.NoCompression, flate.HuffmanOnly} {
			if (p.name != "text120") && lvl != flate.BestCompression {
				continue
			}
			lvl := lvl
			add("deflate", fmt.Sprintf("%s.l%d.deflate", p.name, lvl), enc("flate", func(b *bytes.Buffer) error {
				w, err := flate.NewWriter(b, lvl)
				if err != nil {
					return err
				}
				w.Write(p.data)
				return w.Close()
			}))
		}
		add("gzip", p.name+".gz", enc("gzip", func(b *bytes.Buffer) error {
			w := gzip.NewWriter(b)
			w.Write(p.data)
			return w.Close()
		}))
		add("zlib", p.name+".zlib", enc("zlib", func(b *bytes.Buffer) error {
			w := zlib.NewWriter(b)
			w.Write(p.data)
			return w.Close()
		}))
		add("lzw", p.name+".lzw", enc("lzw", func(b *bytes.Buffer) error {
			w := lzw.NewWriter(b, lzw.LSB, 8)
			w.Write(p.data)
			return w.Close()
		}))
		if p.data != nil {
			for _, ff := range []litonlylzma.FileFormat{litonlylzma.FileFormatLZMA, litonlylzma.FileFormatXz} {
				d, err := ff.Encode(nil, p.data[:40])
				if err != nil {
					panic(err)
				}
				if ff == litonlylzma.FileFormatLZMA {
					add("lzma", p.name+".litonly.lzma", d)
				} else {
					add("xz", p.name+".litonly.xz", d)
				}
			}
		}
	}
	// PNG: every colour type the Go encoder emits; widths around the SIMD filter strides
	for _, c := range []struct {
		w, h int
		kind string
	}{{7, 5, "gray"}, {9, 4, "rgb"}, {6, 5, "nrgba"}, {13, 3, "pal"}, {33, 6, "rgb"}, {34, 5, "nrgba"}} {
		c := c
		add("png", fmt.Sprintf("%dx%d.%s.png", c.w, c.h, c.kind), enc("png", func(b *bytes.Buffer) error {
			return (&png.Encoder{CompressionLevel: png.BestCompression}).Encode(b, testImage(c.w, c.h, c.kind))
		}))
	}
	// GIF
	add("gif", "6x4.pal.gif", enc("gif", func(b *bytes.Buffer) error { return gif.Encode(b, testImage(6, 4, "pal"), nil) }))
	add("gif", "2frames.gif", enc("gif", func(b *bytes.Buffer) error {
		g := &gif.GIF{LoopCount: 2}
		for i := 0; i < 2; i++ {
			m := testImage(5, 3, "pal").(*image.Paletted)
			m.SetColorIndex(i, i, 200)
			g.Image = append(g.Image, m)
			g.Delay = append(g.Delay, 3)
		}
		return gif.EncodeAll(b, g)
	}))
	// JPEG: encoder-produced by construction
	for _, c := range []struct {
		w, h, q int
		kind    string
	}{{8, 8, 75, "gray"}, {16, 16, 75, "smooth"}, {17, 13, 90, "rgb"}, {24, 9, 50, "gray"}, {40, 24, 85, "smooth"}} {
		c := c
		add("jpeg", fmt.Sprintf("%dx%d.%s.q%d.jpeg", c.w, c.h, c.kind, c.q), enc("jpeg", func(b *bytes.Buffer) error {
			return jpeg.Encode(b, testImage(c.w, c.h, c.kind), &jpeg.Options{Quality: c.q})
		}))
	}
	// (lib/handsum has a Go encoder too, but importing it would add golang.org/x/image to verif's go.mod;
	// test/data has two .handsum files.)
	return out
}

// vp8FromWebP extracts the payload of the "VP8 " chunk of a simple lossy WebP file.
func vp8FromWebP(d []byte) []byte {
	if len(d) < 20 || string(d[0:4]) != "RIFF" || string(d[8:12]) != "WEBP" {
		return nil
	}
	for o := 12; o+8 <= len(d); {
		n := int(d[o+4]) | int(d[o+5])<<8 | int(d[o+6])<<16 | int(d[o+7])<<24
		if string(d[o:o+4]) == "VP8 " && o+8+n <= len(d) {
			return d[o+8 : o+8+n]
		}
		o += 8 + n + n&1
	}
	return nil
}

// Seeds collects the seeds of every package in `pkgs` (std directory names): files of
// repo/test/data (top level and artificial-*/) up to maxFile bytes mapped by extension,
// reference-encoder output and hand-built files; hashers get payloads. Sorted by
// (length, name) per package.
func Seeds(repo string, pkgs []string, maxFile int) map[string][]Seed {
	want := map[string]bool{}
	for _, p := range pkgs {
		want[p] = true
	}
	out := map[string][]Seed{}
	add := func(s Seed) {
		if want[s.Pkg] {
			out[s.Pkg] = append(out[s.Pkg], s)
		}
	}
	dirs := []string{filepath.Join(repo, "test", "data")}
	art, _ := filepath.Glob(filepath.Join(repo, "test", "data", "artificial-*"))
	sort.Strings(art)
	dirs = append(dirs, art...)
	for di, dir := range dirs {
		ents, err := os.ReadDir(dir)
		if err != nil {
			continue
		}
		for _, e := range ents {
			if e.IsDir() {
				continue
			}
			name := e.Name()
			pkg, ok := extPkg[filepath.Ext(name)]
			if !ok || strings.Contains(name, "truncated") {
				continue
			}
			fi, err := e.Info()
			if err != nil || fi.Size() > int64(maxFile) || fi.Size() == 0 {
				continue
			}
			b, err := os.ReadFile(filepath.Join(dir, name))
			if err != nil {
				continue
			}
			rel := name
			if di > 0 {
				rel = filepath.Base(dir) + "/" + name
			}
			// artificial-* files are hand-made with script/make-artificial.go: not encoder output.
			add(Seed{Pkg: pkg, Name: rel, Data: b, Origin: "test/data", EncoderProduced: di == 0})
			if pkg == "webp" {
				if v := vp8FromWebP(b); v != nil {
					add(Seed{Pkg: "vp8", Name: rel + "#VP8", Data: append([]byte(nil), v...), Origin: "test/data", EncoderProduced: di == 0})
				}
			}
		}
	}
	for _, s := range goEncoded() {
		add(s)
	}
	for _, s := range handBuilt() {
		add(s)
	}
	for pkg := range out {
		l := out[pkg]
		sort.SliceStable(l, func(i, j int) bool {
			if len(l[i].Data) != len(l[j].Data) {
				return len(l[i].Data) < len(l[j].Data)
			}
			return l[i].Name < l[j].Name
		})
		out[pkg] = l
	}
	return out
}

// Payload returns the deterministic hasher payload of n bytes (text for the first half of the
// byte values, binary afterwards, so that both small and large byte values occur).
func Payload(n int) []byte {
	t := payloadText(n/2 + 1)
	b := payloadBinary(n)
	copy(b, t[:n/2])
	return b
}

// Deviations enumerates the 1-byte deviations of data at position pos: the distinct values of
// {0x00, 0xFF, ^b, b+1} that differ from b.
func Deviations(b byte) []byte {
	var out []byte
	for _, v := range []byte{0x00, 0xFF, ^b, b + 1} {
		if v == b {
			continue
		}
		dup := false
		for _, o := range out {
			if o == v {
				dup = true
			}
		}
		if !dup {
			out = append(out, v)
		}
	}
	return out
}
