package wd

import (
	"bufio"
	"fmt"
	"os"
	"os/exec"
	"path/filepath"
	"regexp"
	"sort"
	"strconv"
	"strings"
	"time"

	"verif/internal/cserve"
	"verif/internal/ev"
)

// Build wraps cserve.Build. For development only: with WD_REUSE=<scratch> an existing build
// in that directory is reused (never set by run.sh / selftest.sh).
func Build(scratch string, variants, modules []string) (*cserve.Built, error) {
	if d := os.Getenv("WD_REUSE"); d != "" {
		b := &cserve.Built{Dir: filepath.Join(d, "cserve"), Bin: map[string]string{}, CompileSeconds: map[string]float64{},
			Modules: modules, HangTimeout: 30 * time.Second}
		b.Root = filepath.Join(b.Dir, "root")
		b.ReleaseC = filepath.Join(b.Root, "release", "c", "wuffs-unsupported-snapshot.c")
		ok := true
		for _, v := range variants {
			b.Bin[v] = filepath.Join(b.Dir, "wserver_"+v)
			if _, err := os.Stat(b.Bin[v]); err != nil {
				ok = false
			}
		}
		if _, err := os.Stat(b.ReleaseC); err != nil {
			ok = false
		}
		if ok {
			table, _, err := cserve.ScanStd(ev.Repo())
			if err != nil {
				return nil, err
			}
			pk := map[string]bool{}
			for _, t := range table {
				pk[t.Pkg] = true
			}
			b.Table, b.PackageCount = table, len(pk)
			fmt.Fprintf(os.Stderr, "wd: REUSING build in %s (development mode)\n", d)
			return b, nil
		}
		return cserve.Build(d, variants, modules)
	}
	return cserve.Build(scratch, variants, modules)
}

// ChooseSite is one `choose` alternative found in the generated C.
type ChooseSite struct {
	Pkg       string `json:"pkg"`
	Predicate string `json:"predicate"` // e.g. x86_sse42
	Func      string `json:"func"`
}

var chooseRe = regexp.MustCompile(`wuffs_base__cpu_arch__have_([a-z0-9_]+)\(\)\s*\?\s*&(wuffs_([a-z0-9]+)__[A-Za-z0-9_]+)\s*:`)
var haveRe = regexp.MustCompile(`wuffs_base__cpu_arch__have_([a-z0-9_]+)\(\)`)
var modRe = regexp.MustCompile(`^#if !defined\(WUFFS_CONFIG__MODULES\) \|\| defined\(WUFFS_CONFIG__MODULE__([A-Z0-9_]+)\)`)

// ScanChoose lists every cpu_arch-predicated `choose` alternative of the generated release C
// (per package) and counts the other uses of cpu_arch predicates per module (base pixconv &
// co select their SIMD helpers with plain `if`s).
func ScanChoose(releaseC string) (sites []ChooseSite, predicateUses map[string]int, err error) {
	f, err := os.Open(releaseC)
	if err != nil {
		return nil, nil, err
	}
	defer f.Close()
	predicateUses = map[string]int{}
	sc := bufio.NewScanner(f)
	sc.Buffer(make([]byte, 1<<20), 1<<24)
	mod := "(header)"
	for sc.Scan() {
		line := sc.Text()
		if m := modRe.FindStringSubmatch(line); m != nil {
			mod = strings.ToLower(m[1])
		}
		if m := chooseRe.FindStringSubmatch(line); m != nil {
			sites = append(sites, ChooseSite{Pkg: m[3], Predicate: m[1], Func: m[2]})
			continue
		}
		for _, m := range haveRe.FindAllStringSubmatch(line, -1) {
			if strings.Contains(line, "(void)") {
				continue // the definition of the predicate itself
			}
			predicateUses[mod+":"+m[1]]++
		}
	}
	return sites, predicateUses, sc.Err()
}

// FuncSyms returns address -> name of the text symbols of a (non-PIE) server binary whose
// name matches keep.
func FuncSyms(bin string, keep func(name string) bool) (map[uint64]string, error) {
	out, err := exec.Command("nm", "--defined-only", bin).Output()
	if err != nil {
		return nil, fmt.Errorf("nm %s: %v", bin, err)
	}
	m := map[uint64]string{}
	for _, l := range strings.Split(string(out), "\n") {
		f := strings.Fields(l)
		if len(f) != 3 || (f[1] != "t" && f[1] != "T") {
			continue
		}
		if !keep(f[2]) {
			continue
		}
		a, err := strconv.ParseUint(f[0], 16, 64)
		if err != nil || a == 0 {
			continue
		}
		m[a] = f[2]
	}
	return m, nil
}

// HostCPUFlags returns the subset of /proc/cpuinfo flags relevant to the variants.
func HostCPUFlags() []string {
	b, err := os.ReadFile("/proc/cpuinfo")
	if err != nil {
		return []string{"(cannot read /proc/cpuinfo)"}
	}
	want := map[string]bool{"sse4_2": true, "avx2": true, "bmi2": true, "pclmulqdq": true, "popcnt": true, "avx": true, "ssse3": true, "sse4_1": true, "avx512f": true}
	var out []string
	for _, l := range strings.Split(string(b), "\n") {
		if strings.HasPrefix(l, "flags") {
			for _, f := range strings.Fields(l) {
				if want[f] {
					out = append(out, f)
				}
			}
			break
		}
	}
	sort.Strings(out)
	return out
}
