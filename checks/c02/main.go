// C02: every fact, assertion, invariant and axiom is true at run time.
//
// (i)   axiom listing: every axiom string of lang/check/axioms.md (and every
//
//	name in lang/check/data.go) is evaluated for all integer assignments of
//	its variables in [-6,6]^k (thorough [-10,10]^k);
//
// (ii)  the `axioms` family: every instantiation (including a repeated pattern
//
//	variable bound to two different expressions) through the real checker
//	and, if accepted, executed for all inputs;
//
// (iii) fact lists: for every accepted program of the fact-carrying families
//
//	and every program point, the checker's fact list there (obtained by
//	re-checking with `assert false` inserted) is evaluated in every
//	concrete state that reaches the point.
package main

import (
	"fmt"
	"os"
	"path/filepath"
	"regexp"
	"strings"
	"time"

	"verif/internal/ev"
	"verif/internal/interp"
	"verif/internal/interp/drive"
	"verif/internal/progen"
)

func axiomListing(r *ev.Run) (nAxioms int, nAssign int64) {
	md, err := os.ReadFile(filepath.Join(ev.Repo(), "lang", "check", "axioms.md"))
	if err != nil {
		ev.Fatal("%v", err)
	}
	axs, err := progen.ParseAxioms(string(md))
	if err != nil {
		ev.Fatal("axioms.md: %v", err)
	}
	names := map[string]bool{}
	for _, a := range axs {
		names[a.Name] = true
	}
	// The implemented table: every name in data.go must also be a theorem.
	data, err := os.ReadFile(filepath.Join(ev.Repo(), "lang", "check", "data.go"))
	if err != nil {
		ev.Fatal("%v", err)
	}
	re := regexp.MustCompile("\\{`\"([^`]*)\"`, func")
	nData := 0
	for _, m := range re.FindAllStringSubmatch(string(data), -1) {
		nData++
		if !names[m[1]] {
			extra, err := progen.ParseAxioms("\n---\n`\"" + m[1] + "\"`")
			if err != nil {
				ev.Fatal("data.go: %v", err)
			}
			axs = append(axs, extra...)
			names[m[1]] = true
			r.HistAdd("axiom_source", "data.go only", 1)
		}
	}
	if len(axs) < 5 || nData < 5 {
		ev.Fatal("axiom listing looks empty: %d in axioms.md, %d in data.go", len(axs), nData)
	}
	// Self-check of the evaluator on a known theorem and a known non-theorem.
	for _, tc := range []struct {
		s    string
		want bool
	}{{"a < b: a < c; c <= b", true}, {"a < (b + c): a < c; 0 < c", false}, {"a <= (a + b): 0 <= b", true}, {"a <= b: a < c", false}} {
		a, err := progen.ParseAxioms("\n---\n`\"" + tc.s + "\"`")
		if err != nil || len(a) != 1 {
			ev.Fatal("axiom self-check parse %q: %v", tc.s, err)
		}
		if _, ok := theorem(a[0], 4); ok != tc.want {
			ev.Fatal("axiom self-check: %q theorem=%v, want %v", tc.s, ok, tc.want)
		}
	}
	bound := int64(6)
	if r.Thorough() {
		bound = 10
	}
	for _, a := range axs {
		cex, ok := theorem(a, bound)
		k := len(a.Vars())
		n := int64(1)
		for i := 0; i < k; i++ {
			n *= 2*bound + 1
		}
		nAssign += n
		r.HistAdd("axiom_vars", fmt.Sprint(k), 1)
		if !ok {
			r.Violation("axiom-listing:"+a.Name, fmt.Sprintf("axiom %q is not a theorem over the integers: counterexample %v", a.Name, cex),
				map[string]any{"axiom": a.Name, "assignment": cex, "kind": "axiom-listing"})
		}
	}
	return len(axs), nAssign
}

// theorem checks "all requirements => claim" for all assignments in [-b,b]^k.
func theorem(a progen.Axiom, b int64) (map[string]int64, bool) {
	vars := a.Vars()
	env := map[string]int64{}
	val := make([]int64, len(vars))
	for i := range val {
		val[i] = -b
	}
	for {
		for i, v := range vars {
			env[v] = val[i]
		}
		prem := true
		for _, q := range a.Reqs {
			if q.Eval(env) == 0 {
				prem = false
				break
			}
		}
		if prem && a.Claim.Eval(env) == 0 {
			cex := map[string]int64{}
			for k, v := range env {
				cex[k] = v
			}
			return cex, false
		}
		i := len(val) - 1
		for ; i >= 0; i-- {
			val[i]++
			if val[i] <= b {
				break
			}
			val[i] = -b
		}
		if i < 0 {
			return nil, true
		}
	}
}

func replayListing(path string) bool {
	b, _ := os.ReadFile(path)
	if !strings.Contains(string(b), `"kind": "axiom-listing"`) {
		return false
	}
	r := ev.Start("C02", "model_checking")
	_ = r
	md, _ := os.ReadFile(filepath.Join(ev.Repo(), "lang", "check", "axioms.md"))
	axs, _ := progen.ParseAxioms(string(md))
	rc := 0
	for _, a := range axs {
		if strings.Contains(string(b), `"axiom": "`+a.Name+`"`) {
			cex, ok := theorem(a, 10)
			fmt.Printf("axiom %q: theorem=%v counterexample=%v\n", a.Name, ok, cex)
			if !ok {
				rc = 1
			}
		}
	}
	os.Exit(rc)
	return true
}

func main() {
	if len(os.Args) > 2 && os.Args[1] == "replay" {
		if !replayListing(os.Args[2]) {
			drive.Replay("C02", os.Args[2])
		}
		return
	}
	r := ev.Start("C02", "model_checking")
	r.SetBudget(7*time.Minute, 40*time.Minute)
	if s := interp.SelfTestNum(); s != "" {
		ev.Fatal("integer self-test: %s", s)
	}
	nAx, nAssign := axiomListing(r)

	cfg := drive.Config{Prop: "C02", Families: []string{"seeds", "axioms", "facts", "loops", "ptr", "calls", "refine", "coro", "io", "iterate"},
		MaxExec: 6000, MaxStates: 4096, MaxTuples: 2048}
	if r.Thorough() {
		cfg.MaxExec, cfg.MaxTuples = 20000, 4096
	}
	if f := os.Getenv("C02_FAMILIES"); f != "" {
		cfg.Families = strings.Split(f, ",")
	}
	d := drive.New(r, cfg)
	d.Run()
	tot := d.Totals()
	extra, fatal := d.Report()
	for _, f := range fatal {
		fmt.Fprintln(os.Stderr, "HARNESS-ERROR:", f)
	}
	if len(fatal) > 0 {
		os.Exit(2)
	}
	extra["axioms_checked"] = nAx
	extra["axiom_assignments"] = nAssign
	extra["point_fact_pairs_evaluated"] = tot.Pairs
	extra["families_with_both_outcomes"] = tot.FamiliesBothOutcomes
	extra["programs_with_truncated_exploration"] = tot.ProgramsCapped
	extra["programs_generated"] = tot.Generated
	extra["programs_accepted"] = tot.Accepted
	extra["programs_rejected"] = tot.Rejected
	extra["programs_with_a_false_fact"] = tot.Violating
	r.Sample(map[string]any{"axioms": nAx, "assignments": nAssign})
	r.Finish(ev.Coverage{
		Evaluations:        tot.Pairs + nAssign,
		DistinctNontrivial: tot.Accepted,
		Rule:               "programs are enumerated exhaustively from the progen grammars (distinct by SHA-1 of the canonical text) and run through the real Tokenize/Parse/Check; non-trivial = accepted by the checker and executed with the checker's own fact list evaluated at every program point reached (rejected programs are counted per family in coverage.families); the axiom listing is evaluated separately (axiom_assignments)",
		States:             tot.PointStates,
		Transitions:        tot.Steps,
		TracesValidated:    tot.Executions,
		Exhaustive:         tot.ProgramsCapped == 0,
		Explanation:        "states = distinct (program, program point, store hash) triples at which the checker's fact list was evaluated; transitions = statements executed by the reference interpreter; traces_validated_against_impl = executions in which every program point's fact list (taken from the real checker via an inserted `assert false`) was evaluated in the concrete state",
		Extra:              extra,
	}, []string{
		"E1 grammars only (not arbitrary Wuffs); std/ facts are not evaluated",
		"the reference interpreter implements the documented ideal-integer semantics; it is cross-checked against ConstValue() on every constant-foldable expression",
		"the fact list at a point is read from check.Error.Facts after inserting `assert false` there; truncating the rest of the function does not change it (cross-checked on a sample against full insertion)",
	})
}
