// Package fam enumerates the payload families and reference-encoder settings of C07
// (DESIGN section 4, C07 "Space"). C05 part (b) reuses it for its "valid inputs of C07's
// families" and so must never depend on the server.
package fam

import "fmt"

// P1Alphabet is the alphabet of the exhaustive short payloads.
var P1Alphabet = []byte{0x00, 'a', 0xFF}

// P1Count returns the number of strings over a 3-letter alphabet of length <= maxLen.
func P1Count(maxLen int) int {
	n, p := 0, 1
	for l := 0; l <= maxLen; l++ {
		n += p
		p *= 3
	}
	return n
}

// P1 returns the idx-th string (length-lexicographic order) over alphabet a (3 letters).
func P1(idx int, a []byte) []byte {
	l, p := 0, 1
	for idx >= p {
		idx -= p
		p *= 3
		l++
	}
	out := make([]byte, l)
	for i := l - 1; i >= 0; i-- {
		out[i] = a[idx%3]
		idx /= 3
	}
	return out
}

// P2Patterns are the structured long payload patterns.
var P2Patterns = []string{"zeros", "ff", "cycle2", "cycle256", "lcg", "far", "cycle251", "words", "rand+words", "words+rand"}

// P2LongOnly: patterns whose period does not divide 32768 (so that a window that is stale by a multiple of 32 KiB
// holds DIFFERENT bytes); only used for sizes >= 255.
var P2LongOnly = map[string]bool{"cycle251": true, "words": true, "rand+words": true, "words+rand": true}

// P2MixedSizes are extra sizes for the two mixed patterns only ("rand+words": 4/5 incompressible then word
// salad; "words+rand": 1/5 word salad then incompressible): encoders switch chunk / block kinds inside one
// stream there (LZMA2 uncompressed chunk with dictionary reset followed by an LZMA chunk, deflate stored
// block followed by a Huffman block, ...) -- seeded change C07-5.
var P2MixedSizes = []int{80000, 125000, 200000}

var wordList = []string{"the", "quick", "brown", "fox", "jumps", "over", "lazy", "dog", "wuffs", "deflate", "window", "history", "ring", "buffer", "a", "of", "and", "stream", "decoder", "suspend"}

// P2Sizes lists the structured payload sizes; tier 0 = quick (drops nothing: the big ones are few).
func P2Sizes() []int {
	var s []int
	for n := 0; n <= 40; n++ {
		s = append(s, n)
	}
	for _, r := range [][2]int{{255, 260}, {4095, 4097}, {32766, 32770}, {65534, 65538}, {100000, 100000}} {
		for n := r[0]; n <= r[1]; n++ {
			s = append(s, n)
		}
	}
	return s
}

// P2 builds a structured payload of n bytes.
func P2(pattern string, n int) []byte {
	b := make([]byte, n)
	switch pattern {
	case "zeros":
	case "ff":
		for i := range b {
			b[i] = 0xFF
		}
	case "cycle2":
		for i := range b {
			b[i] = "ab"[i&1]
		}
	case "cycle256":
		for i := range b {
			b[i] = byte(i)
		}
	case "cycle251":
		for i := range b {
			b[i] = byte(i%251) ^ 0x5A
		}
	case "words": // word salad: compressible, many matches at all distances, not periodic
		x := uint32(2463534242)
		for i := 0; i < n; {
			x ^= x << 13
			x ^= x >> 17
			x ^= x << 5
			w := wordList[x%uint32(len(wordList))]
			i += copy(b[i:], w)
			if i < n {
				b[i] = ' '
				i++
			}
		}
	case "rand+words", "words+rand":
		k := n - n/5
		a, c := "lcg", "words"
		if pattern == "words+rand" {
			k, a, c = n/5, "words", "lcg"
		}
		copy(b, P2(a, k))
		copy(b[k:], P2(c, n-k))
	case "lcg":
		x := uint32(12345)
		for i := range b {
			x = x*1664525 + 1013904223
			b[i] = byte(x >> 24)
		}
	case "far":
		// block, filler so that the second copy of the block sits 32768-k bytes (k = n%7) after the first, block
		blk := []byte("The quick brown fox jumps over the lazy dog 0123456789")
		x := uint32(99)
		for i := range b {
			x = x*1103515245 + 12345
			b[i] = byte(x >> 23)
		}
		copy(b, blk)
		at := 32768 - n%7
		if at+len(blk) > n {
			at = n - len(blk)
		}
		if at > 0 {
			copy(b[at:], blk)
		}
	default:
		panic("fam: unknown pattern " + pattern)
	}
	return b
}

// Payload is one payload with a printable description.
type Payload struct {
	Desc  string
	Class string // "P1" or "P2:<pattern>"
	Data  []byte
}

// P1Payloads lists all P1 payloads up to maxLen.
func P1Payloads(maxLen int) []Payload {
	n := P1Count(maxLen)
	out := make([]Payload, n)
	for i := range out {
		d := P1(i, P1Alphabet)
		out[i] = Payload{Desc: fmt.Sprintf("P1:%x", d), Class: "P1", Data: d}
	}
	return out
}

// P2Payloads lists the structured payloads with size <= maxSize.
func P2Payloads(maxSize int) []Payload {
	var out []Payload
	for _, n := range P2Sizes() {
		if n > maxSize {
			continue
		}
		for _, p := range P2Patterns {
			if (n == 0 && p != "zeros") || (P2LongOnly[p] && n < 255) {
				continue
			}
			out = append(out, Payload{Desc: fmt.Sprintf("P2:%s:%d", p, n), Class: "P2:" + p, Data: P2(p, n)})
		}
	}
	for _, n := range P2MixedSizes {
		if n > maxSize {
			continue
		}
		for _, p := range []string{"rand+words", "words+rand"} {
			out = append(out, Payload{Desc: fmt.Sprintf("P2:%s:%d", p, n), Class: "P2:" + p, Data: P2(p, n)})
		}
	}
	return out
}
