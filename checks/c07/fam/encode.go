package fam

import (
	"bytes"
	"compress/flate"
	"compress/gzip"
	"compress/lzw"
	"compress/zlib"
	"fmt"
	"os/exec"
	"strings"
)

// Case is one encoded stream with what it must decode to.
type Case struct {
	Family string      // flate, flate-dictprefix, zlib, gzip, gzip2, lzw, bzip2, xz, lzma
	Pkg    string      // wuffs package that decodes it
	Quirks [][2]uint64 // set_quirk calls needed (lzw literal width)
	Class  string      // abstract shape (family + setting), used in signatures
	Desc   string      // concrete description (setting + payload)
	Data   []byte
	Want   []byte
}

// Setting is one reference-encoder configuration.
type Setting struct {
	Family   string
	Level    int
	Flush    string // "", "each" (one case per flush position 0..n), "all" (flush after every byte)
	Header   int    // gzip: 0 none, 1 name, 2 comment, 3 extra, 4 all three
	LitWidth int    // lzw
	Tool     []string
}

func (s Setting) String() string {
	switch s.Family {
	case "lzw":
		return fmt.Sprintf("lzw/lsb/w%d", s.LitWidth)
	case "bzip2", "xz", "lzma":
		return s.Family + "/" + strings.Join(s.Tool[1:], "")
	}
	t := fmt.Sprintf("%s/level%d", s.Family, s.Level)
	if s.Flush != "" {
		t += "/flush-" + s.Flush
	}
	if s.Header != 0 {
		t += fmt.Sprintf("/hdr%d", s.Header)
	}
	return t
}

// Levels are the compress/flate levels of the design.
var Levels = []int{-2, 0, 1, 2, 5, 9}

// LzwQuirkLiteralWidthPlusOne is std/lzw's QUIRK_LITERAL_WIDTH_PLUS_ONE.
const LzwQuirkLiteralWidthPlusOne = 0x4CEE1800

// Dict is the preset dictionary used by the dictionary settings.
var Dict = []byte("the quick brown fox \x00\x00\x00\x00aaaaaaaa\xff\xff\xff\xffabababab jumps over the lazy dog")

// Enc holds reusable encoder state; one per goroutine.
type Enc struct {
	fwd map[int]*flate.Writer
	fw  map[int]*flate.Writer
	zw  map[int]*zlib.Writer
	gw  map[int]*gzip.Writer
	buf bytes.Buffer
}

func NewEnc() *Enc {
	return &Enc{fw: map[int]*flate.Writer{}, fwd: map[int]*flate.Writer{}, zw: map[int]*zlib.Writer{}, gw: map[int]*gzip.Writer{}}
}

type wf interface {
	Write([]byte) (int, error)
	Flush() error
	Close() error
}

func must(err error) {
	if err != nil {
		panic("fam: reference encoder failed: " + err.Error())
	}
}

func writeWithFlush(w wf, p []byte, flushAt int, all bool) {
	switch {
	case all:
		for i := range p {
			_, err := w.Write(p[i : i+1])
			must(err)
			must(w.Flush())
		}
	case flushAt >= 0:
		_, err := w.Write(p[:flushAt])
		must(err)
		must(w.Flush())
		_, err = w.Write(p[flushAt:])
		must(err)
	default:
		_, err := w.Write(p)
		must(err)
	}
	must(w.Close())
}

func (e *Enc) flate(level int, p []byte, flushAt int, all bool) []byte {
	var out bytes.Buffer
	w := e.fw[level]
	if w == nil {
		var err error
		w, err = flate.NewWriter(&out, level)
		must(err)
		e.fw[level] = w
	} else {
		w.Reset(&out)
	}
	writeWithFlush(w, p, flushAt, all)
	return out.Bytes()
}

func (e *Enc) zlib(level int, p []byte, flushAt int, all bool) []byte {
	var out bytes.Buffer
	w := e.zw[level]
	if w == nil {
		var err error
		w, err = zlib.NewWriterLevel(&out, level)
		must(err)
		e.zw[level] = w
	} else {
		w.Reset(&out)
	}
	writeWithFlush(w, p, flushAt, all)
	return out.Bytes()
}

func (e *Enc) gzip(level int, header int, p []byte, flushAt int, all bool) []byte {
	var out bytes.Buffer
	w := e.gw[level]
	if w == nil {
		var err error
		w, err = gzip.NewWriterLevel(&out, level)
		must(err)
		e.gw[level] = w
	} else {
		w.Reset(&out)
	}
	w.Header = gzip.Header{OS: 255}
	if header == 1 || header == 4 {
		w.Name = "a-file-name.txt"
	}
	if header == 2 || header == 4 {
		w.Comment = "a comment, with some length to it"
	}
	if header == 3 || header == 4 {
		w.Extra = []byte{'A', 'p', 4, 0, 1, 2, 3, 4}
	}
	writeWithFlush(w, p, flushAt, all)
	return out.Bytes()
}

// storedPrefix returns a non-final stored DEFLATE block holding d (len <= 65535).
func storedPrefix(d []byte) []byte {
	n := len(d)
	out := []byte{0x00, byte(n), byte(n >> 8), ^byte(n), ^byte(n >> 8)}
	return append(out, d...)
}

// flushPositions for payload length n under s.Flush.
func flushVariants(s *Setting, n int) (pos []int, all bool) {
	switch s.Flush {
	case "each":
		for i := 0; i <= n; i++ {
			pos = append(pos, i)
		}
		return pos, false
	case "all":
		return []int{-1}, true
	}
	return []int{-1}, false
}

// ToolAvailable reports whether the external tool of a setting is on PATH.
func ToolAvailable(name string) bool {
	_, err := exec.LookPath(name)
	return err == nil
}

func (e *Enc) tool(args []string, p []byte) ([]byte, error) {
	cmd := exec.Command(args[0], args[1:]...)
	cmd.Stdin = bytes.NewReader(p)
	var out, errb bytes.Buffer
	cmd.Stdout, cmd.Stderr = &out, &errb
	if err := cmd.Run(); err != nil {
		return nil, fmt.Errorf("%v: %v: %s", args, err, errb.String())
	}
	return out.Bytes(), nil
}

// Encode produces the cases of setting s for payload p (several for Flush "each").
// An error is returned only for external tools.
func (e *Enc) Encode(s *Setting, pl *Payload) ([]Case, error) {
	p := pl.Data
	class := s.String() + "/" + pl.Class
	var out []Case
	add := func(family, pkg string, data, want []byte, extra string, quirks [][2]uint64) {
		out = append(out, Case{Family: family, Pkg: pkg, Quirks: quirks, Class: class, Desc: s.String() + extra + " " + pl.Desc, Data: data, Want: want})
	}
	switch s.Family {
	case "flate", "zlib", "gzip":
		pos, all := flushVariants(s, len(p))
		for _, fp := range pos {
			extra := ""
			if fp >= 0 {
				extra = fmt.Sprintf("@%d", fp)
			}
			switch s.Family {
			case "flate":
				add("flate", "deflate", e.flate(s.Level, p, fp, all), p, extra, nil)
			case "zlib":
				add("zlib", "zlib", e.zlib(s.Level, p, fp, all), p, extra, nil)
			case "gzip":
				add("gzip", "gzip", e.gzip(s.Level, s.Header, p, fp, all), p, extra, nil)
			}
		}
	case "flate-dictprefix":
		// compress/flate with a preset dictionary; the dictionary is handed to the Wuffs decoder as a leading
		// stored block (the state server has no add_history command), so the expected output is dict + payload.
		var buf bytes.Buffer
		w := e.fwd[s.Level]
		if w == nil {
			var err error
			w, err = flate.NewWriterDict(&buf, s.Level, Dict)
			must(err)
			e.fwd[s.Level] = w
		} else {
			w.Reset(&buf) // keeps the dictionary
		}
		writeWithFlush(w, p, -1, false)
		data := append(storedPrefix(Dict), buf.Bytes()...)
		want := append(append([]byte(nil), Dict...), p...)
		add("flate-dictprefix", "deflate", data, want, "", nil)
	case "gzip2":
		a := e.gzip(s.Level, s.Header, p[:len(p)/2], -1, false)
		a = append([]byte(nil), a...)
		b := e.gzip(s.Level, 0, p[len(p)/2:], -1, false)
		add("gzip2", "gzip", append(a, b...), p, "", nil)
	case "lzw":
		// payload bytes must fit the literal width: fold them.
		q := make([]byte, len(p))
		mask := byte(1<<uint(s.LitWidth) - 1)
		for i, c := range p {
			switch {
			case c == 0xFF:
				q[i] = mask
			case s.LitWidth < 8 && c == 'a':
				q[i] = 1
			default:
				q[i] = c & mask
			}
		}
		var buf bytes.Buffer
		w := lzw.NewWriter(&buf, lzw.LSB, s.LitWidth)
		_, err := w.Write(q)
		must(err)
		must(w.Close())
		add("lzw", "lzw", buf.Bytes(), q, "", [][2]uint64{{LzwQuirkLiteralWidthPlusOne, uint64(s.LitWidth + 1)}})
	case "bzip2", "xz", "lzma":
		data, err := e.tool(s.Tool, p)
		if err != nil {
			return nil, err
		}
		pkg := s.Family
		add(s.Family, pkg, data, p, "", nil)
	default:
		panic("fam: unknown family " + s.Family)
	}
	return out, nil
}

// Settings returns the reference-encoder settings. tools=false leaves out bzip2/xz.
// short=true gives the settings applied to the exhaustive short payloads (P1), which include the
// flush variants; short=false those for the structured payloads (P2).
func Settings(short, thorough bool) []Setting {
	var out []Setting
	for _, l := range Levels {
		out = append(out, Setting{Family: "flate", Level: l})
		out = append(out, Setting{Family: "zlib", Level: l})
		out = append(out, Setting{Family: "gzip", Level: l})
		out = append(out, Setting{Family: "flate-dictprefix", Level: l})
		if short {
			out = append(out, Setting{Family: "flate", Level: l, Flush: "each"})
			out = append(out, Setting{Family: "flate", Level: l, Flush: "all"})
			if l == 0 || l == 5 || thorough {
				out = append(out, Setting{Family: "zlib", Level: l, Flush: "each"})
				out = append(out, Setting{Family: "gzip", Level: l, Flush: "each"})
			}
		} else {
			out = append(out, Setting{Family: "flate", Level: l, Flush: "all"})
		}
	}
	for h := 1; h <= 4; h++ {
		out = append(out, Setting{Family: "gzip", Level: 5, Header: h})
	}
	out = append(out, Setting{Family: "gzip2", Level: 5}, Setting{Family: "gzip2", Level: 0, Header: 4}, Setting{Family: "gzip2", Level: 9, Header: 1})
	for w := 2; w <= 8; w++ {
		out = append(out, Setting{Family: "lzw", LitWidth: w})
	}
	return out
}

// ToolSettings are the settings that need bzip2 / xz on PATH.
func ToolSettings(thorough bool) []Setting {
	var out []Setting
	out = append(out, Setting{Family: "bzip2", Tool: []string{"bzip2", "-1", "-c"}}, Setting{Family: "bzip2", Tool: []string{"bzip2", "-9", "-c"}})
	presets := []string{"-0", "-6"}
	if thorough {
		presets = append(presets, "-9e")
	}
	for _, p := range presets {
		for _, c := range []string{"none", "crc32", "crc64", "sha256"} {
			if !thorough && p != "-0" && c != "crc64" {
				continue // quick: all four checks at preset 0, crc64 (xz's default) at preset 6
			}
			out = append(out, Setting{Family: "xz", Tool: []string{"xz", "--format=xz", p, "--check=" + c, "-T1", "-c"}})
		}
		out = append(out, Setting{Family: "lzma", Tool: []string{"xz", "--format=lzma", p, "-c"}})
	}
	// filter chains: delta and x86 BCJ in front of LZMA2
	out = append(out, Setting{Family: "xz", Tool: []string{"xz", "--format=xz", "--delta=dist=3", "--lzma2=preset=0", "-T1", "-c"}})
	if thorough {
		out = append(out, Setting{Family: "xz", Tool: []string{"xz", "--format=xz", "--x86", "--lzma2=preset=1", "--check=sha256", "-T1", "-c"}})
	}
	return out
}
