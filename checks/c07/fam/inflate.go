package fam

import "errors"

// DeflateStats describes what a raw DEFLATE stream actually contains (vacuity guard).
type DeflateStats struct {
	Stored, Fixed, Dynamic int
	EmptyStored            int
	MaxDist                int
	MaxLen                 int
	MaxCodeLen             int
	Matches                int
	Literals               int
	OutLen                 int
	Consumed               int // bytes of the stream used
}

type bitr struct {
	b    []byte
	pos  int
	bits uint32
	n    uint
	err  bool
}

func (r *bitr) need(k uint) {
	for r.n < k {
		if r.pos >= len(r.b) {
			r.err = true
			r.bits |= 0
			r.n += 8
			continue
		}
		r.bits |= uint32(r.b[r.pos]) << r.n
		r.pos++
		r.n += 8
	}
}

func (r *bitr) get(k uint) uint32 {
	if k == 0 {
		return 0
	}
	r.need(k)
	v := r.bits & (1<<k - 1)
	r.bits >>= k
	r.n -= k
	return v
}

type huff struct {
	count [16]int
	sym   []int
	max   int
}

func mkhuff(lens []int) (*huff, bool) {
	h := &huff{sym: make([]int, len(lens))}
	for _, l := range lens {
		h.count[l]++
		if l > h.max {
			h.max = l
		}
	}
	h.count[0] = 0
	var offs [16]int
	for i := 1; i < 16; i++ {
		offs[i] = offs[i-1] + h.count[i-1]
	}
	for s, l := range lens {
		if l != 0 {
			h.sym[offs[l]] = s
			offs[l]++
		}
	}
	return h, true
}

func (h *huff) decode(r *bitr) int {
	code, first, index := 0, 0, 0
	for l := 1; l < 16; l++ {
		code |= int(r.get(1))
		c := h.count[l]
		if code-c < first {
			return h.sym[index+(code-first)]
		}
		index += c
		first += c
		first <<= 1
		code <<= 1
		if r.err {
			return -1
		}
	}
	return -1
}

var lbase = []int{3, 4, 5, 6, 7, 8, 9, 10, 11, 13, 15, 17, 19, 23, 27, 31, 35, 43, 51, 59, 67, 83, 99, 115, 131, 163, 195, 227, 258}
var lext = []uint{0, 0, 0, 0, 0, 0, 0, 0, 1, 1, 1, 1, 2, 2, 2, 2, 3, 3, 3, 3, 4, 4, 4, 4, 5, 5, 5, 5, 0}
var dbase = []int{1, 2, 3, 4, 5, 7, 9, 13, 17, 25, 33, 49, 65, 97, 129, 193, 257, 385, 513, 769, 1025, 1537, 2049, 3073, 4097, 6145, 8193, 12289, 16385, 24577}
var dext = []uint{0, 0, 0, 0, 1, 1, 2, 2, 3, 3, 4, 4, 5, 5, 6, 6, 7, 7, 8, 8, 9, 9, 10, 10, 11, 11, 12, 12, 13, 13}

// AnalyzeDeflate walks a raw DEFLATE stream (no output is kept beyond its length).
func AnalyzeDeflate(b []byte) (DeflateStats, error) {
	var st DeflateStats
	r := &bitr{b: b}
	var fixedL, fixedD *huff
	for {
		final := r.get(1)
		typ := r.get(2)
		if r.err {
			return st, errors.New("truncated")
		}
		switch typ {
		case 0:
			r.bits, r.n = 0, 0
			if r.pos+4 > len(b) {
				return st, errors.New("truncated stored header")
			}
			n := int(b[r.pos]) | int(b[r.pos+1])<<8
			r.pos += 4
			if r.pos+n > len(b) {
				return st, errors.New("truncated stored block")
			}
			r.pos += n
			st.OutLen += n
			st.Stored++
			if n == 0 {
				st.EmptyStored++
			}
		case 1, 2:
			var hl, hd *huff
			if typ == 1 {
				st.Fixed++
				if fixedL == nil {
					l := make([]int, 288)
					for i := range l {
						switch {
						case i < 144:
							l[i] = 8
						case i < 256:
							l[i] = 9
						case i < 280:
							l[i] = 7
						default:
							l[i] = 8
						}
					}
					fixedL, _ = mkhuff(l)
					d := make([]int, 30)
					for i := range d {
						d[i] = 5
					}
					fixedD, _ = mkhuff(d)
				}
				hl, hd = fixedL, fixedD
			} else {
				st.Dynamic++
				nl := int(r.get(5)) + 257
				nd := int(r.get(5)) + 1
				nc := int(r.get(4)) + 4
				order := []int{16, 17, 18, 0, 8, 7, 9, 6, 10, 5, 11, 4, 12, 3, 13, 2, 14, 1, 15}
				cl := make([]int, 19)
				for i := 0; i < nc; i++ {
					cl[order[i]] = int(r.get(3))
				}
				hc, _ := mkhuff(cl)
				lens := make([]int, nl+nd)
				for i := 0; i < nl+nd; {
					s := hc.decode(r)
					if s < 0 || r.err {
						return st, errors.New("bad code length code")
					}
					switch {
					case s < 16:
						lens[i] = s
						i++
					default:
						prev, rep := 0, 0
						switch s {
						case 16:
							if i == 0 {
								return st, errors.New("repeat without previous")
							}
							prev = lens[i-1]
							rep = 3 + int(r.get(2))
						case 17:
							rep = 3 + int(r.get(3))
						default:
							rep = 11 + int(r.get(7))
						}
						if i+rep > nl+nd {
							return st, errors.New("repeat overflow")
						}
						for ; rep > 0; rep-- {
							lens[i] = prev
							i++
						}
					}
				}
				hl, _ = mkhuff(lens[:nl])
				hd, _ = mkhuff(lens[nl:])
				if hl.max > st.MaxCodeLen {
					st.MaxCodeLen = hl.max
				}
				if hd.max > st.MaxCodeLen {
					st.MaxCodeLen = hd.max
				}
			}
			for {
				s := hl.decode(r)
				if s < 0 || r.err {
					return st, errors.New("bad literal/length code")
				}
				if s < 256 {
					st.Literals++
					st.OutLen++
					continue
				}
				if s == 256 {
					break
				}
				s -= 257
				if s >= 29 {
					return st, errors.New("bad length symbol")
				}
				l := lbase[s] + int(r.get(lext[s]))
				ds := hd.decode(r)
				if ds < 0 || ds >= 30 || r.err {
					return st, errors.New("bad distance code")
				}
				d := dbase[ds] + int(r.get(dext[ds]))
				if d > st.OutLen {
					return st, errors.New("distance too far")
				}
				st.Matches++
				if d > st.MaxDist {
					st.MaxDist = d
				}
				if l > st.MaxLen {
					st.MaxLen = l
				}
				st.OutLen += l
			}
		default:
			return st, errors.New("bad block type")
		}
		if final == 1 {
			break
		}
	}
	if r.err {
		return st, errors.New("truncated")
	}
	st.Consumed = r.pos - int(r.n/8)
	return st, nil
}

// GzipFlagsAndBody returns the FLG byte of the first member and the offset of its DEFLATE body.
func GzipFlagsAndBody(b []byte) (flg byte, off int, ok bool) {
	if len(b) < 10 || b[0] != 0x1f || b[1] != 0x8b {
		return 0, 0, false
	}
	flg = b[3]
	off = 10
	if flg&4 != 0 {
		if off+2 > len(b) {
			return
		}
		off += 2 + (int(b[off]) | int(b[off+1])<<8)
	}
	for _, bit := range []byte{8, 16} {
		if flg&bit != 0 {
			for off < len(b) && b[off] != 0 {
				off++
			}
			off++
		}
	}
	if flg&2 != 0 {
		off += 2
	}
	return flg, off, off <= len(b)
}
