package fam

import (
	"bytes"
	"compress/zlib"
	"encoding/binary"
	"fmt"
	"image"
	"image/color"
	"image/gif"
	"image/png"
	"io"
	"sync"
)

// Wuffs pixel formats used as decode destinations.
const (
	PixBGRANonpremul       = 0x81008888
	PixRGBANonpremul       = 0xA1008888
	PixBGRANonpremul4x16LE = 0x8100BBBB
)

// RefFrame is what one frame must look like.
type RefFrame struct {
	Bounds   image.Rectangle
	Canvas   []byte // whole pixel buffer (W*H*4, BGRA non-premultiplied) after this frame, blend SRC onto a zeroed buffer
	Canvas16 []byte // same as BGRA_NONPREMUL_4X16LE (W*H*8); nil if not applicable
	Duration uint64 // flicks; ^0 = do not compare
	Disposal uint64 // wuffs animation disposal; ^0 = do not compare
}

// ImageCase is one encoded image with its expected decoding.
type ImageCase struct {
	Family string // png, gif
	Pkg    string
	Class  string
	Desc   string
	Data   []byte
	W, H   int
	Frames []RefFrame
	Info   map[string]string // vacuity facts (colour type, bit depth, filters used, ...)
}

func lcgFill(seed uint32) func() byte {
	x := seed
	return func() byte {
		x = x*1664525 + 1013904223
		return byte(x >> 24)
	}
}

// pix returns channel c (0..3) of pixel (x,y) for a pattern; deterministic.
func patternValue(pattern string, x, y, c int, rnd func() byte) uint16 {
	switch pattern {
	case "const":
		return uint16(0x4080 + c*0x1111)
	case "smooth": // slowly varying, never wraps for sizes up to 64x48 (JPEG: keeps chroma upsampling differences small)
		return uint16(x*2+y+c*30) << 8
	case "grad":
		return uint16((x*29+c*50)&0xFF)<<8 | uint16((y*31+x)&0xFF)
	case "rows":
		return uint16((x*x*7+c*33)&0xFF)<<8 | uint16(x&0xFF)
	case "diag":
		return uint16((x*7+y*13+x*y+c*5)&0xFF)<<8 | uint16((x+y)&0xFF)
	case "noise":
		return uint16(rnd())<<8 | uint16(rnd())
	}
	panic("fam: unknown pattern")
}

// PNGKinds are the Go image types that make image/png write each colour type / depth.
var PNGKinds = []string{"gray8", "gray16", "rgb8", "rgba8", "nrgba8", "rgb16", "nrgba16", "rgba16",
	"pal2", "pal3", "pal4", "pal5", "pal16", "pal17", "pal256", "pal4t", "pal256t"}

var PNGPatterns = []string{"const", "grad", "rows", "diag", "noise"}

func palette(n int, transparent bool) color.Palette {
	p := make(color.Palette, n)
	for i := range p {
		a := uint8(255)
		if transparent && i%3 == 1 {
			a = uint8(i * 40)
		}
		p[i] = color.NRGBA{uint8(i * 37), uint8(i*91 + 5), uint8(255 - i), a}
	}
	return p
}

// MakeImage builds a w x h image of the given kind and pattern.
func MakeImage(kind, pattern string, w, h int) image.Image {
	r := image.Rect(0, 0, w, h)
	rnd := lcgFill(uint32(w*131 + h*7 + len(kind)))
	alpha := func(x, y int) uint16 {
		switch (x + 2*y) % 4 {
		case 0:
			return 0xFFFF
		case 1:
			return 0x8000 + uint16(x*300)
		case 2:
			return 0
		}
		return 0x0101 * uint16((x*50+y*20)&0xFF)
	}
	switch kind {
	case "gray8":
		m := image.NewGray(r)
		for y := 0; y < h; y++ {
			for x := 0; x < w; x++ {
				m.Pix[y*m.Stride+x] = uint8(patternValue(pattern, x, y, 0, rnd) >> 8)
			}
		}
		return m
	case "gray16":
		m := image.NewGray16(r)
		for y := 0; y < h; y++ {
			for x := 0; x < w; x++ {
				m.SetGray16(x, y, color.Gray16{Y: patternValue(pattern, x, y, 0, rnd)})
			}
		}
		return m
	case "rgb8", "nrgba8":
		m := image.NewNRGBA(r)
		for y := 0; y < h; y++ {
			for x := 0; x < w; x++ {
				a := uint8(255)
				if kind == "nrgba8" {
					a = uint8(alpha(x, y) >> 8)
				}
				m.SetNRGBA(x, y, color.NRGBA{uint8(patternValue(pattern, x, y, 0, rnd) >> 8), uint8(patternValue(pattern, x, y, 1, rnd) >> 8),
					uint8(patternValue(pattern, x, y, 2, rnd) >> 8), a})
			}
		}
		return m
	case "rgba8":
		// premultiplied source: image/png converts it to NRGBA (lossy); the reference is Go's decode of the file.
		m := image.NewRGBA(r)
		for y := 0; y < h; y++ {
			for x := 0; x < w; x++ {
				a := uint32(alpha(x, y) >> 8)
				c := func(i int) uint8 { return uint8(uint32(patternValue(pattern, x, y, i, rnd)>>8) * a / 255) }
				m.SetRGBA(x, y, color.RGBA{c(0), c(1), c(2), uint8(a)})
			}
		}
		return m
	case "rgb16", "nrgba16":
		m := image.NewNRGBA64(r)
		for y := 0; y < h; y++ {
			for x := 0; x < w; x++ {
				a := uint16(0xFFFF)
				if kind == "nrgba16" {
					a = alpha(x, y)
				}
				m.SetNRGBA64(x, y, color.NRGBA64{patternValue(pattern, x, y, 0, rnd), patternValue(pattern, x, y, 1, rnd), patternValue(pattern, x, y, 2, rnd), a})
			}
		}
		return m
	case "rgba16":
		m := image.NewRGBA64(r)
		for y := 0; y < h; y++ {
			for x := 0; x < w; x++ {
				a := uint32(alpha(x, y))
				c := func(i int) uint16 { return uint16(uint32(patternValue(pattern, x, y, i, rnd)) * a / 0xFFFF) }
				m.SetRGBA64(x, y, color.RGBA64{c(0), c(1), c(2), uint16(a)})
			}
		}
		return m
	}
	var n int
	tr := false
	switch kind {
	case "pal2":
		n = 2
	case "pal3":
		n = 3
	case "pal4":
		n = 4
	case "pal5":
		n = 5
	case "pal16":
		n = 16
	case "pal17":
		n = 17
	case "pal256":
		n = 256
	case "pal4t":
		n, tr = 4, true
	case "pal256t":
		n, tr = 256, true
	default:
		panic("fam: unknown image kind " + kind)
	}
	m := image.NewPaletted(r, palette(n, tr))
	for y := 0; y < h; y++ {
		for x := 0; x < w; x++ {
			m.Pix[y*m.Stride+x] = uint8(int(patternValue(pattern, x, y, 0, rnd)>>8) % n)
		}
	}
	return m
}

// ToBGRA8 converts a decoded Go image (as returned by image/png, image/gif) to BGRA non-premultiplied
// 8 bits without going through premultiplied colour. ok=false for image types it does not know.
func ToBGRA8(img image.Image) ([]byte, bool) {
	b := img.Bounds()
	w, h := b.Dx(), b.Dy()
	out := make([]byte, w*h*4)
	put := func(i int, r, g, bl, a uint8) { out[i], out[i+1], out[i+2], out[i+3] = bl, g, r, a }
	for y := 0; y < h; y++ {
		for x := 0; x < w; x++ {
			i := (y*w + x) * 4
			X, Y := b.Min.X+x, b.Min.Y+y
			switch m := img.(type) {
			case *image.Gray:
				v := m.GrayAt(X, Y).Y
				put(i, v, v, v, 255)
			case *image.Gray16:
				v := uint8(m.Gray16At(X, Y).Y >> 8)
				put(i, v, v, v, 255)
			case *image.RGBA:
				c := m.RGBAAt(X, Y)
				if c.A != 255 {
					return nil, false
				}
				put(i, c.R, c.G, c.B, c.A)
			case *image.NRGBA:
				c := m.NRGBAAt(X, Y)
				put(i, c.R, c.G, c.B, c.A)
			case *image.RGBA64:
				c := m.RGBA64At(X, Y)
				if c.A != 0xFFFF {
					return nil, false
				}
				put(i, uint8(c.R>>8), uint8(c.G>>8), uint8(c.B>>8), 255)
			case *image.NRGBA64:
				c := m.NRGBA64At(X, Y)
				put(i, uint8(c.R>>8), uint8(c.G>>8), uint8(c.B>>8), uint8(c.A>>8))
			case *image.Paletted:
				switch c := m.Palette[m.ColorIndexAt(X, Y)].(type) {
				case color.RGBA:
					if c.A != 255 && !(c.A == 0 && c.R == 0 && c.G == 0 && c.B == 0) {
						return nil, false
					}
					put(i, c.R, c.G, c.B, c.A)
				case color.NRGBA:
					put(i, c.R, c.G, c.B, c.A)
				default:
					return nil, false
				}
			default:
				return nil, false
			}
		}
	}
	return out, true
}

// ToBGRA16 converts to BGRA_NONPREMUL_4X16LE.
func ToBGRA16(img image.Image) ([]byte, bool) {
	b := img.Bounds()
	w, h := b.Dx(), b.Dy()
	out := make([]byte, w*h*8)
	put := func(i int, r, g, bl, a uint16) {
		binary.LittleEndian.PutUint16(out[i:], bl)
		binary.LittleEndian.PutUint16(out[i+2:], g)
		binary.LittleEndian.PutUint16(out[i+4:], r)
		binary.LittleEndian.PutUint16(out[i+6:], a)
	}
	for y := 0; y < h; y++ {
		for x := 0; x < w; x++ {
			i := (y*w + x) * 8
			X, Y := b.Min.X+x, b.Min.Y+y
			switch m := img.(type) {
			case *image.Gray16:
				v := m.Gray16At(X, Y).Y
				put(i, v, v, v, 0xFFFF)
			case *image.RGBA64:
				c := m.RGBA64At(X, Y)
				if c.A != 0xFFFF {
					return nil, false
				}
				put(i, c.R, c.G, c.B, c.A)
			case *image.NRGBA64:
				c := m.NRGBA64At(X, Y)
				put(i, c.R, c.G, c.B, c.A)
			default:
				return nil, false
			}
		}
	}
	return out, true
}

// PNGInfo extracts colour type, bit depth, interlace and the histogram of filter bytes of a PNG file.
func PNGInfo(data []byte) map[string]string {
	info := map[string]string{}
	if len(data) < 33 {
		return info
	}
	var idat []byte
	w, h, depth, ct := 0, 0, 0, 0
	for p := 8; p+12 <= len(data); {
		n := int(binary.BigEndian.Uint32(data[p:]))
		typ := string(data[p+4 : p+8])
		if p+12+n > len(data) {
			break
		}
		body := data[p+8 : p+8+n]
		switch typ {
		case "IHDR":
			w, h = int(binary.BigEndian.Uint32(body)), int(binary.BigEndian.Uint32(body[4:]))
			depth, ct = int(body[8]), int(body[9])
			info["colour"] = fmt.Sprintf("ct%d/depth%d", ct, depth)
			info["interlace"] = fmt.Sprint(body[12])
		case "IDAT":
			idat = append(idat, body...)
		case "tRNS":
			info["trns"] = "1"
		}
		p += 12 + n
	}
	zr, err := zlib.NewReader(bytes.NewReader(idat))
	if err != nil {
		return info
	}
	raw, _ := io.ReadAll(zr)
	if info["interlace"] == "0" && h > 0 {
		ch := map[int]int{0: 1, 2: 3, 3: 1, 4: 2, 6: 4}[ct]
		stride := 1 + (w*ch*depth+7)/8
		filters := ""
		seen := map[byte]bool{}
		for y := 0; y < h && (y+1)*stride <= len(raw); y++ {
			f := raw[y*stride]
			if !seen[f] {
				seen[f] = true
				filters += fmt.Sprint(f)
			}
		}
		info["filters"] = filters
	}
	if len(idat) > 2 {
		if st, err := AnalyzeDeflate(idat[2:]); err == nil {
			info["deflate"] = fmt.Sprintf("stored%d/fixed%d/dynamic%d", btoi(st.Stored > 0), btoi(st.Fixed > 0), btoi(st.Dynamic > 0))
		}
	}
	return info
}

func btoi(b bool) int {
	if b {
		return 1
	}
	return 0
}

// PNGLevels are the image/png compression levels.
var PNGLevels = []png.CompressionLevel{png.DefaultCompression, png.NoCompression, png.BestSpeed, png.BestCompression}

// pngBufPool lets image/png reuse its zlib writers (a compress/flate writer is a ~650 KiB object; allocating one
// per encoded image makes the garbage collector the bottleneck of the image phase).
type pngBufPool struct {
	mu   sync.Mutex
	free []*png.EncoderBuffer
}

func (p *pngBufPool) Get() *png.EncoderBuffer {
	p.mu.Lock()
	defer p.mu.Unlock()
	if n := len(p.free); n > 0 {
		b := p.free[n-1]
		p.free = p.free[:n-1]
		return b
	}
	return nil
}

func (p *pngBufPool) Put(b *png.EncoderBuffer) {
	p.mu.Lock()
	p.free = append(p.free, b)
	p.mu.Unlock()
}

var pngPools sync.Map // compression level -> *pngBufPool (image/png rebuilds the zlib writer when the level changes)

func pngPoolFor(level png.CompressionLevel) *pngBufPool {
	if p, ok := pngPools.Load(level); ok {
		return p.(*pngBufPool)
	}
	p, _ := pngPools.LoadOrStore(level, &pngBufPool{})
	return p.(*pngBufPool)
}

// PNGCase encodes one image with image/png and derives the expected pixels from image/png's own decode.
func PNGCase(kind, pattern string, w, h int, level png.CompressionLevel) (*ImageCase, error) {
	img := MakeImage(kind, pattern, w, h)
	var buf bytes.Buffer
	enc := png.Encoder{CompressionLevel: level, BufferPool: pngPoolFor(level)}
	if err := enc.Encode(&buf, img); err != nil {
		return nil, err
	}
	dec, err := png.Decode(bytes.NewReader(buf.Bytes()))
	if err != nil {
		return nil, fmt.Errorf("image/png cannot decode its own output: %v", err)
	}
	px, ok := ToBGRA8(dec)
	if !ok {
		return nil, fmt.Errorf("unexpected decoded image type %T", dec)
	}
	px16, _ := ToBGRA16(dec)
	c := &ImageCase{Family: "png", Pkg: "png", Class: fmt.Sprintf("png/%s/level%d", kind, int(level)),
		Desc: fmt.Sprintf("png %s %s %dx%d level=%d", kind, pattern, w, h, int(level)), Data: buf.Bytes(), W: w, H: h,
		Frames: []RefFrame{{Bounds: image.Rect(0, 0, w, h), Canvas: px, Canvas16: px16, Duration: ^uint64(0), Disposal: ^uint64(0)}}}
	c.Info = PNGInfo(c.Data)
	return c, nil
}

// GIFSpec describes a GIF to build.
type GIFSpec struct {
	W, H      int
	PalSize   int
	Frames    int
	LocalPal  bool // frames after the first use their own palette
	Transp    bool // palette entry 1 is transparent
	SubRects  bool // frames after the first cover a sub-rectangle
	Disposals []byte
	Pattern   string
}

func (s GIFSpec) String() string {
	return fmt.Sprintf("gif %dx%d pal%d frames%d local=%v transp=%v sub=%v disp=%v %s", s.W, s.H, s.PalSize, s.Frames, s.LocalPal, s.Transp, s.SubRects, s.Disposals, s.Pattern)
}

func gifPalette(n, salt int, transp bool) color.Palette {
	p := make(color.Palette, n)
	for i := range p {
		p[i] = color.RGBA{uint8(i*37 + salt), uint8(i*91 + 5), uint8(255 - i - salt), 255}
	}
	if transp && n > 1 {
		p[1] = color.RGBA{}
	}
	return p
}

// FlicksPerCentisecond: 1 flick = 1/705600000 s.
const FlicksPerCentisecond = 7056000

// GIFCase encodes with image/gif and derives the expectation from image/gif's DecodeAll.
func GIFCase(s GIFSpec) (*ImageCase, error) {
	g := &gif.GIF{LoopCount: 0}
	rnd := lcgFill(uint32(s.W*31 + s.H*17 + s.PalSize))
	for f := 0; f < s.Frames; f++ {
		r := image.Rect(0, 0, s.W, s.H)
		if s.SubRects && f > 0 {
			r = image.Rect(min(f, s.W-1), min(f/2, s.H-1), s.W-(f+1)%2, s.H)
			if r.Empty() {
				r = image.Rect(0, 0, s.W, s.H)
			}
		}
		salt := 0
		if s.LocalPal && f > 0 {
			salt = f * 11
		}
		m := image.NewPaletted(r, gifPalette(s.PalSize, salt, s.Transp))
		for y := r.Min.Y; y < r.Max.Y; y++ {
			for x := r.Min.X; x < r.Max.X; x++ {
				m.SetColorIndex(x, y, uint8(int(patternValue(s.Pattern, x+f, y, f, rnd)>>8)%s.PalSize))
			}
		}
		g.Image = append(g.Image, m)
		g.Delay = append(g.Delay, f*3+1)
		d := byte(0)
		if len(s.Disposals) > 0 {
			d = s.Disposals[f%len(s.Disposals)]
		}
		g.Disposal = append(g.Disposal, d)
	}
	g.Config = image.Config{ColorModel: gifPalette(s.PalSize, 0, s.Transp), Width: s.W, Height: s.H}
	var buf bytes.Buffer
	if err := gif.EncodeAll(&buf, g); err != nil {
		return nil, err
	}
	dec, err := gif.DecodeAll(bytes.NewReader(buf.Bytes()))
	if err != nil {
		return nil, fmt.Errorf("image/gif cannot decode its own output: %v", err)
	}
	c := &ImageCase{Family: "gif", Pkg: "gif", Class: fmt.Sprintf("gif/pal%d/frames%d/local%v/transp%v/sub%v", s.PalSize, s.Frames, s.LocalPal, s.Transp, s.SubRects),
		Desc: s.String(), Data: buf.Bytes(), W: dec.Config.Width, H: dec.Config.Height, Info: map[string]string{}}
	canvas := make([]byte, c.W*c.H*4)
	for i, m := range dec.Image {
		px, ok := ToBGRA8(m)
		if !ok {
			return nil, fmt.Errorf("unexpected palette colour type in image/gif's decode")
		}
		r := m.Bounds()
		for y := r.Min.Y; y < r.Max.Y; y++ {
			for x := r.Min.X; x < r.Max.X; x++ {
				if x < 0 || y < 0 || x >= c.W || y >= c.H {
					continue
				}
				copy(canvas[(y*c.W+x)*4:], px[((y-r.Min.Y)*r.Dx()+(x-r.Min.X))*4:][:4])
			}
		}
		disp := ^uint64(0)
		switch dec.Disposal[i] {
		case 0, 1:
			disp = 0
		case 2:
			disp = 1
		case 3:
			disp = 2
		}
		c.Frames = append(c.Frames, RefFrame{Bounds: r, Canvas: append([]byte(nil), canvas...), Duration: uint64(dec.Delay[i]) * FlicksPerCentisecond, Disposal: disp})
	}
	c.Info["frames"] = fmt.Sprint(len(dec.Image))
	return c, nil
}
