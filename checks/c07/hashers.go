package main

import (
	"crypto/sha256"
	"encoding/binary"
	"encoding/hex"
	"fmt"
	"hash/adler32"
	"hash/crc32"
	"hash/crc64"

	"verif/checks/c07/drv"
	"verif/checks/c07/fam"
	"verif/internal/cserve"
)

type hasher struct {
	pkg string
	ref func(b []byte) [4]uint64
}

var crc64ECMA = crc64.MakeTable(crc64.ECMA)

var hasherList = []hasher{
	{"crc32", func(b []byte) [4]uint64 { return [4]uint64{uint64(crc32.ChecksumIEEE(b))} }},
	{"adler32", func(b []byte) [4]uint64 { return [4]uint64{uint64(adler32.Checksum(b))} }},
	{"crc64", func(b []byte) [4]uint64 { return [4]uint64{crc64.Checksum(b, crc64ECMA)} }},
	{"sha256", func(b []byte) [4]uint64 {
		d := sha256.Sum256(b)
		return [4]uint64{binary.BigEndian.Uint64(d[24:]), binary.BigEndian.Uint64(d[16:]), binary.BigEndian.Uint64(d[8:]), binary.BigEndian.Uint64(d[0:])}
	}},
}

type hashWitness struct {
	Kind    string `json:"kind"` // "hash"
	Variant string `json:"variant"`
	Pkg     string `json:"pkg"`
	DataHex string `json:"data_hex"`
	DataLen int    `json:"data_len"`
	Desc    string `json:"desc"`
	Ends    []int  `json:"part_ends"`
	Mode    int    `json:"mode"` // 0 update!, 1 update_uNN!, 2 alternating
	Pad     int    `json:"pad"`
	Detail  string `json:"detail"`
}

// partition = ascending end offsets; the last is len(data).
type scenario struct {
	ends []int
	mode int
	pad  int
	ncmd int
}

// HashJob runs a list of partitions of one payload on one hasher.
type HashJob struct {
	h       *hasher
	data    []byte
	desc    string
	next    func() (scenario, bool) // partition enumerator
	refAt   func(n int) [4]uint64
	variant string
	e       *env
	l       *local
	cur     []scenario
	dead    bool
	redo    bool
}

// Restart: the batch in flight was lost with the server; it is issued again.
func (j *HashJob) Restart() { j.redo = len(j.cur) > 0 }

func (j *HashJob) Crashed(ce *cserve.CrashError, idx int) {
	j.dead = true
	sc := scenario{}
	at := 0
	for _, s := range j.cur {
		if idx < at+s.ncmd {
			sc = s
			break
		}
		at += s.ncmd
	}
	j.e.r.Violation(fmt.Sprintf("%s:crash:%s", j.h.pkg, shape(len(j.data), sc)), fmt.Sprintf("wuffs %s on %s: %s", j.h.pkg, j.desc, ce.Summary()),
		hashWitness{Kind: "hash", Variant: j.variant, Pkg: j.h.pkg, DataHex: hex.EncodeToString(clip(j.data, 1<<17)), DataLen: len(j.data), Desc: j.desc, Ends: sc.ends, Mode: sc.mode, Pad: sc.pad, Detail: ce.Error()})
}

func shape(n int, s scenario) string {
	size := "len<=10"
	switch {
	case n > 5552:
		size = "len>5552"
	case n > 64:
		size = "len>64"
	case n > 10:
		size = "len>10"
	}
	return fmt.Sprintf("%s/parts%s/mode%d", size, few(len(s.ends)), s.mode)
}

func scenarioCmds(slot uint32, pkg string, data []byte, s *scenario) []cserve.Cmd {
	cmds := []cserve.Cmd{cserve.New(slot, pkg, cserve.NewOpts{})}
	prev := 0
	for i, e := range s.ends {
		var c cserve.Cmd
		val := s.mode == 1 || (s.mode == 2 && i%2 == 1)
		if val {
			c = cserve.UpdateVal(slot, data[prev:e])
		} else {
			c = cserve.Update(slot, data[prev:e])
		}
		if i == 0 {
			c.A0 = uint64(s.pad)
		}
		cmds = append(cmds, c)
		prev = e
	}
	cmds = append(cmds, cserve.Checksum(slot))
	s.ncmd = len(cmds)
	return cmds
}

func (j *HashJob) Next(slot uint32, prev []cserve.Result) []cserve.Cmd {
	if j.dead {
		return nil
	}
	if j.redo {
		j.redo = false
		var cmds []cserve.Cmd
		for i := range j.cur {
			cmds = append(cmds, scenarioCmds(slot, j.h.pkg, j.data, &j.cur[i])...)
		}
		return cmds
	}
	// judge the previous batch
	at := 0
	for _, s := range j.cur {
		res := prev[at : at+s.ncmd]
		at += s.ncmd
		j.l.evals++
		bad := ""
		for i, e := range s.ends {
			r := &res[1+i]
			val := s.mode == 1 || (s.mode == 2 && i%2 == 1)
			if r.Err != "" {
				bad = "server refusal: " + r.Err
				break
			}
			if r.Contract&cserve.CSrcBytesChanged != 0 {
				bad = fmt.Sprintf("update call %d modified its input slice", i)
				break
			}
			if val {
				if want := j.refAt(e); r.V != want {
					bad = fmt.Sprintf("update_uNN! call %d (bytes [..%d)) returned %x, reference %x", i, e, r.V, want)
					break
				}
			}
		}
		if bad == "" {
			fin := &res[len(res)-1]
			if want := j.refAt(len(j.data)); fin.V != want {
				bad = fmt.Sprintf("checksum after %d update calls = %x, reference %x", len(s.ends), fin.V, want)
			}
		}
		if bad != "" {
			j.e.r.Violation(fmt.Sprintf("%s:value:%s", j.h.pkg, shape(len(j.data), s)), fmt.Sprintf("wuffs %s on %s split at %v (mode %d, pad %d): %s", j.h.pkg, j.desc, s.ends, s.mode, s.pad, bad),
				hashWitness{Kind: "hash", Variant: j.variant, Pkg: j.h.pkg, DataHex: hex.EncodeToString(clip(j.data, 1<<17)), DataLen: len(j.data), Desc: j.desc, Ends: s.ends, Mode: s.mode, Pad: s.pad, Detail: bad})
		} else if len(s.ends) >= 2 && len(j.data) >= 2 && j.variant == cserve.Plain {
			j.l.cnt["hasher_partitions_verified(>=2 parts)"]++
		}
		j.l.h("hasher_parts", j.h.pkg+":"+few(len(s.ends)))
	}
	j.cur = j.cur[:0]
	var cmds []cserve.Cmd
	for len(cmds) < 3000 {
		s, ok := j.next()
		if !ok {
			break
		}
		cmds = append(cmds, scenarioCmds(slot, j.h.pkg, j.data, &s)...)
		j.cur = append(j.cur, s)
	}
	return cmds
}

// partitions enumerates the scenarios for a payload of length n.
func partitions(n int, full bool, asanSubset bool) func() (scenario, bool) {
	var list []scenario
	add := func(ends []int, modes ...int) {
		for _, m := range modes {
			list = append(list, scenario{ends: ends, mode: m})
		}
	}
	if asanSubset {
		add([]int{n}, 0, 1)
		for i := 0; i <= n; i++ {
			add([]int{i, n}, i%2)
		}
	} else if n <= 10 {
		if n == 0 {
			add([]int{0}, 0, 1)
			add([]int{0, 0}, 2)
		}
		for mask := 0; n > 0 && mask < 1<<(n-1); mask++ {
			var ends []int
			for i := 1; i < n; i++ {
				if mask&(1<<(i-1)) != 0 {
					ends = append(ends, i)
				}
			}
			ends = append(ends, n)
			add(ends, 0, 1, 2)
		}
		// empty slices at the ends
		add([]int{0, n}, 2)
		add([]int{n, n}, 2)
	} else {
		add([]int{n}, 0, 1)
		for i := 0; i <= n; i++ {
			add([]int{i, n}, 0, 1)
		}
		if full {
			for i := 1; i < n; i++ {
				for k := i + 1; k < n; k++ {
					add([]int{i, k, n}, (i+k)%2, 2)
				}
			}
		}
	}
	idx := 0
	return func() (scenario, bool) {
		if idx >= len(list) {
			return scenario{}, false
		}
		s := list[idx]
		idx++
		return s, true
	}
}

func hashers(e *env, variant string, long bool) {
	r := e.r
	p1max, patMax := 6, 48
	if r.Thorough() {
		p1max, patMax = 8, 200
	}
	type hp struct {
		data []byte
		desc string
		big  bool
		two  bool // one-shot and 2-part partitions only
	}
	var payloads []hp
	seen := map[uint64]bool{}
	addP := func(d []byte, desc string, big bool) {
		k := fnv(d)
		if seen[k] {
			return
		}
		seen[k] = true
		payloads = append(payloads, hp{data: d, desc: desc, big: big})
	}
	for _, p := range fam.P1Payloads(p1max) {
		if !long {
			addP(p.Data, p.Desc, false)
		}
	}
	for n := 1; n <= patMax && long; n++ {
		for _, pat := range fam.P2Patterns[:5] {
			addP(fam.P2(pat, n), fmt.Sprintf("P2:%s:%d", pat, n), false)
		}
	}
	// quick: lengths beyond patMax up to 200 still get the one-shot and every 2-part partition (block-size tails: 55/56, 63/64, 119/120, 127/128)
	for n := patMax + 1; n <= 200 && long; n++ {
		for _, pat := range fam.P2Patterns[2:5] {
			d := fam.P2(pat, n)
			if k := fnv(d); !seen[k] {
				seen[k] = true
				payloads = append(payloads, hp{data: d, desc: fmt.Sprintf("P2:%s:%d", pat, n), two: true})
			}
		}
	}
	for _, n := range fam.P2Sizes() {
		if n > 200 && long {
			for _, pat := range fam.P2Patterns {
				addP(fam.P2(pat, n), fmt.Sprintf("P2:%s:%d", pat, n), true)
			}
		}
	}
	if variant == cserve.Plain {
		r.Add("hasher_payloads", int64(len(payloads)))
	}
	type hu struct {
		h *hasher
		p *hp
	}
	var units []hu
	for pi := range payloads {
		for hi := range hasherList {
			units = append(units, hu{&hasherList[hi], &payloads[pi]})
		}
	}
	run := func(variant string, asanSubset bool) {
		e.pass(variant, 8, func(k int, l *local) func() drv.Job {
			i := k
			return func() drv.Job {
				if i >= len(units) || e.stop() {
					return nil
				}
				u := units[i]
				i += e.nw
				n := len(u.p.data)
				cache := map[int][4]uint64{}
				j := &HashJob{h: u.h, data: u.p.data, desc: u.p.desc, variant: variant, e: e, l: l,
					refAt: func(end int) [4]uint64 {
						if v, ok := cache[end]; ok {
							return v
						}
						v := u.h.ref(u.p.data[:end])
						cache[end] = v
						return v
					}}
				if u.p.big {
					// long payloads: one-shot with 16 alignments, 2-part splits around structural positions
					var list []scenario
					for pad := 0; pad < 16; pad++ {
						list = append(list, scenario{ends: []int{n}, mode: pad % 2, pad: pad})
					}
					for _, c := range []int{1, 7, 15, 16, 17, 31, 32, 33, 63, 64, 65, 255, 256, 4095, 4096, 5551, 5552, 5553, 11104, 32768, 65535} {
						if c < n {
							list = append(list, scenario{ends: []int{c, n}, mode: 2, pad: c % 5}, scenario{ends: []int{n - c, n}, mode: 0, pad: 3})
						}
					}
					idx := 0
					j.next = func() (scenario, bool) {
						if idx >= len(list) {
							return scenario{}, false
						}
						idx++
						return list[idx-1], true
					}
				} else {
					j.next = partitions(n, !u.p.two, asanSubset)
				}
				return j
			}
		})
	}
	run(variant, variant == cserve.Asan)
	if variant == cserve.Plain && !long {
		r.Sample(map[string]any{"hasher": "adler32", "payload": "P1:00ff61", "partitions": "all 4 compositions x {update!, update_u32!, alternating}: [3] [1,3] [2,3] [1,2,3] (end offsets), plus empty leading/trailing slices"})
	}
}
