// Package drv holds the reactive drivers that C07 and C05 run on top of the C state
// server (internal/cserve): a step-synchronous scheduler that advances many independent
// jobs per pipe round trip, and one job type per base interface (io_transformer,
// image_decoder, token_decoder) that applies a *script* (how the source bytes and the
// destination capacity are cut into successive calls) with the driver policy of DESIGN E4.
package drv

import (
	"fmt"
	"os"
	"strings"
	"sync/atomic"
	"time"

	"verif/internal/cserve"
)

// Job is a small state machine. Next receives the results of the commands it returned
// last time (nil the first time) and returns the next commands (all addressed to `slot`);
// an empty list means the job has finished.
type Job interface {
	Next(slot uint32, prev []cserve.Result) []cserve.Cmd
	// Crashed: the server process died while executing command idx (index into the list
	// returned by the last Next; -1 unknown) of this job.
	Crashed(ce *cserve.CrashError, idx int)
	// Restart resets the job to its initial state (another job crashed the server).
	Restart()
}

// Stalls counts harness stalls (see Run).
var Stalls atomic.Int64

// Run drives jobs from gen (nil = exhausted) on one server, `width` of them interleaved per
// round trip. It returns an error only for harness problems.
func Run(srv *cserve.Server, width int, gen func() Job) error {
	type act struct {
		job    Job
		off    int
		n      int
		prev   []cserve.Result
		stalls int
	}
	active := make([]*act, width)
	var cmds []cserve.Cmd
	var res []cserve.Result
	exhausted := false
	for {
		cmds = cmds[:0]
		live := 0
		for i := range active {
			for {
				if active[i] == nil {
					if exhausted {
						break
					}
					j := gen()
					if j == nil {
						exhausted = true
						break
					}
					active[i] = &act{job: j}
				}
				a := active[i]
				c := a.job.Next(uint32(i), a.prev)
				if len(c) == 0 {
					active[i] = nil
					continue
				}
				a.off, a.n = len(cmds), len(c)
				cmds = append(cmds, c...)
				live++
				break
			}
		}
		if live == 0 {
			return nil
		}
		if cap(res) < len(cmds) {
			res = make([]cserve.Result, len(cmds)*2)
		}
		res = res[:len(cmds)]
		t0 := time.Now()
		err := srv.DoInto(cmds, res)
		if d := time.Since(t0); d > 5*time.Second && os.Getenv("DRV_DEBUG") != "" {
			nb := 0
			for i := range cmds {
				nb += len(cmds[i].Data)
			}
			fmt.Fprintf(os.Stderr, "drv: slow batch %.1fs: %d cmds, %d data bytes, err=%v\n", d.Seconds(), len(cmds), nb, err != nil)
			for i := range cmds {
				fmt.Fprintf(os.Stderr, "   cmd %d op=%d slot=%d pkg=%s method=%d data=%d dstcap=%d\n", i, cmds[i].Op, cmds[i].Slot, cmds[i].Pkg, cmds[i].Method, len(cmds[i].Data), cmds[i].DstCap)
			}
		}
		if err != nil {
			ce, ok := err.(*cserve.CrashError)
			if !ok {
				return err
			}
			culprit := -1
			for i, a := range active {
				if a != nil && ce.CmdIndex >= a.off && ce.CmdIndex < a.off+a.n {
					culprit = i
				}
			}
			// A pipe read deadline without the server's own in-call watchdog having fired means the process was
			// slow outside a wuffs call (allocation, page faults on an overloaded machine): a harness stall, not a
			// hang of the code under test. Re-run everything; only a job that stalls three times is examined further.
			if culprit >= 0 && ce.Kind == "hang" && !strings.Contains(ce.Stderr, "WSERVER-HANG") && active[culprit].stalls < 2 {
				active[culprit].stalls++
				Stalls.Add(1)
				for _, b := range active {
					if b != nil {
						b.job.Restart()
						b.prev = nil
					}
				}
				if err := srv.Restart(); err != nil {
					return err
				}
				continue
			}
			// The server buffers its answers, so the command that was executing is only known from the server's own
			// death note; rather than trust that attribution, every job of the batch is re-run on its own: the ones
			// that die alone are the culprits, the others simply finish.
			if err := srv.Restart(); err != nil {
				return err
			}
			for i, a := range active {
				if a == nil {
					continue
				}
				active[i] = nil
				a.job.Restart()
				var prev []cserve.Result
				for {
					c := a.job.Next(uint32(i), prev)
					if len(c) == 0 {
						break
					}
					r1, err := srv.Do(c...)
					if err != nil {
						ce1, ok := err.(*cserve.CrashError)
						if !ok {
							return err
						}
						a.job.Crashed(ce1, ce1.CmdIndex)
						if err := srv.Restart(); err != nil {
							return err
						}
						break
					}
					prev = r1
				}
			}
			continue
		}
		for _, a := range active {
			if a != nil {
				a.prev = append(a.prev[:0], res[a.off:a.off+a.n]...)
			}
		}
	}
}

// Script says how the source and the destination are presented to successive calls.
//
//	SrcEnds: ascending end offsets of the source pieces (the last piece always ends at len(data);
//	  an entry equal to len(data) that is not the last means "all bytes given, closed only later").
//	  nil + SrcStep == 0: one piece. SrcStep > 0: pieces of that many bytes.
//	DstCaps: capacities of successive destination buffers (bytes, or tokens); after the list (or
//	  when empty and DstStep == 0): ample buffers. DstStep > 0: every buffer has this capacity.
type Script struct {
	SrcEnds []int `json:"src_ends,omitempty"`
	SrcStep int   `json:"src_step,omitempty"`
	DstCaps []int `json:"dst_caps,omitempty"`
	DstStep int   `json:"dst_step,omitempty"`
}

func (s Script) OneShot() bool {
	return len(s.SrcEnds) == 0 && s.SrcStep == 0 && len(s.DstCaps) == 0 && s.DstStep == 0
}

// Kind names the shape of the script (used in signatures and histograms).
func (s Script) Kind() string {
	src := ""
	switch {
	case s.SrcStep == 1:
		src = "src-bytewise"
	case s.SrcStep > 1:
		src = fmt.Sprintf("src-step%d", s.SrcStep)
	case len(s.SrcEnds) == 1:
		src = "src-split"
	case len(s.SrcEnds) == 2:
		src = "src-pair"
	case len(s.SrcEnds) > 2:
		src = "src-multi"
	}
	dst := ""
	switch {
	case s.DstStep == 1:
		dst = "dst-bytewise"
	case s.DstStep > 1:
		dst = fmt.Sprintf("dst-step%d", s.DstStep)
	case len(s.DstCaps) == 1:
		dst = "dst-split"
	case len(s.DstCaps) > 1:
		dst = "dst-multi"
	}
	switch {
	case src == "" && dst == "":
		return "one-shot"
	case src == "":
		return dst
	case dst == "":
		return src
	}
	return src + "+" + dst
}

// feeder hands out the source pieces.
type feeder struct {
	data []byte
	sc   *Script
	idx  int
	fed  int
	more bool // a piece (possibly empty, carrying only the closed flag) is still to be given
}

func (f *feeder) reset(data []byte, sc *Script) {
	f.data, f.sc, f.idx, f.fed, f.more = data, sc, 0, 0, true
}

// next returns the next piece and whether the source is closed once it has been given.
func (f *feeder) next() (piece []byte, closed bool) {
	n := len(f.data)
	end := n
	last := true
	if f.sc.SrcStep > 0 {
		end = f.fed + f.sc.SrcStep
		if end >= n {
			end = n
		} else {
			last = false
		}
	} else if f.idx < len(f.sc.SrcEnds) {
		end = f.sc.SrcEnds[f.idx]
		f.idx++
		last = false
		if end > n {
			end = n
		}
		if end < f.fed {
			end = f.fed
		}
	}
	piece = f.data[f.fed:end]
	f.fed = end
	if last {
		f.more = false
	}
	return piece, last
}

// sink hands out destination capacities.
type sink struct {
	sc    *Script
	ample uint32
	idx   int
	room  uint32
}

func (d *sink) reset(sc *Script, ample uint32) {
	d.sc, d.ample, d.idx = sc, ample, 0
	d.room = d.capAt(0)
}

func (d *sink) capAt(i int) uint32 {
	if d.sc.DstStep > 0 {
		return uint32(d.sc.DstStep)
	}
	if i < len(d.sc.DstCaps) {
		return uint32(d.sc.DstCaps[i])
	}
	// ample buffers double (up to 256x) each time one of them turns out not to be enough
	k := i - len(d.sc.DstCaps)
	if k > 8 {
		k = 8
	}
	if a := uint64(d.ample) << uint(k); a < 1<<30 {
		return uint32(a)
	}
	return d.ample
}

// wrote accounts for n units written into the current buffer.
func (d *sink) wrote(n uint32) {
	if n > d.room {
		n = d.room
	}
	d.room -= n
}

// nextBuffer moves on to the next destination buffer (after a `$short write`).
func (d *sink) nextBuffer() {
	d.idx++
	d.room = d.capAt(d.idx)
}

const (
	StShortRead    = "$base: short read"
	StShortWrite   = "$base: short write"
	StShortWorkbuf = "$base: short workbuf"
	StEndOfData    = "@base: end of data"
)

// Outcome is what a finished job observed. Everything the C05 oracle compares is in here.
type Outcome struct {
	Status   string   `json:"status"` // final status ("" = ok); "stuck: ..." when the driver gave up
	Out      []byte   `json:"-"`      // output bytes (io_transformer), final pixels (image) or tokens (8 bytes LE each); nil when only hashed
	OutLen   uint64   `json:"out_len"`
	OutHash  uint64   `json:"out_hash"`  // server-side 64-bit hash of the accumulated output / pixel buffer / tokens
	Consumed uint64   `json:"consumed"`  // source stream position after the last call
	Obs      []uint64 `json:"obs"`       // observable state (image/frame configs, per-frame pixel hashes, counters)
	Calls    int      `json:"calls"`     // coroutine calls made
	Susp     [4]int   `json:"susp"`      // suspensions seen: short read, short write, short workbuf, other
	Spurious int      `json:"spurious"`  // `$short read` on a closed, fully supplied source (C03's business)
	Refused  string   `json:"refused"`   // server refusal (not a wuffs status), e.g. pixel buffer too large
	Crash    string   `json:"crash"`     // sanitizer / signal / hang summary
	CrashLog string   `json:"crash_log"` // stderr head
	Trace    []string `json:"trace,omitempty"`
}

func (o *Outcome) IsError() bool { return len(o.Status) > 0 && o.Status[0] == '#' }

func (o *Outcome) noteSusp(st string) {
	switch st {
	case StShortRead:
		o.Susp[0]++
	case StShortWrite:
		o.Susp[1]++
	case StShortWorkbuf:
		o.Susp[2]++
	default:
		o.Susp[3]++
	}
}

// Spec describes what to decode.
type Spec struct {
	Pkg    string      `json:"pkg"`
	Quirks [][2]uint64 `json:"quirks,omitempty"` // set_quirk(key, value) calls made right after initialize
	Data   []byte      `json:"-"`
	PixFmt uint32      `json:"pixfmt,omitempty"` // image decoders: destination pixel format (0 = BGRA_NONPREMUL)
	// MaxFrames bounds the frames decoded from an image (0 = 64).
	MaxFrames int `json:"max_frames,omitempty"`
	// WantPixels: image job keeps a copy of the pixel buffer after every frame (C07); otherwise only hashes.
	WantPixels bool `json:"-"`
}

// OutMode selects how the output is reported.
const (
	OutBytes = 0 // fetch the bytes
	OutHash  = 1 // length + server-side hash only
	OutAuto  = 2 // length + hash, and the bytes too when there are at most SmallOut of them
)

// UniformDstSizes are the destination buffer capacities of the streaming re-decodes (every call gets a fresh buffer of
// that capacity): powers of two put every buffer start at the same position of a 32 KiB history ring, the others do not.
var UniformDstSizes = []int{256, 300, 1000, 1024, 4096, 4097, 32768, 65536}

// SmallOut is the OutAuto threshold.
const SmallOut = 8192

func crashText(ce *cserve.CrashError) (string, string) {
	log := ce.Stderr
	if len(log) > 3000 {
		log = log[:3000]
	}
	return ce.Kind + ": " + ce.Summary(), log
}

func traceLine(method string, c *cserve.Cmd, r *cserve.Result) string {
	st := r.Status
	if r.OK {
		st = "ok"
	}
	return fmt.Sprintf("%s(+%d src bytes, closed=%v, dst cap %d) -> %q src ri %d->%d of %d (pos %d) wrote %d",
		method, len(c.Data), c.Flags&cserve.FClosed != 0, c.DstCap, st, r.SrcRi0, r.SrcRi1, r.SrcWi1, r.SrcPos1, r.NWritten)
}
