package drv

import (
	"fmt"

	"verif/internal/cserve"
)

// XformJob decodes Spec.Data with an io_transformer under a Script.
//
// Driver policy (DESIGN E4): the work buffer is re-queried and resized to workbuf_len().min
// before every call (so `$short workbuf` is answered by simply calling again); `$short read`
// while source pieces remain -> give the next piece; `$short read` on a closed, fully supplied
// source is counted (Spurious) and the call retried once; `$short write` -> next destination
// buffer; any other suspension, or three calls in a row that move nothing, end the job with
// the status prefixed "stuck: ".
type XformJob struct {
	Spec     Spec
	Script   Script
	Ample    uint32 // capacity of an "ample" destination buffer
	OutMode  int
	Trace    bool
	MaxCalls int // 0 = 1<<22; a run that needs more calls ends as "stuck: call limit"
	Done     func(j *XformJob)
	Out      Outcome

	f       feeder
	d       sink
	state   int
	last    cserve.Cmd
	idle    int
	spRetry bool
}

const maxCalls = 1 << 22

func (j *XformJob) Restart() { j.state = 0; j.Out = Outcome{} }

func (j *XformJob) Crashed(ce *cserve.CrashError, idx int) {
	j.Out.Crash, j.Out.CrashLog = crashText(ce)
	j.Out.Status = "crash"
	j.state = 99
	if j.Done != nil {
		j.Done(j)
	}
}

func (j *XformJob) call(slot uint32, piece []byte, closed bool) cserve.Cmd {
	c := cserve.Transform(slot, piece, closed, j.d.room, cserve.WorkMin)
	j.last = c
	j.Out.Calls++
	return c
}

func (j *XformJob) finish(slot uint32) []cserve.Cmd {
	j.state = 2
	switch j.OutMode {
	case OutBytes:
		return []cserve.Cmd{cserve.Get(slot, cserve.GetDst)}
	case OutAuto:
		// one round trip: hash, length and the first SmallOut+1 bytes (used only when that is all there is)
		return []cserve.Cmd{cserve.Hash(slot), cserve.Get(slot, cserve.GetInfo), cserve.GetRange(slot, cserve.GetDst, 0, SmallOut+1)}
	}
	return []cserve.Cmd{cserve.Hash(slot), cserve.Get(slot, cserve.GetInfo)}
}

func (j *XformJob) Next(slot uint32, prev []cserve.Result) []cserve.Cmd {
	switch j.state {
	case 0:
		j.Out = Outcome{}
		j.f.reset(j.Spec.Data, &j.Script)
		if j.Ample == 0 {
			j.Ample = 1 << 16
		}
		j.d.reset(&j.Script, j.Ample)
		j.idle, j.spRetry = 0, false
		cmds := []cserve.Cmd{cserve.New(slot, j.Spec.Pkg, cserve.NewOpts{})}
		for _, q := range j.Spec.Quirks {
			cmds = append(cmds, cserve.SetQuirk(slot, uint32(q[0]), q[1]))
		}
		piece, closed := j.f.next()
		cmds = append(cmds, j.call(slot, piece, closed))
		j.state = 1
		return cmds
	case 1:
		for i := 0; i < len(prev)-1; i++ {
			if prev[i].Err != "" || !prev[i].OK {
				j.Out.Refused = fmt.Sprintf("setup command %d: %s %s", i, prev[i].Err, prev[i].Status)
				j.state = 99
				if j.Done != nil {
					j.Done(j)
				}
				return nil
			}
		}
		r := &prev[len(prev)-1]
		if r.Err != "" {
			j.Out.Refused = r.Err
			j.state = 99
			if j.Done != nil {
				j.Done(j)
			}
			return nil
		}
		if j.Trace {
			j.Out.Trace = append(j.Out.Trace, traceLine("transform_io", &j.last, r))
		}
		j.Out.Consumed = r.SrcPos1 + uint64(r.SrcRi1)
		j.d.wrote(r.NWritten)
		moved := r.SrcRi1 != r.SrcRi0 || r.NWritten != 0
		if !r.IsSuspension() {
			j.Out.Status = r.Status
			return j.finish(slot)
		}
		j.Out.noteSusp(r.Status)
		if j.Out.Calls >= j.callLimit() {
			j.Out.Status = "stuck: call limit: " + r.Status
			return j.finish(slot)
		}
		closedNow := j.last.Flags&cserve.FClosed != 0
		switch r.Status {
		case StShortRead:
			if j.f.more {
				piece, closed := j.f.next()
				j.idle = 0
				return []cserve.Cmd{j.call(slot, piece, closed)}
			}
			if closedNow {
				j.Out.Spurious++
			}
			if !moved {
				if j.spRetry {
					j.Out.Status = r.Status
					return j.finish(slot)
				}
				j.spRetry = true
			}
			return []cserve.Cmd{j.call(slot, nil, true)}
		case StShortWrite:
			prevRoom := j.d.room
			j.d.nextBuffer()
			if !moved && prevRoom >= j.d.room {
				j.idle++
				if j.idle >= 3 {
					j.Out.Status = "stuck: " + r.Status
					return j.finish(slot)
				}
			} else {
				j.idle = 0
			}
			return []cserve.Cmd{j.call(slot, nil, closedNow)}
		case StShortWorkbuf:
			j.idle++
			if j.idle >= 3 {
				j.Out.Status = "stuck: " + r.Status
				return j.finish(slot)
			}
			return []cserve.Cmd{j.call(slot, nil, closedNow)}
		default:
			j.Out.Status = "stuck: " + r.Status
			return j.finish(slot)
		}
	case 2:
		if j.OutMode == OutBytes {
			j.Out.Out = prev[0].Data
			j.Out.OutLen = uint64(len(prev[0].Data))
		} else {
			j.Out.OutHash = prev[0].Hash[3]
			if len(prev[1].Data) >= 48 {
				j.Out.OutLen = le64(prev[1].Data[40:])
			}
			if j.OutMode == OutAuto && len(prev) > 2 && prev[2].Total <= SmallOut {
				j.Out.Out = prev[2].Data
			}
		}
		j.state = 99
		if j.Done != nil {
			j.Done(j)
		}
		return nil
	case 3:
		j.Out.Out = prev[0].Data
		j.state = 99
		if j.Done != nil {
			j.Done(j)
		}
		return nil
	}
	return nil
}

func le64(b []byte) uint64 {
	return uint64(b[0]) | uint64(b[1])<<8 | uint64(b[2])<<16 | uint64(b[3])<<24 | uint64(b[4])<<32 | uint64(b[5])<<40 | uint64(b[6])<<48 | uint64(b[7])<<56
}

func (j *XformJob) callLimit() int {
	if j.MaxCalls > 0 {
		return j.MaxCalls
	}
	return maxCalls
}
