package drv

import (
	"fmt"

	"verif/internal/cserve"
)

// Frame is what the image job observed for one frame.
type Frame struct {
	Config  [11]uint64 // bounds x0,y0,x1,y1, duration, index, io_position, disposal, opaque_within_bounds, overwrite_instead_of_blend, background_color
	Dirty   [4]uint64
	PixHash uint64
	Pixels  []byte // copy of the whole pixel buffer after this frame (Spec.WantPixels only)
	Status  string // status of decode_frame
}

// ImageJob runs the canonical call sequence of an image decoder under a source Script:
// decode_image_config, then repeatedly decode_frame_config + decode_frame until a call ends
// with something other than ok (normally `@base: end of data` from decode_frame_config), then the
// counters. A source piece boundary can land inside any call: a call that suspends with
// `$short read` gets the next piece; a call that completes leaves the unread bytes to the next.
type ImageJob struct {
	Spec     Spec
	Script   Script
	Trace    bool
	MaxCalls int // 0 = 1<<22; a run that needs more calls ends as "stuck: call limit"
	Done     func(j *ImageJob)
	Out      Outcome
	Image    [8]uint64 // valid, pixfmt, pixsub, w, h, first_frame_io_position, first_frame_is_opaque, pixbuf_len
	Frames   []Frame

	f       feeder
	state   int
	method  int
	last    cserve.Cmd
	closed  bool
	spRetry bool
	idle    int
	cur     Frame
}

const (
	imStart = iota
	imCall
	imAfterDIC
	imAfterDFC
	imAfterDF
	imFinal
	imDone = 99
)

// MaxPixBytes bounds the pixel buffer the server allocates.
const MaxPixBytes = 32 << 20

func (j *ImageJob) Restart() { j.state = imStart; j.Out = Outcome{}; j.Frames = nil }

func (j *ImageJob) Crashed(ce *cserve.CrashError, idx int) {
	j.Out.Crash, j.Out.CrashLog = crashText(ce)
	j.Out.Status = "crash"
	j.state = imDone
	if j.Done != nil {
		j.Done(j)
	}
}

func methodName(m int) string {
	switch m {
	case cserve.MDecodeImageConfig:
		return "decode_image_config"
	case cserve.MDecodeFrameConfig:
		return "decode_frame_config"
	case cserve.MDecodeFrame:
		return "decode_frame"
	case cserve.MDecodeTokens:
		return "decode_tokens"
	}
	return fmt.Sprint("method", m)
}

func (j *ImageJob) call(slot uint32, method int, piece []byte) cserve.Cmd {
	c := cserve.Feed(slot, method, piece, j.closed)
	if method == cserve.MDecodeFrame {
		c.WorkPolicy = cserve.WorkMin
		c.A0 = uint64(j.Spec.PixFmt)
		c.A1 = MaxPixBytes
		c.Blend = 0
	}
	j.method = method
	j.last = c
	j.Out.Calls++
	return c
}

func (j *ImageJob) finals(slot uint32, status string) []cserve.Cmd {
	j.Out.Status = status
	j.state = imFinal
	return []cserve.Cmd{cserve.Call(slot, cserve.MNumDecodedFrames), cserve.Call(slot, cserve.MNumDecodedFrameConfigs),
		cserve.Call(slot, cserve.MNumAnimationLoops), cserve.Hash(slot)}
}

func (j *ImageJob) finish() []cserve.Cmd {
	j.state = imDone
	// Obs: image config, then per frame: config, dirty rect, pixel hash; then the counters (appended by the caller).
	if j.Done != nil {
		j.Done(j)
	}
	return nil
}

func (j *ImageJob) Next(slot uint32, prev []cserve.Result) []cserve.Cmd {
	switch j.state {
	case imStart:
		j.Out = Outcome{}
		j.Frames = nil
		j.Image = [8]uint64{}
		j.f.reset(j.Spec.Data, &j.Script)
		j.spRetry, j.idle = false, 0
		cmds := []cserve.Cmd{cserve.New(slot, j.Spec.Pkg, cserve.NewOpts{})}
		for _, q := range j.Spec.Quirks {
			cmds = append(cmds, cserve.SetQuirk(slot, uint32(q[0]), q[1]))
		}
		piece, closed := j.f.next()
		j.closed = closed
		cmds = append(cmds, j.call(slot, cserve.MDecodeImageConfig, piece))
		j.state = imCall
		return cmds
	case imCall:
		for i := 0; i < len(prev)-1; i++ {
			if prev[i].Err != "" || !prev[i].OK {
				j.Out.Refused = fmt.Sprintf("setup command %d: %s %s", i, prev[i].Err, prev[i].Status)
				return j.finish()
			}
		}
		r := &prev[len(prev)-1]
		if r.Err != "" {
			j.Out.Refused = r.Err
			return j.finish()
		}
		if j.Trace {
			j.Out.Trace = append(j.Out.Trace, traceLine(methodName(j.method), &j.last, r))
		}
		j.Out.Consumed = r.SrcPos1 + uint64(r.SrcRi1)
		moved := r.SrcRi1 != r.SrcRi0
		if r.IsSuspension() {
			j.Out.noteSusp(r.Status)
			if j.Out.Calls >= j.callLimit() {
				return j.finals(slot, "stuck: call limit: "+r.Status)
			}
			switch r.Status {
			case StShortRead:
				if j.f.more {
					piece, closed := j.f.next()
					j.closed = closed
					j.idle = 0
					return []cserve.Cmd{j.call(slot, j.method, piece)}
				}
				if j.closed {
					j.Out.Spurious++
				}
				if !moved {
					if j.spRetry {
						return j.finals(slot, r.Status)
					}
					j.spRetry = true
				}
				return []cserve.Cmd{j.call(slot, j.method, nil)}
			case StShortWorkbuf:
				j.idle++
				if j.idle >= 3 {
					return j.finals(slot, "stuck: "+r.Status)
				}
				return []cserve.Cmd{j.call(slot, j.method, nil)}
			default:
				return j.finals(slot, "stuck: "+r.Status)
			}
		}
		j.idle = 0
		switch j.method {
		case cserve.MDecodeImageConfig:
			if !r.OK {
				return j.finals(slot, r.Status)
			}
			j.state = imAfterDIC
			return []cserve.Cmd{cserve.Get(slot, cserve.GetImageConfig)}
		case cserve.MDecodeFrameConfig:
			if !r.OK {
				return j.finals(slot, r.Status)
			}
			j.state = imAfterDFC
			return []cserve.Cmd{cserve.Get(slot, cserve.GetFrameConfig)}
		case cserve.MDecodeFrame:
			j.cur.Status = r.Status
			j.state = imAfterDF
			cmds := []cserve.Cmd{cserve.Call(slot, cserve.MFrameDirtyRect), cserve.Hash(slot)}
			if j.Spec.WantPixels {
				cmds = append(cmds, cserve.Get(slot, cserve.GetPixels))
			}
			return cmds
		}
		return j.finals(slot, "stuck: bad driver state")
	case imAfterDIC:
		d := prev[0].Data
		for i := 0; i < 8 && 8*i+8 <= len(d); i++ {
			j.Image[i] = le64(d[8*i:])
		}
		j.state = imCall
		return []cserve.Cmd{j.call(slot, cserve.MDecodeFrameConfig, nil)}
	case imAfterDFC:
		j.cur = Frame{}
		d := prev[0].Data
		for i := 0; i < 11 && 8*i+8 <= len(d); i++ {
			j.cur.Config[i] = le64(d[8*i:])
		}
		j.state = imCall
		return []cserve.Cmd{j.call(slot, cserve.MDecodeFrame, nil)}
	case imAfterDF:
		copy(j.cur.Dirty[:], prev[0].V[:])
		j.cur.PixHash = prev[1].Hash[5]
		if len(prev) > 2 {
			j.cur.Pixels = prev[2].Data
		}
		j.Frames = append(j.Frames, j.cur)
		if j.cur.Status != "" {
			return j.finals(slot, j.cur.Status)
		}
		max := j.Spec.MaxFrames
		if max == 0 {
			max = 64
		}
		if len(j.Frames) >= max {
			return j.finals(slot, "frame limit")
		}
		j.state = imCall
		return []cserve.Cmd{j.call(slot, cserve.MDecodeFrameConfig, nil)}
	case imFinal:
		o := &j.Out
		o.Obs = append(o.Obs, j.Image[:]...)
		for i := range j.Frames {
			o.Obs = append(o.Obs, j.Frames[i].Config[:]...)
			o.Obs = append(o.Obs, j.Frames[i].Dirty[:]...)
			o.Obs = append(o.Obs, j.Frames[i].PixHash)
		}
		o.Obs = append(o.Obs, prev[0].V[0], prev[1].V[0], prev[2].V[0])
		o.OutHash = prev[3].Hash[5]
		o.OutLen = uint64(len(j.Frames))
		return j.finish()
	}
	return nil
}

func (j *ImageJob) callLimit() int {
	if j.MaxCalls > 0 {
		return j.MaxCalls
	}
	return maxCalls
}
