package drv

import (
	"fmt"

	"verif/internal/cserve"
)

// TokenJob runs decode_tokens under a Script (destination capacities are in tokens).
type TokenJob struct {
	Spec     Spec
	Script   Script
	Ample    uint32
	Trace    bool
	MaxCalls int // 0 = 1<<22; a run that needs more calls ends as "stuck: call limit"
	Done     func(j *TokenJob)
	Out      Outcome // Out.Out = the tokens, 8 bytes little endian each

	f       feeder
	d       sink
	state   int
	last    cserve.Cmd
	idle    int
	spRetry bool
}

func (j *TokenJob) Restart() { j.state = 0; j.Out = Outcome{} }

func (j *TokenJob) Crashed(ce *cserve.CrashError, idx int) {
	j.Out.Crash, j.Out.CrashLog = crashText(ce)
	j.Out.Status = "crash"
	j.state = 99
	if j.Done != nil {
		j.Done(j)
	}
}

func (j *TokenJob) call(slot uint32, piece []byte, closed bool) cserve.Cmd {
	c := cserve.Feed(slot, cserve.MDecodeTokens, piece, closed)
	c.DstCap = j.d.room
	c.WorkPolicy = cserve.WorkMin
	j.last = c
	j.Out.Calls++
	return c
}

func (j *TokenJob) finish(slot uint32) []cserve.Cmd {
	j.state = 2
	return []cserve.Cmd{cserve.Get(slot, cserve.GetTokens)}
}

func (j *TokenJob) end() []cserve.Cmd {
	j.state = 99
	if j.Done != nil {
		j.Done(j)
	}
	return nil
}

func (j *TokenJob) Next(slot uint32, prev []cserve.Result) []cserve.Cmd {
	switch j.state {
	case 0:
		j.Out = Outcome{}
		j.f.reset(j.Spec.Data, &j.Script)
		if j.Ample == 0 {
			j.Ample = 1 << 14
		}
		j.d.reset(&j.Script, j.Ample)
		j.idle, j.spRetry = 0, false
		cmds := []cserve.Cmd{cserve.New(slot, j.Spec.Pkg, cserve.NewOpts{})}
		for _, q := range j.Spec.Quirks {
			cmds = append(cmds, cserve.SetQuirk(slot, uint32(q[0]), q[1]))
		}
		piece, closed := j.f.next()
		cmds = append(cmds, j.call(slot, piece, closed))
		j.state = 1
		return cmds
	case 1:
		for i := 0; i < len(prev)-1; i++ {
			if prev[i].Err != "" || !prev[i].OK {
				j.Out.Refused = fmt.Sprintf("setup command %d: %s %s", i, prev[i].Err, prev[i].Status)
				return j.end()
			}
		}
		r := &prev[len(prev)-1]
		if r.Err != "" {
			j.Out.Refused = r.Err
			return j.end()
		}
		if j.Trace {
			j.Out.Trace = append(j.Out.Trace, traceLine("decode_tokens", &j.last, r))
		}
		j.Out.Consumed = r.SrcPos1 + uint64(r.SrcRi1)
		j.d.wrote(r.NWritten)
		moved := r.SrcRi1 != r.SrcRi0 || r.NWritten != 0
		if !r.IsSuspension() {
			j.Out.Status = r.Status
			return j.finish(slot)
		}
		j.Out.noteSusp(r.Status)
		if j.Out.Calls >= j.callLimit() {
			j.Out.Status = "stuck: call limit: " + r.Status
			return j.finish(slot)
		}
		closedNow := j.last.Flags&cserve.FClosed != 0
		switch r.Status {
		case StShortRead:
			if j.f.more {
				piece, closed := j.f.next()
				j.idle = 0
				return []cserve.Cmd{j.call(slot, piece, closed)}
			}
			if closedNow {
				j.Out.Spurious++
			}
			if !moved {
				if j.spRetry {
					j.Out.Status = r.Status
					return j.finish(slot)
				}
				j.spRetry = true
			}
			return []cserve.Cmd{j.call(slot, nil, true)}
		case StShortWrite:
			prevRoom := j.d.room
			j.d.nextBuffer()
			if !moved && prevRoom >= j.d.room {
				j.idle++
				if j.idle >= 3 {
					j.Out.Status = "stuck: " + r.Status
					return j.finish(slot)
				}
			} else {
				j.idle = 0
			}
			return []cserve.Cmd{j.call(slot, nil, closedNow)}
		case StShortWorkbuf:
			j.idle++
			if j.idle >= 3 {
				j.Out.Status = "stuck: " + r.Status
				return j.finish(slot)
			}
			return []cserve.Cmd{j.call(slot, nil, closedNow)}
		default:
			j.Out.Status = "stuck: " + r.Status
			return j.finish(slot)
		}
	case 2:
		j.Out.Out = prev[0].Data
		j.Out.OutLen = uint64(len(prev[0].Data) / 8)
		return j.end()
	}
	return nil
}

func (j *TokenJob) callLimit() int {
	if j.MaxCalls > 0 {
		return j.MaxCalls
	}
	return maxCalls
}
