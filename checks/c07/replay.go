package main

import (
	"bytes"
	"encoding/hex"
	"encoding/json"
	"fmt"
	"os"

	"verif/checks/c07/drv"
	"verif/internal/cserve"
	"verif/internal/ev"
)

// replay re-executes one recorded witness linearly (one job, one command per round trip) on a
// server freshly built from the tree under check and prints every call.
func replay(path string) {
	b, err := os.ReadFile(path)
	if err != nil {
		ev.Fatal("%v", err)
	}
	var doc struct {
		Signature string          `json:"signature"`
		What      string          `json:"what"`
		Witness   json.RawMessage `json:"witness"`
	}
	if err := json.Unmarshal(b, &doc); err != nil {
		ev.Fatal("%v", err)
	}
	var kind struct {
		Kind    string `json:"kind"`
		Variant string `json:"variant"`
		Pkg     string `json:"pkg"`
	}
	json.Unmarshal(doc.Witness, &kind)
	fmt.Printf("replaying %s\n recorded: %s\n", doc.Signature, doc.What)
	scratch, mine, err := cserve.Scratch()
	if err != nil {
		ev.Fatal("%v", err)
	}
	if mine {
		defer os.RemoveAll(scratch)
	}
	if kind.Variant == "" {
		kind.Variant = cserve.Plain
	}
	built, err := cserve.Build(scratch, []string{kind.Variant}, []string{kind.Pkg})
	if err != nil {
		ev.Fatal("cserve build: %v", err)
	}
	srv, err := built.Start(kind.Variant)
	if err != nil {
		ev.Fatal("%v", err)
	}
	defer srv.Close()
	one := func(j drv.Job) {
		done := false
		if err := drv.Run(srv, 1, func() drv.Job {
			if done {
				return nil
			}
			done = true
			return j
		}); err != nil {
			ev.Fatal("%v", err)
		}
	}
	bad := false
	switch kind.Kind {
	case "xform":
		var w xformWitness
		json.Unmarshal(doc.Witness, &w)
		data, _ := hex.DecodeString(w.DataHex)
		want, _ := hex.DecodeString(w.WantHex)
		j := &drv.XformJob{Spec: drv.Spec{Pkg: w.Pkg, Quirks: w.Quirks, Data: data}, Script: drv.Script{DstStep: w.DstStep}, Ample: uint32(w.WantLen + 4096), Trace: true}
		one(j)
		tr := j.Out.Trace
		if len(tr) > 40 {
			fmt.Printf("   (%d calls; first and last 20 shown)\n", len(tr))
			tr = append(append([]string{}, tr[:20]...), tr[len(tr)-20:]...)
		}
		for _, t := range tr {
			fmt.Println("  ", t)
		}
		if w.DstStep > 0 {
			fmt.Printf(" streaming decode: every call gets a fresh %d-byte destination buffer\n", w.DstStep)
		}
		fmt.Printf(" %s (%s build) on %s\n final status %q, %d output bytes (want %d), crash=%q\n", w.Pkg, kind.Variant, w.Desc, j.Out.Status, j.Out.OutLen, w.WantLen, j.Out.Crash)
		fmt.Printf(" output = %x\n want   = %x\n", clip(j.Out.Out, 64), clip(want, 64))
		bad = j.Out.Status != "" || int(j.Out.OutLen) != w.WantLen || !bytes.Equal(clip(j.Out.Out, len(want)), want) || (w.WantFNV != 0 && fnv(j.Out.Out) != w.WantFNV)
		if d := w.WantFNV != 0 && fnv(j.Out.Out) != w.WantFNV; d {
			fmt.Println(" the whole output differs from the expected payload (FNV-1a of all bytes)")
		}
	case "image":
		var w imageWitness
		json.Unmarshal(doc.Witness, &w)
		data, _ := hex.DecodeString(w.DataHex)
		j := &drv.ImageJob{Spec: drv.Spec{Pkg: w.Pkg, Data: data, PixFmt: w.PixFmt, WantPixels: true}, Trace: true}
		one(j)
		for _, t := range j.Out.Trace {
			fmt.Println("  ", t)
		}
		fmt.Printf(" %s (%s build) on %s, destination pixel format 0x%08x\n final status %q, %d frames, image config %v, crash=%q\n", w.Pkg, kind.Variant, w.Desc, w.PixFmt, j.Out.Status, len(j.Frames), j.Image, j.Out.Crash)
		for i, f := range j.Frames {
			fmt.Printf("  frame %d config %v pixels %x\n", i, f.Config, clip(f.Pixels, 64))
		}
		fmt.Printf(" recorded disagreement with the reference decoder: %s\n", w.Detail)
		bad = true // the reference pixels are not stored in the witness: the recorded detail stands; compare the pixels printed above
	case "hash":
		var w hashWitness
		json.Unmarshal(doc.Witness, &w)
		data, _ := hex.DecodeString(w.DataHex)
		var h *hasher
		for i := range hasherList {
			if hasherList[i].pkg == w.Pkg {
				h = &hasherList[i]
			}
		}
		if h == nil || len(data) != w.DataLen {
			ev.Fatal("witness not replayable (unknown hasher or clipped data)")
		}
		s := scenario{ends: w.Ends, mode: w.Mode, pad: w.Pad}
		cmds := scenarioCmds(1, w.Pkg, data, &s)
		res, err := srv.Replay(cmds)
		if err != nil {
			fmt.Printf(" server died: %v\n", err)
			os.Exit(1)
		}
		prev := 0
		for i, e := range w.Ends {
			fmt.Printf("   update call %d: bytes [%d,%d) -> %x (reference of the prefix %x)\n", i, prev, e, res[1+i].V, h.ref(data[:e]))
			prev = e
		}
		got, want := res[len(res)-1].V, h.ref(data)
		fmt.Printf(" %s checksum = %x, reference = %x\n", w.Pkg, got, want)
		bad = got != want
	default:
		ev.Fatal("unknown witness kind %q", kind.Kind)
	}
	if !bad {
		fmt.Println(" oracle: property holds on this witness (not reproduced)")
		return
	}
	fmt.Println(" oracle: violated")
	os.Exit(1)
}
