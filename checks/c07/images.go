package main

import (
	"bytes"
	"encoding/binary"
	"encoding/hex"
	"fmt"
	"image"
	"image/jpeg"
	"image/png"
	"os"
	"path/filepath"

	"verif/checks/c07/drv"
	"verif/checks/c07/fam"
	"verif/internal/cserve"
	"verif/internal/ev"
)

const (
	jpegTolerance     = 8 // per channel, image/jpeg vs wuffs (different IDCT rounding and chroma upsampling are allowed)
	jpegMeanTolerance = 2
)

type imageWitness struct {
	Kind    string `json:"kind"` // "image"
	Variant string `json:"variant"`
	Pkg     string `json:"pkg"`
	PixFmt  uint32 `json:"pixfmt"`
	Desc    string `json:"desc"`
	DataHex string `json:"data_hex"`
	Detail  string `json:"detail"`
	Tol     int    `json:"tolerance"`
}

type imgUnit struct {
	mk     func() (*fam.ImageCase, error)
	pixfmt uint32
	tol    int // 0 = exact
}

// swapRB turns BGRA into RGBA.
func swapRB(b []byte) []byte {
	out := append([]byte(nil), b...)
	for i := 0; i+3 < len(out); i += 4 {
		out[i], out[i+2] = out[i+2], out[i]
	}
	return out
}

func pixDiff(got, want []byte, tol int) (idx int, maxd int, mean float64) {
	if len(got) != len(want) {
		return min(len(got), len(want)), 256, 256
	}
	idx = -1
	sum := 0
	for i := range got {
		d := int(got[i]) - int(want[i])
		if d < 0 {
			d = -d
		}
		sum += d
		if d > maxd {
			maxd = d
		}
		if d > tol && idx < 0 {
			idx = i
		}
	}
	if len(got) > 0 {
		mean = float64(sum) / float64(len(got))
	}
	return
}

func bmpCase(kind string, w, h int, topDown bool, pattern string) (*fam.ImageCase, error) {
	// hand-written BMP encoder: BITMAPINFOHEADER, 24-bit BGR / 8-bit paletted / 32-bit BGRX, rows padded to 4 bytes.
	src := fam.MakeImage(map[string]string{"bgr24": "rgb8", "pal8": "pal256", "bgrx32": "rgb8", "pal4": "pal16", "pal1": "pal2"}[kind], pattern, w, h)
	want, ok := fam.ToBGRA8(src)
	if !ok {
		return nil, fmt.Errorf("bmp: cannot convert the source image")
	}
	bpp := map[string]int{"bgr24": 24, "pal8": 8, "bgrx32": 32, "pal4": 4, "pal1": 1}[kind]
	stride := ((w*bpp + 31) / 32) * 4
	npal := 0
	if bpp <= 8 {
		npal = 1 << uint(bpp)
	}
	off := 14 + 40 + 4*npal
	out := make([]byte, off+stride*h)
	copy(out, "BM")
	binary.LittleEndian.PutUint32(out[2:], uint32(len(out)))
	binary.LittleEndian.PutUint32(out[10:], uint32(off))
	binary.LittleEndian.PutUint32(out[14:], 40)
	binary.LittleEndian.PutUint32(out[18:], uint32(w))
	hh := int32(h)
	if topDown {
		hh = -hh
	}
	binary.LittleEndian.PutUint32(out[22:], uint32(hh))
	binary.LittleEndian.PutUint16(out[26:], 1)
	binary.LittleEndian.PutUint16(out[28:], uint16(bpp))
	binary.LittleEndian.PutUint32(out[34:], uint32(stride*h))
	if p, ok := src.(*image.Paletted); ok {
		binary.LittleEndian.PutUint32(out[46:], uint32(len(p.Palette)))
		for i, c := range p.Palette {
			r, g, b, _ := c.RGBA()
			out[54+4*i], out[54+4*i+1], out[54+4*i+2] = byte(b>>8), byte(g>>8), byte(r>>8)
		}
	}
	for y := 0; y < h; y++ {
		fy := h - 1 - y
		if topDown {
			fy = y
		}
		row := out[off+fy*stride:]
		for x := 0; x < w; x++ {
			px := want[(y*w+x)*4:]
			switch kind {
			case "bgr24":
				copy(row[3*x:], px[:3])
			case "bgrx32":
				copy(row[4*x:], px[:3])
			case "pal8":
				row[x] = src.(*image.Paletted).ColorIndexAt(x, y)
			case "pal4":
				row[x/2] |= src.(*image.Paletted).ColorIndexAt(x, y) << uint(4*(1-x%2))
			case "pal1":
				row[x/8] |= src.(*image.Paletted).ColorIndexAt(x, y) << uint(7-x%8)
			}
		}
	}
	return &fam.ImageCase{Family: "bmp", Pkg: "bmp", Class: fmt.Sprintf("bmp/%s/topdown%v", kind, topDown), Desc: fmt.Sprintf("bmp %s %s %dx%d topdown=%v", kind, pattern, w, h, topDown),
		Data: out, W: w, H: h, Frames: []fam.RefFrame{{Bounds: image.Rect(0, 0, w, h), Canvas: want, Duration: ^uint64(0), Disposal: ^uint64(0)}}, Info: map[string]string{}}, nil
}

func jpegCase(kind, pattern string, w, h, quality int) (*fam.ImageCase, error) {
	src := fam.MakeImage(kind, pattern, w, h)
	var buf bytes.Buffer
	if err := jpeg.Encode(&buf, src, &jpeg.Options{Quality: quality}); err != nil {
		return nil, err
	}
	dec, err := jpeg.Decode(bytes.NewReader(buf.Bytes()))
	if err != nil {
		return nil, fmt.Errorf("image/jpeg cannot decode its own output: %v", err)
	}
	want := make([]byte, w*h*4)
	for y := 0; y < h; y++ {
		for x := 0; x < w; x++ {
			r, g, b, _ := dec.At(x, y).RGBA()
			i := (y*w + x) * 4
			want[i], want[i+1], want[i+2], want[i+3] = byte(b>>8), byte(g>>8), byte(r>>8), 255
		}
	}
	return &fam.ImageCase{Family: "jpeg", Pkg: "jpeg", Class: fmt.Sprintf("jpeg/%s/q%d", kind, quality), Desc: fmt.Sprintf("jpeg %s %s %dx%d q=%d", kind, pattern, w, h, quality),
		Data: buf.Bytes(), W: w, H: h, Frames: []fam.RefFrame{{Bounds: image.Rect(0, 0, w, h), Canvas: want, Duration: ^uint64(0), Disposal: ^uint64(0)}}, Info: map[string]string{}}, nil
}

// pngSeedCase: a PNG file of test/data (other encoders: interlaced, 1/2/4-bit gray, tRNS, ...) with image/png's decode as
// the reference. nil when image/png rejects the file, or it is animated (image/png only reads the default image).
func pngSeedCase(path string) *fam.ImageCase {
	data, err := os.ReadFile(path)
	if err != nil || bytes.Contains(data, []byte("acTL")) {
		return nil
	}
	dec, err := png.Decode(bytes.NewReader(data))
	if err != nil {
		return nil
	}
	px, ok := fam.ToBGRA8(dec)
	if !ok {
		return nil
	}
	b := dec.Bounds()
	c := &fam.ImageCase{Family: "png-seed", Pkg: "png", Class: "png-seed", Desc: "png seed " + filepath.Base(path), Data: data, W: b.Dx(), H: b.Dy(),
		Frames: []fam.RefFrame{{Bounds: image.Rect(0, 0, b.Dx(), b.Dy()), Canvas: px, Duration: ^uint64(0), Disposal: ^uint64(0)}}}
	c.Info = fam.PNGInfo(data)
	c.Class = "png-seed/" + c.Info["colour"] + "/interlace" + c.Info["interlace"]
	return c
}

func imageUnits(thorough bool) []imgUnit {
	var us []imgUnit
	// PNG files of test/data (up to 256 KiB; quick: up to 64 KiB)
	seeds, _ := filepath.Glob(filepath.Join(ev.Repo(), "test", "data", "*.png"))
	more, _ := filepath.Glob(filepath.Join(ev.Repo(), "test", "data", "*", "*.png"))
	for _, path := range append(seeds, more...) {
		fi, err := os.Stat(path)
		if err != nil || fi.Size() > 256<<10 || (!thorough && fi.Size() > 64<<10) {
			continue
		}
		if c := pngSeedCase(path); c != nil {
			us = append(us, imgUnit{mk: func() (*fam.ImageCase, error) { return c, nil }, pixfmt: fam.PixBGRANonpremul})
		}
	}
	type sz struct{ w, h int }
	var sizes []sz
	for w := 1; w <= 9; w++ {
		for h := 1; h <= 5; h++ {
			sizes = append(sizes, sz{w, h})
		}
	}
	sizes = append(sizes, sz{33, 3})
	for _, kind := range fam.PNGKinds {
		for pi, pattern := range fam.PNGPatterns {
			for si, s := range sizes {
				for li, level := range fam.PNGLevels {
					if !thorough && (pi+si+li)%2 == 1 && s.w != 33 {
						continue // quick: half of the (pattern, size, level) combinations, every kind and every size with some pattern/level
					}
					kind, pattern, s, level := kind, pattern, s, level
					mk := func() (*fam.ImageCase, error) { return fam.PNGCase(kind, pattern, s.w, s.h, level) }
					us = append(us, imgUnit{mk: mk, pixfmt: fam.PixBGRANonpremul})
					if (pi+si+li)%4 == 0 || thorough {
						us = append(us, imgUnit{mk: mk, pixfmt: fam.PixRGBANonpremul})
					}
					if kind == "gray16" || kind == "rgb16" || kind == "nrgba16" || kind == "rgba16" {
						us = append(us, imgUnit{mk: mk, pixfmt: fam.PixBGRANonpremul4x16LE})
					}
				}
			}
		}
	}
	// larger PNGs so that dynamic Huffman blocks, long rows and all filters occur
	for _, kind := range fam.PNGKinds {
		for _, pattern := range fam.PNGPatterns {
			for _, s := range []sz{{64, 48}, {257, 9}} {
				kind, pattern, s := kind, pattern, s
				us = append(us, imgUnit{mk: func() (*fam.ImageCase, error) { return fam.PNGCase(kind, pattern, s.w, s.h, png.DefaultCompression) }, pixfmt: fam.PixBGRANonpremul})
			}
		}
	}
	// GIF
	for _, pal := range []int{2, 3, 4, 5, 8, 16, 17, 32, 64, 128, 255, 256} {
		for _, frames := range []int{1, 2, 4} {
			for _, opt := range []int{0, 1, 2, 3, 4, 5, 6, 7} {
				for _, s := range []sz{{1, 1}, {3, 2}, {9, 5}, {33, 3}, {64, 40}} {
					if !thorough && (s.w == 3 || s.w == 33) && opt%2 == 1 {
						continue
					}
					spec := fam.GIFSpec{W: s.w, H: s.h, PalSize: pal, Frames: frames, LocalPal: opt&1 != 0, Transp: opt&2 != 0, SubRects: opt&4 != 0,
						Disposals: [][]byte{{0}, {1, 2, 3}, {2}, {3, 1}}[(opt+frames)%4], Pattern: fam.PNGPatterns[(pal+opt+s.w)%len(fam.PNGPatterns)]}
					us = append(us, imgUnit{mk: func() (*fam.ImageCase, error) { return fam.GIFCase(spec) }, pixfmt: fam.PixBGRANonpremul})
				}
			}
		}
	}
	// BMP (hand-written encoder)
	for _, kind := range []string{"bgr24", "bgrx32", "pal8", "pal4", "pal1"} {
		for _, s := range append(sizes[:20:20], sz{33, 3}, sz{64, 9}) {
			for _, td := range []bool{false, true} {
				kind, s, td := kind, s, td
				us = append(us, imgUnit{mk: func() (*fam.ImageCase, error) { return bmpCase(kind, s.w, s.h, td, fam.PNGPatterns[(s.w+s.h)%5]) }, pixfmt: fam.PixBGRANonpremul})
			}
		}
	}
	// JPEG (lossy: tolerance)
	for _, kind := range []string{"gray8", "rgb8"} {
		for _, s := range []sz{{1, 1}, {7, 5}, {8, 8}, {9, 9}, {16, 16}, {17, 33}, {64, 48}} {
			for _, q := range []int{50, 90, 100} {
				for _, pattern := range []string{"const", "smooth"} {
					kind, s, q, pattern := kind, s, q, pattern
					us = append(us, imgUnit{mk: func() (*fam.ImageCase, error) { return jpegCase(kind, pattern, s.w, s.h, q) }, pixfmt: fam.PixBGRANonpremul, tol: jpegTolerance})
				}
			}
		}
	}
	return us
}

func images(e *env, variant string) {
	us := imageUnits(e.r.Thorough())
	if variant == cserve.Plain {
		e.r.Add("image_units(file x destination format)", int64(len(us)))
	}
	{
		e.pass(variant, 32, func(k int, l *local) func() drv.Job {
			i := k
			return func() drv.Job {
				if i >= len(us) || e.stop() {
					return nil
				}
				u := us[i]
				i += e.nw
				c, err := u.mk()
				if err != nil {
					ev.Fatal("reference image encoder: %v", err)
				}
				return &drv.ImageJob{Spec: drv.Spec{Pkg: c.Pkg, Data: c.Data, PixFmt: u.pixfmt, WantPixels: true}, Done: func(j *drv.ImageJob) { judgeImage(e, l, variant, c, &u, j) }}
			}
		})
	}
	for _, i := range []int{0, len(us) / 3, 2 * len(us) / 3, len(us) - 1} {
		if variant != cserve.Plain {
			break
		}
		if c, err := us[i].mk(); err == nil {
			e.r.Sample(map[string]any{"decoder": c.Pkg, "case": c.Desc, "file_hex": hex.EncodeToString(clip(c.Data, 64)), "file_len": len(c.Data), "pixfmt": fmt.Sprintf("0x%08x", us[i].pixfmt)})
		}
	}
}

func judgeImage(e *env, l *local, variant string, c *fam.ImageCase, u *imgUnit, j *drv.ImageJob) {
	l.evals++
	o := &j.Out
	fail := func(clause, detail string) {
		e.r.Violation(fmt.Sprintf("%s:%s:pixfmt%08x:%s", c.Pkg, c.Class, u.pixfmt, clause), fmt.Sprintf("wuffs %s decoder on %s (%d bytes): %s", c.Pkg, c.Desc, len(c.Data), detail),
			imageWitness{Kind: "image", Variant: variant, Pkg: c.Pkg, PixFmt: u.pixfmt, Desc: c.Desc, DataHex: hex.EncodeToString(c.Data), Detail: detail + " " + o.CrashLog, Tol: u.tol})
	}
	switch {
	case o.Crash != "":
		fail("crash", o.Crash)
		return
	case o.Refused != "":
		ev.Fatal("server refused %s: %s", c.Desc, o.Refused)
	}
	// canonical sequence must end with `@base: end of data` from decode_frame_config after all frames decoded ok
	if o.Status != drv.StEndOfData {
		fail("status:"+statusClass(o.Status), fmt.Sprintf("call sequence ended with status %q after %d frames (want %d frames, then %q)", o.Status, len(j.Frames), len(c.Frames), drv.StEndOfData))
		return
	}
	if j.Image[3] != uint64(c.W) || j.Image[4] != uint64(c.H) {
		fail("image-config", fmt.Sprintf("image config %dx%d, want %dx%d", j.Image[3], j.Image[4], c.W, c.H))
		return
	}
	if len(j.Frames) != len(c.Frames) {
		fail("frame-count", fmt.Sprintf("%d frames decoded, reference has %d", len(j.Frames), len(c.Frames)))
		return
	}
	for fi := range c.Frames {
		rf, gf := &c.Frames[fi], &j.Frames[fi]
		b := rf.Bounds
		if gf.Config[0] != uint64(b.Min.X) || gf.Config[1] != uint64(b.Min.Y) || gf.Config[2] != uint64(b.Max.X) || gf.Config[3] != uint64(b.Max.Y) {
			fail("frame-bounds", fmt.Sprintf("frame %d bounds (%d,%d)-(%d,%d), reference %v", fi, gf.Config[0], gf.Config[1], gf.Config[2], gf.Config[3], b))
			return
		}
		if rf.Duration != ^uint64(0) && gf.Config[4] != rf.Duration {
			fail("frame-duration", fmt.Sprintf("frame %d duration %d flicks, reference %d", fi, gf.Config[4], rf.Duration))
			return
		}
		if rf.Disposal != ^uint64(0) && gf.Config[7] != rf.Disposal {
			fail("frame-disposal", fmt.Sprintf("frame %d disposal %d, reference %d", fi, gf.Config[7], rf.Disposal))
			return
		}
		want := rf.Canvas
		switch u.pixfmt {
		case fam.PixRGBANonpremul:
			want = swapRB(want)
		case fam.PixBGRANonpremul4x16LE:
			want = rf.Canvas16
		}
		idx, maxd, mean := pixDiff(gf.Pixels, want, u.tol)
		if u.tol > 0 {
			l.h("jpeg_max_abs_difference", fmt.Sprint(maxd))
		}
		if idx >= 0 || (u.tol > 0 && mean > jpegMeanTolerance) {
			bpp := 4
			if u.pixfmt == fam.PixBGRANonpremul4x16LE {
				bpp = 8
			}
			px := 0
			if idx >= 0 {
				px = idx / bpp
			}
			fail("pixels", fmt.Sprintf("frame %d: pixel buffer differs from the reference (len %d vs %d) first at pixel (%d,%d) byte %d: got %x want %x (max abs diff %d, mean %.2f, tolerance %d)",
				fi, len(gf.Pixels), len(want), px%max(c.W, 1), px/max(c.W, 1), idx, clip(gf.Pixels[min(px*bpp, len(gf.Pixels)):], bpp), clip(want[min(px*bpp, len(want)):], bpp), maxd, mean, u.tol))
			return
		}
	}
	nf := uint64(len(c.Frames))
	if n := o.Obs[len(o.Obs)-3]; n != nf {
		fail("num-decoded-frames", fmt.Sprintf("num_decoded_frames() = %d after %d frames", n, nf))
		return
	}
	l.h("outcomes", c.Family+":ok")
	if variant == cserve.Plain {
		for k, v := range c.Info {
			if k == "filters" {
				for _, f := range v {
					l.h("png_filter_bytes_present", string(f))
				}
				continue
			}
			l.h(c.Family+"_"+k, v)
		}
		l.h("image_src_pixfmt", fmt.Sprintf("%s:0x%08x", c.Family, j.Image[1]))
		if c.Family == "gif" {
			l.h("gif_frames", fmt.Sprint(len(c.Frames)))
		}
	}
	l.seen[fnv([]byte(c.Pkg), c.Data, []byte{byte(u.pixfmt >> 24), byte(u.pixfmt >> 8), byte(u.pixfmt)})] = struct{}{}
}
