package main

import (
	"bytes"
	"compress/bzip2"
	"compress/flate"
	"compress/gzip"
	"compress/lzw"
	"compress/zlib"
	"encoding/hex"
	"fmt"
	"io"

	"verif/checks/c07/drv"
	"verif/checks/c07/fam"
	"verif/internal/cserve"
	"verif/internal/ev"
)

type unit struct {
	s  *fam.Setting
	p  *fam.Payload
	p1 bool
}

type xformWitness struct {
	Kind    string      `json:"kind"` // "xform"
	Variant string      `json:"variant"`
	Pkg     string      `json:"pkg"`
	Quirks  [][2]uint64 `json:"quirks,omitempty"`
	Desc    string      `json:"desc"`
	DataHex string      `json:"data_hex"`
	WantHex string      `json:"want_hex"`
	WantLen int         `json:"want_len"`
	Status  string      `json:"status"`
	GotLen  uint64      `json:"got_len"`
	Detail  string      `json:"detail"`
	DstStep int         `json:"dst_step,omitempty"` // streaming decode: capacity of every destination buffer
	WantFNV uint64      `json:"want_fnv,omitempty"` // FNV-1a of the whole expected output (want_hex holds only its head)
}

// refDec decodes with the Go reference decoders (self-check of the reference side); readers are reused.
type refDec struct {
	fr io.ReadCloser
	zr io.ReadCloser
	gr *gzip.Reader
}

func (d *refDec) decode(c *fam.Case) ([]byte, error) {
	var rd io.Reader
	switch c.Family {
	case "flate", "flate-dictprefix":
		if d.fr == nil {
			d.fr = flate.NewReader(bytes.NewReader(c.Data))
		} else if err := d.fr.(flate.Resetter).Reset(bytes.NewReader(c.Data), nil); err != nil {
			return nil, err
		}
		rd = d.fr
	case "zlib":
		if d.zr == nil {
			z, err := zlib.NewReader(bytes.NewReader(c.Data))
			if err != nil {
				return nil, err
			}
			d.zr = z
		} else if err := d.zr.(zlib.Resetter).Reset(bytes.NewReader(c.Data), nil); err != nil {
			return nil, err
		}
		rd = d.zr
	case "gzip", "gzip2":
		if d.gr == nil {
			z, err := gzip.NewReader(bytes.NewReader(c.Data))
			if err != nil {
				return nil, err
			}
			d.gr = z
		} else if err := d.gr.Reset(bytes.NewReader(c.Data)); err != nil {
			return nil, err
		}
		rd = d.gr
	case "lzw":
		rd = lzw.NewReader(bytes.NewReader(c.Data), lzw.LSB, int(c.Quirks[0][1])-1)
	case "bzip2":
		rd = bzip2.NewReader(bytes.NewReader(c.Data))
	default:
		return c.Want, nil // xz/lzma: no Go reference decoder in the standard library
	}
	return io.ReadAll(rd)
}

// vacuity records what the stream actually contains.
func vacuity(l *local, c *fam.Case) {
	body := c.Data
	switch c.Family {
	case "zlib":
		if len(body) < 6 {
			return
		}
		body = body[2:]
	case "gzip", "gzip2":
		flg, off, ok := fam.GzipFlagsAndBody(body)
		if !ok {
			ev.Fatal("cannot parse the gzip header written by compress/gzip: %x", clip(body, 40))
		}
		l.h("gzip_flg", fmt.Sprintf("0x%02x", flg))
		if c.Family == "gzip2" {
			l.h("gzip_members", "2")
		} else {
			l.h("gzip_members", "1")
		}
		body = body[off:]
	case "flate", "flate-dictprefix":
	default:
		return
	}
	st, err := fam.AnalyzeDeflate(body)
	if err != nil {
		ev.Fatal("the independent DEFLATE walker rejects a reference stream (%s): %v", c.Desc, err)
	}
	if c.Family != "gzip2" && st.OutLen != len(c.Want) {
		ev.Fatal("the independent DEFLATE walker computes %d output bytes for %s, want %d", st.OutLen, c.Desc, len(c.Want))
	}
	l.h("deflate_blocks", fmt.Sprintf("stored=%s fixed=%s dynamic=%s", few(st.Stored), few(st.Fixed), few(st.Dynamic)))
	if st.Stored > 0 {
		l.cnt["deflate_streams_with_stored_block"]++
	}
	if st.Fixed > 0 {
		l.cnt["deflate_streams_with_fixed_block"]++
	}
	if st.Dynamic > 0 {
		l.cnt["deflate_streams_with_dynamic_block"]++
	}
	if st.Stored+st.Fixed+st.Dynamic > 1 {
		l.cnt["deflate_streams_with_several_blocks"]++
	}
	l.h("deflate_max_distance", bucket(st.MaxDist))
	l.h("deflate_max_match_length", bucket(st.MaxLen))
	l.h("deflate_max_code_length", fmt.Sprint(st.MaxCodeLen))
}

func sizeClass(n int) string {
	if n&(n-1) == 0 {
		return "2^k"
	}
	return "not 2^k"
}

func few(n int) string {
	switch {
	case n == 0:
		return "0"
	case n == 1:
		return "1"
	}
	return "2+"
}

func bucket(n int) string {
	switch {
	case n == 0:
		return "0"
	case n <= 4:
		return fmt.Sprint(n)
	case n <= 32:
		return "5..32"
	case n <= 258:
		return "33..258"
	case n <= 4096:
		return "259..4096"
	case n <= 32767:
		return "4097..32767"
	case n == 32768:
		return "32768"
	}
	return ">32768"
}

func (e *env) codecJobs(variant string, width int, units []unit, pick func(i int) bool) {
	toolErr := map[string]bool{}
	e.pass(variant, width, func(k int, l *local) func() drv.Job {
		enc := fam.NewEnc()
		var queue []drv.Job
		i := k
		var gen func() drv.Job
		ref := &refDec{}
		var mkJob func(c fam.Case, data, want []byte, part string, sc drv.Script) drv.Job
		mkJob = func(c fam.Case, data, want []byte, part string, sc drv.Script) drv.Job {
			if sc.DstStep > 0 {
				part = fmt.Sprintf(":streaming(dst buffers of %s)", sizeClass(sc.DstStep))
			}
			return &drv.XformJob{Spec: drv.Spec{Pkg: c.Pkg, Quirks: c.Quirks, Data: data}, Script: sc, Ample: uint32(len(want) + 4096), OutMode: drv.OutBytes,
				MaxCalls: 8*(len(data)+len(want)) + 4096,
				Done: func(j *drv.XformJob) {
					l.evals++
					o := &j.Out
					fail := func(clause, detail string) {
						e.r.Violation(fmt.Sprintf("%s:%s:%s%s", c.Pkg, c.Class, clause, part), fmt.Sprintf("wuffs %s decoder on %s (%d bytes -> want %d bytes): %s", c.Pkg, c.Desc, len(data), len(want), detail),
							xformWitness{Kind: "xform", Variant: variant, Pkg: c.Pkg, Quirks: c.Quirks, Desc: c.Desc, DataHex: hex.EncodeToString(clip(data, 1<<17)), WantHex: hex.EncodeToString(clip(want, 1<<12)), WantLen: len(want),
								Status: o.Status, GotLen: o.OutLen, Detail: detail + " " + o.CrashLog, DstStep: sc.DstStep, WantFNV: fnv(want)})
					}
					switch {
					case o.Crash != "":
						fail("crash", o.Crash)
						return
					case o.Refused != "":
						ev.Fatal("server refused %s: %s", c.Desc, o.Refused)
					case sc.DstStep > 0 && o.Status == "stuck: "+drv.StShortWrite:
						// the decoder wants more free destination space than this buffer size offers (std/lzma: 274 bytes
						// before a match): a minimum-buffer demand is C03's territory, the size does not apply to this decoder
						l.h("streaming_size_not_applicable(decoder wants a larger destination)", fmt.Sprintf("%s:%d", c.Pkg, sc.DstStep))
						return
					case o.Status != "":
						fail("status:"+o.Status, fmt.Sprintf("final status %q after %d calls, %d output bytes", o.Status, o.Calls, o.OutLen))
						return
					}
					if c.Family == "gzip2" && part == "" {
						// std/gzip decodes one member: the rest goes to a fresh decoder.
						n := int(o.Consumed)
						if n <= 0 || n >= len(data) || !bytes.HasPrefix(want, o.Out) {
							fail("member-boundary", fmt.Sprintf("first member: consumed %d of %d bytes, produced %d bytes (first difference at %d)", n, len(data), len(o.Out), firstDiff(o.Out, clip(want, len(o.Out)))))
							return
						}
						l.h("outcomes", c.Family+":first-member-ok")
						queue = append(queue, mkJob(c, data[n:], want[len(o.Out):], ":member2", drv.Script{}))
						return
					}
					if d := firstDiff(o.Out, want); d >= 0 {
						fail("output", fmt.Sprintf("status ok but output differs: got %d bytes, want %d, first difference at offset %d", len(o.Out), len(want), d))
						return
					}
					if o.Spurious > 0 {
						l.cnt["spurious_short_read_on_closed_source(C03)"]++
					}
					if sc.DstStep > 0 {
						l.h("outcomes", c.Family+":streaming-ok")
						l.h("streaming_decodes_by_buffer_size", fmt.Sprint(sc.DstStep))
						if o.Susp[1] > 0 {
							l.cnt["streaming_decodes_with_short_write_resume"]++
						}
						return
					}
					// payloads above 4 KiB are decoded again as a stream: uniform destination buffers smaller than the output
					if len(want) > 4096 && part == "" && c.Family != "gzip2" {
						for _, sz := range drv.UniformDstSizes {
							if sz < len(want) && (variant == cserve.Plain || sz == 300 || sz == 4096) {
								queue = append(queue, mkJob(c, data, want, "", drv.Script{DstStep: sz}))
							}
						}
					}
					l.h("outcomes", c.Family+":ok")
					l.h("calls_per_decode", fmt.Sprint(min(o.Calls, 5)))
					if len(want) > 0 {
						l.seen[fnv([]byte(c.Pkg), data)] = struct{}{}
					}
				}}
		}
		// the encoders (in particular the external tools) run in a producer goroutine so that they overlap with the
		// server's work; the vacuity counters and the reference self-check stay on the consumer side (worker-local state)
		type produced struct {
			u     unit
			cases []fam.Case
			err   error
		}
		ch := make(chan produced, 6)
		go func() {
			defer close(ch)
			for ; i < len(units); i += e.nw {
				if e.stop() {
					return
				}
				if !pick(i) {
					continue
				}
				u := units[i]
				var cases []fam.Case
				var err error
				if len(u.s.Tool) > 0 {
					// external tools are slow to start: their output is kept for the second (ASan) pass
					key := u.s.String() + "\x00" + u.p.Desc
					if v, ok := e.toolCache.Load(key); ok {
						cases = v.([]fam.Case)
					} else if cases, err = enc.Encode(u.s, u.p); err == nil {
						e.toolCache.Store(key, cases)
					}
				} else {
					cases, err = enc.Encode(u.s, u.p)
				}
				ch <- produced{u, cases, err}
			}
		}()
		gen = func() drv.Job {
			for {
				if len(queue) > 0 {
					j := queue[0]
					queue = queue[1:]
					return j
				}
				p, ok := <-ch
				if !ok {
					return nil
				}
				u, cases, err := p.u, p.cases, p.err
				if err != nil {
					e.mu.Lock()
					if !toolErr[u.s.String()] {
						toolErr[u.s.String()] = true
						fmt.Printf("note: %v\n", err)
					}
					e.mu.Unlock()
					l.cnt["SKIPPED_"+u.s.Family+"_tool_failed"]++
					continue
				}
				for ci := range cases {
					c := cases[ci]
					if variant == cserve.Plain {
						got, err := ref.decode(&c)
						if err != nil || !bytes.Equal(got, c.Want) {
							ev.Fatal("reference decoder does not reproduce the payload for %s: %v", c.Desc, err)
						}
						vacuity(l, &c)
						l.h("families", c.Family)
					}
					queue = append(queue, mkJob(c, c.Data, c.Want, "", drv.Script{}))
				}
			}
		}
		return gen
	})
}

var quickToolSize = map[int]bool{0: true, 1: true, 2: true, 3: true, 5: true, 8: true, 13: true, 21: true, 34: true, 40: true, 256: true, 259: true, 4096: true, 32768: true, 65537: true, 100000: true}

// codecUnits builds the (setting x payload) units: long = structured payloads (P2) and the external tools,
// short = the exhaustive short payloads (P1) with the flush variants.
func codecUnits(e *env) (long, short []unit) {
	r := e.r
	p1max := 7
	if r.Thorough() {
		p1max = 9
	}
	p1 := fam.P1Payloads(p1max)
	p2 := fam.P2Payloads(1 << 20)
	ss := fam.Settings(true, r.Thorough())
	ls := fam.Settings(false, r.Thorough())
	for si := range ss {
		for pi := range p1 {
			short = append(short, unit{&ss[si], &p1[pi], true})
		}
	}
	for si := range ls {
		for pi := range p2 {
			if ls[si].Flush == "all" && len(p2[pi].Data) > 5000 {
				continue // a Flush after every byte is only applied to payloads up to 4097 bytes
			}
			long = append(long, unit{&ls[si], &p2[pi], false})
		}
	}
	// external tools: structured payloads and the short payloads up to length 3 (thorough: 4)
	tools := fam.ToolSettings(r.Thorough())
	toolP1 := fam.P1Count(3)
	if r.Thorough() {
		toolP1 = fam.P1Count(4)
	}
	for ti := range tools {
		t := &tools[ti]
		if !fam.ToolAvailable(t.Tool[0]) {
			r.Add("SKIPPED_"+t.Family+"_tool_absent:"+t.Tool[0], 1)
			continue
		}
		heavy := false // xz -9e: 64 MiB dictionary, ~700 MB of encoder memory per run
		for _, a := range t.Tool {
			if a == "-9e" {
				heavy = true
			}
		}
		for pi := range p2 {
			if n := len(p2[pi].Data); (!r.Thorough() || heavy) && (!quickToolSize[n] || (heavy && pi%2 == 1)) {
				continue // quick (and the -9e presets in thorough): a subset of the structured sizes goes through the external tools
			}
			long = append(long, unit{t, &p2[pi], false})
		}
		for pi := 0; pi < toolP1 && !heavy; pi++ {
			long = append(long, unit{t, &p1[pi], false})
		}
	}
	r.Add("codec_units_long(setting x P2 payload, tools)", int64(len(long)))
	r.Add("codec_units_short(setting x P1 payload)", int64(len(short)))
	r.Add("settings_short", int64(len(ss)))
	r.Add("settings_long", int64(len(ls)))
	r.Add("payloads_P1", int64(len(p1)))
	r.Add("payloads_P2", int64(len(p2)))
	for _, us := range [][]unit{long, short} {
		for _, i := range []int{len(us) / 3, len(us) - 1} {
			cs, err := fam.NewEnc().Encode(us[i].s, us[i].p)
			if err == nil && len(cs) > 0 {
				c := cs[len(cs)/2]
				r.Sample(map[string]any{"decoder": c.Pkg, "case": c.Desc, "stream_hex": hex.EncodeToString(clip(c.Data, 64)), "stream_len": len(c.Data), "payload_len": len(c.Want)})
			}
		}
	}
	return long, short
}
