// C07 — std codecs agree with independent implementations on valid data.
//
// Payload families x reference-encoder settings are enumerated (checks/c07/fam), every encoded
// stream / image is decoded by the C freshly generated from the working tree (internal/cserve)
// and compared with the original payload (pixels: with Go's own decode of the same file,
// converted to the destination pixel format). Hashers are compared with Go's hash packages
// under every partition of the input into update calls.
package main

import (
	"fmt"
	"os"
	"sort"
	"strconv"
	"strings"
	"sync"
	"time"

	"verif/checks/c07/drv"
	"verif/internal/cserve"
	"verif/internal/ev"
)

var modules = []string{"deflate", "zlib", "gzip", "lzw", "bzip2", "lzma", "xz", "png", "gif", "jpeg", "bmp", "crc32", "crc64", "adler32", "sha256"}

type env struct {
	r     *ev.Run
	built *cserve.Built
	nw    int
	srv   map[string][]*cserve.Server
	mu    sync.Mutex
	seen  map[uint64]struct{} // distinct verified non-trivial cases

	toolCache sync.Map

	firstViolation time.Time
	evals          int64
}

func (e *env) servers(variant string) []*cserve.Server {
	if s, ok := e.srv[variant]; ok {
		return s
	}
	s, err := e.built.StartN(variant, e.nw)
	if err != nil {
		ev.Fatal("cannot start %s servers: %v", variant, err)
	}
	e.srv[variant] = s
	return s
}

// stop: the budget is used up, or violations have been found and a little more time has passed (a run on a
// defective tree need not finish the enumeration; it is then reported as not exhaustive).
var deadline time.Time

// budget: VERIF_BUDGET_S, or the tier's default.
func budget(r *ev.Run, quick, thorough time.Duration) time.Duration {
	if s := os.Getenv("VERIF_BUDGET_S"); s != "" {
		if n, err := strconv.Atoi(s); err == nil {
			return time.Duration(n) * time.Second
		}
	}
	if r.Thorough() {
		return thorough
	}
	return quick
}

func (e *env) stop() bool {
	if time.Now().After(deadline) {
		e.r.MarkCapped()
		return true
	}
	if n := e.r.NumViolations(); n > 0 {
		e.mu.Lock()
		if e.firstViolation.IsZero() {
			e.firstViolation = time.Now()
		}
		t := e.firstViolation
		e.mu.Unlock()
		if n >= 5 || time.Since(t) > 20*time.Second {
			e.r.MarkCapped()
			return true
		}
	}
	return false
}

func (e *env) closeAll() {
	for _, l := range e.srv {
		for _, s := range l {
			s.Close()
		}
	}
}

// local is a per-worker accumulator, merged at the end of a pass.
type local struct {
	evals int64
	seen  map[uint64]struct{}
	hist  map[string]map[string]int64
	cnt   map[string]int64
}

func newLocal() *local {
	return &local{seen: map[uint64]struct{}{}, hist: map[string]map[string]int64{}, cnt: map[string]int64{}}
}

func (l *local) h(hist, key string) {
	m := l.hist[hist]
	if m == nil {
		m = map[string]int64{}
		l.hist[hist] = m
	}
	m[key]++
}

func (e *env) merge(l *local) {
	e.mu.Lock()
	e.evals += l.evals
	for k := range l.seen {
		e.seen[k] = struct{}{}
	}
	e.mu.Unlock()
	for name, m := range l.hist {
		e.r.MergeHist(name, m)
	}
	for k, v := range l.cnt {
		e.r.Add(k, v)
	}
}

func fnv(parts ...[]byte) uint64 {
	h := uint64(14695981039346656037)
	for _, p := range parts {
		for _, c := range p {
			h ^= uint64(c)
			h *= 1099511628211
		}
		h ^= 0xFF
		h *= 1099511628211
	}
	return h
}

// pass runs gen-produced jobs on every worker's server of the given variant. mk(worker) returns the
// worker's job generator.
func (e *env) pass(variant string, width int, mk func(k int, l *local) func() drv.Job) {
	srvs := e.servers(variant)
	var wg sync.WaitGroup
	for k := 0; k < e.nw; k++ {
		wg.Add(1)
		go func(k int) {
			defer wg.Done()
			l := newLocal()
			if err := drv.Run(srvs[k], width, mk(k, l)); err != nil {
				ev.Fatal("driver: %v", err)
			}
			e.merge(l)
		}(k)
	}
	wg.Wait()
}

func clip(b []byte, n int) []byte {
	if len(b) > n {
		return b[:n]
	}
	return b
}

func firstDiff(a, b []byte) int {
	n := min(len(a), len(b))
	for i := 0; i < n; i++ {
		if a[i] != b[i] {
			return i
		}
	}
	if len(a) != len(b) {
		return n
	}
	return -1
}

func statusClass(st string) string {
	if st == "" {
		return "ok"
	}
	return st
}

func main() {
	if len(os.Args) > 2 && os.Args[1] == "replay" {
		replay(os.Args[2])
		return
	}
	// ev.Start first: it re-executes the binary as a supervised worker, so nothing expensive may precede it
	r := ev.Start("C07", "exploration")
	// glibc malloc in the (plain) server processes: no mmap per large buffer and no trimming, so that the
	// multi-megabyte objects and buffers that are allocated and freed per job reuse warm pages
	os.Setenv("MALLOC_MMAP_THRESHOLD_", "1073741824")
	os.Setenv("MALLOC_TRIM_THRESHOLD_", "4294967295")
	os.Setenv("MALLOC_TOP_PAD_", "67108864")
	scratch, mine, err := cserve.Scratch()
	if err != nil {
		ev.Fatal("%v", err)
	}
	if mine {
		defer os.RemoveAll(scratch)
	}
	t0 := time.Now()
	built, err := cserve.Build(scratch, []string{cserve.Asan, cserve.Plain}, modules)
	if err != nil {
		ev.Fatal("cserve build: %v", err)
	}
	// the exploration budget starts after the C build (its duration is reported separately): on a loaded machine
	// the build alone can take minutes, and an exploration that never starts detects nothing.
	r.SetBudget(24*time.Hour, 24*time.Hour)
	deadline = time.Now().Add(budget(r, 8*time.Minute, 40*time.Minute))
	r.Add("build_ms", time.Since(t0).Milliseconds())
	built.HangTimeout = 90 * time.Second // one wuffs call running for 90 s is a hang (typical: microseconds)
	e := &env{r: r, built: built, nw: ev.Workers(), srv: map[string][]*cserve.Server{}, seen: map[uint64]struct{}{}}
	defer e.closeAll()

	on := func(name string) bool {
		sel := os.Getenv("C07_PHASES")
		if sel != "" {
			r.MarkCapped()
		}
		return sel == "" || strings.Contains(","+sel+",", ","+name+",")
	}
	phase := func(name string, f func()) {
		if !on(name) {
			return
		}
		t := time.Now()
		f()
		r.Add("phase_ms_"+name, time.Since(t).Milliseconds())
	}
	// cheap, wide parts first (a capped run still touches every family); ASan passes last
	long, short := codecUnits(e)
	all := func(int) bool { return true }
	phase("codecs_long", func() { e.codecJobs(cserve.Plain, 6, long, all) })
	phase("images", func() { images(e, cserve.Plain) })
	phase("hashers_long", func() { hashers(e, cserve.Plain, true) })
	phase("codecs_short", func() { e.codecJobs(cserve.Plain, 48, short, all) })
	phase("hashers_short", func() { hashers(e, cserve.Plain, false) })
	phase("asan_codecs_long", func() {
		e.codecJobs(cserve.Asan, 6, long, func(i int) bool {
			n := len(long[i].p.Data)
			return r.Thorough() || n <= 4097 || n == 32768 || n == 65537 || n == 100000
		})
	})
	phase("asan_images", func() { images(e, cserve.Asan) })
	phase("asan_hashers", func() { hashers(e, cserve.Asan, true); hashers(e, cserve.Asan, false) })
	phase("asan_codecs_short", func() { e.codecJobs(cserve.Asan, 48, short, func(i int) bool { return i%4 == 0 }) })
	e.closeAll()
	r.Add("harness_stalls_retried", drv.Stalls.Load())

	var skipped []string
	for k, v := range r.Counters {
		if strings.HasPrefix(k, "SKIPPED_") && v > 0 {
			skipped = append(skipped, k)
		}
	}
	sort.Strings(skipped)
	p1 := 7
	if r.Thorough() {
		p1 = 9
	}
	r.Finish(ev.Coverage{
		Evaluations:        e.evals,
		DistinctNontrivial: int64(len(e.seen)) + r.Counters["hasher_partitions_verified(>=2 parts)"],
		Rule: fmt.Sprintf("payloads: every byte string over {00,'a',ff} of length <= %d (P1) and structured payloads (6 patterns x sizes 0..40, 255..260, 4095..4097, 32766..32770, 65534..65538, 100000, plus a period-251 cycle and a word salad from size 255 up) (P2) x "+
			"compress/flate levels {-2,0,1,2,5,9} as raw deflate / zlib / gzip, with Flush at every single position and after every byte, preset dictionary (given to the decoder as a leading stored block), "+
			"gzip header fields and two-member files, compress/lzw LSB widths 2..8, bzip2 -1/-9, xz presets x checks, xz --format=lzma; image/png: 17 image kinds x 5 patterns x sizes 1..9 x 1..5 and 33x3 x 4 compression levels, "+
			"decoded to BGRA_NONPREMUL, RGBA_NONPREMUL and (16-bit sources) BGRA_NONPREMUL_4X16LE; image/gif: palette sizes x frames x local palettes x transparency x sub-rectangles x disposal; image/jpeg (tolerance) and hand-written BMP; "+
			"hashers crc32/crc64/adler32/sha256: every P1 payload (length <= %s) and 5 patterns at every length <= %s under every partition into update calls (length <= 10) / every 2- and 3-part partition (longer; quick: lengths 49..200 one-shot and 2-part only), update! / update_uNN! / alternating entry points, plus the structured sizes up to 100000 one-shot at 16 alignments and 2-part splits at structural offsets. "+
			"every stream whose payload exceeds 4 KiB is decoded a second time as a stream, every call getting a fresh destination buffer of 256, 300, 1000, 1024, 4096, 4097, 32768 or 65536 bytes (each size smaller than the payload). "+
			"evaluations = decodes + hasher partitions run on the generated C; distinct non-trivial = distinct (decoder, encoded stream) with a non-empty payload, distinct image files, and (hasher, distinct payload of >= 2 bytes, partition into >= 2 update calls x entry-point mode) combinations (distinct by construction, counted on the plain build only), each verified equal to the reference",
			p1, map[bool]string{false: "6", true: "8"}[r.Thorough()], map[bool]string{false: "48", true: "200"}[r.Thorough()]),
		Exhaustive: true,
		Extra:      map[string]any{"skipped_subfamilies": skipped, "cserve_compile_seconds": built.CompileSeconds, "cserve_gen_seconds": built.GenSeconds},
	}, []string{
		"the reference encoders/decoders (Go standard library, bzip2, xz on PATH) are trusted; every reference stream is also decoded by its Go reference decoder or analysed by an independent DEFLATE walker before use (harness error on mismatch)",
		"preset dictionaries: the state server has no add_history/add_dictionary command, so the dictionary is presented as a leading stored block (same back-references, different entry point); zlib FDICT streams are not covered",
		"a two-member gzip file is decoded member by member with a fresh decoder per member (std/gzip decodes one member per object); the oracle demands that the first decode stops exactly at the member boundary",
		"JPEG is lossy: Wuffs pixels are compared with image/jpeg's within +-" + fmt.Sprint(jpegTolerance) + " per channel (mean <= " + fmt.Sprint(jpegMeanTolerance) + "), not exactly",
		"plain (-O2) servers run every case; ASan+UBSan servers run every 4th short-payload stream, the structured payloads (quick: sizes <= 4097 and 32768, 65537, 100000), all images and the one-shot / two-part hasher partitions",
	})
}
