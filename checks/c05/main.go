// C05 — coroutine results do not depend on where the I/O streams are split.
//
// Part (b): std decoders. For every seed file of test/data (<= 64 KiB) and every valid input
// of C07's families up to 64 bytes (images: 200 bytes), the decode is run once with
// everything available and then under scripts that cut the source and the destination into
// successive calls; every chunked run must agree with the one-shot run (output, final status,
// observable state and - unless the run ends in an error - consumed byte count).
//
// Part (a) (generated coroutines, engines E1/E2) is a second function of this package: main
// calls partB today; a later partA(r) is to be called from the same place.
package main

import (
	"fmt"
	"os"
	"sort"
	"strconv"
	"strings"
	"time"

	"verif/internal/cserve"
	"verif/internal/ev"
)

var deadline time.Time

// budget: VERIF_BUDGET_S, or the tier's default.
func budget(r *ev.Run, quick, thorough time.Duration) time.Duration {
	if s := os.Getenv("VERIF_BUDGET_S"); s != "" {
		if n, err := strconv.Atoi(s); err == nil {
			return time.Duration(n) * time.Second
		}
	}
	if r.Thorough() {
		return thorough
	}
	return quick
}

func main() {
	if len(os.Args) > 2 && os.Args[1] == "replay" {
		if replayA(os.Args[2]) {
			return
		}
		replay(os.Args[2])
		return
	}
	// ev.Start first: it re-executes the binary as a supervised worker, so nothing expensive may precede it
	r := ev.Start("C05", "exploration")
	// glibc malloc in the (plain) server processes: no mmap per large buffer and no trimming, so that the
	// multi-megabyte objects and buffers that are allocated and freed per job reuse warm pages
	os.Setenv("MALLOC_MMAP_THRESHOLD_", "1073741824")
	os.Setenv("MALLOC_TRIM_THRESHOLD_", "4294967295")
	os.Setenv("MALLOC_TOP_PAD_", "67108864")
	scratch, mine, err := cserve.Scratch()
	if err != nil {
		ev.Fatal("%v", err)
	}
	if mine {
		defer os.RemoveAll(scratch)
	}
	r.SetBudget(24*time.Hour, 24*time.Hour)
	only := os.Getenv("VERIF_C05_ONLY") // "a" or "b": one half only (development / self-tests)
	var b bResult
	built := &cserve.Built{}
	if only != "a" {
		t0 := time.Now()
		built, err = cserve.Build(scratch, []string{cserve.Asan, cserve.Plain}, allModules())
		if err != nil {
			ev.Fatal("cserve build: %v", err)
		}
		// the exploration budget starts after the C build (reported separately as build_ms)
		deadline = time.Now().Add(budget(r, 6*time.Minute, 30*time.Minute))
		r.Add("build_ms", time.Since(t0).Milliseconds())
		built.HangTimeout = 90 * time.Second
		b = partB(r, built)
	} else {
		b.complete = true
	}
	// part (a): generated coroutines (progen coro/io families + local extras) on the C generated for
	// them, one-shot vs chunked per plan vs the reference interpreter's ideal semantics
	var pa partAResult
	if only != "b" {
		pa = partA(r, time.Now().Add(budget(r, 4*time.Minute, 25*time.Minute)))
	} else {
		pa.complete = true
	}

	var skipped []string
	for k, v := range r.Counters {
		if strings.HasPrefix(k, "SKIPPED_") && v > 0 {
			skipped = append(skipped, k)
		}
	}
	sort.Strings(skipped)
	r.Finish(ev.Coverage{
		Evaluations:        b.evals + pa.evals,
		DistinctNontrivial: b.nontrivial + pa.nontrivial,
		Rule: "part (a), generated coroutines: " + pa.rule + " || " + fmt.Sprintf("part (b), std decoders: inputs = files of test/data up to %d bytes for %d std packages + the valid streams of C07's reference-encoder families up to 64 bytes (images up to 200 bytes) + short JSON/CBOR documents, deduplicated; "+
			"scripts per input (n source bytes, m output bytes/tokens): every single source split 0..n (n = everything given, closed only in a later call), every single destination-capacity split 0..m (transformers, token decoders), "+
			"1-byte-at-a-time source, destination and both, steps 2/3/5/16, every pair of source splits when n <= 24, and for transformers with more than 32 KiB of output a streaming decode with uniform fresh destination buffers of 256, 300, 1000, 1024, 4096, 4097, 32768 and 65536 bytes (36 long structured deflate/zlib/gzip/lzw streams are added as inputs for this); image decoders: the splits run across decode_image_config / decode_frame_config / decode_frame...; "+
			"large inputs have their single-split positions strided (%s). evaluations = chunked runs compared with the one-shot run; distinct non-trivial = distinct (input, script) pairs in which at least one call suspended and resumed and the comparison passed",
			b.maxSeed, b.nPkgs, b.strideNote),
		Exhaustive: b.complete && pa.complete,
		Extra:      map[string]any{"part_a": pa.extra, "part_a_programs": pa.programs, "skipped": skipped, "cserve_compile_seconds": built.CompileSeconds, "cserve_gen_seconds": built.GenSeconds, "inputs_by_package": b.byPkg, "largest_input_with_all_single_splits": b.largestFull},
	}, append([]string{
		"driver policy (DESIGN E4): work buffer re-queried and resized before every call; `$short read` with pieces left -> next piece; `$short write` -> next destination buffer (each call sees only the free space); a `$short read` on a closed, fully supplied source is C03's business: counted, retried once, and only the final result is compared",
		"inputs whose one-shot run ends in an error are compared on status and output only (the property exempts the consumed count after an error)",
		"outputs above 8 KiB and pixel buffers are compared by length and a 64-bit hash computed in the server, smaller outputs byte for byte",
		"token streams are compared in the normal form described in checks/c05/tokens.go (doc/note/tokens.md does not promise where runs of filler or of copyable string bytes are cut into tokens)",
		"plain (-O2) servers run every script; ASan+UBSan servers re-run the stepped (1/2/3/5/16-byte) scripts of every input (quick: inputs up to 4 KiB, thorough: up to 16 KiB) and the single source splits of inputs up to 64 bytes (quick: of every other such input); a sanitizer report that the one-shot run of the same input also triggers is counted, not reported (C03)",
	}, pa.assumptions...))
}
