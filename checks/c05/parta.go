// C05 part (a): generated coroutines. For every accepted program of the progen
// families coro / io / calls that has a public coroutine, every suspend / resume
// plan of interp.CoroPlans (source stream delivered in every cut, destination
// room granted in steps, buffers compacted or not, ...) is run
//
//	(1) on the generated C all at once (the plan with one chunk and ample room),
//	(2) on the generated C chunked as the plan says (internal/cdrive, rt.inc: cd_plan),
//	(3) in the reference interpreter, whose coroutines have the ideal semantics
//	    (a suspension is invisible except for the status and the buffer indexes).
//
// Oracle: output bytes, final status and receiver fields are identical for (1) vs
// (2) and equal to (3); the consumed-byte count too unless the final status is an
// error.
package main

import (
	"encoding/json"
	"fmt"
	"os"
	"path/filepath"
	"sort"
	"strings"
	"sync"
	"sync/atomic"
	"time"

	"verif/internal/cdrive"
	"verif/internal/ev"
	"verif/internal/interp"
	"verif/internal/progen"
)

// paWitness is the replay witness of a part (a) violation.
type paWitness struct {
	Part     string            `json:"part"` // "a"
	Family   string            `json:"family"`
	Tags     map[string]string `json:"tags,omitempty"`
	Program  string            `json:"program"`
	Config   string            `json:"config"`
	Oracle   string            `json:"oracle"`
	Plan     interp.CoroPlan   `json:"plan"`
	OneShot  *interp.CoroPlan  `json:"one_shot_plan,omitempty"`
	Observed []string          `json:"observed"`
}

// partAResult is what main merges into the evidence.
type partAResult struct {
	evals       int64 // (plan, configuration) results compared
	nontrivial  int64 // distinct (program, plan) pairs that crossed at least one suspension and passed
	programs    int64
	complete    bool
	rule        string
	extra       map[string]any
	assumptions []string
}

type paState struct {
	r       *ev.Run
	tools   *cdrive.Tools
	configs []cdrive.Config
	maxLen  int
	maxPlan int
	extend  bool

	mu         sync.Mutex
	problems   []string
	susp       map[string]int64
	crashKinds map[string]int64
	finals     map[string]int64
	variations map[string]int64
	samples    int

	programs, plans, evals, nontrivial, notReplayed, capped, calls, oneshotPairs, idealPairs, stuck, splitDependent atomic.Int64
}

func (s *paState) problem(format string, a ...any) {
	s.mu.Lock()
	if len(s.problems) < 10 {
		s.problems = append(s.problems, fmt.Sprintf(format, a...))
	}
	s.mu.Unlock()
}

func paDescribe(r cdrive.PlanResult) string {
	cl := []string{"ok", "suspension", "error"}[r.Class%3]
	return fmt.Sprintf("calls=%d final-class=%s consumed=%d stuck=%d digest(final status, written, fields)=%016x digest(status sequence)=%016x", r.NCalls, cl, r.Consumed, r.Stuck, r.HFinal, r.HStat)
}

// paCompare applies the oracle to two results of the same input; ideal says the
// right-hand side is the interpreter (whose partial multi-byte reads consume
// nothing until they complete, so a run that ends parked on a closed, exhausted
// stream may legitimately differ in the consumed count).
func paCompare(a, b cdrive.PlanResult, samePlan, ideal bool) string {
	if a.HFinal != b.HFinal {
		return "final"
	}
	if a.Class != 2 && b.Class != 2 && a.Consumed != b.Consumed {
		if !(ideal && a.Class == 1) {
			return "consumed"
		}
	}
	if samePlan && a.Stuck == 0 && b.Stuck == 0 && (a.HStat != b.HStat || a.NCalls != b.NCalls) {
		return "status-sequence"
	}
	return ""
}

func (s *paState) handle(worker int, progs []*cdrive.ProgInfo) {
	if len(progs) == 0 {
		return
	}
	b, err := s.tools.NewBatch(progs)
	if err != nil {
		s.problem("batch: %v", err)
		return
	}
	defer b.Remove()
	if err := b.Generate(worker); err != nil {
		s.problem("generate: %v", err)
		return
	}
	if len(b.Progs) == 0 {
		return
	}
	if err := b.Compile(s.configs[0]); err != nil {
		s.problem("compile: %v", err)
		return
	}
	for _, pi := range b.GenRej {
		s.r.HistAdd("partA_cgen_rejected (C11)", pi.Family, 1)
	}
	for _, pi := range b.GccRej {
		s.r.HistAdd("partA_c_compiler_rejected (C11)", pi.Family, 1)
	}
	if len(b.Progs) == 0 {
		return
	}
	jobs := make([]*cdrive.PlanJob, len(b.Progs))
	var script cdrive.Script
	expect := make([]int, len(b.Progs))
	for i, pi := range b.Progs {
		j := cdrive.EnumeratePlans(pi, s.maxLen, s.maxPlan, s.extend || pi.Family == "coro-extras")
		pi.Release()
		jobs[i] = j
		script.Section(i, j.Body)
		expect[i] = cdrive.PlanResultSize * len(j.Plans)
		s.notReplayed.Add(j.NotReplayed)
		s.calls.Add(j.Calls)
		if j.Capped {
			s.capped.Add(1)
		}
		for _, p := range append(j.InterpBugs, j.Problems...) {
			s.problem("interpreter / harness: %s\n%s", p, pi.Src)
		}
		s.mu.Lock()
		for k, v := range j.Suspensions {
			s.susp[k] += v
		}
		for _, pl := range j.Plans {
			s.variations[pl.Variation]++
		}
		s.mu.Unlock()
	}
	script.End()
	for ci, cfg := range s.configs {
		if ci > 0 {
			if err := b.Compile(cfg); err != nil {
				s.problem("compile: %v", err)
				continue
			}
		}
		out, crashes, err := b.Run(cfg, script.B, expect)
		if err != nil {
			s.problem("run: %v", err)
			continue
		}
		for _, c := range crashes {
			pi := b.Progs[c.Prog]
			s.mu.Lock()
			s.crashKinds[cfg.Name+" "+c.Kind]++
			s.mu.Unlock()
			if c.Kind == "watchdog" {
				s.r.Violation("parta|c-hang|"+strings.Join(cdrive.Constructs(pi.Src), ","),
					"the compiled coroutine did not finish plans that all terminate in the reference interpreter",
					paWitness{Part: "a", Family: pi.Family, Tags: pi.Tags, Program: pi.Src, Config: cfg.Name, Observed: strings.Split(c.Stderr, "\n")})
			}
		}
		for i := range b.Progs {
			if out[i] == nil {
				continue
			}
			s.compare(b, cfg, i, jobs[i], out[i], ci == 0)
		}
	}
	s.programs.Add(int64(len(b.Progs)))
}

func (s *paState) compare(b *cdrive.Batch, cfg cdrive.Config, prog int, j *cdrive.PlanJob, out []byte, first bool) {
	pi := b.Progs[prog]
	got := make([]cdrive.PlanResult, len(j.Plans))
	for k := range j.Plans {
		got[k] = cdrive.DecodePlanResult(out[k*cdrive.PlanResultSize:])
	}
	reported := map[string]bool{}
	for k := range j.Plans {
		pl := &j.Plans[k]
		s.evals.Add(1)
		okAll := true
		// (2) vs (3): the compiled coroutine under the plan vs the ideal semantics under the same plan.
		s.idealPairs.Add(1)
		if what := paCompare(got[k], j.Want[k], true, true); what != "" {
			okAll = false
			oracle := "chunked-C-vs-ideal"
			if cdrive.IsOneShot(pl) {
				oracle = "one-shot-C-vs-ideal"
			}
			s.report(b, cfg, prog, j, k, -1, oracle, what, got[k], j.Want[k], reported)
		}
		// (1) vs (2): the same compiled code, all at once vs chunked. Only for the
		// variations that leave the coroutine's inputs alone, and only where the
		// source's own (ideal) semantics is independent of the split: a coroutine
		// that inspects a suspension itself (`t =? this.sub?()` without yielding it
		// on) legitimately behaves differently when data is short.
		if o := j.OneShot[k]; o >= 0 && o != k && (pl.Variation == "same" || pl.Variation == "compact") {
			if paCompare(j.Want[k], j.Want[o], false, false) != "" {
				if first {
					s.splitDependent.Add(1)
				}
			} else {
				s.oneshotPairs.Add(1)
				if what := paCompare(got[k], got[o], false, false); what != "" {
					okAll = false
					s.report(b, cfg, prog, j, k, o, "chunked-C-vs-one-shot-C", what, got[k], got[o], reported)
				}
			}
		}
		if first {
			s.plans.Add(1)
			if got[k].Stuck != 0 {
				s.stuck.Add(1)
			}
			if okAll && got[k].NCalls > 1 {
				s.nontrivial.Add(1)
			}
			s.mu.Lock()
			s.finals[[]string{"ok", "suspension (parked on an exhausted stream)", "error"}[got[k].Class%3]]++
			s.mu.Unlock()
		}
	}
	s.mu.Lock()
	take := first && s.samples < 4 && len(j.Plans) > 20
	if take {
		s.samples++
	}
	s.mu.Unlock()
	if take {
		k := len(j.Plans) - 1
		s.r.Sample(map[string]any{"part": "a", "family": pi.Family, "program_sha1": pi.ID, "source": pi.Src, "plans_run": len(j.Plans), "last_plan": j.Plans[k].String(),
			"last_plan_result": paDescribe(got[k]), "suspensions_by_kind": j.Suspensions})
	}
}

func (s *paState) report(b *cdrive.Batch, cfg cdrive.Config, prog int, j *cdrive.PlanJob, k, o int, oracle, what string, x, y cdrive.PlanResult, reported map[string]bool) {
	pi := b.Progs[prog]
	kinds := strings.Join(j.SuspPerPlan[k], "+")
	if kinds == "" {
		kinds = "no-suspension"
	}
	sig := fmt.Sprintf("parta|%s|%s|%s", oracle, what, kinds)
	if reported[sig] {
		return
	}
	reported[sig] = true
	pl := j.Plans[k]
	if err := pi.Acquire(); err != nil {
		s.problem("recompilation failed: %v", err)
		return
	}
	defer pi.Release()
	w := paWitness{Part: "a", Family: pi.Family, Tags: pi.Tags, Program: pi.Src, Config: cfg.Name, Oracle: oracle, Plan: pl}
	w.Observed = append(w.Observed, "plan: "+pl.String())
	text, prob := b.Trace(cfg, prog, cdrive.PlanBody(pi, &pl))
	w.Observed = append(w.Observed, "generated C under the plan: "+paDescribe(x))
	w.Observed = append(w.Observed, paIndent(text)...)
	if prob != "" {
		w.Observed = append(w.Observed, "  (trace mode: "+prob+")")
	}
	if o >= 0 {
		op := j.Plans[o]
		w.OneShot = &op
		t2, _ := b.Trace(cfg, prog, cdrive.PlanBody(pi, &op))
		w.Observed = append(w.Observed, "generated C all at once: "+paDescribe(y))
		w.Observed = append(w.Observed, paIndent(t2)...)
	} else {
		w.Observed = append(w.Observed, "reference interpreter under the plan: "+paDescribe(y))
		d := interp.DiagnoseCoro(pi.P, interp.NewFactOracle(), pl)
		for _, l := range d.Lines {
			w.Observed = append(w.Observed, "  "+l)
		}
	}
	s.r.Violation(sig, fmt.Sprintf("generated coroutine (%s): %s differs (%s) for a plan crossing [%s]", cfg.Name, what, oracle, kinds), w)
}

func paIndent(text string) []string {
	var out []string
	for _, l := range strings.Split(strings.TrimSpace(text), "\n") {
		out = append(out, "  "+l)
	}
	if len(out) > 120 {
		out = append(out[:120], "  ...")
	}
	return out
}

func paScratch() (string, bool) {
	if d := os.Getenv("VERIF_SCRATCH"); d != "" {
		d = filepath.Join(d, "c05a")
		os.MkdirAll(d, 0o755)
		return d, false
	}
	d, err := os.MkdirTemp("/dev/shm", "verif-c05a.")
	if err != nil {
		ev.Fatal("%v", err)
	}
	return d, true
}

// paExtras: hand-written coroutines (canonical progen layout) whose multi-byte
// reads are OBSERVABLE (the value is stored into a field): the progen coro
// family can observe a read_u16le? result only at its deeper (thorough) level.
// Every read_uNN? width and endianness, alone and after a one-byte read (so that
// the split lands at every interior offset), a local array and a counter carried
// across suspensions in a loop, and a skip whose count comes from the stream.
func paExtras() *cdrive.FlatFamily {
	f := &cdrive.FlatFamily{FamName: "coro-extras"}
	prog := func(vars []string, body ...string) string {
		var sb strings.Builder
		sb.WriteString("pub struct foo?(\nq : base.u64,\nf : base.u32,\na : array[4] base.u8,\n)\n\npub func foo.c?(dst: base.io_writer, src: base.io_reader) {\n")
		for _, v := range vars {
			sb.WriteString("var " + v + "\n")
		}
		for _, l := range body {
			sb.WriteString(l + "\n")
		}
		sb.WriteString("}\n")
		return sb.String()
	}
	reads := []struct{ meth, typ string }{
		{"read_u16le", "u16"}, {"read_u16be", "u16"}, {"read_u16le_as_u32", "u32"}, {"read_u16be_as_u32", "u32"},
		{"read_u24le_as_u32", "u32"}, {"read_u24be_as_u32", "u32"}, {"read_u32le", "u32"}, {"read_u32be", "u32"},
		{"read_u32le_as_u64", "u64"}, {"read_u40be_as_u64", "u64"}, {"read_u48le_as_u64", "u64"}, {"read_u56be_as_u64", "u64"},
		{"read_u64le", "u64"}, {"read_u64be", "u64"}, {"read_u8_as_u32", "u32"},
	}
	for _, r := range reads {
		store := "this.q = u as base.u64"
		if r.typ == "u64" {
			store = "this.q = u"
		}
		f.Add(prog([]string{"u : base." + r.typ}, "u = args.src."+r.meth+"?()", store), map[string]string{"kind": r.meth})
		f.Add(prog([]string{"u : base." + r.typ, "v : base.u8"}, "v = args.src.read_u8?()", "u = args.src."+r.meth+"?()", store, "args.dst.write_u8?(a: v)"),
			map[string]string{"kind": "read_u8 then " + r.meth})
	}
	f.Add(prog([]string{"i : base.u32", "v : base.u8", "b : array[4] base.u8"},
		"while i < 3 {", "v = args.src.read_u8?()", "b[i & 3] = v", "i += 1", "}", "this.a[0] = b[0]", "this.a[1] = b[1]", "this.a[2] = b[2]", "this.f = i"),
		map[string]string{"kind": "local array and counter across suspensions"})
	f.Add(prog([]string{"i : base.u32", "v : base.u8"},
		"v = args.src.read_u8?()", "i = (v & 3) as base.u32", "args.src.skip_u32?(n: i)", "v = args.src.read_u8?()", "this.f = i", "args.dst.write_u8?(a: v)"),
		map[string]string{"kind": "skip count from the stream"})
	f.Add(prog([]string{"i : base.u32", "v : base.u8"},
		"while i < 3 {", "v = args.src.read_u8?()", "args.dst.write_u8?(a: v)", "i += 1", "}", "this.f = i"),
		map[string]string{"kind": "copy loop"})
	// A local that is written on one branch only of an else-less `if` after a
	// suspension and read afterwards (liveness must merge the implicit empty else).
	f.Add(prog([]string{"i : base.u32", "v : base.u8"},
		"v = args.src.read_u8?()", "i = ((v & 3) as base.u32) + 1", "yield? base.\"$short read\"", "if v < 2 {", "i = 7", "}", "this.f = i"),
		map[string]string{"kind": "else-less if after a suspension"})
	return f
}

// partA runs part (a) until the given time (a run that is cut short reports complete == false).
func partA(r *ev.Run, until time.Time) partAResult {
	scratch, mine := paScratch()
	if mine {
		defer os.RemoveAll(scratch)
	}
	tools, err := cdrive.Build(scratch)
	if err != nil {
		ev.Fatal("cdrive build: %v", err)
	}
	defer tools.Close()
	s := &paState{r: r, tools: tools, susp: map[string]int64{}, crashKinds: map[string]int64{}, finals: map[string]int64{}, variations: map[string]int64{}}
	s.configs = []cdrive.Config{cdrive.AsanO1}
	s.maxLen, s.maxPlan = 3, 2500
	if r.Thorough() {
		s.configs = []cdrive.Config{cdrive.AsanO1, cdrive.GccO2}
		s.extend = true
	}
	tools.Warm(s.configs...)
	cut := atomic.Bool{}
	cfg := cdrive.WalkConfig{Tier: r.Tier, BatchSize: 48, Families: []string{"coro-extras", "coro", "calls", "io"},
		Extra: map[string]progen.Family{"coro-extras": paExtras()},
		Keep:  func(_ string, p *interp.Prog) bool { return p.HasCoroutines() },
		Stop: func() bool {
			if os.Getenv("VERIF_STOP_ON_VIOLATION") == "1" && r.NumViolations() > 0 {
				cut.Store(true)
				return true
			}
			if time.Now().After(until) {
				cut.Store(true)
				return true
			}
			return false
		}}
	if f := os.Getenv("C05A_FAMILIES"); f != "" {
		cfg.Families = strings.Split(f, ",")
	}
	ws := cdrive.Walk(cfg, s.handle)
	fams := map[string]any{}
	for n, fc := range ws.Families {
		fams[n] = map[string]any{"generated": fc.Generated, "accepted": fc.Accepted, "with_a_public_coroutine": fc.Kept, "levels": fc.Levels, "skipped_by_budget": fc.SkippedBudget}
	}
	for _, p := range ws.Problems {
		s.problem("%s", p)
	}
	if fc := ws.Families["coro-extras"]; fc != nil && (fc.Rejected > 0 || fc.Unsupported > 0) {
		s.problem("%d hand-written coroutines of the coro-extras family are rejected by the checker (%d outside the interpreter's subset)", fc.Rejected, fc.Unsupported)
	}
	r.MergeHist("partA_suspensions_crossed_by_kind", s.susp)
	r.MergeHist("partA_final_status_class", s.finals)
	r.MergeHist("partA_plans_by_variation", s.variations)
	r.MergeHist("partA_driver_process_deaths (C01's business)", s.crashKinds)
	sort.Strings(s.problems)
	for _, p := range s.problems {
		fmt.Fprintln(os.Stderr, "HARNESS-NOTE (part a):", p)
	}
	if len(s.problems) > 0 && r.NumViolations() == 0 {
		ev.Fatal("part (a): %d harness problems; first: %s", len(s.problems), s.problems[0])
	}
	if s.programs.Load() == 0 && !cut.Load() {
		ev.Fatal("part (a): no coroutine program was run")
	}
	var cfgNames []string
	for _, c := range s.configs {
		cfgNames = append(cfgNames, c.Name)
	}
	return partAResult{
		evals: s.evals.Load(), nontrivial: s.nontrivial.Load(), programs: s.programs.Load(),
		complete: !cut.Load() && s.capped.Load() == 0,
		rule: fmt.Sprintf("part (a), generated coroutines: every accepted program of the progen families coro / calls / io with a public coroutine x every plan of interp.CoroPlans(maxLen=%d, at most %d per program): source streams over {00,01,FF} up to maxLen bytes, every cut of the stream into chunks (plus a leading empty delivery), destination room granted as {64} or {0,1,1,..}, and across suspensions the caller re-passes the buffers as they are, compacts them, passes other scalar arguments or makes an interleaved public call; thorough - and quick for the hand-written coro-extras family - adds (cdrive.ExtendPlans, extended for all families=%v) all 4-byte streams over {01,FF} in every cut and 5..8-byte streams fed 1 byte at a time / in halves, room {64} and {1,1,..}; "+
			"evaluations += plan results compared per C configuration; non-trivial += (program, plan) pairs with at least one suspension crossed whose compiled run equals the ideal run and the all-at-once run", s.maxLen, s.maxPlan, s.extend),
		extra: map[string]any{"partA": map[string]any{
			"programs": s.programs.Load(), "plans_run_on_c": s.plans.Load(), "coroutine_calls_in_the_interpreter": s.calls.Load(),
			"pairs_chunked_vs_one_shot": s.oneshotPairs.Load(), "pairs_c_vs_ideal": s.idealPairs.Load(),
			"plans_not_replayed_because_the_interpreter_found_a_safety_violation (C01)":                                                             s.notReplayed.Load(),
			"plans_ending_parked_on_an_exhausted_stream":                                                                                            s.stuck.Load(),
			"plans_whose_ideal_result_depends_on_the_split (source semantics, e.g. =? swallowing a suspension; not compared with the one-shot run)": s.splitDependent.Load(),
			"programs_with_capped_plan_enumeration":                                                                                                 s.capped.Load(),
			"families":                                                                                                                              fams, "configurations": cfgNames, "harness_notes": s.problems,
		}},
		assumptions: []string{
			"part (a): the reference interpreter's coroutines have the ideal semantics (a partial multi-byte read consumes nothing until it completes); therefore the consumed count of a run that ends parked on an exhausted stream is compared between the two C runs only, and intermediate buffer indexes are not compared at all",
			"part (a): variations that change the coroutine's inputs across a suspension (other scalar arguments, an interleaved public call) are compared with the interpreter under the same plan, not with the all-at-once run",
		},
	}
}

// replayA re-executes a part (a) witness; it returns false if path is not one.
func replayA(path string) bool {
	raw, err := os.ReadFile(path)
	if err != nil {
		ev.Fatal("%v", err)
	}
	var doc struct {
		Signature string    `json:"signature"`
		What      string    `json:"what"`
		Witness   paWitness `json:"witness"`
	}
	if json.Unmarshal(raw, &doc) != nil || doc.Witness.Part != "a" {
		return false
	}
	w := doc.Witness
	fmt.Printf("replaying %s\n recorded: %s\n program:\n", doc.Signature, doc.What)
	for i, l := range strings.Split(w.Program, "\n") {
		fmt.Printf("  %3d  %s\n", i+1, l)
	}
	scratch, mine := paScratch()
	if mine {
		defer os.RemoveAll(scratch)
	}
	tools, err := cdrive.Build(scratch)
	if err != nil {
		ev.Fatal("cdrive build: %v", err)
	}
	defer tools.Close()
	cfg := cdrive.AsanO1
	if w.Config == cdrive.GccO2.Name {
		cfg = cdrive.GccO2
	}
	run := func() (string, []string) {
		p, err := interp.Compile(w.Program)
		if err != nil {
			return "", []string{"not accepted: " + err.Error()}
		}
		pi := cdrive.Describe(p, w.Family, w.Tags)
		bt, err := tools.NewBatch([]*cdrive.ProgInfo{pi})
		if err != nil {
			ev.Fatal("%v", err)
		}
		defer bt.Remove()
		if err := bt.Generate(0); err != nil {
			ev.Fatal("%v", err)
		}
		if len(bt.Progs) == 1 {
			if err := bt.Compile(cfg); err != nil {
				ev.Fatal("%v", err)
			}
		}
		if len(bt.Progs) != 1 {
			return "", []string{"the program no longer compiles to C: " + pi.GenErr + pi.GccErr}
		}
		plans := []interp.CoroPlan{w.Plan}
		if w.OneShot != nil {
			plans = append(plans, *w.OneShot)
		}
		var sc cdrive.Script
		var body cdrive.Script
		var lines []string
		for i := range plans {
			body.Plan(pi, &plans[i])
		}
		sc.Section(0, body.B)
		sc.End()
		out, crashes, err := bt.Run(cfg, sc.B, []int{cdrive.PlanResultSize * len(plans)})
		if err != nil || len(crashes) > 0 || out[0] == nil {
			return "", []string{fmt.Sprintf("the driver did not complete: %v %v", err, crashes)}
		}
		got := cdrive.DecodePlanResult(out[0])
		m := interp.NewMachine(p)
		m.CheckBounds = false
		irun := interp.RunCoroPlan(p, m, nil, w.Plan)
		want, err := pi.PlanExpect(irun, nil)
		if err != nil {
			return "", []string{err.Error()}
		}
		kinds := map[string]bool{}
		for _, sites := range irun.SuspLines {
			for _, ln := range sites {
				if ln >= 1 && ln <= len(p.Lines) {
					kinds[cdrive.SuspensionKind(p.Lines[ln-1])] = true
				}
			}
		}
		var kl []string
		for k := range kinds {
			kl = append(kl, k)
		}
		sort.Strings(kl)
		ks := strings.Join(kl, "+")
		if ks == "" {
			ks = "no-suspension"
		}
		lines = append(lines, " plan: "+w.Plan.String(), " generated C under the plan: "+paDescribe(got), " reference interpreter:       "+paDescribe(want))
		text, _ := bt.Trace(cfg, 0, cdrive.PlanBody(pi, &w.Plan))
		lines = append(lines, paIndent(text)...)
		sig := ""
		if what := paCompare(got, want, true, true); what != "" {
			oracle := "chunked-C-vs-ideal"
			if cdrive.IsOneShot(&w.Plan) {
				oracle = "one-shot-C-vs-ideal"
			}
			sig = fmt.Sprintf("parta|%s|%s|%s", oracle, what, ks)
		}
		if w.OneShot != nil {
			one := cdrive.DecodePlanResult(out[0][cdrive.PlanResultSize:])
			lines = append(lines, " generated C all at once:     "+paDescribe(one))
			if what := paCompare(got, one, false, false); what != "" && (sig == "" || w.Oracle == "chunked-C-vs-one-shot-C") {
				sig = fmt.Sprintf("parta|chunked-C-vs-one-shot-C|%s|%s", what, ks)
			}
		}
		return sig, lines
	}
	s1, l1 := run()
	s2, l2 := run()
	if s1 != s2 || strings.Join(l1, "\n") != strings.Join(l2, "\n") {
		ev.Fatal("replay diverged between two runs")
	}
	for _, l := range l1 {
		fmt.Println(l)
	}
	if s1 == doc.Signature {
		fmt.Println(" reproduced: " + s1)
		tools.Close()
		if mine {
			os.RemoveAll(scratch)
		}
		os.Exit(1)
	}
	fmt.Printf(" not reproduced (observed %q)\n", s1)
	return true
}
