package main

import (
	"bytes"
	"encoding/hex"
	"fmt"
	"os"
	"sort"
	"strings"
	"sync"
	"sync/atomic"
	"time"

	"verif/checks/c07/drv"
	"verif/internal/cserve"
	"verif/internal/ev"
)

type bResult struct {
	evals, nontrivial int64
	complete          bool
	maxSeed           int64
	nPkgs             int
	strideNote        string
	byPkg             map[string]int
	largestFull       int
}

type benv struct {
	r     *ev.Run
	built *cserve.Built
	nw    int
	srv   map[string][]*cserve.Server

	evals, nontrivial atomic.Int64

	mu             sync.Mutex
	firstViolation time.Time
}

func (e *benv) servers(variant string) []*cserve.Server {
	if s, ok := e.srv[variant]; ok {
		return s
	}
	s, err := e.built.StartN(variant, e.nw)
	if err != nil {
		ev.Fatal("cannot start %s servers: %v", variant, err)
	}
	e.srv[variant] = s
	return s
}

func (e *benv) stop() bool {
	if time.Now().After(deadline) {
		e.r.MarkCapped()
		return true
	}
	if n := e.r.NumViolations(); n > 0 {
		e.mu.Lock()
		if e.firstViolation.IsZero() {
			e.firstViolation = time.Now()
		}
		t := e.firstViolation
		e.mu.Unlock()
		if n >= 5 || time.Since(t) > 20*time.Second {
			e.r.MarkCapped()
			return true
		}
	}
	return false
}

func (e *benv) closeAll() {
	for _, l := range e.srv {
		for _, s := range l {
			s.Close()
		}
	}
	e.srv = map[string][]*cserve.Server{}
}

type witness struct {
	Part    string      `json:"part"` // "b"
	Variant string      `json:"variant"`
	Name    string      `json:"input"`
	Pkg     string      `json:"pkg"`
	Kind    int         `json:"kind"`
	Quirks  [][2]uint64 `json:"quirks,omitempty"`
	DataHex string      `json:"data_hex"`
	Script  drv.Script  `json:"script"`
	Clause  string      `json:"clause"`
	OneShot drv.Outcome `json:"one_shot"`
	Chunked drv.Outcome `json:"chunked"`
	Detail  string      `json:"detail"`
}

// positions returns the single-split positions in 0..n: all of them when there are at most limit,
// otherwise the first and last 128 and an even stride in between.
func positions(n, limit int) (pos []int, all bool) {
	if n+1 <= limit {
		for i := 0; i <= n; i++ {
			pos = append(pos, i)
		}
		return pos, true
	}
	edge := 128
	if limit < 4*edge {
		edge = limit / 4
	}
	seen := map[int]bool{}
	add := func(i int) {
		if i >= 0 && i <= n && !seen[i] {
			seen[i] = true
			pos = append(pos, i)
		}
	}
	for i := 0; i < edge; i++ {
		add(i)
		add(n - i)
	}
	inner := limit - 2*edge
	for k := 1; k <= inner; k++ {
		add(edge + int(int64(k)*int64(n-2*edge)/int64(inner+1)))
	}
	sort.Ints(pos)
	return pos, false
}

// scriptSet enumerates the scripts applied to one input.
type scriptSet struct {
	list   []drv.Script
	allSrc bool
	allDst bool
}

type limits struct {
	thorough                   bool
	srcSplits, dstSplits       int
	bigSrcSplits, bigDstSplits int // used instead when the input is too long for all positions (0 = same)
	bytewiseDst                int // largest m for the 1-byte destination scripts
}

func buildScripts(in *input, lim limits) *scriptSet {
	n := len(in.data)
	if in.bigObject && !lim.thorough {
		// a decoder object of several MiB (bzip2) makes every fresh run expensive: fewer positions in quick
		lim.srcSplits, lim.dstSplits = lim.srcSplits/5, lim.dstSplits/5
	}
	hasDst := in.kind == cserve.KindIOTransformer || in.kind == cserve.KindTokenDecoder
	m := 0
	if hasDst {
		m = int(in.ref.OutLen)
	}
	s := &scriptSet{allDst: true}
	if n+1 > lim.srcSplits && lim.bigSrcSplits > 0 {
		lim.srcSplits = lim.bigSrcSplits
	}
	if m+1 > lim.dstSplits && lim.bigDstSplits > 0 {
		lim.dstSplits = lim.bigDstSplits
	}
	steps := []int{1, 2, 3, 5, 16}
	if !lim.thorough && n > 4096 {
		steps = []int{1, 16}
	}
	var sp []int
	sp, s.allSrc = positions(n, lim.srcSplits)
	for _, k := range sp {
		s.list = append(s.list, drv.Script{SrcEnds: []int{k}})
	}
	if hasDst {
		var dp []int
		dp, s.allDst = positions(m, lim.dstSplits)
		for _, k := range dp {
			s.list = append(s.list, drv.Script{DstCaps: []int{k}})
		}
	}
	for _, st := range steps {
		if st == 1 || n > st {
			s.list = append(s.list, drv.Script{SrcStep: st})
		}
	}
	if hasDst && m <= lim.bytewiseDst {
		for _, st := range []int{1, 2, 3, 5, 16} {
			if st == 1 || m > st {
				s.list = append(s.list, drv.Script{DstStep: st})
			}
		}
		s.list = append(s.list, drv.Script{SrcStep: 1, DstStep: 1}, drv.Script{SrcStep: 3, DstStep: 5}, drv.Script{SrcStep: 5, DstStep: 2})
	}
	// streaming with uniform destination buffers (every call gets a fresh buffer of that capacity) for every input with
	// more than 32 KiB of output: decoders with a 32 KiB history ring (deflate and everything built on it) or a
	// dictionary (lzma, lzw, bzip2) only exercise "the match source is in an earlier buffer" this way, and power-of-two
	// sizes put every buffer start at the same ring position
	if in.kind == cserve.KindIOTransformer && m > 32768 {
		for _, sz := range drv.UniformDstSizes {
			if sz < m && m/sz <= 40000 {
				s.list = append(s.list, drv.Script{DstStep: sz})
			}
		}
		s.list = append(s.list, drv.Script{SrcStep: 4096, DstStep: 4096}, drv.Script{SrcStep: 1000, DstStep: 1024})
	}
	if n <= 24 {
		for i := 1; i < n; i++ {
			for k := i + 1; k < n; k++ {
				s.list = append(s.list, drv.Script{SrcEnds: []int{i, k}})
			}
		}
	}
	return s
}

func newJob(in *input, sc drv.Script, trace bool, done func(o *drv.Outcome, frames []drv.Frame)) drv.Job {
	spec := drv.Spec{Pkg: in.pkg, Quirks: in.quirks, Data: in.data}
	ample := uint32(1 << 16) // probe run (no reference yet): ample buffers grow on `$short write`
	// a correct chunked run makes at most one call per source piece, per destination buffer and per frame (plus
	// retries); a run that needs far more than that is cut short and reported as stuck
	limit := 0
	if in.ref != nil {
		limit = 8*(len(in.data)+int(in.ref.OutLen)) + 4096
	}
	switch in.kind {
	case cserve.KindIOTransformer:
		if in.ref != nil {
			ample = uint32(in.ref.OutLen) + 512
			if !sc.OneShot() && ample > 1<<16 {
				ample = 1 << 16 // chunked runs: "ample" destination buffers are 64 KiB (doubling when one is not enough)
			}
		}
		return &drv.XformJob{Spec: spec, Script: sc, Ample: ample, OutMode: drv.OutAuto, Trace: trace, MaxCalls: limit, Done: func(j *drv.XformJob) { done(&j.Out, nil) }}
	case cserve.KindImageDecoder:
		return &drv.ImageJob{Spec: spec, Script: sc, Trace: trace, MaxCalls: limit, Done: func(j *drv.ImageJob) { done(&j.Out, j.Frames) }}
	case cserve.KindTokenDecoder:
		ample = 1 << 12
		if in.ref != nil {
			ample = uint32(in.ref.OutLen) + 64
		}
		return &drv.TokenJob{Spec: spec, Script: sc, Ample: ample, Trace: trace, MaxCalls: limit, Done: func(j *drv.TokenJob) { done(&j.Out, nil) }}
	}
	ev.Fatal("no driver for interface kind %d (%s)", in.kind, in.pkg)
	return nil
}

func stClass(s string) string {
	if s == "" {
		return "ok"
	}
	return s
}

const inapplicable = "(script not applicable)"

// shapeOf refines the package name with the abstract shape of the input when that selects a different mechanism.
func shapeOf(in *input) string {
	if in.pkg == "xz" && len(in.data) > 14 && in.data[13]&3 != 0 {
		return "xz/non-final-filters" // BCJ or delta filter in front of LZMA2: std/xz post-processes the destination in place
	}
	return in.pkg
}

// sigClause folds the clause for the signature: with a BCJ/delta filter in front of LZMA2 a decode that goes wrong
// after a suspension surfaces as whatever error the corrupted stream trips first (bad distance, bad checksum, bad
// decoded length, ...) or as different output: one root cause class, one signature.
func sigClause(in *input, clause string) string {
	if shapeOf(in) == "xz/non-final-filters" && !strings.Contains(clause, "bad workbuf length") &&
		(strings.HasPrefix(clause, "status(ok->#") || strings.HasPrefix(clause, "output") || clause == "consumed") {
		return "decode-goes-wrong-after-a-suspension"
	}
	return clause
}

// compare returns "" when the chunked outcome agrees with the one-shot outcome, else (clause, detail).
func compare(in *input, o *drv.Outcome) (clause, detail string) {
	ref := in.ref
	if o.Crash != "" {
		return "crash", o.Crash
	}
	if o.Status != ref.Status {
		if o.Status == "stuck: "+drv.StShortWrite {
			// The decoder keeps asking for more destination room than the script's small buffers offer (std/lzma wants
			// 274 free bytes before a match, token decoders want room for several tokens). Demanding a minimum
			// destination size is C03's territory ("`$short write` is justified unless the destination was empty and
			// ample"), not a dependence on where the stream is split: the script does not apply to this decoder.
			return inapplicable, ""
		}
		if strings.HasPrefix(o.Status, "stuck:") {
			return "no-progress(" + o.Status + ")", fmt.Sprintf("the chunked run made no progress: %s after %d calls; one-shot status %q", o.Status, o.Calls, stClass(ref.Status))
		}
		return "status(" + stClass(ref.Status) + "->" + stClass(o.Status) + ")", fmt.Sprintf("final status %q, one-shot %q", stClass(o.Status), stClass(ref.Status))
	}
	if in.kind == cserve.KindTokenDecoder {
		got := normalizeTokens(o.Out)
		if d := unitsEqual(got, in.refToks); d >= 0 {
			return "tokens", fmt.Sprintf("normalised token streams differ at unit %d: chunked %s| one-shot %s", d, describeUnits(got, d), describeUnits(in.refToks, d))
		}
	} else {
		if o.OutLen != ref.OutLen {
			return "output-length", fmt.Sprintf("output length %d, one-shot %d", o.OutLen, ref.OutLen)
		}
		if o.OutHash != ref.OutHash {
			d := -1
			if o.Out != nil && ref.Out != nil {
				for i := range o.Out {
					if o.Out[i] != ref.Out[i] {
						d = i
						break
					}
				}
			}
			return "output", fmt.Sprintf("output differs (same length %d), first difference at %d (-1: only hashes compared)", o.OutLen, d)
		}
		if o.Out != nil && ref.Out != nil && !bytes.Equal(o.Out, ref.Out) {
			return "output", "output bytes differ although the hashes agree"
		}
	}
	if len(o.Obs) != len(ref.Obs) {
		return "state", fmt.Sprintf("observable state has %d words, one-shot %d", len(o.Obs), len(ref.Obs))
	}
	for i := range o.Obs {
		if o.Obs[i] != ref.Obs[i] {
			return "state", fmt.Sprintf("observable state word %d = %#x, one-shot %#x (%s)", i, o.Obs[i], ref.Obs[i], obsName(i, len(o.Obs)))
		}
	}
	if !ref.IsError() && o.Consumed != ref.Consumed {
		return "consumed", fmt.Sprintf("consumed %d source bytes, one-shot %d (final status %q)", o.Consumed, ref.Consumed, stClass(ref.Status))
	}
	return "", ""
}

// obsName names word i of an image job's observable state.
func obsName(i, n int) string {
	img := []string{"image valid", "pixfmt", "pixsub", "width", "height", "first_frame_io_position", "first_frame_is_opaque", "pixbuf_len"}
	if i < 8 {
		return img[i]
	}
	if i >= n-3 {
		return []string{"num_decoded_frames", "num_decoded_frame_configs", "num_animation_loops"}[i-(n-3)]
	}
	fr := []string{"bounds.x0", "bounds.y0", "bounds.x1", "bounds.y1", "duration", "index", "io_position", "disposal", "opaque_within_bounds", "overwrite_instead_of_blend", "background_color",
		"dirty.x0", "dirty.y0", "dirty.x1", "dirty.y1", "pixel buffer hash"}
	k := i - 8
	return fmt.Sprintf("frame %d %s", k/16, fr[k%16])
}

func partB(r *ev.Run, built *cserve.Built) bResult {
	e := &benv{r: r, built: built, nw: ev.Workers(), srv: map[string][]*cserve.Server{}}
	defer e.closeAll()
	res := bResult{byPkg: map[string]int{}, maxSeed: 64 << 10}
	have := func(pkg string) int { return built.KindOf(pkg) }
	res.nPkgs = len(built.Table)

	lim := limits{srcSplits: 2049, dstSplits: 1025, bigSrcSplits: 200, bigDstSplits: 80, bytewiseDst: 4096}
	res.strideNote = "quick: every source split of inputs up to 2048 bytes and every destination split of outputs up to 1024 bytes; beyond that 200 source and 80 destination positions per input - the first and last 64 and an even stride between -, stepped destination scripts for outputs up to 4096, stepped source scripts 1 and 16 only above 4096 bytes"
	if r.Thorough() {
		lim = limits{thorough: true, srcSplits: 1 << 17, dstSplits: 4096, bytewiseDst: 1 << 20}
		res.strideNote = "thorough: every source split of every input; at most 4096 destination split positions per input, 1-byte destination scripts for outputs up to 1 MiB"
	}
	if os.Getenv("C05_PKGS") != "" {
		r.MarkCapped()
	}
	if s := os.Getenv("C05_SEED_MAX"); s != "" { // development aid
		fmt.Sscan(s, &res.maxSeed)
		r.MarkCapped()
	}
	fams, skipped := famInputs(r.Thorough(), 64, 200, have)
	for k, v := range skipped {
		r.Add(k, int64(v))
	}
	seeds := seedInputs(res.maxSeed, have)
	sizeOf := map[string]uint64{}
	if srv := e.servers(cserve.Plain); len(srv) > 0 {
		for _, p := range srv[0].Packages {
			sizeOf[p.Pkg] = p.Sizeof
		}
	}
	// deduplicate seeds by content
	seenData := map[string]bool{}
	var inputs []*input
	for _, in := range append(fams, seeds...) {
		key := in.pkg + fmt.Sprint(in.quirks) + "\x00" + string(in.data)
		if seenData[key] {
			continue
		}
		seenData[key] = true
		in.bigObject = sizeOf[in.pkg] > 1<<20
		inputs = append(inputs, in)
	}
	sort.SliceStable(inputs, func(i, j int) bool { return len(inputs[i].data) < len(inputs[j].data) })
	r.Add("inputs_seed_files", int64(len(seeds)))
	r.Add("inputs_family_streams", int64(len(fams)))
	r.Add("inputs_distinct", int64(len(inputs)))

	t0 := time.Now()
	phase := func(name string) {
		r.Add("phase_ms_"+name, time.Since(t0).Milliseconds())
		t0 = time.Now()
	}
	// ---- phase 0: probe run (learns the output size); phase 1: the one-shot run of every input with a
	// destination that holds the whole output, so that it really is one call with everything available
	var next0 atomic.Int64
	e.pass(cserve.Plain, 8, func(k int, l *local) func() drv.Job {
		return func() drv.Job {
			i := int(next0.Add(1)) - 1
			if i >= len(inputs) {
				return nil
			}
			in := inputs[i]
			return newJob(in, drv.Script{}, false, func(o *drv.Outcome, _ []drv.Frame) {
				cp := *o
				in.ref = &cp
				if in.kind == cserve.KindTokenDecoder {
					in.refToks = normalizeTokens(o.Out)
				}
			})
		}
	})
	var next atomic.Int64
	e.pass(cserve.Plain, 8, func(k int, l *local) func() drv.Job {
		return func() drv.Job {
			i := int(next.Add(1)) - 1
			if i >= len(inputs) {
				return nil
			}
			in := inputs[i]
			return newJob(in, drv.Script{}, false, func(o *drv.Outcome, _ []drv.Frame) {
				cp := *o
				if clause, detail := compare(in, o); clause != "" && clause != inapplicable && o.Crash == "" && in.ref.Crash == "" {
					// probe (64 KiB destination buffers, growing) vs one-shot: already a split-dependence
					r.Violation(fmt.Sprintf("%s:%s", shapeOf(in), sigClause(in, clause)), fmt.Sprintf("wuffs %s on %s (%d bytes): run with 64 KiB+ destination buffers vs one call with everything available: %s", in.pkg, in.name, len(in.data), detail),
						witness{Part: "b", Variant: cserve.Plain, Name: in.name, Pkg: in.pkg, Kind: in.kind, Quirks: in.quirks, DataHex: hex.EncodeToString(in.data), Clause: clause, OneShot: cp, Chunked: *in.ref, Detail: detail})
				}
				l.h("one_shot_calls", fmt.Sprint(min(o.Calls, 4)))
				in.ref = &cp
				switch {
				case o.Crash != "":
					r.Violation(fmt.Sprintf("%s:one-shot:crash", in.pkg), fmt.Sprintf("wuffs %s on %s (%d bytes), everything available: %s", in.pkg, in.name, len(in.data), o.Crash),
						witness{Part: "b", Variant: cserve.Plain, Name: in.name, Pkg: in.pkg, Kind: in.kind, Quirks: in.quirks, DataHex: hex.EncodeToString(in.data), Clause: "crash", Chunked: cp, Detail: o.CrashLog})
					in.skip = "crash"
				case o.Refused != "":
					in.skip = "refused: " + o.Refused
					l.cnt["inputs_skipped("+o.Refused+")"]++
				case strings.HasPrefix(o.Status, "stuck:"):
					// not a split-dependence: the one-shot run itself does not finish under the driver policy (C03's business)
					in.skip = o.Status
					l.cnt["inputs_skipped(one-shot "+o.Status+")"]++
				}
				if in.kind == cserve.KindTokenDecoder {
					in.refToks = normalizeTokens(o.Out)
					if uint64(len(in.data)) >= o.Consumed && tokensTotalLen(o.Out) != o.Consumed && !o.IsError() {
						l.cnt["note_token_lengths_do_not_sum_to_consumed"]++
					}
				}
				l.h("one_shot_final_status", in.pkg+": "+stClass(o.Status))
				if o.Spurious > 0 {
					l.cnt["spurious_short_read_on_closed_source(C03)"]++
				}
			})
		}
	})
	for _, in := range inputs {
		if in.skip == "" {
			res.byPkg[in.pkg]++
		}
	}
	phase("one_shot_runs")

	// ---- phase 2: every script of every input (plain), in chunks handed out dynamically
	var chunks []chunk
	sets := make([]*scriptSet, len(inputs))
	var totalScripts int64
	for i, in := range inputs {
		if in.skip != "" {
			continue
		}
		ss := buildScripts(in, lim)
		sets[i] = ss
		totalScripts += int64(len(ss.list))
		for lo := 0; lo < len(ss.list); lo += 128 {
			chunks = append(chunks, chunk{in, ss, lo, min(lo+128, len(ss.list))})
		}
	}
	r.Add("scripts_planned", totalScripts)
	doneScripts := make([]atomic.Int64, len(inputs))
	idxOf := map[*input]int{}
	for i, in := range inputs {
		idxOf[in] = i
	}
	runChunks := func(variant string, all []chunk, count bool) {
		// decoders with multi-megabyte objects (bzip2) run in a second, narrow pass: few slots alive at a time
		for _, big := range []bool{false, true} {
			var chunks []chunk
			for _, c := range all {
				if c.in.bigObject == big {
					chunks = append(chunks, c)
				}
			}
			width := 32
			if big {
				width = 6
			}
			runChunksW(e, r, variant, chunks, count, width, doneScripts, idxOf)
		}
	}
	runChunks(cserve.Plain, chunks, true)
	phase("scripts_plain")

	// ---- phase 3: ASan+UBSan re-run of the stepped scripts of every input and the single source splits of short inputs
	var asanChunks []chunk
	for i, in := range inputs {
		if in.skip != "" {
			continue
		}
		var list []drv.Script
		for _, sc := range sets[i].list {
			stepped := sc.SrcStep > 0 || sc.DstStep > 0
			if !r.Thorough() && (len(in.data) > 4<<10 || in.bigObject) {
				stepped = false // quick: the sanitizer build re-runs the stepped scripts of inputs up to 4 KiB
			}
			if r.Thorough() && len(in.data) > 16<<10 {
				stepped = false // thorough: up to 16 KiB
			}
			single := len(in.data) <= 64 && len(sc.SrcEnds) == 1
			if !r.Thorough() && i%2 == 1 {
				single = false // quick: the single source splits of every other short input
			}
			if stepped || single {
				list = append(list, sc)
			}
		}
		ss := &scriptSet{list: list}
		for lo := 0; lo < len(list); lo += 128 {
			asanChunks = append(asanChunks, chunk{in, ss, lo, min(lo+128, len(list))})
		}
	}
	// An ASan/UBSan report that the one-shot run of the same input triggers too does not depend on the split: it is
	// C03's business (memory safety on any input) and is only counted here.
	var nextA atomic.Int64
	e.pass(cserve.Asan, 8, func(k int, l *local) func() drv.Job {
		return func() drv.Job {
			for {
				i := int(nextA.Add(1)) - 1
				if i >= len(inputs) || e.stop() {
					return nil
				}
				in := inputs[i]
				if in.skip != "" {
					continue
				}
				return newJob(in, drv.Script{}, false, func(o *drv.Outcome, _ []drv.Frame) {
					if o.Crash != "" {
						in.asanOneShotCrash = o.Crash
						l.cnt["sanitizer_report_in_the_one_shot_run(C03,not reported here)"]++
						fmt.Printf("note: sanitizer report in the ONE-SHOT run of %s (%s): %s -- independent of splitting, C03's business\n", in.name, in.pkg, o.Crash)
					}
				})
			}
		}
	})
	runChunks(cserve.Asan, asanChunks, false)
	phase("scripts_asan")

	// ---- completeness
	res.complete = !r.Capped()
	for i, in := range inputs {
		if in.skip != "" || sets[i] == nil {
			continue
		}
		full := doneScripts[i].Load() == int64(len(sets[i].list))
		if full {
			r.Add("inputs_with_every_planned_script_passed", 1)
			if sets[i].allSrc && len(in.data) > res.largestFull {
				res.largestFull = len(in.data)
			}
			if sets[i].allSrc && sets[i].allDst {
				r.Add("inputs_with_every_single_split_position(no stride)", 1)
			}
		}
	}
	res.evals, res.nontrivial = e.evals.Load(), e.nontrivial.Load()
	r.Add("harness_stalls_retried", drv.Stalls.Load())
	// samples
	for _, i := range []int{0, len(inputs) / 4, len(inputs) / 2, len(inputs) - 1} {
		if i < len(inputs) && sets[i] != nil {
			in := inputs[i]
			ss := sets[i].list
			r.Sample(map[string]any{"input": in.name, "decoder": in.pkg, "bytes": len(in.data), "hex": hex.EncodeToString(in.data[:min(48, len(in.data))]), "one_shot_status": stClass(in.ref.Status), "output_len": in.ref.OutLen,
				"scripts": len(ss), "example_scripts": []drv.Script{ss[len(ss)/5], ss[len(ss)/2], ss[len(ss)-1]}})
		}
	}
	return res
}

// ---- worker plumbing (same shape as C07's)

type local struct {
	hist map[string]map[string]int64
	cnt  map[string]int64
}

func (l *local) h(hist, key string) {
	m := l.hist[hist]
	if m == nil {
		m = map[string]int64{}
		l.hist[hist] = m
	}
	m[key]++
}

func (e *benv) pass(variant string, width int, mk func(k int, l *local) func() drv.Job) {
	srvs := e.servers(variant)
	var wg sync.WaitGroup
	for k := 0; k < e.nw; k++ {
		wg.Add(1)
		go func(k int) {
			defer wg.Done()
			l := &local{hist: map[string]map[string]int64{}, cnt: map[string]int64{}}
			if err := drv.Run(srvs[k], width, mk(k, l)); err != nil {
				ev.Fatal("driver: %v", err)
			}
			for name, m := range l.hist {
				e.r.MergeHist(name, m)
			}
			for k, v := range l.cnt {
				e.r.Add(k, v)
			}
		}(k)
	}
	wg.Wait()
}

type chunk struct {
	in     *input
	ss     *scriptSet
	lo, hi int
}

// runChunksW runs the scripts of the chunks (handed out dynamically) on every worker's server.
func runChunksW(e *benv, r *ev.Run, variant string, chunks []chunk, count bool, width int, doneScripts []atomic.Int64, idxOf map[*input]int) {
	var nextChunk atomic.Int64
	e.pass(variant, width, func(k int, l *local) func() drv.Job {
		var cur chunk
		pos := 0
		return func() drv.Job {
			for pos >= cur.hi {
				if e.stop() {
					return nil
				}
				ci := int(nextChunk.Add(1)) - 1
				if ci >= len(chunks) {
					return nil
				}
				cur = chunks[ci]
				pos = cur.lo
			}
			in, sc := cur.in, cur.ss.list[pos]
			pos++
			return newJob(in, sc, false, func(o *drv.Outcome, _ []drv.Frame) {
				e.evals.Add(1)
				clause, detail := compare(in, o)
				if clause == "crash" && in.asanOneShotCrash != "" && variant == cserve.Asan {
					l.cnt["sanitizer_report_also_in_the_one_shot_run(C03,not reported here)"]++
					return
				}
				if clause == inapplicable {
					l.h("script_not_applicable(decoder wants a larger destination)", in.pkg+":"+sc.Kind())
					if count {
						doneScripts[idxOf[in]].Add(1)
					}
					return
				}
				if clause != "" {
					cp := *o
					// signature = decoder (+ input shape) + violated clause; the script kind and the input are in the text
					r.Violation(fmt.Sprintf("%s:%s", shapeOf(in), sigClause(in, clause)),
						fmt.Sprintf("wuffs %s on %s (%d bytes) under script %s %+v: %s", in.pkg, in.name, len(in.data), sc.Kind(), sc, detail),
						witness{Part: "b", Variant: variant, Name: in.name, Pkg: in.pkg, Kind: in.kind, Quirks: in.quirks, DataHex: hex.EncodeToString(in.data), Script: sc, Clause: clause, OneShot: *in.ref, Chunked: cp, Detail: detail + " " + o.CrashLog})
					return
				}
				if count {
					doneScripts[idxOf[in]].Add(1)
					if o.Susp[0]+o.Susp[1]+o.Susp[2] > 0 {
						e.nontrivial.Add(1)
					}
				}
				l.h("scripts_passed", sc.Kind())
				l.cnt["calls_"+variant+":"+in.pkg] += int64(o.Calls)
				l.h("scripts_passed_by_interface", kindName(in.kind))
				if o.Spurious > 0 {
					l.cnt["spurious_short_read_on_closed_source(C03,not reported here)"]++
				}
				if o.Susp[0] > 0 {
					l.cnt["runs_with_short_read_resume"]++
				}
				if o.Susp[1] > 0 {
					l.cnt["runs_with_short_write_resume"]++
				}
				if o.Susp[2] > 0 {
					l.cnt["runs_with_short_workbuf_resume"]++
				}
			})
		}
	})
}
