package main

import (
	"fmt"
	"image/png"
	"os"
	"path/filepath"
	"sort"
	"strings"

	"verif/checks/c07/drv"
	"verif/checks/c07/fam"
	"verif/internal/cserve"
	"verif/internal/ev"
)

// input is one byte string given to one std decoder.
type input struct {
	name   string // "seed:test/data/x.png" or "fam:<description>"
	origin string // "seed" | "fam"
	pkg    string
	kind   int // cserve.Kind*
	quirks [][2]uint64
	data   []byte
	// filled by the one-shot run
	bigObject        bool
	asanOneShotCrash string
	ref              *drv.Outcome
	refToks          []unit
	skip             string
}

// extPkg maps file extensions of test/data to std packages.
var extPkg = map[string]string{
	".png": "png", ".apng": "png", ".gif": "gif", ".jpeg": "jpeg", ".jpg": "jpeg", ".bmp": "bmp", ".webp": "webp", ".tga": "targa",
	".wbmp": "wbmp", ".nie": "nie", ".qoi": "qoi", ".pkm": "etc2", ".handsum": "handsum", ".th": "thumbhash", ".ppm": "netpbm", ".pgm": "netpbm",
	".json": "json", ".cbor": "cbor", ".gz": "gzip", ".zlib": "zlib", ".deflate": "deflate", ".bz2": "bzip2", ".xz": "xz", ".lzma": "lzma", ".lz": "lzip",
	".giflzw": "lzw",
}

// quickModules: every std package that has an entry above (the whole table, both tiers).
func allModules() []string {
	seen := map[string]bool{}
	var out []string
	if s := os.Getenv("C05_PKGS"); s != "" { // development aid: restrict the packages (the run is then reported as capped)
		return strings.Split(s, ",")
	}
	for _, p := range extPkg {
		if !seen[p] {
			seen[p] = true
			out = append(out, p)
		}
	}
	sort.Strings(out)
	return out
}

func seedInputs(maxSize int64, have func(pkg string) int) []*input {
	root := filepath.Join(ev.Repo(), "test", "data")
	var out []*input
	filepath.Walk(root, func(path string, fi os.FileInfo, err error) error {
		if err != nil || fi.IsDir() || fi.Size() > maxSize {
			return nil
		}
		pkg, ok := extPkg[strings.ToLower(filepath.Ext(path))]
		if !ok {
			return nil
		}
		kind := have(pkg)
		if kind == 0 {
			return nil
		}
		data, err := os.ReadFile(path)
		if err != nil {
			return nil
		}
		rel, _ := filepath.Rel(ev.Repo(), path)
		in := &input{name: "seed:" + rel, origin: "seed", pkg: pkg, kind: kind, data: data}
		if pkg == "lzw" {
			// *.giflzw: first byte = literal width, then the raw LZW stream
			if len(data) < 1 || data[0] > 8 {
				return nil
			}
			in.quirks = [][2]uint64{{fam.LzwQuirkLiteralWidthPlusOne, uint64(data[0]) + 1}}
			in.data = data[1:]
		}
		out = append(out, in)
		return nil
	})
	sort.Slice(out, func(i, j int) bool {
		if len(out[i].data) != len(out[j].data) {
			return len(out[i].data) < len(out[j].data)
		}
		return out[i].name < out[j].name
	})
	return out
}

// famInputs: the valid inputs of C07's families up to maxCodec bytes (codecs) / maxImage bytes (images), deduplicated.
func famInputs(thorough bool, maxCodec, maxImage int, have func(pkg string) int) (out []*input, skipped map[string]int) {
	skipped = map[string]int{}
	seen := map[string]bool{}
	add := func(pkg string, quirks [][2]uint64, desc string, data []byte) {
		kind := have(pkg)
		if kind == 0 {
			return
		}
		key := pkg + fmt.Sprint(quirks) + "\x00" + string(data)
		if seen[key] {
			return
		}
		seen[key] = true
		out = append(out, &input{name: "fam:" + desc, origin: "fam", pkg: pkg, kind: kind, quirks: quirks, data: data})
	}
	p1max := 3
	if thorough {
		p1max = 5
	}
	p1 := fam.P1Payloads(p1max)
	p2 := fam.P2Payloads(40)
	enc := fam.NewEnc()
	each := func(settings []fam.Setting, payloads []fam.Payload) {
		for si := range settings {
			s := &settings[si]
			if len(s.Tool) > 0 && !fam.ToolAvailable(s.Tool[0]) {
				skipped["SKIPPED_"+s.Family+"_tool_absent"]++
				continue
			}
			for pi := range payloads {
				cs, err := enc.Encode(s, &payloads[pi])
				if err != nil {
					skipped["SKIPPED_"+s.Family+"_tool_failed"]++
					continue
				}
				for _, c := range cs {
					if len(c.Data) <= maxCodec {
						add(c.Pkg, c.Quirks, c.Desc, c.Data)
					}
				}
			}
		}
	}
	each(fam.Settings(true, thorough), p1)
	each(fam.Settings(false, thorough), p2)
	tools := fam.ToolSettings(false)
	small := fam.P1Payloads(2)
	if thorough {
		small = fam.P1Payloads(3)
	}
	each(tools, small)
	// long structured payloads (output > 32 KiB, matches at every distance up to the window size): the inputs on which
	// history rings and dictionaries matter; these are not "<= 64 bytes" but are few
	for _, pat := range []string{"words", "cycle251", "far"} {
		for _, n := range []int{65537, 100000} {
			pl := fam.Payload{Desc: fmt.Sprintf("P2:%s:%d", pat, n), Class: "P2:" + pat, Data: fam.P2(pat, n)}
			for _, st := range []fam.Setting{{Family: "flate", Level: 1}, {Family: "flate", Level: 5}, {Family: "flate", Level: 9}, {Family: "zlib", Level: 5}, {Family: "gzip", Level: 9}, {Family: "lzw", LitWidth: 8}} {
				st := st
				cs, err := enc.Encode(&st, &pl)
				if err != nil {
					continue
				}
				for _, c := range cs {
					add(c.Pkg, c.Quirks, c.Desc, c.Data)
				}
			}
		}
	}
	// images
	for _, kind := range fam.PNGKinds {
		for _, sz := range [][2]int{{1, 1}, {2, 1}, {3, 2}, {5, 3}} {
			for pi, pattern := range []string{"grad", "noise"} {
				for li, level := range []png.CompressionLevel{png.DefaultCompression, png.NoCompression} {
					if !thorough && (pi+li)%2 == 1 {
						continue
					}
					c, err := fam.PNGCase(kind, pattern, sz[0], sz[1], level)
					if err != nil {
						ev.Fatal("reference png encoder: %v", err)
					}
					if len(c.Data) <= maxImage {
						add("png", nil, c.Desc, c.Data)
					}
				}
			}
		}
	}
	for _, pal := range []int{2, 4, 16} {
		for _, frames := range []int{1, 2, 3} {
			for opt := 0; opt < 8; opt++ {
				for _, sz := range [][2]int{{1, 1}, {3, 2}, {5, 4}} {
					spec := fam.GIFSpec{W: sz[0], H: sz[1], PalSize: pal, Frames: frames, LocalPal: opt&1 != 0, Transp: opt&2 != 0, SubRects: opt&4 != 0, Disposals: []byte{1, 2, 3}, Pattern: "diag"}
					c, err := fam.GIFCase(spec)
					if err != nil {
						ev.Fatal("reference gif encoder: %v", err)
					}
					if len(c.Data) <= maxImage {
						add("gif", nil, c.Desc, c.Data)
					}
				}
			}
		}
	}
	// small JSON / CBOR documents (token decoders; not a C07 family, added so that both token decoders see short inputs)
	for _, doc := range []string{`0`, `[]`, `{}`, `"a"`, `[1,2]`, `{"a":1}`, `  [ true , false,null ]  `, `"é\t\\x"`, `[-1.5e+10,"ab\ncd",{"k":[{}]}]`, `"` + strings.Repeat("xy", 20) + `"`,
		`[1234567890123456789012345678901234567890]`, `{"a":{"b":{"c":[[[1]]]}}}`, "\"\xc3\xa9\xe2\x82\xac\xf0\x9f\x98\x80\"", `[0.000001,1E5,-0]`} {
		add("json", nil, "json "+doc, []byte(doc))
	}
	for _, doc := range [][]byte{{0x00}, {0x18, 0x64}, {0x39, 0x03, 0xe7}, {0x83, 0x01, 0x02, 0x03}, {0xa1, 0x61, 0x61, 0x01}, {0x65, 'h', 'e', 'l', 'l', 'o'}, {0x5f, 0x42, 1, 2, 0x43, 3, 4, 5, 0xff},
		{0x7f, 0x62, 'a', 'b', 0x61, 'c', 0xff}, {0xfb, 0x40, 0x09, 0x21, 0xfb, 0x54, 0x44, 0x2d, 0x18}, {0xf9, 0x3c, 0x00}, {0x9f, 0x01, 0x82, 0x02, 0x03, 0xff}, {0xc1, 0x1a, 0x51, 0x4b, 0x67, 0xb0},
		{0xbf, 0x61, 'a', 0xf5, 0x61, 'b', 0xf6, 0xff}, {0x1b, 1, 2, 3, 4, 5, 6, 7, 8}, {0xd8, 0x20, 0x76, 'h', 't', 't', 'p', ':', '/', '/', 'w', 'w', 'w', '.', 'e', 'x', 'a', 'm', 'p', 'l', 'e', '.', 'c', 'o', 'm'}} {
		add("cbor", nil, fmt.Sprintf("cbor %x", doc), doc)
	}
	return out, skipped
}

func kindName(k int) string { return cserve.KindName(k) }
