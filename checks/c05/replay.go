package main

import (
	"encoding/hex"
	"encoding/json"
	"fmt"
	"os"

	"verif/checks/c07/drv"
	"verif/internal/cserve"
	"verif/internal/ev"
)

// replay re-executes one recorded witness linearly: the one-shot run and the scripted run of the
// same input on a server freshly built from the tree under check, one command per round trip,
// printing every call, and applies the oracle again.
func replay(path string) {
	b, err := os.ReadFile(path)
	if err != nil {
		ev.Fatal("%v", err)
	}
	var doc struct {
		Signature string  `json:"signature"`
		What      string  `json:"what"`
		Witness   witness `json:"witness"`
	}
	if err := json.Unmarshal(b, &doc); err != nil {
		ev.Fatal("%v", err)
	}
	w := doc.Witness
	fmt.Printf("replaying %s\n recorded: %s\n", doc.Signature, doc.What)
	data, err := hex.DecodeString(w.DataHex)
	if err != nil {
		ev.Fatal("bad witness: %v", err)
	}
	scratch, mine, err := cserve.Scratch()
	if err != nil {
		ev.Fatal("%v", err)
	}
	if mine {
		defer os.RemoveAll(scratch)
	}
	if w.Variant == "" {
		w.Variant = cserve.Plain
	}
	built, err := cserve.Build(scratch, []string{w.Variant}, []string{w.Pkg})
	if err != nil {
		ev.Fatal("cserve build: %v", err)
	}
	built.HangTimeout = 90e9
	srv, err := built.Start(w.Variant)
	if err != nil {
		ev.Fatal("%v", err)
	}
	defer srv.Close()
	in := &input{name: w.Name, pkg: w.Pkg, kind: built.KindOf(w.Pkg), quirks: w.Quirks, data: data}
	run := func(sc drv.Script, title string) *drv.Outcome {
		var out drv.Outcome
		done := false
		j := newJob(in, sc, true, func(o *drv.Outcome, _ []drv.Frame) { out = *o })
		if err := drv.Run(srv, 1, func() drv.Job {
			if done {
				return nil
			}
			done = true
			return j
		}); err != nil {
			ev.Fatal("%v", err)
		}
		fmt.Printf(" %s: script %s %+v\n", title, sc.Kind(), sc)
		tr := out.Trace
		if len(tr) > 60 {
			fmt.Printf("   (%d calls, first 30 and last 30 shown)\n", len(tr))
			tr = append(append([]string{}, tr[:30]...), tr[len(tr)-30:]...)
		}
		for _, t := range tr {
			fmt.Println("   ", t)
		}
		fmt.Printf("   => status %q, output %d units (hash %#x), consumed %d, state %v, crash=%q\n", stClass(out.Status), out.OutLen, out.OutHash, out.Consumed, out.Obs, out.Crash)
		return &out
	}
	fmt.Printf(" decoder %s (%s build), input %s, %d bytes: %x\n", w.Pkg, w.Variant, w.Name, len(data), data[:min(len(data), 64)])
	probe := run(drv.Script{}, "probe run")
	in.ref = probe
	if in.kind == cserve.KindTokenDecoder {
		in.refToks = normalizeTokens(probe.Out)
	}
	ref := run(drv.Script{}, "one-shot run")
	in.ref = ref
	if in.kind == cserve.KindTokenDecoder {
		in.refToks = normalizeTokens(ref.Out)
	}
	got := run(w.Script, "chunked run")
	clause, detail := compare(in, got)
	if clause == "" {
		fmt.Println(" oracle: chunked run agrees with the one-shot run (not reproduced)")
		return
	}
	fmt.Printf(" oracle: clause %q violated: %s\n", clause, detail)
	os.Exit(1)
}
