package main

import (
	"encoding/binary"
	"fmt"
)

// Token streams under splitting.
//
// doc/note/tokens.md promises that "the tokens partition the bytes" and that consecutive tokens
// form chains (the `continued` bit); it explicitly says a string "can correspond to multiple
// tokens" and does not promise WHERE a run of copyable bytes or of filler is cut into tokens.
// A decoder that runs out of input (or of token-buffer room) inside such a run emits what it
// has and continues with a new token, so the raw token sequence legitimately depends on the
// split. What must not depend on it is the *reassembled* stream. The normal form used here:
//
//   - a base-namespace FILLER token (white space, punctuation, comments) of length L becomes L
//     one-byte units carrying its value bits, with the `continued` bit dropped (filler "can
//     generally be ignored other than accumulating their length");
//   - a base-namespace STRING token whose conversion is a plain byte-wise one (1_DST_1_SRC_COPY,
//     0_DST_1_SRC_DROP) of length L becomes L one-byte units carrying its value bits; every unit
//     but the last is `continued`, the last keeps the token's own `continued` bit — so cutting
//     the token in two (the first part is then necessarily `continued`) gives the same units;
//   - every other token (structure, literals, numbers, code points, extended and package
//     specific tokens, zero-length tokens) is one unit: (value bits, continued, length).
//
// Two runs agree when their unit sequences are equal.
type unit struct {
	val uint64 // bits 17..63 of the token
	con bool
	n   uint32
}

func normalizeTokens(raw []byte) []unit {
	var out []unit
	for i := 0; i+8 <= len(raw); i += 8 {
		t := binary.LittleEndian.Uint64(raw[i:])
		val := t >> 17
		con := t&(1<<16) != 0
		n := uint32(t & 0xFFFF)
		ext := t>>63 != 0
		major := (t >> 42) & 0x1FFFFF
		if !ext && major == 0 && n > 0 {
			vbc := (t >> 38) & 0xF
			vbd := (t >> 17) & 0x1FFFFF
			switch {
			case vbc == 0: // filler
				for k := uint32(0); k < n; k++ {
					out = append(out, unit{val, false, 1})
				}
				continue
			case vbc == 2 && vbd&0x300 != 0 && vbd&^0x3FF == 0: // string, byte-wise copy or drop
				for k := uint32(0); k < n; k++ {
					out = append(out, unit{val, con || k+1 < n, 1})
				}
				continue
			}
		}
		out = append(out, unit{val, con, n})
	}
	return out
}

func unitsEqual(a, b []unit) int {
	n := min(len(a), len(b))
	for i := 0; i < n; i++ {
		if a[i] != b[i] {
			return i
		}
	}
	if len(a) != len(b) {
		return n
	}
	return -1
}

func describeUnits(u []unit, at int) string {
	lo := max(0, at-2)
	hi := min(len(u), at+3)
	s := ""
	for i := lo; i < hi; i++ {
		c := 0
		if u[i].con {
			c = 1
		}
		s += fmt.Sprintf("[%d: val=0x%x con=%d len=%d] ", i, u[i].val, c, u[i].n)
	}
	return s
}

func tokensTotalLen(raw []byte) uint64 {
	var n uint64
	for i := 0; i+8 <= len(raw); i += 8 {
		n += binary.LittleEndian.Uint64(raw[i:]) & 0xFFFF
	}
	return n
}
