package main

// Static half of C10: compile the freshly generated C (no sanitizers, -O2) and enumerate every
// section, symbol and relocation of every object.

import (
	"bufio"
	"bytes"
	"debug/elf"
	"encoding/binary"
	"fmt"
	"os"
	"os/exec"
	"path/filepath"
	"regexp"
	"sort"
	"strconv"
	"strings"
)

// job is one compilation.
type job struct {
	CC      string   // "gcc", "clang-14", or a compiler with flags such as "gcc -O3 -fno-pie"
	Static  bool     // -DWUFFS_CONFIG__STATIC_FUNCTIONS
	Module  string   // "" = monolithic (all of std), else one module: BASE, ADLER32, ...
	Mods    []string // if set: the modules compiled in (Module plus what it uses plus BASE)
	Anchor  []string // Static only: functions whose address is taken so that -O2 keeps them
	Obj     string
	Seconds float64
}

func (j *job) name() string {
	m := j.Module
	if m == "" {
		m = "ALL"
	}
	s := "extern"
	if j.Static {
		s = "static"
	}
	return fmt.Sprintf("%s/%s/%s", j.CC, s, strings.ToLower(m))
}

const anchorSym = "c10_keep_alive"

// compile writes the translation unit and runs the compiler.
func (j *job) compile(dir, releaseC string) error {
	var t strings.Builder
	t.WriteString("#define WUFFS_IMPLEMENTATION\n")
	if j.Static {
		t.WriteString("#define WUFFS_CONFIG__STATIC_FUNCTIONS\n")
	}
	if j.Module != "" {
		// WUFFS_NONMONOLITHIC makes the struct definitions of the modules this one `use`s visible,
		// as in a build that puts every module into its own object.
		t.WriteString("#define WUFFS_NONMONOLITHIC\n#define WUFFS_CONFIG__MODULES\n")
		mods := j.Mods
		if mods == nil {
			mods = []string{j.Module}
		}
		for _, m := range mods {
			fmt.Fprintf(&t, "#define WUFFS_CONFIG__MODULE__%s\n", m)
		}
	}
	fmt.Fprintf(&t, "#include %q\n", releaseC)
	if j.Static {
		// With static functions an optimising compiler drops everything unused: reference every
		// API function from one const table (the only symbol such an object may export).
		fmt.Fprintf(&t, "const void* const %s[] = {\n", anchorSym)
		for _, f := range j.Anchor {
			fmt.Fprintf(&t, "  (const void*)&%s,\n", f)
		}
		t.WriteString("  (const void*)0,\n};\n")
	}
	base := strings.NewReplacer("/", "_", "-", "_", " ", "_").Replace(j.name())
	src := filepath.Join(dir, base+".c")
	j.Obj = filepath.Join(dir, base+".o")
	if err := os.WriteFile(src, []byte(t.String()), 0o644); err != nil {
		return err
	}
	// CC is "<compiler> [flags...]"; without an -O flag of its own it is compiled -O2
	f := strings.Fields(j.CC)
	args := append([]string(nil), f[1:]...)
	if !strings.Contains(j.CC, " -O") {
		args = append(args, "-O2")
	}
	args = append(args, "-w", "-c", "-o", j.Obj, src)
	out, err := exec.Command(f[0], args...).CombinedOutput()
	if err != nil {
		o := string(out)
		if len(o) > 3000 {
			o = o[:3000]
		}
		return fmt.Errorf("%s %v: %v\n%s", f[0], args, err, o)
	}
	return nil
}

// ---- ELF enumeration

type secInfo struct {
	Name  string
	Type  elf.SectionType
	Flags elf.SectionFlag
	Size  uint64
}

type symInfo struct {
	Name    string
	Bind    elf.SymBind
	Type    elf.SymType
	Section elf.SectionIndex
	Value   uint64
	Size    uint64
}

type relocUse struct {
	Sym   string // referenced symbol
	Owner string // function (or "section:<name>") that holds the relocation
}

type objInfo struct {
	Sections []secInfo
	Syms     []symInfo
	Undef    []string   // undefined symbol names (sorted)
	ExpFuncs []string   // defined GLOBAL/WEAK FUNC symbols (sorted)
	ExpData  []string   // defined GLOBAL/WEAK OBJECT symbols (sorted)
	Uses     []relocUse // relocations against undefined symbols
	NRelocs  int
}

func readObj(path string) (*objInfo, error) {
	f, err := elf.Open(path)
	if err != nil {
		return nil, err
	}
	defer f.Close()
	if f.Type != elf.ET_REL || f.Class != elf.ELFCLASS64 || f.ByteOrder != binary.LittleEndian {
		return nil, fmt.Errorf("%s: not a little-endian ELF64 relocatable object", path)
	}
	o := &objInfo{}
	for _, s := range f.Sections {
		o.Sections = append(o.Sections, secInfo{s.Name, s.Type, s.Flags, s.Size})
	}
	syms, err := f.Symbols()
	if err != nil && err != elf.ErrNoSymbols {
		return nil, err
	}
	for _, s := range syms {
		o.Syms = append(o.Syms, symInfo{s.Name, elf.ST_BIND(s.Info), elf.ST_TYPE(s.Info), s.Section, s.Value, s.Size})
	}
	// function ranges per section, for relocation owners
	type frange struct {
		lo, hi uint64
		name   string
	}
	funcs := map[elf.SectionIndex][]frange{}
	for _, s := range o.Syms {
		if s.Type == elf.STT_FUNC && s.Section != elf.SHN_UNDEF && s.Section < elf.SHN_LORESERVE {
			funcs[s.Section] = append(funcs[s.Section], frange{s.Value, s.Value + s.Size, s.Name})
		}
	}
	for k := range funcs {
		l := funcs[k]
		sort.Slice(l, func(i, j int) bool { return l[i].lo < l[j].lo })
	}
	owner := func(sec elf.SectionIndex, off uint64) string {
		l := funcs[sec]
		i := sort.Search(len(l), func(i int) bool { return l[i].lo > off }) - 1
		if i >= 0 && off < l[i].hi {
			return l[i].name
		}
		if int(sec) < len(f.Sections) {
			return "section:" + f.Sections[sec].Name
		}
		return "section:?"
	}
	seenU, seenF, seenD := map[string]bool{}, map[string]bool{}, map[string]bool{}
	for _, s := range o.Syms {
		switch {
		case s.Section == elf.SHN_UNDEF && s.Name != "":
			if !seenU[s.Name] {
				seenU[s.Name] = true
				o.Undef = append(o.Undef, s.Name)
			}
		case (s.Bind == elf.STB_GLOBAL || s.Bind == elf.STB_WEAK) && s.Section != elf.SHN_UNDEF:
			if s.Type == elf.STT_FUNC || s.Type == elf.STT_GNU_IFUNC {
				if !seenF[s.Name] {
					seenF[s.Name] = true
					o.ExpFuncs = append(o.ExpFuncs, s.Name)
				}
			} else if !seenD[s.Name] {
				seenD[s.Name] = true
				o.ExpData = append(o.ExpData, s.Name)
			}
		}
	}
	sort.Strings(o.Undef)
	sort.Strings(o.ExpFuncs)
	sort.Strings(o.ExpData)
	for _, rs := range f.Sections {
		if rs.Type != elf.SHT_RELA && rs.Type != elf.SHT_REL {
			continue
		}
		data, err := rs.Data()
		if err != nil {
			return nil, err
		}
		ent := 24
		if rs.Type == elf.SHT_REL {
			ent = 16
		}
		target := elf.SectionIndex(rs.Info)
		for p := 0; p+ent <= len(data); p += ent {
			off := binary.LittleEndian.Uint64(data[p:])
			info := binary.LittleEndian.Uint64(data[p+8:])
			si := int(info >> 32)
			o.NRelocs++
			if si == 0 || si-1 >= len(o.Syms) {
				continue
			}
			s := &o.Syms[si-1]
			if s.Section != elf.SHN_UNDEF || s.Name == "" {
				continue
			}
			o.Uses = append(o.Uses, relocUse{Sym: s.Name, Owner: owner(target, off)})
		}
	}
	return o, nil
}

// crossCheckBinutils compares the ELF reading above with what `size -A` and `nm` print for the
// same object (the check's own reader must not be the only witness).
func crossCheckBinutils(path string, o *objInfo) error {
	out, err := exec.Command("size", "-A", path).Output()
	if err != nil {
		return fmt.Errorf("size -A: %v", err)
	}
	sizes := map[string]uint64{}
	for _, l := range strings.Split(string(out), "\n") {
		f := strings.Fields(l)
		if len(f) == 3 && strings.HasPrefix(f[0], ".") {
			n, err := strconv.ParseUint(f[1], 10, 64)
			if err == nil {
				sizes[f[0]] += n
			}
		}
	}
	mine := map[string]uint64{}
	for _, s := range o.Sections {
		if s.Flags&elf.SHF_ALLOC != 0 {
			mine[s.Name] += s.Size
		}
	}
	for n, v := range mine {
		if got, ok := sizes[n]; ok && got != v {
			return fmt.Errorf("section %s: size -A says %d, ELF reader says %d", n, got, v)
		}
		if _, ok := sizes[n]; !ok && v != 0 {
			return fmt.Errorf("section %s (%d bytes) not listed by size -A", n, v)
		}
	}
	nmSet := func(args ...string) (map[string]bool, error) {
		out, err := exec.Command("nm", append(args, path)...).Output()
		if err != nil {
			return nil, fmt.Errorf("nm %v: %v", args, err)
		}
		m := map[string]bool{}
		for _, l := range strings.Split(string(out), "\n") {
			f := strings.Fields(l)
			if len(f) >= 2 {
				m[f[len(f)-1]] = true
			}
		}
		return m, nil
	}
	u, err := nmSet("-u")
	if err != nil {
		return err
	}
	if len(u) != len(o.Undef) {
		return fmt.Errorf("nm -u lists %d symbols, ELF reader %d", len(u), len(o.Undef))
	}
	for _, n := range o.Undef {
		if !u[n] {
			return fmt.Errorf("undefined symbol %s not in nm -u", n)
		}
	}
	g, err := nmSet("-g", "--defined-only")
	if err != nil {
		return err
	}
	if len(g) != len(o.ExpFuncs)+len(o.ExpData) {
		return fmt.Errorf("nm -g --defined-only lists %d symbols, ELF reader %d", len(g), len(o.ExpFuncs)+len(o.ExpData))
	}
	return nil
}

var objdumpFuncRe = regexp.MustCompile(`^[0-9a-f]+ <([^>]+)>:$`)
var objdumpRelocRe = regexp.MustCompile(`^\s+[0-9a-f]+: (R_[A-Z0-9_]+)\s+([A-Za-z_][A-Za-z0-9_.]*)`)

// objdumpOwners runs `objdump -dr` and returns, for the given symbols, the set of functions
// that hold a relocation against them (an independent second opinion on readObj's owners).
func objdumpOwners(path string, want map[string]bool) (map[string]map[string]bool, error) {
	cmd := exec.Command("objdump", "-dr", "--no-show-raw-insn", path)
	pipe, err := cmd.StdoutPipe()
	if err != nil {
		return nil, err
	}
	if err := cmd.Start(); err != nil {
		return nil, err
	}
	out := map[string]map[string]bool{}
	sc := bufio.NewScanner(pipe)
	sc.Buffer(make([]byte, 1<<20), 1<<24)
	cur := ""
	for sc.Scan() {
		l := sc.Bytes()
		if len(l) > 0 && l[0] != ' ' && l[0] != '\t' {
			if m := objdumpFuncRe.FindSubmatch(l); m != nil {
				cur = string(m[1])
			}
			continue
		}
		if !bytes.Contains(l, []byte("R_")) {
			continue
		}
		if m := objdumpRelocRe.FindSubmatch(l); m != nil {
			s := string(m[2])
			if want[s] {
				if out[s] == nil {
					out[s] = map[string]bool{}
				}
				out[s][cur] = true
			}
		}
	}
	if err := cmd.Wait(); err != nil {
		return nil, fmt.Errorf("objdump -dr: %v", err)
	}
	return out, nil
}

// ---- oracle

// bcmp: clang lowers `memcmp(a, b, n) == 0` to bcmp(a, b, n), i.e. it is memcmp under another name.
var memFuncs = map[string]bool{"memcpy": true, "memmove": true, "memset": true, "memcmp": true, "bcmp": true}
var allocFuncs = map[string]bool{"calloc": true, "malloc": true, "free": true}

// Compiler-runtime helpers that a C compiler may reference on its own (fixed allow-list).
var runtimeHelpers = map[string]bool{"__stack_chk_fail": true, "_GLOBAL_OFFSET_TABLE_": true, "__stack_chk_guard": true}

type finding struct {
	Sig, What string
	Witness   map[string]any
}

func writableSection(s secInfo) (bad bool, why string) {
	if s.Size == 0 {
		return false, ""
	}
	n := s.Name
	if strings.HasPrefix(n, ".data.rel.ro") || strings.HasPrefix(n, ".rodata") {
		return false, ""
	}
	for _, p := range []string{".data", ".bss", ".tdata", ".tbss"} {
		if n == p || strings.HasPrefix(n, p+".") {
			return true, "named " + p + "*"
		}
	}
	if s.Flags&elf.SHF_TLS != 0 {
		return true, "thread-local (SHF_TLS)"
	}
	if s.Flags&elf.SHF_ALLOC != 0 && s.Flags&elf.SHF_WRITE != 0 {
		return true, "flags ALLOC+WRITE"
	}
	return false, ""
}

// symbolsIn lists the OBJECT symbols that live in section index si (to name the culprit).
func symbolsIn(o *objInfo, name string) []string {
	var out []string
	idx := -1
	for i, s := range o.Sections {
		if s.Name == name {
			idx = i
		}
	}
	for _, s := range o.Syms {
		if int(s.Section) == idx && s.Name != "" && s.Type != elf.STT_SECTION {
			out = append(out, s.Name)
		}
	}
	sort.Strings(out)
	if len(out) > 12 {
		out = out[:12]
	}
	return out
}

// modOf maps an exported symbol to its module ("base", "png", ...) or "".
var symModRe = regexp.MustCompile(`^(?:sizeof__)?wuffs_([a-z0-9]+)__`)

func modOf(sym string) string {
	if m := symModRe.FindStringSubmatch(sym); m != nil {
		if m[1] == "private" {
			return "base"
		}
		return m[1]
	}
	if strings.HasPrefix(sym, "wuffs_private_impl__") {
		return "base"
	}
	return ""
}

// judge applies the oracle to one object. exp: expected exports per module (lower case);
// monoExports: every symbol the monolithic object of the same compiler defines globally (a
// single-module object may leave exactly those undefined).
func judge(j *job, o *objInfo, exp map[string]*expected, monoExports map[string]bool) []finding {
	var out []finding
	add := func(sig, what string, w map[string]any) {
		w["object"] = j.name()
		out = append(out, finding{sig, what, w})
	}
	cls := "extern-functions"
	if j.Static {
		cls = "static-functions"
	}
	// 1. writable / thread-local data
	for _, s := range o.Sections {
		if bad, why := writableSection(s); bad {
			add(fmt.Sprintf("static|writable-section|%s", s.Name),
				fmt.Sprintf("object %s has %d bytes in section %s (%s): writable or thread-local global data; symbols there: %v", j.name(), s.Size, s.Name, why, symbolsIn(o, s.Name)),
				map[string]any{"section": s.Name, "size": s.Size, "flags": s.Flags.String(), "symbols": symbolsIn(o, s.Name)})
		}
	}
	for _, s := range o.Syms {
		if s.Section == elf.SHN_COMMON {
			add("static|writable-section|COMMON", fmt.Sprintf("object %s has COMMON symbol %s (%d bytes): zero-initialised writable global", j.name(), s.Name, s.Size), map[string]any{"symbol": s.Name})
		}
		if s.Type == elf.STT_TLS {
			add("static|writable-section|TLS-symbol", fmt.Sprintf("object %s has thread-local symbol %s", j.name(), s.Name), map[string]any{"symbol": s.Name})
		}
		if s.Type == elf.STT_GNU_IFUNC {
			add("static|ifunc-symbol", fmt.Sprintf("object %s has IFUNC symbol %s (needs a run-time resolver)", j.name(), s.Name), map[string]any{"symbol": s.Name})
		}
	}
	// 2. undefined symbols
	for _, u := range o.Undef {
		switch {
		case memFuncs[u], runtimeHelpers[u]:
		case allocFuncs[u]:
			// decided below by relocation owner
		case j.Module != "" && monoExports[u]:
			// another module's API (this object holds one module only)
		default:
			var owners []string
			seen := map[string]bool{}
			for _, r := range o.Uses {
				if r.Sym == u && !seen[r.Owner] {
					seen[r.Owner] = true
					owners = append(owners, r.Owner)
				}
			}
			sort.Strings(owners)
			if len(owners) > 8 {
				owners = owners[:8]
			}
			add("static|undefined-symbol|"+u, fmt.Sprintf("object %s references external symbol %s (from %v): only memcpy/memmove/memset/memcmp (and calloc/free from the alloc functions) are allowed", j.name(), u, owners),
				map[string]any{"symbol": u, "referenced_from": owners})
		}
	}
	for _, r := range o.Uses {
		if allocFuncs[r.Sym] && !strings.Contains(r.Owner, "__alloc") {
			add("static|allocator-outside-alloc|"+r.Sym, fmt.Sprintf("object %s: %s is referenced from %s, which is not an *__alloc* function", j.name(), r.Sym, r.Owner),
				map[string]any{"symbol": r.Sym, "owner": r.Owner})
		}
	}
	// 3. exported functions
	if j.Static {
		// WUFFS_CONFIG__STATIC_FUNCTIONS: whatever is still exported must at least be public API
		// (the generated sizeof__/initialize/alloc helpers stay extern; that is within the property).
		for _, f := range o.ExpFuncs {
			e := exp[modOf(f)]
			if e != nil && (e.Required[f] || e.Optional[f]) {
				continue
			}
			add(fmt.Sprintf("static|exported-nonpublic-function|%s|%s", modOf(f), f), fmt.Sprintf("object %s (WUFFS_CONFIG__STATIC_FUNCTIONS) exports function %s, which is not public API", j.name(), f), map[string]any{"symbol": f})
		}
		return out
	}
	mods := []string{}
	if j.Module == "" {
		for m := range exp {
			mods = append(mods, m)
		}
	} else {
		mods = append(mods, strings.ToLower(j.Module))
	}
	sort.Strings(mods)
	inScope := map[string]bool{}
	for _, m := range mods {
		inScope[m] = true
	}
	got := map[string]bool{}
	extra := map[string][]string{} // std module -> exported functions that are not pub
	for _, f := range o.ExpFuncs {
		got[f] = true
		m := modOf(f)
		e := exp[m]
		if e != nil && (e.Required[f] || e.Optional[f]) {
			continue
		}
		if m == "base" || e == nil {
			// hand-written code (or a symbol of no known module): one signature per function
			kind := "has no prototype in internal/cgen/base/*-public.h and is not an interface method"
			if e == nil {
				kind = "belongs to no known module"
			}
			add(fmt.Sprintf("static|exported-nonpublic-function|%s|%s", m, f), fmt.Sprintf("object %s exports function %s, which %s", j.name(), f, kind),
				map[string]any{"symbol": f, "module": m})
			continue
		}
		extra[m] = append(extra[m], f)
	}
	for m, l := range extra {
		sort.Strings(l)
		show := l
		if len(show) > 6 {
			show = show[:6]
		}
		// generated code: one signature per module, the functions are in the witness
		add(fmt.Sprintf("static|exported-nonpublic-function|%s", m), fmt.Sprintf("object %s exports %d function(s) that the Wuffs sources of %s do not declare pub: %v", j.name(), len(l), m, show),
			map[string]any{"symbols": l, "module": m})
	}
	for _, m := range mods {
		e := exp[m]
		if e == nil {
			continue
		}
		var missing []string
		for f := range e.Required {
			if !got[f] {
				missing = append(missing, f)
			}
		}
		if len(missing) == 0 {
			continue
		}
		sort.Strings(missing)
		var why []string
		for _, f := range missing {
			why = append(why, f+" ("+e.Why[f]+")")
		}
		if len(why) > 6 {
			why = why[:6]
		}
		add(fmt.Sprintf("static|pub-function-not-exported|%s", m), fmt.Sprintf("object %s does not export %d function(s) that %s declares public: %v", j.name(), len(missing), m, why),
			map[string]any{"symbols": missing, "module": m})
	}
	_ = cls
	return out
}
