package main

// C10, generated-program part: "calling a method declared pure leaves the
// receiver and all buffers bit-for-bit unchanged" for accepted *generated*
// packages (the dynamic half in main.go covers std/ at the C level).
//
// The progen family `pure` enumerates pure (no "!" / "?") public and private
// methods x every way a write could be attempted from inside one (direct field
// / element / nested-element stores, stores through local slices of 1-, 2- and
// 3-level array fields, through slices of slices, slices of arrays, `ptr
// array`, copy_from_slice! / bulk_memset!, impure calls, by-reference
// arguments). Every program goes through the real Tokenize -> Parse -> Check;
// most must be rejected. Every accepted one is executed by the reference
// interpreter (interp.Explore: all argument tuples from every receiver state
// reachable by <= 2 prior public calls) with the purity monitor on: a store
// into receiver memory or into memory the pure frame does not own is flagged at
// the storing statement, and around every call of a pure method (public or
// nested) the receiver hash and every by-reference argument's memory must be
// unchanged. The pure methods of other families (seeds, calls, and the first
// levels of facts / refine / ptr, whose programs all carry private pure
// callees) run under the same monitor.
//
// Signature: programs|pure-method-wrote-receiver|<statement shape> (or
// ...-wrote-buffer|...); <statement shape> is interp.StmtShape of the storing
// statement ("call" when only the call-level comparison noticed).

import (
	"encoding/json"
	"fmt"
	"os"
	"strings"
	"sync"

	"verif/internal/ev"
	"verif/internal/interp"
	"verif/internal/progen"
)

type ppWitness struct {
	Kind     string            `json:"kind"` // "pure-program"
	Family   string            `json:"family"`
	Tags     map[string]string `json:"tags,omitempty"`
	Program  string            `json:"program"`
	History  []interp.CallSpec `json:"history"`
	Call     interp.CallSpec   `json:"call"`
	Observed string            `json:"observed"`
}

func ppSignature(v *interp.Violation) string {
	what := "pure-method-wrote-receiver"
	if v.Kind == "pure-wrote-buffer" {
		what = "pure-method-wrote-buffer"
	}
	shape := "call"
	if v.Node != nil && v.Stmt != nil {
		shape = interp.StmtShape(v.Stmt)
	}
	return "programs|" + what + "|" + shape
}

// pureProgramsPart walks the families and returns (pure-method calls bracketed
// by the monitor, distinct accepted programs in which at least one such call
// was executed).
func pureProgramsPart(r *ev.Run) (evaluations, nontrivial int64) {
	type famSpec struct {
		name   string
		levels int // 0: the whole tree
	}
	fams := []famSpec{{"pure", 0}, {"seeds", 0}, {"calls", 0}, {"facts", 2}, {"refine", 2}, {"ptr", 2}}
	if r.Thorough() {
		fams = []famSpec{{"pure", 0}, {"seeds", 0}, {"calls", 0}, {"facts", 3}, {"refine", 2}, {"ptr", 3}}
	}
	var mu sync.Mutex
	var generated, accepted, rejected, unsupported, executions int64
	rejKinds, attempts := map[string]int64{}, map[string]int64{}
	for _, fs := range fams {
		fam := progen.New(fs.name, r.Tier)
		if fam == nil {
			ev.Fatal("pure programs: unknown progen family %q", fs.name)
		}
		level := fam.Roots()
		for depth := 0; len(level) > 0 && (fs.levels == 0 || depth < fs.levels); depth++ {
			ok := make([]bool, len(level))
			ev.ParFor(len(level), func(w, i int) {
				if r.Expired() {
					return
				}
				p := level[i]
				prog, err := interp.Compile(p.Src)
				mu.Lock()
				generated++
				if err != nil {
					if rj, isRej := err.(*interp.Rejected); isRej {
						rejected++
						rejKinds[fs.name+": rejected at "+rj.Stage]++
					} else {
						unsupported++
						fmt.Fprintf(os.Stderr, "HARNESS-ERROR: pure programs: %v\n%s\n", err, p.Src)
					}
					mu.Unlock()
					return
				}
				accepted++
				rejKinds[fs.name+": accepted"]++
				mu.Unlock()
				ok[i] = true
				reported := map[string]bool{}
				opt := interp.ExploreOptions{Depth: 2, MaxExec: 4000, MaxStates: 1024, MaxTuples: 1024, Pure: true}
				if r.Thorough() {
					opt.MaxExec = 12000
				}
				opt.OnExec = func(x *interp.Execution) {
					v := x.Result.Viol
					if v == nil || !strings.HasPrefix(v.Kind, "pure-wrote") {
						return
					}
					sig := ppSignature(v)
					if reported[sig] {
						return
					}
					reported[sig] = true
					r.Violation(sig, fmt.Sprintf("accepted generated program: %s", v.String()),
						ppWitness{Kind: "pure-program", Family: fs.name, Tags: p.Tags, Program: p.Src, History: x.History, Call: x.Call, Observed: v.String()})
				}
				st := interp.Explore(prog, opt)
				mu.Lock()
				executions += st.Executions
				evaluations += st.PureCalls
				if st.PureCalls > 0 {
					nontrivial++
				}
				if fs.name == "pure" {
					attempts[p.Tags["attempt"]]++
				}
				for _, b := range st.Bugs {
					fmt.Fprintf(os.Stderr, "HARNESS-ERROR: pure programs: interpreter problem: %s\n%s\n", b, p.Src)
					unsupported++
				}
				mu.Unlock()
			})
			var next []progen.Program
			for i, p := range level {
				if ok[i] {
					next = append(next, fam.Extend(p)...)
				}
			}
			level = next
		}
	}
	if unsupported > 0 {
		ev.Fatal("pure programs: %d accepted programs outside the interpreter's subset / interpreter problems", unsupported)
	}
	r.MergeHist("pure_programs_outcome", rejKinds)
	r.MergeHist("pure_family_accepted_attempts", attempts)
	r.Add("pure_programs_generated", generated)
	r.Add("pure_programs_accepted", accepted)
	r.Add("pure_programs_rejected", rejected)
	r.Add("pure_programs_executions", executions)
	r.Add("pure_programs_pure_calls_monitored", evaluations)
	r.Sample(map[string]any{"part": "pure programs", "generated": generated, "accepted": accepted, "rejected": rejected,
		"executions": executions, "pure_calls_monitored": evaluations, "accepted_programs_with_a_pure_call": nontrivial})
	return evaluations, nontrivial
}

// pureProgramsReplay re-executes a "pure-program" witness linearly (twice) and
// exits 1 if the purity violation reproduces; it returns false for any other
// kind of replay file.
func pureProgramsReplay(path string) bool {
	b, err := os.ReadFile(path)
	if err != nil {
		return false
	}
	var doc struct {
		Signature string    `json:"signature"`
		Witness   ppWitness `json:"witness"`
	}
	if json.Unmarshal(b, &doc) != nil || doc.Witness.Kind != "pure-program" {
		return false
	}
	run := func() string {
		prog, err := interp.Compile(doc.Witness.Program)
		if err != nil {
			return "not accepted: " + err.Error()
		}
		m := interp.NewMachine(prog)
		m.CheckPure, m.CheckBounds = true, false
		obj := prog.NewObject(prog.MainStruct())
		var out []string
		for _, c := range append(append([]interp.CallSpec(nil), doc.Witness.History...), doc.Witness.Call) {
			fn := prog.Funcs[prog.MainStruct()+"."+c.Method]
			if fn == nil {
				return "no method " + c.Method
			}
			before := obj.FieldDump()
			res := m.CallPublic(obj, fn, c)
			out = append(out, fmt.Sprintf("%s: receiver before %v after %v", c.String(), before, obj.FieldDump()))
			if res.Viol != nil {
				out = append(out, "violation: "+res.Viol.String()+" ["+ppSignature(res.Viol)+"]")
				break
			}
		}
		return strings.Join(out, "\n")
	}
	o1, o2 := run(), run()
	if o1 != o2 {
		ev.Fatal("pure-program replay diverged between two runs")
	}
	fmt.Printf("replaying %s\n%s\n%s\n", doc.Signature, doc.Witness.Program, o1)
	if strings.Contains(o1, "["+doc.Signature+"]") {
		fmt.Println("reproduced")
		os.Exit(1)
	}
	fmt.Println("not reproduced")
	return true
}
