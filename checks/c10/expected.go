package main

// The expected set of exported functions, derived from the Wuffs sources (lang/parse on
// std/<pkg>/*.wuffs), the hand-written public headers of `base`, and lang/builtin — never from
// the generated C.

import (
	"fmt"
	"os"
	"path/filepath"
	"regexp"
	"sort"
	"strings"

	a "github.com/google/wuffs/lang/ast"
	"github.com/google/wuffs/lang/builtin"
	"github.com/google/wuffs/lang/parse"
	t "github.com/google/wuffs/lang/token"
)

type expected struct {
	Required map[string]bool   // must be exported
	Optional map[string]bool   // may be exported (static inline helpers, builtin methods of base types)
	Why      map[string]string // symbol -> where it is declared
}

func newExpected() *expected {
	return &expected{Required: map[string]bool{}, Optional: map[string]bool{}, Why: map[string]string{}}
}

// pureMethods[pkg.struct] = names of the pub methods without `!`/`?`.
type stdInfo struct {
	Exp   map[string]*expected // module (lower case) -> expectation
	Pure  map[string][]string  // "pkg.struct" -> pure pub method names (sorted)
	Files int
	Funcs int
}

func funcBaseName(decl string) (recv, name string) {
	i := strings.IndexAny(decl, "(!?")
	if i < 0 {
		return "", ""
	}
	d := decl[:i]
	k := strings.Index(d, ".")
	if k < 0 {
		return "", d
	}
	return d[:k], d[k+1:]
}

var protoRe = regexp.MustCompile(`(?m)^WUFFS_BASE__MAYBE_STATIC [^;(]*?\b(wuffs_[A-Za-z0-9_]+)\s*\(`)

func scanStd(repo string) (*stdInfo, error) {
	info := &stdInfo{Exp: map[string]*expected{}, Pure: map[string][]string{}}
	dirs, err := filepath.Glob(filepath.Join(repo, "std", "*"))
	if err != nil {
		return nil, err
	}
	sort.Strings(dirs)
	for _, dir := range dirs {
		fi, err := os.Stat(dir)
		if err != nil || !fi.IsDir() {
			continue
		}
		pkg := filepath.Base(dir)
		files, _ := filepath.Glob(filepath.Join(dir, "*.wuffs"))
		if len(files) == 0 {
			continue
		}
		sort.Strings(files)
		e := newExpected()
		info.Exp[pkg] = e
		pubStruct := map[string]bool{}
		type fn struct {
			recv, name string
			pure       bool
			where      string
		}
		var fns []fn
		for _, fname := range files {
			src, err := os.ReadFile(fname)
			if err != nil {
				return nil, err
			}
			tm := &t.Map{}
			toks, _, err := t.Tokenize(tm, fname, src)
			if err != nil {
				return nil, fmt.Errorf("tokenize %s: %v", fname, err)
			}
			f, err := parse.Parse(tm, fname, toks, nil)
			if err != nil {
				return nil, fmt.Errorf("parse %s: %v", fname, err)
			}
			info.Files++
			for _, tld := range f.TopLevelDecls() {
				if tld.Kind() == a.KStruct {
					if s := tld.AsStruct(); s.Public() && s.Classy() {
						pubStruct[s.QID()[1].Str(tm)] = true
					}
				}
				if tld.Kind() == a.KFunc {
					fu := tld.AsFunc()
					info.Funcs++
					if !fu.Public() {
						continue
					}
					fns = append(fns, fn{fu.Receiver()[1].Str(tm), fu.FuncName().Str(tm), fu.Effect().Pure(),
						fmt.Sprintf("%s:%d", strings.TrimPrefix(fname, repo+"/"), fu.Line())})
				}
			}
		}
		for s := range pubStruct {
			p := "wuffs_" + pkg + "__" + s
			for sym, why := range map[string]string{p + "__initialize": "initialize of pub struct " + s, "sizeof__" + p: "sizeof of pub struct " + s,
				p + "__alloc": "alloc of pub struct " + s} {
				e.Required[sym] = true
				e.Why[sym] = why
			}
		}
		for _, f := range fns {
			if f.recv == "" {
				continue
			}
			sym := "wuffs_" + pkg + "__" + f.recv + "__" + f.name
			e.Required[sym] = true
			e.Why[sym] = "pub func at " + f.where
			if f.pure {
				k := pkg + "." + f.recv
				info.Pure[k] = append(info.Pure[k], f.name)
			}
		}
	}
	for k := range info.Pure {
		sort.Strings(info.Pure[k])
	}
	// base
	b := newExpected()
	info.Exp["base"] = b
	hdrs, _ := filepath.Glob(filepath.Join(repo, "internal", "cgen", "base", "*-public.h"))
	sort.Strings(hdrs)
	for _, h := range hdrs {
		src, err := os.ReadFile(h)
		if err != nil {
			return nil, err
		}
		for _, m := range protoRe.FindAllStringSubmatch(string(src), -1) {
			b.Required[m[1]] = true
			b.Why[m[1]] = "prototype in " + filepath.Base(h)
		}
	}
	if len(b.Required) == 0 {
		return nil, fmt.Errorf("no WUFFS_BASE__MAYBE_STATIC prototypes found in %s/internal/cgen/base/*-public.h", repo)
	}
	for _, d := range builtin.InterfaceFuncs {
		recv, name := funcBaseName(d)
		if recv == "" {
			continue
		}
		sym := "wuffs_base__" + recv + "__" + name
		b.Required[sym] = true
		b.Why[sym] = "interface method (lang/builtin InterfaceFuncs)"
	}
	// methods of base types that the language itself declares (lang/builtin Funcs): generated code
	// of other modules calls them, so they may be extern.
	for _, l := range builtin.Funcs {
		for _, d := range l {
			recv, name := funcBaseName(d)
			if recv == "" {
				continue
			}
			sym := "wuffs_base__" + recv + "__" + name
			if !b.Required[sym] {
				b.Optional[sym] = true
			}
		}
	}
	// static-inline conveniences that a compiler may still emit out of line
	for pkg, e := range info.Exp {
		if pkg == "base" {
			continue
		}
		for sym := range e.Required {
			if strings.HasSuffix(sym, "__alloc") {
				for _, ifc := range builtin.Interfaces {
					e.Optional[sym+"_as__wuffs_base__"+ifc] = true
					e.Optional[strings.TrimSuffix(sym, "__alloc")+"__upcast_as__wuffs_base__"+ifc] = true
				}
			}
		}
	}
	return info, nil
}
