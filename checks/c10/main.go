// C10 — compiled Wuffs code is hermetic; pure methods do not write.
//
// Static half (an exhaustive enumeration of a finite artefact, level "other"): the freshly
// generated release C is compiled -O2 without sanitizers by gcc and clang, monolithic and one
// module per object, with and without WUFFS_CONFIG__STATIC_FUNCTIONS; every section, symbol
// and relocation of every object is enumerated (debug/elf, cross-checked against `size -A`,
// `nm`, `objdump -dr`): no writable / thread-local data, undefined symbols only
// mem{cpy,move,set,cmp} (+ calloc/free from *__alloc* functions, by relocation owner), exported
// functions exactly the pub API derived from the Wuffs sources.
//
// Dynamic half (level "exploration"): in every state visited by a byte-by-byte walk of every
// std decoder / hasher over its seeds (every prefix state, short-write states, error states,
// finished states, uninitialised objects) every pure method is called; object and all buffers
// must be bit-for-bit unchanged, and no allocator call may happen.
package main

import (
	"encoding/json"
	"fmt"
	"os"
	"path/filepath"
	"regexp"
	"runtime"
	"sort"
	"strings"
	"sync"
	"sync/atomic"
	"time"

	"verif/checks/c09/wd"
	"verif/internal/cserve"
	"verif/internal/ev"
)

type params struct {
	compilers       []string
	perModuleStatic bool
	// perModuleAllCompilers: one-module objects with every compiler (else only the last one)
	perModuleAllCompilers bool
	maxSeedFile           int
	seedsPerPkg           int
	maxWalkLen            int
	hashPayload           int
}

func tierParams(thorough bool) params {
	if thorough {
		return params{compilers: []string{"gcc", "clang-14", "gcc -O3 -fno-pie", "clang-14 -Os -fno-pie"}, perModuleStatic: true, perModuleAllCompilers: true,
			maxSeedFile: 60000, seedsPerPkg: 16, maxWalkLen: 20000, hashPayload: 9000}
	}
	return params{compilers: []string{"gcc", "clang-14"}, perModuleStatic: false, maxSeedFile: 4100, seedsPerPkg: 3, maxWalkLen: 1300, hashPayload: 700}
}

var pureNames = map[int][]string{
	cserve.KindIOTransformer:   {"dst_history_retain_length", "get_quirk", "workbuf_len"},
	cserve.KindHasherU32:       {"checksum_u32", "get_quirk"},
	cserve.KindHasherU64:       {"checksum_u64", "get_quirk"},
	cserve.KindHasherBitvec256: {"checksum_bitvec256", "get_quirk"},
	cserve.KindImageDecoder:    {"frame_dirty_rect", "get_quirk", "num_animation_loops", "num_decoded_frame_configs", "num_decoded_frames", "workbuf_len"},
	cserve.KindTokenDecoder:    {"get_quirk", "workbuf_len"},
}

var implModRe = regexp.MustCompile(`(?m)^#if !defined\(WUFFS_CONFIG__MODULES\) \|\| defined\(WUFFS_CONFIG__MODULE__([A-Z0-9]+)\)$`)

func exists(p string) bool { _, err := os.Stat(p); return err == nil }

type staticResult struct {
	objects, sections, symbols, relocs int64
	secBytes                           map[string]int64 // "<compiler>/<mode>/ALL: section" -> bytes (monolithic objects only)
	undef                              map[string]int64
	expFuncs                           map[string]int // job name -> count
	expData                            map[string][]string
	staticStillExtern                  map[string][]string
	seconds                            map[string]float64
	findings                           []finding
	jobs                               []string
}

// runStatic compiles and judges every object.
func runStatic(r *ev.Run, pr params, dir, releaseC string, info *stdInfo, deps map[string][]string) *staticResult {
	res := &staticResult{secBytes: map[string]int64{}, undef: map[string]int64{}, expFuncs: map[string]int{}, expData: map[string][]string{}, seconds: map[string]float64{}, staticStillExtern: map[string][]string{}}
	rel, err := os.ReadFile(releaseC)
	if err != nil {
		ev.Fatal("read generated C: %v", err)
	}
	var modules []string
	seen := map[string]bool{}
	for _, m := range implModRe.FindAllStringSubmatch(string(rel), -1) {
		if !seen[m[1]] {
			seen[m[1]] = true
			modules = append(modules, m[1])
		}
	}
	if !seen["BASE"] {
		modules = append([]string{"BASE"}, modules...)
	}
	sort.Strings(modules)
	// every std directory must have a module in the generated file (else the enumeration is incomplete)
	for m := range info.Exp {
		if !seen[strings.ToUpper(m)] && m != "base" {
			ev.Fatal("std/%s has no WUFFS_CONFIG__MODULE__%s section in the generated C", m, strings.ToUpper(m))
		}
	}
	os.MkdirAll(dir, 0o755)

	type node struct {
		j    *job
		obj  *objInfo
		err  error
		done chan struct{}
		mods []string // static per-module objects: the closure that is compiled in
	}
	var nodes []*node
	ext := map[string]*node{} // cc/module -> extern node
	for ci, cc := range pr.compilers {
		for _, m := range append([]string{""}, modules...) {
			if m != "" && ci != len(pr.compilers)-1 && !pr.perModuleAllCompilers {
				continue // quick: one-module objects with the last compiler only (clang: about twice as fast as gcc here)
			}
			n := &node{j: &job{CC: cc, Module: m}, done: make(chan struct{})}
			nodes = append(nodes, n)
			ext[cc+"/"+m] = n
		}
	}
	closure := func(m string) []string {
		seen := map[string]bool{}
		var walk func(string)
		walk = func(x string) {
			if seen[x] {
				return
			}
			seen[x] = true
			for _, d := range deps[x] {
				walk(d)
			}
		}
		walk(strings.ToLower(m))
		var out []string
		for x := range seen {
			out = append(out, strings.ToUpper(x))
		}
		sort.Strings(out)
		return out
	}
	var statics []*node
	for _, cc := range pr.compilers {
		statics = append(statics, &node{j: &job{CC: cc, Static: true}, done: make(chan struct{})})
		if pr.perModuleStatic {
			for _, m := range modules {
				n := &node{j: &job{CC: cc, Static: true, Module: m}, done: make(chan struct{})}
				if m != "BASE" {
					n.mods = append(closure(m), "BASE")
				}
				statics = append(statics, n)
			}
		}
	}
	sem := make(chan struct{}, runtime.NumCPU())
	var wg sync.WaitGroup
	run := func(n *node, pre func()) {
		defer wg.Done()
		defer close(n.done)
		if pre != nil {
			pre()
		}
		sem <- struct{}{}
		defer func() { <-sem }()
		t := time.Now()
		if n.err = compileJob(n.j, n.mods, dir, releaseC); n.err != nil {
			return
		}
		n.j.Seconds = time.Since(t).Seconds()
		n.obj, n.err = readObj(n.j.Obj)
		if n.err == nil {
			n.err = crossCheckBinutils(n.j.Obj, n.obj)
		}
	}
	// heavy monolithic jobs first
	sort.SliceStable(nodes, func(i, k int) bool { return nodes[i].j.Module == "" && nodes[k].j.Module != "" })
	for _, n := range nodes {
		wg.Add(1)
		go run(n, nil)
	}
	for _, n := range statics {
		n := n
		wg.Add(1)
		go run(n, func() {
			// anchors: the functions the extern objects of the same modules export
			var srcs []*node
			if n.j.Module == "" || n.mods == nil {
				srcs = []*node{ext[n.j.CC+"/"+n.j.Module]}
			} else {
				for _, m := range n.mods {
					srcs = append(srcs, ext[n.j.CC+"/"+m])
				}
			}
			for _, s := range srcs {
				if s == nil {
					continue
				}
				<-s.done
				if s.obj != nil {
					n.j.Anchor = append(n.j.Anchor, s.obj.ExpFuncs...)
				}
			}
		})
	}
	wg.Wait()
	all := append(append([]*node(nil), nodes...), statics...)
	mono := map[string]map[string]bool{}
	for _, n := range all {
		if n.err != nil {
			ev.Fatal("static half: %s: %v", n.j.name(), n.err)
		}
		if n.j.Module == "" && !n.j.Static {
			m := map[string]bool{}
			for _, s := range n.obj.ExpFuncs {
				m[s] = true
			}
			for _, s := range n.obj.ExpData {
				m[s] = true
			}
			mono[n.j.CC] = m
		}
	}
	for _, n := range all {
		o := n.obj
		res.objects++
		res.sections += int64(len(o.Sections))
		res.symbols += int64(len(o.Syms))
		res.relocs += int64(o.NRelocs)
		res.jobs = append(res.jobs, n.j.name())
		res.seconds[n.j.name()] = float64(int(n.j.Seconds*10)) / 10
		res.expFuncs[n.j.name()] = len(o.ExpFuncs)
		if n.j.Static {
			res.staticStillExtern[n.j.name()] = o.ExpFuncs
		}
		if n.j.Module == "" {
			for _, s := range o.Sections {
				if s.Size > 0 && s.Flags&2 != 0 { // SHF_ALLOC
					res.secBytes[n.j.name()+": "+s.Name] += int64(s.Size)
				}
			}
			if !n.j.Static {
				res.expData[n.j.name()] = o.ExpData
			}
		}
		for _, u := range o.Undef {
			if !mono[n.j.CC][u] {
				res.undef[u]++
			}
		}
		if n.j.Static && len(n.j.Anchor) == 0 {
			ev.Fatal("static half: %s has no anchors (the extern object exported no function?)", n.j.name())
		}
		fs := judge(n.j, o, info.Exp, mono[n.j.CC])
		for i := range fs {
			fs[i].Witness["job"] = map[string]any{"cc": n.j.CC, "static_functions": n.j.Static, "module": n.j.Module, "modules_compiled_in": n.mods}
		}
		res.findings = append(res.findings, fs...)
	}
	// second opinion on the relocation owners of the allocator functions: objdump -dr of the monolithic gcc object
	for _, n := range nodes {
		if n.j.Module != "" || n.j.CC != pr.compilers[0] {
			continue
		}
		want := map[string]bool{}
		for s := range allocFuncs {
			want[s] = true
		}
		od, err := objdumpOwners(n.j.Obj, want)
		if err != nil {
			ev.Fatal("static half: %v", err)
		}
		mine := map[string]map[string]bool{}
		for _, u := range n.obj.Uses {
			if allocFuncs[u.Sym] {
				if mine[u.Sym] == nil {
					mine[u.Sym] = map[string]bool{}
				}
				mine[u.Sym][u.Owner] = true
			}
		}
		for s, owners := range od {
			for o := range owners {
				if !mine[s][o] {
					ev.Fatal("static half self-check: objdump -dr attributes a %s relocation to %s, the ELF reader does not (%v)", s, o, mine[s])
				}
			}
		}
		for s, owners := range mine {
			for o := range owners {
				if !od[s][o] {
					ev.Fatal("static half self-check: the ELF reader attributes a %s relocation to %s, objdump -dr does not", s, o)
				}
			}
		}
	}
	return res
}

func compileJob(j *job, mods []string, dir, releaseC string) error {
	j.Mods = mods
	return j.compile(dir, releaseC)
}

// ---- dynamic half

type dynItem struct {
	pkg   string
	kind  int
	name  string
	data  []byte
	raw   bool // uninitialised object: no decode, just the pure methods
	shape wd.Shape
}

type dynStats struct {
	pureChecks, pureCalls, steps int64
	states                       map[[2]uint64]struct{}
	hAfter                       map[string]int64
	hPkg                         map[string]int64
	hEnd                         map[string]int64
}

func afterClass(r *cserve.Result) string {
	switch {
	case r == nil:
		return "uninitialized-or-fresh"
	case !r.HasStatus:
		return "after-call-without-status"
	case r.OK:
		return "after-ok"
	case r.IsSuspension():
		return "after-suspension(" + r.Status + ")"
	case r.IsError():
		return "after-error"
	case r.IsNote():
		return "after-note(" + r.Status + ")"
	}
	return "after-other"
}

func main() {
	if len(os.Args) > 2 && os.Args[1] == "replay" {
		if pureProgramsReplay(os.Args[2]) {
			return
		}
		replay(os.Args[2])
		return
	}
	r := ev.Start("C10", "exploration")
	r.SetBudget(9*time.Minute, 42*time.Minute)
	pr := tierParams(r.Thorough())
	scratch, mine, err := cserve.Scratch()
	if err != nil {
		ev.Fatal("scratch: %v", err)
	}
	if mine {
		defer os.RemoveAll(scratch)
	}
	info, err := scanStd(ev.Repo())
	if err != nil {
		ev.Fatal("scan std: %v", err)
	}
	_, deps, err := cserve.ScanStd(ev.Repo())
	if err != nil {
		ev.Fatal("scan std: %v", err)
	}

	// `wuffs gen` first; the server is then compiled in the background while the static half already
	// works on the generated C; the dynamic half starts when the server binary exists.
	t0 := time.Now()
	var b *cserve.Built
	var berr error
	built := make(chan struct{})
	if os.Getenv("WD_REUSE") != "" { // development only
		b, berr = wd.Build(scratch, []string{cserve.Plain}, nil)
		close(built)
	} else {
		b, berr = cserve.Generate(scratch)
		if berr == nil {
			go func() { berr = b.Compile([]string{cserve.Plain}, nil); close(built) }()
		}
	}
	if berr != nil {
		ev.Fatal("build: %v", berr)
	}
	releaseC := b.ReleaseC
	genS := time.Since(t0).Seconds()
	var sres *staticResult
	staticDone := make(chan struct{})
	tS := time.Now()
	var staticS float64
	go func() {
		sres = runStatic(r, pr, filepath.Join(scratch, "c10static"), releaseC, info, deps)
		staticS = time.Since(tS).Seconds()
		close(staticDone)
	}()
	<-built
	if berr != nil {
		ev.Fatal("build: %v", berr)
	}
	buildS := time.Since(t0).Seconds()
	fmt.Printf("C10: generated C after %.0fs, server after %.0fs\n", genS, buildS)

	// ---- dynamic half
	tD := time.Now()
	probe, err := b.Start(cserve.Plain)
	if err != nil {
		ev.Fatal("start: %v", err)
	}
	names := b.Names()
	var dirs []string
	for _, n := range names {
		dirs = append(dirs, strings.SplitN(n, ".", 2)[0])
	}
	allSeeds := wd.Seeds(ev.Repo(), dirs, pr.maxSeedFile)
	var items []dynItem
	uncovered := map[string][]string{}
	for _, n := range names {
		pk, _ := probe.PackageByName(n)
		dir := strings.SplitN(n, ".", 2)[0]
		// which pure pub methods of this struct does the server's PureCheck not reach?
		cov := map[string]bool{}
		for _, m := range pureNames[pk.Kind] {
			cov[m] = true
		}
		for _, m := range info.Pure[pk.Pkg+"."+pk.Struct] {
			if !cov[m] {
				uncovered[n] = append(uncovered[n], m)
			}
		}
		for _, m := range pureNames[pk.Kind] {
			found := false
			for _, x := range info.Pure[pk.Pkg+"."+pk.Struct] {
				found = found || x == m
			}
			if !found {
				ev.Fatal("dynamic half: the server calls %s.%s as a pure method but the Wuffs sources do not declare it as a pure pub func", n, m)
			}
		}
		sh := wd.Shape{Name: "byte-feed", DstCap: 64, MaxCalls: 200000, MaxOut: 1 << 20, MaxFrames: 4, MaxPix: 4 << 20, MaxWork: 64 << 20, Pure: true, QuirkKey: 1}
		if pk.Kind == cserve.KindTokenDecoder {
			sh.DstCap = 16
		}
		hasher := pk.Kind == cserve.KindHasherU32 || pk.Kind == cserve.KindHasherU64 || pk.Kind == cserve.KindHasherBitvec256
		items = append(items, dynItem{pkg: n, kind: pk.Kind, name: "(uninitialised object, memory all zero)", raw: true, shape: sh})
		if hasher {
			d := wd.Payload(pr.hashPayload)
			s := sh
			s.Cuts = cutsEvery(len(d), 1)
			items = append(items, dynItem{pkg: n, kind: pk.Kind, name: fmt.Sprintf("payload[:%d] one byte per update", len(d)), data: d, shape: s})
			s2 := sh
			s2.Cuts = cutsEvery(len(d), 37)
			s2.Pad = 3
			items = append(items, dynItem{pkg: n, kind: pk.Kind, name: fmt.Sprintf("payload[:%d] 37 bytes per update, misaligned", len(d)), data: d, shape: s2})
			continue
		}
		ex := func(c cserve.Cmd) (cserve.Result, error) {
			res, err := probe.Do(c)
			if err != nil {
				return cserve.Result{}, err
			}
			return res[0], nil
		}
		oneShot := sh
		oneShot.Pure = false
		oneShot.DstCap = 4096
		status := func(data []byte) string {
			if _, err := ex(cserve.New(1, n, cserve.NewOpts{})); err != nil {
				probe.Restart()
				return ""
			}
			tr, err := wd.Drive(ex, 1, pk.Kind, data, oneShot, wd.Fill{})
			if err != nil {
				probe.Restart()
				return ""
			}
			st, _, _ := wd.Final(tr.Cmds, tr.Res)
			return st
		}
		picked := 0
		for _, s := range allSeeds[dir] {
			if picked >= pr.seedsPerPkg || len(s.Data) > pr.maxWalkLen {
				break
			}
			st := status(s.Data)
			if st != "ok" && st != "@base: end of data" {
				continue
			}
			picked++
			w := sh
			w.Cuts = cutsEvery(len(s.Data), 1)
			items = append(items, dynItem{pkg: n, kind: pk.Kind, name: s.Name + " fed one byte at a time", data: s.Data, shape: w})
			if picked == 1 {
				// error states: the first 1-byte deviation (from one third on) that makes the decoder fail
			search:
				for pos := len(s.Data) / 3; pos < len(s.Data); pos++ {
					for _, v := range wd.Deviations(s.Data[pos]) {
						m := append([]byte(nil), s.Data...)
						m[pos] = v
						if strings.HasPrefix(status(m), "#") {
							items = append(items, dynItem{pkg: n, kind: pk.Kind, name: fmt.Sprintf("%s with byte %d set to %#02x (decoder fails) fed one byte at a time", s.Name, pos, v), data: m, shape: w})
							break search
						}
					}
				}
				// larger pieces and a roomy destination: other suspension points
				w2 := sh
				w2.DstCap = 4096
				w2.Cuts = cutsEvery(len(s.Data), 7)
				items = append(items, dynItem{pkg: n, kind: pk.Kind, name: s.Name + " fed 7 bytes at a time", data: s.Data, shape: w2})
			}
		}
		if picked == 0 {
			r.HistAdd("packages_without_valid_seed", n, 1)
		}
	}
	probe.Close()
	sort.SliceStable(items, func(i, j int) bool { return len(items[i].data) > len(items[j].data) }) // long walks first

	nw := ev.Workers()
	stats := make([]*dynStats, nw)
	servers := make([]*cserve.Server, nw)
	var reported sync.Map
	var ndone atomic.Int64
	ev.ParFor(len(items), func(wi, i int) {
		// quick: the walks are a fixed, small amount of work and always run; thorough: budgeted
		if r.Thorough() && r.Expired() {
			return
		}
		if stats[wi] == nil {
			stats[wi] = &dynStats{states: map[[2]uint64]struct{}{}, hAfter: map[string]int64{}, hPkg: map[string]int64{}, hEnd: map[string]int64{}}
			s, err := b.Start(cserve.Plain)
			if err != nil {
				ev.Fatal("start: %v", err)
			}
			servers[wi] = s
		}
		st, srv, it := stats[wi], servers[wi], items[i]
		pkInfo, _ := srv.PackageByName(it.pkg)
		var cmds []cserve.Cmd
		var last *cserve.Result
		exN := func(cs []cserve.Cmd) ([]cserve.Result, error) {
			cmds = append(cmds, cs...)
			batch := cs
			hashAt := -1
			for _, c := range cs {
				if c.Op == cserve.OpPureCheck && pkInfo.Sizeof <= 1<<20 {
					batch = append(append([]cserve.Cmd(nil), cs...), cserve.Hash(c.Slot))
					hashAt = len(cs)
					break
				}
			}
			res, err := srv.Do(batch...)
			if err != nil {
				return nil, err
			}
			for k, c := range cs {
				if c.Op == cserve.OpCall {
					l := res[k]
					last = &l
					st.steps++
				}
				if c.Op != cserve.OpPureCheck {
					continue
				}
				p := res[k]
				st.pureChecks++
				st.pureCalls += int64(p.PureMethods)
				st.hAfter[afterClass(last)]++
				st.hPkg[it.pkg]++
				if hashAt >= 0 {
					st.states[[2]uint64{res[hashAt].Hash[0] ^ uint64(len(it.pkg))<<56, res[hashAt].Hash[1]}] = struct{}{}
				} else {
					st.states[[2]uint64{uint64(i)<<32 | uint64(st.steps), 0}] = struct{}{}
				}
				if int(p.PureMethods) != len(pureNames[it.kind]) {
					ev.Fatal("dynamic half: PureCheck on %s ran %d methods, expected %d", it.pkg, p.PureMethods, len(pureNames[it.kind]))
				}
				if bad := p.Contract & (cserve.CPureWroteObject | cserve.CPureWroteBuffers | cserve.CAlloc); bad != 0 {
					var ms []string
					for k, m := range pureNames[it.kind] {
						if p.PureChanged&(1<<uint(k)) != 0 {
							ms = append(ms, m)
						}
					}
					what := strings.Join(cserve.ContractNames(bad), "+")
					key := it.pkg + "|" + what + "|" + strings.Join(ms, ",")
					if _, dup := reported.LoadOrStore(key, struct{}{}); !dup {
						r.Violation(fmt.Sprintf("dynamic|%s|%s|%s|%s", what, it.pkg, strings.Join(ms, ","), strings.SplitN(afterClass(last), "(", 2)[0]),
							fmt.Sprintf("%s: calling the pure methods changed state (%s; methods that changed the object: %v) in the state reached by: %s, %d commands (%s)", it.pkg, what, ms, it.name, len(cmds), afterClass(last)),
							map[string]any{"kind": "dynamic", "pkg": it.pkg, "input": it.name, "cmds": append([]cserve.Cmd(nil), cmds...), "pure_changed_bits": p.PureChanged, "contract": cserve.ContractNames(bad)})
					}
				}
			}
			return res[:len(cs)], nil
		}
		ex := func(c cserve.Cmd) (cserve.Result, error) {
			res, err := exN([]cserve.Cmd{c})
			if err != nil {
				return cserve.Result{}, err
			}
			return res[0], nil
		}
		tItem := time.Now()
		defer func() {
			if os.Getenv("C10_VERBOSE") != "" {
				fmt.Fprintf(os.Stderr, "  walk %-12s %-70s %6d cmds %6.1fs\n", it.pkg, it.name, len(cmds), time.Since(tItem).Seconds())
			}
		}()
		opts := cserve.NewOpts{}
		if it.raw {
			opts.NoInit = true
		}
		if _, err := ex(cserve.New(1, it.pkg, opts)); err != nil {
			ev.Fatal("dynamic half: %v", err)
		}
		if _, err := ex(cserve.PureCheck(1, it.shape.QuirkKey)); err != nil {
			dynCrash(r, srv, it, cmds, err)
			return
		}
		if it.raw {
			ex(cserve.PureCheck(1, 0))
			return
		}
		tr, err := wd.DriveN(exN, 1, it.kind, it.data, it.shape, wd.Fill{Dst: 0xEE, Work: 0xEE})
		if err != nil {
			dynCrash(r, srv, it, cmds, err)
			return
		}
		fs, _, _ := wd.Final(tr.Cmds, tr.Res)
		if i%13 == 0 {
			var pv []uint64
			for k := len(tr.Res) - 1; k >= 0; k-- {
				if tr.Cmds[k].Op == cserve.OpPureCheck {
					pv = tr.Res[k].PureVals
					break
				}
			}
			r.Sample(map[string]any{"walk": it.pkg + ": " + it.name, "commands": len(cmds), "final_status": fs, "pure_methods_called_in_every_state": pureNames[it.kind], "values_returned_in_last_state": pv})
		}
		if fs == "ok" || fs == "@base: end of data" || fs == "-" {
			st.hEnd[tr.End+" / last status "+fs]++
		} else {
			st.hEnd[tr.End+" / last status "+fs+" ("+it.pkg+": "+it.name+")"]++
		}
		// the finished (or failed) object once more, with another quirk key
		if _, err := ex(cserve.PureCheck(1, 0)); err != nil {
			dynCrash(r, srv, it, cmds, err)
		}
		ndone.Add(1)
	})
	var pureChecks, pureCalls, steps int64
	states := map[[2]uint64]struct{}{}
	for wi, st := range stats {
		if st == nil {
			continue
		}
		servers[wi].Close()
		pureChecks += st.pureChecks
		pureCalls += st.pureCalls
		steps += st.steps
		for k := range st.states {
			states[k] = struct{}{}
		}
		r.MergeHist("purechecks_by_preceding_status", st.hAfter)
		r.MergeHist("purechecks_by_package", st.hPkg)
		r.MergeHist("walk_end", st.hEnd)
	}
	dynS := time.Since(tD).Seconds()
	fmt.Printf("C10: dynamic half %.0fs: %d walks, %d pure checks, %d distinct states\n", dynS, len(items), pureChecks, len(states))

	<-staticDone
	fmt.Printf("C10: static half %.0fs: %d objects\n", staticS, sres.objects)
	for _, f := range sres.findings {
		f.Witness["kind"] = "static"
		r.Violation(f.Sig, f.What, f.Witness)
	}
	// vacuity guards of the static half
	for _, cc := range pr.compilers {
		k := cc + "/extern/all"
		if sres.expFuncs[k] < 100 {
			ev.Fatal("static half: %s exports only %d functions: the enumeration is vacuous", k, sres.expFuncs[k])
		}
	}
	nReq := 0
	for _, e := range info.Exp {
		nReq += len(e.Required)
	}
	r.Add("static_objects", sres.objects)
	r.Add("static_sections_enumerated", sres.sections)
	r.Add("static_symbols_enumerated", sres.symbols)
	r.Add("static_relocations_enumerated", sres.relocs)
	r.Add("dynamic_walks", int64(len(items)))
	r.Add("dynamic_wuffs_calls", steps)
	r.Add("dynamic_pure_checks", pureChecks)
	sec := map[string]int64{}
	for k, v := range sres.secBytes {
		sec[k] = v
	}
	r.MergeHist("undefined_symbols (objects referencing them; other modules' API excluded)", sres.undef)
	r.Sample(map[string]any{"objects": sres.jobs})
	exhaustive := int(ndone.Load()) >= len(items)-countRaw(items)
	// PROGRAMS: pure methods of generated programs (progen `pure` family: every way a write could be
	// attempted from inside a pure method; near-misses must be rejected, accepted ones are executed by
	// the reference interpreter with the purity monitor on), plus the pure methods of other families.
	progPureCalls, progPrograms := pureProgramsPart(r)
	r.Add("programs_pure_calls_monitored", progPureCalls)
	r.Add("programs_accepted_with_a_pure_call", progPrograms)
	r.Finish(ev.Coverage{
		Evaluations:        pureCalls + sres.symbols + sres.sections + progPureCalls,
		DistinctNontrivial: int64(len(states)) + progPrograms,
		States:             int64(len(states)),
		Transitions:        steps,
		Rule: "evaluations = pure-method invocations checked for writes (dynamic half) + symbols and sections enumerated and judged (static half); " +
			"distinct_nontrivial = distinct (package, 128-bit hash of the object bytes) states in which every pure method was called (objects above 1 MiB: one per step) + accepted generated programs that made a monitored pure call; states as in the first term; transitions = wuffs calls made by the walks; "+
			"evaluations also count the pure calls of generated programs monitored by the reference interpreter (receiver hash and every by-reference argument compared around each call, stores inside a pure frame flagged)",
		Exhaustive: exhaustive,
		Explanation: "STATIC (level `other`: exhaustive enumeration of a finite artefact): objects = {" + strings.Join(pr.compilers, "; ") + " (-O2 unless stated; in quick the one-module objects use the last compiler only)} x {extern, WUFFS_CONFIG__STATIC_FUNCTIONS (all API functions kept alive through one const table)} x {monolithic; extern: every module alone" +
			map[bool]string{true: "; static: every module with the modules it uses + base", false: ""}[pr.perModuleStatic] + "}, no sanitizers, default (PIE) code model unless -fno-pie is stated. Oracle by section name/flags, symbol table and relocation owners. " +
			"DYNAMIC (level `exploration`): byte-by-byte walks (64-byte destination windows: short-write states too) of every std struct over valid seeds, a failing 1-byte deviation, 7-byte pieces, hashers with 1- and 37-byte updates, and uninitialised objects; PureCheck after every call. PROGRAMS: the progen `pure` family (direct / element / nested-element stores, stores through slices of 1-3 level array fields, ptr-to-array, copy_from_slice!/bulk_memset!, impure calls, writable by-reference arguments, each as pub and as pri behind a pure wrapper) and the pure methods of seeds, calls, facts, refine, ptr: rejected by the checker or executed with the purity monitor.",
		Extra: map[string]any{
			"seconds": map[string]any{"generated_c_available": genS, "server_built": buildS, "static_half": staticS, "dynamic_half": dynS, "compile_by_object": sres.seconds},
			"static_allocated_section_bytes_monolithic":                                         sec,
			"static_exported_function_count_by_object":                                          sres.expFuncs,
			"static_exported_data_symbols_monolithic":                                           sres.expData,
			"expected_exported_functions_from_sources":                                          nReq,
			"functions_still_extern_under_STATIC_FUNCTIONS (public API; informational)":         summarizeExtern(sres.staticStillExtern),
			"wuffs_files_parsed":                                                                info.Files,
			"wuffs_funcs_seen":                                                                  info.Funcs,
			"pure_pub_methods_not_reachable_through_the_state_server (not checked dynamically)": uncovered,
		},
	}, []string{
		"The static verdict holds for the two compilers, -O2 and the default code model used here (x86-64 ELF); other targets/flags could place data differently.",
		"`exported functions of base` are compared with the WUFFS_BASE__MAYBE_STATIC prototypes of internal/cgen/base/*-public.h plus the interface methods and builtin methods of lang/builtin; static-inline alloc_as/upcast helpers are allowed but not required.",
		"In single-module objects, undefined references to symbols that the monolithic object of the same compiler exports (other modules' API and tables) are expected.",
		"The state server's PureCheck calls every pure method of the struct's interface through the interface dispatcher; pure pub methods outside the interfaces are listed under pure_pub_methods_not_reachable...",
		"PureCheck compares the object bytes after each pure method and hashes of source, destination, work, pixel and token buffers around the batch.",
	})
}

// summarizeExtern: per static object, how many functions are still exported, by suffix class.
func summarizeExtern(m map[string][]string) map[string]map[string]int {
	out := map[string]map[string]int{}
	for job, l := range m {
		c := map[string]int{}
		for _, f := range l {
			switch {
			case strings.HasPrefix(f, "sizeof__"):
				c["sizeof__*"]++
			case strings.HasSuffix(f, "__initialize"):
				c["*__initialize"]++
			case strings.HasSuffix(f, "__alloc"):
				c["*__alloc"]++
			default:
				c[f]++
			}
		}
		out[job] = c
	}
	return out
}

func countRaw(items []dynItem) int {
	n := 0
	for _, it := range items {
		if it.raw {
			n++
		}
	}
	return n
}

func cutsEvery(n, step int) []int {
	var c []int
	for o := step; o < n; o += step {
		c = append(c, o)
	}
	return c
}

func dynCrash(r *ev.Run, srv *cserve.Server, it dynItem, cmds []cserve.Cmd, err error) {
	sum := err.Error()
	if ce, ok := err.(*cserve.CrashError); ok {
		sum = ce.Summary()
	}
	r.Violation("dynamic|crash|"+it.pkg, fmt.Sprintf("%s: server died during the walk %q: %s", it.pkg, it.name, sum),
		map[string]any{"kind": "dynamic", "pkg": it.pkg, "input": it.name, "cmds": cmds})
	srv.Restart()
}

// ---- replay

func replay(path string) {
	raw, err := os.ReadFile(path)
	if err != nil {
		ev.Fatal("replay: %v", err)
	}
	var f struct {
		Signature string `json:"signature"`
		What      string `json:"what"`
		Witness   struct {
			Kind string       `json:"kind"`
			Pkg  string       `json:"pkg"`
			Cmds []cserve.Cmd `json:"cmds"`
			Job  struct {
				CC     string   `json:"cc"`
				Static bool     `json:"static_functions"`
				Module string   `json:"module"`
				Mods   []string `json:"modules_compiled_in"`
			} `json:"job"`
		} `json:"witness"`
	}
	if err := json.Unmarshal(raw, &f); err != nil {
		ev.Fatal("replay: %v", err)
	}
	fmt.Printf("replaying %s\n  %s\n", f.Signature, f.What)
	scratch, mine, err := cserve.Scratch()
	if err != nil {
		ev.Fatal("scratch: %v", err)
	}
	if mine {
		defer os.RemoveAll(scratch)
	}
	w := f.Witness
	if w.Kind == "dynamic" {
		b, err := wd.Build(scratch, []string{cserve.Plain}, []string{strings.SplitN(w.Pkg, ".", 2)[0]})
		if err != nil {
			ev.Fatal("build: %v", err)
		}
		srv, err := b.Start(cserve.Plain)
		if err != nil {
			ev.Fatal("start: %v", err)
		}
		defer srv.Close()
		res, err := srv.Replay(w.Cmds)
		if err != nil {
			fmt.Printf("REPRODUCED: server died: %v\n", err)
			os.Exit(1)
		}
		for i := range res {
			if w.Cmds[i].Op == cserve.OpPureCheck {
				if bad := res[i].Contract & (cserve.CPureWroteObject | cserve.CPureWroteBuffers | cserve.CAlloc); bad != 0 {
					fmt.Printf("REPRODUCED at command %d: %v (changed-method bits %#x)\n", i, cserve.ContractNames(bad), res[i].PureChanged)
					os.Exit(1)
				}
			}
		}
		fmt.Println("not reproduced: no pure method wrote anything")
		os.Exit(0)
	}
	// static: regenerate the C, recompile that object, judge it again
	b, err := wd.Build(scratch, []string{cserve.Plain}, []string{"adler32"})
	if err != nil {
		ev.Fatal("build: %v", err)
	}
	info, err := scanStd(ev.Repo())
	if err != nil {
		ev.Fatal("scan std: %v", err)
	}
	dir := filepath.Join(scratch, "c10static")
	os.MkdirAll(dir, 0o755)
	mono := &job{CC: w.Job.CC}
	if err := mono.compile(dir, b.ReleaseC); err != nil {
		ev.Fatal("%v", err)
	}
	mo, err := readObj(mono.Obj)
	if err != nil {
		ev.Fatal("%v", err)
	}
	monoExp := map[string]bool{}
	for _, s := range append(append([]string(nil), mo.ExpFuncs...), mo.ExpData...) {
		monoExp[s] = true
	}
	j := &job{CC: w.Job.CC, Static: w.Job.Static, Module: w.Job.Module}
	o := mo
	if j.Static || j.Module != "" {
		if j.Static {
			j.Anchor = mo.ExpFuncs
			if j.Module != "" {
				// keep only the functions of the modules compiled in
				in := map[string]bool{strings.ToLower(j.Module): true}
				for _, m := range w.Job.Mods {
					in[strings.ToLower(m)] = true
				}
				j.Anchor = nil
				for _, s := range mo.ExpFuncs {
					if in[modOf(s)] {
						j.Anchor = append(j.Anchor, s)
					}
				}
			}
		}
		if err := compileJob(j, w.Job.Mods, dir, b.ReleaseC); err != nil {
			ev.Fatal("%v", err)
		}
		if o, err = readObj(j.Obj); err != nil {
			ev.Fatal("%v", err)
		}
	}
	hit := false
	for _, fd := range judge(j, o, info.Exp, monoExp) {
		mark := "  "
		if fd.Sig == f.Signature {
			mark = "=>"
			hit = true
		}
		fmt.Printf("%s %s\n     %s\n", mark, fd.Sig, fd.What)
	}
	if hit {
		fmt.Println("REPRODUCED")
		os.Exit(1)
	}
	fmt.Println("not reproduced: the object no longer shows this finding")
	os.Exit(0)
}
