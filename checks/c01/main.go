// C01: accepted programs never go out of bounds / overflow / deref null / recurse.
//
// Every program of the progen families is run through the real Tokenize ->
// Parse -> Check; every accepted program is executed by the reference
// interpreter (ideal integers) for all inputs of the E2 enumeration rules and
// all receiver states reachable by <= 2 prior public calls, with the safety
// monitor on every evaluated expression and the value-in-MBounds monitor on
// every expression in statement position.
package main

import (
	"fmt"
	"os"
	"strings"
	"time"

	"verif/internal/ev"
	"verif/internal/interp"
	"verif/internal/interp/drive"
)

func main() {
	if len(os.Args) > 2 && os.Args[1] == "replay" {
		drive.Replay("C01", os.Args[2])
		return
	}
	r := ev.Start("C01", "model_checking")
	r.SetBudget(7*time.Minute, 40*time.Minute)
	if s := interp.SelfTestNum(); s != "" {
		ev.Fatal("integer self-test: %s", s)
	}
	cfg := drive.Config{Prop: "C01", Families: []string{"seeds", "arith", "index", "facts", "axioms", "loops", "refine", "ptr", "calls", "coro", "io", "pure", "iterate"},
		MaxExec: 6000, MaxStates: 4096, MaxTuples: 2048}
	if r.Thorough() {
		cfg.MaxExec, cfg.MaxTuples = 20000, 4096
	}
	if f := os.Getenv("C01_FAMILIES"); f != "" {
		cfg.Families = strings.Split(f, ",")
	}
	d := drive.New(r, cfg)
	d.Run()
	tot := d.Totals()
	extra, fatal := d.Report()
	for _, f := range fatal {
		fmt.Fprintln(os.Stderr, "HARNESS-ERROR:", f)
	}
	if len(fatal) > 0 {
		os.Exit(2)
	}
	extra["families_with_both_outcomes"] = tot.FamiliesBothOutcomes
	extra["programs_with_truncated_exploration"] = tot.ProgramsCapped
	extra["programs_generated"] = tot.Generated
	extra["programs_accepted"] = tot.Accepted
	extra["programs_rejected"] = tot.Rejected
	extra["programs_with_a_violation"] = tot.Violating
	extra["mbounds_comparisons"] = tot.BoundsN
	extra["constvalue_crosschecks"] = tot.ConstN
	r.Finish(ev.Coverage{
		Evaluations:        tot.Evals,
		DistinctNontrivial: tot.Accepted,
		Rule:               "programs are enumerated exhaustively from the progen grammars (distinct by SHA-1 of the canonical text) and run through the real Tokenize/Parse/Check; non-trivial = accepted by the checker and executed by the reference interpreter under the safety and MBounds monitors (rejected near-misses are counted per family in coverage.families; families_with_both_outcomes says how many families straddle the acceptance boundary)",
		States:             tot.Steps + tot.RecvStates,
		Transitions:        tot.Steps,
		TracesValidated:    tot.Executions,
		Exhaustive:         tot.ProgramsCapped == 0,
		Explanation:        "evaluations = expression nodes evaluated under the safety monitor; states = interpreter states visited (one per statement executed, plus the distinct receiver states calls start from); transitions = statements executed; traces_validated_against_impl = executions in which every statement-position expression value was compared with the real checker's MBounds()",
		Extra:              extra,
	}, []string{
		"E1 grammars only (not arbitrary Wuffs); std/ is covered at the C level by C03",
		"the reference interpreter implements the documented ideal-integer semantics; it is cross-checked against ConstValue() on every constant-foldable expression; the generated C is compared with it by C04",
		"MBounds() is compared only for expressions in statement position and if-conditions (bounds cached inside while-conditions and assertion trees belong to a single proving site)",
	})
}
