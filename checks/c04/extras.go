package main

import (
	"fmt"
	"strings"

	"verif/internal/cdrive"
)

// The "extras" family: hand-written programs (canonical progen layout) for
// cgen lowerings that the progen arith family only reaches with constant
// operands: bit-field built-ins and shifts with run-time counts at the edges of
// their declared ranges, compound assignment on narrow integers, saturating
// arithmetic at every width, slice copies of unequal lengths.
func extras() *cdrive.FlatFamily {
	f := &cdrive.FlatFamily{FamName: "extras"}
	prog := func(fields []string, header string, vars []string, body ...string) string {
		var sb strings.Builder
		sb.WriteString("pub struct foo?(\n")
		for _, x := range fields {
			sb.WriteString(x + ",\n")
		}
		sb.WriteString(")\n\npub func foo.m!(" + header + ") {\n")
		for _, v := range vars {
			sb.WriteString("var " + v + "\n")
		}
		for _, l := range body {
			sb.WriteString(l + "\n")
		}
		sb.WriteString("}\n")
		return sb.String()
	}
	widths := []struct {
		typ  string
		bits int
	}{{"u8", 8}, {"u16", 16}, {"u32", 32}, {"u64", 64}}
	for _, w := range widths {
		ty := "base." + w.typ
		// Bit-field built-ins with a run-time count over its whole declared range [0 ..= bits-1].
		for _, m := range []string{"high_bits", "low_bits"} {
			f.Add(prog([]string{"r : " + ty}, fmt.Sprintf("z: %s, y: base.u32[..= %d]", ty, w.bits-1), nil,
				fmt.Sprintf("this.r = args.z.%s(n: args.y)", m)), map[string]string{"kind": m + "-runtime-n", "type": w.typ})
		}
		// Shifts with a run-time count.
		f.Add(prog([]string{"r : " + ty}, fmt.Sprintf("z: %s, y: base.u32[..= %d]", ty, w.bits-1), nil,
			"this.r = args.z >> args.y"), map[string]string{"kind": "shr-runtime", "type": w.typ})
		f.Add(prog([]string{"r : " + ty}, fmt.Sprintf("z: %s, y: base.u32[..= %d]", ty, w.bits-1), nil,
			"this.r = args.z ~mod<< args.y"), map[string]string{"kind": "modshl-runtime", "type": w.typ})
		f.Add(prog([]string{"r : " + ty}, fmt.Sprintf("z: %s, y: base.u32[..= %d]", ty, w.bits-1), nil,
			"this.r = (args.z & 1) << args.y"), map[string]string{"kind": "shl-runtime", "type": w.typ})
		// Compound assignment on a local and on a field, observed through a wider type.
		for _, op := range []string{"~mod+=", "~mod-=", "~mod*=", "~sat+=", "~sat-=", "&=", "|=", "^="} {
			f.Add(prog([]string{"r : " + ty, "q : base.u64"}, fmt.Sprintf("x: %s, z: %s", ty, ty), []string{"v : " + ty},
				"v = args.x", "v "+op+" args.z", "this.r "+op+" v", "this.q = v as base.u64"), map[string]string{"kind": "compound " + op, "type": w.typ})
		}
		f.Add(prog([]string{"r : " + ty, "q : base.u64"}, fmt.Sprintf("x: %s, y: base.u32[..= %d]", ty, w.bits-1), []string{"v : " + ty},
			"v = args.x", "v ~mod<<= args.y", "this.r = v", "v >>= args.y", "this.q = v as base.u64"), map[string]string{"kind": "compound shifts", "type": w.typ})
		// Saturating and modular arithmetic, min / max with two run-time operands, widened afterwards.
		for _, op := range []string{"~sat+", "~sat-", "~mod+", "~mod-", "~mod*"} {
			f.Add(prog([]string{"q : base.u64"}, fmt.Sprintf("x: %s, z: %s", ty, ty), nil,
				fmt.Sprintf("this.q = (args.x %s args.z) as base.u64", op)), map[string]string{"kind": "binary " + op, "type": w.typ})
		}
		for _, m := range [][2]string{{"min", "no_more_than"}, {"max", "no_less_than"}} {
			f.Add(prog([]string{"r : " + ty}, fmt.Sprintf("x: %s, z: %s", ty, ty), nil,
				fmt.Sprintf("this.r = args.x.%s(%s: args.z)", m[0], m[1])), map[string]string{"kind": m[0], "type": w.typ})
		}
	}
	// Slice copies of unequal lengths (the shorter side decides), and what they return.
	f.Add(prog([]string{"q : base.u64", "a : array[4] base.u8"}, "t: slice base.u8, s: slice base.u8", nil,
		"this.q = args.t.copy_from_slice!(s: args.s)"), map[string]string{"kind": "copy slice<-slice"})
	f.Add(prog([]string{"q : base.u64", "a : array[4] base.u8"}, "t: slice base.u8", nil,
		"this.q = this.a[..].copy_from_slice!(s: args.t)"), map[string]string{"kind": "copy array<-slice"})
	f.Add(prog([]string{"q : base.u64", "a : array[4] base.u8"}, "t: slice base.u8, x: base.u8", nil,
		"this.a[0] = args.x", "this.a[3] = 9", "this.q = args.t.copy_from_slice!(s: this.a[1 ..])"), map[string]string{"kind": "copy slice<-array"})
	f.Add(prog([]string{"q : base.u64", "a : array[8] base.u8"}, "t: slice base.u8", nil,
		"this.q = this.a[.. 8].copy_from_slice!(s: args.t)", "this.a[2 .. 6].bulk_memset!(byte_value: 7)"), map[string]string{"kind": "copy8 + memset"})
	// Loops: `while true` bodies that end in `break` (cgen lowers them to
	// do { } while (0) unless they contain a `continue`), labelled loops with
	// deep `continue` / `break` whose skipped statements are observable. The progen
	// loops family has no terminating program of these shapes.
	loop := func(kind string, body ...string) {
		f.Add(prog([]string{"f : base.u32", "q : base.u32"}, "x: base.u32[..= 9]", []string{"i : base.u32", "j : base.u32"}, body...), map[string]string{"kind": kind})
	}
	loop("while-true continue break",
		"i = args.x", "while true {", "i ~mod+= 1", "if i < 5 {", "continue", "}", "break", "}", "this.f = i")
	loop("while-true break only",
		"i = args.x", "while true {", "i ~mod+= 1", "if i < 5 {", "this.q = 3", "}", "break", "}", "this.f = i")
	loop("inner while-true continue.inner break.inner",
		"i = args.x", "while.outer i < 6 {", "i ~mod+= 1", "j = 0", "while.inner true {", "j ~mod+= 1", "if j < 3 {", "continue.inner", "}", "break.inner", "}.inner",
		"this.f ~mod+= j", "}.outer", "this.q = i")
	for _, jm := range []string{"continue.outer", "break.outer", "continue.inner", "break.inner"} {
		loop("deep "+jm,
			"i = args.x", "while.outer i < 6 {", "i ~mod+= 1", "j = 0", "while.inner j < 3 {", "j ~mod+= 1", "if j == 2 {", jm, "}", "this.q ~mod+= 1", "}.inner",
			"this.f ~mod+= 7", "}.outer", "this.q ~mod+= i")
		loop("deep "+jm+" from a while-true inner loop",
			"i = args.x", "while.outer i < 6 {", "i ~mod+= 1", "j = 0", "while.inner true {", "j ~mod+= 1", "if j == 2 {", jm, "}", "if j > 3 {", "break.inner", "}", "}.inner",
			"this.f ~mod+= j", "}.outer", "this.q ~mod+= i")
		loop("deep "+jm+" from a do-while(0) inner loop",
			"i = args.x", "while.outer i < 6 {", "i ~mod+= 1", "j = i", "while.inner true {", "j ~mod+= 1", "if j == 4 {", jm, "}", "this.q ~mod+= 1", "break.inner", "}.inner",
			"this.f ~mod+= j", "}.outer", "this.q ~mod+= i")
	}
	// The value of the 8-byte copy_from_slice! peephole (known_findings.json).
	f.Add(prog([]string{"q : base.u64", "a : array[8] base.u8", "c : array[8] base.u8"}, "x: base.u8", nil,
		"this.c[2] = args.x", "this.q = this.a[.. 8].copy_from_slice!(s: this.c[.. 8])"), map[string]string{"kind": "copy8 peephole result used"})
	return f
}
