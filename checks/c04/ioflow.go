package main

import (
	"fmt"
	"strings"

	"verif/internal/cdrive"
)

// The "ioflow" family: hand-written programs (canonical progen layout) for three
// cgen mechanisms that the progen families do not reach:
//
//  1. the synchronisation of an I/O argument's position around a call of a
//     user-defined method (writeStatementAssign: save iop into meta.ri / meta.wi
//     before, reload after): {reader, writer} x {position advanced before the
//     call by read_u8? / skip_u32_fast! / write_u8? / write_u8_fast!, not advanced}
//     x callee {pure, impure} x callee body {peek, length, position, consume /
//     produce one more byte} x caller {coroutine, plain method}, and the caller
//     goes on using the buffer after the call;
//  2. copy_from_slice! between constant-width sub-slices `x[i .. i + N]` /
//     `x[.. N]` of DIFFERENT widths (the memcpy peephole of
//     writeBuiltinSliceCopyFromSlice8): all (dst, src) width pairs over
//     {1,2,3,4,7,8,9,16} between field arrays at an offset, slice arguments and
//     local arrays; the destination beyond the copied range and the returned
//     count are observed;
//  3. io_limit around a call that is handed the limited buffer
//     (writeStatementIOManip narrows meta.wi / data.len for callees): limits
//     {0,1,4} x callee wants 0..5 bytes x direct I/O before / inside / after the
//     block, for writers and readers, in plain methods and coroutines.
func ioflow() *cdrive.FlatFamily {
	f := &cdrive.FlatFamily{FamName: "ioflow"}
	fn := func(header string, vars []string, lines ...string) string {
		s := header + " {\n"
		for _, v := range vars {
			s += "var " + v + "\n"
		}
		for _, l := range lines {
			s += l + "\n"
		}
		return s + "}\n"
	}
	emit := func(tags map[string]string, fields []string, funcs ...string) {
		var sb strings.Builder
		sb.WriteString("pub struct foo?(\n")
		for _, x := range fields {
			sb.WriteString(x + ",\n")
		}
		sb.WriteString(")\n")
		for _, g := range funcs {
			sb.WriteString("\n" + g)
		}
		f.Add(sb.String(), tags)
	}

	// ---------------------------------------------------------------- 1. position sync around user calls
	fields1 := []string{"f : base.u32", "q : base.u64", "r : base.u8", "g : base.u32"}
	type callee struct {
		name, decl, use string // use: the assignment in the caller
	}
	readerCallees := []callee{
		{"pure peek", fn("pri func foo.h(src: base.io_reader) base.u32", nil, "if args.src.length() < 1 {", "return 0xFFFF", "}", "return args.src.peek_u8_as_u32()"), "this.f = this.h(src: args.src)"},
		{"pure peek2", fn("pri func foo.h(src: base.io_reader) base.u32", nil, "if args.src.length() < 2 {", "return 0xFFFFF", "}", "return args.src.peek_u16le_as_u32()"), "this.f = this.h(src: args.src)"},
		{"pure length", fn("pri func foo.h(src: base.io_reader) base.u64", nil, "return args.src.length()"), "this.q = this.h(src: args.src)"},
		{"pure position", fn("pri func foo.h(src: base.io_reader) base.u64", nil, "return args.src.position()"), "this.q = this.h(src: args.src)"},
		{"impure consume", fn("pri func foo.h!(src: base.io_reader) base.u32", []string{"u : base.u32"}, "if args.src.length() < 1 {", "return 0xFFFF", "}", "u = args.src.peek_u8_as_u32()", "args.src.skip_u32_fast!(actual: 1, worst_case: 1)", "return u"), "this.f = this.h!(src: args.src)"},
		{"impure peek", fn("pri func foo.h!(src: base.io_reader) base.u32", nil, "this.g = 5", "if args.src.length() < 1 {", "return 0xFFFF", "}", "return args.src.peek_u8_as_u32()"), "this.f = this.h!(src: args.src)"},
	}
	writerCallees := []callee{
		{"pure length", fn("pri func foo.h(dst: base.io_writer) base.u64", nil, "return args.dst.length()"), "this.q = this.h(dst: args.dst)"},
		{"pure position", fn("pri func foo.h(dst: base.io_writer) base.u64", nil, "return args.dst.position()"), "this.q = this.h(dst: args.dst)"},
		{"impure produce", fn("pri func foo.h!(dst: base.io_writer) base.u32", nil, "if args.dst.length() < 1 {", "return 0", "}", "args.dst.write_u8_fast!(a: 0x42)", "return 1"), "this.f = this.h!(dst: args.dst)"},
		{"impure length", fn("pri func foo.h!(dst: base.io_writer) base.u64", nil, "this.g = 5", "return args.dst.length()"), "this.q = this.h!(dst: args.dst)"},
	}
	for _, c := range readerCallees {
		for _, adv := range []string{"none", "read", "skip"} {
			// Coroutine caller.
			var body []string
			switch adv {
			case "read":
				body = append(body, "v = args.src.read_u8?()", "this.r = v")
			case "skip":
				body = append(body, "args.src.skip_u32?(n: 2)")
			}
			body = append(body, c.use, "v = args.src.read_u8?()", "this.g = v as base.u32", c.use)
			emit(map[string]string{"part": "sync", "io": "reader", "callee": c.name, "advance": adv, "caller": "coroutine"}, fields1,
				c.decl, fn("pub func foo.c?(src: base.io_reader)", []string{"v : base.u8"}, body...))
			// Plain caller (unchecked built-ins under length guards).
			body = nil
			switch adv {
			case "read":
				body = append(body, "if args.src.length() >= 1 {", "v = args.src.peek_u8()", "args.src.skip_u32_fast!(actual: 1, worst_case: 1)", "this.r = v", "}")
			case "skip":
				body = append(body, "if args.src.length() >= 2 {", "args.src.skip_u32_fast!(actual: 2, worst_case: 2)", "}")
			}
			body = append(body, c.use, "if args.src.length() >= 1 {", "v = args.src.peek_u8()", "args.src.skip_u32_fast!(actual: 1, worst_case: 1)", "this.g = v as base.u32", "}", c.use)
			emit(map[string]string{"part": "sync", "io": "reader", "callee": c.name, "advance": adv, "caller": "plain"}, fields1,
				c.decl, fn("pub func foo.m!(src: base.io_reader)", []string{"v : base.u8"}, body...))
		}
	}
	for _, c := range writerCallees {
		for _, adv := range []string{"none", "write"} {
			var body []string
			if adv == "write" {
				body = append(body, "args.dst.write_u8?(a: 0x31)")
			}
			body = append(body, c.use, "args.dst.write_u8?(a: 0x32)", c.use)
			emit(map[string]string{"part": "sync", "io": "writer", "callee": c.name, "advance": adv, "caller": "coroutine"}, fields1,
				c.decl, fn("pub func foo.c?(dst: base.io_writer)", nil, body...))
			body = nil
			if adv == "write" {
				body = append(body, "if args.dst.length() >= 1 {", "args.dst.write_u8_fast!(a: 0x31)", "}")
			}
			body = append(body, c.use, "if args.dst.length() >= 1 {", "args.dst.write_u8_fast!(a: 0x32)", "}", c.use)
			emit(map[string]string{"part": "sync", "io": "writer", "callee": c.name, "advance": adv, "caller": "plain"}, fields1,
				c.decl, fn("pub func foo.m!(dst: base.io_writer)", nil, body...))
		}
	}

	// ---------------------------------------------------------------- 2. copy_from_slice! between constant widths
	widths := []int{1, 2, 3, 4, 7, 8, 9, 16}
	fields2 := []string{"q : base.u64", "a : array[32] base.u8", "c : array[32] base.u8"}
	setter := fn("pub func foo.w!(v: base.u8)", nil, "this.a[0 .. 32].bulk_memset!(byte_value: args.v)", "this.c[0 .. 32].bulk_memset!(byte_value: args.v ~mod+ 1)", "this.c[3] = 0x33", "this.c[12] = 0x44")
	type side struct {
		kind  string
		expr  func(n int) string // the sub-slice expression
		guard func(n int) string // "" or an `if` opener that makes it provable
		maxW  int
	}
	dsts := []side{
		{"field at offset", func(n int) string { return fmt.Sprintf("this.a[args.x .. args.x + %d]", n) }, func(int) string { return "" }, 16},
		{"field prefix", func(n int) string { return fmt.Sprintf("this.a[.. %d]", n) }, func(int) string { return "" }, 16},
		{"slice argument", func(n int) string { return fmt.Sprintf("args.t[.. %d]", n) }, func(n int) string { return fmt.Sprintf("if args.t.length() >= %d {", n) }, 8},
		{"local array", func(n int) string { return fmt.Sprintf("b[.. %d]", n) }, func(int) string { return "" }, 16},
	}
	srcs := []side{
		{"slice argument", func(n int) string { return fmt.Sprintf("args.s[.. %d]", n) }, func(n int) string { return fmt.Sprintf("if args.s.length() >= %d {", n) }, 8},
		{"field at offset", func(n int) string { return fmt.Sprintf("this.c[args.y .. args.y + %d]", n) }, func(int) string { return "" }, 16},
		{"field prefix", func(n int) string { return fmt.Sprintf("this.c[.. %d]", n) }, func(int) string { return "" }, 16},
		{"local array", func(n int) string { return fmt.Sprintf("e[.. %d]", n) }, func(int) string { return "" }, 16},
	}
	subset := map[[2]int]bool{{8, 4}: true, {4, 8}: true, {3, 7}: true, {16, 9}: true, {1, 2}: true, {8, 8}: true, {9, 16}: true}
	for di, d := range dsts {
		for si, s := range srcs {
			full := (di == 0 && si == 0) || (di == 2 && si == 1) || (di == 1 && si == 2)
			for _, dn := range widths {
				for _, sn := range widths {
					if dn > d.maxW || sn > s.maxW || (!full && !subset[[2]int{dn, sn}]) {
						continue
					}
					args := []string{"x: base.u32[..= 8]", "y: base.u32[..= 8]"}
					if d.kind == "slice argument" {
						args = append(args, "t: slice base.u8")
					}
					if s.kind == "slice argument" {
						args = append(args, "s: roslice base.u8")
					}
					vars := []string{"b : array[16] base.u8", "e : array[16] base.u8"}
					var body []string
					if s.kind == "local array" {
						body = append(body, "e[0 .. 16].bulk_memset!(byte_value: 0x55)", "e[1] = 0x11", "e[5] = 0x15", "e[9] = 0x19")
					}
					if d.kind == "local array" {
						body = append(body, "b[0 .. 16].bulk_memset!(byte_value: 0x66)")
					}
					opened := 0
					for _, g := range []string{d.guard(dn), s.guard(sn)} {
						if g != "" {
							body = append(body, g)
							opened++
						}
					}
					if d.kind == "field at offset" {
						body = append(body, fmt.Sprintf("assert args.x <= (args.x + %d) via \"a <= (a + b): 0 <= b\"(b: %d)", dn, dn))
					}
					if s.kind == "field at offset" {
						body = append(body, fmt.Sprintf("assert args.y <= (args.y + %d) via \"a <= (a + b): 0 <= b\"(b: %d)", sn, sn))
					}
					if dn == 8 && sn == 8 {
						// Both sides are 8 wide: cgen's memcpy peephole applies, and its
						// VALUE is the known finding registered through the extras family
						// (the C expression is memcpy's result, a pointer); only the bytes
						// are observed here.
						body = append(body, fmt.Sprintf("%s.copy_from_slice!(s: %s)", d.expr(dn), s.expr(sn)))
					} else {
						body = append(body, fmt.Sprintf("this.q = %s.copy_from_slice!(s: %s)", d.expr(dn), s.expr(sn)))
					}
					for ; opened > 0; opened-- {
						body = append(body, "}")
					}
					if d.kind == "local array" {
						body = append(body, "this.a[.. 16].copy_from_slice!(s: b[.. 16])")
					}
					emit(map[string]string{"part": "copy", "dst": d.kind, "src": s.kind, "dst_width": fmt.Sprint(dn), "src_width": fmt.Sprint(sn)}, fields2,
						setter, fn("pub func foo.m!("+strings.Join(args, ", ")+")", vars, body...))
				}
			}
		}
	}

	// ---------------------------------------------------------------- 3. io_limit around a call that gets the limited buffer
	fields3 := []string{"f : base.u32", "g : base.u32", "q : base.u64"}
	wCallee := fn("pri func foo.h!(dst: base.io_writer, n: base.u32) base.u32", []string{"i : base.u32"},
		"while i < args.n {", "if args.dst.length() < 1 {", "break", "}", "args.dst.write_u8_fast!(a: 0x41)", "i ~mod+= 1", "}", "return i")
	rCallee := fn("pri func foo.h!(src: base.io_reader, n: base.u32) base.u32", []string{"i : base.u32", "u : base.u32"},
		"while i < args.n {", "if args.src.length() < 1 {", "break", "}", "u ~mod+= args.src.peek_u8_as_u32()", "args.src.skip_u32_fast!(actual: 1, worst_case: 1)", "i ~mod+= 1", "}", "this.g = u", "return i")
	for _, lim := range []int{0, 1, 4} {
		for _, where := range []string{"none", "before", "inside-before", "inside-after", "after"} {
			wr := []string{"if args.dst.length() >= 1 {", "args.dst.write_u8_fast!(a: 0x30)", "}"}
			rd := []string{"if args.src.length() >= 1 {", "args.src.skip_u32_fast!(actual: 1, worst_case: 1)", "}"}
			build := func(direct []string, call string, io string) []string {
				var body []string
				if where == "before" {
					body = append(body, direct...)
				}
				body = append(body, fmt.Sprintf("io_limit (io: args.%s, limit: (%d as base.u64)) {", io, lim))
				if where == "inside-before" {
					body = append(body, direct...)
				}
				body = append(body, call)
				if where == "inside-after" {
					body = append(body, direct...)
				}
				body = append(body, "}")
				if where == "after" {
					body = append(body, direct...)
				}
				return append(body, "this.f = k", fmt.Sprintf("this.q = args.%s.length()", io))
			}
			tags := func(io, caller string) map[string]string {
				return map[string]string{"part": "io_limit", "io": io, "limit": fmt.Sprint(lim), "direct_io": where, "caller": caller}
			}
			emit(tags("writer", "plain"), fields3, wCallee,
				fn("pub func foo.m!(dst: base.io_writer, x: base.u32[..= 5])", []string{"k : base.u32"}, build(wr, "k = this.h!(dst: args.dst, n: args.x)", "dst")...))
			emit(tags("reader", "plain"), fields3, rCallee,
				fn("pub func foo.m!(src: base.io_reader, x: base.u32[..= 5])", []string{"k : base.u32"}, build(rd, "k = this.h!(src: args.src, n: args.x)", "src")...))
			if where == "none" || where == "before" || where == "after" {
				// Coroutine callers: the direct I/O outside the block may suspend.
				cw := []string{"args.dst.write_u8?(a: 0x30)"}
				cr := []string{"v = args.src.read_u8?()", "this.g ~mod+= v as base.u32"}
				emit(tags("writer", "coroutine"), fields3, wCallee,
					fn("pub func foo.c?(dst: base.io_writer, x: base.u32[..= 5])", []string{"k : base.u32"}, build(cw, "k = this.h!(dst: args.dst, n: args.x)", "dst")...))
				emit(tags("reader", "coroutine"), fields3, strings.Replace(rCallee, "this.g = u\n", "", 1),
					fn("pub func foo.c?(src: base.io_reader, x: base.u32[..= 5])", []string{"k : base.u32", "v : base.u8"}, build(cr, "k = this.h!(src: args.src, n: args.x)", "src")...))
			}
		}
	}
	return f
}
