package main

import (
	"encoding/json"
	"fmt"
	"os"
	"regexp"
	"strings"

	"verif/internal/cdrive"
	"verif/internal/ev"
	"verif/internal/interp"
)

func configByName(name string) cdrive.Config {
	for _, c := range []cdrive.Config{cdrive.AsanO1, cdrive.GccO2, cdrive.Clang} {
		if c.Name == name {
			return c
		}
	}
	return cdrive.AsanO1
}

// replay re-executes a recorded witness linearly: the program is compiled to C
// with the tree's cgen, the recorded history is run call by call on the C and
// in the interpreter with full traces, twice, and the first diverging item is
// reported.
func replay(path string) {
	b, err := os.ReadFile(path)
	if err != nil {
		ev.Fatal("%v", err)
	}
	var doc struct {
		Signature string  `json:"signature"`
		What      string  `json:"what"`
		Witness   Witness `json:"witness"`
	}
	if err := json.Unmarshal(b, &doc); err != nil {
		ev.Fatal("%v", err)
	}
	w := doc.Witness
	fmt.Printf("replaying %s\n  recorded: %s\n  program:\n", doc.Signature, doc.What)
	for i, l := range strings.Split(w.Program, "\n") {
		fmt.Printf("   %3d  %s\n", i+1, l)
	}
	scratch, mine := scratchDir()
	if mine {
		defer os.RemoveAll(scratch)
	}
	tools, err := cdrive.Build(scratch)
	if err != nil {
		ev.Fatal("cdrive build: %v", err)
	}
	defer tools.Close()
	cfg := configByName(w.Config)
	run := func() (string, string) {
		p, err := interp.Compile(w.Program)
		if err != nil {
			return "", "not accepted: " + err.Error()
		}
		pi := cdrive.Describe(p, w.Family, w.Tags)
		bt, err := tools.NewBatch([]*cdrive.ProgInfo{pi})
		if err != nil {
			ev.Fatal("%v", err)
		}
		defer bt.Remove()
		if err := bt.Generate(0); err != nil {
			ev.Fatal("%v", err)
		}
		if len(bt.Progs) != 1 {
			return "", "cgen refuses the program: " + pi.GenErr
		}
		if err := bt.Compile(cfg); err != nil {
			ev.Fatal("%v", err)
		}
		if len(bt.Progs) != 1 {
			return "", "the C compiler refuses the generated C: " + pi.GccErr
		}
		if len(w.History) == 0 && w.Call.Method == "" {
			return "", "the witness has no history (a hang or a crash of the whole program): " + w.Note
		}
		calls := append(append([]interp.CallSpec{}, w.History...), w.Call)
		div, prob := bt.Diagnose(cfg, 0, calls)
		ba, isBad := cdrive.BadArgOfCall(pi, w.Call)
		if div == nil {
			if isBad && strings.HasPrefix(w.Item, "process death") && strings.HasPrefix(prob, "C driver in trace mode") {
				return fmt.Sprintf("argcheck|%s|%s", ba.Type, ba.Bound), fmt.Sprintf("  history %v then %s (%s): the compiled C dies in the call the argument check must refuse\n  %s\n", w.History, w.Call.String(), cfg.Name, strings.ReplaceAll(prob, "\n", "\n  "))
			}
			return "", "no divergence (" + prob + ")"
		}
		if isBad && div.Call == len(calls)-1 {
			text := fmt.Sprintf("  history %v then %s (%s)\n  out-of-domain argument (%s, %s bound): first diverging item after call %d: %s\n    generated C : %s\n    Wuffs source: %s\n", w.History, w.Call.String(), cfg.Name, ba.Type, ba.Bound, div.Call, div.Label, div.C, div.Interp)
			return fmt.Sprintf("argcheck|%s|%s", ba.Type, ba.Bound), text
		}
		text := fmt.Sprintf("  history %v then %s (%s)\n  first diverging item after call %d: %s\n    generated C : %s\n    Wuffs source: %s\n", w.History, w.Call.String(), cfg.Name, div.Call, div.Label, div.C, div.Interp)
		if div.Problem != "" {
			text += "  the C driver did not finish the history: " + strings.ReplaceAll(stableText(div.Problem), "\n", "\n    ") + "\n"
		}
		return signature(pi, div.Label), text
	}
	s1, t1 := run()
	s2, t2 := run()
	if s1 != s2 || t1 != t2 {
		ev.Fatal("replay diverged between two runs")
	}
	fmt.Print(t1)
	if s1 == doc.Signature {
		fmt.Println("  reproduced: " + s1)
		tools.Close()
		if mine {
			os.RemoveAll(scratch)
		}
		os.Exit(1)
	}
	fmt.Printf("  not reproduced (observed %q)\n", s1)
}

var unstableRe = regexp.MustCompile(`0x[0-9a-fA-F]+|==\d+==|pid \d+|T\d+\)|/dev/shm/[^ :)]*`)

// stableText removes what differs between two runs of a dying driver (addresses, pids, scratch paths).
func stableText(s string) string { return unstableRe.ReplaceAllString(s, "_") }
