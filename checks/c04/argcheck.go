package main

import (
	"fmt"
	"strings"

	"verif/internal/cdrive"
)

// The "argcheck" family: public methods whose only interesting property is the
// run-time re-validation of their refined arguments (internal/cgen/func.go
// writeFuncImplArgChecks). progen's families have unsigned refined arguments
// with a zero lower bound only; here every integer base type (signed and
// unsigned) is crossed with the bound shapes [0 ..= K], [L ..= K] (L > 0),
// [..= K], [L ..=] and - for signed types - [-L ..= K] and a lower bound equal to
// the type's minimum, and with impure / pure / coroutine methods. The body uses
// the argument as an index (when the refinement proves it in range of an
// 8-element array), as a divisor (when it excludes 0) and stores it into a
// field, so that a check that lets a bad value through is also visible as a
// sanitizer report or a changed field.
func argcheck() *cdrive.FlatFamily {
	f := &cdrive.FlatFamily{FamName: "argcheck"}
	types := []struct {
		name   string
		bits   int
		signed bool
	}{{"i8", 8, true}, {"i16", 16, true}, {"i32", 32, true}, {"i64", 64, true}, {"u8", 8, false}, {"u16", 16, false}, {"u32", 32, false}, {"u64", 64, false}}
	for _, ty := range types {
		tmin := "0"
		if ty.signed {
			tmin = fmt.Sprintf("-%d", uint64(1)<<(ty.bits-1))
		}
		type shape struct {
			ref           string
			index, nozero bool
		}
		shapes := []shape{
			{"[0 ..= 7]", true, false},
			{"[1 ..= 7]", true, true},
			{"[3 ..=]", false, true},
		}
		if ty.signed {
			shapes = append(shapes, shape{"[..= 7]", false, false}, shape{"[-3 ..= 4]", false, false}, shape{"[" + tmin + " ..= 7]", false, false}, shape{"[-5 ..= -2]", false, false})
		} else {
			shapes = append(shapes, shape{"[..= 7]", true, false})
		}
		for _, sh := range shapes {
			rt := "base." + ty.name + sh.ref
			fields := []string{"q : base." + ty.name, "d : base." + ty.name, "r : base.u8", "a : array[8] base.u8"}
			var body []string
			if sh.index {
				body = append(body, "this.r = this.a[args.x]", "this.a[args.x] = 5")
			}
			if sh.nozero {
				body = append(body, "this.d = 100 / args.x")
			}
			body = append(body, "this.q = args.x")
			tags := map[string]string{"type": ty.name, "refinement": sh.ref}
			emit := func(kind string, funcs ...string) {
				var sb strings.Builder
				sb.WriteString("pub struct foo?(\n")
				for _, x := range fields {
					sb.WriteString(x + ",\n")
				}
				sb.WriteString(")\n")
				for _, fn := range funcs {
					sb.WriteString("\n" + fn)
				}
				t := map[string]string{"kind": kind}
				for k, v := range tags {
					t[k] = v
				}
				f.Add(sb.String(), t)
			}
			fn := func(header string, vars []string, lines []string) string {
				s := header + " {\n"
				for _, v := range vars {
					s += "var " + v + "\n"
				}
				for _, l := range lines {
					s += l + "\n"
				}
				return s + "}\n"
			}
			setter := fn("pub func foo.w!(v: base.u8)", nil, []string{"this.a[0] = args.v", "this.a[7] = args.v", "this.r = args.v"})
			emit("impure", setter, fn("pub func foo.m!(x: "+rt+")", nil, body))
			// A pure method with a result: the refused call returns the zero value.
			pure := "return args.x"
			emit("pure", setter, fn("pub func foo.g(x: "+rt+") base."+ty.name, nil, []string{pure}), fn("pub func foo.m!(x: "+rt+")", nil, []string{"this.q = args.x"}))
			// A coroutine: "#base: bad argument" and a disabled receiver; a second
			// refined argument and the I/O argument (NULL) are checked by the same `if`.
			cbody := append(append([]string{}, body...), "v = args.src.read_u8?()", "this.r = v")
			emit("coroutine", setter, fn("pub func foo.c?(src: base.io_reader, x: "+rt+", y: base.u8[2 ..= 9])", []string{"v : base.u8"}, cbody))
		}
	}
	return f
}
