// C04: generated C computes exactly what the Wuffs source means.
//
// Every accepted program of the progen families is explored by the reference
// interpreter (engine E2: ideal integers, the documented semantics) exactly as
// interp.Explore does: every public method with every argument tuple of the E2
// rules from every receiver state reachable by at most 2 prior public calls.
// Engine E3 (internal/cdrive) turns the same programs into C with the working
// tree's cgen, compiles one driver per batch and repeats every execution on the
// compiled code; the oracle is equality of the trace records (returned status /
// value, ri / wi / closed of every I/O argument, the bytes written, the
// contents of slice arguments, the receiver's fields) of every execution.
package main

import (
	"encoding/binary"
	"fmt"
	"os"
	"path/filepath"
	"regexp"
	"sort"
	"strings"
	"sync"
	"sync/atomic"
	"time"

	"verif/internal/cdrive"
	"verif/internal/ev"
	"verif/internal/interp"
	"verif/internal/progen"
)

// Witness is what goes into replay files.
type Witness struct {
	Family     string            `json:"family"`
	Tags       map[string]string `json:"tags,omitempty"`
	Program    string            `json:"program"`
	Config     string            `json:"config"`
	History    []interp.CallSpec `json:"history"`
	Call       interp.CallSpec   `json:"call"`
	Item       string            `json:"first_diverging_item"`
	C          string            `json:"generated_c"`
	Interp     string            `json:"reference_interpreter"`
	CTrace     []string          `json:"c_trace_of_the_call,omitempty"`
	ITrace     []string          `json:"interpreter_trace_of_the_call,omitempty"`
	DivergesAt int               `json:"diverging_call_index"`
	Note       string            `json:"note,omitempty"`
}

type state struct {
	r       *ev.Run
	tools   *cdrive.Tools
	configs []cdrive.Config
	lazyO2  bool
	opt     cdrive.Options

	mu           sync.Mutex
	problems     []string
	famPrograms  map[string]int64
	famCompared  map[string]int64
	constructs   map[string]int64
	statuses     map[string]int64
	crashKinds   map[string]int64
	cfgCompared  map[string]int64
	sampleFam    map[string]int
	genRejected  []string
	crashSamples []map[string]any
	gccKinds     map[string]bool
	gccRejected  []string
	compileSec   map[string]float64
	crossChecked atomic.Int64
	phaseNs      [5]atomic.Int64 // generate, compile, enumerate, run, diagnose

	programs      atomic.Int64 // accepted programs whose C was run
	nontrivial    atomic.Int64
	comparisons   atomic.Int64 // (program, history, configuration) trace comparisons
	histories     atomic.Int64 // (program, history) pairs compared in at least the first configuration
	executions    atomic.Int64
	notReplayed   atomic.Int64
	steps         atomic.Int64
	mismatches    atomic.Int64
	cappedProgs   atomic.Int64
	unsupported   atomic.Int64
	interpBugs    atomic.Int64
	batches       atomic.Int64
	suspendedExec atomic.Int64
	maskedRI      atomic.Int64
	badArgExecs   atomic.Int64
	notRun        atomic.Int64
	stop          func() bool
	hung          atomic.Int64
}

func (s *state) problem(format string, a ...any) {
	s.mu.Lock()
	if len(s.problems) < 12 {
		s.problems = append(s.problems, fmt.Sprintf(format, a...))
	}
	s.mu.Unlock()
}

func itemClass(label string) string {
	switch {
	case label == "ret":
		return "ret"
	case strings.HasPrefix(label, "io."):
		if i := strings.LastIndexByte(label, '.'); i > 0 {
			return "io" + label[i:]
		}
		return "io"
	case strings.HasPrefix(label, "slice."):
		return "slice-arg"
	case strings.HasPrefix(label, "f."):
		return "field"
	case label == "#len":
		return "length"
	}
	return label
}

// signature names the root-cause class: family, the kind of observable that
// differs and the construct shape of the program (never the concrete input).
func signature(pi *cdrive.ProgInfo, label string) string {
	shape := ""
	fam := pi.Family
	if i := strings.IndexByte(fam, '@'); i > 0 {
		fam = fam[:i]
	}
	switch fam {
	case "arith":
		shape = "ops=" + pi.Tags["ops"] + " type=" + pi.Tags["type"] + " dest=" + pi.Tags["dest"]
	default:
		shape = strings.Join(cdrive.Constructs(methodText(pi)), ",")
	}
	return fmt.Sprintf("%s|%s|%s", fam, itemClass(label), shape)
}

// methodText is the source without the fixed helper methods' noise: the whole
// program (helpers are part of what cgen translated).
func methodText(pi *cdrive.ProgInfo) string { return pi.Src }

func (s *state) handle(worker int, progs []*cdrive.ProgInfo) {
	if len(progs) == 0 {
		return
	}
	b, err := s.tools.NewBatch(progs)
	if err != nil {
		s.problem("batch: %v", err)
		return
	}
	defer b.Remove()
	b.Stop = s.stop
	defer func() { s.notRun.Add(int64(b.NotRun)) }()
	s.batches.Add(1)
	s.unsupported.Add(int64(len(b.Unsup)))
	for _, pi := range b.Unsup {
		s.r.HistAdd("programs_not_driven", pi.Family+": "+pi.Unsupported, 1)
	}
	t0 := time.Now()
	lap := func(k int) {
		s.phaseNs[k].Add(int64(time.Since(t0)))
		t0 = time.Now()
	}
	if err := b.Generate(worker); err != nil {
		s.problem("generate: %v", err)
		return
	}
	if len(b.Progs) > 0 && s.crossChecked.Add(1) <= 4 {
		// Self-check of the harness (done at the end): the in-process cgen loop must print what `wuffs-c gen` prints.
		s.tools.KeepForCrossCheck(b.Progs[0].Pkg, b.WuffsPath(b.Progs[0]), b.CPath(b.Progs[0]))
	}
	if len(b.Progs) == 0 {
		s.noteRejected(b)
		return
	}
	lap(0)
	if err := b.Compile(s.configs[0]); err != nil {
		s.problem("compile: %v", err)
		return
	}
	s.noteRejected(b)
	if len(b.Progs) == 0 {
		return
	}
	lap(1)
	// Explore every program in the interpreter; build the script.
	jobs := make([]*cdrive.Job, len(b.Progs))
	var script cdrive.Script
	expect := make([]int, len(b.Progs))
	for i, pi := range b.Progs {
		j := cdrive.Enumerate(pi, s.opt)
		pi.Release()
		jobs[i] = j
		script.Section(i, j.Body)
		expect[i] = 8 * len(j.Want)
		s.executions.Add(j.Executions)
		s.notReplayed.Add(j.NotReplayed)
		s.steps.Add(j.Steps)
		s.suspendedExec.Add(j.Suspended)
		s.maskedRI.Add(j.MaskedRI)
		s.badArgExecs.Add(j.BadArgExecs)
		s.hung.Add(j.Hung)
		if j.CappedExec || j.CappedStates || j.CappedTuples {
			s.cappedProgs.Add(1)
		}
		if len(j.InterpBugs) > 0 {
			s.interpBugs.Add(int64(len(j.InterpBugs)))
			s.problem("interpreter self-check: %s\n%s", j.InterpBugs[0], pi.Src)
		}
		s.mu.Lock()
		for k, v := range j.Statuses {
			s.statuses[k] += v
		}
		s.mu.Unlock()
	}
	script.End()
	lap(2)
	configs := append([]cdrive.Config{}, s.configs...)
	crashed := map[int]bool{}
	for ci := 0; ci < len(configs); ci++ {
		cfg := configs[ci]
		if ci > 0 {
			t0 = time.Now()
			if err := b.Compile(cfg); err != nil {
				s.problem("compile: %v", err)
				continue
			}
			lap(1)
		}
		t0 = time.Now()
		out, crashes, err := b.Run(cfg, script.B, expect)
		lap(3)
		if err != nil {
			s.problem("run: %v", err)
			continue
		}
		for _, c := range crashes {
			pi := b.Progs[c.Prog]
			s.mu.Lock()
			s.crashKinds[cfg.Name+" "+c.Kind]++
			if len(s.crashSamples) < 6 {
				s.crashSamples = append(s.crashSamples, map[string]any{"family": pi.Family, "tags": pi.Tags, "configuration": cfg.Name, "kind": c.Kind, "stderr": c.Stderr, "program": pi.Src})
			}
			s.mu.Unlock()
			if k := len(c.Partial) / 8; c.Kind == "watchdog" && k < jobs[c.Prog].NumExecs() {
				if ba, isBad := jobs[c.Prog].BadArgOf(k); isBad {
					hist, call := jobs[c.Prog].History(k)
					s.r.Violation(fmt.Sprintf("argcheck|%s|%s", ba.Type, ba.Bound),
						fmt.Sprintf("a public call with an out-of-domain argument (%s, %s bound) was not refused: the compiled C (%s) ran its body and did not finish within the watchdog period", ba.Type, ba.Bound, cfg.Name),
						Witness{Family: pi.Family, Tags: pi.Tags, Program: pi.Src, Config: cfg.Name, History: hist, Call: call, Item: "process death: watchdog",
							Interp: "call refused by the argument check (#base: bad argument / zero value, impure receiver disabled)", Note: c.Stderr})
					continue
				}
			}
			if c.Kind == "watchdog" {
				s.r.Violation(fmt.Sprintf("%s|c-hang|%s", strings.SplitN(pi.Family, "@", 2)[0], strings.Join(cdrive.Constructs(pi.Src), ",")),
					"the compiled C did not finish a program whose every execution terminates in the reference interpreter",
					Witness{Family: pi.Family, Tags: pi.Tags, Program: pi.Src, Config: cfg.Name, Note: c.Stderr})
				continue
			}
			crashed[c.Prog] = true
			// The driver died in execution number len(Partial)/8 of the program. If
			// that call was made with an out-of-domain argument, the body ran (or the
			// check itself is broken) although the envelope must refuse the call.
			j := jobs[c.Prog]
			if k := len(c.Partial) / 8; k < j.NumExecs() {
				if ba, isBad := j.BadArgOf(k); isBad {
					hist, call := j.History(k)
					s.r.Violation(fmt.Sprintf("argcheck|%s|%s", ba.Type, ba.Bound),
						fmt.Sprintf("a public call with an out-of-domain argument (%s, %s bound) was not refused: the compiled C (%s) died in it: %s", ba.Type, ba.Bound, cfg.Name, c.Kind),
						Witness{Family: pi.Family, Tags: pi.Tags, Program: pi.Src, Config: cfg.Name, History: hist, Call: call, Item: "process death: " + c.Kind,
							Interp: "call refused by the argument check (#base: bad argument / zero value, impure receiver disabled)", Note: c.Stderr})
				}
			}
		}
		for i := range b.Progs {
			if out[i] == nil {
				continue
			}
			j := jobs[i]
			if ci == 0 {
				s.histories.Add(int64(len(j.Want)))
			}
			s.comparisons.Add(int64(len(j.Want)))
			s.mu.Lock()
			s.cfgCompared[cfg.Name] += int64(len(j.Want))
			s.mu.Unlock()
			for k, want := range j.Want {
				got := binary.LittleEndian.Uint64(out[i][8*k:])
				if got == want {
					continue
				}
				s.mismatches.Add(1)
				s.report(b, cfg, i, j, k)
				break // one report per program and configuration
			}
		}
		// A sanitizer report in the first (sanitized) configuration: look at the
		// same programs without sanitizers, so that a translation that is wrong
		// AND out of bounds still gets its traces compared.
		if ci == 0 && s.lazyO2 && len(crashed) > 0 && len(configs) == 1 {
			configs = append(configs, cdrive.GccO2)
		}
	}
	for i, pi := range b.Progs {
		j := jobs[i]
		s.programs.Add(1)
		distinct := map[uint64]bool{}
		for _, w := range j.Want {
			distinct[w] = true
			if len(distinct) >= 2 {
				break
			}
		}
		if len(distinct) >= 2 {
			s.nontrivial.Add(1)
		}
		s.mu.Lock()
		s.famPrograms[pi.Family]++
		s.famCompared[pi.Family] += int64(len(j.Want))
		for _, c := range cdrive.Constructs(pi.Src) {
			s.constructs[c]++
		}
		take := s.sampleFam[pi.Family] < 1 && len(j.Want) > 1
		if take {
			s.sampleFam[pi.Family]++
		}
		s.mu.Unlock()
		if take {
			h, c := j.History(len(j.Want) - 1)
			s.r.Sample(map[string]any{"family": pi.Family, "program_sha1": pi.ID, "tags": pi.Tags, "source": pi.Src,
				"executions_compared": len(j.Want), "receiver_states": j.RecvStates, "last_history": fmt.Sprint(h), "last_call": c.String()})
		}
	}
	s.mu.Lock()
	for k, v := range b.CompileSeconds {
		s.compileSec[k] += v
	}
	s.mu.Unlock()
}

func (s *state) noteRejected(b *cdrive.Batch) {
	s.mu.Lock()
	defer s.mu.Unlock()
	for _, pi := range b.GenRej {
		if pi.GenErr == "" {
			continue
		}
		s.r.HistAdd("cgen_rejected_accepted_program (C11)", pi.Family+": "+firstLine(pi.GenErr), 1)
		if len(s.genRejected) < 5 {
			s.genRejected = append(s.genRejected, pi.GenErr+"\n"+pi.Src)
		}
		pi.GenErr = ""
	}
	for _, pi := range b.GccRej {
		if pi.GccErr == "" {
			continue
		}
		kind := pi.Family + ": " + gccErrKind(pi.GccErr)
		s.r.HistAdd("c_compiler_rejected_generated_c (C11)", kind, 1)
		if !s.gccKinds[kind] && len(s.gccRejected) < 10 {
			s.gccKinds[kind] = true
			s.gccRejected = append(s.gccRejected, pi.GccErr+"\n"+pi.Src)
		}
		pi.GccErr = ""
	}
}

var gccMsgRe = regexp.MustCompile(`error: ([^\n]*)`)
var pkgNameRe = regexp.MustCompile(`p\d{5}`)

// gccErrKind abstracts a compiler diagnostic: the message with package names removed.
func gccErrKind(text string) string {
	m := gccMsgRe.FindStringSubmatch(text)
	if m == nil {
		return firstLine(text)
	}
	k := pkgNameRe.ReplaceAllString(m[1], "pN")
	if len(k) > 90 {
		k = k[:90]
	}
	return k
}

func firstLine(s string) string {
	if i := strings.IndexByte(s, '\n'); i >= 0 {
		s = s[:i]
	}
	if len(s) > 100 {
		s = s[:100]
	}
	return s
}

// report re-runs the mismatching history with full traces to locate the first
// diverging call and item, and records the violation.
func (s *state) report(b *cdrive.Batch, cfg cdrive.Config, prog int, j *cdrive.Job, k int) {
	pi := b.Progs[prog]
	hist, call := j.History(k)
	calls := append(append([]interp.CallSpec{}, hist...), call)
	div, prob := b.Diagnose(cfg, prog, calls)
	if div == nil {
		s.problem("digest mismatch did not reproduce with full traces (%s, %s, history %v, call %s): %s\n%s", cfg.Name, pi.Family, hist, call.String(), prob, pi.Src)
		return
	}
	w := Witness{Family: pi.Family, Tags: pi.Tags, Program: pi.Src, Config: cfg.Name, History: hist, Call: call,
		Item: div.Label, C: div.C, Interp: div.Interp, CTrace: div.CText, ITrace: div.IText, DivergesAt: div.Call, Note: div.Problem}
	what := fmt.Sprintf("generated C (%s) and the reference semantics disagree on %s after call %d of the history: C %s, Wuffs %s", cfg.Name, div.Label, div.Call, div.C, div.Interp)
	sig := signature(pi, div.Label)
	if ba, isBad := j.BadArgOf(k); isBad && div.Call == len(calls)-1 {
		sig = fmt.Sprintf("argcheck|%s|%s", ba.Type, ba.Bound)
		what = fmt.Sprintf("a public call with an out-of-domain argument (%s, %s bound) is not refused as the argument check demands: ", ba.Type, ba.Bound) + what
	}
	s.r.Violation(sig, what, w)
}

func scratchDir() (string, bool) {
	if d := os.Getenv("VERIF_SCRATCH"); d != "" {
		d = filepath.Join(d, "c04")
		os.MkdirAll(d, 0o755)
		return d, false
	}
	d, err := os.MkdirTemp("/dev/shm", "verif-c04.")
	if err != nil {
		ev.Fatal("%v", err)
	}
	return d, true
}

func main() {
	if len(os.Args) > 2 && os.Args[1] == "replay" {
		replay(os.Args[2])
		return
	}
	r := ev.Start("C04", "translation_validation")
	r.SetBudget(6*time.Minute, 40*time.Minute)
	if s := interp.SelfTestNum(); s != "" {
		ev.Fatal("integer self-test: %s", s)
	}
	scratch, mine := scratchDir()
	if mine {
		defer os.RemoveAll(scratch)
	}
	t0 := time.Now()
	tools, err := cdrive.Build(scratch)
	if err != nil {
		ev.Fatal("cdrive build: %v", err)
	}
	defer tools.Close()
	r.Add("toolchain_build_ms", time.Since(t0).Milliseconds())

	s := &state{r: r, tools: tools, famPrograms: map[string]int64{}, famCompared: map[string]int64{}, constructs: map[string]int64{},
		statuses: map[string]int64{}, crashKinds: map[string]int64{}, cfgCompared: map[string]int64{}, sampleFam: map[string]int{}, compileSec: map[string]float64{}, gccKinds: map[string]bool{}}
	cfg := cdrive.WalkConfig{Tier: r.Tier, BatchSize: 96,
		Families: []string{"argcheck", "ioflow", "extras", "seeds", "loops", "iterate", "calls", "pure", "arith", "io", "coro", "index", "refine", "facts"},
		Extra:    map[string]progen.Family{"extras": extras(), "argcheck": argcheck(), "ioflow": ioflow()},
		MaxLevel: map[string]int{},
	}
	// Programs whose iterate body assigns to the iterate variable itself are
	// left out (and counted): what that means is not documented, the reference
	// interpreter rebinds the window every iteration while the generated C sets
	// .len once per round, and most of them make the generated C spin for ever
	// (each would cost a watchdog period). Since 41b8085 the checker rejects such
	// an assignment, so the filter only matters for older trees.
	var iterateReassigned atomic.Int64
	cfg.Keep = func(family string, p *interp.Prog) bool {
		if family != "extras" && iterateVarReassigned(p.Src) {
			iterateReassigned.Add(1)
			return false
		}
		return true
	}
	// VERIF_STOP_ON_VIOLATION=1 (speeds up detection self-tests): stop walking as
	// soon as a violation with an unlisted signature was recorded.
	stopEarly := os.Getenv("VERIF_STOP_ON_VIOLATION") == "1"
	cfg.Stop = func() bool {
		if stopEarly && r.NumViolations() > 0 {
			r.MarkCapped()
			return true
		}
		return r.Expired()
	}
	s.stop = cfg.Stop
	s.opt = cdrive.Options{Depth: 2, MaxExec: 1500, MaxStates: 4096, MaxTuples: 1024}
	s.configs = []cdrive.Config{cdrive.AsanO1}
	s.lazyO2 = true
	if r.Thorough() {
		s.opt = cdrive.Options{Depth: 2, MaxExec: 6000, MaxStates: 4096, MaxTuples: 2048}
		s.configs = []cdrive.Config{cdrive.AsanO1, cdrive.GccO2, cdrive.Clang}
		// thorough: three compilers and deeper exploration for every program of
		// the quick grammars, the thorough grammars of the families that are about
		// cgen's lowering (loops, calls, arith), then - as far as the budget goes -
		// the thorough io / coro grammars (coroutines are C05's main course).
		cfg.Families = []string{"argcheck", "ioflow", "extras", "seeds", "loops", "iterate", "calls", "pure", "arith@quick", "io@quick", "coro@quick", "index@quick", "refine@quick", "facts@quick",
			"arith", "io", "coro", "index"}
		cfg.MaxLevel["facts@quick"], cfg.MaxLevel["refine@quick"] = 2, 3
	} else {
		// quick: the facts trie is the C01 / C02 work-horse; for the translation only
		// its first two levels are taken (every statement of the alphabet, alone and in pairs with the core alphabet).
		cfg.MaxLevel["facts"] = 2
		// refine is about the checker's refinement rules; its cgen-relevant
		// statements (argument checks, copy_from_slice!, bulk_memset!, refined
		// element stores) all occur within the first three levels (898 programs; the 4th has 3 625 more).
		cfg.MaxLevel["refine"] = 3
	}
	if f := os.Getenv("C04_FAMILIES"); f != "" {
		cfg.Families = strings.Split(f, ",")
	}
	if os.Getenv("C04_O2") == "1" && len(s.configs) == 1 {
		s.configs = append(s.configs, cdrive.GccO2)
	}
	tools.Warm(s.configs...)
	ws := cdrive.Walk(cfg, s.handle)
	nx, err := tools.CrossCheck()
	if err != nil {
		ev.Fatal("cgen batch tool disagrees with the wuffs-c binary: %v", err)
	}
	r.Add("programs_crosschecked_against_the_wuffs-c_binary", int64(nx))

	fams := map[string]any{}
	var generated, accepted int64
	for n, fc := range ws.Families {
		fams[n] = map[string]any{"generated": fc.Generated, "accepted": fc.Accepted, "rejected": fc.Rejected, "levels": fc.Levels, "accepted_per_level": fc.KeptPerLevel,
			"programs_run_as_c": s.famPrograms[n], "trace_comparisons": s.famCompared[n], "skipped_by_budget": fc.SkippedBudget}
		generated += fc.Generated
		accepted += fc.Accepted
		if fc.Unsupported > 0 {
			s.problem("family %s: %d accepted programs outside the interpreter's subset", n, fc.Unsupported)
		}
	}
	for _, p := range ws.Problems {
		s.problem("%s", p)
	}
	for _, own := range []string{"extras", "argcheck", "ioflow"} {
		if fc := ws.Families[own]; fc != nil && (fc.Rejected > 0 || fc.Unsupported > 0) {
			s.problem("%d hand-written programs of the %s family are rejected by the checker (%d outside the interpreter's subset)", fc.Rejected, own, fc.Unsupported)
		}
	}
	r.MergeHist("constructs_in_compared_programs", s.constructs)
	r.MergeHist("statuses_returned", s.statuses)
	r.MergeHist("driver_process_deaths (C01's business unless traces differ)", s.crashKinds)
	r.MergeHist("comparisons_per_configuration", s.cfgCompared)
	sort.Strings(s.problems)
	for _, p := range s.problems {
		fmt.Fprintln(os.Stderr, "HARNESS-NOTE:", p)
	}
	if s.programs.Load() == 0 {
		ev.Fatal("no program was run as C")
	}
	if len(s.problems) > 0 && r.NumViolations() == 0 {
		ev.Fatal("%d harness problems (listed above as HARNESS-NOTE); first: %s", len(s.problems), s.problems[0])
	}
	var cfgNames []string
	for _, c := range s.configs {
		cfgNames = append(cfgNames, c.Name+" ("+c.CC+" "+strings.Join(c.Flags, " ")+")")
	}
	// r.Finish exits the process: clean up first.
	tools.Close()
	if mine {
		os.RemoveAll(scratch)
	}
	r.Finish(ev.Coverage{
		Evaluations:        s.comparisons.Load(),
		DistinctNontrivial: s.nontrivial.Load(),
		Rule: "programs are enumerated exhaustively from the progen grammars and pass the real Tokenize/Parse/Check; each accepted program is explored like interp.Explore (all public methods x all argument tuples of the E2 rules x all receiver states within 2 prior calls, capped per program) and every execution is repeated on the C that the tree's cgen generated; " +
			"evaluations = trace-record comparisons (program, history, C configuration); distinct non-trivial = programs whose executions produced at least two different trace records, all of which the compiled C reproduced",
		Programs:      s.programs.Load(),
		Disagreements: s.histories.Load(),
		Exhaustive:    s.cappedProgs.Load() == 0 && s.notRun.Load() == 0,
		Explanation:   "programs = accepted programs compiled to C and run; disagreements_checked = (program, history) pairs whose trace record was compared between the reference interpreter and the compiled C (each in every configuration listed)",
		Extra: map[string]any{
			"families": fams, "programs_generated": generated, "programs_accepted": accepted,
			"interpreter_executions": s.executions.Load(), "interpreter_statements": s.steps.Load(),
			"executions_not_replayed_because_the_interpreter_found_a_safety_violation (C01)":                            s.notReplayed.Load(),
			"executions_whose_reader_position_is_not_compared (suspended inside a partially available multi-byte read)": s.maskedRI.Load(),
			"interpreter_executions_that_hit_the_step_limit (not replayed)":                                             s.hung.Load(),
			"executions_with_an_out_of_domain_argument (refined bound -/+ 1, type min / max, -1, NULL io)":              s.badArgExecs.Load(),
			"programs_left_out_because_an_iterate_body_assigns_to_its_iterate_variable":                                 iterateReassigned.Load(),
			"programs_not_run_after_two_watchdog_periods_in_their_batch":                                                s.notRun.Load(),
			"executions_ending_in_a_suspension":                                                                         s.suspendedExec.Load(),
			"programs_with_capped_exploration":                                                                          s.cappedProgs.Load(),
			"programs_whose_signature_the_driver_cannot_call":                                                           s.unsupported.Load(),
			"digest_mismatches": s.mismatches.Load(),
			"batches":           s.batches.Load(),
			"configurations":    cfgNames,
			"c_compile_seconds": s.compileSec,
			"pch_seconds":       s.tools.PchSeconds,
			"worker_seconds_by_phase": map[string]float64{"cgen": float64(s.phaseNs[0].Load()) / 1e9, "c_compile": float64(s.phaseNs[1].Load()) / 1e9,
				"interpreter_exploration": float64(s.phaseNs[2].Load()) / 1e9, "c_run_and_compare": float64(s.phaseNs[3].Load()) / 1e9},
			"exploration_caps":             s.opt,
			"harness_notes":                s.problems,
			"driver_process_death_samples": s.crashSamples,
			"cgen_rejections_sample":       s.genRejected,
			"c_compiler_rejections_sample": s.gccRejected,
		},
	}, []string{
		"E1 grammars only (no SIMD, pixel or token types, slices of u8 only); the iterate family is not built",
		"the reference interpreter implements the documented ideal-integer semantics (cross-checked against ConstValue() by C01); executions on which it finds a safety violation are C01's and are not replayed (the C behaviour is undefined there)",
		"public calls are also made with ONE argument outside its declared domain (refined bound -1 / +1, the base type's minimum and maximum, -1, a NULL io_buffer), first thing from the first 8 receiver states of every program; the expected outcome is the documented argument check of generated public methods (internal/cdrive CallEnveloped: the call is refused with \"#base: bad argument\" or the zero value, an impure receiver is disabled, nothing else changes; a disabled receiver refuses first); the receiver's DISABLED flag is part of every trace record; a driver death inside such a call is a violation (signature argcheck|type|bound)",
		"a history is replayed on the C side by memcpy-restoring the receiver state its prefix produced (Wuffs structs are plain data)",
		"not compared: bytes beyond wi of a writer, struct-typed fields, local variables; sanitizer reports are counted, not reported (C01), unless the traces differ as well",
		"quick compiles with gcc -O1 + ASan + UBSan (and -O2 plain for batches with a sanitizer report); thorough adds gcc -O2 and clang -O2 for every batch",
	})
}

// iterateVarReassigned reports whether some iterate block assigns to one of
// its own iterate variables (canonical layout: one statement per line).
func iterateVarReassigned(src string) bool {
	if !strings.Contains(src, "iterate (") {
		return false
	}
	var vars []string
	depth, inside := 0, false
	for _, ln := range strings.Split(src, "\n") {
		t := strings.TrimSpace(ln)
		if !inside && strings.HasPrefix(t, "iterate (") {
			inside, depth, vars = true, 0, nil
			head := t[len("iterate ("):]
			if i := strings.Index(head, ")("); i >= 0 {
				head = head[:i]
			}
			for _, a := range strings.Split(head, ",") {
				if j := strings.Index(a, "="); j > 0 {
					vars = append(vars, strings.TrimSpace(a[:j]))
				}
			}
		}
		if !inside {
			continue
		}
		for _, v := range vars {
			if strings.HasPrefix(t, v+" = ") || strings.HasPrefix(t, v+" =? ") {
				return true
			}
		}
		if strings.HasPrefix(t, "}") {
			depth--
		}
		if strings.HasSuffix(t, "{") {
			depth++
		}
		if depth == 0 && strings.HasPrefix(t, "}") && !strings.Contains(t, "else") {
			inside = false
		}
	}
	return false
}
