package main

import (
	"encoding/hex"
	"fmt"
	"hash/crc32"
	"time"

	"verif/internal/ev"
)

// hangWatch keeps a description of what each worker is doing so that a call
// that never returns can be reported with its witness.
type hangWatch struct {
	w    *ev.Watch
	desc []func() string
	wit  []func() any
	seq  []int64
}

func newHangWatch(r *ev.Run, workers int, finish func()) *hangWatch {
	h := &hangWatch{w: ev.NewWatch(workers), desc: make([]func() string, workers), wit: make([]func() any, workers), seq: make([]int64, workers)}
	h.w.Start(90*time.Second, 4<<30, func(worker int, id int64, why string) {
		d := "?"
		if f := h.desc[worker]; f != nil {
			d = f()
		}
		var wit any = d
		if f := h.wit[worker]; f != nil {
			wit = f()
		}
		r.Violation("hang-or-runaway-memory", fmt.Sprintf("call does not return / memory runaway (%s) during: %s", why, d), wit)
	}, finish)
	return h
}

func (h *hangWatch) set(worker int, desc func() string) {
	h.desc[worker] = desc
	h.wit[worker] = nil
	h.seq[worker]++
	h.w.EnterFast(worker, h.seq[worker])
}
func (h *hangWatch) clear(worker int) { h.w.Leave(worker) }

type robWitness struct {
	Kind     string `json:"kind"` // "robust"
	Format   string `json:"format"`
	Clause   string `json:"clause"`
	Mutation string `json:"mutation"`
	InputHex string `json:"input_hex"`
	Detail   string `json:"detail"`
}

const (
	boundMul   = 64
	boundConst = 64 << 10
)

type robStats struct {
	evals, nontrivial, accepted int64
	maxOut                      int64
	maxRatioNum, maxRatioDen    int64 // largest len(out)/len(in) seen for len(in) >= 18
	errs                        map[string]int64
	kinds                       map[string]int64
	errK, kindK                 map[errKey]int64
}

type errKey struct {
	f, s string
	data bool
}

// flush converts the cheap struct-keyed tallies into the printable histograms.
func (st *robStats) flush() {
	for k, v := range st.errK {
		n := k.f + ": " + k.s
		if k.data {
			n += " (with data)"
		}
		st.errs[n] += v
	}
	for k, v := range st.kindK {
		st.kinds[k.f+":"+k.s] += v
	}
	st.errK, st.kindK = map[errKey]int64{}, map[errKey]int64{}
}

func newRobStats() *robStats {
	return &robStats{errs: map[string]int64{}, kinds: map[string]int64{}, errK: map[errKey]int64{}, kindK: map[errKey]int64{}, maxRatioDen: 1}
}

// robustOne: Decode must return (no panic) with len(out) <= 64*len(in) + 64 KiB.
func robustOne(r *ev.Run, f format, in []byte, mutKind string, mutDescF func() string, buf *[]byte, st *robStats) {
	st.evals++
	out, _, err, pan := safeDecode(f, (*buf)[:0], in)
	if pan != "" || len(out) > boundMul*len(in)+boundConst {
		robustFail(r, f, in, mutKind, mutDescF(), len(out), pan)
		return
	}
	if cap(out) > cap(*buf) {
		*buf = out[:0]
	}
	robustTally(f, in, out, err, mutKind, st)
}

func robustFail(r *ev.Run, f format, in []byte, mutKind, mutDesc string, nOut int, pan string) {
	wit := func(clause, detail string) robWitness {
		return robWitness{"robust", f.name, clause, mutDesc, hex.EncodeToString(in), detail}
	}
	if pan != "" {
		r.Violation(f.name+":robust:panic:Decode:"+pan, fmt.Sprintf("%s.Decode panics (%s) on %s (family %s)", f.name, pan, mutDesc, mutKind), wit("panic", pan))
		return
	}
	r.Violation(f.name+":robust:output-bound", fmt.Sprintf("%s.Decode produced %d bytes from %d input bytes (> 64x+64KiB) on %s (family %s)", f.name, nOut, len(in), mutDesc, mutKind),
		wit("output-bound", fmt.Sprintf("%d bytes out", nOut)))
}

func robustTally(f format, in, out []byte, err error, mutKind string, st *robStats) {
	e := "ok"
	if err != nil {
		e = err.Error()
	} else {
		st.accepted++
	}
	if len(out) > 0 {
		st.nontrivial++
	}
	st.errK[errKey{f.name, e, len(out) > 0}]++
	st.kindK[errKey{f.name, mutKind, false}]++
	if int64(len(out)) > st.maxOut {
		st.maxOut = int64(len(out))
	}
	if len(in) >= 18 && int64(len(out))*st.maxRatioDen > st.maxRatioNum*int64(len(in)) {
		st.maxRatioNum, st.maxRatioDen = int64(len(out)), int64(len(in))
	}
}

// buildXz assembles an XZ file (one block, LZMA2 filter, CRC-32 check) around
// already-framed LZMA2 chunks; written from the .xz file format specification,
// independent of the package under test. Used for the two-chunk robustness seed.
func buildXz(chunks, payload []byte) []byte {
	le32 := func(b []byte, v uint32) []byte { return append(b, byte(v), byte(v>>8), byte(v>>16), byte(v>>24)) }
	uvar := func(b []byte, v uint64) []byte {
		for v >= 0x80 {
			b = append(b, byte(v)|0x80)
			v >>= 7
		}
		return append(b, byte(v))
	}
	out := []byte{0xFD, '7', 'z', 'X', 'Z', 0x00, 0x00, 0x01}
	out = le32(out, crc32.ChecksumIEEE(out[6:8]))
	bh := []byte{0x02, 0x00, 0x21, 0x01, 0x00, 0x00, 0x00, 0x00}
	blockStart := len(out)
	out = append(out, bh...)
	out = le32(out, crc32.ChecksumIEEE(bh))
	out = append(out, chunks...)
	out = append(out, 0x00)
	unpadded := uint64(len(out)-blockStart) + 4
	for (len(out)-blockStart)&3 != 0 {
		out = append(out, 0)
	}
	out = le32(out, crc32.ChecksumIEEE(payload))
	idx := []byte{0x00, 0x01}
	idx = uvar(idx, unpadded)
	idx = uvar(idx, uint64(len(payload)))
	for len(idx)&3 != 0 {
		idx = append(idx, 0)
	}
	idx = le32(idx, crc32.ChecksumIEEE(idx))
	out = append(out, idx...)
	ft := le32(nil, uint32(len(idx)/4-1))
	ft = append(ft, 0x00, 0x01)
	out = le32(out, crc32.ChecksumIEEE(ft))
	out = append(out, ft...)
	return append(out, 'Y', 'Z')
}

type seed struct {
	name  string
	f     format
	enc   []byte
	extra bool // thorough-only seed (no distant-pair family)
	heavy bool // one Decode costs ~0.3 ms: single-byte families only
}

func robustSeeds(r *ev.Run, thorough bool) []seed {
	pls := []struct {
		name string
		sp   spec
	}{
		{"empty", spec{Hex: "", Len: 0}},
		{"one-byte", spec{Hex: "61", Len: 1}},
		{"zeros20", spec{Pattern: "00", Len: 20}},
		{"abc3-9", spec{Hex: "005affffff5a00ff5a", Len: 9}},
		{"FFx200", spec{Pattern: "FF", Len: 200}},
		{"lcg16x150", spec{Pattern: "lcg16", Len: 150}},
		{"cycle256x240", spec{Pattern: "cycle256", Len: 240}},
		{"FF00x64", spec{Pattern: "FF00", Len: 64}},
		// highly compressible: with its size field enlarged this is the input that
		// drives len(out)/len(in) towards the theoretical ceiling of the bound
		{"zeros8000", spec{Pattern: "00", Len: 8000}},
	}
	nBase := len(pls)
	if thorough {
		pls = append(pls, []struct {
			name string
			sp   spec
		}{
			{"lcgx100", spec{Pattern: "lcg", Len: 100}},
			{"zeros127", spec{Pattern: "00", Len: 127}},
			{"lcg16x128", spec{Pattern: "lcg16", Len: 128}},
			{"lcg16x300", spec{Pattern: "lcg16", Len: 300}},
		}...)
	}
	var seeds []seed
	for _, f := range formats {
		for pi, p := range pls {
			enc, err, pan := safeEncode(f, nil, p.sp.bytes())
			if err != nil || pan != "" {
				r.Add("robust_seed_encode_failed", 1)
				continue // reported by the round-trip family
			}
			seeds = append(seeds, seed{p.name, f, enc, pi >= nBase, p.sp.Len > 1000})
		}
	}
	// A valid two-chunk XZ file below 300 bytes cannot come from Encode (it
	// splits at 64 KiB only); splice the chunk regions of two encodings.
	xf := formats[1]
	pa, pb := spec{Pattern: "cycle256", Len: 40}.bytes(), spec{Pattern: "00", Len: 60}.bytes()
	ea, _, pan1 := safeEncode(xf, nil, pa)
	eb, _, pan2 := safeEncode(xf, nil, pb)
	if pan1 == "" && pan2 == "" {
		sa, sb := walkXz(ea), walkXz(eb)
		if sa.ok && sb.ok {
			chunks := append(append([]byte{}, ea[24:sa.chunksEnd]...), eb[24:sb.chunksEnd]...)
			both := append(append([]byte{}, pa...), pb...)
			file := buildXz(chunks, both)
			out, rem, err, pan := safeDecode(xf, nil, file)
			if pan == "" && err == nil && len(rem) == 0 && string(out) == string(both) {
				seeds = append(seeds, seed{"two-chunks(raw+lzma)", xf, file, false, false})
				r.Add("robust_two_chunk_seed_accepted_by_Decode", 1)
			} else {
				r.Add("robust_two_chunk_seed_not_accepted_by_Decode(dropped)", 1)
			}
		}
	}
	return seeds
}

func runRobust(r *ev.Run, hw *hangWatch, thorough bool) *robStats {
	seeds := robustSeeds(r, thorough)
	type unit struct {
		kind string // "short" | "truncate" | "replace" | "insert" | "delete" | "replace2" | "pair"
		f    format
		s    int // seed index
		pos  int // first byte for "short"; position otherwise
	}
	var units []unit
	for _, f := range formats {
		for b := -1; b < 256; b++ {
			units = append(units, unit{"short", f, -1, b})
		}
	}
	for si, s := range seeds {
		r.Sample(map[string]any{"robustness_seed": s.name, "format": s.f.name, "encoded_len": len(s.enc), "encoded_hex_prefix": hex.EncodeToString(s.enc[:min(len(s.enc), 40)])})
		units = append(units, unit{"truncate", s.f, si, 0}, unit{"delete", s.f, si, 0})
		for p := range s.enc {
			units = append(units, unit{"replace", s.f, si, p}, unit{"insert", s.f, si, p})
			if p+1 < len(s.enc) && (!s.heavy || thorough) {
				units = append(units, unit{"replace2", s.f, si, p})
			}
			if thorough && !s.extra && !s.heavy {
				units = append(units, unit{"pair", s.f, si, p})
			}
		}
		units = append(units, unit{"insert", s.f, si, len(s.enc)})
	}
	r.Add("robust_seeds", int64(len(seeds)))
	total := newRobStats()
	workers := ev.Workers()
	locals := make([]*robStats, workers)
	bufs := make([][]byte, workers)
	ev.ParFor(len(units), func(w, ui int) {
		if r.Expired() {
			return
		}
		if locals[w] == nil {
			locals[w] = newRobStats()
		}
		st := locals[w]
		u := units[ui]
		var cur []byte
		var s seed
		if u.s >= 0 {
			s = seeds[u.s]
		}
		what := ""
		desc := func() string {
			if u.s < 0 {
				return fmt.Sprintf("the %d-byte string %x", len(cur), cur)
			}
			return fmt.Sprintf("Encode(%s) [%d bytes] %s", s.name, len(s.enc), what)
		}
		hw.set(w, func() string { return fmt.Sprintf("%s.Decode of %s input %x", u.f.name, u.kind, cur) })
		hw.wit[w] = func() any {
			return robWitness{"robust", u.f.name, "hang", u.kind, hex.EncodeToString(cur), "does not return"}
		}
		defer hw.clear(w)
		// the watchdog looks for ONE Decode call that does not return: new id per call
		one := func(kind string) {
			hw.seq[w]++
			hw.w.EnterFast(w, hw.seq[w])
			robustOne(r, u.f, cur, kind, desc, &bufs[w], st)
		}
		switch u.kind {
		case "short":
			if u.pos < 0 {
				cur = []byte{}
				one("short-string")
				return
			}
			cur = []byte{byte(u.pos)}
			one("short-string")
			cur = []byte{byte(u.pos), 0}
			for b := 0; b < 256; b++ {
				cur[1] = byte(b)
				one("short-string")
			}
		case "truncate":
			for k := 0; k < len(s.enc); k++ {
				cur = s.enc[:k]
				what = fmt.Sprintf("truncated to %d bytes", k)
				one("truncate")
			}
		case "delete":
			for k := 0; k < len(s.enc); k++ {
				cur = append(append(cur[:0], s.enc[:k]...), s.enc[k+1:]...)
				what = fmt.Sprintf("with byte %d deleted", k)
				one("delete-1-byte")
			}
		case "replace":
			cur = append([]byte{}, s.enc...)
			kind := "replace-1-byte:" + region(u.f, s.enc, u.pos)
			what = fmt.Sprintf("with byte %d replaced", u.pos)
			for v := 0; v < 256; v++ {
				if byte(v) == s.enc[u.pos] {
					continue
				}
				cur[u.pos] = byte(v)
				one(kind)
			}
		case "insert":
			cur = make([]byte, len(s.enc)+1)
			copy(cur, s.enc[:u.pos])
			copy(cur[u.pos+1:], s.enc[u.pos:])
			what = fmt.Sprintf("with one byte inserted before offset %d", u.pos)
			for v := 0; v < 256; v++ {
				cur[u.pos] = byte(v)
				one("insert-1-byte")
			}
		case "replace2":
			// every value pair at two adjacent positions (both changed)
			cur = append([]byte{}, s.enc...)
			kind := "replace-2-adjacent-bytes:" + region(u.f, s.enc, u.pos)
			what = fmt.Sprintf("with bytes %d,%d replaced", u.pos, u.pos+1)
			for v2 := 0; v2 < 256; v2++ {
				if byte(v2) == s.enc[u.pos+1] {
					continue
				}
				cur[u.pos+1] = byte(v2)
				for v := 0; v < 256; v++ {
					if byte(v) == s.enc[u.pos] {
						continue
					}
					cur[u.pos] = byte(v)
					one(kind)
				}
			}
		case "pair":
			// thorough: position pos and every later non-adjacent position, marker values
			cur = append([]byte{}, s.enc...)
			kind := "replace-2-distant-bytes:" + region(u.f, s.enc, u.pos)
			for q := u.pos + 2; q < len(s.enc); q++ {
				what = fmt.Sprintf("with bytes %d,%d replaced", u.pos, q)
				for _, v := range markers {
					if v == s.enc[u.pos] {
						continue
					}
					cur[u.pos] = v
					for _, v2 := range markers {
						if v2 == s.enc[q] {
							continue
						}
						cur[q] = v2
						one(kind)
					}
				}
				cur[q] = s.enc[q]
			}
		}
	})
	for _, st := range locals {
		if st == nil {
			continue
		}
		st.flush()
		total.evals += st.evals
		total.nontrivial += st.nontrivial
		total.accepted += st.accepted
		if st.maxOut > total.maxOut {
			total.maxOut = st.maxOut
		}
		if st.maxRatioNum*total.maxRatioDen > total.maxRatioNum*st.maxRatioDen {
			total.maxRatioNum, total.maxRatioDen = st.maxRatioNum, st.maxRatioDen
		}
		for k, v := range st.errs {
			total.errs[k] += v
		}
		for k, v := range st.kinds {
			total.kinds[k] += v
		}
	}
	return total
}

var markers = []byte{0x00, 0x01, 0x02, 0x5D, 0x7F, 0x80, 0xE0, 0xFF}

// region names the part of the file a position falls in (signature shape).
func region(f format, enc []byte, pos int) string {
	if f.name == "LZMA" {
		switch {
		case pos < 5:
			return "props"
		case pos < 13:
			return "size-field"
		}
		return "range-coded-data"
	}
	sh := walkXz(enc)
	switch {
	case pos < 24:
		return "headers"
	case !sh.ok:
		return "body"
	case pos < sh.chunksEnd:
		for _, o := range sh.chunkOffs {
			if pos >= o && pos < o+3 || (enc[o] >= 0x80 && pos >= o && pos < o+6) {
				return "chunk-header"
			}
		}
		return "chunk-data"
	case pos == sh.chunksEnd:
		return "end-marker"
	case pos < len(enc)-12:
		return "padding-crc-index"
	}
	return "footer"
}
