package main

import (
	"bytes"
	"fmt"
	"os"
	"os/exec"
	"path/filepath"
	"strings"
	"sync/atomic"

	"verif/internal/ev"
)

// xzTool wraps the system `xz` as the independent full LZMA/XZ decoder.
// Files are written to scratch and decoded many-per-process:
//
//	xz -dc --format=lzma|xz -- f0 f1 ... fN
//
// stdout is the concatenation of the decodings and is split by the known
// payload lengths. Only a failing batch is re-run file by file.
type xzTool struct {
	path    string
	version string
	procs   atomic.Int64
}

func findXz() *xzTool {
	p, err := exec.LookPath("xz")
	if err != nil {
		return nil
	}
	x := &xzTool{path: p}
	out, err := x.cmd("", "--version").Output()
	if err != nil {
		return nil
	}
	x.version = strings.ReplaceAll(strings.TrimSpace(string(out)), "\n", "; ")
	return x
}

func (x *xzTool) cmd(dir string, args ...string) *exec.Cmd {
	c := exec.Command(x.path, args...)
	c.Dir = dir
	// no XZ_DEFAULTS / XZ_OPT from the caller's environment
	c.Env = []string{"PATH=" + os.Getenv("PATH"), "LC_ALL=C", "LANG=C"}
	x.procs.Add(1)
	return c
}

type xzResult struct {
	stdout []byte
	stderr string
	ok     bool // exit status 0
}

func (x *xzTool) decode(format, dir string, names []string) xzResult {
	args := append([]string{"-dc", "--format=" + format, "--"}, names...)
	c := x.cmd(dir, args...)
	var so, se bytes.Buffer
	c.Stdout, c.Stderr = &so, &se
	err := c.Run()
	msg := se.String()
	if len(msg) > 400 {
		msg = msg[:400]
	}
	return xzResult{so.Bytes(), strings.TrimSpace(msg), err == nil}
}

// verdict for one file of a batch
type xzVerdict struct {
	idx    int
	clause string // "xz-tool:rejected" | "xz-tool:bytes-differ"
	detail string
}

// checkBatch decodes files (already written in dir) and compares with want.
// Returns nil when every file decodes to exactly its payload.
func (x *xzTool) checkBatch(format, dir string, names []string, want [][]byte, maxReport int) []xzVerdict {
	res := x.decode(format, dir, names)
	total := 0
	for _, w := range want {
		total += len(w)
	}
	if res.ok && len(res.stdout) == total {
		off, same := 0, true
		for _, w := range want {
			if !bytes.Equal(res.stdout[off:off+len(w)], w) {
				same = false
				break
			}
			off += len(w)
		}
		if same {
			return nil
		}
	}
	// Localise: one process per file, until maxReport culprits are known.
	var out []xzVerdict
	for i, n := range names {
		r := x.decode(format, dir, []string{n})
		if !r.ok {
			out = append(out, xzVerdict{i, "xz-tool:rejected", fmt.Sprintf("xz exit!=0, stderr=%q, %d bytes of output", r.stderr, len(r.stdout))})
		} else if !bytes.Equal(r.stdout, want[i]) {
			out = append(out, xzVerdict{i, "xz-tool:bytes-differ", fmt.Sprintf("xz printed %d bytes, payload has %d", len(r.stdout), len(want[i]))})
		}
		if len(out) >= maxReport {
			break
		}
	}
	if len(out) == 0 {
		// batch failed, every file alone is fine: our splitting/batching is wrong
		ev.Fatal("xz batch of %d %s files failed (ok=%v stderr=%q) but each file alone decodes correctly", len(names), format, res.ok, res.stderr)
	}
	return out
}

// selfCheck validates the oracle plumbing with files made by xz itself: the
// batch split is right, and xz does reject a damaged .xz / an .lzma with
// trailing bytes (so "accepted" means something).
func (x *xzTool) selfCheck(scratch string) {
	dir := filepath.Join(scratch, "xzself")
	os.MkdirAll(dir, 0o755)
	defer os.RemoveAll(dir)
	p1 := spec{Pattern: "lcg16", Len: 3000}.bytes()
	p2 := []byte("hello, literal-only world\n")
	mk := func(format string, p []byte) []byte {
		c := x.cmd(dir, "-zc", "--format="+format)
		c.Stdin = bytes.NewReader(p)
		out, err := c.Output()
		if err != nil {
			ev.Fatal("xz self-check: cannot compress with --format=%s: %v", format, err)
		}
		return out
	}
	for _, f := range []string{"lzma", "xz"} {
		a, b := mk(f, p1), mk(f, p2)
		bad := append([]byte{}, a...)
		if f == "xz" {
			bad[len(bad)/2] ^= 0x40
		} else {
			bad = append(bad, 0x00)
		}
		os.WriteFile(filepath.Join(dir, "a."+f), a, 0o644)
		os.WriteFile(filepath.Join(dir, "b."+f), b, 0o644)
		os.WriteFile(filepath.Join(dir, "bad."+f), bad, 0o644)
		if v := x.checkBatch(f, dir, []string{"a." + f, "b." + f, "a." + f}, [][]byte{p1, p2, p1}, 9); v != nil {
			ev.Fatal("xz self-check: files made by xz itself are not decoded back by the batch runner: %+v", v)
		}
		r := x.decode(f, dir, []string{"a." + f, "bad." + f, "b." + f})
		if r.ok {
			ev.Fatal("xz self-check: xz accepted a damaged %s file (exit 0)", f)
		}
		r = x.decode(f, dir, []string{"bad." + f})
		if r.ok {
			ev.Fatal("xz self-check: xz accepted a damaged %s file alone (exit 0)", f)
		}
	}
}
