package main

// Mechanism meters (vacuity guards), NOT oracles.
//
// modelEncode is a literal-only LZMA range encoder written from the LZMA
// specification in the LZMA-SDK style (64-bit low, cache, cacheSize) and
// instrumented to count the carry / pending-0xFF events of shiftLow. Where its
// output is byte-identical to the code's (counted, never demanded), the event
// counts describe what the code under test went through.

type rcStats struct {
	shifts        int64 // shiftLow calls
	pendingGrow   int64 // low in 0xFF000000..0xFFFFFFFF: a 0xFF is held back
	carry         int64 // low overflowed 32 bits
	carryPending  int64 // carry while at least one 0xFF was pending (the 3999->4000 flip)
	carryPending2 int64 // carry while two or more 0xFF were pending
	maxPendingRun int64
}

type modelRC struct {
	out       []byte
	low       uint64
	rng       uint32
	cache     byte
	cacheSize int64
	st        *rcStats
}

func (rc *modelRC) shiftLow() {
	rc.st.shifts++
	if uint32(rc.low) < 0xFF000000 || (rc.low>>32) != 0 {
		carry := byte(rc.low >> 32)
		if carry != 0 {
			rc.st.carry++
			if rc.cacheSize > 1 {
				rc.st.carryPending++
			}
			if rc.cacheSize > 2 {
				rc.st.carryPending2++
			}
		}
		tmp := rc.cache
		for {
			rc.out = append(rc.out, tmp+carry)
			tmp = 0xFF
			rc.cacheSize--
			if rc.cacheSize == 0 {
				break
			}
		}
		rc.cache = byte(rc.low >> 24)
	} else {
		rc.st.pendingGrow++
	}
	rc.cacheSize++
	if rc.cacheSize-1 > rc.st.maxPendingRun {
		rc.st.maxPendingRun = rc.cacheSize - 1
	}
	rc.low = (rc.low & 0x00FFFFFF) << 8
}

func (rc *modelRC) bit(p *uint16, b uint32) {
	bound := (rc.rng >> 11) * uint32(*p)
	if b == 0 {
		rc.rng = bound
		*p += (2048 - *p) >> 5
	} else {
		rc.low += uint64(bound)
		rc.rng -= bound
		*p -= *p >> 5
	}
	for rc.rng < 1<<24 {
		rc.rng <<= 8
		rc.shiftLow()
	}
}

func modelEncode(src []byte, st *rcStats) []byte {
	rc := &modelRC{rng: 0xFFFFFFFF, cacheSize: 1, st: st}
	var isMatch [4]uint16
	var lit [8][0x300]uint16
	for i := range isMatch {
		isMatch[i] = 1024
	}
	for i := range lit {
		for j := range lit[i] {
			lit[i][j] = 1024
		}
	}
	prev := byte(0)
	for pos, c := range src {
		rc.bit(&isMatch[pos&3], 0)
		probs := &lit[prev>>5]
		sym := uint32(1)
		for i := 7; i >= 0; i-- {
			b := (uint32(c) >> uint(i)) & 1
			rc.bit(&probs[sym], b)
			sym = sym<<1 | b
		}
		prev = c
	}
	for i := 0; i < 5; i++ {
		rc.shiftLow()
	}
	return rc.out
}

// xzShape is what walkXz reads off an encoded XZ file (chunk kinds, padding,
// varint widths); used only for histograms.
type xzShape struct {
	ok        bool
	rawChunks int
	lzChunks  int
	blockPad  int
	idxPad    int
	uvar1     int // bytes of the Unpadded Size varint
	uvar2     int // bytes of the Uncompressed Size varint
	lzBodies  [][]byte
	lzSizes   []int // uncompressed size of each LZMA chunk
	chunkOffs []int // offset of every chunk header
	chunksEnd int   // offset of the 0x00 end-of-chunks marker
}

func walkXz(b []byte) (s xzShape) {
	if len(b) < 24 {
		return
	}
	p := 24
	for {
		if p >= len(b) {
			return
		}
		c := b[p]
		if c == 0x00 {
			s.chunksEnd = p
			p++
			break
		} else if c == 0x01 {
			if p+3 > len(b) {
				return
			}
			n := (int(b[p+1])<<8 | int(b[p+2])) + 1
			s.chunkOffs = append(s.chunkOffs, p)
			p += 3 + n
			s.rawChunks++
		} else if c >= 0x80 {
			if p+6 > len(b) {
				return
			}
			n := (int(b[p+3])<<8 | int(b[p+4])) + 1
			if p+6+n > len(b) {
				return
			}
			s.lzBodies = append(s.lzBodies, b[p+6:p+6+n])
			s.lzSizes = append(s.lzSizes, (int(b[p+1])<<8|int(b[p+2]))+1)
			s.chunkOffs = append(s.chunkOffs, p)
			p += 6 + n
			s.lzChunks++
		} else {
			return
		}
	}
	for (p-12)&3 != 0 {
		p++
		s.blockPad++
	}
	p += 4 // CRC-32 of the data
	i0 := p
	p += 2
	uv := func() int {
		n := 0
		for p < len(b) {
			n++
			p++
			if b[p-1]&0x80 == 0 {
				break
			}
		}
		return n
	}
	s.uvar1 = uv()
	s.uvar2 = uv()
	for (p-i0)&3 != 0 {
		p++
		s.idxPad++
	}
	p += 4 + 12
	s.ok = p == len(b)
	return
}
