// C17: literal-only LZMA/XZ (lib/litonlylzma): lossless round trip, conformant
// output, total decoder.
//
//	(1) Round trip: every payload over {0x00,0x5A,0xFF} of length <= 8 (quick) /
//	    9 (thorough) and the structured long payloads (lengths around every
//	    chunk / varint / padding boundary x 6 patterns) x {LZMA, XZ}:
//	    Decode(Encode(p)) == p, no error, empty remainder.
//	(2) Conformance: the same encodings are decoded by the system xz tool
//	    (`xz -dc --format=lzma|xz`, <= 500 files per process) and must give p.
//	    No xz in PATH => the sub-family is reported as SKIPPED, not as passed.
//	    The Wuffs std/lzma + std/xz C decoders are NOT cross-checked here: see
//	    hookWuffsDecoders (to be filled in by the C-level engine).
//	(3) Robustness: every byte string of length <= 2, every single-byte
//	    replacement and every truncation of the encoded seeds: Decode returns
//	    (no panic, no hang) and len(out) <= 64*len(in) + 64 KiB.
package main

import (
	"bytes"
	"encoding/hex"
	"encoding/json"
	"fmt"
	"os"
	"path/filepath"
	"sort"
	"time"
	"verif/internal/cserve"

	"verif/internal/ev"
)

func scratchDir() (dir string, cleanup func()) {
	base := os.Getenv("VERIF_SCRATCH")
	if base == "" {
		base = fmt.Sprintf("/dev/shm/verif-c17.%d", os.Getpid())
	}
	dir = filepath.Join(base, "c17")
	if err := os.MkdirAll(dir, 0o755); err != nil {
		ev.Fatal("scratch: %v", err)
	}
	return dir, func() {
		os.RemoveAll(dir)
		if os.Getenv("VERIF_SCRATCH") == "" {
			os.RemoveAll(base)
		}
	}
}

func main() {
	if len(os.Args) > 2 && os.Args[1] == "replay" {
		replay(os.Args[2])
		return
	}
	r := ev.Start("C17", "exploration")
	r.SetBudget(8*time.Minute, 45*time.Minute)
	scratch, cleanup := scratchDir()
	maxLen := 8
	if r.Thorough() {
		maxLen = 9
	}
	xz := findXz()
	sub := map[string]string{"round_trip": "run", "robustness": "run",
		"wuffs_c_decoders(std/lzma,std/xz)": "not run (VERIF_C17_NO_WUFFS_C set)"}
	if xz == nil {
		fmt.Println("C17: sub-family xz-tool SKIPPED: no `xz` in PATH (conformance against an independent decoder was NOT checked)")
		sub["xz_tool"] = "SKIPPED: no xz in PATH"
	} else {
		xz.selfCheck(scratch)
		sub["xz_tool"] = "run: " + xz.path + " (" + xz.version + ")"
	}

	// Wuffs std/lzma + std/xz, generated from the working tree and compiled fresh (engine E4)
	if os.Getenv("VERIF_C17_NO_WUFFS_C") == "" {
		b, err := cserve.Build(scratch, []string{cserve.Plain}, []string{"lzma", "xz"})
		if err != nil {
			ev.Fatal("building the generated std/lzma + std/xz decoders failed: %v", err)
		}
		srvs, err := b.StartN(cserve.Plain, ev.Workers())
		if err != nil {
			ev.Fatal("starting the C state servers failed: %v", err)
		}
		wuffsSrv = srvs
		defer func() {
			for _, s := range srvs {
				s.Close()
			}
		}()
		sub["wuffs_c_decoders(std/lzma,std/xz)"] = fmt.Sprintf("run: C generated from the working tree in %.1fs, compiled in %.1fs (gcc -O2), %d server processes", b.GenSeconds, b.CompileSeconds[cserve.Plain], len(srvs))
	}

	var rt1, rt2 rtStats
	var rob *robStats
	finished := false
	finish := func() {
		cleanup()
		cov := ev.Coverage{
			Evaluations:        rt1.evals + rt2.evals,
			DistinctNontrivial: rt1.nontrivial + rt2.nontrivial,
			Exhaustive:         finished,
			Extra:              map[string]any{"subfamilies": sub, "short_payload_max_len": maxLen},
		}
		if rob != nil {
			cov.Evaluations += rob.evals
			cov.DistinctNontrivial += rob.nontrivial
		}
		cov.Rule = fmt.Sprintf("evaluations = (payload, format) round trips [each also decoded by the xz tool when present] + robustness Decode calls. "+
			"Payloads: every string over {00,5A,FF} of length <= %d; patterns %v x lengths 0..%d, 16376..16392, 65530..65540, 131066..131078, 196607..196609, 200000%s; x {LZMA, XZ}. "+
			"Robustness inputs: every byte string of length <= 2; for each seed encoding every truncation, single-byte deletion, single-byte insertion (256 values), single-byte replacement and every replacement of two adjacent bytes (255x255 values; the 8000-zero seed %s)%s. "+
			"distinct_nontrivial = round trips of a NON-EMPTY payload that held (all payloads are distinct) + robustness inputs on which Decode produced at least one byte of output "+
			"(i.e. got past the header checks into the range decoder / a raw chunk).", maxLen, patterns, map[bool]int{true: 4200, false: 1100}[r.Thorough()],
			map[bool]string{true: ", 262143..262145, 1048575..1048577, 2097150..2097154", false: ""}[r.Thorough()],
			map[bool]string{true: "included", false: "only in the single-byte families"}[r.Thorough()],
			map[bool]string{true: " and every replacement of two non-adjacent bytes by marker values {00,01,02,5D,7F,80,E0,FF}", false: ""}[r.Thorough()])
		as := []string{
			"the xz tool (XZ Utils / liblzma) is the independent full LZMA/XZ decoder; its batch use is validated at start with files xz made itself (accept, split, reject-damaged)",
			"the generated Wuffs std/lzma and std/xz C decoders (fresh C from the working tree, gcc -O2, through the C state server) decode every encoding of a payload <= 300000 bytes: status ok, all input consumed, output == payload",
			"the instrumented model range encoder and the XZ walker are meters only (carry / chunk-kind / padding histograms); they never raise a violation",
			"Encode(dst,..)/Decode(dst,..) with a non-empty dst are required to append (API doc), checked with one fixed 8-byte prefix",
			"output bound 64*len(in)+64KiB as derived in DESIGN (theoretical ceiling ~41x for 11-bit adaptive probabilities)",
		}
		r.Finish(cov, as)
	}
	hw := newHangWatch(r, ev.Workers(), finish)

	t0 := time.Now()
	phase := func(n string) { r.Add("phase_ms_"+n, time.Since(t0).Milliseconds()); t0 = time.Now() }

	// (1)+(2) short payloads, exhaustive
	nShort := shortCount(maxLen)
	const per = 500
	rt1 = runBatches(r, xz, scratch, hw, (nShort+per-1)/per, func(b int) []spec {
		var out []spec
		for i := b * per; i < nShort && i < (b+1)*per; i++ {
			p := shortBytes(i)
			out = append(out, spec{Hex: hex.EncodeToString(p), Len: len(p)})
		}
		return out
	}, "short")
	rt1.publish(r, "short")
	r.Add("short_payloads", int64(nShort))
	phase("short")

	// (1)+(2) structured long payloads; batches of <= 500 files and <= 24 MiB
	var all []spec
	for _, n := range longLengths(r.Thorough()) {
		for _, p := range patterns {
			all = append(all, spec{Pattern: p, Len: n})
		}
	}
	var batches [][]spec
	sz := 0
	var cur []spec
	for _, s := range all {
		if len(cur) >= per || (sz+s.Len > 24<<20 && len(cur) > 0) {
			batches = append(batches, cur)
			cur, sz = nil, 0
		}
		cur = append(cur, s)
		sz += s.Len
	}
	if len(cur) > 0 {
		batches = append(batches, cur)
	}
	// big batches first (ParFor interleaves statically)
	sort.SliceStable(batches, func(i, j int) bool { return batchBytes(batches[i]) > batchBytes(batches[j]) })
	rt2 = runBatches(r, xz, scratch, hw, len(batches), func(b int) []spec { return batches[b] }, "long")
	rt2.publish(r, "long")
	r.Add("long_payloads", int64(len(all)))
	phase("long")
	r.Sample(map[string]any{"payload": "hex:00ff5aff", "formats": "LZMA,XZ", "note": "one of the enumerated short payloads"})
	r.Sample(map[string]any{"payload": "lcg16 x 131073", "formats": "LZMA,XZ", "note": "three chunks, LZMA-compressed chunks with carries through pending 0xFF runs"})
	r.Sample(map[string]any{"payload": "FF x 65536", "formats": "LZMA,XZ", "note": "exactly one full chunk of 0xFF"})

	// (3) robustness
	rob = runRobust(r, hw, r.Thorough())
	r.Add("robust_decode_calls", rob.evals)
	r.Add("robust_inputs_accepted_without_error", rob.accepted)
	r.Add("robust_inputs_with_output", rob.nontrivial)
	r.Add("robust_max_output_bytes", rob.maxOut)
	r.Add("robust_max_ratio_out_per_1000_in_bytes(len>=18)", rob.maxRatioNum*1000/rob.maxRatioDen)
	r.MergeHist("robust_outcomes", rob.errs)
	r.MergeHist("robust_mutation_kinds", rob.kinds)
	phase("robust")
	if xz != nil {
		r.Add("xz_processes_spawned", xz.procs.Load())
	}
	finished = !r.Capped()
	finish()
}

func batchBytes(b []spec) int {
	n := 0
	for _, s := range b {
		n += s.Len
	}
	return n
}

// replay re-executes one recorded witness linearly and prints what it observes.
func replay(path string) {
	b, err := os.ReadFile(path)
	if err != nil {
		ev.Fatal("%v", err)
	}
	var doc struct {
		Signature string          `json:"signature"`
		Witness   json.RawMessage `json:"witness"`
	}
	if err := json.Unmarshal(b, &doc); err != nil {
		ev.Fatal("replay file: %v", err)
	}
	var k struct {
		Kind string `json:"kind"`
	}
	json.Unmarshal(doc.Witness, &k)
	fmt.Printf("replaying %s\n signature: %s\n", path, doc.Signature)
	reproduced := false
	go func() {
		time.Sleep(60 * time.Second)
		fmt.Println(" still running after 60 s: hang reproduced")
		os.Exit(1)
	}()
	switch k.Kind {
	case "roundtrip":
		var w rtWitness
		json.Unmarshal(doc.Witness, &w)
		f := formatByName(w.Format)
		p := w.Payload.bytes()
		fmt.Printf(" format=%s payload=%s (%d bytes) recorded clause=%s\n", w.Format, w.Payload, len(p), w.Clause)
		enc, err, pan := safeEncode(f, nil, p)
		fmt.Printf(" Encode: %d bytes err=%v panic=%q\n", len(enc), err, pan)
		if len(enc) <= 96 {
			fmt.Printf("  encoded: %x\n", enc)
		}
		if err != nil || pan != "" {
			reproduced = true
			break
		}
		out, rem, err, pan := safeDecode(f, nil, enc)
		fmt.Printf(" Decode(Encode(p)): %d bytes err=%v panic=%q equal=%v remainder=%d bytes\n", len(out), err, pan, bytes.Equal(out, p), len(rem))
		if err != nil || pan != "" || !bytes.Equal(out, p) || len(rem) != 0 {
			reproduced = true
		}
		enc2, err2, pan2 := safeEncode(f, append([]byte{}, dstPrefix...), p)
		out2, rem2, err3, pan3 := safeDecode(f, append([]byte{}, dstPrefix...), enc)
		appOK := pan2 == "" && pan3 == "" && err2 == nil && err3 == nil && len(rem2) == 0 &&
			bytes.Equal(enc2, append(append([]byte{}, dstPrefix...), enc...)) && bytes.Equal(out2, append(append([]byte{}, dstPrefix...), p...))
		fmt.Printf(" append-to-dst forms consistent=%v\n", appOK)
		if !appOK && err == nil {
			reproduced = true
		}
		if xz := findXz(); xz != nil {
			scratch, cleanup := scratchDir()
			name := "replay." + f.xzFmt
			os.WriteFile(filepath.Join(scratch, name), enc, 0o644)
			res := xz.decode(f.xzFmt, scratch, []string{name})
			cleanup()
			fmt.Printf(" xz -dc --format=%s: exit-ok=%v stdout=%d bytes equal=%v stderr=%q\n", f.xzFmt, res.ok, len(res.stdout), bytes.Equal(res.stdout, p), res.stderr)
			if !res.ok || !bytes.Equal(res.stdout, p) {
				reproduced = true
			}
		} else {
			fmt.Println(" xz not in PATH: tool comparison skipped")
		}
	case "robust":
		var w robWitness
		json.Unmarshal(doc.Witness, &w)
		f := formatByName(w.Format)
		in, _ := hex.DecodeString(w.InputHex)
		fmt.Printf(" format=%s input=%d bytes (%s) recorded clause=%s\n", w.Format, len(in), w.Mutation, w.Clause)
		out, rem, err, pan := safeDecode(f, nil, in)
		bound := boundMul*len(in) + boundConst
		fmt.Printf(" Decode: %d bytes out (bound %d) remainder=%d err=%v panic=%q\n", len(out), bound, len(rem), err, pan)
		reproduced = pan != "" || len(out) > bound
	default:
		ev.Fatal("replay: unknown witness kind %q", k.Kind)
	}
	fmt.Printf(" violation reproduced=%v\n", reproduced)
	if reproduced {
		os.Exit(1)
	}
}
