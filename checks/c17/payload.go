package main

import (
	"encoding/hex"
	"fmt"
)

// spec names a payload reproducibly: either literal bytes (hex) or a
// (pattern, length) pair for the structured long payloads.
type spec struct {
	Hex     string `json:"hex,omitempty"`
	Pattern string `json:"pattern,omitempty"`
	Len     int    `json:"len"`
}

var alphabet3 = []byte{0x00, 0x5A, 0xFF}

// patterns of DESIGN C17 plus "lcg16" (an LCG over 16 byte values that include
// 0xFF): compressible, so the XZ encoder emits LZMA chunks for it, yet with
// enough entropy to produce many shiftLow carry / pending-0xFF events.
var patterns = []string{"00", "FF", "FF00", "cycle256", "lcg", "lcg16"}

func (s spec) bytes() []byte {
	if s.Pattern == "" {
		b, err := hex.DecodeString(s.Hex)
		if err != nil {
			panic("bad spec hex")
		}
		return b
	}
	b := make([]byte, s.Len)
	x := uint32(0x12345678)
	for i := range b {
		switch s.Pattern {
		case "00":
			b[i] = 0x00
		case "FF":
			b[i] = 0xFF
		case "FF00":
			if i&1 == 0 {
				b[i] = 0xFF
			}
		case "cycle256":
			b[i] = byte(i)
		case "lcg":
			x = x*1664525 + 1013904223
			b[i] = byte(x >> 24)
		case "lcg16":
			x = x*1664525 + 1013904223
			b[i] = byte(x>>28) * 0x11
		default:
			panic("unknown pattern " + s.Pattern)
		}
	}
	return b
}

func (s spec) String() string {
	if s.Pattern != "" {
		return fmt.Sprintf("%s x %d", s.Pattern, s.Len)
	}
	return "hex:" + s.Hex
}

// class abstracts a payload for violation signatures: its length class (the
// mechanisms of the property are keyed on length: empty, below one chunk,
// exactly one chunk, multi-chunk). The byte pattern is left to the witness so
// that one defect gives one signature per clause.
func (s spec) class() string {
	n := s.Len
	var lc string
	switch {
	case n == 0:
		lc = "empty"
	case n <= 20:
		lc = "len1..20"
	case n < 65536:
		lc = "len21..65535"
	case n == 65536:
		lc = "len65536"
	default:
		lc = "multi-chunk"
	}
	return lc
}

// shortSpec returns the idx-th string over alphabet3 in length-then-lexicographic order.
func shortCount(maxLen int) int {
	n, p := 0, 1
	for l := 0; l <= maxLen; l++ {
		n += p
		p *= 3
	}
	return n
}

func shortBytes(idx int) []byte {
	l, p := 0, 1
	for idx >= p {
		idx -= p
		p *= 3
		l++
	}
	b := make([]byte, l)
	for i := l - 1; i >= 0; i-- {
		b[i] = alphabet3[idx%3]
		idx /= 3
	}
	return b
}

func longLengths(thorough bool) []int {
	var ls []int
	add := func(lo, hi int) {
		for i := lo; i <= hi; i++ {
			ls = append(ls, i)
		}
	}
	if thorough {
		add(0, 4200)
	} else {
		add(0, 1100) // DESIGN 0..20, extended: all padding classes with LZMA chunks, uvarint 1->2 bytes at 128
	}
	add(16376, 16392)       // uvarint 2->3 bytes at 16384
	add(65530, 65540)       // DESIGN 65535..65537: one chunk -> two chunks
	add(131066, 131078)     // DESIGN 131071..131073: two -> three chunks
	add(196607, 196609)     //
	ls = append(ls, 200000) // DESIGN
	if thorough {
		add(262143, 262145)
		add(1048575, 1048577)
		add(2097150, 2097154) // uvarint 3->4 bytes at 2^21
	}
	return ls
}
