package main

import (
	"bytes"
	"fmt"
	"os"
	"path/filepath"
	"strings"
	"sync"
	"sync/atomic"
	"verif/internal/cserve"

	"verif/internal/ev"

	lol "github.com/google/wuffs/lib/litonlylzma"
)

type format struct {
	name  string // in signatures
	ff    lol.FileFormat
	xzFmt string // xz --format=
}

var formats = []format{
	{"LZMA", lol.FileFormatLZMA, "lzma"},
	{"XZ", lol.FileFormatXz, "xz"},
}

func formatByName(n string) format {
	for _, f := range formats {
		if f.name == n {
			return f
		}
	}
	ev.Fatal("unknown format %q", n)
	return format{}
}

func panicClass(e any) string {
	s := fmt.Sprint(e)
	var b []byte
	for i := 0; i < len(s) && len(b) < 48; i++ {
		if s[i] >= '0' && s[i] <= '9' {
			continue
		}
		b = append(b, s[i])
	}
	return string(b)
}

func safeEncode(f format, dst, src []byte) (out []byte, err error, pan string) {
	defer func() {
		if e := recover(); e != nil {
			pan = panicClass(e)
		}
	}()
	out, err = f.ff.Encode(dst, src)
	return
}

func safeDecode(f format, dst, src []byte) (out, rem []byte, err error, pan string) {
	defer func() {
		if e := recover(); e != nil {
			pan = panicClass(e)
		}
	}()
	out, rem, err = f.ff.Decode(dst, src)
	return
}

type rtWitness struct {
	Kind    string `json:"kind"` // "roundtrip"
	Format  string `json:"format"`
	Clause  string `json:"clause"`
	Payload spec   `json:"payload"`
	Detail  string `json:"detail"`
}

var dstPrefix = []byte("\xFD7zPFX\x00\xFF") // 8 bytes, deliberately looks like a header start

// stats accumulated per worker and merged at the end
type rtStats struct {
	evals, nontrivial          int64
	modelAgree, modelDiffer    int64
	rc                         rcStats // LZMA files
	rcXz                       rcStats // LZMA chunks inside XZ files
	xzRaw, xzLz, xzWalkFail    int64
	hist                       map[string]int64
	xzFilesOK, xzFilesBad      int64
	wuffsFilesOK               int64
	encBytes, payloadBytes     int64
	lzPayloadsWithCarryPending int64
	xzChunksWithCarryPending   int64
}

func (a *rcStats) add(b rcStats) {
	a.shifts += b.shifts
	a.pendingGrow += b.pendingGrow
	a.carry += b.carry
	a.carryPending += b.carryPending
	a.carryPending2 += b.carryPending2
	if b.maxPendingRun > a.maxPendingRun {
		a.maxPendingRun = b.maxPendingRun
	}
}

// checkPayload runs the round-trip oracle for one (payload, format) and the
// mechanism meters. It returns the encoding (nil if Encode itself failed).
func checkPayload(r *ev.Run, f format, sp spec, p []byte, st *rtStats) []byte {
	fail := func(clause, detail string) {
		r.Violation(f.name+":"+clause+":"+sp.class(),
			fmt.Sprintf("%s %s for payload %s: %s", f.name, clause, sp, detail),
			rtWitness{"roundtrip", f.name, clause, sp, detail})
	}
	st.evals++
	enc, err, pan := safeEncode(f, nil, p)
	if pan != "" {
		fail("panic:Encode:"+pan, pan)
		return nil
	}
	if err != nil {
		fail("roundtrip:encode-error", err.Error())
		return nil
	}
	out, rem, err, pan := safeDecode(f, nil, enc)
	good := false
	switch {
	case pan != "":
		fail("panic:Decode-of-own-output:"+pan, pan)
	case err != nil:
		fail("roundtrip:decode-error", fmt.Sprintf("Decode(Encode(p)) returned %v after %d of %d bytes", err, len(out), len(p)))
	case !bytes.Equal(out, p):
		fail("roundtrip:bytes-differ", fmt.Sprintf("decoded %d bytes, payload %d bytes, first difference at %d", len(out), len(p), firstDiff(out, p)))
	case len(rem) != 0:
		fail("roundtrip:nonempty-remainder", fmt.Sprintf("%d bytes left over of %d encoded", len(rem), len(enc)))
	default:
		good = true
	}
	if good && len(p) > 0 {
		st.nontrivial++
	}
	// API contract "appending to dst": same results behind a non-empty dst.
	if good {
		enc2, err2, pan2 := safeEncode(f, append([]byte{}, dstPrefix...), p)
		if pan2 != "" {
			fail("panic:Encode-append:"+pan2, pan2)
		} else if err2 != nil || !bytes.HasPrefix(enc2, dstPrefix) || !bytes.Equal(enc2[len(dstPrefix):], enc) {
			fail("append-to-dst:encode", fmt.Sprintf("Encode(prefix, p) != prefix + Encode(nil, p) (err=%v, %d vs %d bytes)", err2, len(enc2), len(dstPrefix)+len(enc)))
		}
		out2, rem2, err2, pan2 := safeDecode(f, append([]byte{}, dstPrefix...), enc)
		if pan2 != "" {
			fail("panic:Decode-append:"+pan2, pan2)
		} else if err2 != nil || len(rem2) != 0 || !bytes.HasPrefix(out2, dstPrefix) || !bytes.Equal(out2[len(dstPrefix):], p) {
			fail("append-to-dst:decode", fmt.Sprintf("Decode(prefix, enc) != prefix + p (err=%v, %d bytes out, %d left)", err2, len(out2), len(rem2)))
		}
	}
	st.encBytes += int64(len(enc))
	st.payloadBytes += int64(len(p))

	// ---- meters only below ----
	if f.name == "LZMA" && len(enc) >= 13 {
		var rs rcStats
		m := modelEncode(p, &rs)
		if bytes.Equal(m, enc[13:]) {
			st.modelAgree++
			st.rc.add(rs)
			if rs.carryPending > 0 {
				st.lzPayloadsWithCarryPending++
			}
		} else {
			st.modelDiffer++
		}
		st.hist["lzma:flush-tail:"+tailClass(enc)]++
	}
	if f.name == "XZ" {
		sh := walkXz(enc)
		if !sh.ok {
			st.xzWalkFail++
		} else {
			st.xzRaw += int64(sh.rawChunks)
			st.xzLz += int64(sh.lzChunks)
			st.hist[fmt.Sprintf("xz:block-padding=%d", sh.blockPad)]++
			st.hist[fmt.Sprintf("xz:index-padding=%d", sh.idxPad)]++
			st.hist[fmt.Sprintf("xz:unpadded-size-varint-bytes=%d", sh.uvar1)]++
			st.hist[fmt.Sprintf("xz:uncompressed-size-varint-bytes=%d", sh.uvar2)]++
			kind := "xz:chunks="
			switch {
			case sh.rawChunks+sh.lzChunks == 0:
				kind += "none"
			case sh.lzChunks == 0:
				kind += "raw-only"
			case sh.rawChunks == 0:
				kind += "lzma-only"
			default:
				kind += "mixed"
			}
			if sh.rawChunks+sh.lzChunks > 1 {
				kind += ",multi"
			}
			st.hist[kind]++
			// the LZMA chunk bodies against the model, chunk by chunk
			ci, li := 0, 0
			for off := 0; off < len(p); off += 0x10000 {
				end := off + 0x10000
				if end > len(p) {
					end = len(p)
				}
				if ci < len(sh.chunkOffs) && enc[sh.chunkOffs[ci]] >= 0x80 && li < len(sh.lzBodies) {
					var rs rcStats
					if bytes.Equal(modelEncode(p[off:end], &rs), sh.lzBodies[li]) {
						st.modelAgree++
						st.rcXz.add(rs)
						if rs.carryPending > 0 {
							st.xzChunksWithCarryPending++
						}
					} else {
						st.modelDiffer++
					}
					if len(sh.lzBodies[li]) >= end-off-8 {
						st.hist["xz:lzma-chunk-within-8-bytes-of-raw-fallback"]++
					}
					li++
				}
				ci++
			}
		}
	}
	return enc
}

func tailClass(enc []byte) string {
	// how the 5-byte flush ended: trailing 0x00 / 0xFF bytes are the carry-sensitive ones
	n := len(enc)
	if n < 18 {
		return "short"
	}
	switch enc[n-1] {
	case 0x00:
		return "..00"
	case 0xFF:
		return "..FF"
	}
	return "other"
}

func firstDiff(a, b []byte) int {
	n := len(a)
	if len(b) < n {
		n = len(b)
	}
	for i := 0; i < n; i++ {
		if a[i] != b[i] {
			return i
		}
	}
	return n
}

// wuffsSrv[w] is worker w's C state server (engine E4: fresh C generated from the working
// tree's std/lzma and std/xz, see internal/cserve); nil when the sub-family is not run.
var wuffsSrv []*cserve.Server

// payloads above this size are left to the xz tool (the pipe copies are not free)
const wuffsMaxPayload = 300000

// hookWuffsDecoders decodes the same encodings with the generated Wuffs std/lzma (.lzma)
// and std/xz (.xz) C decoders: status OK, every input byte consumed, output == payload.
// Driver policy (DESIGN E4): "$short workbuf" -> re-issue with the work buffer grown to
// workbuf_len().min; "$short write" -> re-issue with more destination room.
func hookWuffsDecoders(r *ev.Run, w int, f format, specs []spec, which []int, encs, want [][]byte, st *rtStats) (ran bool) {
	if wuffsSrv == nil || wuffsSrv[w] == nil {
		return false
	}
	srv := wuffsSrv[w]
	pkg := "lzma"
	if f.xzFmt == "xz" {
		pkg = "xz"
	}
	for i, enc := range encs {
		sp := specs[which[i]]
		fail := func(clause, detail string) {
			r.Violation(f.name+":wuffs-c:"+clause+":"+sp.class(), fmt.Sprintf("generated std/%s C decoder on %s.Encode(%s): %s", pkg, f.name, sp, detail),
				rtWitness{"roundtrip", f.name, "wuffs-c:" + clause, sp, detail})
		}
		capacity := uint32(len(want[i]) + 4096)
		data := enc
		status, ok := "", false
		var last cserve.Result
		srv.Do(cserve.Free(1))
		res, err := srv.Do(cserve.New(1, pkg, cserve.NewOpts{}))
		if err != nil || !res[0].OK {
			ev.Fatal("cserve: cannot create a std/%s decoder: %v %+v", pkg, err, res)
		}
		for call := 0; call < 64; call++ {
			res, err := srv.Do(cserve.Transform(1, data, true, capacity, cserve.WorkMin))
			if err != nil {
				if ce, isCrash := err.(*cserve.CrashError); isCrash {
					fail("crash", ce.Summary())
					srv.Restart()
					status = "crash"
					break
				}
				ev.Fatal("cserve: %v", err)
			}
			data = nil
			last = res[0]
			status, ok = last.Status, last.OK
			if last.IsSuspension() && (strings.Contains(status, "short workbuf") || strings.Contains(status, "short write")) {
				continue
			}
			break
		}
		if status == "crash" {
			continue
		}
		st.hist["wuffs-c-decoders:files"]++
		if !ok {
			fail("status", fmt.Sprintf("final status %q", status))
			continue
		}
		out, err := srv.Do(cserve.Get(1, cserve.GetDst), cserve.Get(1, cserve.GetSrc))
		if err != nil {
			ev.Fatal("cserve: %v", err)
		}
		if !bytes.Equal(out[0].Data, want[i]) {
			fail("bytes-differ", fmt.Sprintf("decoded %d bytes, payload has %d, first difference at %d", len(out[0].Data), len(want[i]), firstDiff(out[0].Data, want[i])))
		} else if out[1].Total != 0 {
			fail("trailing-input", fmt.Sprintf("status ok but %d input bytes were left unread", out[1].Total))
		} else {
			st.wuffsFilesOK++
		}
	}
	return true
}

// runBatches: every batch = up to 500 payloads; per format the encodings are
// written to scratch, xz decodes them in ONE process, the directory is removed.
func runBatches(r *ev.Run, xz *xzTool, scratch string, hw *hangWatch, nBatches int, batchSpecs func(b int) []spec, label string) rtStats {
	var mu sync.Mutex
	total := rtStats{hist: map[string]int64{}}
	var failedBatches atomic.Int64
	ev.ParFor(nBatches, func(w, b int) {
		if r.Expired() {
			return
		}
		st := rtStats{hist: map[string]int64{}}
		specs := batchSpecs(b)
		payloads := make([][]byte, len(specs))
		for i, sp := range specs {
			payloads[i] = sp.bytes()
		}
		for _, f := range formats {
			dir := filepath.Join(scratch, fmt.Sprintf("%s-b%d-%s", label, b, f.xzFmt))
			if xz != nil {
				os.MkdirAll(dir, 0o755)
			}
			var names []string
			var want [][]byte
			var which []int
			var encs, wantAll [][]byte
			var whichAll []int
			for i, sp := range specs {
				hw.set(w, func() string { return fmt.Sprintf("round trip %s of %s", f.name, sp) })
				hw.wit[w] = func() any { return rtWitness{"roundtrip", f.name, "hang", sp, "Encode/Decode does not return"} }
				enc := checkPayload(r, f, sp, payloads[i], &st)
				hw.clear(w)
				if enc == nil {
					continue
				}
				if wuffsSrv != nil && len(payloads[i]) <= wuffsMaxPayload {
					encs = append(encs, enc)
					wantAll = append(wantAll, payloads[i])
					whichAll = append(whichAll, i)
				}
				if xz == nil {
					continue
				}
				n := fmt.Sprintf("%d.%s", i, f.xzFmt)
				if err := os.WriteFile(filepath.Join(dir, n), enc, 0o644); err != nil {
					ev.Fatal("scratch write: %v", err)
				}
				names = append(names, n)
				want = append(want, payloads[i])
				which = append(which, i)
			}
			if xz != nil && len(names) > 0 {
				maxRep := 20
				if failedBatches.Load() >= 4 {
					maxRep = 1
				}
				vs := xz.checkBatch(f.xzFmt, dir, names, want, maxRep)
				if vs == nil {
					st.xzFilesOK += int64(len(names))
				} else {
					failedBatches.Add(1)
					st.xzFilesBad += int64(len(vs))
					for _, v := range vs {
						sp := specs[which[v.idx]]
						r.Violation(f.name+":"+v.clause+":"+sp.class(),
							fmt.Sprintf("`xz -dc --format=%s` on %s.Encode(%s): %s", f.xzFmt, f.name, sp, v.detail),
							rtWitness{"roundtrip", f.name, v.clause, sp, v.detail})
					}
				}
			}
			if len(encs) > 0 && hookWuffsDecoders(r, w, f, specs, whichAll, encs, wantAll, &st) {
				st.hist["wuffs-c-decoders:batches"]++
			}
			if xz != nil {
				os.RemoveAll(dir)
			}
		}
		mu.Lock()
		total.merge(st)
		mu.Unlock()
	})
	return total
}

func (a *rtStats) merge(b rtStats) {
	a.evals += b.evals
	a.nontrivial += b.nontrivial
	a.modelAgree += b.modelAgree
	a.modelDiffer += b.modelDiffer
	a.rc.add(b.rc)
	a.rcXz.add(b.rcXz)
	a.xzRaw += b.xzRaw
	a.xzLz += b.xzLz
	a.xzWalkFail += b.xzWalkFail
	a.xzFilesOK += b.xzFilesOK
	a.wuffsFilesOK += b.wuffsFilesOK
	a.xzFilesBad += b.xzFilesBad
	a.encBytes += b.encBytes
	a.payloadBytes += b.payloadBytes
	a.lzPayloadsWithCarryPending += b.lzPayloadsWithCarryPending
	a.xzChunksWithCarryPending += b.xzChunksWithCarryPending
	for k, v := range b.hist {
		a.hist[k] += v
	}
}

func (a *rtStats) publish(r *ev.Run, label string) {
	pre := label + "_"
	r.Add(pre+"roundtrip_evaluations", a.evals)
	r.Add(pre+"payload_bytes", a.payloadBytes)
	r.Add(pre+"encoded_bytes", a.encBytes)
	r.Add(pre+"xz_tool_files_agreeing", a.xzFilesOK)
	r.Add(pre+"wuffs_c_decoder_files_agreeing", a.wuffsFilesOK)
	r.Add(pre+"xz_tool_files_disagreeing", a.xzFilesBad)
	r.Add(pre+"model_encoder_byte_identical", a.modelAgree)
	r.Add(pre+"model_encoder_differs(meter_only)", a.modelDiffer)
	r.Add(pre+"lzma_shiftLow_calls", a.rc.shifts)
	r.Add(pre+"lzma_pending_FF_held_back", a.rc.pendingGrow)
	r.Add(pre+"lzma_carries", a.rc.carry)
	r.Add(pre+"lzma_carries_through_pending_FF", a.rc.carryPending)
	r.Add(pre+"lzma_carries_through_2_or_more_pending_FF", a.rc.carryPending2)
	r.Add(pre+"lzma_payloads_with_carry_through_pending_FF", a.lzPayloadsWithCarryPending)
	r.Add(pre+"lzma_max_pending_FF_run", a.rc.maxPendingRun)
	r.Add(pre+"xz_chunks_raw", a.xzRaw)
	r.Add(pre+"xz_chunks_lzma", a.xzLz)
	r.Add(pre+"xz_lzma_chunk_carries_through_pending_FF", a.rcXz.carryPending)
	r.Add(pre+"xz_lzma_chunks_with_carry_through_pending_FF", a.xzChunksWithCarryPending)
	r.Add(pre+"xz_walker_could_not_parse(meter_only)", a.xzWalkFail)
	h := map[string]int64{}
	for k, v := range a.hist {
		h[strings.TrimSpace(k)] = v
	}
	r.MergeHist(label+"_mechanisms", h)
}
