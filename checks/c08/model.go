package main

// The explicit model that every history is co-simulated against. It is written from
// the documents (doc/note/statuses.md, doc/note/initialization.md, doc/note/coroutines.md,
// doc/std/image-decoders-call-sequence.md and the interface declarations), not from the
// generated C. It is "outcome driven": it never predicts what a decoder does with its
// input bytes (that is C05/C07); it observes the status class of each call that was
// allowed to run (ok / note / suspension / error) and predicts from it what the protocol
// layer has to answer to every later call.

import (
	"fmt"
	"strings"

	"github.com/google/wuffs/lang/builtin"

	"verif/internal/cserve"
	"verif/internal/ev"
)

// ---- exact status strings demanded by the statement.
const (
	stInitNotCalled = "#base: initialize not called"
	stDisabled      = "#base: disabled by previous error"
	stBadSizeof     = "#base: bad sizeof receiver"
	stBadVersion    = "#base: bad wuffs version"
	stFalseZeroed   = "#base: initialize falsely claimed already zeroed"
	stBadArgument   = "#base: bad argument"
	stInterleaved   = "#base: interleaved coroutine calls"
	stBadCallSeq    = "#base: bad call sequence"
	stEndOfData     = "@base: end of data"
	stMetadata      = "@base: metadata reported"
)

// ---- life cycle
const (
	lifeRaw      = 0 // no successful initialize yet (memory holds prefill bytes)
	lifeReady    = 1
	lifeSusp     = 2 // a public coroutine is suspended
	lifeDisabled = 3
)

var lifeNames = []string{"raw", "ready", "suspended", "disabled"}

// why an object became disabled (only used to give violations a stable shape)
const (
	byNone        = 0
	byFormatError = 1 // an error status out of a coroutine that ran
	byBadArgument = 2
	byInterleaved = 3
	byBadCallSeq  = 4
	byNonCoro     = 5 // a failing non-coroutine method left the object disabled (unspecified; adopted from the implementation)
)

var byNames = []string{"-", "coroutine-error", "bad-argument", "interleaved-call", "bad-call-sequence", "noncoroutine-error"}

// ---- image decoder call-sequence abstraction: a SET of possible positions in the machine of
// doc/std/image-decoders-call-sequence.md. Only the two distinctions the document attaches a
// "#bad call sequence" rule to are kept: image config decoded or not (0x00 vs >= 0x20), and the
// metadata side track (the 0x10 bit).
const (
	csPre   = 1 // 0x00: nothing decoded yet
	csPreM  = 2 // 0x10: metadata reported before the image config was complete
	csPost  = 4 // 0x20, 0x28, 0x40, 0x60
	csPostM = 8 // 0x30, 0x50
	csAll   = 15
)

func csName(s uint8) string {
	if s == 0 {
		return "{}"
	}
	var p []string
	for i, n := range []string{"0x00", "0x10", ">=0x20", ">=0x20|0x10"} {
		if s&(1<<uint(i)) != 0 {
			p = append(p, n)
		}
	}
	return "{" + strings.Join(p, ",") + "}"
}

// mstate is the model state plus the harness-side bookkeeping that decides what the next
// commands look like (how much of the seed has been fed). All of it is part of the state key.
type mstate struct {
	Life    uint8  `json:"life"`
	ZeroMem bool   `json:"zero_mem,omitempty"` // lifeRaw: the memory is all zero bytes
	Coro    uint8  `json:"coro,omitempty"`     // lifeSusp: method id of the suspended coroutine
	By      uint8  `json:"by,omitempty"`       // lifeDisabled: cause
	CS      uint8  `json:"cs,omitempty"`       // image decoders: set of possible call-sequence positions
	Fed     uint32 `json:"fed"`                // bytes of the seed appended to the slot's source so far
}

func (m mstate) String() string {
	s := lifeNames[m.Life]
	switch m.Life {
	case lifeRaw:
		if m.ZeroMem {
			s += "(zeroed)"
		} else {
			s += "(garbage)"
		}
	case lifeSusp:
		s += "(" + methodName(int(m.Coro)) + ")"
	case lifeDisabled:
		s += "(by " + byNames[m.By] + ")"
	}
	if m.CS != 0 && m.Life != lifeRaw && m.Life != lifeDisabled {
		s += " cs=" + csName(m.CS)
	}
	return s
}

// ---- method table (written from the interface declarations; self-checked against lang/builtin)

const (
	mcCoroutine = 1 // "?" : returns a status, may suspend
	mcStatus    = 2 // "!" returning base.status, not a coroutine
	mcImpure    = 3 // "!" returning something else (or nothing)
	mcPure      = 4
)

type methodInfo struct {
	id      int
	name    string
	class   int
	dstMust bool // the dst argument must not be NULL ("ptr T", io_writer, token_writer); nptr arguments may be NULL
	srcMust bool // the src argument must not be NULL (io_reader)
	hasDst  bool
}

var methodsByKind = map[int][]methodInfo{
	cserve.KindIOTransformer: {
		{cserve.MTransformIO, "transform_io", mcCoroutine, true, true, true},
		{cserve.MSetQuirk, "set_quirk", mcStatus, false, false, false},
		{cserve.MGetQuirk, "get_quirk", mcPure, false, false, false},
		{cserve.MWorkbufLen, "workbuf_len", mcPure, false, false, false},
		{cserve.MDstHistoryRetainLength, "dst_history_retain_length", mcPure, false, false, false},
	},
	cserve.KindTokenDecoder: {
		{cserve.MDecodeTokens, "decode_tokens", mcCoroutine, true, true, true},
		{cserve.MSetQuirk, "set_quirk", mcStatus, false, false, false},
		{cserve.MGetQuirk, "get_quirk", mcPure, false, false, false},
		{cserve.MWorkbufLen, "workbuf_len", mcPure, false, false, false},
	},
	cserve.KindImageDecoder: {
		{cserve.MDecodeImageConfig, "decode_image_config", mcCoroutine, false, true, true},
		{cserve.MDecodeFrameConfig, "decode_frame_config", mcCoroutine, false, true, true},
		{cserve.MDecodeFrame, "decode_frame", mcCoroutine, true, true, true},
		{cserve.MTellMeMore, "tell_me_more", mcCoroutine, true, true, true},
		{cserve.MRestartFrame, "restart_frame", mcStatus, false, false, false},
		{cserve.MSetQuirk, "set_quirk", mcStatus, false, false, false},
		{cserve.MSetReportMetadata, "set_report_metadata", mcImpure, false, false, false},
		{cserve.MGetQuirk, "get_quirk", mcPure, false, false, false},
		{cserve.MWorkbufLen, "workbuf_len", mcPure, false, false, false},
		{cserve.MNumDecodedFrames, "num_decoded_frames", mcPure, false, false, false},
		{cserve.MNumDecodedFrameConfigs, "num_decoded_frame_configs", mcPure, false, false, false},
		{cserve.MNumAnimationLoops, "num_animation_loops", mcPure, false, false, false},
		{cserve.MFrameDirtyRect, "frame_dirty_rect", mcPure, false, false, false},
	},
}

func init() {
	for _, k := range []int{cserve.KindHasherU32, cserve.KindHasherU64, cserve.KindHasherBitvec256} {
		methodsByKind[k] = []methodInfo{
			{cserve.MUpdate, "update", mcImpure, false, false, false},
			{cserve.MUpdateVal, "update_" + hasherSuffix(k), mcImpure, false, false, false},
			{cserve.MChecksum, "checksum_" + hasherSuffix(k), mcPure, false, false, false},
			{cserve.MSetQuirk, "set_quirk", mcStatus, false, false, false},
			{cserve.MGetQuirk, "get_quirk", mcPure, false, false, false},
		}
	}
}

func hasherSuffix(k int) string {
	switch k {
	case cserve.KindHasherU32:
		return "u32"
	case cserve.KindHasherU64:
		return "u64"
	}
	return "bitvec256"
}

func methodOf(kind, id int) *methodInfo {
	ms := methodsByKind[kind]
	for i := range ms {
		if ms[i].id == id {
			return &ms[i]
		}
	}
	return nil
}

func methodName(id int) string {
	for _, ms := range methodsByKind {
		for _, m := range ms {
			if m.id == id && !strings.HasPrefix(m.name, "update_") && !strings.HasPrefix(m.name, "checksum_") {
				return m.name
			}
		}
	}
	switch id {
	case cserve.MUpdateVal:
		return "update_T"
	case cserve.MChecksum:
		return "checksum_T"
	}
	return fmt.Sprintf("method%d", id)
}

// selfCheckMethodTable compares the hand-written table with the interface declarations of the
// tree under check: a difference means the model is stale (harness error, not a violation).
func selfCheckMethodTable() {
	decl := map[string]string{}
	for _, s := range builtin.InterfaceFuncs {
		i := strings.IndexByte(s, '(')
		decl[strings.TrimRight(s[:i], "?!")] = s
	}
	n := 0
	for kind, ms := range methodsByKind {
		for _, m := range ms {
			s, ok := decl[cserve.KindName(kind)+"."+m.name]
			if !ok {
				ev.Fatal("C08 model: %s.%s is not declared in lang/builtin.InterfaceFuncs (model stale)", cserve.KindName(kind), m.name)
			}
			n++
			i := strings.IndexByte(s, '(')
			eff := s[i-1]
			args := s[i+1 : strings.LastIndexByte(s, ')')]
			ret := strings.TrimSpace(s[strings.LastIndexByte(s, ')')+1:])
			var class int
			switch {
			case eff == '?':
				class = mcCoroutine
			case eff == '!' && ret == "status":
				class = mcStatus
			case eff == '!':
				class = mcImpure
			default:
				class = mcPure
			}
			dstMust, srcMust := false, false
			for _, a := range strings.Split(args, ",") {
				a = strings.TrimSpace(a)
				must := strings.Contains(a, ": ptr ") || strings.HasSuffix(a, "io_reader") || strings.HasSuffix(a, "io_writer") ||
					strings.HasSuffix(a, "token_writer") || strings.HasSuffix(a, "token_reader")
				if strings.HasPrefix(a, "dst:") {
					dstMust = must
				} else if strings.HasPrefix(a, "src:") {
					srcMust = must
				} else if must {
					ev.Fatal("C08 model: %s has a non-nullable argument %q the model does not know", s, a)
				}
			}
			if class != m.class || dstMust != m.dstMust || srcMust != m.srcMust {
				ev.Fatal("C08 model: method table disagrees with the declaration %q (class %d/%d dstMust %v/%v srcMust %v/%v)",
					s, class, m.class, dstMust, m.dstMust, srcMust, m.srcMust)
			}
		}
	}
	if n != len(builtin.InterfaceFuncs) {
		ev.Fatal("C08 model: %d interface methods declared, the model knows %d", len(builtin.InterfaceFuncs), n)
	}
}

// ---- operations (the alphabet)

const (
	opInit = "init" // initialize on the existing memory
	opRaw  = "raw"  // overwrite the memory, no initialize
	opCall = "call"
	opPure = "pure" // every pure method of the interface
	opSRM  = "report-metadata"
)

// initialize forms
const (
	inDefault     = "default"
	inLeaveBufs   = "leave-internal-buffers-uninitialized"
	inLeaveBufsA5 = "leave-internal-buffers-uninitialized(memory=0xA5)"
	inZeroedTrue  = "already-zeroed(memory zeroed first)"
	inZeroedAsIs  = "already-zeroed(memory as is)"
	inSizeofLess  = "sizeof-1"
	inSizeofMore  = "sizeof+1"
	inVerMajor    = "version-major+1"
	inVerMinor    = "version-minor+1"
)

// source / destination / work shapes
const (
	srcNone    = ""
	srcFull    = "complete"     // the rest of the valid input, closed
	srcPrefix  = "prefix"       // half of the rest of the valid input, not closed
	srcCorrupt = "corrupt"      // bytes that are not valid in the format, closed
	srcNull    = "null"         // NULL io_buffer
	srcClosed  = "closed-empty" // no new bytes, closed

	dstNone  = ""
	dstAmple = "ample"
	dstEmpty = "empty"
	dstNull  = "null"

	workMin  = ""
	workNone = "none"
)

type op struct {
	Kind   string `json:"kind"`
	Form   string `json:"form,omitempty"`   // opInit: form; opRaw: "0x00" | "0xA5"
	Method int    `json:"method,omitempty"` // opCall
	Src    string `json:"src,omitempty"`
	Dst    string `json:"dst,omitempty"`
	Work   string `json:"work,omitempty"`
	A0     uint64 `json:"a0,omitempty"`
	A1     uint64 `json:"a1,omitempty"`
	Seek   bool   `json:"seek,omitempty"`          // restart_frame: also reposition the source at A1
	Iface  bool   `json:"via_interface,omitempty"` // call wuffs_base__IFACE__METHOD(upcast) instead of wuffs_PKG__STRUCT__METHOD
	NData  int    `json:"ndata,omitempty"`
}

func (o op) String() string {
	switch o.Kind {
	case opInit:
		return "initialize[" + o.Form + "]"
	case opRaw:
		return "overwrite-memory[" + o.Form + "]"
	case opPure:
		return "pure-methods"
	case opSRM:
		return "set_report_metadata*"
	}
	s := methodName(o.Method) + "("
	var p []string
	if o.Src != srcNone {
		p = append(p, "src="+o.Src)
	}
	if o.Dst != dstNone {
		p = append(p, "dst="+o.Dst)
	}
	if o.Work != workMin {
		p = append(p, "work="+o.Work)
	}
	if o.Method == cserve.MRestartFrame {
		p = append(p, fmt.Sprintf("index=%d,io_position=%d", o.A0, o.A1))
		if o.Seek {
			p = append(p, "then seek")
		}
	}
	if o.Method == cserve.MSetQuirk {
		p = append(p, fmt.Sprintf("key=%#x,value=%d", o.A0, o.A1))
	}
	if o.Iface {
		p = append(p, "via interface")
	}
	return s + strings.Join(p, ",") + ")"
}

// ---- judging one step

type finding struct {
	sig, what string
}

// statusClass maps a status to a package-independent class for signatures.
func statusClass(r *cserve.Result) string {
	if !r.HasStatus {
		return "(no status)"
	}
	if r.OK {
		return "ok"
	}
	s := r.Status
	if strings.HasPrefix(s[1:], "base: ") {
		return s
	}
	switch s[0] {
	case '#':
		return "#<package error>"
	case '$':
		return "$<package suspension>"
	case '@':
		return "@<package note>"
	}
	return "?" + s
}

const contractMask = cserve.CSrcOrder | cserve.CDstOrder | cserve.CSrcRiDecreased | cserve.CDstWiDecreased |
	cserve.CSrcBytesChanged | cserve.CDstOldBytesChanged | cserve.CTokOrder | cserve.CTokOldChanged

// legal says whether call `method` is in order at call-sequence position s per the document:
// +1 yes, -1 no ("#bad call sequence"), 0 the document does not say.
func csLegal(method int, s uint8) int {
	meta := s == csPreM || s == csPostM
	switch method {
	case cserve.MDecodeImageConfig: // "a DIC call is illegal after a DIC, DFC or DF call"
		if s == csPre {
			return 1
		}
		return -1
	case cserve.MTellMeMore: // "a TMM call is illegal unless the decoder is in a right hand column state"
		if meta {
			return 1
		}
		return -1
	case cserve.MRestartFrame: // "only when the call_sequence is at least 0x20"
		if s == csPost || s == csPostM {
			return 1
		}
		return -1
	case cserve.MDecodeFrameConfig, cserve.MDecodeFrame: // "any decode_etc call jumps forward to the next matching method"
		if meta {
			// metadata is pending: the document says to call tell_me_more first, so a decode_* call here
			// is out of order and the property's "reject out-of-order calls with 'bad call sequence'"
			// applies (every std decoder that reports metadata does so on the unchanged tree; seeded C08-4)
			return -1
		}
		return 1
	}
	return 0
}

// csAfter gives the positions possible after `method`, started or resumed at position s, returned
// with the given outcome. complete=false: a suspension.
func csAfter(method int, s uint8, r *cserve.Result) uint8 {
	meta := s == csPreM || s == csPostM
	susp := r.IsSuspension()
	switch method {
	case cserve.MDecodeImageConfig:
		if s != csPre {
			return csAll
		}
		switch {
		case susp:
			return csPre
		case r.OK:
			return csPost
		case r.Status == stMetadata:
			return csPreM
		}
		return csAll
	case cserve.MDecodeFrameConfig, cserve.MDecodeFrame:
		if meta {
			return csAll
		}
		switch {
		case susp:
			if s == csPre {
				return csPre | csPost
			}
			return csPost
		case r.OK, r.Status == stEndOfData:
			return csPost
		case r.Status == stMetadata:
			if s == csPre {
				return csPreM | csPostM
			}
			return csPostM
		}
		return csAll
	case cserve.MTellMeMore:
		if !meta {
			return csAll
		}
		clear := uint8(csPre)
		if s == csPostM {
			clear = csPost
		}
		switch {
		case susp:
			return s
		case r.OK:
			return clear
		}
		return s | clear
	}
	return csAll
}

func each(set uint8, f func(s uint8)) {
	for b := uint8(1); b <= 8; b <<= 1 {
		if set&b != 0 {
			f(b)
		}
	}
}

// judgeInit: the model's verdict on an initialize call.
func judgeInit(p *pkg, m mstate, o op, r *cserve.Result) (mstate, []finding) {
	var fs []finding
	fresh := mstate{Life: lifeReady, CS: p.cs0()}
	got := statusClass(r)
	want := ""
	switch o.Form {
	case inDefault, inLeaveBufs, inLeaveBufsA5, inZeroedTrue:
		want = "ok"
	case inZeroedAsIs:
		if m.Life == lifeRaw && m.ZeroMem {
			want = "ok"
		} else {
			want = stFalseZeroed
		}
	case inSizeofLess, inSizeofMore:
		want = stBadSizeof
	case inVerMajor, inVerMinor:
		want = stBadVersion
	default:
		ev.Fatal("C08: unknown init form %q", o.Form)
	}
	if got != want {
		mem := "memory=" + lifeNames[m.Life]
		if m.Life == lifeRaw {
			mem = "memory=" + map[bool]string{true: "zeroed", false: "garbage"}[m.ZeroMem]
		} else {
			mem = "memory=live-object"
		}
		fs = append(fs, finding{fmt.Sprintf("initialize:%s:%s:want=%s:got=%s", o.Form, mem, want, got),
			fmt.Sprintf("%s: initialize[%s] on %s returned %q, the model expects %q", p.name, o.Form, m, r.Status, want)})
	}
	if r.OK {
		return fresh, fs
	}
	return m, fs
}

// judgeCall: the model's verdict on one method call. r is the result of the call itself.
func judgeCall(p *pkg, m mstate, o op, r *cserve.Result) (mstate, []finding, string) {
	var fs []finding
	mi := methodOf(p.kind, o.Method)
	if mi == nil {
		ev.Fatal("C08: %s has no method %d", p.name, o.Method)
	}
	got := statusClass(r)
	shape := fmt.Sprintf("src=%s,dst=%s", orDash(o.Src), orDash(o.Dst))
	if o.Work != workMin {
		shape += ",work=" + o.Work
	}
	class := map[int]string{mcCoroutine: "coroutine", mcStatus: "status-method", mcImpure: "value-method", mcPure: "pure-method"}[mi.class]
	add := func(sig, what string) {
		fs = append(fs, finding{sig, fmt.Sprintf("%s.%s(%s) in model state %s returned %s: %s", p.name, mi.name, shape, m, quoteStatus(r), what)})
	}
	rule := ""
	via := ""
	if o.Iface {
		via = "(via interface)"
	}

	// the I/O buffer contract holds for every call, whatever the state
	if c := r.Contract & contractMask; c != 0 {
		add(fmt.Sprintf("contract:%s:%s:%s:%s", mi.name, strings.Join(cserve.ContractNames(c), "+"), lifeNames[m.Life], shape),
			"buffer contract broken: "+strings.Join(cserve.ContractNames(c), ", ")+
				fmt.Sprintf(" (src ri %d->%d wi %d->%d, dst wi %d->%d ri %d->%d)", r.SrcRi0, r.SrcRi1, r.SrcWi0, r.SrcWi1, r.DstWi0, r.DstWi1, r.DstRi0, r.DstRi1))
	}

	returnsStatus := mi.class == mcCoroutine || mi.class == mcStatus
	if returnsStatus != r.HasStatus {
		ev.Fatal("C08: %s.%s: the server says has_status=%v, the model says %v", p.name, mi.name, r.HasStatus, returnsStatus)
	}

	switch m.Life {
	case lifeRaw:
		if returnsStatus {
			rule = "raw->initialize-not-called"
			if r.Status != stInitNotCalled {
				add(fmt.Sprintf("%s%s:before-initialize:want=%s", class, via, stInitNotCalled), "a status-returning method before a successful initialize must report "+stInitNotCalled)
			}
		} else {
			rule = "raw->zero-value"
			if r.V != [4]uint64{} {
				add(fmt.Sprintf("%s:before-initialize:want=zero-value:got=nonzero", class), fmt.Sprintf("a method without a status must return its zero value on an uninitialized object, got %v", r.V))
			}
		}
		return m, fs, rule
	case lifeDisabled:
		if returnsStatus {
			rule = "disabled->disabled-by-previous-error"
			if r.Status != stDisabled {
				add(fmt.Sprintf("%s%s:after-%s:want=%s", class, via, byNames[m.By], stDisabled), "every status-returning call after a failed coroutine call must report "+stDisabled+" until re-initialisation")
			}
		} else if mi.class == mcImpure {
			rule = "disabled->zero-value"
			if r.V != [4]uint64{} {
				add(fmt.Sprintf("%s:after-%s:want=zero-value:got=nonzero", class, byNames[m.By]), fmt.Sprintf("a non-pure method without a status must return its zero value on a disabled object, got %v", r.V))
			}
		} else {
			rule = "disabled->pure-callable"
		}
		return m, fs, rule
	}

	// READY or SUSPENDED
	if !returnsStatus {
		return m, fs, "live->value"
	}
	spurious := func() bool {
		switch r.Status {
		case stInitNotCalled, stDisabled:
			add(fmt.Sprintf("%s:%s:spurious:%s", class, lifeNames[m.Life], r.Status), "the object is initialized and no coroutine call has failed since")
			return true
		}
		return false
	}
	m2 := m
	if mi.class == mcStatus {
		if spurious() {
			return m, fs, "live->spurious"
		}
		rule = "live->status-method"
		if o.Method == cserve.MRestartFrame && p.kind == cserve.KindImageDecoder {
			must, mustNot := true, true
			each(m.CS, func(s uint8) {
				if csLegal(o.Method, s) >= 0 {
					must = false
				}
				if csLegal(o.Method, s) <= 0 {
					mustNot = false
				}
			})
			isBCS := r.Status == stBadCallSeq
			switch {
			case must && !isBCS:
				rule = "call-sequence->must-reject"
				add(fmt.Sprintf("call-sequence:%s.%s:out-of-order:want=%s:got=%s", p.name, mi.name, stBadCallSeq, got), "the call is out of order at call-sequence position "+csName(m.CS)+" per doc/std/image-decoders-call-sequence.md")
			case mustNot && isBCS:
				rule = "call-sequence->must-accept"
				add(fmt.Sprintf("call-sequence:%s.%s:in-order-call-rejected", p.name, mi.name), "the call is in order at call-sequence position "+csName(m.CS)+" per doc/std/image-decoders-call-sequence.md")
			case must:
				rule = "call-sequence->must-reject"
			case mustNot:
				rule = "call-sequence->must-accept"
			default:
				rule = "call-sequence->either"
			}
			if r.OK {
				m2.CS = csPost
				if m.Life == lifeSusp {
					m2.CS = csAll // restarting under a suspended coroutine: the document says nothing about what the resumed call sees
				}
			} else if isBCS {
				if k := m.CS & (csPre | csPreM); k != 0 {
					m2.CS = k
				}
			}
		}
		// The statement only speaks about failing *coroutine* calls. Whether a failing
		// non-coroutine method disables the object is adopted from the implementation.
		if r.IsError() && r.Magic == cserve.MagicDisabled {
			m2 = mstate{Life: lifeDisabled, By: byNonCoro, Fed: m.Fed}
		}
		return m2, fs, rule
	}

	// a public coroutine on a live object
	nullArg := (mi.dstMust && o.Dst == dstNull) || (mi.srcMust && o.Src == srcNull)
	inter := m.Life == lifeSusp && int(m.Coro) != o.Method
	dis := func(by uint8) mstate { return mstate{Life: lifeDisabled, By: by, Fed: m2.Fed} }
	switch {
	case nullArg || inter:
		want := stBadArgument
		by := uint8(byBadArgument)
		rule = "live->bad-argument"
		if inter {
			want, by, rule = stInterleaved, byInterleaved, "suspended->interleaved"
		}
		ok := r.Status == want || (nullArg && inter && (r.Status == stBadArgument || r.Status == stInterleaved))
		if !ok {
			what := "a coroutine called with a NULL argument that must not be NULL has to fail with " + stBadArgument
			if inter {
				what = "calling a different coroutine while " + methodName(int(m.Coro)) + " is suspended has to fail with " + stInterleaved
			}
			if nullArg && inter {
				rule = "suspended->interleaved+bad-argument"
			}
			add(fmt.Sprintf("%s:%s:want=%s:got=%s", class, rule, want, got), what)
		}
		if !r.IsError() {
			// keep co-simulating from what the implementation says happened
			return afterRun(p, m, m2, o, r), fs, rule
		}
		return dis(by), fs, rule
	}
	if spurious() {
		return m, fs, "live->spurious"
	}
	if r.Status == stInterleaved {
		add(fmt.Sprintf("%s:%s:spurious:%s", class, lifeNames[m.Life], r.Status), "no other coroutine is suspended")
	}
	rule = "live->runs"
	if p.kind == cserve.KindImageDecoder && m.Life == lifeReady {
		run, rej := uint8(0), uint8(0)
		each(m.CS, func(s uint8) {
			if l := csLegal(o.Method, s); l >= 0 {
				run |= s
			}
			if l := csLegal(o.Method, s); l <= 0 {
				rej |= s
			}
		})
		isBCS := r.Status == stBadCallSeq
		switch {
		case run == 0:
			rule = "call-sequence->must-reject"
			if !isBCS {
				add(fmt.Sprintf("call-sequence:%s.%s:out-of-order:want=%s:got=%s", p.name, mi.name, stBadCallSeq, got), "the call is out of order at call-sequence position "+csName(m.CS)+" per doc/std/image-decoders-call-sequence.md")
			}
		case rej == 0:
			rule = "call-sequence->must-accept"
			if isBCS {
				add(fmt.Sprintf("call-sequence:%s.%s:in-order-call-rejected", p.name, mi.name), "the call is in order at call-sequence position "+csName(m.CS)+" per doc/std/image-decoders-call-sequence.md")
			}
		default:
			rule = "call-sequence->either"
		}
		if isBCS {
			return dis(byBadCallSeq), fs, rule
		}
		if run != 0 {
			m2.CS = run
		}
	}
	if r.IsError() {
		return dis(byFormatError), fs, rule
	}
	return afterRun(p, m, m2, o, r), fs, rule
}

// afterRun: a coroutine ran and returned ok, a note or a suspension.
func afterRun(p *pkg, m, m2 mstate, o op, r *cserve.Result) mstate {
	if p.kind == cserve.KindImageDecoder {
		var next uint8
		each(m2.CS, func(s uint8) { next |= csAfter(o.Method, s, r) })
		if next == 0 {
			next = csAll
		}
		m2.CS = next
	}
	if r.IsSuspension() {
		m2.Life, m2.Coro = lifeSusp, uint8(o.Method)
	} else {
		m2.Life, m2.Coro = lifeReady, 0
	}
	return m2
}

func orDash(s string) string {
	if s == "" {
		return "-"
	}
	return s
}

func quoteStatus(r *cserve.Result) string {
	if !r.HasStatus {
		return fmt.Sprintf("value %v", r.V)
	}
	if r.OK {
		return "ok"
	}
	return fmt.Sprintf("%q", r.Status)
}
