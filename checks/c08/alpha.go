package main

// The alphabet: which operations exist for an object of a given interface kind, and the
// concrete server commands of an operation in a given model state.

import (
	"bytes"
	"compress/lzw"
	"os"
	"path/filepath"

	"verif/internal/cserve"
	"verif/internal/ev"
)

type pkg struct {
	name    string
	kind    int
	sizeof  uint64
	seed    []byte // a valid input ("valid complete" / "valid prefix"); nil: none available
	seedSrc string
	corrupt []byte
	ffio    uint64   // image decoders: first_frame_io_position of the seed (measured on the implementation at start-up)
	fourccs []uint32 // image decoders: metadata kinds asked for by the report-metadata operation
	seedOK  string   // status of a plain start-to-end decode of the seed (vacuity information)
	ver     uint64
	workLen uint64 // work buffer length after the plain decode of the seed (decides the build variant, see variantFor)
}

func (p *pkg) cs0() uint8 {
	if p.kind == cserve.KindImageDecoder {
		return csPre
	}
	return 0
}

// seeds: one small valid input per package, taken from the tree's own test data (read-only).
var seedFiles = map[string]string{
	"bmp":       "pjw-thumbnail.bmp",
	"bzip2":     "abraca.txt.bz2",
	"cbor":      "json-things.cbor",
	"deflate":   "romeo.txt.deflate",
	"etc2":      "mona-lisa.21x32.etc2.pkm",
	"gif":       "artificial-gif/metadata-full.gif", // ICCP + XMP metadata, one frame
	"gzip":      "256.bytes.gz",
	"handsum":   "mona-lisa.21x32.handsum",
	"jpeg":      "mona-lisa.21x32.q50.jpeg",
	"json":      "json-things.unformatted.json",
	"lzip":      "romeo.txt.lz",
	"lzma":      "romeo.txt.lzma",
	"netpbm":    "hippopotamus.pgm",
	"nie":       "crude-flag.nie",
	"png":       "artificial-png/key-value-pairs.png", // 1x1; tEXt/zTXt/iTXt chunks before and after IDAT: metadata is reported before and after the image config
	"thumbhash": "mona-lisa.21x32.th",
	"wbmp":      "muybridge-frame-000.wbmp",
	"webp":      "pjw-thumbnail.lossless.webp",
	"xz":        "romeo.txt.xz",
	"zlib":      "DCI-P3-D65.icc.zlib",
}

func fourcc(s string) uint32 {
	return uint32(s[0])<<24 | uint32(s[1])<<16 | uint32(s[2])<<8 | uint32(s[3])
}

func loadSeed(name string) ([]byte, string) {
	switch name {
	case "lzw":
		var b bytes.Buffer
		w := lzw.NewWriter(&b, lzw.LSB, 8)
		w.Write([]byte("abracadabra abracadabra abracadabra, said the call protocol."))
		w.Close()
		return b.Bytes(), "compress/lzw(LSB,8)"
	case "qoi":
		// 1x1 RGBA image: header, one QOI_OP_RGBA chunk, end marker
		return []byte{'q', 'o', 'i', 'f', 0, 0, 0, 1, 0, 0, 0, 1, 4, 0, 0xFF, 0x10, 0x20, 0x30, 0xFF, 0, 0, 0, 0, 0, 0, 0, 1}, "hand-made 1x1 qoi"
	case "targa":
		// 1x1 uncompressed true-colour image, 24 bits per pixel
		return []byte{0, 0, 2, 0, 0, 0, 0, 0, 0, 0, 0, 0, 1, 0, 1, 0, 24, 0, 0x10, 0x20, 0x30}, "hand-made 1x1 tga"
	}
	f, ok := seedFiles[name]
	if !ok {
		return nil, "(none)"
	}
	b, err := os.ReadFile(filepath.Join(ev.Repo(), "test", "data", f))
	if err != nil {
		return nil, "(missing test/data/" + f + ")"
	}
	return b, "test/data/" + f
}

func newPkg(sp cserve.Package, ver uint64) *pkg {
	p := &pkg{name: sp.Name, kind: sp.Kind, sizeof: sp.Sizeof, ver: ver}
	p.seed, p.seedSrc = loadSeed(sp.Pkg)
	p.corrupt = bytes.Repeat([]byte{0xFF}, 40)
	if p.kind == cserve.KindImageDecoder {
		p.fourccs = []uint32{fourcc("ICCP"), fourcc("XMP "), fourcc("GAMA"), fourcc("CHRM"), fourcc("EXIF"), fourcc("SRGB"), fourcc("KVP ")}
	}
	return p
}

const (
	ampleBytes  = 8192
	ampleTokens = 1024
	dstKeep     = 8 // bytes of already written output presented below wi (so "old bytes unchanged" and "wi never decreases" are observable)
)

// fedAfter: how much of the seed has been appended to the slot's source after o.
func (o op) fedAfter(p *pkg, m mstate) uint32 {
	if o.Kind != opCall {
		return m.Fed
	}
	if o.Method == cserve.MRestartFrame && o.Seek {
		return uint32(len(p.seed))
	}
	if mi := methodOf(p.kind, o.Method); mi == nil || mi.class != mcCoroutine {
		return m.Fed
	}
	switch o.Src {
	case srcFull:
		return uint32(len(p.seed))
	case srcPrefix:
		return m.Fed + prefixLen(p, m)
	}
	return m.Fed
}

func prefixLen(p *pkg, m mstate) uint32 {
	rest := uint32(len(p.seed)) - m.Fed
	return (rest + 1) / 2
}

// opsFor enumerates the alphabet for a package. It does not depend on the state: refused calls
// are part of the space.
func opsFor(p *pkg, thorough bool) []op {
	var ops []op
	for _, f := range []string{inDefault, inZeroedTrue, inZeroedAsIs, inLeaveBufsA5, inSizeofLess, inSizeofMore, inVerMajor, inVerMinor} {
		ops = append(ops, op{Kind: opInit, Form: f})
	}
	if thorough {
		ops = append(ops, op{Kind: opInit, Form: inLeaveBufs})
	}
	ops = append(ops, op{Kind: opRaw, Form: "0x00"}, op{Kind: opRaw, Form: "0xA5"})
	ops = append(ops, op{Kind: opPure})
	// QUIRK_IGNORE_CHECKSUM = 1: a key every package may or may not support; either way a status-returning non-coroutine
	ops = append(ops, op{Kind: opCall, Method: cserve.MSetQuirk, A0: 1, A1: 1})
	coro := func(method int, srcs []string, dsts []string, extra ...op) {
		for _, s := range srcs {
			ops = append(ops, op{Kind: opCall, Method: method, Src: s, Dst: dsts[0]})
		}
		for _, d := range dsts[1:] {
			ops = append(ops, op{Kind: opCall, Method: method, Src: srcFull, Dst: d})
		}
		ops = append(ops, extra...)
	}
	allSrc := []string{srcFull, srcPrefix, srcCorrupt, srcClosed, srcNull}
	switch p.kind {
	case cserve.KindIOTransformer:
		coro(cserve.MTransformIO, allSrc, []string{dstAmple, dstEmpty, dstNull},
			op{Kind: opCall, Method: cserve.MTransformIO, Src: srcPrefix, Dst: dstEmpty},
			op{Kind: opCall, Method: cserve.MTransformIO, Src: srcNull, Dst: dstNull},
			op{Kind: opCall, Method: cserve.MTransformIO, Src: srcFull, Dst: dstAmple, Work: workNone})
	case cserve.KindTokenDecoder:
		coro(cserve.MDecodeTokens, allSrc, []string{dstAmple, dstEmpty, dstNull},
			op{Kind: opCall, Method: cserve.MDecodeTokens, Src: srcPrefix, Dst: dstEmpty},
			op{Kind: opCall, Method: cserve.MDecodeTokens, Src: srcNull, Dst: dstNull})
	case cserve.KindImageDecoder:
		coro(cserve.MDecodeImageConfig, allSrc, []string{dstAmple, dstNull})
		coro(cserve.MDecodeFrameConfig, allSrc, []string{dstAmple, dstNull})
		coro(cserve.MDecodeFrame, allSrc, []string{dstAmple, dstNull},
			op{Kind: opCall, Method: cserve.MDecodeFrame, Src: srcPrefix, Dst: dstAmple, Work: workNone})
		tmm := []string{srcFull, srcPrefix, srcClosed, srcNull}
		if thorough {
			tmm = allSrc
		}
		coro(cserve.MTellMeMore, tmm, []string{dstAmple, dstEmpty, dstNull})
		ops = append(ops,
			op{Kind: opCall, Method: cserve.MRestartFrame, A0: 0, A1: p.ffio, Seek: true},
			op{Kind: opCall, Method: cserve.MRestartFrame, A0: 0, A1: p.ffio})
		if thorough {
			ops = append(ops, op{Kind: opCall, Method: cserve.MRestartFrame, A0: 7, A1: p.ffio})
		}
		ops = append(ops, op{Kind: opSRM})
	default: // hashers
		ops = append(ops,
			op{Kind: opCall, Method: cserve.MUpdate, Src: srcFull, NData: 5},
			op{Kind: opCall, Method: cserve.MUpdate, Src: srcNull},
			op{Kind: opCall, Method: cserve.MUpdateVal, Src: srcFull, NData: 3},
			op{Kind: opCall, Method: cserve.MUpdateVal, Src: srcFull, NData: 0})
	}
	// Everything above calls the package's own functions (wuffs_PKG__STRUCT__METHOD). The interface
	// dispatchers (wuffs_base__IFACE__METHOD) carry a receiver check of their own: one variant of
	// every status-returning method goes through them.
	for _, mi := range methodsByKind[p.kind] {
		switch {
		case mi.class == mcCoroutine:
			ops = append(ops, op{Kind: opCall, Method: mi.id, Src: srcClosed, Dst: dstAmple, Iface: true})
		case mi.id == cserve.MSetQuirk:
			ops = append(ops, op{Kind: opCall, Method: mi.id, A0: 1, A1: 1, Iface: true})
		case mi.id == cserve.MRestartFrame:
			ops = append(ops, op{Kind: opCall, Method: mi.id, A0: 0, A1: p.ffio, Iface: true})
		}
	}
	return ops
}

var hasherData = []byte("C08hasher-data")

// cmdsFor returns the server commands of operation o on slot s for an object in model state m.
// main is the index of the command whose result the model judges (-1: none).
func cmdsFor(p *pkg, m mstate, o op, s uint32) (cmds []cserve.Cmd, main int) {
	resetAll := func() {
		cmds = append(cmds,
			cserve.Reset(s, cserve.ResetDst|cserve.ResetTokens|cserve.ResetPixels|cserve.ResetWork|cserve.ResetSrc),
			cserve.SetSrc(s, 0, false, nil))
	}
	switch o.Kind {
	case opRaw:
		fill := uint16(0xA5)
		if o.Form == "0x00" {
			fill = 0
		}
		cmds = append(cmds, cserve.Init(s, cserve.NewOpts{NoInit: true, Prefill: fill}))
		resetAll()
		return cmds, -1
	case opInit:
		no := cserve.NewOpts{Prefill: cserve.PrefillLeave}
		expectOK := true
		switch o.Form {
		case inDefault:
		case inLeaveBufs:
			no.InitOpts = cserve.InitLeaveInternalBuffersUninitialized
		case inLeaveBufsA5:
			no.InitOpts = cserve.InitLeaveInternalBuffersUninitialized
			no.Prefill = 0xA5
		case inZeroedTrue:
			no.InitOpts = cserve.InitAlreadyZeroed
			no.Prefill = 0
		case inZeroedAsIs:
			no.InitOpts = cserve.InitAlreadyZeroed
			expectOK = m.Life == lifeRaw && m.ZeroMem
		case inSizeofLess:
			no.WrongSizeof, no.SizeofVal, expectOK = true, p.sizeof-1, false
		case inSizeofMore:
			no.WrongSizeof, no.SizeofVal, expectOK = true, p.sizeof+1, false
		case inVerMajor:
			no.WrongVer, no.VersionVal, expectOK = true, p.ver+(1<<32), false
		case inVerMinor:
			no.WrongVer, no.VersionVal, expectOK = true, p.ver+(1<<16), false
		}
		cmds = append(cmds, cserve.Init(s, no))
		if expectOK {
			resetAll()
		}
		return cmds, 0
	case opPure:
		return []cserve.Cmd{cserve.PureCheck(s, 1)}, 0
	case opSRM:
		for _, f := range p.fourccs {
			c := cserve.Call(s, cserve.MSetReportMetadata)
			c.A0, c.A1 = uint64(f), 1
			cmds = append(cmds, c)
		}
		return cmds, 0
	}
	c := cserve.Call(s, o.Method)
	c.A0, c.A1 = o.A0, o.A1
	if !o.Iface {
		c.Flags |= cserve.FDirect
	}
	mi := methodOf(p.kind, o.Method)
	if mi.class == mcCoroutine {
		c.Flags |= cserve.FKeepConsumed
		c.WorkPolicy = cserve.WorkMin
		c.WorkFill = 0x5C
		c.DstFill = 0xD5
		if o.Work == workNone {
			c.WorkPolicy = cserve.WorkKeep
			c.Flags |= cserve.FNullWork
		}
		switch o.Src {
		case srcFull:
			c.Data = p.seed[m.Fed:]
			c.Flags |= cserve.FClosed
		case srcPrefix:
			c.Data = p.seed[m.Fed : m.Fed+prefixLen(p, m)]
		case srcCorrupt:
			c.Data = p.corrupt
			c.Flags |= cserve.FClosed
		case srcClosed:
			c.Flags |= cserve.FClosed
		case srcNull:
			c.Flags |= cserve.FNullSrc
		}
		switch o.Dst {
		case dstAmple:
			c.DstCap = ampleBytes
			if o.Method == cserve.MDecodeTokens {
				c.DstCap = ampleTokens
			}
			c.DstKeep = dstKeep
		case dstEmpty:
			c.DstCap = 0
			c.DstKeep = dstKeep
		case dstNull:
			c.Flags |= cserve.FNullDst
		}
		if o.Method == cserve.MDecodeFrame {
			c.A0, c.A1 = 0, 1<<24
		}
	} else if o.Method == cserve.MUpdate || o.Method == cserve.MUpdateVal {
		c.Data = hasherData[:o.NData]
		if o.Src == srcNull {
			c.Flags |= cserve.FNullSrc
		}
	}
	cmds = append(cmds, c)
	if o.Method == cserve.MRestartFrame && o.Seek {
		// reposition only makes sense when the restart is expected to be accepted; doing it
		// unconditionally keeps the command list independent of results
		pos := o.A1
		if pos > uint64(len(p.seed)) {
			pos = uint64(len(p.seed))
		}
		cmds = append(cmds, cserve.SetSrc(s, pos, false, p.seed[pos:]))
	}
	return cmds, 0
}
