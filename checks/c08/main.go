// C08 — generated objects enforce their call protocol and the I/O buffer contract.
//
// Explicit-state BFS over call sequences on the real generated C objects (regenerated from the
// tree under check, ASan+UBSan build, driven through internal/cserve), co-simulated with the small
// explicit model of model.go. See DESIGN.md section 4 "C08".
//
// Part (b), the std objects, lives in stdPart. Part (a), generated programs (E1 objects with
// several coroutines), is a separate function to be added next to it (see the hook in main).
package main

import (
	"encoding/json"
	"fmt"
	"os"
	"path/filepath"
	"sort"
	"strings"
	"syscall"
	"time"

	"verif/internal/cserve"
	"verif/internal/ev"
)

var quickPackages = []string{"deflate", "gzip", "lzw", "crc32", "json", "gif", "png", "bmp", "jpeg"}

func main() {
	if len(os.Args) > 2 && os.Args[1] == "replay" {
		replay(os.Args[2])
		return
	}
	r := ev.Start("C08", "model_checking")
	selfCheckMethodTable()
	selfCheckModel()

	e := stdPart(r)
	// generatedProgramsPart(r, e) // part (a): E1 `coro`/`calls` objects; to be added by the progen-based check

	r.Finish(ev.Coverage{
		Evaluations:        e.transitions,
		DistinctNontrivial: e.nontrivial,
		Rule: "evaluation = one operation (initialize form / overwrite / method call with a source x destination shape) executed on a clone of a visited state and judged by the model; " +
			"non-trivial = distinct visited (object bytes, buffers, model state) reached by at least one operation and holding an object that has been initialized at least once (ready, suspended or disabled)",
		States:          e.states,
		Transitions:     e.transitions,
		TracesValidated: e.transitions,
		Explanation: fmt.Sprintf("BFS to depth <= %d (per package: depth_per_package) over the alphabet of alpha.go from three roots per package; a state is (128-bit hash of the object bytes, hashes of the unread source, written destination, work buffer, pixel buffer, tokens, configs, model state); "+
			"every transition is the last call of a history replayed from a fresh allocation on the %s build of freshly generated C; each is a model trace validated against the implementation", e.maxDepth, e.variant),
		Exhaustive: true,
		Extra:      map[string]any{"depth_max": e.maxDepth, "depth_per_package": e.depths, "variant": e.variant, "variant_big_objects": e.variantBig},
	}, []string{
		"gcc's ASan/UBSan build (-O1) of the generated C behaves like other builds as far as the protocol layer is concerned",
		"only the methods of the six base interfaces are reachable (package-specific public methods such as lzw.decoder.flush are not called)",
		"token destinations are always presented with wi=0 (the server has no keep option for tokens), so 'already written tokens unchanged' is not observable; io_buffer destinations carry 8 old bytes",
		"image-decoder call-sequence positions are tracked as a set refined by observed outcomes; where the document is silent (decode_* in a metadata state, restart_frame under a suspended coroutine, notes other than end-of-data/metadata-reported) nothing is demanded",
		"whether a failing non-coroutine method (set_quirk, restart_frame) disables the object is not stated; the model adopts the implementation's answer",
		"one seed input per package; 'corrupt' is 40 bytes of 0xFF; what a decoder does with the bytes is not judged (C05/C07), only the status class is observed",
	})
}

// chooseWorkers: the number of server processes. The results do not depend on it (levels are merged
// in frontier order); on a heavily oversubscribed machine more processes than free cores only slow
// each other down (measured: 16 workers took twice as long as 4 at load average 120 on 16 cores).
func chooseWorkers() int {
	n := ev.Workers()
	if s := os.Getenv("C08_WORKERS"); s != "" {
		fmt.Sscan(s, &n)
		return max(1, n)
	}
	var load float64
	if b, err := os.ReadFile("/proc/loadavg"); err == nil {
		fmt.Sscan(string(b), &load)
	}
	switch {
	case load > 3*float64(n):
		return max(2, n/4)
	case load > 1.5*float64(n):
		return max(2, n/2)
	}
	return n
}

func devBuilt() *cserve.Built {
	// development aid: C08_PREBUILT=<dir with wserver_asan> skips the C build
	d := os.Getenv("C08_PREBUILT")
	if d == "" {
		return nil
	}
	b := &cserve.Built{Bin: map[string]string{cserve.Asan: filepath.Join(d, "wserver_asan")}, HangTimeout: 30 * time.Second}
	if p := os.Getenv("C08_PREBUILT_PLAIN"); p != "" {
		b.Bin[cserve.Plain] = filepath.Join(p, "wserver_plain")
	}
	return b
}

func stdPart(r *ev.Run) *explorer {
	scratch, mine, err := cserve.Scratch()
	if err != nil {
		ev.Fatal("scratch: %v", err)
	}
	if mine {
		defer os.RemoveAll(scratch)
	}
	var mods []string
	if !r.Thorough() {
		mods = quickPackages
	}
	t0 := time.Now()
	b := devBuilt()
	if b == nil {
		variants := []string{cserve.Asan}
		if r.Thorough() {
			variants = append(variants, cserve.Plain) // for the two multi-megabyte objects, see variantFor
		}
		b, err = cserve.Build(scratch, variants, mods)
		if err != nil {
			ev.Fatal("cserve build: %v", err)
		}
	}
	fmt.Printf("C08: C regenerated and server built in %.0fs (gen %.0fs, compile %v)\n", time.Since(t0).Seconds(), b.GenSeconds, b.CompileSeconds)
	e := &explorer{r: r, b: b, variant: cserve.Asan, thorough: r.Thorough(), maxDepth: 4}
	if r.Thorough() {
		e.maxDepth = 6
	}
	if s := os.Getenv("C08_DEPTH"); s != "" {
		fmt.Sscan(s, &e.maxDepth)
	}
	t1 := time.Now()
	e.srvs = make([]*cserve.Server, chooseWorkers())
	ev.ParFor(len(e.srvs), func(_, i int) {
		s, err := b.Start(cserve.Asan)
		if err != nil {
			ev.Fatal("cserve start: %v", err)
		}
		e.srvs[i] = s
	})
	fmt.Printf("C08: %d server processes started in %.1fs\n", len(e.srvs), time.Since(t1).Seconds())
	defer func() {
		for _, s := range append(e.srvs, e.plain...) {
			s.Close()
		}
	}()
	want := map[string]bool{}
	for _, m := range mods {
		want[m] = true
	}
	if s := os.Getenv("C08_ONLY"); s != "" {
		want = map[string]bool{}
		for _, m := range strings.Split(s, ",") {
			want[m] = true
		}
	}
	var pkgs []*pkg
	for _, sp := range e.srvs[0].Packages {
		if len(want) > 0 && !want[sp.Pkg] {
			continue
		}
		pkgs = append(pkgs, newPkg(sp, e.srvs[0].WuffsVer))
	}
	if len(pkgs) == 0 {
		ev.Fatal("C08: no packages")
	}
	sort.Slice(pkgs, func(i, j int) bool { return pkgs[i].name < pkgs[j].name })
	for _, p := range pkgs {
		probeSeed(r, e.srvs[0], p)
	}
	var searches []*search
	for _, p := range pkgs {
		searches = append(searches, e.newSearch(p))
	}
	for depth := 0; depth < e.maxDepth; depth++ {
		t := time.Now()
		var tr int64
		for _, s := range searches {
			if depth >= e.depthFor(s.p) {
				continue
			}
			n := s.trans
			e.level(s, depth)
			tr += s.trans - n
		}
		fmt.Printf("C08: depth %d -> %d done: %d transitions in %.1fs\n", depth, depth+1, tr, time.Since(t).Seconds())
	}
	e.depths = map[string]int{}
	for _, s := range searches {
		if s.variant != e.variant {
			e.variantBig += s.variant + ":" + s.p.name + " "
		}
		e.finish(s)
		e.depths[s.p.name] = e.depthFor(s.p)
	}
	for i, h := range e.histories {
		if i%3 == 0 && i < 18 {
			r.Sample(h)
		}
	}
	for _, p := range pkgs {
		r.Sample(map[string]any{"package": p.name, "kind": cserve.KindName(p.kind), "seed": p.seedSrc, "seed_plain_decode": p.seedOK,
			"first_frame_io_position": p.ffio, "alphabet": len(opsFor(p, e.thorough))})
	}
	r.Add("packages", int64(len(pkgs)))
	if os.Getenv("C08_RUSAGE") != "" {
		for _, s := range append(e.srvs, e.plain...) {
			s.Close()
		}
		var a, b syscall.Rusage
		syscall.Getrusage(syscall.RUSAGE_SELF, &a)
		syscall.Getrusage(syscall.RUSAGE_CHILDREN, &b)
		fmt.Printf("rusage self user %.1f sys %.1f minflt %d; children user %.1f sys %.1f minflt %d majflt %d\n", float64(a.Utime.Sec)+float64(a.Utime.Usec)/1e6, float64(a.Stime.Sec)+float64(a.Stime.Usec)/1e6, a.Minflt,
			float64(b.Utime.Sec)+float64(b.Utime.Usec)/1e6, float64(b.Stime.Sec)+float64(b.Stime.Usec)/1e6, b.Minflt, b.Majflt)
	}
	return e
}

// depthFor: the history length bound of a package: 4 (quick) or 6 (thorough) for every package
// (measured thorough: ~4 million transitions; the C build takes longer than the search).
func (e *explorer) depthFor(p *pkg) int { return e.maxDepth }

// probeSeed runs the plain decode of the seed once (vacuity information: is "valid complete" really
// valid for this package?) and measures first_frame_io_position for restart_frame.
func probeSeed(r *ev.Run, srv *cserve.Server, p *pkg) {
	p.seedOK = "n/a"
	if p.seed == nil {
		return
	}
	var cmds []cserve.Cmd
	cmds = append(cmds, cserve.FreeAll(), cserve.New(0, p.name, cserve.NewOpts{}))
	switch p.kind {
	case cserve.KindIOTransformer:
		// the second call re-issues after a possible "$short workbuf" (lzma, xz, lzip learn the dictionary size from the header)
		cmds = append(cmds, cserve.Transform(0, p.seed, true, 1<<20, cserve.WorkMin), cserve.Transform(0, nil, true, 1<<20, cserve.WorkMin))
	case cserve.KindTokenDecoder:
		c := cserve.Feed(0, cserve.MDecodeTokens, p.seed, true)
		c.DstCap, c.WorkPolicy = 1<<16, cserve.WorkMin
		cmds = append(cmds, c)
	case cserve.KindImageDecoder:
		c := cserve.Feed(0, cserve.MDecodeImageConfig, p.seed, true)
		cmds = append(cmds, c, cserve.Get(0, cserve.GetImageConfig))
		c = cserve.Feed(0, cserve.MDecodeFrameConfig, nil, true)
		cmds = append(cmds, c)
		c = cserve.Feed(0, cserve.MDecodeFrame, nil, true)
		c.WorkPolicy, c.A1 = cserve.WorkMin, 1<<24
		cmds = append(cmds, c)
	default:
		return
	}
	cmds = append(cmds, cserve.Get(0, cserve.GetInfo))
	res, err := srv.Do(cmds...)
	if err != nil {
		ce, ok := err.(*cserve.CrashError)
		if !ok || r == nil {
			ev.Fatal("C08: %s: seed probe: %v", p.name, err)
		}
		// the plain start-to-end decode of the package's own test file kills the server: not a protocol
		// question, but code under test died, so it is reported (and the package explored without it)
		r.Violation(fmt.Sprintf("crash:plain-decode:%s:%s", cserve.KindName(p.kind), ce.Kind),
			fmt.Sprintf("%s: plain decode of %s: the server died: %s", p.name, p.seedSrc, ce.Summary()),
			map[string]any{"package": p.name, "commands": ce.Sent, "command_index": ce.CmdIndex})
		p.seedOK = "server died: " + ce.Summary()
		if err := srv.Restart(); err != nil {
			ev.Fatal("C08: cannot restart the server: %v", err)
		}
		return
	}
	var st []string
	for i := range res {
		if res[i].Err != "" {
			ev.Fatal("C08: %s: seed probe: %s", p.name, res[i].Err)
		}
		if cmds[i].Op == cserve.OpCall {
			st = append(st, quoteStatus(&res[i]))
		}
		if cmds[i].Op == cserve.OpGet && cmds[i].What == cserve.GetImageConfig && len(res[i].Data) >= 48 {
			p.ffio = leU64(res[i].Data[40:])
		}
		if cmds[i].Op == cserve.OpGet && cmds[i].What == cserve.GetInfo && len(res[i].Data) >= 56 {
			p.workLen = leU64(res[i].Data[48:])
		}
	}
	p.seedOK = strings.Join(st, ", ")
}

func leU64(b []byte) uint64 {
	var v uint64
	for i := 7; i >= 0; i-- {
		v = v<<8 | uint64(b[i])
	}
	return v
}

// selfCheckModel: brute-force properties of the call-sequence abstraction, so that an error in the
// oracle's own tables is reported as a harness error and not as a violation.
func selfCheckModel() {
	// (1) the abstraction agrees with the concrete machine of the document on every concrete state
	type conc struct {
		cs  uint8
		abs uint8
	}
	states := []conc{{0x00, csPre}, {0x10, csPreM}, {0x20, csPost}, {0x28, csPost}, {0x30, csPostM}, {0x40, csPost}, {0x50, csPostM}, {0x60, csPost}}
	for _, s := range states {
		wantDIC := s.cs == 0x00
		wantTMM := s.cs&0x10 != 0
		wantRF := s.cs >= 0x20
		if (csLegal(cserve.MDecodeImageConfig, s.abs) > 0) != wantDIC || (csLegal(cserve.MTellMeMore, s.abs) > 0) != wantTMM ||
			(csLegal(cserve.MRestartFrame, s.abs) > 0) != wantRF {
			ev.Fatal("C08 model self-check: csLegal disagrees with the document at call_sequence %#x", s.cs)
		}
		for _, mth := range []int{cserve.MDecodeImageConfig, cserve.MTellMeMore, cserve.MRestartFrame} {
			if csLegal(mth, s.abs) == 0 {
				ev.Fatal("C08 model self-check: csLegal undecided for method %d at %#x", mth, s.cs)
			}
		}
		if s.cs&0x10 == 0 && (csLegal(cserve.MDecodeFrame, s.abs) != 1 || csLegal(cserve.MDecodeFrameConfig, s.abs) != 1) {
			ev.Fatal("C08 model self-check: decode_frame(_config) must be in order at %#x", s.cs)
		}
	}
	// (2) the canonical sequence of the document is accepted by the abstraction and ends where it says
	ok := &cserve.Result{OK: true, HasStatus: true}
	end := &cserve.Result{Status: stEndOfData, HasStatus: true}
	meta := &cserve.Result{Status: stMetadata, HasStatus: true}
	s := uint8(csPre)
	s = csAfter(cserve.MDecodeImageConfig, s, meta)
	if s != csPreM || csLegal(cserve.MTellMeMore, s) != 1 || csLegal(cserve.MDecodeImageConfig, s) != -1 {
		ev.Fatal("C08 model self-check: metadata side track")
	}
	s = csAfter(cserve.MTellMeMore, s, ok)
	s = csAfter(cserve.MDecodeImageConfig, s, ok)
	for i := 0; i < 3; i++ {
		if s != csPost || csLegal(cserve.MDecodeImageConfig, s) != -1 || csLegal(cserve.MRestartFrame, s) != 1 || csLegal(cserve.MTellMeMore, s) != -1 {
			ev.Fatal("C08 model self-check: canonical sequence, round %d", i)
		}
		s = csAfter(cserve.MDecodeFrameConfig, s, ok)
		s = csAfter(cserve.MDecodeFrame, s, ok)
	}
	if csAfter(cserve.MDecodeFrameConfig, s, end) != csPost {
		ev.Fatal("C08 model self-check: end of data")
	}
	// (3) csAfter never returns the empty set and only widens to "all" where the document is silent
	for _, mth := range []int{cserve.MDecodeImageConfig, cserve.MDecodeFrameConfig, cserve.MDecodeFrame, cserve.MTellMeMore} {
		for _, st := range []uint8{csPre, csPreM, csPost, csPostM} {
			for _, r := range []*cserve.Result{ok, end, meta, {Status: "$base: short read", HasStatus: true}, {Status: "@base: I/O redirect", HasStatus: true}} {
				if csAfter(mth, st, r) == 0 {
					ev.Fatal("C08 model self-check: csAfter(%d,%d,%q) is empty", mth, st, r.Status)
				}
			}
		}
	}
}

// ---- replay

type replayFile struct {
	Property  string `json:"property"`
	Signature string `json:"signature"`
	What      string `json:"what"`
	Witness   struct {
		witness
		Commands []cserve.Cmd `json:"commands"` // plain-decode crash witnesses: the raw command list
	} `json:"witness"`
}

func replay(path string) {
	raw, err := os.ReadFile(path)
	if err != nil {
		ev.Fatal("replay: %v", err)
	}
	var rf replayFile
	if err := json.Unmarshal(raw, &rf); err != nil {
		ev.Fatal("replay: %v", err)
	}
	w := rf.Witness.witness
	if w.Variant == "" {
		w.Variant = cserve.Asan
	}
	scratch, mine, err := cserve.Scratch()
	if err != nil {
		ev.Fatal("scratch: %v", err)
	}
	if mine {
		defer os.RemoveAll(scratch)
	}
	pk := w.Package
	if i := strings.IndexByte(pk, '.'); i >= 0 {
		pk = pk[:i]
	}
	b := devBuilt()
	if b == nil {
		b, err = cserve.Build(scratch, []string{w.Variant}, []string{pk})
		if err != nil {
			ev.Fatal("cserve build: %v", err)
		}
	}
	srv, err := b.Start(w.Variant)
	if err != nil {
		ev.Fatal("cserve start: %v", err)
	}
	defer srv.Close()
	sp, ok := srv.PackageByName(w.Package)
	if !ok {
		ev.Fatal("replay: package %q not in the build", w.Package)
	}
	p := newPkg(sp, srv.WuffsVer)
	if len(rf.Witness.Commands) > 0 {
		fmt.Printf("replay %s\n  signature: %s\n  recorded: %s\n", path, rf.Signature, rf.What)
		if _, err := srv.Replay(rf.Witness.Commands); err != nil {
			fmt.Printf("  %v\nreplay: violation reproduced\n", err)
			os.Exit(1)
		}
		fmt.Println("replay: the recorded crash did not reproduce")
		os.Exit(0)
	}
	probeSeed(nil, srv, p)
	fmt.Printf("replay %s\n  signature: %s\n  recorded: %s\n", path, rf.Signature, rf.What)
	// the model state of the root is re-derived from its NewOpts
	var m mstate
	for _, rt := range rootsFor(p) {
		if rt.Name == w.Root.Name {
			m = rt.m
		}
	}
	res, err := srv.Do(cserve.FreeAll(), cserve.New(0, p.name, w.Root.New))
	if err != nil {
		fmt.Printf("  root: %v\nVIOLATION reproduced (crash)\n", err)
		os.Exit(1)
	}
	fmt.Printf("  root: %s -> %s; model: %s\n", w.Root.Name, quoteStatus(&res[1]), m)
	reproduced := false
	for i, st := range w.Steps {
		cmds, main := cmdsFor(p, m, st.Op, 0)
		if a, _ := json.Marshal(cmds); len(st.Cmds) > 0 {
			if b, _ := json.Marshal(st.Cmds); string(a) != string(b) {
				fmt.Printf("  note: step %d: the recorded commands differ from the commands derived now (the seed or the alphabet changed); using the recorded ones\n", i)
				cmds = st.Cmds
			}
		}
		rs, err := srv.Replay(cmds)
		if err != nil {
			fmt.Printf("  step %d: %s: %v\n", i, st.Op, err)
			reproduced = true
			break
		}
		if main < 0 {
			main = 0
		}
		m2, fs, rule := applyStep(p, m, st.Op, cmds, main, rs)
		obs := ""
		if st.Op.Kind == opCall || st.Op.Kind == opInit {
			obs = " -> " + quoteStatus(&rs[main])
			if c := rs[main].Contract & cserve.InfoMask; c != 0 {
				obs += " contract[" + strings.Join(cserve.ContractNames(c), ",") + "]"
			}
		}
		fmt.Printf("  step %d: %s%s   [rule %s] model: %s -> %s\n", i, st.Op, obs, rule, m, m2)
		for _, f := range fs {
			fmt.Printf("    VIOLATION %s\n      %s\n", f.sig, f.what)
			if f.sig == rf.Signature {
				reproduced = true
			}
		}
		m = m2
	}
	if reproduced {
		fmt.Println("replay: violation reproduced")
		os.Exit(1)
	}
	fmt.Println("replay: the recorded violation did not reproduce")
	os.Exit(0)
}
