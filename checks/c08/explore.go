package main

// Explicit-state breadth-first search over call sequences. The server processes are stateless
// between work items: a frontier state is rebuilt by replaying its history from a fresh
// allocation, then every operation of the alphabet is applied to a clone of it.

import (
	"crypto/sha1"
	"encoding/binary"
	"fmt"
	"sort"
	"strings"
	"sync"
	"sync/atomic"
	"time"

	"verif/internal/cserve"
	"verif/internal/ev"
)

type stateRec struct {
	parent int32
	op     int16 // index into ops; for roots: index into roots
	depth  int8
	m      mstate
	hash   [8]uint64
}

type root struct {
	Name string         `json:"name"`
	New  cserve.NewOpts `json:"new"`
	m    mstate
}

func rootsFor(p *pkg) []root {
	return []root{
		{"allocated, memory 0xA5, initialize not called", cserve.NewOpts{NoInit: true, Prefill: 0xA5}, mstate{Life: lifeRaw}},
		{"allocated, memory zeroed, initialize not called", cserve.NewOpts{NoInit: true, Prefill: 0}, mstate{Life: lifeRaw, ZeroMem: true}},
		{"allocated, memory 0xA5, initialize(default options)", cserve.NewOpts{Prefill: 0xA5}, mstate{Life: lifeReady, CS: p.cs0()}},
	}
}

type step struct {
	Op   op           `json:"op"`
	Cmds []cserve.Cmd `json:"cmds"`
}

type witness struct {
	Package string   `json:"package"`
	Variant string   `json:"variant"`
	Root    root     `json:"root"`
	Steps   []step   `json:"steps"` // the last step is the offending one
	Trace   []string `json:"trace,omitempty"`
}

type key [20]byte

// keyOf: the identity of a state. For an object that refuses every call until it is
// (re-)initialized (raw, disabled) only the object bytes and the model state count: a successful
// initialize resets all harness buffers, so their content cannot influence anything.
func keyOf(h *[8]uint64, m mstate) key {
	var b [64 + 12]byte
	for i, v := range h {
		if i >= 2 && (m.Life == lifeRaw || m.Life == lifeDisabled) {
			break
		}
		binary.LittleEndian.PutUint64(b[i*8:], v)
	}
	if m.Life == lifeRaw || m.Life == lifeDisabled {
		m.Fed = 0
	}
	b[64], b[66], b[67], b[68] = m.Life, m.Coro, m.By, m.CS
	if m.ZeroMem {
		b[65] = 1
	}
	binary.LittleEndian.PutUint32(b[69:], m.Fed)
	return sha1.Sum(b[:])
}

// applyStep runs the model for one operation given the results of its commands.
func applyStep(p *pkg, m mstate, o op, cmds []cserve.Cmd, main int, res []cserve.Result) (m2 mstate, fs []finding, rule string) {
	for i := range cmds {
		if res[i].Err != "" {
			// a harness limit (pixel or work buffer above the server's cap: only seen when a broken
			// object reports garbage dimensions); the operation is not part of the space in this state
			return m, nil, "harness-refused: " + res[i].Err
		}
	}
	switch o.Kind {
	case opRaw:
		return mstate{Life: lifeRaw, ZeroMem: o.Form == "0x00"}, nil, "overwrite"
	case opInit:
		m2, fs = judgeInit(p, m, o, &res[main])
		return m2, fs, "initialize:" + o.Form
	case opPure:
		return m, judgePure(p, m, &res[main]), "pure:" + lifeNames[m.Life]
	case opSRM:
		return m, nil, "value-method:" + lifeNames[m.Life]
	}
	m2, fs, rule = judgeCall(p, m, o, &res[main])
	m2.Fed = o.fedAfter(p, m)
	return m2, fs, rule
}

// judgePure: pure methods must return zero values on an object that was never initialized. On a
// disabled object they stay callable (any value).
func judgePure(p *pkg, m mstate, r *cserve.Result) []finding {
	if m.Life != lifeRaw {
		return nil
	}
	for _, v := range r.PureVals {
		if v != 0 {
			return []finding{{"pure-method:before-initialize:want=zero-value:got=nonzero",
				fmt.Sprintf("%s: the pure methods of an object in model state %s returned %v (zero values expected)", p.name, m, r.PureVals)}}
		}
	}
	return nil
}

type succ struct {
	op    int
	m     mstate
	hash  [8]uint64
	fs    []finding
	rule  string
	stat  string // status class of the judged command
	cflag uint32
	crash *cserve.CrashError
	cmds  []cserve.Cmd
}

const batchStates = 12 // frontier states per pipelined round trip

type explorer struct {
	r        *ev.Run
	b        *cserve.Built
	variant  string
	thorough bool
	maxDepth int
	srvs     []*cserve.Server // the ASan+UBSan build
	plain    []*cserve.Server // the -O2 build, started on demand for objects above bigObject bytes

	depths      map[string]int
	variantBig  string
	histories   []any
	states      int64
	transitions int64
	nontrivial  int64
}

// pathOf returns the operations from the root to state i.
func pathOf(recs []stateRec, i int32) (rootIdx int, path []int16, ms []mstate) {
	for recs[i].parent >= 0 {
		path = append(path, recs[i].op)
		i = recs[i].parent
		ms = append(ms, recs[i].m)
	}
	rootIdx = int(recs[i].op)
	for a, b := 0, len(path)-1; a < b; a, b = a+1, b-1 {
		path[a], path[b] = path[b], path[a]
		ms[a], ms[b] = ms[b], ms[a]
	}
	return
}

// buildExpand returns the commands that rebuild state i in slot s0 and apply every operation
// (except the skipped ones) to a clone in slot s0+1.
type span struct{ op, lo, n, main int }

func buildExpand(p *pkg, roots []root, ops []op, recs []stateRec, i int32, s0 uint32, skip map[int]bool) (cmds []cserve.Cmd, hashAt int, spans []span) {
	rootIdx, path, ms := pathOf(recs, i)
	cmds = append(cmds, cserve.New(s0, p.name, roots[rootIdx].New))
	for k, oi := range path {
		c, _ := cmdsFor(p, ms[k], ops[oi], s0)
		cmds = append(cmds, c...)
	}
	hashAt = len(cmds)
	cmds = append(cmds, cserve.Hash(s0))
	cur := recs[i].m
	for oi := range ops {
		if skip[oi] {
			continue
		}
		cmds = append(cmds, cserve.Clone(s0, s0+1))
		c, main := cmdsFor(p, cur, ops[oi], s0+1)
		spans = append(spans, span{oi, len(cmds), len(c), main})
		cmds = append(cmds, c...)
		cmds = append(cmds, cserve.Hash(s0+1))
	}
	return
}

// judgeExpand turns the results of buildExpand's commands into successors.
func judgeExpand(p *pkg, ops []op, recs []stateRec, i int32, cmds []cserve.Cmd, res []cserve.Result, hashAt int, spans []span) (out []succ) {
	cur := recs[i].m
	if res[hashAt].Hash != recs[i].hash {
		ev.Fatal("C08: %s: replaying the history of state %d gave a different object/buffer hash (non-deterministic replay)", p.name, i)
	}
	for _, s := range spans {
		o := ops[s.op]
		c := cmds[s.lo : s.lo+s.n]
		r := res[s.lo : s.lo+s.n]
		main := s.main
		if main < 0 {
			main = 0
		}
		m2, fs, rule := applyStep(p, cur, o, c, main, r)
		if strings.HasPrefix(rule, "harness-refused") {
			out = append(out, succ{op: s.op, m: cur, hash: recs[i].hash, rule: rule})
			continue
		}
		sc := succ{op: s.op, m: m2, hash: res[s.lo+s.n].Hash, fs: fs, rule: rule}
		if s.main >= 0 && o.Kind == opCall {
			sc.stat = statusClass(&r[s.main])
			sc.cflag = r[s.main].Contract
		} else if s.main >= 0 && o.Kind == opInit {
			sc.stat = statusClass(&r[s.main])
		}
		if len(fs) > 0 {
			sc.cmds, _ = cmdsFor(p, cur, o, 0)
		}
		out = append(out, sc)
	}
	return out
}

// expandBatch expands several frontier states in one pipelined round trip (the round-trip latency,
// not the CPU, dominates on a loaded machine). If the server dies, the states are redone one by
// one, and the offending state one operation at a time, so that the crash is attributed to one
// operation without relying on the server's death note.
func (e *explorer) expandBatch(srv *cserve.Server, s *search, idx []int32) (out [][]succ) {
	p, roots, ops, recs := s.p, s.roots, s.ops, s.recs
	out = make([][]succ, len(idx))
	type part struct {
		lo, hashAt int
		spans      []span
		n          int
	}
	cmds := []cserve.Cmd{cserve.FreeAll()}
	parts := make([]part, len(idx))
	for j, i := range idx {
		c, hashAt, spans := buildExpand(p, roots, ops, recs, i, uint32(2*j), nil)
		parts[j] = part{len(cmds), hashAt, spans, len(c)}
		cmds = append(cmds, c...)
	}
	res := make([]cserve.Result, len(cmds))
	if err := srv.DoInto(cmds, res); err != nil {
		if _, ok := err.(*cserve.CrashError); !ok {
			ev.Fatal("C08: %s: %v", p.name, err)
		}
		restart(srv)
		for j, i := range idx {
			if s.dead.Load() {
				break
			}
			out[j] = e.expandOne(srv, s, i)
		}
		return
	}
	for j, i := range idx {
		pt := parts[j]
		out[j] = judgeExpand(p, ops, recs, i, cmds[pt.lo:pt.lo+pt.n], res[pt.lo:pt.lo+pt.n], pt.hashAt, pt.spans)
	}
	return
}

func restart(srv *cserve.Server) {
	if err := srv.Restart(); err != nil {
		ev.Fatal("C08: cannot restart the server: %v", err)
	}
}

const maxCrashesPerPackage = 3 // then the package is abandoned (a hang costs 30 s each time)

// expandOne: one state per round trip; if that dies, one operation per round trip.
func (e *explorer) expandOne(srv *cserve.Server, s *search, i int32) (out []succ) {
	p, roots, ops, recs := s.p, s.roots, s.ops, s.recs
	c, hashAt, spans := buildExpand(p, roots, ops, recs, i, 0, nil)
	cmds := append([]cserve.Cmd{cserve.FreeAll()}, c...)
	res := make([]cserve.Result, len(cmds))
	err := srv.DoInto(cmds, res)
	if err == nil {
		return judgeExpand(p, ops, recs, i, c, res[1:], hashAt, spans)
	}
	if _, ok := err.(*cserve.CrashError); !ok {
		ev.Fatal("C08: %s: %v", p.name, err)
	}
	restart(srv)
	for oi := range ops {
		skip := map[int]bool{}
		for k := range ops {
			skip[k] = k != oi
		}
		c, hashAt, spans := buildExpand(p, roots, ops, recs, i, 0, skip)
		cmds := append([]cserve.Cmd{cserve.FreeAll()}, c...)
		res := make([]cserve.Result, len(cmds))
		err := srv.DoInto(cmds, res)
		if err == nil {
			out = append(out, judgeExpand(p, ops, recs, i, c, res[1:], hashAt, spans)...)
			continue
		}
		ce, ok := err.(*cserve.CrashError)
		if !ok {
			ev.Fatal("C08: %s: %v", p.name, err)
		}
		restart(srv)
		cc, _ := cmdsFor(p, recs[i].m, ops[oi], 0)
		out = append(out, succ{op: oi, crash: ce, cmds: cc})
		if s.crashes.Add(1) >= maxCrashesPerPackage {
			s.dead.Store(true)
			return out
		}
	}
	return out
}

const bigObject = 1 << 20

// variantFor: packages whose object plus work buffer exceed 1 MiB (bzip2 4.2 MB, webp 3.2 MB objects; lzma
// and xz: a work buffer of the seed's dictionary size) are explored on the plain -O2 build when it
// exists: under ASan every clone of such a state is a fresh mmap + thousands of page faults + quarantine
// churn (measured ~0.3 s per transition on the shared machine). The contract flags are computed by the
// server's C code in every build; only the sanitizers' memory checks are lost for those two packages.
func (e *explorer) variantFor(p *pkg) string {
	if p.sizeof+p.workLen > bigObject && e.b.Bin[cserve.Plain] != "" {
		return cserve.Plain
	}
	return cserve.Asan
}

func (e *explorer) pool(variant string) []*cserve.Server {
	if variant != cserve.Plain {
		return e.srvs
	}
	if e.plain == nil {
		e.plain = make([]*cserve.Server, len(e.srvs))
		ev.ParFor(len(e.plain), func(_, i int) {
			s, err := e.b.Start(cserve.Plain)
			if err != nil {
				ev.Fatal("cserve start: %v", err)
			}
			e.plain[i] = s
		})
	}
	return e.plain
}

// search is the BFS state of one package; levels of all packages are interleaved (iterative
// deepening across packages) so that a run that hits its budget has covered every package to the
// same depth.
type search struct {
	variant                                         string
	secs                                            float64
	p                                               *pkg
	roots                                           []root
	ops                                             []op
	visited                                         map[key]int32
	recs                                            []stateRec
	frontier                                        []int32
	trans                                           int64
	complete                                        bool
	depthN                                          []int
	crashes                                         atomic.Int32
	dead                                            atomic.Bool // too many crashes / hangs: the package is abandoned (reported incomplete)
	hStatus, hOutcome, hRule, hLife, hCS, hContract map[string]int64
}

func (e *explorer) newSearch(p *pkg) *search {
	r := e.r
	s := &search{p: p, roots: rootsFor(p), ops: opsFor(p, e.thorough), visited: map[key]int32{}, complete: true,
		hStatus: map[string]int64{}, hOutcome: map[string]int64{}, hRule: map[string]int64{}, hLife: map[string]int64{}, hCS: map[string]int64{}, hContract: map[string]int64{}}
	s.variant = e.variantFor(p)
	srv := e.pool(s.variant)[0]
	for ri, rt := range s.roots {
		res, err := srv.Do(cserve.FreeAll(), cserve.New(0, p.name, rt.New), cserve.Hash(0))
		if err != nil {
			ev.Fatal("C08: %s: root: %v", p.name, err)
		}
		if res[1].Err != "" {
			ev.Fatal("C08: %s: root: %s", p.name, res[1].Err)
		}
		if !rt.New.NoInit && !res[1].OK {
			r.Violation("initialize:default:memory=garbage:want=ok:got="+statusClass(&res[1]),
				fmt.Sprintf("%s: initialize with the right sizeof and version on fresh memory returned %q", p.name, res[1].Status),
				witness{Package: p.name, Variant: s.variant, Root: rt})
			continue
		}
		k := keyOf(&res[2].Hash, rt.m)
		if _, ok := s.visited[k]; ok {
			continue
		}
		s.visited[k] = int32(len(s.recs))
		s.recs = append(s.recs, stateRec{parent: -1, op: int16(ri), m: rt.m, hash: res[2].Hash})
	}
	for i := range s.recs {
		s.frontier = append(s.frontier, int32(i))
	}
	s.depthN = []int{len(s.recs)}
	return s
}

// level expands the current frontier (all states at distance `depth` from a root).
func (e *explorer) level(s *search, depth int) {
	r, p := e.r, s.p
	frontier := s.frontier
	if len(frontier) == 0 || s.dead.Load() {
		return
	}
	if r.Expired() {
		s.complete = false
		return
	}
	t0 := time.Now()
	defer func() { s.secs += time.Since(t0).Seconds() }()
	results := make([][]succ, len(frontier))
	var next int
	var wg sync.WaitGroup
	var nmu sync.Mutex
	srvs := e.pool(s.variant)
	nw := min(len(srvs), (len(frontier)+batchStates-1)/batchStates)
	for w := 0; w < nw; w++ {
		wg.Add(1)
		go func(w int) {
			defer wg.Done()
			for {
				nmu.Lock()
				j := next
				next += batchStates
				nmu.Unlock()
				if j >= len(frontier) || r.Expired() || s.dead.Load() {
					return
				}
				hi := min(j+batchStates, len(frontier))
				copy(results[j:hi], e.expandBatch(srvs[w], s, frontier[j:hi]))
			}
		}(w)
	}
	wg.Wait()
	// merge in frontier order: deterministic whatever the scheduling was
	var nf []int32
	for j, si := range frontier {
		if results[j] == nil {
			s.complete = false
			continue
		}
		for _, sc := range results[j] {
			s.trans++
			o := s.ops[sc.op]
			mk := func() witness {
				rootIdx, path, ms := pathOf(s.recs, si)
				var st []step
				for k, oi := range path {
					c0, _ := cmdsFor(p, ms[k], s.ops[oi], 0)
					st = append(st, step{s.ops[oi], c0})
				}
				st = append(st, step{o, sc.cmds})
				return witness{Package: p.name, Variant: s.variant, Root: s.roots[rootIdx], Steps: st}
			}
			if sc.crash != nil {
				fr := sc.crash.Frames(3)
				sig := fmt.Sprintf("crash:%s:%s:%s", opSigName(p, o), sc.crash.Kind, strings.Join(fr, "<"))
				r.Violation(sig, fmt.Sprintf("%s: %s in model state %s: the server died: %s", p.name, o, s.recs[si].m, sc.crash.Summary()), mk())
				continue
			}
			for _, f := range sc.fs {
				r.Violation(f.sig, f.what, mk())
			}
			s.hRule[sc.rule]++
			if sc.stat != "" {
				s.hStatus[opSigName(p, o)+" -> "+sc.stat]++
				if o.Kind == opCall {
					s.hOutcome[outcomeClass(sc.stat)]++
				}
			}
			if sc.cflag&^cserve.InfoMask != 0 {
				s.hContract["info:dst-scribbled-beyond-wi"]++
			}
			if sc.cflag&(cserve.CSrcMetaChanged|cserve.CDstMetaChanged) != 0 {
				s.hContract["beyond-statement:"+strings.Join(cserve.ContractNames(sc.cflag&(cserve.CSrcMetaChanged|cserve.CDstMetaChanged)), "+")]++
			}
			s.hLife[lifeNames[s.recs[si].m.Life]+" -> "+lifeNames[sc.m.Life]]++
			k := keyOf(&sc.hash, sc.m)
			if _, ok := s.visited[k]; ok {
				continue
			}
			s.visited[k] = int32(len(s.recs))
			s.recs = append(s.recs, stateRec{parent: si, op: int16(sc.op), depth: int8(depth + 1), m: sc.m, hash: sc.hash})
			nf = append(nf, int32(len(s.recs)-1))
			if p.kind == cserve.KindImageDecoder && sc.m.Life != lifeRaw && sc.m.Life != lifeDisabled {
				s.hCS[csName(sc.m.CS)]++
			}
		}
	}
	s.frontier = nf
	s.depthN = append(s.depthN, len(nf))
	if s.dead.Load() {
		s.complete = false
		s.frontier = nil
		fmt.Printf("C08 %s: abandoned after %d crashes/hangs of the server\n", p.name, s.crashes.Load())
	}
}

func outcomeClass(stat string) string {
	switch {
	case stat == "ok":
		return "ok"
	case stat == stInitNotCalled || stat == stDisabled:
		return "refused: " + stat
	case stat == stBadArgument || stat == stInterleaved || stat == stBadCallSeq:
		return "protocol error: " + stat
	case strings.HasPrefix(stat, "#"):
		return "other error"
	case strings.HasPrefix(stat, "$"):
		return "suspension"
	case strings.HasPrefix(stat, "@"):
		return "note"
	}
	return stat
}

// finish folds the package's counts into the run.
func (e *explorer) finish(s *search) {
	r, p := e.r, s.p
	nontriv := int64(0)
	lifeCount := map[string]int64{}
	for _, st := range s.recs {
		if st.parent >= 0 && st.m.Life != lifeRaw {
			nontriv++
		}
		lifeCount[st.m.String()]++
	}
	e.states += int64(len(s.recs))
	e.transitions += s.trans
	e.nontrivial += nontriv
	if !s.complete {
		r.MarkCapped()
	}
	r.MergeHist("status_by_call/"+cserve.KindName(p.kind), s.hStatus)
	r.MergeHist("call_outcomes/"+p.name, s.hOutcome)
	r.MergeHist("model_rule_applied", s.hRule)
	r.MergeHist("life_transitions", s.hLife)
	if len(s.hCS) > 0 {
		r.MergeHist("call_sequence_sets_reached/"+p.name, s.hCS)
	}
	if len(s.hContract) > 0 {
		r.MergeHist("contract_information", s.hContract)
	}
	r.MergeHist("model_states/"+p.name, lifeCount)
	r.HistAdd("states_per_package", p.name, int64(len(s.recs)))
	r.HistAdd("transitions_per_package", p.name, s.trans)
	// one concrete deepest history per package as a sample (the last suspended state if there is one)
	pick := int32(len(s.recs) - 1)
	for i := len(s.recs) - 1; i >= 0; i-- {
		if s.recs[i].m.Life == lifeSusp {
			pick = int32(i)
			break
		}
	}
	if pick >= 0 {
		rootIdx, path, ms := pathOf(s.recs, pick)
		var h []string
		for k, oi := range path {
			h = append(h, fmt.Sprintf("[%s] %s", ms[k], s.ops[oi]))
		}
		h = append(h, fmt.Sprintf("[%s]", s.recs[pick].m))
		e.histories = append(e.histories, map[string]any{"package": p.name, "root": s.roots[rootIdx].Name, "history": h})
	}
	var ds []string
	for _, n := range s.depthN {
		ds = append(ds, fmt.Sprint(n))
	}
	fmt.Printf("C08 %-28s kind=%-16s ops=%d states=%d transitions=%d new-states-per-depth=[%s] %.0fs on %s; seed=%s (%d bytes, plain decode: %s)%s\n",
		p.name, cserve.KindName(p.kind), len(s.ops), len(s.recs), s.trans, strings.Join(ds, " "), s.secs, s.variant, p.seedSrc, len(p.seed), p.seedOK,
		map[bool]string{true: "", false: "  [budget hit: incomplete]"}[s.complete])
}

func opSigName(p *pkg, o op) string {
	switch o.Kind {
	case opCall:
		return cserve.KindName(p.kind) + "." + o.String()
	}
	return o.String()
}

func sortedKeys(m map[string]int64) []string {
	var k []string
	for s := range m {
		k = append(k, s)
	}
	sort.Strings(k)
	return k
}
