// C13: RAC write -> read round trip, spec-valid file, sticky failures.
//
// Bounded-exhaustive enumeration of (payload, Write partition, codec, sizing,
// page size, index location, temp-file kind, resources) and, for a reduced
// product, of every fault point of the underlying io.Writer / TempFile.
package main

import (
	"bytes"
	"encoding/json"
	"errors"
	"fmt"
	"io"
	"os"
	"runtime/debug"
	"strings"
	"sync/atomic"
	"time"

	"verif/internal/ev"
	"verif/internal/racspec"

	"github.com/google/wuffs/lib/rac"
	"github.com/google/wuffs/lib/raclz4"
	"github.com/google/wuffs/lib/raczlib"
	"github.com/google/wuffs/lib/raczstd"
)

type Config struct {
	Codec      string `json:"codec"` // zlib | lz4 | zstd
	DChunk     uint64 `json:"dchunk"`
	CChunk     uint64 `json:"cchunk"`
	CPage      uint64 `json:"cpage"`
	AtStart    bool   `json:"index_at_start"`
	SeekTemp   bool   `json:"seekable_tempfile"`
	Resources  int    `json:"resources"` // 0,1,2 shared dictionaries (+ one unused when 3)
	Partition  []int  `json:"partition"` // sizes of successive Write calls
	FaultAt    int    `json:"fault_at,omitempty"`    // 1-based op index, 0 = none
	FaultOnce  bool   `json:"fault_once,omitempty"`  // only that op fails
	FaultWhere string `json:"fault_where,omitempty"` // writer | temp
}

type Witness struct {
	Cfg     Config `json:"config"`
	Payload []byte `json:"payload"`
	Clause  string `json:"clause"`
	Detail  string `json:"detail"`
}

var errInjected = errors.New("injected fault")

// opCounter counts operations on an underlying device and fails the k-th.
type opCounter struct {
	n       int
	failAt  int
	once    bool
	faulted bool
}

func (c *opCounter) step() error {
	c.n++
	if c.failAt != 0 && (c.n == c.failAt || (!c.once && c.n > c.failAt)) {
		c.faulted = true
		return errInjected
	}
	return nil
}

type faultWriter struct {
	buf bytes.Buffer
	c   *opCounter
}

func (w *faultWriter) Write(p []byte) (int, error) {
	if err := w.c.step(); err != nil {
		return 0, err
	}
	return w.buf.Write(p)
}

// bufTemp is a non-seekable temp file (separate read and write positions).
type bufTemp struct {
	buf bytes.Buffer
	c   *opCounter
}

func (t *bufTemp) Write(p []byte) (int, error) {
	if err := t.c.step(); err != nil {
		return 0, err
	}
	return t.buf.Write(p)
}
func (t *bufTemp) Read(p []byte) (int, error) {
	if err := t.c.step(); err != nil {
		return 0, err
	}
	return t.buf.Read(p)
}

// seekTemp is a seekable in-memory file whose position starts at a non-zero offset.
type seekTemp struct {
	data []byte
	pos  int64
	c    *opCounter
}

func (t *seekTemp) Write(p []byte) (int, error) {
	if err := t.c.step(); err != nil {
		return 0, err
	}
	end := t.pos + int64(len(p))
	if end > int64(len(t.data)) {
		t.data = append(t.data, make([]byte, end-int64(len(t.data)))...)
	}
	copy(t.data[t.pos:], p)
	t.pos = end
	return len(p), nil
}
func (t *seekTemp) Read(p []byte) (int, error) {
	if err := t.c.step(); err != nil {
		return 0, err
	}
	if t.pos >= int64(len(t.data)) {
		return 0, io.EOF
	}
	n := copy(p, t.data[t.pos:])
	t.pos += int64(n)
	return n, nil
}
func (t *seekTemp) Seek(off int64, whence int) (int64, error) {
	if err := t.c.step(); err != nil {
		return 0, err
	}
	switch whence {
	case io.SeekCurrent:
		off += t.pos
	case io.SeekEnd:
		off += int64(len(t.data))
	}
	if off < 0 {
		return 0, errors.New("negative seek")
	}
	t.pos = off
	return off, nil
}

var dicts = [][]byte{
	[]byte("aaaaaaaaabababababab\x01\x01\x01aaaa"),
	[]byte("the quick brown fox \x00\x00\x00\x01a\x01a"),
	[]byte("never used dictionary"),
}

// bigDicts are two incompressible 2 KiB dictionaries: a chunk that is an excerpt of one of
// them compresses far better with it than without (so the Writer picks it), any other chunk
// does not. Selected by Config.Resources = 11 (first only), 12 (both), 13 (both + an unused one).
var bigDicts = func() (d [3][]byte) {
	x := uint32(12345)
	for k := range d {
		d[k] = make([]byte, 2048)
		for i := range d[k] {
			x = x*1664525 + 1013904223
			d[k][i] = byte(x >> 24)
		}
	}
	return
}()

// hugeDicts are two incompressible 24 KiB dictionaries for long chunks (Config.Resources = 21, 22).
var hugeDicts = func() (d [2][]byte) {
	x := uint32(777)
	for k := range d {
		d[k] = make([]byte, 24<<10)
		for i := range d[k] {
			x = x*1664525 + 1013904223
			d[k][i] = byte(x >> 24)
		}
	}
	return
}()

// dictPayload builds nChunks chunks of chunkLen bytes: chunk i is an excerpt of bigDicts[use[i]-1]
// when use[i] is 1 or 2, and unrelated incompressible bytes otherwise.
func dictPayload(nChunks, chunkLen int, use map[int]int) []byte {
	p := make([]byte, 0, nChunks*chunkLen)
	x := uint32(99)
	for i := 0; i < nChunks; i++ {
		fill := chunkLen
		if u := use[i]; u > 0 {
			ex := chunkLen
			d := bigDicts[u-1]
			if chunkLen > 400 {
				// a longer chunk: an excerpt (a quarter of the chunk, at most 12000 bytes) of a 24 KiB
				// dictionary followed by incompressible bytes, so that its compressed size is about
				// chunkLen - excerpt and the dictionary still wins the Writer's "below 98.4% of the
				// baseline" test up to ~700 KB chunks
				ex, d = chunkLen/4, hugeDicts[u-1]
				if ex > 12000 {
					ex = 12000
				}
			}
			off := (i * 37) % (len(d) - ex)
			p = append(p, d[off:off+ex]...)
			fill -= ex
		}
		for j := 0; j < fill; j++ {
			x = x*22695477 + 1
			p = append(p, byte(x>>24))
		}
	}
	return p
}

func codecWriter(name string) rac.CodecWriter {
	switch name {
	case "zlib":
		return &raczlib.CodecWriter{}
	case "lz4":
		return &raclz4.CodecWriter{}
	case "zstd":
		return &raczstd.CodecWriter{}
	}
	panic("codec")
}

func codecReaders() []rac.CodecReader {
	return []rac.CodecReader{&raczlib.CodecReader{}, &raclz4.CodecReader{}, &raczstd.CodecReader{}}
}

type outcome struct {
	file      []byte
	closeErr  error
	ops       int // ops on the faulted device class
	wOps      int
	tOps      int
	faulted   bool
	stickyBad string // non-empty: stickiness violated
	panicked  string
}

// runWriter performs one history on the real rac.Writer.
func runWriter(cfg Config, payload []byte) (o outcome) {
	wc, tc := &opCounter{}, &opCounter{}
	if cfg.FaultAt > 0 {
		c := wc
		if cfg.FaultWhere == "temp" {
			c = tc
		}
		c.failAt, c.once = cfg.FaultAt, cfg.FaultOnce
	}
	fw := &faultWriter{c: wc}
	w := &rac.Writer{
		Writer:      fw,
		CodecWriter: codecWriter(cfg.Codec),
		CPageSize:   cfg.CPage,
		CChunkSize:  cfg.CChunk,
		DChunkSize:  cfg.DChunk,
	}
	if cfg.AtStart {
		w.IndexLocation = rac.IndexLocationAtStart
		if cfg.SeekTemp {
			w.TempFile = &seekTemp{data: []byte("PREFIXPREFIX!"), pos: 13, c: tc}
		} else {
			w.TempFile = &bufTemp{c: tc}
		}
	}
	for i := 0; i < cfg.Resources && i < 3; i++ {
		w.ResourcesData = append(w.ResourcesData, dicts[i])
	}
	if cfg.Resources > 20 {
		w.ResourcesData = nil
		for i := 0; i < cfg.Resources-20 && i < 2; i++ {
			w.ResourcesData = append(w.ResourcesData, hugeDicts[i])
		}
	} else if cfg.Resources > 10 {
		w.ResourcesData = nil
		for i := 0; i < cfg.Resources-10 && i < 3; i++ {
			w.ResourcesData = append(w.ResourcesData, bigDicts[i])
		}
	}
	defer func() {
		if e := recover(); e != nil {
			o.panicked = fmt.Sprint(e)
		}
		o.wOps, o.tOps = wc.n, tc.n
		o.faulted = wc.faulted || tc.faulted
		o.file = fw.buf.Bytes()
	}()
	reported := false
	pos := 0
	for i, n := range cfg.Partition {
		_, err := w.Write(payload[pos : pos+n])
		pos += n
		if err != nil {
			reported = true
		} else if reported {
			o.stickyBad = fmt.Sprintf("Write #%d returned nil after an earlier call had returned an error", i+1)
		}
	}
	o.closeErr = w.Close()
	if o.closeErr == nil && reported {
		o.stickyBad = "Close returned nil after an earlier Write had returned an error"
	}
	if err2 := w.Close(); err2 == nil && o.closeErr != nil {
		o.stickyBad = fmt.Sprintf("second Close returned nil after the first returned %v", o.closeErr)
	}
	if o.closeErr != nil {
		if _, err := w.Write([]byte("x")); err == nil {
			o.stickyBad = "Write returned nil after Close had returned an error"
		}
	}
	return o
}

func zeroRunShape(p []byte) string {
	// shape of a payload by zero-run structure: Z<n> / N<n> runs (n capped)
	var sb strings.Builder
	for i := 0; i < len(p); {
		j := i
		z := p[i] == 0
		for j < len(p) && (p[j] == 0) == z {
			j++
		}
		n := j - i
		c := "N"
		if z {
			c = "Z"
		}
		if n > 9 {
			sb.WriteString(c + "+")
		} else {
			fmt.Fprintf(&sb, "%s%d", c, n)
		}
		i = j
		if sb.Len() > 24 {
			sb.WriteString("..")
			break
		}
	}
	return sb.String()
}

func sizing(cfg Config) string {
	s := fmt.Sprintf("%s/", cfg.Codec)
	if cfg.DChunk > 0 {
		s += "D"
	} else if cfg.CChunk > 0 {
		s += "C"
	} else {
		s += "default"
	}
	if cfg.AtStart {
		s += "/start"
	} else {
		s += "/end"
	}
	if cfg.CPage > 0 {
		s += "/paged"
	}
	if cfg.Resources > 0 {
		s += "/res"
	}
	return s
}

type stats struct {
	runs, ok, closeErr, faultRuns, nontrivial atomic.Int64
}

func readBack(file []byte) (out []byte, err error, panicked string) {
	defer func() {
		if e := recover(); e != nil {
			panicked = fmt.Sprint(e)
		}
	}()
	r := &rac.Reader{ReadSeeker: bytes.NewReader(file), CompressedSize: int64(len(file)), CodecReaders: codecReaders()}
	out, err = io.ReadAll(r)
	if cerr := r.Close(); err == nil && cerr != nil {
		err = cerr
	}
	return
}

// checkOne runs one (config, payload) and applies the oracles; returns ops count of the fault-free run.
func checkOne(r *ev.Run, st *stats, cfg Config, payload []byte, hist map[string]int64) (wOps, tOps int, closed bool) {
	st.runs.Add(1)
	o := runWriter(cfg, payload)
	fail := func(clause, detail string) {
		// shape class of the payload: does a zero run precede later non-zero data?
		shape := "no-interior-zero-run"
		if i := bytes.IndexByte(payload, 0); i >= 0 && len(bytes.TrimLeft(payload[i:], "\x00")) > 0 {
			shape = "interior-zero-run"
		}
		sig := fmt.Sprintf("%s:%s", clause, sizing(cfg))
		if cfg.FaultAt > 0 {
			sig += ":fault-" + cfg.FaultWhere
			if cfg.FaultOnce {
				sig += "-once"
			}
		} else if clause == "wrong-bytes" || clause == "spec-invalid" || clause == "independent-decode" {
			sig += ":" + shape
		}
		r.Violation(sig, fmt.Sprintf("%s: %s (config %+v, payload %d bytes %q)", clause, detail, cfg, len(payload), trunc(payload, 48)),
			Witness{cfg, payload, clause, detail})
	}
	if o.panicked != "" {
		fail("panic", o.panicked)
		return o.wOps, o.tOps, false
	}
	if o.stickyBad != "" {
		fail("not-sticky", o.stickyBad)
	}
	if cfg.FaultAt > 0 {
		st.faultRuns.Add(1)
		if o.faulted {
			hist["fault:"+cfg.FaultWhere+":reported"]++
			if o.closeErr == nil {
				fail("fault-unreported", "an underlying operation failed but Close returned nil")
			}
			return o.wOps, o.tOps, false
		}
		hist["fault:"+cfg.FaultWhere+":not-reached"]++
		// fault index beyond the run's operations: falls through to the normal oracles
	}
	if o.closeErr != nil {
		st.closeErr.Add(1)
		hist["close-error:"+o.closeErr.Error()]++
		return o.wOps, o.tOps, false
	}
	st.ok.Add(1)
	// (1) specification validity
	_, leaves, err := racspec.Validate(o.file)
	if err != nil {
		fail("spec-invalid", err.Error())
		return o.wOps, o.tOps, true
	}
	hist[fmt.Sprintf("leaves:%d", bucket(len(leaves)))]++
	for _, l := range leaves {
		if n := l.Primary[1] - l.Primary[0]; n >= 1000 {
			hist[fmt.Sprintf("primary-crange-KiB:%d", (n+1023)/1024)]++
		}
	}
	if cfg.Resources > 0 {
		nd := 0
		for _, l := range leaves {
			if l.Secondary[1] > l.Secondary[0] {
				nd++
			}
		}
		hist[fmt.Sprintf("leaves-using-a-shared-dictionary:%d", bucket(nd))]++
	}
	// (2) the real Reader returns the payload
	got, rerr, rp := readBack(o.file)
	if rp != "" {
		fail("reader-panic", rp)
	} else if rerr != nil {
		fail("reader-error", rerr.Error())
	} else if !bytes.Equal(got, payload) {
		fail("wrong-bytes", diffAt(got, payload))
	}
	// (3) independent walker + compress/zlib
	if out, ok, derr := racspec.DecodeZlib(o.file, leaves); ok {
		if derr != nil {
			fail("independent-decode", derr.Error())
		} else if !bytes.Equal(out, payload) {
			fail("independent-decode", diffAt(out, payload))
		}
		hist["independent-zlib-decodes"]++
	}
	if len(leaves) > 1 {
		st.nontrivial.Add(1)
	}
	return o.wOps, o.tOps, true
}

func bucket(n int) int {
	switch {
	case n <= 4:
		return n
	case n <= 16:
		return 16
	case n <= 255:
		return 255
	case n <= 256:
		return 256
	default:
		return 1000
	}
}

func trunc(b []byte, n int) []byte {
	if len(b) > n {
		return b[:n]
	}
	return b
}

func diffAt(got, want []byte) string {
	n := min(len(got), len(want))
	for i := 0; i < n; i++ {
		if got[i] != want[i] {
			return fmt.Sprintf("lengths %d vs %d, first difference at %d: got %#x want %#x", len(got), len(want), i, got[i], want[i])
		}
	}
	return fmt.Sprintf("lengths %d vs %d, one is a prefix of the other", len(got), len(want))
}

func allPartitions(n int) [][]int {
	if n == 0 {
		return [][]int{{}, {0}}
	}
	var out [][]int
	for mask := 0; mask < 1<<(n-1); mask++ {
		var p []int
		run := 1
		for i := 0; i < n-1; i++ {
			if mask>>i&1 == 1 {
				p = append(p, run)
				run = 1
			} else {
				run++
			}
		}
		p = append(p, run)
		out = append(out, p)
	}
	return out
}

func uniformPartition(n, step int) []int {
	var p []int
	for n > 0 {
		s := min(step, n)
		p = append(p, s)
		n -= s
	}
	return p
}

// somePartitions is memoised: the job list holds one Partition slice per job, and recomputing the
// all-1-byte partition of a 70000-byte payload for every configuration made the thorough tier's job
// list tens of gigabytes (the run was killed by the kernel's OOM killer).
var partMemo = map[int][][]int{}

func somePartitions(n int) [][]int {
	if p, ok := partMemo[n]; ok {
		return p
	}
	p := somePartitions1(n)
	partMemo[n] = p
	return p
}

func somePartitions1(n int) [][]int {
	out := [][]int{{n}, uniformPartition(n, 1), uniformPartition(n, 3), uniformPartition(n, 7)}
	for _, cut := range []int{1, n / 2, n - 1} {
		if cut > 0 && cut < n {
			out = append(out, []int{cut, n - cut})
		}
	}
	if n > 4 {
		out = append(out, []int{1, n - 3, 2}, []int{0, n, 0})
	}
	return out
}

type job struct {
	cfg     Config
	payload []byte
}

func main() {
	if len(os.Args) > 2 && os.Args[1] == "replay" {
		replay(os.Args[2])
		return
	}
	r := ev.Start("C13", "fault_enumeration")
	r.SetBudget(6*time.Minute, 40*time.Minute)
	st := &stats{}
	thorough := r.Thorough()

	var jobs []job
	add := func(c Config, p []byte) { jobs = append(jobs, job{c, p}) }

	// ---- A. DChunkSize family: short payloads, every partition ---------------------------
	maxLen := 5
	if thorough {
		maxLen = 7
	}
	alpha := []byte{0x00, 0x01, 'a'}
	var shorts [][]byte
	for L := 0; L <= maxLen; L++ {
		n := 1
		for i := 0; i < L; i++ {
			n *= 3
		}
		for k := 0; k < n; k++ {
			p := make([]byte, L)
			kk := k
			for i := L - 1; i >= 0; i-- {
				p[i] = alpha[kk%3]
				kk /= 3
			}
			shorts = append(shorts, p)
		}
	}
	for _, p := range shorts {
		for _, part := range allPartitions(len(p)) {
			for _, d := range []uint64{1, 2, 3, 7, 64} {
				if int(d) > len(p)+1 && d != 64 {
					continue
				}
				for _, atStart := range []bool{false, true} {
					for _, page := range []uint64{0, 4} {
						add(Config{Codec: "zlib", DChunk: d, AtStart: atStart, CPage: page, Partition: part}, p)
					}
				}
			}
		}
	}
	nA := len(jobs)

	// ---- B. CChunkSize family: zero / non-zero run alternations -------------------------
	runLens := []int{1, 2, 3, 5}
	minRuns, maxRuns := 4, 5
	if thorough {
		maxRuns = 7
	}
	var runPayloads [][]byte
	for nr := minRuns; nr <= maxRuns; nr++ {
		tot := 1
		for i := 0; i < nr; i++ {
			tot *= len(runLens)
		}
		for first := 0; first < 2; first++ {
			for k := 0; k < tot; k++ {
				var p []byte
				kk := k
				for i := 0; i < nr; i++ {
					l := runLens[kk%len(runLens)]
					kk /= len(runLens)
					for j := 0; j < l; j++ {
						if (i+first)%2 == 0 {
							p = append(p, 0)
						} else {
							p = append(p, byte('a'+(i+j)%7))
						}
					}
				}
				runPayloads = append(runPayloads, p)
			}
		}
	}
	cchunks := []uint64{9, 10, 12}
	if thorough {
		cchunks = []uint64{9, 10, 11, 12, 14, 17, 24, 40}
	}
	for _, p := range runPayloads {
		for _, step := range []int{1, 2, 3, 5, len(p) + 1} {
			for _, cc := range cchunks {
				add(Config{Codec: "zlib", CChunk: cc, Partition: uniformPartition(len(p), step)}, p)
			}
		}
	}
	nB := len(jobs) - nA

	// ---- C. structured longer payloads x codecs x sizing ---------------------------------
	lcg := uint32(12345)
	mk := func(n int, kind string) []byte {
		p := make([]byte, n)
		for i := range p {
			switch kind {
			case "zeros":
			case "text":
				p[i] = "the quick brown fox jumps over the lazy dog. "[i%45]
			case "alt":
				if (i/5)%2 == 0 {
					p[i] = byte('a' + i%3)
				}
			case "rand":
				lcg = lcg*1664525 + 1013904223
				p[i] = byte(lcg >> 24)
			case "zerotail":
				if i < n/3 {
					p[i] = byte(1 + i%200)
				}
			}
		}
		return p
	}
	lengths := []int{0, 1, 2, 9, 17, 33, 65, 200, 1000}
	if thorough {
		lengths = nil
		for i := 0; i <= 70; i++ {
			lengths = append(lengths, i)
		}
		lengths = append(lengths, 200, 1000, 4095, 4097, 70000)
	}
	for _, n := range lengths {
		for _, kind := range []string{"zeros", "text", "alt", "rand", "zerotail"} {
			p := mk(n, kind)
			for _, codec := range []string{"zlib", "lz4", "zstd"} {
				for _, sz := range []Config{{DChunk: 0}, {DChunk: 7}, {DChunk: 64}, {CChunk: 20}, {CChunk: 64}, {CChunk: 4096}} {
					if sz.CChunk > 0 && codec != "zlib" {
						continue
					}
					for _, page := range []uint64{0, 8, 128, 4096} {
						for _, loc := range []struct{ s, k bool }{{false, false}, {true, false}, {true, true}} {
							for _, res := range []int{0, 1, 3} {
								if res > 0 && (page == 8 || n > 1000) {
									continue
								}
								if n >= 4095 && (page == 8 || sz.DChunk == 7) {
									continue
								}
								for pi, part := range somePartitions(n) {
									if n > 300 && pi > 2 {
										continue
									}
									if codec == "zstd" {
										// a zstd CodecWriter costs 0.3-0.6 s of CPU to set up (cgo, high level):
										// zstd gets the default point of every (length, kind, sizing) and one
										// excursion per dimension at n=65 (thorough: at every length <= 70)
										nd := 0
										for _, b := range []bool{page != 0, loc.s, res != 0, pi != 0} {
											if b {
												nd++
											}
										}
										if nd > 1 || (nd == 1 && !(n == 65 || (thorough && n <= 70 && kind == "alt"))) {
											continue
										}
									}
									if !thorough {
										// quick: at most two of {page, location, resources, partition} away from their defaults
										nd := 0
										for _, b := range []bool{page != 0, loc.s, res != 0, pi != 0} {
											if b {
												nd++
											}
										}
										if nd > 2 || (n > 200 && sz.DChunk == 7) {
											continue
										}
									}
									c := sz
									c.Codec, c.CPage, c.AtStart, c.SeekTemp, c.Resources, c.Partition = codec, page, loc.s, loc.k, res, part
									add(c, p)
								}
							}
						}
					}
				}
			}
		}
	}
	// arity-255 boundary: many one-byte chunks => multi-level index
	for _, n := range []int{254, 255, 256, 257, 300} {
		p := mk(n, "text")
		for _, loc := range []bool{false, true} {
			add(Config{Codec: "zlib", DChunk: 1, AtStart: loc, Partition: []int{n}}, p)
			add(Config{Codec: "zlib", DChunk: 1, AtStart: loc, CPage: 4, Partition: uniformPartition(n, 100)}, p)
		}
	}
	// shared dictionaries that are really chosen (chunks of 400 bytes, so that the codec
	// writers consider dictionaries at all), around the arity-255 boundary where a branch
	// node must list the resources its own children use: dictionary users at chunk {a, s}
	// for every s near the boundaries, x 1 or 2 dictionaries x index location x codec.
	{
		type du struct {
			n   int
			use map[int]int
		}
		var fam []du
		for _, n := range []int{3, 300} {
			fam = append(fam, du{n, map[int]int{}}, du{n, map[int]int{0: 1}}, du{n, map[int]int{1: 1, 2: 2}}, du{n, map[int]int{0: 2, n - 1: 1}})
		}
		lo, hi := 249, 259
		if thorough {
			lo, hi = 240, 270
		}
		for s := lo; s <= hi; s++ {
			fam = append(fam, du{300, map[int]int{10: 1, s: 1}}, du{300, map[int]int{10: 1, s: 2}}, du{300, map[int]int{s: 1, s + 1: 2, 299: 1}})
		}
		all := map[int]int{}
		for i := 0; i < 520; i++ {
			all[i] = 1 + i%2
		}
		fam = append(fam, du{520, all})
		for _, f := range fam {
			p := dictPayload(f.n, 400, f.use)
			for _, res := range []int{11, 12, 13} {
				for _, loc := range []bool{false, true} {
					for _, codec := range []string{"zlib", "zstd"} {
						if codec == "zstd" && (f.n > 3 || res != 12) {
							continue // zstd writers are expensive to set up; one point
						}
						add(Config{Codec: codec, DChunk: 400, AtStart: loc, Resources: res, Partition: []int{len(p)}}, p)
					}
				}
			}
		}
	}
	// compressed chunk sizes around the unit boundaries of the index's one-byte CLen field
	// (1024-byte units; 0 = "unbounded" above 255 units): two chunks per file whose compressed
	// size sweeps k KiB for k in {1, 2, 255, 256} in 128-byte steps (thorough: 32), without a
	// dictionary and with 1 / 2 really used dictionaries (STag index 0 and 1), both index
	// locations. Histogram "primary-crange-KiB" shows which sizes the written files really had.
	{
		step := 128
		if thorough {
			step = 32
		}
		for _, span := range [][2]int{{1000, 4200}, {253*1024 + 11000, 259*1024 + 11000}} {
			for d := span[0]; d <= span[1]; d += step {
				for _, res := range []int{0, 21, 22} {
					use := map[int]int{}
					if res == 21 {
						use = map[int]int{0: 1, 1: 1}
					} else if res == 22 {
						use = map[int]int{0: 1, 1: 2}
					}
					p := dictPayload(2, d, use)
					for _, loc := range []bool{false, true} {
						add(Config{Codec: "zlib", DChunk: uint64(d), AtStart: loc, Resources: res, Partition: []int{len(p)}}, p)
					}
				}
			}
		}
	}
	if thorough {
		p := mk(255*255+3, "alt")
		add(Config{Codec: "lz4", DChunk: 1, Partition: []int{len(p)}}, p)
	}
	nC := len(jobs) - nA - nB

	// ---- D. fault sequences -------------------------------------------------------------
	var faultBases []job
	for _, p := range [][]byte{{}, []byte("a"), mk(40, "alt"), mk(300, "text"), mk(64, "zerotail")} {
		for _, sz := range []Config{{DChunk: 0}, {DChunk: 7}, {CChunk: 20}} {
			for _, loc := range []struct{ s, k bool }{{false, false}, {true, false}, {true, true}} {
				for _, page := range []uint64{0, 8} {
					for _, res := range []int{0, 1} {
						part := uniformPartition(len(p), 13)
						c := sz
						c.Codec, c.CPage, c.AtStart, c.SeekTemp, c.Resources, c.Partition = "zlib", page, loc.s, loc.k, res, part
						faultBases = append(faultBases, job{c, p})
					}
				}
			}
		}
	}
	r.Add("jobs_A_dchunk_short_all_partitions", int64(nA))
	r.Add("jobs_B_cchunk_zero_runs", int64(nB))
	r.Add("jobs_C_structured", int64(nC))
	r.Add("fault_base_configs", int64(len(faultBases)))

	// run A..C
	debug.SetGCPercent(200)
	t0 := time.Now()
	for fi, fam := range [][2]int{{0, nA}, {nA, nA + nB}, {nA + nB, len(jobs)}} {
		ev.ParFor(fam[1]-fam[0], func(w, i int) {
			if r.Expired() {
				return
			}
			j := jobs[fam[0]+i]
			h := map[string]int64{}
			tj := time.Now()
			checkOne(r, st, j.cfg, j.payload, h)
			r.HistAdd("ms_by_sizing", fmt.Sprintf("%s/len%d", sizing(j.cfg), len(j.payload)), time.Since(tj).Milliseconds())
			h["family:"+sizing(j.cfg)]++
			r.MergeHist("outcomes", h)
		})
		r.Add(fmt.Sprintf("phase_ms_family_%c", 'A'+fi), time.Since(t0).Milliseconds())
		t0 = time.Now()
	}
	// run D: for each base, the fault-free run gives the op counts; then every k.
	var faultPoints atomic.Int64
	ev.ParFor(len(faultBases), func(w, i int) {
		if r.Expired() {
			return
		}
		h := map[string]int64{}
		b := faultBases[i]
		wOps, tOps, _ := checkOne(r, st, b.cfg, b.payload, h)
		for _, where := range []string{"writer", "temp"} {
			n := wOps
			if where == "temp" {
				n = tOps
			}
			for k := 1; k <= n; k++ {
				for _, once := range []bool{false, true} {
					c := b.cfg
					c.FaultAt, c.FaultOnce, c.FaultWhere = k, once, where
					checkOne(r, st, c, b.payload, h)
					faultPoints.Add(1)
				}
			}
		}
		r.MergeHist("outcomes", h)
	})
	r.Add("phase_ms_family_D_faults", time.Since(t0).Milliseconds())
	r.Add("fault_points", faultPoints.Load())
	r.Add("closes_ok", st.ok.Load())
	r.Add("closes_with_error_no_fault", st.closeErr.Load())
	r.Sample(map[string]any{"config": jobs[nA].cfg, "payload": string(jobs[nA].payload)})
	r.Sample(map[string]any{"config": Config{Codec: "zlib", CChunk: 20, AtStart: true, SeekTemp: true, Partition: []int{13, 13, 13, 1}, FaultAt: 3, FaultOnce: true, FaultWhere: "temp"}, "payload": "40 bytes alternating zero/non-zero runs"})
	r.Finish(ev.Coverage{
		Evaluations:        st.runs.Load(),
		DistinctNontrivial: st.nontrivial.Load() + faultPoints.Load(),
		Rule: "A: every payload over {00,01,'a'} up to length L x every partition into Write calls x DChunkSize{1,2,3,7,64} x index location x CPageSize{0,4}; " +
			"B: every alternation of 4..N zero/non-zero runs with run lengths {1,2,3,5} x uniform write steps {1,2,3,5,all} x CChunkSize set; " +
			"C: structured payloads x {zlib,lz4,zstd} x sizing x page size x index location/temp-file kind x resources x partitions, incl. the arity-255 boundary, compressed chunk sizes swept across the CLen unit boundaries (1, 2, 255, 256 KiB) with 0-2 used dictionaries, and 300/520-chunk files whose chunks really use 1-2 shared dictionaries at every position near the branch boundaries; " +
			"D: for each base configuration every fault point k of the underlying Writer and TempFile (fail-from-k and fail-once). Oracles: independent spec validator, rac.Reader round trip, independent zlib walker; faults: Close non-nil and sticky. " +
			"non-trivial = successful file with more than one leaf, or a fault-point run",
		Exhaustive: true,
	}, []string{"short writes (n < len(p), nil error) are outside io.Writer's contract and not injected", "lz4/zstd chunks are decoded only by the repository's own cgo codecs (no independent decoder in the sandbox)",
		"CPageSize's page-minimising promise is a Writer doc comment, not part of the property, and is not checked"})
}

func replay(path string) {
	b, err := os.ReadFile(path)
	if err != nil {
		ev.Fatal("%v", err)
	}
	var doc struct {
		Witness Witness `json:"witness"`
	}
	json.Unmarshal(b, &doc)
	w := doc.Witness
	o := runWriter(w.Cfg, w.Payload)
	fmt.Printf("config %+v payload %q\n close err=%v faulted=%v sticky=%q panic=%q file=%d bytes\n", w.Cfg, w.Payload, o.closeErr, o.faulted, o.stickyBad, o.panicked, len(o.file))
	if o.closeErr == nil {
		_, leaves, err := racspec.Validate(o.file)
		fmt.Printf(" spec validation: %v (%d leaves)\n", err, len(leaves))
		got, rerr, rp := readBack(o.file)
		fmt.Printf(" reader: err=%v panic=%q equal=%v %s\n", rerr, rp, bytes.Equal(got, w.Payload), diffAt(got, w.Payload))
	}
}
