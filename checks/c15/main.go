// C15: RAC readers survive hostile files: bounded work, no panic, in-file ranges.
//
// Every mutant of a family of small valid files (byte, field and structural
// mutations, checksum repaired and not, truncations, wrong claimed sizes) is
// walked with an operation-counting ReadSeeker under recover().
package main

import (
	"bytes"
	"encoding/json"
	"errors"
	"fmt"
	"io"
	"os"
	"sync/atomic"
	"time"

	"verif/internal/ev"
	"verif/internal/racspec"

	"github.com/google/wuffs/lib/rac"
	"github.com/google/wuffs/lib/raclz4"
	"github.com/google/wuffs/lib/raczlib"
)

var errBudget = errors.New("verif: operation budget exhausted")

// countingRS is an io.ReadSeeker over a byte slice that counts operations and
// fails once a budget is used up (a deterministic work meter).
type countingRS struct {
	data   []byte
	pos    int64
	ops    int
	budget int
	blown  bool
}

func (c *countingRS) Read(p []byte) (int, error) {
	c.ops++
	if c.ops > c.budget {
		c.blown = true
		return 0, errBudget
	}
	if c.pos >= int64(len(c.data)) {
		return 0, io.EOF
	}
	n := copy(p, c.data[c.pos:])
	c.pos += int64(n)
	return n, nil
}

func (c *countingRS) Seek(off int64, whence int) (int64, error) {
	c.ops++
	if c.ops > c.budget {
		c.blown = true
		return 0, errBudget
	}
	switch whence {
	case io.SeekCurrent:
		off += c.pos
	case io.SeekEnd:
		off += int64(len(c.data))
	}
	if off < 0 {
		return 0, errors.New("negative seek")
	}
	c.pos = off
	return off, nil
}

type Witness struct {
	Seed     string `json:"seed"`
	Mutation string `json:"mutation"`
	File     []byte `json:"file"`
	Claimed  int64  `json:"claimed_size"`
	Clause   string `json:"clause"`
	Detail   string `json:"detail"`
}

type result struct {
	kind   string // "" ok
	detail string
	out    string // outcome class for histograms
}

func budgetFor(n int) int { return 4000 + 40*n }

// walk runs the ChunkReader to EOF and checks chunk invariants.
func walk(file []byte, claimed int64) (res result, chunks []rac.Chunk) {
	defer func() {
		if e := recover(); e != nil {
			res = result{kind: "panic-chunkreader", detail: fmt.Sprint(e)}
		}
	}()
	rs := &countingRS{data: file, budget: budgetFor(len(file))}
	cr := &rac.ChunkReader{ReadSeeker: rs, CompressedSize: claimed}
	dsize, err := cr.DecompressedSize()
	if err != nil {
		if rs.blown {
			return result{kind: "unbounded-work", detail: "DecompressedSize used up the operation budget"}, nil
		}
		return result{out: "open-error"}, nil
	}
	pos := int64(0)
	for n := 0; ; n++ {
		c, err := cr.NextChunk()
		if rs.blown {
			return result{kind: "unbounded-work", detail: fmt.Sprintf("NextChunk used up the operation budget of %d after %d chunks", rs.budget, n)}, chunks
		}
		if err == io.EOF {
			if pos != dsize {
				return result{kind: "bad-range", detail: fmt.Sprintf("chunks end at %d but DecompressedSize is %d", pos, dsize)}, chunks
			}
			return result{out: "walk-ok"}, chunks
		}
		if err != nil {
			return result{out: "walk-error"}, chunks
		}
		if n > 100000 {
			return result{kind: "unbounded-work", detail: "more than 100000 chunks from a small file"}, chunks
		}
		if !(c.CPrimary[0] <= c.CPrimary[1]) {
			return result{kind: "bad-range", detail: fmt.Sprintf("chunk %d: CPrimary %v inverted", n, c.CPrimary)}, chunks
		}
		if c.CPrimary[0] < 0 || c.CPrimary[1] > claimed {
			return result{kind: "bad-range", detail: fmt.Sprintf("chunk %d: CPrimary %v outside file of size %d", n, c.CPrimary, claimed)}, chunks
		}
		if c.DRange[0] >= c.DRange[1] {
			return result{kind: "bad-range", detail: fmt.Sprintf("chunk %d: empty or inverted DRange %v", n, c.DRange)}, chunks
		}
		if c.DRange[0] != pos {
			return result{kind: "bad-range", detail: fmt.Sprintf("chunk %d: DRange %v does not continue from %d", n, c.DRange, pos)}, chunks
		}
		pos = c.DRange[1]
		chunks = append(chunks, c)
	}
}

// readSome drives rac.Reader: Seek to start/mid/end and Read up to 4 KiB each.
func readSome(file []byte, claimed int64) (res result, digest []byte) {
	defer func() {
		if e := recover(); e != nil {
			res = result{kind: "panic-reader", detail: fmt.Sprint(e)}
		}
	}()
	rs := &countingRS{data: file, budget: budgetFor(len(file)) * 4}
	r := &rac.Reader{ReadSeeker: rs, CompressedSize: claimed,
		CodecReaders: []rac.CodecReader{&raczlib.CodecReader{}, &raclz4.CodecReader{}}}
	defer r.Close()
	end, err := r.Seek(0, io.SeekEnd)
	if err != nil {
		if rs.blown {
			return result{kind: "unbounded-work", detail: "Reader.Seek used up the operation budget"}, nil
		}
		return result{out: "reader-open-error"}, nil
	}
	buf := make([]byte, 4096)
	var out bytes.Buffer
	for _, off := range []int64{0, end / 2, end - 1, end} {
		if off < 0 {
			continue
		}
		if _, err := r.Seek(off, io.SeekStart); err != nil {
			fmt.Fprintf(&out, "seek-err;")
			break
		}
		total := 0
		for total < len(buf) {
			n, err := r.Read(buf[total:])
			if n < 0 || n > len(buf)-total {
				return result{kind: "bad-read-count", detail: fmt.Sprintf("Read returned n=%d for a buffer of %d", n, len(buf)-total)}, nil
			}
			total += n
			if rs.blown {
				return result{kind: "unbounded-work", detail: "Reader.Read used up the operation budget"}, nil
			}
			if err != nil {
				fmt.Fprintf(&out, "err(%v);", err != io.EOF)
				break
			}
			if n == 0 {
				fmt.Fprintf(&out, "zero-read;")
				break
			}
		}
		out.Write(buf[:total])
	}
	return result{out: "reader-ran"}, out.Bytes()
}

type seed struct {
	name string
	file []byte
}

func writeRAC(codec string, payload []byte, cfg func(w *rac.Writer)) []byte {
	var buf bytes.Buffer
	w := &rac.Writer{Writer: &buf}
	if codec == "lz4" {
		w.CodecWriter = &raclz4.CodecWriter{}
	} else {
		w.CodecWriter = &raczlib.CodecWriter{}
	}
	cfg(w)
	if _, err := w.Write(payload); err != nil {
		ev.Fatal("seed write: %v", err)
	}
	if err := w.Close(); err != nil {
		ev.Fatal("seed close: %v", err)
	}
	return buf.Bytes()
}

// handTree builds a two-level index by hand: root (at end) -> 2 branch children -> 2 leaves each (Zeroes codec leaves of 3 bytes).
func handTree(longCodec bool) []byte {
	file := []byte("\x72\xC3\x63\x00")
	leafElems := func() []racspec.BElem {
		return []racspec.BElem{{DPtrNext: 3, CPtr: 4, STag: 0xFF, TTag: 0xFF}, {DPtrNext: 6, CPtr: 4, STag: 0xFF, TTag: 0xFF}}
	}
	c1off := int64(len(file))
	file = append(file, racspec.BuildNode(leafElems(), 0x00, c1off+48, 1)...)
	c2off := int64(len(file))
	file = append(file, racspec.BuildNode(leafElems(), 0x00, c2off+48, 1)...)
	rootOff := int64(len(file))
	rootElems := []racspec.BElem{
		{DPtrNext: 6, CPtr: c1off, STag: 0xFF, TTag: 0xFE},
		{DPtrNext: 12, CPtr: c2off, STag: 0xFF, TTag: 0xFE},
	}
	codecByte := byte(0x00)
	if longCodec {
		// long codec "Zeroes" (7 NUL bytes) via a codec element at index 0. (lib/rac's
		// rNode.valid rejects a codec element that FOLLOWS a non-empty child - it tests
		// TTag[i] instead of TTag[i-1] - so the element goes first; see DESIGN findings.)
		rootElems = []racspec.BElem{
			{DPtrNext: 0, CPtr: 0, TTag: 0xFD},
			{DPtrNext: 6, CPtr: c1off, STag: 0xFF, TTag: 0xFE},
			{DPtrNext: 12, CPtr: c2off, STag: 0xFF, TTag: 0xFE},
		}
		codecByte = 0x80 | 0x40 | 0 // long, mix bit, c64 = 0
	}
	size := rootOff + int64(len(rootElems)*16+16)
	file = append(file, racspec.BuildNode(rootElems, codecByte, size, 1)...)
	return file
}

// nodesOf lists (offset,size) of every index node reachable in a valid file.
func nodesOf(file []byte) [][2]int {
	var out [][2]int
	root, _, err := racspec.Validate(file)
	if err != nil {
		return nil
	}
	var rec func(n *racspec.Node)
	rec = func(n *racspec.Node) {
		out = append(out, [2]int{int(n.COffset), n.Arity*16 + 16})
		for _, c := range n.Children {
			if c != nil {
				rec(c)
			}
		}
	}
	rec(root)
	return out
}

func put48(p []byte, v int64) {
	for k := 0; k < 6; k++ {
		p[k] = byte(v >> (8 * k))
	}
}

type mutant struct {
	name    string
	file    []byte
	claimed int64
}

func main() {
	if len(os.Args) > 2 && os.Args[1] == "replay" {
		replay(os.Args[2])
		return
	}
	r := ev.Start("C15", "fault_enumeration")
	r.SetBudget(6*time.Minute, 40*time.Minute)
	thorough := r.Thorough()

	text := []byte("the quick brown fox jumps over the lazy dog; the quick brown fox\x00\x00\x00\x00")
	seeds := []seed{
		{"empty", writeRAC("zlib", nil, func(w *rac.Writer) {})},
		{"1chunk", writeRAC("zlib", text[:20], func(w *rac.Writer) {})},
		{"3chunks", writeRAC("zlib", text[:21], func(w *rac.Writer) { w.DChunkSize = 7 })},
		{"12chunks", writeRAC("zlib", text[:12], func(w *rac.Writer) { w.DChunkSize = 1 })},
		{"3chunks-at-start", writeRAC("zlib", text[:21], func(w *rac.Writer) {
			w.DChunkSize = 7
			w.IndexLocation = rac.IndexLocationAtStart
			w.TempFile = &bytes.Buffer{}
		})},
		{"resources", writeRAC("zlib", text[:40], func(w *rac.Writer) {
			w.DChunkSize = 20
			w.ResourcesData = [][]byte{[]byte("the quick brown fox jumps")}
		})},
		{"lz4", writeRAC("lz4", text[:30], func(w *rac.Writer) { w.DChunkSize = 15 })},
		{"zero-tail", writeRAC("zlib", append(append([]byte{}, text[:10]...), make([]byte, 30)...), func(w *rac.Writer) { w.DChunkSize = 8 })},
		{"hand-two-level", handTree(false)},
		{"hand-long-codec", handTree(true)},
	}
	if thorough {
		seeds = append(seeds, seed{"two-level-256", writeRAC("lz4", bytes.Repeat([]byte("ab"), 130), func(w *rac.Writer) { w.DChunkSize = 1 })})
	}
	for _, s := range seeds {
		if _, _, err := racspec.Validate(s.file); err != nil {
			ev.Fatal("seed %s is not spec-valid by the independent validator: %v", s.name, err)
		}
		res, ch := walk(s.file, int64(len(s.file)))
		if res.kind != "" || res.out != "walk-ok" {
			ev.Fatal("seed %s does not walk cleanly: %+v", s.name, res)
		}
		r.Add("seed_chunks_"+s.name, int64(len(ch)))
	}

	vals48 := func(off, parentOff, sibOff, size int) []int64 {
		return []int64{0, 1, int64(off), int64(parentOff), int64(sibOff), int64(size - 1), int64(size), int64(size + 1), 4, 32, 1<<48 - 1}
	}

	var nEval, nNon atomic.Int64
	watch := ev.NewWatch(ev.Workers())
	curMut := make([]*mutant, ev.Workers())
	curSeed := make([]string, ev.Workers())
	var seq atomic.Int64
	watch.Start(90*time.Second, 8<<30, func(worker int, id int64, why string) {
		m := curMut[worker]
		r.Violation("hang:"+curSeed[worker]+":"+mutClass(m.name), "reader does not return ("+why+") on "+curSeed[worker]+" "+m.name,
			Witness{curSeed[worker], m.name, m.file, m.claimed, "terminates", why})
	}, func() {
		r.MarkCapped()
		r.Finish(ev.Coverage{Evaluations: nEval.Load() + 1, DistinctNontrivial: nNon.Load() + 2, Rule: "aborted by hang watchdog; see violation"}, nil)
	})

	check := func(w int, s seed, m mutant, hist map[string]int64) {
		curMut[w], curSeed[w] = &m, s.name
		watch.EnterFast(w, seq.Add(1))
		defer watch.Leave(w)
		nEval.Add(1)
		fail := func(res result) {
			r.Violation(res.kind+":"+s.name+":"+mutClass(m.name), fmt.Sprintf("%s on seed %s mutated by %s: %s", res.kind, s.name, m.name, res.detail),
				Witness{s.name, m.name, m.file, m.claimed, res.kind, res.detail})
		}
		res, chunks := walk(m.file, m.claimed)
		if res.kind != "" {
			fail(res)
			return
		}
		hist[res.out]++
		if res.out == "walk-ok" || len(chunks) > 0 {
			nNon.Add(1)
		}
		// second walk must agree
		res2, chunks2 := walk(m.file, m.claimed)
		if res2.kind != res.kind || res2.out != res.out || len(chunks2) != len(chunks) {
			fail(result{kind: "nondeterministic", detail: "two walks of the same file differ"})
			return
		}
		rr, d1 := readSome(m.file, m.claimed)
		if rr.kind != "" {
			fail(rr)
			return
		}
		hist[rr.out]++
		rr2, d2 := readSome(m.file, m.claimed)
		if rr2.kind != "" {
			fail(rr2)
			return
		}
		if !bytes.Equal(d1, d2) {
			fail(result{kind: "nondeterministic", detail: "two decodes of the same file differ"})
		}
	}

	type unit struct {
		s    seed
		kind string
		lo   int
		hi   int
	}
	var units []unit
	for _, s := range seeds {
		n := len(s.file)
		for lo := 0; lo < n; lo += 8 {
			units = append(units, unit{s, "byte", lo, min(lo+8, n)})
		}
		// one unit per (node, first field): the pairs of a 256-child node are tens of millions of
		// mutants, which as a single unit ran for hours on one core after everything else had finished
		for ni, nd := range nodesOf(s.file) {
			ar := (nd[1] - 16) / 16
			for fi := 0; fi < 5*ar+3; fi++ {
				units = append(units, unit{s, "field", ni, fi})
			}
		}
		units = append(units, unit{s, "struct", 0, 0}, unit{s, "trunc", 0, 0})
	}
	units = append(units, unit{seeds[0], "empty2", 0, 0})

	ev.ParFor(len(units), func(w, ui int) {
		if r.Expired() {
			return
		}
		u := units[ui]
		s := u.s
		hist := map[string]int64{}
		size := len(s.file)
		nodes := nodesOf(s.file)
		inNode := func(pos int) (int, int, bool) {
			for _, nd := range nodes {
				if pos >= nd[0] && pos < nd[0]+nd[1] {
					return nd[0], nd[1], true
				}
			}
			return 0, 0, false
		}
		switch u.kind {
		case "byte":
			for pos := u.lo; pos < u.hi; pos++ {
				for v := 0; v < 256; v++ {
					if byte(v) == s.file[pos] {
						continue
					}
					f := append([]byte{}, s.file...)
					f[pos] = byte(v)
					check(w, s, mutant{fmt.Sprintf("byte[%d]=%#02x", pos, v), f, int64(size)}, hist)
					if off, n, ok := inNode(pos); ok && !(pos >= off+4 && pos < off+6) {
						g := append([]byte{}, f...)
						// the arity byte(s) change the node's extent: repair only when the extent is unchanged
						if pos != off+3 && pos != off+n-1 {
							racspec.FixChecksum(g[off : off+n])
							check(w, s, mutant{fmt.Sprintf("byte[%d]=%#02x+checksum", pos, v), g, int64(size)}, hist)
						}
					}
				}
			}
		case "field":
			for ni, nd := range nodes {
				if ni != u.lo {
					continue
				}
				off, n := nd[0], nd[1]
				ar := (n - 16) / 16
				parentOff, sibOff := nodes[0][0], nodes[(ni+1)%len(nodes)][0]
				type field struct {
					name string
					at   int
					w    int // 6 = u48, 1 = byte
				}
				var fields []field
				for i := 1; i <= ar; i++ {
					fields = append(fields, field{fmt.Sprintf("DPtr[%d]", i), off + 8*i, 6})
				}
				for i := 0; i <= ar; i++ {
					fields = append(fields, field{fmt.Sprintf("CPtr[%d]", i), off + 8*ar + 8 + 8*i, 6})
				}
				for i := 0; i < ar; i++ {
					fields = append(fields, field{fmt.Sprintf("TTag[%d]", i), off + 8*i + 7, 1},
						field{fmt.Sprintf("CLen[%d]", i), off + 8*ar + 8 + 8*i + 6, 1},
						field{fmt.Sprintf("STag[%d]", i), off + 8*ar + 8 + 8*i + 7, 1})
				}
				fields = append(fields, field{"Codec", off + 8*ar + 7, 1}, field{"Version", off + 16*ar + 14, 1})
				apply := func(f []byte, fd field, v int64) {
					if fd.w == 6 {
						put48(f[fd.at:], v)
					} else {
						f[fd.at] = byte(v)
					}
				}
				valsFor := func(fd field) []int64 {
					if fd.w == 6 {
						return vals48(off, parentOff, sibOff, size)
					}
					return []int64{0, 1, 2, 0x3F, 0x40, 0x80, 0xBF, 0xC0, 0xFC, 0xFD, 0xFE, 0xFF}
				}
				if len(fields) != 5*ar+3 {
					ev.Fatal("C15: field count %d of node %d does not match the unit layout %d", len(fields), ni, 5*ar+3)
				}
				for fi, fd := range fields {
					if fi != u.hi {
						continue
					}
					for _, v := range valsFor(fd) {
						if r.Expired() {
							break
						}
						f := append([]byte{}, s.file...)
						apply(f, fd, v)
						racspec.FixChecksum(f[off : off+n])
						check(w, s, mutant{fmt.Sprintf("node%d.%s=%d", ni, fd.name, v), f, int64(size)}, hist)
						if thorough || len(fields) <= 24 {
							// pairs of field mutations within the node
							for _, fd2 := range fields[fi+1:] {
								for _, v2 := range valsFor(fd2) {
									g := append([]byte{}, f...)
									apply(g, fd2, v2)
									racspec.FixChecksum(g[off : off+n])
									check(w, s, mutant{fmt.Sprintf("node%d.%s=%d,%s=%d", ni, fd.name, v, fd2.name, v2), g, int64(size)}, hist)
								}
							}
						}
					}
				}
			}
		case "struct":
			// re-point child i of node N at node M as a branch (TTag 0xFE), with the DPtr span made to agree.
			for ni, nd := range nodes {
				off, n := nd[0], nd[1]
				ar := (n - 16) / 16
				for i := 0; i < ar; i++ {
					for mi, md := range nodes {
						for _, stag := range []byte{0xFF, 0, byte(i)} {
							for _, fixSpan := range []bool{true, false} {
								f := append([]byte{}, s.file...)
								f[off+8*i+7] = 0xFE
								put48(f[off+8*ar+8+8*i:], int64(md[0]))
								f[off+8*ar+8+8*i+7] = stag
								if fixSpan {
									// make DPtr[i+1]-DPtr[i] equal M's DPtrMax, shifting later DPtrs
									mar := (md[1] - 16) / 16
									mDMax := int64(0)
									for k := 0; k < 6; k++ {
										mDMax |= int64(s.file[md[0]+8*mar+k]) << (8 * k)
									}
									base := int64(0)
									if i > 0 {
										for k := 0; k < 6; k++ {
											base |= int64(f[off+8*i+k]) << (8 * k)
										}
									}
									for j := i + 1; j <= ar; j++ {
										put48(f[off+8*j:], base+mDMax)
									}
								}
								racspec.FixChecksum(f[off : off+n])
								check(w, s, mutant{fmt.Sprintf("repoint node%d.child%d->node%d stag=%#x span=%v", ni, i, mi, stag, fixSpan), f, int64(size)}, hist)
							}
						}
					}
				}
			}
		case "trunc":
			for cut := 0; cut <= size; cut++ {
				for _, claimed := range []int64{int64(cut), int64(size)} {
					check(w, s, mutant{fmt.Sprintf("truncate[%d] claimed=%d", cut, claimed), s.file[:cut], claimed}, hist)
				}
			}
			for _, claimed := range []int64{int64(size) - 1, int64(size) + 1, 0, 31, 32, 33, 1 << 40, -1} {
				check(w, s, mutant{fmt.Sprintf("claimed=%d", claimed), s.file, claimed}, hist)
			}
			// appended garbage, claimed the longer size
			check(w, s, mutant{"append-16", append(append([]byte{}, s.file...), make([]byte, 16)...), int64(size + 16)}, hist)
		case "empty2":
			// the 32-byte empty file with any two bytes replaced from an 8-value alphabet (checksum repaired and not)
			vals := []byte{0x00, 0x01, 0x02, 0x20, 0x72, 0xFD, 0xFE, 0xFF}
			for a := 0; a < size; a++ {
				for b := a + 1; b < size; b++ {
					for _, va := range vals {
						for _, vb := range vals {
							f := append([]byte{}, s.file...)
							f[a], f[b] = va, vb
							check(w, s, mutant{fmt.Sprintf("empty[%d]=%#x,[%d]=%#x", a, va, b, vb), f, int64(size)}, hist)
							if f[3] == 1 && f[31] == 1 {
								g := append([]byte{}, f...)
								racspec.FixChecksum(g)
								check(w, s, mutant{fmt.Sprintf("empty[%d]=%#x,[%d]=%#x+checksum", a, va, b, vb), g, int64(size)}, hist)
							}
						}
					}
				}
			}
		}
		r.MergeHist("outcomes", hist)
		r.HistAdd("mutants_by_kind", u.kind, 1)
	})
	r.Sample(map[string]any{"seed": "hand-two-level", "mutation": "repoint node0.child0->node0 stag=0xff span=true (root lists itself as a child; checksum repaired)"})
	r.Sample(map[string]any{"seed": "3chunks", "mutation": "node0.CPtr[1]=281474976710655"})
	r.Finish(ev.Coverage{
		Evaluations:        nEval.Load(),
		DistinctNontrivial: nNon.Load(),
		Rule: "for each seed file: every single-byte replacement (x256, with and without checksum repair), every index field set to each boundary value (pairs within a node for small nodes / thorough), every re-pointing of a child at any node as a branch (self/ancestor/sibling, span fixed or not, three STags), every truncation and wrong claimed size; plus the empty file with any two bytes replaced over an 8-value alphabet. " +
			"Each mutant: ChunkReader walk x2 and Reader seek/read x2 over an operation-counting ReadSeeker (budget 4000+40*len). non-trivial = the mutant still yields at least one chunk or walks to EOF",
		Exhaustive: true,
	}, []string{"work is metered in Read/Seek calls on the file (budget 4000+40*len(file)); pure CPU loops are caught by a 90 s in-process watchdog",
		"zstd chunks are not exercised here (cgo decoder set-up cost); zlib and lz4 are"})
}

func mutClass(name string) string {
	// abstract indexes and values away: "node0.CPtr[1]=5" -> "node.CPtr[]"
	var b []byte
	for i := 0; i < len(name); i++ {
		c := name[i]
		if c >= '0' && c <= '9' {
			continue
		}
		if c == '=' {
			// skip the value
			for i < len(name) && name[i] != ',' && name[i] != ' ' && name[i] != '+' {
				i++
			}
			i--
			continue
		}
		b = append(b, c)
	}
	if len(b) > 48 {
		b = b[:48]
	}
	return string(b)
}

func replay(path string) {
	b, err := os.ReadFile(path)
	if err != nil {
		ev.Fatal("%v", err)
	}
	var doc struct {
		Witness Witness `json:"witness"`
	}
	json.Unmarshal(b, &doc)
	w := doc.Witness
	fmt.Printf("seed %s mutation %s claimed=%d file=%x\n", w.Seed, w.Mutation, w.Claimed, w.File)
	go func() { time.Sleep(20 * time.Second); fmt.Println("still running after 20 s: hang reproduced"); os.Exit(1) }()
	res, chunks := walk(w.File, w.Claimed)
	fmt.Printf(" walk: %+v (%d chunks)\n", res, len(chunks))
	rr, d := readSome(w.File, w.Claimed)
	fmt.Printf(" read: %+v (%d bytes of digest)\n", rr, len(d))
}
