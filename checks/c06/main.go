// C06: interval arithmetic over-approximates every concrete result.
//
// Bounded-exhaustive enumeration of interval pairs over two universes, every
// operation, every member pair (small universe) or an independently written
// exact reference (big universe), plus the aliasing clause.
package main

import (
	"encoding/json"
	"fmt"
	"math/big"
	"os"
	"sync/atomic"
	"time"

	"verif/internal/ev"

	"github.com/google/wuffs/lib/interval"
)

type IR = interval.IntRange

var opNames = []string{"Add", "Sub", "Mul", "Quo", "Lsh", "Rsh", "And", "Or", "Unite", "Intersect"}

const (
	opAdd = iota
	opSub
	opMul
	opQuo
	opLsh
	opRsh
	opAnd
	opOr
	opUnite
	opIntersect
	nOps
)

// theRun is set by main; apply reports a panic of the code under test as a violation
// (a panic must not take the whole check down: it IS the finding).
var theRun *ev.Run

func apply(op int, x, y IR) (z IR, ok bool) {
	defer func() {
		if e := recover(); e != nil {
			if theRun != nil {
				theRun.Violation("panic:"+opNames[op], fmt.Sprintf("%s(%v, %v) panicked: %v", opNames[op], x, y, e),
					map[string]any{"op": opNames[op], "x": x.String(), "y": y.String(), "panic": fmt.Sprint(e)})
			}
			z, ok = IR{}, false
		}
	}()
	return applyRaw(op, x, y)
}

func applyRaw(op int, x, y IR) (IR, bool) {
	switch op {
	case opAdd:
		return x.TryAdd(y)
	case opSub:
		return x.TrySub(y)
	case opMul:
		return x.TryMul(y)
	case opQuo:
		return x.TryQuo(y)
	case opLsh:
		return x.TryLsh(y)
	case opRsh:
		return x.TryRsh(y)
	case opAnd:
		return x.TryAnd(y)
	case opOr:
		return x.TryOr(y)
	case opUnite:
		return x.TryUnite(y)
	case opIntersect:
		return x.TryIntersect(y)
	}
	panic("bad op")
}

// applyPlain uses the non-Try forms where they exist (they must agree).
func applyPlain(op int, x, y IR) (IR, bool) {
	switch op {
	case opAdd:
		return x.Add(y), true
	case opSub:
		return x.Sub(y), true
	case opMul:
		return x.Mul(y), true
	case opAnd:
		return x.And(y), true
	case opOr:
		return x.Or(y), true
	case opUnite:
		return x.Unite(y), true
	case opIntersect:
		return x.Intersect(y), true
	}
	return IR{}, false
}

// ---- small universe -------------------------------------------------------

const inf = int64(1) << 62

type sIv struct{ lo, hi int64 } // lo == -inf / hi == +inf mean unbounded

func (v sIv) empty() bool { return v.lo != -inf && v.hi != inf && v.lo > v.hi }

func (v sIv) toIR() IR {
	var r IR
	if v.lo != -inf {
		r[0] = big.NewInt(v.lo)
	}
	if v.hi != inf {
		r[1] = big.NewInt(v.hi)
	}
	return r
}

func (v sIv) String() string {
	lo, hi := "-inf", "+inf"
	if v.lo != -inf {
		lo = fmt.Sprint(v.lo)
	}
	if v.hi != inf {
		hi = fmt.Sprint(v.hi)
	}
	return "[" + lo + ".." + hi + "]"
}

// concrete evaluation on int64; def=false when undefined.
func conc(op int, x, y int64) (int64, bool) {
	switch op {
	case opAdd:
		return x + y, true
	case opSub:
		return x - y, true
	case opMul:
		return x * y, true
	case opQuo:
		if y == 0 {
			return 0, false
		}
		return x / y, true // Go truncates toward zero
	case opLsh:
		if y < 0 {
			return 0, false
		}
		return x << uint(y), true
	case opRsh:
		if y < 0 {
			return 0, false
		}
		return x >> uint(y), true // arithmetic shift == floor
	case opAnd:
		return x & y, true
	case opOr:
		return x | y, true
	}
	panic("conc")
}

type witness struct {
	Op      string `json:"op"`
	X       string `json:"x"`
	Y       string `json:"y"`
	Got     string `json:"got"`
	GotOK   bool   `json:"got_ok"`
	Want    string `json:"want"`
	Clause  string `json:"clause"`
	Members string `json:"members,omitempty"`
}

func irCopy(x IR) IR {
	var r IR
	if x[0] != nil {
		r[0] = new(big.Int).Set(x[0])
	}
	if x[1] != nil {
		r[1] = new(big.Int).Set(x[1])
	}
	return r
}

func shareAny(z, x, y IR) bool {
	for _, p := range z {
		if p == nil {
			continue
		}
		for _, q := range []*big.Int{x[0], x[1], y[0], y[1]} {
			if p == q {
				return true
			}
		}
	}
	return false
}

func signClass(v sIv) string {
	if v.empty() {
		return "empty"
	}
	s := ""
	if v.lo == -inf {
		s += "-inf"
	} else if v.lo < 0 {
		s += "neg"
	} else if v.lo == 0 {
		s += "zero"
	} else {
		s += "pos"
	}
	s += ".."
	if v.hi == inf {
		s += "+inf"
	} else if v.hi < 0 {
		s += "neg"
	} else if v.hi == 0 {
		s += "zero"
	} else {
		s += "pos"
	}
	return s
}

func smallUniverse(r *ev.Run, N int64, clip int64) (evals, nontrivial int64) {
	var vals []int64
	vals = append(vals, -inf)
	for i := -N; i <= N; i++ {
		vals = append(vals, i)
	}
	var his []int64
	for i := -N; i <= N; i++ {
		his = append(his, i)
	}
	his = append(his, inf)
	var ivs []sIv
	for _, lo := range vals {
		for _, hi := range his {
			ivs = append(ivs, sIv{lo, hi})
		}
	}
	n := len(ivs)
	var nEval, nNon atomic.Int64
	ev.ParFor(n, func(w, i int) {
		if r.Expired() {
			return
		}
		x := ivs[i]
		localHist := map[string]int64{}
		var le, ln int64
		xlo, xhi := x.lo, x.hi
		if xlo == -inf {
			xlo = -clip
		}
		if xhi == inf {
			xhi = clip
		}
		for _, y := range ivs {
			ylo, yhi := y.lo, y.hi
			if ylo == -inf {
				ylo = -clip
			}
			if yhi == inf {
				yhi = clip
			}
			allFinite := x.lo != -inf && x.hi != inf && y.lo != -inf && y.hi != inf
			for op := 0; op < nOps; op++ {
				if (op == opLsh || op == opRsh) && yhi > 40 {
					yhi = 40 // keep int64 arithmetic exact; containment only (y side infinite here)
				}
				X, Y := x.toIR(), y.toIR()
				X0, Y0 := irCopy(X), irCopy(Y)
				z, ok := apply(op, X, Y)
				le++
				fail := func(clause, want, members string) {
					sig := fmt.Sprintf("small:%s:%s:%s:%s", opNames[op], clause, signClass(x), signClass(y))
					r.Violation(sig, fmt.Sprintf("%s(%v, %v) = %v ok=%v; %s (want %s) %s", opNames[op], x, y, z, ok, clause, want, members),
						witness{opNames[op], x.String(), y.String(), z.String(), ok, want, clause, members})
				}
				// operands untouched
				if !X.Eq(X0) || !Y.Eq(Y0) || (X[0] == nil) != (X0[0] == nil) || (Y[1] == nil) != (Y0[1] == nil) {
					fail("operand-mutated", "", "")
				}
				if shareAny(z, X, Y) {
					fail("aliases-operand", "", "")
				}
				if pz, has := applyPlain(op, X, Y); has {
					if !pz.Eq(z) || !ok {
						fail("try-vs-plain", pz.String(), "")
					}
					if shareAny(pz, X, Y) {
						fail("aliases-operand-plain", "", "")
					}
				}
				// brute force members
				anyPair, anyUndef := false, false
				mn, mx := inf, -inf
				var zlo, zhi int64 = -inf, inf
				if z[0] != nil {
					if z[0].IsInt64() {
						zlo = z[0].Int64()
					} else if z[0].Sign() > 0 {
						zlo = inf
					}
				}
				if z[1] != nil {
					if z[1].IsInt64() {
						zhi = z[1].Int64()
					} else if z[1].Sign() < 0 {
						zhi = -inf
					}
				}
				var badX, badY int64
				bad := false
				switch op {
				case opUnite:
					for _, v := range [2]sIv{x, y} {
						if v.empty() {
							continue
						}
						lo, hi := v.lo, v.hi
						anyPair = true
						if lo < mn {
							mn = lo
						}
						if hi > mx {
							mx = hi
						}
					}
					if anyPair && ok && (zlo > mn || zhi < mx) {
						bad = true
					}
				case opIntersect:
					if !x.empty() && !y.empty() {
						lo, hi := x.lo, x.hi
						if y.lo > lo {
							lo = y.lo
						}
						if y.hi < hi {
							hi = y.hi
						}
						if lo <= hi {
							anyPair = true
							mn, mx = lo, hi
							if ok && (zlo > mn || zhi < mx) {
								bad = true
							}
						}
					}
				default:
					if !x.empty() && !y.empty() {
						for a := xlo; a <= xhi; a++ {
							for b := ylo; b <= yhi; b++ {
								c, def := conc(op, a, b)
								anyPair = true
								if !def {
									anyUndef = true
									continue
								}
								if c < mn {
									mn = c
								}
								if c > mx {
									mx = c
								}
								if ok && (c < zlo || c > zhi) && !bad {
									bad, badX, badY = true, a, b
								}
							}
						}
					}
				}
				if ok != !anyUndef {
					fail("ok-flag", fmt.Sprint(!anyUndef), "")
					continue
				}
				if !ok {
					if z[0] != nil || z[1] != nil {
						fail("not-ok-result-not-unbounded", "[nil,nil]", "")
					}
					localHist[opNames[op]+":undefined"]++
					continue
				}
				if bad {
					fail("containment", "", fmt.Sprintf("x=%d y=%d", badX, badY))
					continue
				}
				if allFinite || op == opIntersect || op == opUnite {
					if !anyPair || mn > mx {
						if !z.Empty() && (allFinite || op == opIntersect) {
							fail("tight-empty", "[empty]", "")
						}
					} else if (op == opUnite || op == opIntersect) && !allFinite {
						// exact even with infinite sides
						if zlo != mn || zhi != mx {
							fail("tight", sIv{mn, mx}.String(), "")
						}
					} else if allFinite {
						if z[0] == nil || z[1] == nil || zlo != mn || zhi != mx {
							fail("tight", sIv{mn, mx}.String(), "")
						}
					}
				}
				// storage sharing with package state: two separately computed results must not
				// share a *big.Int (that would be package-level storage; and scribbling on it
				// below would corrupt the package for every other worker)
				if zAgain, _ := apply(op, X, Y); shareAny(zAgain, z, IR{}) {
					fail("result-shares-package-storage", "", "two calls returned the same *big.Int")
					continue
				}
				// then: scribble on the result, redo, compare.
				s1 := z.String()
				if z[0] != nil {
					z[0].SetInt64(0x5A5A5A5A)
				}
				if z[1] != nil {
					z[1].SetInt64(-0x5A5A5A5A)
				}
				if !X.Eq(X0) || !Y.Eq(Y0) {
					fail("result-shares-operand-storage", "", "")
				}
				z2, _ := apply(op, X, Y)
				if z2.String() != s1 {
					fail("result-shares-package-storage", s1, "")
				}
				if anyPair && mn < mx {
					ln++
				}
				localHist[opNames[op]+":"+signClass(x)+"/"+signClass(y)]++
			}
		}
		nEval.Add(le)
		nNon.Add(ln)
		r.MergeHist("small_op_signclass", localHist)
	})
	return nEval.Load(), nNon.Load()
}

// ---- big universe ---------------------------------------------------------

// refHull returns the exact hull of {x op y} for finite non-empty boxes, or
// ok=false if some pair is undefined. Written independently of the package:
// monotone corner candidates for arithmetic, a bit-DP for And/Or.
func refHull(op int, x, y [2]*big.Int) (lo, hi *big.Int, ok bool) {
	cands := func(vs ...*big.Int) (*big.Int, *big.Int) {
		var mn, mx *big.Int
		for _, v := range vs {
			if mn == nil || v.Cmp(mn) < 0 {
				mn = v
			}
			if mx == nil || v.Cmp(mx) > 0 {
				mx = v
			}
		}
		return mn, mx
	}
	n := func() *big.Int { return new(big.Int) }
	in := func(v int64, r [2]*big.Int) bool {
		b := big.NewInt(v)
		return r[0].Cmp(b) <= 0 && b.Cmp(r[1]) <= 0
	}
	switch op {
	case opAdd:
		return n().Add(x[0], y[0]), n().Add(x[1], y[1]), true
	case opSub:
		return n().Sub(x[0], y[1]), n().Sub(x[1], y[0]), true
	case opMul:
		lo, hi = cands(n().Mul(x[0], y[0]), n().Mul(x[0], y[1]), n().Mul(x[1], y[0]), n().Mul(x[1], y[1]))
		return lo, hi, true
	case opQuo:
		if in(0, y) {
			return nil, nil, false
		}
		// candidates: x in {x0,x1}, y in {y0,y1,-1,1 when inside}
		ys := []*big.Int{y[0], y[1]}
		if in(-1, y) {
			ys = append(ys, big.NewInt(-1))
		}
		if in(1, y) {
			ys = append(ys, big.NewInt(1))
		}
		xs := []*big.Int{x[0], x[1]}
		if in(0, x) {
			xs = append(xs, big.NewInt(0))
		}
		var vs []*big.Int
		for _, a := range xs {
			for _, b := range ys {
				vs = append(vs, n().Quo(a, b))
			}
		}
		lo, hi = cands(vs...)
		return lo, hi, true
	case opLsh, opRsh:
		if y[0].Sign() < 0 {
			return nil, nil, false
		}
		var vs []*big.Int
		for _, a := range x {
			for _, b := range y {
				if op == opLsh {
					vs = append(vs, n().Lsh(a, uint(b.Uint64())))
				} else {
					vs = append(vs, n().Rsh(a, uint(b.Uint64())))
				}
			}
		}
		lo, hi = cands(vs...)
		return lo, hi, true
	case opAnd, opOr:
		lo, hi = bitHull(op == opAnd, x, y)
		return lo, hi, true
	case opUnite:
		lo, hi = cands(x[0], x[1], y[0], y[1])
		return lo, hi, true
	case opIntersect:
		lo, hi = x[0], x[1]
		if y[0].Cmp(lo) > 0 {
			lo = y[0]
		}
		if y[1].Cmp(hi) < 0 {
			hi = y[1]
		}
		return lo, hi, true
	}
	panic("refHull")
}

// bitHull: exact min/max of x&y (or x|y) over a box, by splitting each side
// into negative / non-negative parts, mapping to W-bit unsigned and running a
// tightness-flag DP from the most significant bit.
func bitHull(isAnd bool, x, y [2]*big.Int) (*big.Int, *big.Int) {
	W := 2
	for _, v := range []*big.Int{x[0], x[1], y[0], y[1]} {
		if l := v.BitLen() + 2; l > W {
			W = l
		}
	}
	mod := new(big.Int).Lsh(big.NewInt(1), uint(W))
	type part struct{ lo, hi *big.Int } // unsigned W-bit
	split := func(r [2]*big.Int) []part {
		var ps []part
		zero, m1 := big.NewInt(0), big.NewInt(-1)
		if r[0].Sign() < 0 {
			hi := r[1]
			if hi.Sign() >= 0 {
				hi = m1
			}
			ps = append(ps, part{new(big.Int).Add(mod, r[0]), new(big.Int).Add(mod, hi)})
		}
		if r[1].Sign() >= 0 {
			lo := r[0]
			if lo.Sign() < 0 {
				lo = zero
			}
			ps = append(ps, part{lo, r[1]})
		}
		return ps
	}
	half := new(big.Int).Rsh(mod, 1)
	toSigned := func(u *big.Int) *big.Int {
		if u.Cmp(half) >= 0 {
			return new(big.Int).Sub(u, mod)
		}
		return u
	}
	var mn, mx *big.Int
	for _, px := range split(x) {
		for _, py := range split(y) {
			for _, wantMax := range []bool{false, true} {
				u := bitDP(isAnd, wantMax, W, px.lo, px.hi, py.lo, py.hi)
				s := toSigned(u)
				if wantMax {
					if mx == nil || s.Cmp(mx) > 0 {
						mx = s
					}
				} else {
					if mn == nil || s.Cmp(mn) < 0 {
						mn = s
					}
				}
			}
		}
	}
	return mn, mx
}

func bitDP(isAnd, wantMax bool, W int, a, b, c, d *big.Int) *big.Int {
	// memo[bit][state]; state bits: 1=x tight to a (lower), 2=x tight to b, 4=y tight to c, 8=y tight to d
	memo := make([][16]*big.Int, W+1)
	done := make([][16]bool, W+1)
	var rec func(bit int, st int) *big.Int // returns best value of bits [bit-1..0], nil if infeasible
	rec = func(bit int, st int) *big.Int {
		if bit == 0 {
			return big.NewInt(0)
		}
		if done[bit][st] {
			return memo[bit][st]
		}
		var best *big.Int
		k := bit - 1
		for xb := uint(0); xb < 2; xb++ {
			if st&1 != 0 && xb < a.Bit(k) {
				continue
			}
			if st&2 != 0 && xb > b.Bit(k) {
				continue
			}
			for yb := uint(0); yb < 2; yb++ {
				if st&4 != 0 && yb < c.Bit(k) {
					continue
				}
				if st&8 != 0 && yb > d.Bit(k) {
					continue
				}
				ns := 0
				if st&1 != 0 && xb == a.Bit(k) {
					ns |= 1
				}
				if st&2 != 0 && xb == b.Bit(k) {
					ns |= 2
				}
				if st&4 != 0 && yb == c.Bit(k) {
					ns |= 4
				}
				if st&8 != 0 && yb == d.Bit(k) {
					ns |= 8
				}
				sub := rec(k, ns)
				if sub == nil {
					continue
				}
				var ob uint
				if isAnd {
					ob = xb & yb
				} else {
					ob = xb | yb
				}
				v := new(big.Int).Set(sub)
				if ob == 1 {
					v.SetBit(v, k, 1)
				}
				if best == nil || (wantMax && v.Cmp(best) > 0) || (!wantMax && v.Cmp(best) < 0) {
					best = v
				}
			}
		}
		done[bit][st] = true
		memo[bit][st] = best
		return best
	}
	return rec(W, 15)
}

func bigUniverse(r *ev.Run, exps []uint, ds []int64, shiftVals []int64) (evals, nontrivial int64) {
	seen := map[string]bool{}
	var vals []*big.Int
	add := func(v *big.Int) {
		if !seen[v.String()] {
			seen[v.String()] = true
			vals = append(vals, v)
		}
	}
	for _, d := range ds {
		add(big.NewInt(d))
	}
	for _, e := range exps {
		for _, s := range []int64{-1, 1} {
			for _, d := range ds {
				v := new(big.Int).Lsh(big.NewInt(1), e)
				v.Mul(v, big.NewInt(s))
				v.Add(v, big.NewInt(d))
				add(v)
			}
		}
	}
	// intervals: all ordered pairs lo<=hi plus one-sided/unbounded, plus a few empties
	type biv struct{ lo, hi *big.Int }
	var ivs []biv
	for _, lo := range vals {
		for _, hi := range vals {
			if lo.Cmp(hi) <= 0 {
				ivs = append(ivs, biv{lo, hi})
			}
		}
		ivs = append(ivs, biv{lo, nil}, biv{nil, lo})
	}
	ivs = append(ivs, biv{nil, nil})
	var shiftIvs []biv
	for _, lo := range shiftVals {
		for _, hi := range shiftVals {
			if lo <= hi {
				shiftIvs = append(shiftIvs, biv{big.NewInt(lo), big.NewInt(hi)})
			}
		}
	}
	r.Add("big_universe_values", int64(len(vals)))
	r.Add("big_universe_intervals", int64(len(ivs)))
	var nEval, nNon atomic.Int64
	ev.ParFor(len(ivs), func(w, i int) {
		if r.Expired() {
			return
		}
		x := ivs[i]
		var le, ln int64
		for op := 0; op < nOps; op++ {
			ys := ivs
			if op == opLsh || op == opRsh {
				ys = shiftIvs
			}
			for _, y := range ys {
				X, Y := IR{x.lo, x.hi}, IR{y.lo, y.hi}
				z, ok := apply(op, X, Y)
				le++
				desc := func() string { return fmt.Sprintf("%s(%v, %v) = %v ok=%v", opNames[op], X, Y, z, ok) }
				fail := func(clause, want string) {
					sig := fmt.Sprintf("big:%s:%s", opNames[op], clause)
					r.Violation(sig, desc()+"; "+clause+" want "+want, witness{opNames[op], X.String(), Y.String(), z.String(), ok, want, clause, ""})
				}
				if shareAny(z, X, Y) {
					fail("aliases-operand", "")
				}
				finite := x.lo != nil && x.hi != nil && y.lo != nil && y.hi != nil
				if finite {
					lo, hi, rok := refHull(op, [2]*big.Int{x.lo, x.hi}, [2]*big.Int{y.lo, y.hi})
					if rok != ok {
						fail("ok-flag", fmt.Sprint(rok))
						continue
					}
					if !ok {
						continue
					}
					want := IR{lo, hi}
					if !z.Eq(want) || (!want.Empty() && (z[0] == nil || z[1] == nil)) {
						fail("tight", want.String())
					}
					if lo.Cmp(hi) < 0 {
						ln++
					}
					continue
				}
				// (half-)infinite: every finite sub-box's exact hull must be inside the result.
				if !ok {
					// must be justified by an undefined pair
					just := false
					switch op {
					case opQuo:
						just = Y.ContainsInt(big.NewInt(0))
					case opLsh, opRsh:
						just = y.lo == nil || y.lo.Sign() < 0
					}
					if !just {
						fail("ok-flag", "true")
					}
					continue
				}
				if (op == opQuo && Y.ContainsInt(big.NewInt(0))) || ((op == opLsh || op == opRsh) && (y.lo == nil || y.lo.Sign() < 0)) {
					fail("ok-flag", "false")
					continue
				}
				clipv := new(big.Int).Lsh(big.NewInt(1), 70)
				nclip := new(big.Int).Neg(clipv)
				cl := func(b biv) [2]*big.Int {
					lo, hi := b.lo, b.hi
					if lo == nil {
						lo = nclip
						if hi != nil && hi.Cmp(lo) < 0 {
							lo = new(big.Int).Sub(hi, big.NewInt(5))
						}
					}
					if hi == nil {
						hi = clipv
						if lo.Cmp(hi) > 0 {
							hi = new(big.Int).Add(lo, big.NewInt(5))
						}
					}
					return [2]*big.Int{lo, hi}
				}
				cx, cy := cl(x), cl(y)
				if (op == opLsh || op == opRsh) && cy[1].BitLen() > 20 {
					cy[1] = big.NewInt(1 << 12)
					if cy[0].Cmp(cy[1]) > 0 {
						continue
					}
				}
				lo, hi, rok := refHull(op, cx, cy)
				if !rok {
					continue
				}
				if lo.Cmp(hi) <= 0 && !z.ContainsIntRange(IR{lo, hi}) {
					fail("containment-infinite", IR{lo, hi}.String())
				}
				ln++
			}
		}
		nEval.Add(le)
		nNon.Add(ln)
	})
	return nEval.Load(), nNon.Load()
}

// selfCheckRef validates the independent reference against int64 brute force
// (so a bug in refHull/bitHull is a harness error, not an alarm on wuffs).
func selfCheckRef() {
	for op := 0; op < opUnite; op++ {
		for a := int64(-9); a <= 9; a++ {
			for b := a; b <= 9; b++ {
				for c := int64(-9); c <= 9; c++ {
					for d := c; d <= 9; d++ {
						mn, mx := inf, -inf
						undef := false
						for p := a; p <= b; p++ {
							for q := c; q <= d; q++ {
								v, def := conc(op, p, q)
								if !def {
									undef = true
									continue
								}
								if v < mn {
									mn = v
								}
								if v > mx {
									mx = v
								}
							}
						}
						lo, hi, ok := refHull(op, [2]*big.Int{big.NewInt(a), big.NewInt(b)}, [2]*big.Int{big.NewInt(c), big.NewInt(d)})
						if ok == undef {
							ev.Fatal("refHull ok mismatch op=%s [%d,%d] [%d,%d]", opNames[op], a, b, c, d)
						}
						if ok && (lo.Int64() != mn || hi.Int64() != mx) {
							ev.Fatal("refHull mismatch op=%s [%d,%d] [%d,%d]: ref [%v,%v] brute [%d,%d]", opNames[op], a, b, c, d, lo, hi, mn, mx)
						}
					}
				}
			}
		}
	}
}

func replay(path string) {
	b, err := os.ReadFile(path)
	if err != nil {
		ev.Fatal("%v", err)
	}
	var doc struct {
		Witness witness `json:"witness"`
	}
	json.Unmarshal(b, &doc)
	fmt.Printf("replay: %+v\n", doc.Witness)
	parse := func(s string) IR {
		var lo, hi string
		fmt.Sscanf(s, "[%s", &lo)
		// formats "[a..b]" or "[a ..= b]"
		var r IR
		s = s[1 : len(s)-1]
		sep := ".."
		if i := indexOf(s, " ..= "); i >= 0 {
			lo, hi, sep = s[:i], s[i+5:], ""
		} else {
			i := indexOf(s, sep)
			lo, hi = s[:i], s[i+2:]
		}
		if lo != "-inf" && lo != "-∞" {
			r[0], _ = new(big.Int).SetString(lo, 10)
		}
		if hi != "+inf" && hi != "+∞" {
			r[1], _ = new(big.Int).SetString(hi, 10)
		}
		return r
	}
	x, y := parse(doc.Witness.X), parse(doc.Witness.Y)
	for op, nm := range opNames {
		if nm == doc.Witness.Op {
			z, ok := apply(op, x, y)
			fmt.Printf("%s(%v, %v) = %v ok=%v (recorded: %s ok=%v; clause %s want %s)\n", nm, x, y, z, ok, doc.Witness.Got, doc.Witness.GotOK, doc.Witness.Clause, doc.Witness.Want)
		}
	}
}

func indexOf(s, sub string) int {
	for i := 0; i+len(sub) <= len(s); i++ {
		if s[i:i+len(sub)] == sub {
			return i
		}
	}
	return -1
}

func main() {
	if len(os.Args) > 2 && os.Args[1] == "replay" {
		replay(os.Args[2])
		return
	}
	r := ev.Start("C06", "exploration")
	theRun = r
	r.SetBudget(6*time.Minute, 40*time.Minute)
	selfCheckRef()
	N, clip := int64(8), int64(20)
	exps := []uint{8, 32, 64}
	ds := []int64{-1, 0, 1}
	shifts := []int64{0, 1, 7, 8, 31, 32, 33, 63, 64, 65, 70}
	if r.Thorough() {
		N, clip = 14, 30
		exps = []uint{8, 16, 31, 32, 33, 63, 64, 65}
		shifts = append(shifts, 2, 15, 16, 17, 127, 128, 129, 1<<16)
	}
	e1, n1 := smallUniverse(r, N, clip)
	r.Sample(map[string]any{"universe": "small", "N": N, "example": "Quo([-3..5], [1..+inf]) checked against every member pair with the infinite side clipped"})
	e2, n2 := bigUniverse(r, exps, ds, shifts)
	r.Sample(map[string]any{"universe": "big", "example": "And([2^32-1 .. 2^64+1], [-2^8 .. 2^33]) compared with an exact bit-DP hull"})
	r.Finish(ev.Coverage{
		Evaluations:        e1 + e2,
		DistinctNontrivial: n1 + n2,
		Rule: fmt.Sprintf("every ordered pair of intervals with bounds in {-%d..%d,±inf} (incl. empty) x 10 operations, all member pairs brute-forced in int64 (infinite sides clipped to ±%d, containment only); "+
			"plus every pair of intervals with bounds in {s*2^e+d} (e in %v, d in %v, one/two-sided infinite) against an independent exact hull (corner candidates; bit-DP for And/Or; self-checked against brute force); "+
			"non-trivial = result hull has more than one element", N, N, clip, exps, ds),
		Exhaustive: true,
	}, []string{"Go math/big is correct", "shift amounts above 2^16 (the >2^32 fallback of bigIntLsh/Rsh) are not explored", "members of infinite sides are checked only inside the clip range"})
}
