package main

// Source-to-source rewriter: turns the working tree's lib/rac/conc_reader.go
// into a twin in which every channel construct goes through racvsched. It
// refuses (returns an error naming the construct) anything it does not know,
// so that no concurrency primitive is silently left unscheduled.

import (
	"fmt"
	"go/ast"
	"go/parser"
	"go/token"
	"sort"
	"strings"
)

type rewriter struct {
	fset     *token.FileSet
	src      []byte
	mapNames map[string]bool // field / variable names of map type
	seqNames map[string]bool // names of array / slice type
	err      error
	counts   map[string]int
	selN     int
}

func (rw *rewriter) fail(n ast.Node, format string, a ...any) {
	if rw.err == nil {
		rw.err = fmt.Errorf("%s: %s", rw.fset.Position(n.Pos()), fmt.Sprintf(format, a...))
	}
}

func (rw *rewriter) orig(n ast.Node) string {
	return string(rw.src[rw.fset.Position(n.Pos()).Offset:rw.fset.Position(n.End()).Offset])
}

// interesting reports whether n is rewritten as a unit.
func (rw *rewriter) interesting(n ast.Node) bool {
	switch x := n.(type) {
	case *ast.ChanType, *ast.SendStmt, *ast.GoStmt, *ast.SelectStmt:
		return true
	case *ast.UnaryExpr:
		return x.Op == token.ARROW
	case *ast.CallExpr:
		if id, ok := x.Fun.(*ast.Ident); ok {
			if id.Name == "close" {
				return true
			}
			if id.Name == "make" && len(x.Args) > 0 {
				_, isChan := x.Args[0].(*ast.ChanType)
				return isChan
			}
		}
	case *ast.RangeStmt:
		return true
	case *ast.AssignStmt:
		// v, ok := <-c
		if len(x.Lhs) == 2 && len(x.Rhs) == 1 {
			if u, ok := x.Rhs[0].(*ast.UnaryExpr); ok && u.Op == token.ARROW {
				return true
			}
		}
	}
	return false
}

// text renders n with all nested rewrites applied.
func (rw *rewriter) text(n ast.Node) string {
	if rw.interesting(n) {
		return rw.transform(n)
	}
	return rw.children(n)
}

// children renders n verbatim except for its interesting descendants.
func (rw *rewriter) children(n ast.Node) string {
	type edit struct {
		lo, hi int
		s      string
	}
	var edits []edit
	base := rw.fset.Position(n.Pos()).Offset
	end := rw.fset.Position(n.End()).Offset
	ast.Inspect(n, func(m ast.Node) bool {
		if m == nil || m == n {
			return true
		}
		if rw.interesting(m) {
			edits = append(edits, edit{rw.fset.Position(m.Pos()).Offset, rw.fset.Position(m.End()).Offset, rw.transform(m)})
			return false
		}
		return true
	})
	sort.Slice(edits, func(i, j int) bool { return edits[i].lo < edits[j].lo })
	var sb strings.Builder
	pos := base
	for _, e := range edits {
		sb.Write(rw.src[pos:e.lo])
		sb.WriteString(e.s)
		pos = e.hi
	}
	sb.Write(rw.src[pos:end])
	return sb.String()
}

func lastName(e ast.Expr) string {
	switch x := e.(type) {
	case *ast.Ident:
		return x.Name
	case *ast.SelectorExpr:
		return x.Sel.Name
	}
	return ""
}

func (rw *rewriter) transform(n ast.Node) string {
	switch x := n.(type) {
	case *ast.ChanType:
		rw.counts["chan-type"]++
		return "*racvsched.Chan[" + rw.text(x.Value) + "]"
	case *ast.SendStmt:
		rw.counts["send"]++
		return rw.text(x.Chan) + ".Send(" + rw.text(x.Value) + ")"
	case *ast.UnaryExpr:
		rw.counts["recv"]++
		return rw.text(x.X) + ".Recv()"
	case *ast.AssignStmt:
		rw.counts["recv2"]++
		u := x.Rhs[0].(*ast.UnaryExpr)
		return rw.text(x.Lhs[0]) + ", " + rw.text(x.Lhs[1]) + " " + x.Tok.String() + " " + rw.text(u.X) + ".Recv2()"
	case *ast.CallExpr:
		id := x.Fun.(*ast.Ident)
		if id.Name == "close" {
			rw.counts["close"]++
			return rw.text(x.Args[0]) + ".Close()"
		}
		rw.counts["make"]++
		ct := x.Args[0].(*ast.ChanType)
		n := "0"
		if len(x.Args) > 1 {
			n = rw.text(x.Args[1])
		}
		return "racvsched.Make[" + rw.text(ct.Value) + "](" + n + ")"
	case *ast.GoStmt:
		rw.counts["go"]++
		var names, vals []string
		for i, a := range x.Call.Args {
			names = append(names, fmt.Sprintf("__a%d", i))
			vals = append(vals, rw.text(a))
		}
		if _, isLit := x.Call.Fun.(*ast.FuncLit); isLit {
			rw.fail(x, "go statement with a function literal is not supported by the rewriter")
		}
		call := rw.text(x.Call.Fun) + "(" + strings.Join(names, ", ") + ")"
		if len(names) == 0 {
			return "racvsched.Go(func() { " + call + " })"
		}
		return "{ " + strings.Join(names, ", ") + " := " + strings.Join(vals, ", ") + "; racvsched.Go(func() { " + call + " }) }"
	case *ast.RangeStmt:
		name := lastName(x.X)
		switch {
		case rw.mapNames[name]:
			rw.counts["range-map"]++
			// for k, v := range m  ==>  for _, k := range SortedKeys(m) { v := m[k]; ... }
			m := rw.text(x.X)
			k := "_"
			if x.Key != nil {
				k = rw.text(x.Key)
			}
			kk := k
			if kk == "_" {
				kk = "__k"
			}
			body := rw.children(x.Body) // "{ ... }"
			inner := ""
			if x.Value != nil {
				inner = rw.text(x.Value) + " := " + m + "[" + kk + "]; _ = " + rw.text(x.Value) + "; "
			}
			return "for _, " + kk + " := range racvsched.SortedKeys(" + m + ") { _ = " + kk + "; " + inner + body[1:]
		case rw.seqNames[name]:
			return rw.children(x)
		default:
			rw.fail(x, "cannot classify the operand of range (%s): not a known map, array or slice in this file; it might be a channel", rw.orig(x.X))
			return rw.children(x)
		}
	case *ast.SelectStmt:
		rw.counts["select"]++
		rw.selN++
		iv, vv := fmt.Sprintf("__i%d", rw.selN), fmt.Sprintf("__v%d", rw.selN)
		hasDef := false
		var cases []string
		var arms []string
		idx := 0
		for _, st := range x.Body.List {
			cc := st.(*ast.CommClause)
			var body strings.Builder
			for _, b := range cc.Body {
				body.WriteString("\n")
				body.WriteString(rw.text(b))
			}
			if cc.Comm == nil {
				hasDef = true
				arms = append(arms, "default:\n_ = "+vv+body.String())
				continue
			}
			switch c := cc.Comm.(type) {
			case *ast.SendStmt:
				cases = append(cases, "racvsched.SendCase("+rw.text(c.Chan)+", "+rw.text(c.Value)+")")
				arms = append(arms, fmt.Sprintf("case %d:\n_ = %s%s", idx, vv, body.String()))
			case *ast.ExprStmt:
				u, ok := c.X.(*ast.UnaryExpr)
				if !ok || u.Op != token.ARROW {
					rw.fail(c, "unsupported select case")
					continue
				}
				cases = append(cases, "racvsched.RecvCase("+rw.text(u.X)+")")
				arms = append(arms, fmt.Sprintf("case %d:\n_ = %s%s", idx, vv, body.String()))
			case *ast.AssignStmt:
				u, ok := c.Rhs[0].(*ast.UnaryExpr)
				if !ok || u.Op != token.ARROW || len(c.Lhs) != 1 {
					rw.fail(c, "unsupported select receive form")
					continue
				}
				ch := rw.text(u.X)
				cases = append(cases, "racvsched.RecvCase("+ch+")")
				arms = append(arms, fmt.Sprintf("case %d:\n%s %s racvsched.Got(%s, %s)%s", idx, rw.text(c.Lhs[0]), c.Tok.String(), ch, vv, body.String()))
			default:
				rw.fail(cc, "unsupported select clause")
			}
			idx++
		}
		return fmt.Sprintf("switch %s, %s := racvsched.Select(%v, %s); %s {\n%s\n}", iv, vv, hasDef, strings.Join(cases, ", "), iv, strings.Join(arms, "\n"))
	}
	rw.fail(n, "internal: no transform")
	return ""
}

// rewriteConcReader returns the scheduled twin of the given source.
func rewriteConcReader(filename string, src []byte, bufSize int) (out []byte, counts map[string]int, err error) {
	fset := token.NewFileSet()
	f, err := parser.ParseFile(fset, filename, src, parser.ParseComments)
	if err != nil {
		return nil, nil, err
	}
	rw := &rewriter{fset: fset, src: src, mapNames: map[string]bool{}, seqNames: map[string]bool{}, counts: map[string]int{}}
	for _, imp := range f.Imports {
		switch p := strings.Trim(imp.Path.Value, `"`); p {
		case "io":
		default:
			rw.fail(imp, "import %q is not known to the rewriter (sync, time, context, runtime primitives would escape the scheduler)", p)
		}
	}
	// classify names by declared type
	classify := func(names []*ast.Ident, typ ast.Expr) {
		for _, nm := range names {
			switch typ.(type) {
			case *ast.MapType:
				rw.mapNames[nm.Name] = true
			case *ast.ArrayType:
				rw.seqNames[nm.Name] = true
			}
		}
	}
	ast.Inspect(f, func(n ast.Node) bool {
		switch x := n.(type) {
		case *ast.Field:
			classify(x.Names, x.Type)
		case *ast.ValueSpec:
			if x.Type != nil {
				classify(x.Names, x.Type)
			}
		case *ast.AssignStmt:
			if x.Tok == token.DEFINE && len(x.Lhs) == len(x.Rhs) {
				for i, r := range x.Rhs {
					if cl, ok := r.(*ast.CompositeLit); ok && cl.Type != nil {
						if id, ok := x.Lhs[i].(*ast.Ident); ok {
							classify([]*ast.Ident{id}, cl.Type)
						}
					}
				}
			}
		case *ast.Ident:
			if x.Name == "sync" || x.Name == "atomic" || x.Name == "runtime" || x.Name == "time" {
				rw.fail(x, "identifier %q: unknown concurrency primitive", x.Name)
			}
		}
		return true
	})
	var sb strings.Builder
	sb.WriteString("//go:build go1.18 && verif\n\n// Code generated by /verif/checks/c14 from lib/rac/conc_reader.go. DO NOT EDIT.\n\n")
	sb.WriteString("package " + f.Name.Name + "\n\nimport \"github.com/google/wuffs/lib/racvsched\"\n\n")
	for _, d := range f.Decls {
		t := rw.text(d)
		if bufSize > 0 && strings.Contains(t, "rBufferSize") && strings.Contains(t, "= 65536") && strings.HasPrefix(t, "const") {
			// model abstraction (stated in the evidence): the loan buffers are 64 KiB in the
			// real code; executions allocate 4 of them, so exploration uses a small size. Only
			// the capacity changes; with chunks larger than the buffer the work-splitting path runs.
			t = strings.Replace(t, "= 65536", fmt.Sprintf("= %d", bufSize), 1)
			rw.counts["rBufferSize-shrunk"]++
		}
		sb.WriteString(t)
		sb.WriteString("\n\n")
	}
	if bufSize > 0 && rw.counts["rBufferSize-shrunk"] != 1 {
		rw.fail(f, "expected exactly one 'rBufferSize = 65536' constant to shrink")
	}
	sb.WriteString("var _ = racvsched.Yield\n")
	if rw.err != nil {
		return nil, rw.counts, rw.err
	}
	return []byte(sb.String()), rw.counts, nil
}
