// Free-running pass of C14 (complementary to the scheduled exploration): the
// same history bodies run on the UNMODIFIED lib/rac (real channels, real
// goroutines), built with -race. A cooperative scheduler's hand-offs are
// happens-before edges that blind the race detector, so unsynchronised
// accesses are looked for here instead. This pass samples schedules (it is not
// exhaustive); it is reported as such in the evidence.
package main

import (
	"encoding/json"
	"fmt"
	"os"
	"runtime"
	"time"

	"verif/checks/c14/hist"
)

type Input struct {
	Scenarios []hist.Scenario `json:"scenarios"`
	Reps      int             `json:"reps"`
}

type Output struct {
	Executions int64    `json:"executions"`
	Mismatches []string `json:"mismatches"`
	Hangs      []string `json:"hangs"`
	Goroutines int      `json:"goroutines_at_exit"`
}

func main() {
	var in Input
	if err := json.NewDecoder(os.Stdin).Decode(&in); err != nil {
		fmt.Fprintln(os.Stderr, "bad input:", err)
		os.Exit(2)
	}
	out := Output{}
	seenMis := map[string]bool{}
	for _, sc := range in.Scenarios {
		if sc.CSize == 0 {
			sc.CSize = 1
		}
		file, payload := hist.MakeFile(sc.Chunks, sc.CSize)
		for rep := 0; rep < in.Reps; rep++ {
			done := make(chan []hist.CallResult, 1)
			go func() { done <- hist.RunHistory(sc, file, payload) }()
			select {
			case res := <-done:
				out.Executions++
				if d := hist.Compare(sc, payload, res); d != "" {
					k := sc.Name + ": " + d
					if !seenMis[k] && len(out.Mismatches) < 10 {
						seenMis[k] = true
						out.Mismatches = append(out.Mismatches, fmt.Sprintf("%s/chunks%dx%d/conc%d: %s", sc.Name, sc.Chunks, sc.CSize, sc.Conc, d))
					}
				}
			case <-time.After(120 * time.Second):
				// A history takes well under a millisecond; two minutes without
				// returning is a deadlock of the free-running reader.
				out.Hangs = append(out.Hangs, fmt.Sprintf("%s/chunks%dx%d/conc%d rep %d", sc.Name, sc.Chunks, sc.CSize, sc.Conc, rep))
				b, _ := json.Marshal(out)
				fmt.Println(string(b))
				os.Exit(0)
			}
		}
	}
	out.Goroutines = runtime.NumGoroutine()
	b, _ := json.Marshal(out)
	fmt.Println(string(b))
}
