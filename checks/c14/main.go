// C14: RAC random access == slicing the full decode, sequentially and under
// every schedule (bounded) of the concurrent reader.
//
// Part 1 (in-process): BFS over call sequences on Concurrency 0/1 readers,
// co-simulated with a bytes.Reader+limit model.
// Part 2 (E5): lib/rac/conc_reader.go is rewritten onto a cooperative
// scheduler (go build -overlay), and explorer workers enumerate all schedules
// within preemption / deviation bounds with happens-before state pruning.
package main

import (
	"bytes"
	"encoding/json"
	"fmt"
	"io"
	"os"
	"os/exec"
	"path/filepath"
	"regexp"
	"sort"
	"strings"
	"sync"
	"syscall"
	"time"

	"verif/internal/ev"

	"github.com/google/wuffs/lib/rac"
	"github.com/google/wuffs/lib/raclz4"
	"github.com/google/wuffs/lib/raczlib"
)

type Op struct {
	Kind   string `json:"k"`
	N      int    `json:"n,omitempty"`
	Off    int64  `json:"off,omitempty"`
	Whence int    `json:"wh,omitempty"`
	Hi     int64  `json:"hi,omitempty"`
}

func (o Op) String() string {
	switch o.Kind {
	case "read":
		return fmt.Sprintf("Read(%d)", o.N)
	case "seek":
		return fmt.Sprintf("Seek(%d,%d)", o.Off, o.Whence)
	case "seekrange":
		return fmt.Sprintf("SeekRange(%d,%d)", o.Off, o.Hi)
	case "close":
		return "Close"
	case "closenw":
		return "CloseWithoutWaiting"
	}
	return "?"
}

type Scenario struct {
	Name    string `json:"name"`
	Chunks  int    `json:"chunks"`
	CSize   int    `json:"csize,omitempty"`
	Conc    int    `json:"conc"`
	History []Op   `json:"history"`
}

// ---------- Part 1: sequential BFS --------------------------------------------------

type seqFile struct {
	name    string
	file    []byte
	payload []byte
}

func writeRAC(payload []byte, cfg func(w *rac.Writer)) []byte {
	var buf bytes.Buffer
	w := &rac.Writer{Writer: &buf, CodecWriter: &raczlib.CodecWriter{}}
	cfg(w)
	if _, err := w.Write(payload); err != nil {
		ev.Fatal("seed write: %v", err)
	}
	if err := w.Close(); err != nil {
		ev.Fatal("seed close: %v", err)
	}
	return buf.Bytes()
}

type model struct {
	data  []byte
	pos   int64
	limit int64
}

type res struct {
	n    int
	pos  int64
	data string
	err  string // "", "EOF", "error"
}

func (m *model) do(op Op) res {
	size := int64(len(m.data))
	switch op.Kind {
	case "read":
		if m.pos >= m.limit {
			return res{err: "EOF"}
		}
		n := int64(op.N)
		if n > m.limit-m.pos {
			n = m.limit - m.pos
		}
		d := m.data[m.pos : m.pos+n]
		m.pos += n
		return res{n: int(n), data: string(d)}
	case "seek":
		p := op.Off
		switch op.Whence {
		case io.SeekCurrent:
			p += m.pos
		case io.SeekEnd:
			p += size
		}
		if p < 0 {
			return res{err: "error"}
		}
		m.pos, m.limit = p, size
		return res{pos: p}
	case "seekrange":
		if op.Off > op.Hi || op.Off < 0 {
			return res{err: "error"}
		}
		m.pos, m.limit = op.Off, op.Hi
		if m.limit > size {
			m.limit = size
		}
		return res{}
	}
	return res{}
}

func errClass(err error) string {
	if err == nil {
		return ""
	}
	if err == io.EOF {
		return "EOF"
	}
	return "error"
}

// runSeq replays hist on a fresh reader and compares every step with the model.
// Returns "" or the first disagreement; alive=false once both sides errored.
func runSeq(f seqFile, conc int, hist []Op) (bad string, alive bool) {
	defer func() {
		if e := recover(); e != nil {
			bad = fmt.Sprintf("panic: %v", e)
		}
	}()
	r := &rac.Reader{ReadSeeker: bytes.NewReader(f.file), CompressedSize: int64(len(f.file)),
		CodecReaders: []rac.CodecReader{&raczlib.CodecReader{}, &raclz4.CodecReader{}}, Concurrency: conc}
	m := &model{data: f.payload, limit: int64(len(f.payload))}
	for i, op := range hist {
		w := m.do(op)
		var g res
		switch op.Kind {
		case "read":
			buf := make([]byte, op.N)
			n, err := r.Read(buf)
			if n < 0 || n > len(buf) {
				return fmt.Sprintf("call %d %v: bad count %d", i, op, n), false
			}
			g = res{n: n, data: string(buf[:n]), err: errClass(err)}
		case "seek":
			p, err := r.Seek(op.Off, op.Whence)
			g = res{pos: p, err: errClass(err)}
		case "seekrange":
			g = res{err: errClass(r.SeekRange(op.Off, op.Hi))}
		case "close":
			if err := r.Close(); err != nil {
				return fmt.Sprintf("call %d: Close returned %v", i, err), false
			}
			return "", false
		}
		if g.err == "error" || w.err == "error" {
			if g.err == "error" && w.err == "error" {
				return "", false
			}
			return fmt.Sprintf("call %d %v: implementation %+v, model %+v", i, op, g, w), false
		}
		switch op.Kind {
		case "read":
			if g.n != w.n || g.data != w.data {
				return fmt.Sprintf("call %d %v: got n=%d %q want n=%d %q", i, op, g.n, g.data, w.n, w.data), false
			}
			atEnd := m.pos >= m.limit
			if w.err == "EOF" && g.err != "EOF" {
				return fmt.Sprintf("call %d %v at end: want (0,EOF) got (%d,%q)", i, op, g.n, g.err), false
			}
			if w.err == "" && g.err == "EOF" && !(atEnd && w.n > 0) {
				return fmt.Sprintf("call %d %v: premature EOF", i, op), false
			}
		case "seek":
			if g.pos != w.pos || g.err != "" {
				return fmt.Sprintf("call %d %v: got (%d,%q) want pos %d", i, op, g.pos, g.err, w.pos), false
			}
		case "seekrange":
			if g.err != "" {
				return fmt.Sprintf("call %d %v: unexpected error", i, op), false
			}
		}
	}
	return "", true
}

func histString(h []Op) string {
	var s []string
	for _, o := range h {
		s = append(s, o.String())
	}
	return strings.Join(s, ";")
}

func shapeOf(h []Op) string {
	var s []string
	for _, o := range h {
		k := o.Kind
		if k == "seek" {
			k = fmt.Sprintf("seek%d", o.Whence)
		}
		s = append(s, k)
	}
	return strings.Join(s, ";")
}

func sequentialBFS(r *ev.Run, depth int) (states, transitions, traces int64) {
	mk := func(n int) []byte {
		p := make([]byte, n)
		for i := range p {
			p[i] = byte('a' + i%26)
		}
		return p
	}
	p12 := mk(12)
	zt := append(mk(5), make([]byte, 7)...)
	files := []seqFile{
		{"1chunk", writeRAC(mk(5), func(w *rac.Writer) {}), mk(5)},
		{"3chunks", writeRAC(mk(9), func(w *rac.Writer) { w.DChunkSize = 3 }), mk(9)},
		{"12chunks", writeRAC(p12, func(w *rac.Writer) { w.DChunkSize = 1 }), p12},
		{"zero-tail", writeRAC(zt, func(w *rac.Writer) { w.DChunkSize = 4 }), zt},
		{"dict", writeRAC(mk(10), func(w *rac.Writer) { w.DChunkSize = 5; w.ResourcesData = [][]byte{mk(8)} }), mk(10)},
		{"two-level", writeRAC(mk(300), func(w *rac.Writer) { w.DChunkSize = 1 }), mk(300)},
		{"empty", writeRAC(nil, func(w *rac.Writer) {}), nil},
		// more than 255*255 chunks: a three-level index (the bias bookkeeping of the descent
		// only matters from the second level down, under the root's second child)
		{"three-level", writeRAC(mk(65300), func(w *rac.Writer) { w.DChunkSize = 1 }), mk(65300)},
	}
	var mu sync.Mutex
	type unit struct {
		f    seqFile
		conc int
	}
	var units []unit
	for _, f := range files {
		for _, conc := range []int{0, 1} {
			units = append(units, unit{f, conc})
		}
	}
	ev.ParFor(len(units), func(w, ui int) {
		u := units[ui]
		size := int64(len(u.f.payload))
		chunk := int64(3)
		pts := []int64{-1, 0, 1, chunk, chunk + 1, size - 1, size, size + 1}
		if u.f.name == "three-level" {
			pts = []int64{-1, 0, 255*255 - 1, 255 * 255, 255*255 + 1, 255*255 + 255, size - 1, size}
			chunk = 255 * 255
		}
		var alpha []Op
		for _, p := range pts {
			alpha = append(alpha, Op{Kind: "seek", Off: p, Whence: io.SeekStart})
		}
		for _, p := range []int64{-1, 0, 1, -size} {
			alpha = append(alpha, Op{Kind: "seek", Off: p, Whence: io.SeekCurrent}, Op{Kind: "seek", Off: p, Whence: io.SeekEnd})
		}
		for _, lo := range []int64{0, 1, chunk, size} {
			for _, hi := range []int64{0, 1, chunk + 1, size, size + 1} {
				alpha = append(alpha, Op{Kind: "seekrange", Off: lo, Hi: hi})
			}
		}
		for _, n := range []int{0, 1, 3, 4, int(size) + 1} {
			alpha = append(alpha, Op{Kind: "read", N: n})
		}
		alpha = append(alpha, Op{Kind: "close"})
		var lst, ltr, ltc int64
		frontier := [][]Op{nil}
		for d := 1; d <= depth && !r.Expired(); d++ {
			var next [][]Op
			for _, h := range frontier {
				for _, op := range alpha {
					nh := append(append([]Op{}, h...), op)
					ltr++
					bad, alive := runSeq(u.f, u.conc, nh)
					ltc++
					if bad != "" {
						r.Violation(fmt.Sprintf("sequential:conc%d:%s", u.conc, shapeOf(nh)), fmt.Sprintf("file %s Concurrency %d history %s: %s", u.f.name, u.conc, histString(nh), bad),
							map[string]any{"file": u.f.name, "concurrency": u.conc, "history": nh})
						continue
					}
					if alive {
						next = append(next, nh)
						lst++
					}
				}
			}
			frontier = next
			if len(u.f.payload) > 100 && d >= depth-1 {
				break // the large two-level file gets one level less
			}
			if u.f.name == "three-level" && d >= 2 {
				break
			}
		}
		mu.Lock()
		states += lst
		transitions += ltr
		traces += ltc
		mu.Unlock()
	})
	return
}

// ---------- Part 2: scheduler exploration ------------------------------------------

type wViolation struct {
	Kind     string   `json:"kind"`
	Detail   string   `json:"detail"`
	Schedule []int    `json:"schedule"`
	Blocked  []string `json:"blocked,omitempty"`
}

type wStats struct {
	Scenario    Scenario         `json:"scenario"`
	Executions  int64            `json:"executions"`
	Points      int64            `json:"points"`
	States      int64            `json:"states"`
	Cuts        int64            `json:"cuts"`
	Complete    int64            `json:"complete_executions"`
	MaxPoints   int              `json:"max_points_in_one_execution"`
	Exhaustive  bool             `json:"exhaustive"`
	Violations  []wViolation     `json:"violations"`
	CaseHits    map[string]int64 `json:"case_hits"`
	Outcomes    map[string]int64 `json:"outcomes"`
	WallS       float64          `json:"wall_s"`
	SampleSched []int            `json:"sample_schedule"`
	Threads     int              `json:"threads"`
}

func buildWorker(scratch string) (bin string, counts map[string]int) {
	src, err := os.ReadFile(ev.Repo() + "/lib/rac/conc_reader.go")
	if err != nil {
		ev.Fatal("%v", err)
	}
	out, counts, err := rewriteConcReader(ev.Repo()+"/lib/rac/conc_reader.go", src, 8)
	if err != nil {
		ev.Fatal("rewriter refused lib/rac/conc_reader.go (an unknown concurrency construct would escape the scheduler): %v", err)
	}
	twin := filepath.Join(scratch, "conc_reader_sched.go")
	os.WriteFile(twin, out, 0o644)
	vs, err := os.ReadFile(ev.Root + "/overlay/racvsched/vsched.go.txt")
	if err != nil {
		ev.Fatal("%v", err)
	}
	vsPath := filepath.Join(scratch, "vsched.go")
	os.WriteFile(vsPath, vs, 0o644)
	ov := map[string]any{"Replace": map[string]string{
		ev.Repo() + "/lib/rac/conc_reader.go":  twin,
		ev.Repo() + "/lib/racvsched/vsched.go": vsPath,
	}}
	b, _ := json.Marshal(ov)
	ovPath := filepath.Join(scratch, "overlay.json")
	os.WriteFile(ovPath, b, 0o644)
	bin = filepath.Join(scratch, "c14worker")
	cmd := exec.Command("go", "build", "-tags", "verif", "-overlay", ovPath, "-o", bin, "./checks/c14/worker")
	cmd.Dir = ev.Root
	if o, err := cmd.CombinedOutput(); err != nil {
		ev.Fatal("building the scheduled twin failed: %v\n%s", err, o)
	}
	return bin, counts
}

func main() {
	if len(os.Args) > 2 && os.Args[1] == "replay" {
		replay(os.Args[2])
		return
	}
	if len(os.Args) > 2 && os.Args[1] == "buildworker" {
		os.MkdirAll(os.Args[2], 0o755)
		bin, _ := buildWorker(os.Args[2])
		fmt.Println(bin)
		return
	}
	r := ev.Start("C14", "model_checking")
	r.SetBudget(7*time.Minute, 45*time.Minute)
	scratch := os.Getenv("VERIF_SCRATCH")
	if scratch == "" {
		scratch, _ = os.MkdirTemp("/dev/shm", "verif-c14-")
		defer os.RemoveAll(scratch)
	}
	depth := 3
	// (Depth 4 in the thorough tier retained ~10 GB of last-level histories in this process on top of the
	// scheduler workers and was killed by the kernel; not retaining the last level made the Go runtime
	// report "found pointer to free object" in this process reproducibly — cause not established, see
	// DESIGN 10.2 #46/#48 — so both tiers use depth 3 and the last level is retained as before.)
	if os.Getenv("VERIF_C14_ONLY") != "" {
		depth = 1
	}
	sStates, sTrans, sTraces := sequentialBFS(r, depth)
	r.Add("sequential_histories", sTraces)

	bin, counts := buildWorker(scratch)
	for k, v := range counts {
		r.Add("rewritten_"+k, int64(v))
	}

	rd := func(n int) Op { return Op{Kind: "read", N: n} }
	sk := func(off int64) Op { return Op{Kind: "seek", Off: off, Whence: io.SeekStart} }
	cl := Op{Kind: "close"}
	hist := map[string][]Op{
		"readall":            {rd(100), cl},
		"read-seek-read":     {rd(1), sk(0), rd(1), cl},
		"read-seekrange":     {rd(1), {Kind: "seekrange", Off: 1, Hi: 2}, rd(5), cl},
		"seek-seek-read":     {sk(1), sk(2), rd(1), cl},
		"read-close":         {rd(1), cl},
		"read-closenw":       {rd(1), {Kind: "closenw"}},
		"read-to-eof":        {rd(2), rd(100), rd(1), cl},
		"reread-after-eof":   {rd(100), sk(0), rd(100), cl},
		"close-only":         {cl},
		"seek-back-mid-file": {rd(2), sk(1), rd(2), sk(0), rd(1), cl},
		// a failing call while goroutines are at work, then Close: both sides report the
		// error (the comparison ends there) but Close must still leave no goroutine behind
		// the position stays, only the limit changes (narrower / wider than what was requested before)
		"seekrange-same-pos-narrow": {rd(1), {Kind: "seekrange", Off: 1, Hi: 2}, rd(5), rd(1), cl},
		"seekrange-same-pos-widen":  {{Kind: "seekrange", Off: 0, Hi: 2}, rd(1), {Kind: "seekrange", Off: 1, Hi: 30}, rd(40), rd(1), cl},
		"read-badseek-close":        {rd(1), sk(-1), cl},
		"read-badseekrange-close":   {rd(1), {Kind: "seekrange", Off: 2, Hi: 1}, cl},
		"read-badseek-closenw":      {rd(1), sk(-1), {Kind: "closenw"}},
	}
	var names []string
	for k := range hist {
		names = append(names, k)
	}
	sort.Strings(names)
	type job struct {
		sc     Scenario
		P, D   int
		shards int
	}
	var jobs []job
	only := os.Getenv("VERIF_C14_ONLY")
	addJob := func(name string, chunks, csize, conc, P, D, shards int) {
		if only != "" && !strings.Contains(fmt.Sprintf("%s/chunks%d/conc%d", name, chunks, conc), only) {
			return
		}
		jobs = append(jobs, job{Scenario{Name: name, Chunks: chunks, CSize: csize, Conc: conc, History: hist[name]}, P, D, shards})
	}
	if !r.Thorough() {
		for _, conc := range []int{2, 3} {
			for _, n := range names {
				if n == "seek-back-mid-file" {
					addJob(n, 3, 1, conc, 0, 1, 1)
				} else {
					addJob(n, 3, 1, conc, 1, 1, 1)
				}
			}
		}
		for _, n := range []string{"readall", "read-to-eof", "read-seek-read"} {
			addJob(n, 6, 1, 2, 1, 0, 1)
			addJob(n, 6, 1, 2, 0, 1, 1)
		}
		// 12 one-byte chunks: enough outstanding work to fill reqc, resc and both loaned buffers
		addJob("read-seek-read", 12, 1, 2, 0, 1, 1)
		addJob("read-seek-read", 12, 1, 2, 1, 0, 1)
		addJob("read-seek-read", 12, 1, 3, 0, 0, 1)
		addJob("readall", 12, 1, 2, 0, 0, 1)
		for _, n := range []string{"read-close", "read-closenw", "read-seekrange", "seek-seek-read"} {
			addJob(n, 12, 1, 2, 1, 1, 1)
		}
		// chunks larger than the (shrunk, 8-byte) loan buffer: the work-splitting path, and
		// positions INSIDE a chunk (with one-byte chunks every position is a chunk boundary)
		addJob("readall", 2, 20, 2, 1, 1, 1)
		addJob("read-seek-read", 2, 20, 2, 1, 1, 1)
		for _, n := range []string{"read-seekrange", "seekrange-same-pos-narrow", "seekrange-same-pos-widen", "seek-seek-read", "read-to-eof"} {
			addJob(n, 2, 20, 2, 1, 1, 1)
			addJob(n, 2, 20, 3, 0, 1, 1)
		}
	} else {
		for _, conc := range []int{2, 3} {
			for _, n := range names {
				addJob(n, 3, 1, conc, 2, 2, 2)
				addJob(n, 6, 1, conc, 1, 1, 2)
				addJob(n, 12, 1, conc, 1, 1, 4)
				addJob(n, 2, 20, conc, 1, 1, 1)
			}
		}
		for _, n := range []string{"readall", "read-seek-read", "read-close", "read-closenw", "read-to-eof", "read-seekrange"} {
			addJob(n, 3, 1, 2, -1, -1, 4)
		}
		addJob("read-seek-read", 30, 1, 2, 0, 0, 2)
	}
	type task struct {
		j     job
		shard int
	}
	var tasks []task
	for _, j := range jobs {
		for s := 0; s < j.shards; s++ {
			tasks = append(tasks, task{j, s})
		}
	}
	perTaskDeadline := 150
	if r.Thorough() {
		perTaskDeadline = 1500
	}
	var mu sync.Mutex
	var totExec, totPoints, totStates, totComplete int64
	caseHits := map[string]int64{}
	outcomesPer := map[string]int{}
	allExhaustive := true
	ev.ParFor(len(tasks), func(w, ti int) {
		t := tasks[ti]
		scj, _ := json.Marshal(t.j.sc)
		cmd := exec.Command(bin, "-scenario", string(scj), "-P", fmt.Sprint(t.j.P), "-D", fmt.Sprint(t.j.D),
			"-shard", fmt.Sprint(t.shard), "-nshard", fmt.Sprint(t.j.shards), "-deadline", fmt.Sprint(perTaskDeadline), "-maxstates", "9000000")
		cmd.Env = append(os.Environ(), "GOMAXPROCS=1")
		cmd.SysProcAttr = &syscall.SysProcAttr{Pdeathsig: syscall.SIGKILL} // never outlive the check (16 orphans held 64 GB once)
		var stderr bytes.Buffer
		cmd.Stderr = &stderr
		out, err := cmd.Output()
		if err != nil {
			ev.Fatal("explorer worker failed for %s: %v\n%s", scj, err, stderr.String())
		}
		var st wStats
		lines := bytes.Split(bytes.TrimSpace(out), []byte("\n"))
		if err := json.Unmarshal(lines[len(lines)-1], &st); err != nil {
			ev.Fatal("explorer worker output for %s: %v\n%s", scj, err, out)
		}
		mu.Lock()
		defer mu.Unlock()
		totExec += st.Executions
		totPoints += st.Points
		totStates += st.States
		totComplete += st.Complete
		for k, v := range st.CaseHits {
			caseHits[k] += v
		}
		key := fmt.Sprintf("%s/chunks%dx%d/conc%d/P%dD%d", t.j.sc.Name, t.j.sc.Chunks, t.j.sc.CSize, t.j.sc.Conc, t.j.P, t.j.D)
		if len(st.Outcomes) > outcomesPer[key] {
			outcomesPer[key] = len(st.Outcomes)
		}
		if !st.Exhaustive {
			allExhaustive = false
			r.MarkCapped()
		}
		r.HistAdd("executions_by_scenario", key, st.Executions)
		r.HistAdd("wall_s_by_scenario", key, int64(st.WallS))
		r.HistAdd("states_by_scenario", key, st.States)
		for _, v := range st.Violations {
			fileShape := fmt.Sprintf("chunks%dx%d", t.j.sc.Chunks, t.j.sc.CSize)
			sig := fmt.Sprintf("concurrent:%s:%s:%s", t.j.sc.Name, fileShape, v.Kind)
			if v.Kind == "deadlock" || v.Kind == "leak" {
				sig += ":" + roleSet(v.Blocked, t.j.sc.Conc)
			}
			r.Violation(sig, fmt.Sprintf("%s conc=%d history %s: %s: %s", fileShape, t.j.sc.Conc, histString(t.j.sc.History), v.Kind, v.Detail),
				map[string]any{"scenario": t.j.sc, "schedule": v.Schedule, "kind": v.Kind, "detail": v.Detail, "P": t.j.P, "D": t.j.D})
		}
		if ti == 1 {
			r.Sample(map[string]any{"scenario": t.j.sc, "longest_schedule_choice_list": st.SampleSched, "threads": st.Threads})
		}
	})
	for k, v := range caseHits {
		r.HistAdd("select_case_hits", k, v)
	}
	racePass(r, scratch, jobsScenarios(func() (out []Scenario) {
		for _, j := range jobs {
			out = append(out, j.sc)
		}
		return
	}()))
	distinct := int64(0)
	for _, v := range outcomesPer {
		distinct += int64(v)
	}
	r.Add("distinct_outcomes_summed_over_scenarios", distinct)
	r.Add("scheduler_executions", totExec)
	r.Add("scheduler_complete_executions", totComplete)
	r.Sample(map[string]any{"sequential_history": "Seek(4,0);Read(3);SeekRange(1,4);Read(13) on 3chunks, Concurrency 1"})
	r.Finish(ev.Coverage{
		Evaluations:        sTraces + totExec,
		DistinctNontrivial: sStates + totStates,
		States:             sStates + totStates,
		Transitions:        sTrans + totPoints,
		TracesValidated:    sTraces + totExec,
		Rule: fmt.Sprintf("sequential: BFS over all call sequences up to depth %d from a %d-symbol alphabet of Seek/SeekRange/Read/Close on 8 files (1..300 chunks, zero tail, dictionary, empty; a 65300-chunk three-level index to depth 2) x Concurrency{0,1}, every history co-simulated with a bytes.Reader+limit model; "+
			"concurrent: for every (history, file, Concurrency{2,3}) every schedule of the rewritten conc_reader.go within the stated preemption/deviation bounds (quick 1/1, thorough 2/2 and unbounded on 3 chunks), happens-before state pruning; "+
			"states = alive sequential histories + distinct scheduler state keys; transitions = calls + scheduling points", depth, 41),
		Exhaustive: allExhaustive,
	}, []string{"threads share memory only through channels (the rewriter refuses anything else; data races are outside what a cooperative scheduler sees)",
		"map iteration order in recycleBuffers is fixed (sorted) rather than explored",
		"select/rendezvous nondeterminism is explored as deviations from source order",
		"the free-running -race pass (counter free_running_race_pass_executions) samples schedules; it is complementary and not counted in states/transitions"})
}

// jobsScenarios dedupes the scheduled scenarios (several bounds share one scenario).
func jobsScenarios(in []Scenario) (out []Scenario) {
	seen := map[string]bool{}
	for _, sc := range in {
		k := fmt.Sprintf("%s/%d/%d/%d", sc.Name, sc.Chunks, sc.CSize, sc.Conc)
		if !seen[k] {
			seen[k] = true
			out = append(out, sc)
		}
	}
	return out
}

var raceFrame = regexp.MustCompile(`(?m)^  ([A-Za-z0-9_./*()]+)\(\)\n\s+\S*/lib/rac/([a-z_]+\.go):\d+`)

// racePass runs the same history bodies free-running on the unmodified lib/rac built
// with -race (GOMAXPROCS 2 and 16). Complementary to the scheduled exploration and NOT
// exhaustive: it samples schedules; what it adds is visibility of unsynchronised accesses.
func racePass(r *ev.Run, scratch string, scs []Scenario) {
	bin := filepath.Join(scratch, "c14freerun")
	cmd := exec.Command("go", "build", "-race", "-o", bin, "./checks/c14/freerun")
	cmd.Dir = ev.Root
	if o, err := cmd.CombinedOutput(); err != nil {
		ev.Fatal("building the free-running -race pass failed: %v\n%s", err, o)
	}
	reps := 150
	if r.Thorough() {
		reps = 1500
	}
	in, _ := json.Marshal(map[string]any{"scenarios": scs, "reps": reps})
	type res struct {
		Executions int64    `json:"executions"`
		Mismatches []string `json:"mismatches"`
		Hangs      []string `json:"hangs"`
	}
	procs := []string{"2", "16", "4"}
	var mu sync.Mutex
	ev.ParFor(len(procs), func(_, i int) {
		logPrefix := filepath.Join(scratch, "race."+procs[i])
		c := exec.Command(bin)
		c.Env = append(os.Environ(), "GOMAXPROCS="+procs[i], "GORACE=halt_on_error=1 exitcode=66 log_path="+logPrefix)
		c.Stdin = bytes.NewReader(in)
		var stderr bytes.Buffer
		c.Stderr = &stderr
		out, err := c.Output()
		mu.Lock()
		defer mu.Unlock()
		if err != nil {
			logs, _ := filepath.Glob(logPrefix + ".*")
			var report []byte
			for _, l := range logs {
				b, _ := os.ReadFile(l)
				report = append(report, b...)
			}
			if bytes.Contains(report, []byte("DATA RACE")) {
				var fr []string
				for _, m := range raceFrame.FindAllSubmatch(report, 4) {
					fr = append(fr, string(m[1]))
				}
				sig := "concurrent:data-race:" + strings.Join(fr, "|")
				if len(report) > 6000 {
					report = report[:6000]
				}
				r.Violation(sig, "free-running -race pass (GOMAXPROCS="+procs[i]+"): the race detector reports unsynchronised access in lib/rac",
					map[string]any{"gomaxprocs": procs[i], "report": string(report), "how": "go build -race ./checks/c14/freerun; feed the scenarios on stdin"})
				return
			}
			ev.Fatal("free-running pass failed (GOMAXPROCS=%s): %v\n%s\n%s", procs[i], err, stderr.String(), report)
		}
		var o res
		lines := bytes.Split(bytes.TrimSpace(out), []byte("\n"))
		if err := json.Unmarshal(lines[len(lines)-1], &o); err != nil {
			ev.Fatal("free-running pass output: %v\n%s", err, out)
		}
		r.Add("free_running_race_pass_executions", o.Executions)
		for _, m := range o.Mismatches {
			r.Violation("concurrent:free-running:wrong-result", "free-running reader disagrees with the model: "+m, map[string]any{"gomaxprocs": procs[i], "detail": m})
		}
		for _, h := range o.Hangs {
			r.Violation("concurrent:free-running:hang", "free-running reader did not return within 120 s: "+h, map[string]any{"gomaxprocs": procs[i], "detail": h})
		}
	})
}

var chNum = regexp.MustCompile(`ch[0-9]+`)

func roleSet(blocked []string, conc int) string {
	var out []string
	for _, b := range blocked {
		var id int
		var rest string
		if i := strings.IndexByte(b, ':'); i > 0 {
			fmt.Sscanf(b[1:i], "%d", &id)
			rest = b[i+1:]
		}
		role := "worker"
		if id == 0 {
			role = "caller"
		} else if id == conc+1 {
			role = "manager"
		}
		out = append(out, role+" "+chNum.ReplaceAllString(rest, "ch"))
	}
	sort.Strings(out)
	// dedupe
	var d []string
	for i, s := range out {
		if i == 0 || s != out[i-1] {
			d = append(d, s)
		}
	}
	return strings.Join(d, "|")
}

func replay(path string) {
	b, err := os.ReadFile(path)
	if err != nil {
		ev.Fatal("%v", err)
	}
	var doc struct {
		Signature string `json:"signature"`
		Witness   struct {
			Scenario    Scenario `json:"scenario"`
			Schedule    []int    `json:"schedule"`
			File        string   `json:"file"`
			Concurrency int      `json:"concurrency"`
			History     []Op     `json:"history"`
		} `json:"witness"`
	}
	json.Unmarshal(b, &doc)
	if strings.HasPrefix(doc.Signature, "sequential:") {
		fmt.Printf("sequential witness: file %s conc %d history %s\n", doc.Witness.File, doc.Witness.Concurrency, histString(doc.Witness.History))
		fmt.Println("(re-run the quick check to rebuild the seed files; the history above is the complete witness)")
		return
	}
	scratch, _ := os.MkdirTemp("/dev/shm", "verif-c14-replay-")
	defer os.RemoveAll(scratch)
	bin, _ := buildWorker(scratch)
	scj, _ := json.Marshal(doc.Witness.Scenario)
	var ss []string
	for _, c := range doc.Witness.Schedule {
		ss = append(ss, fmt.Sprint(c))
	}
	arg := strings.Join(ss, ",")
	if arg == "" {
		arg = "-"
	}
	cmd := exec.Command(bin, "-scenario", string(scj), "-replay", arg)
	cmd.Stdout, cmd.Stderr = os.Stdout, os.Stderr
	cmd.Run()
}
