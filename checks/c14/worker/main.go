//go:build verif

// Explorer worker for C14: runs the rewritten (scheduler-controlled) rac
// concurrent reader for one (file, history, concurrency) under every schedule
// within the preemption / deviation bounds, with happens-before state pruning.
package main

import (
	"bytes"
	"encoding/json"
	"flag"
	"fmt"
	"io"
	"os"
	"runtime/debug"
	"runtime/pprof"
	"sort"
	"strings"
	"time"

	"github.com/google/wuffs/lib/rac"
	"github.com/google/wuffs/lib/racvsched"

	"verif/checks/c14/hist"
)

type (
	Op         = hist.Op
	Scenario   = hist.Scenario
	CallResult = hist.CallResult
	idReader   = hist.IDReader
)

var (
	makeFile   = hist.MakeFile
	runHistory = hist.RunHistory
	compare    = hist.Compare
)

type Violation struct {
	Kind     string   `json:"kind"`
	Detail   string   `json:"detail"`
	Schedule []int    `json:"schedule"`
	Blocked  []string `json:"blocked,omitempty"`
}

type Stats struct {
	Scenario    Scenario         `json:"scenario"`
	Executions  int64            `json:"executions"`
	Points      int64            `json:"points"`
	States      int64            `json:"states"`
	Cuts        int64            `json:"cuts"`
	Complete    int64            `json:"complete_executions"`
	MaxPoints   int              `json:"max_points_in_one_execution"`
	PreBound    int              `json:"pre_bound"`
	DevBound    int              `json:"dev_bound"`
	Exhaustive  bool             `json:"exhaustive"`
	Violations  []Violation      `json:"violations"`
	CaseHits    map[string]int64 `json:"case_hits"`
	Outcomes    map[string]int64 `json:"outcomes"`
	WallS       float64          `json:"wall_s"`
	SampleSched []int            `json:"sample_schedule"`
	Threads     int              `json:"threads"`
}

type budget struct{ pre, dev int }

func main() {
	scJSON := flag.String("scenario", "", "scenario json")
	P := flag.Int("P", 1, "preemption bound (-1 unbounded)")
	D := flag.Int("D", 1, "select/partner deviation bound (-1 unbounded)")
	shard := flag.Int("shard", 0, "")
	nshard := flag.Int("nshard", 1, "")
	deadlineS := flag.Int("deadline", 600, "")
	replay := flag.String("replay", "", "comma-separated schedule to replay")
	maxViol := flag.Int("maxviol", 5, "")
	maxStates := flag.Int("maxstates", 0, "stop (exhaustive=false) when the visited set holds this many states (memory bound; 0 = none)")
	cpuprof := flag.String("cpuprofile", "", "")
	flag.Parse()
	if *cpuprof != "" {
		f, _ := os.Create(*cpuprof)
		pprof.StartCPUProfile(f)
		defer pprof.StopCPUProfile()
	}
	debug.SetGCPercent(800)
	var sc Scenario
	if err := json.Unmarshal([]byte(*scJSON), &sc); err != nil {
		fmt.Fprintln(os.Stderr, "bad scenario:", err)
		os.Exit(2)
	}
	if sc.CSize == 0 {
		sc.CSize = 1
	}
	file, payload := makeFile(sc.Chunks, sc.CSize)
	{
		// sanity: the identity-codec file reads back sequentially
		r := &rac.Reader{ReadSeeker: bytes.NewReader(file), CompressedSize: int64(len(file)), CodecReaders: []rac.CodecReader{&idReader{}}}
		got, err := io.ReadAll(r)
		if err != nil || !bytes.Equal(got, payload) {
			fmt.Fprintln(os.Stderr, "HARNESS-ERROR: identity-codec seed file does not round-trip:", err)
			os.Exit(2)
		}
	}
	for i := 1; i <= sc.Conc; i++ {
		racvsched.Roles[i] = "worker"
	}
	racvsched.Roles[0] = "caller"
	racvsched.Roles[sc.Conc+1] = "manager"
	if *P < 0 {
		*P = 1 << 30
	}
	if *D < 0 {
		*D = 1 << 30
	}
	endsClosed := len(sc.History) > 0 && strings.HasPrefix(sc.History[len(sc.History)-1].Kind, "close")

	st := &Stats{Scenario: sc, PreBound: *P, DevBound: *D, CaseHits: map[string]int64{}, Outcomes: map[string]int64{}, Exhaustive: true}
	start := time.Now()

	runOnce := func(prefix []int, cut func(uint64, int, int) bool) (*racvsched.Sched, []CallResult) {
		var results []CallResult
		s := racvsched.Run(prefix, 20000, *P < 1<<29, cut, func() {
			results = runHistory(sc, file, payload)
		})
		return s, results
	}
	judge := func(s *racvsched.Sched, results []CallResult) *Violation {
		choices := make([]int, len(s.Points))
		for i, p := range s.Points {
			choices[i] = p.Chosen
		}
		switch {
		case s.Diverged != "":
			fmt.Fprintln(os.Stderr, "HARNESS-ERROR: replay diverged:", s.Diverged)
			os.Exit(2)
		case s.PanicVal != nil:
			return &Violation{"panic", fmt.Sprint(s.PanicVal), choices, nil}
		case s.Livelock:
			return &Violation{"livelock", "scheduling-point horizon reached", choices[:min(len(choices), 200)], nil}
		case s.Deadlock && !s.MainDone():
			b := append([]string{}, s.Blocked...)
			sort.Strings(b)
			return &Violation{"deadlock", fmt.Sprintf("after %d completed calls; blocked: %s", len(results), strings.Join(b, " ")), choices, b}
		case s.Deadlock && s.MainDone() && endsClosed:
			b := append([]string{}, s.Blocked...)
			sort.Strings(b)
			return &Violation{"leak", "goroutines still blocked after Close returned: " + strings.Join(b, " "), choices, b}
		}
		if s.WasCut {
			return nil
		}
		if d := compare(sc, payload, results); d != "" {
			return &Violation{"wrong-result", d, choices, nil}
		}
		return nil
	}

	if *replay != "" {
		var pre []int
		if *replay != "-" {
			for _, f := range strings.Split(*replay, ",") {
				var v int
				fmt.Sscan(f, &v)
				pre = append(pre, v)
			}
		}
		var keys [2][]uint64
		for rep := 0; rep < 2; rep++ {
			s, results := runOnce(pre, nil)
			v := judge(s, results)
			for _, p := range s.Points {
				keys[rep] = append(keys[rep], p.Key)
			}
			fmt.Printf("replay %d: points=%d results=%+v violation=%+v\n", rep, len(s.Points), results, v)
		}
		same := len(keys[0]) == len(keys[1])
		for i := 0; same && i < len(keys[0]); i++ {
			same = keys[0][i] == keys[1][i]
		}
		fmt.Println("identical observations on both replays:", same)
		return
	}

	visited := map[uint64][]budget{}
	cut := func(key uint64, pre, dev int) bool {
		left := budget{*P - pre, *D - dev}
		bs := visited[key]
		for _, b := range bs {
			if b.pre >= left.pre && b.dev >= left.dev {
				st.Cuts++
				return true
			}
		}
		nb := bs[:0]
		for _, b := range bs {
			if !(left.pre >= b.pre && left.dev >= b.dev) {
				nb = append(nb, b)
			}
		}
		visited[key] = append(nb, left)
		return false
	}

	type frame struct{ prefix []int }
	stack := []frame{{nil}}
	first := true
	sigSeen := map[string]bool{}
	deadline := start.Add(time.Duration(*deadlineS) * time.Second)
	for len(stack) > 0 {
		if time.Now().After(deadline) || (*maxStates > 0 && len(visited) > *maxStates) {
			st.Exhaustive = false
			break
		}
		f := stack[len(stack)-1]
		stack = stack[:len(stack)-1]
		s, results := runOnce(f.prefix, cut)
		st.Executions++
		st.Points += int64(len(s.Points) - len(f.prefix))
		if len(s.Points) > st.MaxPoints {
			st.MaxPoints = len(s.Points)
		}
		if s.NumThreads() > st.Threads {
			st.Threads = s.NumThreads()
		}
		for k, v := range s.Hits() {
			st.CaseHits[k] += int64(v)
		}
		if !s.WasCut {
			st.Complete++
			if st.SampleSched == nil || len(s.Points) > len(st.SampleSched) {
				st.SampleSched = nil
				for _, p := range s.Points {
					st.SampleSched = append(st.SampleSched, p.Chosen)
				}
			}
			b, _ := json.Marshal(results)
			oc := string(b)
			if s.Deadlock && !s.MainDone() {
				oc = "deadlock"
			}
			st.Outcomes[oc]++
		}
		if v := judge(s, results); v != nil {
			sig := v.Kind + ":" + strings.Join(v.Blocked, " ")
			if v.Kind == "wrong-result" {
				sig = v.Kind + ":" + v.Detail
			}
			if !sigSeen[sig] && len(st.Violations) < *maxViol {
				sigSeen[sig] = true
				st.Violations = append(st.Violations, *v)
			}
		}
		// children: every non-default alternative at every point beyond the prefix
		choices := make([]int, len(s.Points))
		for i, p := range s.Points {
			choices[i] = p.Chosen
		}
		for i := len(s.Points) - 1; i >= len(f.prefix); i-- {
			p := &s.Points[i]
			for alt := len(p.Alts) - 1; alt >= 0; alt-- {
				if alt == p.Chosen {
					continue
				}
				pc, dc := racvsched.AltCost(p, alt)
				if p.PreCost+pc > *P || p.DevCost+dc > *D {
					continue
				}
				if first && *nshard > 1 {
					// shard the children of the root execution
					if (i*31+alt)%*nshard != *shard {
						continue
					}
				}
				np := make([]int, i+1)
				copy(np, choices[:i])
				np[i] = alt
				stack = append(stack, frame{np})
			}
		}
		first = false
	}
	st.States = int64(len(visited))
	st.WallS = time.Since(start).Seconds()
	out, _ := json.Marshal(st)
	fmt.Println(string(out))
}
