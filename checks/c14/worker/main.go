//go:build verif

// Explorer worker for C14: runs the rewritten (scheduler-controlled) rac
// concurrent reader for one (file, history, concurrency) under every schedule
// within the preemption / deviation bounds, with happens-before state pruning.
package main

import (
	"bytes"
	"encoding/json"
	"flag"
	"fmt"
	"io"
	"os"
	"runtime/debug"
	"runtime/pprof"
	"sort"
	"strings"
	"time"

	"github.com/google/wuffs/lib/rac"
	"github.com/google/wuffs/lib/racvsched"
)

type Op struct {
	Kind   string `json:"k"` // read seek seekrange close closenw
	N      int    `json:"n,omitempty"`
	Off    int64  `json:"off,omitempty"`
	Whence int    `json:"wh,omitempty"`
	Hi     int64  `json:"hi,omitempty"`
}

type Scenario struct {
	Name    string `json:"name"`
	Chunks  int    `json:"chunks"`
	CSize   int    `json:"csize"` // decompressed bytes per chunk (default 1)
	Conc    int    `json:"conc"`
	History []Op   `json:"history"`
}

type CallResult struct {
	N    int    `json:"n"`
	Pos  int64  `json:"pos"`
	Data string `json:"data"`
	Err  string `json:"err"` // "", "EOF", "error"
}

func errClass(err error) string {
	if err == nil {
		return ""
	}
	if err == io.EOF {
		return "EOF"
	}
	return "error:" + err.Error()
}

// idCodec is an identity "compression" codec (a long codec id), so that an
// execution does not pay for a zlib stream per chunk; the scheduling behaviour
// of the concurrent reader does not depend on the codec.
const idCodecID = rac.Codec(0x8000000000766964)

type idWriter struct{}

func (idWriter) Close() error            { return nil }
func (idWriter) Clone() rac.CodecWriter  { return idWriter{} }
func (idWriter) CanCut() bool            { return false }
func (idWriter) WrapResource(raw []byte) ([]byte, error) { return raw, nil }
func (idWriter) Cut(codec rac.Codec, encoded []byte, maxEncodedLen int) (int, int, error) {
	return 0, 0, fmt.Errorf("no cut")
}
func (idWriter) Compress(p []byte, q []byte, resourcesData [][]byte) (rac.Codec, []byte, int, int, error) {
	// one length byte, then the bytes (a chunk's CRange may extend past its data)
	if len(p)+len(q) > 255 {
		return 0, nil, 0, 0, fmt.Errorf("idCodec: chunk too long")
	}
	return idCodecID, append(append([]byte{byte(len(p) + len(q))}, p...), q...), rac.NoResourceUsed, rac.NoResourceUsed, nil
}

type idReader struct{ lim io.LimitedReader }

func (*idReader) Close() error              { return nil }
func (*idReader) Accepts(c rac.Codec) bool  { return c == idCodecID }
func (*idReader) Clone() rac.CodecReader    { return &idReader{} }
func (r *idReader) MakeDecompressor(racFile io.ReadSeeker, chunk rac.Chunk) (io.Reader, error) {
	if _, err := racFile.Seek(chunk.CPrimary[0], io.SeekStart); err != nil {
		return nil, err
	}
	var l [1]byte
	if _, err := io.ReadFull(racFile, l[:]); err != nil {
		return nil, err
	}
	r.lim.R, r.lim.N = racFile, int64(l[0])
	return &r.lim, nil
}

func makeFile(chunks int, chunkSize int) (file, payload []byte) {
	for i := 0; i < chunks*chunkSize; i++ {
		payload = append(payload, byte('a'+i%26))
	}
	var buf bytes.Buffer
	w := &rac.Writer{Writer: &buf, CodecWriter: idWriter{}, DChunkSize: uint64(chunkSize)}
	if _, err := w.Write(payload); err != nil {
		panic(err)
	}
	if err := w.Close(); err != nil {
		panic(err)
	}
	return buf.Bytes(), payload
}

// model: bytes.Reader + limit
type model struct {
	data  []byte
	pos   int64
	limit int64
}

func (m *model) do(op Op) CallResult {
	size := int64(len(m.data))
	switch op.Kind {
	case "read":
		if m.pos >= m.limit {
			return CallResult{Err: "EOF"}
		}
		n := int64(op.N)
		if n > m.limit-m.pos {
			n = m.limit - m.pos
		}
		d := m.data[m.pos : m.pos+n]
		m.pos += n
		return CallResult{N: int(n), Data: string(d)}
	case "seek":
		p := op.Off
		switch op.Whence {
		case io.SeekCurrent:
			p += m.pos
		case io.SeekEnd:
			p += size
		}
		if p < 0 {
			return CallResult{Err: "error"}
		}
		m.pos, m.limit = p, size
		return CallResult{Pos: p}
	case "seekrange":
		if op.Off > op.Hi || op.Off < 0 {
			return CallResult{Err: "error"}
		}
		m.pos = op.Off
		m.limit = op.Hi
		if m.limit > size {
			m.limit = size
		}
		return CallResult{}
	}
	return CallResult{}
}

func runHistory(sc Scenario, file, payload []byte) (results []CallResult) {
	r := &rac.Reader{ReadSeeker: bytes.NewReader(file), CompressedSize: int64(len(file)),
		CodecReaders: []rac.CodecReader{&idReader{}}, Concurrency: sc.Conc}
	for _, op := range sc.History {
		var cr CallResult
		switch op.Kind {
		case "read":
			buf := make([]byte, op.N)
			n, err := r.Read(buf)
			if n < 0 || n > len(buf) {
				cr = CallResult{N: n, Err: "error:bad count"}
			} else {
				cr = CallResult{N: n, Data: string(buf[:n]), Err: errClass(err)}
			}
		case "seek":
			p, err := r.Seek(op.Off, op.Whence)
			cr = CallResult{Pos: p, Err: errClass(err)}
		case "seekrange":
			cr = CallResult{Err: errClass(r.SeekRange(op.Off, op.Hi))}
		case "close":
			cr = CallResult{Err: errClass(r.Close())}
		case "closenw":
			cr = CallResult{Err: errClass(r.CloseWithoutWaiting())}
		}
		results = append(results, cr)
	}
	return results
}

// compare returns "" or a description of the first disagreement with the model.
func compare(sc Scenario, payload []byte, got []CallResult) string {
	m := &model{data: payload, limit: int64(len(payload))}
	for i, op := range sc.History {
		if i >= len(got) {
			return fmt.Sprintf("call %d (%s) never returned", i, op.Kind)
		}
		g := got[i]
		if op.Kind == "close" || op.Kind == "closenw" {
			if g.Err != "" {
				return fmt.Sprintf("call %d: Close returned %q", i, g.Err)
			}
			continue
		}
		w := m.do(op)
		gerr := g.Err
		if strings.HasPrefix(gerr, "error") {
			if w.Err == "error" {
				return "" // both report an error: history ends
			}
			return fmt.Sprintf("call %d %+v: implementation error %q, model %+v", i, op, gerr, w)
		}
		if w.Err == "error" {
			return fmt.Sprintf("call %d %+v: model reports an error, implementation returned %+v", i, op, g)
		}
		switch op.Kind {
		case "read":
			if g.N != w.N || g.Data != w.Data {
				return fmt.Sprintf("call %d Read(%d): got n=%d %q, want n=%d %q", i, op.N, g.N, g.Data, w.N, w.Data)
			}
			atEnd := m.pos >= m.limit
			switch {
			case w.Err == "EOF" && gerr != "EOF":
				return fmt.Sprintf("call %d Read(%d) at end: want (0, EOF), got (%d, %q)", i, op.N, g.N, gerr)
			case w.Err == "" && gerr == "EOF" && !(atEnd && w.N > 0):
				return fmt.Sprintf("call %d Read(%d): premature EOF", i, op.N)
			}
		case "seek":
			if g.Pos != w.Pos {
				return fmt.Sprintf("call %d Seek: got pos %d want %d", i, g.Pos, w.Pos)
			}
			if gerr != "" {
				return fmt.Sprintf("call %d Seek(%d,%d): unexpected %q", i, op.Off, op.Whence, gerr)
			}
		case "seekrange":
			if gerr != "" {
				return fmt.Sprintf("call %d SeekRange(%d,%d): unexpected %q", i, op.Off, op.Hi, gerr)
			}
		}
	}
	return ""
}

type Violation struct {
	Kind     string   `json:"kind"`
	Detail   string   `json:"detail"`
	Schedule []int    `json:"schedule"`
	Blocked  []string `json:"blocked,omitempty"`
}

type Stats struct {
	Scenario    Scenario         `json:"scenario"`
	Executions  int64            `json:"executions"`
	Points      int64            `json:"points"`
	States      int64            `json:"states"`
	Cuts        int64            `json:"cuts"`
	Complete    int64            `json:"complete_executions"`
	MaxPoints   int              `json:"max_points_in_one_execution"`
	PreBound    int              `json:"pre_bound"`
	DevBound    int              `json:"dev_bound"`
	Exhaustive  bool             `json:"exhaustive"`
	Violations  []Violation      `json:"violations"`
	CaseHits    map[string]int64 `json:"case_hits"`
	Outcomes    map[string]int64 `json:"outcomes"`
	WallS       float64          `json:"wall_s"`
	SampleSched []int            `json:"sample_schedule"`
	Threads     int              `json:"threads"`
}

type budget struct{ pre, dev int }

func main() {
	scJSON := flag.String("scenario", "", "scenario json")
	P := flag.Int("P", 1, "preemption bound (-1 unbounded)")
	D := flag.Int("D", 1, "select/partner deviation bound (-1 unbounded)")
	shard := flag.Int("shard", 0, "")
	nshard := flag.Int("nshard", 1, "")
	deadlineS := flag.Int("deadline", 600, "")
	replay := flag.String("replay", "", "comma-separated schedule to replay")
	maxViol := flag.Int("maxviol", 5, "")
	cpuprof := flag.String("cpuprofile", "", "")
	flag.Parse()
	if *cpuprof != "" {
		f, _ := os.Create(*cpuprof)
		pprof.StartCPUProfile(f)
		defer pprof.StopCPUProfile()
	}
	debug.SetGCPercent(800)
	var sc Scenario
	if err := json.Unmarshal([]byte(*scJSON), &sc); err != nil {
		fmt.Fprintln(os.Stderr, "bad scenario:", err)
		os.Exit(2)
	}
	if sc.CSize == 0 {
		sc.CSize = 1
	}
	file, payload := makeFile(sc.Chunks, sc.CSize)
	{
		// sanity: the identity-codec file reads back sequentially
		r := &rac.Reader{ReadSeeker: bytes.NewReader(file), CompressedSize: int64(len(file)), CodecReaders: []rac.CodecReader{&idReader{}}}
		got, err := io.ReadAll(r)
		if err != nil || !bytes.Equal(got, payload) {
			fmt.Fprintln(os.Stderr, "HARNESS-ERROR: identity-codec seed file does not round-trip:", err)
			os.Exit(2)
		}
	}
	for i := 1; i <= sc.Conc; i++ {
		racvsched.Roles[i] = "worker"
	}
	racvsched.Roles[0] = "caller"
	racvsched.Roles[sc.Conc+1] = "manager"
	if *P < 0 {
		*P = 1 << 30
	}
	if *D < 0 {
		*D = 1 << 30
	}
	endsClosed := len(sc.History) > 0 && strings.HasPrefix(sc.History[len(sc.History)-1].Kind, "close")

	st := &Stats{Scenario: sc, PreBound: *P, DevBound: *D, CaseHits: map[string]int64{}, Outcomes: map[string]int64{}, Exhaustive: true}
	start := time.Now()

	runOnce := func(prefix []int, cut func(uint64, int, int) bool) (*racvsched.Sched, []CallResult) {
		var results []CallResult
		s := racvsched.Run(prefix, 20000, *P < 1<<29, cut, func() {
			results = runHistory(sc, file, payload)
		})
		return s, results
	}
	judge := func(s *racvsched.Sched, results []CallResult) *Violation {
		choices := make([]int, len(s.Points))
		for i, p := range s.Points {
			choices[i] = p.Chosen
		}
		switch {
		case s.Diverged != "":
			fmt.Fprintln(os.Stderr, "HARNESS-ERROR: replay diverged:", s.Diverged)
			os.Exit(2)
		case s.PanicVal != nil:
			return &Violation{"panic", fmt.Sprint(s.PanicVal), choices, nil}
		case s.Livelock:
			return &Violation{"livelock", "scheduling-point horizon reached", choices[:min(len(choices), 200)], nil}
		case s.Deadlock && !s.MainDone():
			b := append([]string{}, s.Blocked...)
			sort.Strings(b)
			return &Violation{"deadlock", fmt.Sprintf("after %d completed calls; blocked: %s", len(results), strings.Join(b, " ")), choices, b}
		case s.Deadlock && s.MainDone() && endsClosed:
			b := append([]string{}, s.Blocked...)
			sort.Strings(b)
			return &Violation{"leak", "goroutines still blocked after Close returned: " + strings.Join(b, " "), choices, b}
		}
		if s.WasCut {
			return nil
		}
		if d := compare(sc, payload, results); d != "" {
			return &Violation{"wrong-result", d, choices, nil}
		}
		return nil
	}

	if *replay != "" {
		var pre []int
		if *replay != "-" {
			for _, f := range strings.Split(*replay, ",") {
				var v int
				fmt.Sscan(f, &v)
				pre = append(pre, v)
			}
		}
		var keys [2][]uint64
		for rep := 0; rep < 2; rep++ {
			s, results := runOnce(pre, nil)
			v := judge(s, results)
			for _, p := range s.Points {
				keys[rep] = append(keys[rep], p.Key)
			}
			fmt.Printf("replay %d: points=%d results=%+v violation=%+v\n", rep, len(s.Points), results, v)
		}
		same := len(keys[0]) == len(keys[1])
		for i := 0; same && i < len(keys[0]); i++ {
			same = keys[0][i] == keys[1][i]
		}
		fmt.Println("identical observations on both replays:", same)
		return
	}

	visited := map[uint64][]budget{}
	cut := func(key uint64, pre, dev int) bool {
		left := budget{*P - pre, *D - dev}
		bs := visited[key]
		for _, b := range bs {
			if b.pre >= left.pre && b.dev >= left.dev {
				st.Cuts++
				return true
			}
		}
		nb := bs[:0]
		for _, b := range bs {
			if !(left.pre >= b.pre && left.dev >= b.dev) {
				nb = append(nb, b)
			}
		}
		visited[key] = append(nb, left)
		return false
	}

	type frame struct{ prefix []int }
	stack := []frame{{nil}}
	first := true
	sigSeen := map[string]bool{}
	deadline := start.Add(time.Duration(*deadlineS) * time.Second)
	for len(stack) > 0 {
		if time.Now().After(deadline) {
			st.Exhaustive = false
			break
		}
		f := stack[len(stack)-1]
		stack = stack[:len(stack)-1]
		s, results := runOnce(f.prefix, cut)
		st.Executions++
		st.Points += int64(len(s.Points) - len(f.prefix))
		if len(s.Points) > st.MaxPoints {
			st.MaxPoints = len(s.Points)
		}
		if s.NumThreads() > st.Threads {
			st.Threads = s.NumThreads()
		}
		for k, v := range s.Hits() {
			st.CaseHits[k] += int64(v)
		}
		if !s.WasCut {
			st.Complete++
			if st.SampleSched == nil || len(s.Points) > len(st.SampleSched) {
				st.SampleSched = nil
				for _, p := range s.Points {
					st.SampleSched = append(st.SampleSched, p.Chosen)
				}
			}
			b, _ := json.Marshal(results)
			oc := string(b)
			if s.Deadlock && !s.MainDone() {
				oc = "deadlock"
			}
			st.Outcomes[oc]++
		}
		if v := judge(s, results); v != nil {
			sig := v.Kind + ":" + strings.Join(v.Blocked, " ")
			if v.Kind == "wrong-result" {
				sig = v.Kind + ":" + v.Detail
			}
			if !sigSeen[sig] && len(st.Violations) < *maxViol {
				sigSeen[sig] = true
				st.Violations = append(st.Violations, *v)
			}
		}
		// children: every non-default alternative at every point beyond the prefix
		choices := make([]int, len(s.Points))
		for i, p := range s.Points {
			choices[i] = p.Chosen
		}
		for i := len(s.Points) - 1; i >= len(f.prefix); i-- {
			p := &s.Points[i]
			for alt := len(p.Alts) - 1; alt >= 0; alt-- {
				if alt == p.Chosen {
					continue
				}
				pc, dc := racvsched.AltCost(p, alt)
				if p.PreCost+pc > *P || p.DevCost+dc > *D {
					continue
				}
				if first && *nshard > 1 {
					// shard the children of the root execution
					if (i*31+alt)%*nshard != *shard {
						continue
					}
				}
				np := make([]int, i+1)
				copy(np, choices[:i])
				np[i] = alt
				stack = append(stack, frame{np})
			}
		}
		first = false
	}
	st.States = int64(len(visited))
	st.WallS = time.Since(start).Seconds()
	out, _ := json.Marshal(st)
	fmt.Println(string(out))
}
