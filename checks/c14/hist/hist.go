// Package hist holds what the scheduled explorer worker and the free-running
// race pass of C14 share: the call-history alphabet, the identity codec, the
// seed-file builder, the bytes.Reader+limit model and the comparison.
package hist

import (
	"bytes"
	"fmt"
	"io"
	"strings"

	"github.com/google/wuffs/lib/rac"
)

type Op struct {
	Kind   string `json:"k"` // read seek seekrange close closenw
	N      int    `json:"n,omitempty"`
	Off    int64  `json:"off,omitempty"`
	Whence int    `json:"wh,omitempty"`
	Hi     int64  `json:"hi,omitempty"`
}

type Scenario struct {
	Name    string `json:"name"`
	Chunks  int    `json:"chunks"`
	CSize   int    `json:"csize"` // decompressed bytes per chunk (default 1)
	Conc    int    `json:"conc"`
	History []Op   `json:"history"`
}

type CallResult struct {
	N    int    `json:"n"`
	Pos  int64  `json:"pos"`
	Data string `json:"data"`
	Err  string `json:"err"` // "", "EOF", "error"
}

func ErrClass(err error) string {
	if err == nil {
		return ""
	}
	if err == io.EOF {
		return "EOF"
	}
	return "error:" + err.Error()
}

// idCodec is an identity "compression" codec (a long codec id), so that an
// execution does not pay for a zlib stream per chunk; the scheduling behaviour
// of the concurrent reader does not depend on the codec.
const IDCodecID = rac.Codec(0x8000000000766964)

type IDWriter struct{}

func (IDWriter) Close() error                            { return nil }
func (IDWriter) Clone() rac.CodecWriter                  { return IDWriter{} }
func (IDWriter) CanCut() bool                            { return false }
func (IDWriter) WrapResource(raw []byte) ([]byte, error) { return raw, nil }
func (IDWriter) Cut(codec rac.Codec, encoded []byte, maxEncodedLen int) (int, int, error) {
	return 0, 0, fmt.Errorf("no cut")
}
func (IDWriter) Compress(p []byte, q []byte, resourcesData [][]byte) (rac.Codec, []byte, int, int, error) {
	// one length byte, then the bytes (a chunk's CRange may extend past its data)
	if len(p)+len(q) > 255 {
		return 0, nil, 0, 0, fmt.Errorf("idCodec: chunk too long")
	}
	return IDCodecID, append(append([]byte{byte(len(p) + len(q))}, p...), q...), rac.NoResourceUsed, rac.NoResourceUsed, nil
}

type IDReader struct{ lim io.LimitedReader }

func (*IDReader) Close() error             { return nil }
func (*IDReader) Accepts(c rac.Codec) bool { return c == IDCodecID }
func (*IDReader) Clone() rac.CodecReader   { return &IDReader{} }
func (r *IDReader) MakeDecompressor(racFile io.ReadSeeker, chunk rac.Chunk) (io.Reader, error) {
	if _, err := racFile.Seek(chunk.CPrimary[0], io.SeekStart); err != nil {
		return nil, err
	}
	var l [1]byte
	if _, err := io.ReadFull(racFile, l[:]); err != nil {
		return nil, err
	}
	r.lim.R, r.lim.N = racFile, int64(l[0])
	return &r.lim, nil
}

func MakeFile(chunks int, chunkSize int) (file, payload []byte) {
	for i := 0; i < chunks*chunkSize; i++ {
		payload = append(payload, byte('a'+i%26))
	}
	var buf bytes.Buffer
	w := &rac.Writer{Writer: &buf, CodecWriter: IDWriter{}, DChunkSize: uint64(chunkSize)}
	if _, err := w.Write(payload); err != nil {
		panic(err)
	}
	if err := w.Close(); err != nil {
		panic(err)
	}
	return buf.Bytes(), payload
}

// model: bytes.Reader + limit
type model struct {
	data  []byte
	pos   int64
	limit int64
}

func (m *model) do(op Op) CallResult {
	size := int64(len(m.data))
	switch op.Kind {
	case "read":
		if m.pos >= m.limit {
			return CallResult{Err: "EOF"}
		}
		n := int64(op.N)
		if n > m.limit-m.pos {
			n = m.limit - m.pos
		}
		d := m.data[m.pos : m.pos+n]
		m.pos += n
		return CallResult{N: int(n), Data: string(d)}
	case "seek":
		p := op.Off
		switch op.Whence {
		case io.SeekCurrent:
			p += m.pos
		case io.SeekEnd:
			p += size
		}
		if p < 0 {
			return CallResult{Err: "error"}
		}
		m.pos, m.limit = p, size
		return CallResult{Pos: p}
	case "seekrange":
		if op.Off > op.Hi || op.Off < 0 {
			return CallResult{Err: "error"}
		}
		m.pos = op.Off
		m.limit = op.Hi
		if m.limit > size {
			m.limit = size
		}
		return CallResult{}
	}
	return CallResult{}
}

func RunHistory(sc Scenario, file, payload []byte) (results []CallResult) {
	r := &rac.Reader{ReadSeeker: bytes.NewReader(file), CompressedSize: int64(len(file)),
		CodecReaders: []rac.CodecReader{&IDReader{}}, Concurrency: sc.Conc}
	for _, op := range sc.History {
		var cr CallResult
		switch op.Kind {
		case "read":
			buf := make([]byte, op.N)
			n, err := r.Read(buf)
			if n < 0 || n > len(buf) {
				cr = CallResult{N: n, Err: "error:bad count"}
			} else {
				cr = CallResult{N: n, Data: string(buf[:n]), Err: ErrClass(err)}
			}
		case "seek":
			p, err := r.Seek(op.Off, op.Whence)
			cr = CallResult{Pos: p, Err: ErrClass(err)}
		case "seekrange":
			cr = CallResult{Err: ErrClass(r.SeekRange(op.Off, op.Hi))}
		case "close":
			cr = CallResult{Err: ErrClass(r.Close())}
		case "closenw":
			cr = CallResult{Err: ErrClass(r.CloseWithoutWaiting())}
		}
		results = append(results, cr)
	}
	return results
}

// compare returns "" or a description of the first disagreement with the model.
func Compare(sc Scenario, payload []byte, got []CallResult) string {
	m := &model{data: payload, limit: int64(len(payload))}
	for i, op := range sc.History {
		if i >= len(got) {
			return fmt.Sprintf("call %d (%s) never returned", i, op.Kind)
		}
		g := got[i]
		if op.Kind == "close" || op.Kind == "closenw" {
			if g.Err != "" {
				return fmt.Sprintf("call %d: Close returned %q", i, g.Err)
			}
			continue
		}
		w := m.do(op)
		gerr := g.Err
		if strings.HasPrefix(gerr, "error") {
			if w.Err == "error" {
				return "" // both report an error: history ends
			}
			return fmt.Sprintf("call %d %+v: implementation error %q, model %+v", i, op, gerr, w)
		}
		if w.Err == "error" {
			return fmt.Sprintf("call %d %+v: model reports an error, implementation returned %+v", i, op, g)
		}
		switch op.Kind {
		case "read":
			if g.N != w.N || g.Data != w.Data {
				return fmt.Sprintf("call %d Read(%d): got n=%d %q, want n=%d %q", i, op.N, g.N, g.Data, w.N, w.Data)
			}
			atEnd := m.pos >= m.limit
			switch {
			case w.Err == "EOF" && gerr != "EOF":
				return fmt.Sprintf("call %d Read(%d) at end: want (0, EOF), got (%d, %q)", i, op.N, g.N, gerr)
			case w.Err == "" && gerr == "EOF" && !(atEnd && w.N > 0):
				return fmt.Sprintf("call %d Read(%d): premature EOF", i, op.N)
			}
		case "seek":
			if g.Pos != w.Pos {
				return fmt.Sprintf("call %d Seek: got pos %d want %d", i, g.Pos, w.Pos)
			}
			if gerr != "" {
				return fmt.Sprintf("call %d Seek(%d,%d): unexpected %q", i, op.Off, op.Whence, gerr)
			}
		case "seekrange":
			if gerr != "" {
				return fmt.Sprintf("call %d SeekRange(%d,%d): unexpected %q", i, op.Off, op.Hi, gerr)
			}
		}
	}
	return ""
}
