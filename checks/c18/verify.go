// Encode cases, their execution on the real Encoder and the oracle that ties the
// bytes written to the independent reader.
package main

import (
	"bytes"
	"fmt"
	"image"
	"image/jpeg"
	"io"

	lj "github.com/google/wuffs/lib/lowleveljpeg"
)

// Documented facts about colour types (package docs: ArrayN for N = 1, 3, 6;
// MCU is 8x8 for Gray and 4:4:4, 16x16 for 4:2:0; Array6 is Y Y Y Y Cb Cr).
type ctInfo struct {
	name     string
	ct       lj.ColorType
	n        int // blocks per unit
	mw, mh   int // unit size in pixels
	sampling [][2]int
}

var ctInfos = []ctInfo{
	{"gray", lj.ColorTypeGray, 1, 8, 8, [][2]int{{1, 1}}},
	{"ycbcr444", lj.ColorTypeYCbCr444, 3, 8, 8, [][2]int{{1, 1}, {1, 1}, {1, 1}}},
	{"ycbcr420", lj.ColorTypeYCbCr420, 6, 16, 16, [][2]int{{2, 2}, {1, 1}, {1, 1}}},
}

func ctByName(s string) *ctInfo {
	for i := range ctInfos {
		if ctInfos[i].name == s {
			return &ctInfos[i]
		}
	}
	return nil
}

// isChromaSlot: slot j of a unit uses the second quantisation table.
func (c *ctInfo) isChromaSlot(j int) bool { return c.n > 1 && j >= c.n-2 }

type encCase struct {
	family     string
	ci         *ctInfo
	w, h       int
	qname      string
	nilOptions bool // Reset(..., nil)
	nilFactors bool // Reset(..., &EncoderOptions{})
	q          *lj.Array2QuantizationFactors // the factors the output must use (and the input unless nil*)
	blocks     []lj.BlockI16                 // block i of the stream is blocks[i % len(blocks)]
	stdlib     bool                          // also hand the file to image/jpeg
}

func (c *encCase) units() int64 {
	return int64(ceilDiv(c.w, c.ci.mw)) * int64(ceilDiv(c.h, c.ci.mh))
}

type finding struct {
	clause string // root-cause class; becomes the signature
	detail string
}

type stats struct {
	images, imagesNontrivial int64
	blocks                   int64
	acSym                    [2][256]int64
	dcCat                    [2][12]int64
	phase                    [8]int64
	padBits                  [8]int64
	tiesAway, tiesToward     int64
	tieEven                  int64
	stuffed                  int64
	ffBeforeEOI              int64
	zrl, zrlEOB, eob, full   int64
	maxAddBytes              [3]int64
	maxBlockBytes            int64
	stdlibDecoded            int64
	hist                     map[string]int64
	famEval                  map[string]int64
	rejected                 int64
}

func newStats() *stats { return &stats{hist: map[string]int64{}, famEval: map[string]int64{}} }

// verifier is an io.Writer that decodes what the Encoder writes with the
// independent reader and compares every block with the expected rounding.
type verifier struct {
	c        *encCase
	buf      []byte
	total    int64
	hdr      *jpegHeader
	hdrStore jpegHeader
	ent      entropy
	nslots   int
	slots    []int
	nblocks  int64
	done     int64
	dead     bool
	finished bool
	stream   bool // compact the buffer (huge images)
	fs       []finding
	st       *stats
	out      [64]int32
	bst      blockStats
	nonzero  bool
	headerOK bool
}

func (v *verifier) begin(c *encCase, st *stats) {
	v.c, v.st = c, st
	v.buf = v.buf[:0]
	v.total, v.hdr, v.done, v.dead, v.finished, v.nonzero, v.headerOK = 0, nil, 0, false, false, false, false
	v.ent = entropy{}
	v.fs = v.fs[:0]
	v.stream = c.units() > 4096
}

func (v *verifier) Write(p []byte) (int, error) {
	v.buf = append(v.buf, p...)
	v.total += int64(len(p))
	if v.stream && len(v.buf)-v.ent.pos > 1<<18 {
		v.drain(false)
	}
	return len(p), nil
}

func (v *verifier) fail(clause, format string, a ...any) {
	v.fs = append(v.fs, finding{clause, fmt.Sprintf(format, a...)})
}

// checkHeader compares the parsed header with what the caller asked for.
func (v *verifier) checkHeader() {
	h, c := v.hdr, v.c
	if h.w != c.w || h.h != c.h {
		v.fail("header:dimensions:"+c.ci.name, "SOF0 declares %dx%d, Reset was called with %dx%d", h.w, h.h, c.w, c.h)
		v.dead = true
	}
	if len(h.comps) != len(c.ci.sampling) {
		v.fail("header:component-count:"+c.ci.name, "SOF0 declares %d components", len(h.comps))
		v.dead = true
		return
	}
	for i, s := range c.ci.sampling {
		if h.comps[i].h != s[0] || h.comps[i].v != s[1] {
			v.fail("header:sampling-factors:"+c.ci.name, "component %d has H=%d V=%d, want %dx%d", i, h.comps[i].h, h.comps[i].v, s[0], s[1])
			v.dead = true
		}
		want := &c.q[0]
		if i > 0 {
			want = &c.q[1]
		}
		got := &h.qt[h.comps[i].tq]
		for k := 0; k < 64; k++ {
			if got[k] != uint16(want[k]) {
				v.fail(fmt.Sprintf("header:quant-table:%s", map[bool]string{false: "luma", true: "chroma"}[i > 0]),
					"component %d (table %d) element %d (natural order) is %d, the factors given are %d (quant=%s)", i, h.comps[i].tq, k, got[k], want[k], c.qname)
				v.dead = true
				break
			}
		}
	}
	if v.dead {
		return
	}
	slots, mcus := h.mcuLayoutInto(v.slots[:0])
	if len(slots) != c.ci.n || mcus != c.units() {
		v.fail("header:mcu-count:"+c.ci.name, "the header implies %d MCUs of %d blocks, the documentation %d units of %d", mcus, len(slots), c.units(), c.ci.n)
		v.dead = true
		return
	}
	v.nslots = len(slots)
	v.slots = slots
	v.nblocks = mcus * int64(len(slots))
	v.headerOK = true
}

func (v *verifier) drain(final bool) {
	if v.dead || v.finished {
		return
	}
	if v.hdr == nil {
		h, err := parseHeaderInto(&v.hdrStore, v.buf)
		if err != nil {
			if !final && (err.Class == "header-truncated") {
				return
			}
			v.fail("header:"+err.Class, "%s", err.Detail)
			v.dead = true
			return
		}
		v.hdr = h
		v.ent.pos = h.scanOff
		v.checkHeader()
		if v.dead {
			return
		}
	}
	v.ent.d = v.buf
	c := v.c
	for v.done < v.nblocks {
		if !final && len(v.buf)-v.ent.pos < 4096 {
			break
		}
		slot := int(v.done % int64(v.nslots))
		ci := v.slots[slot]
		comp := &v.hdr.comps[ci]
		startPos := v.ent.pos
		if err := v.ent.decodeBlock(v.hdr, comp, &v.out, &v.bst); err != nil {
			v.fail("scan:"+err.Class, "block %d (unit %d, slot %d): %s", v.done, v.done/int64(v.nslots), slot, err.Detail)
			v.dead = true
			return
		}
		st := v.st
		st.blocks++
		st.phase[v.bst.phase]++
		tbl := 0
		if c.ci.isChromaSlot(slot) {
			tbl = 1
		}
		st.dcCat[comp.td][v.bst.dcCat]++
		for _, s := range v.bst.syms {
			st.acSym[comp.ta][s]++
		}
		st.zrl += int64(v.bst.zrl)
		if v.bst.zrlEOB {
			st.zrlEOB++
		}
		if v.bst.eob {
			st.eob++
		} else {
			st.full++
		}
		if n := int64(v.ent.pos - startPos); n > st.maxBlockBytes {
			st.maxBlockBytes = n
		}
		exp := &c.blocks[int(v.done%int64(len(c.blocks)))]
		q := &c.q[tbl]
		for k := 0; k < 64; k++ {
			got := v.out[k]
			a := int32(exp[k])
			qq := int32(q[k])
			d := a - got*qq
			if d < 0 {
				d = -d
			}
			if got != 0 {
				v.nonzero = true
			}
			if 2*d > qq {
				kind := "ac"
				if k == 0 {
					kind = "dc"
				}
				sign := "positive"
				if a < 0 {
					sign = "negative"
				}
				v.fail(fmt.Sprintf("scan:coefficient-not-nearest:%s:%s", kind, sign),
					"block %d (unit %d, slot %d) coefficient %d (natural order): input %d, factor %d, decoded %d (nearest is %s)", v.done, v.done/int64(v.nslots), slot, k, a, qq, got, nearestStr(a, qq))
				v.dead = true
				return
			}
			if 2*d == qq {
				if abs32(got*qq) > abs32(a) {
					st.tiesAway++
				} else {
					st.tiesToward++
				}
			}
		}
		v.done++
	}
	if v.stream && v.ent.pos > 1<<16 {
		n := copy(v.buf, v.buf[v.ent.pos:])
		v.buf = v.buf[:n]
		v.ent.base += int64(v.ent.pos)
		v.ent.pos = 0
		v.ent.d = v.buf
	}
	if final && v.done == v.nblocks {
		pad, err := v.ent.finish()
		if err != nil {
			v.fail("end:"+err.Class, "after %d units: %s", c.units(), err.Detail)
			v.dead = true
			return
		}
		v.st.padBits[pad]++
		v.st.stuffed += v.ent.stuffed
		if n := len(v.buf); n >= 4 && v.buf[n-4] == 0xFF && v.buf[n-3] == 0x00 {
			v.st.ffBeforeEOI++
		}
		v.finished = true
	}
}

func abs32(x int32) int32 {
	if x < 0 {
		return -x
	}
	return x
}

func nearestStr(a, q int32) string {
	lo := floorDiv(2*a+q, 2*q)   // floor(a/q + 1/2)
	hi := -floorDiv(-2*a+q, 2*q) // ceil(a/q - 1/2)
	if lo == hi {
		return fmt.Sprint(lo)
	}
	return fmt.Sprintf("%d or %d (tie)", hi, lo)
}

func floorDiv(a, b int32) int32 {
	q := a / b
	if (a%b != 0) && ((a < 0) != (b < 0)) {
		q--
	}
	return q
}

// ---- running the real code ----

type worker struct {
	seq  int64
	enc  lj.Encoder
	v    verifier
	st   *stats
	a1   lj.Array1BlockI16
	a3   lj.Array3BlockI16
	a6   lj.Array6BlockI16
	opts lj.EncoderOptions
	qbuf lj.Array2QuantizationFactors
	fs   []finding
}

func newWorker() *worker { return &worker{st: newStats()} }

func safeReset(e *lj.Encoder, w io.Writer, ct lj.ColorType, width, height int, o *lj.EncoderOptions) (err error, pan any) {
	defer func() {
		if r := recover(); r != nil {
			pan = r
		}
	}()
	return e.Reset(w, ct, width, height, o), nil
}

func safeAdd(e *lj.Encoder, w io.Writer, n int, a1 *lj.Array1BlockI16, a3 *lj.Array3BlockI16, a6 *lj.Array6BlockI16) (err error, pan any) {
	defer func() {
		if r := recover(); r != nil {
			pan = r
		}
	}()
	switch n {
	case 1:
		return e.Add1(w, a1), nil
	case 3:
		return e.Add3(w, a3), nil
	default:
		return e.Add6(w, a6), nil
	}
}

func (wk *worker) options(c *encCase) *lj.EncoderOptions {
	switch {
	case c.nilOptions:
		return nil
	case c.nilFactors:
		wk.opts = lj.EncoderOptions{}
	default:
		wk.qbuf = *c.q
		wk.opts = lj.EncoderOptions{QuantizationFactors: &wk.qbuf}
	}
	return &wk.opts
}

// fillUnit copies the blocks of unit u into the ArrayN of the colour type.
func (wk *worker) fillUnit(c *encCase, u int64) {
	n := int64(c.ci.n)
	l := int64(len(c.blocks))
	for j := int64(0); j < n; j++ {
		b := &c.blocks[(u*n+j)%l]
		switch n {
		case 1:
			wk.a1[j] = *b
		case 3:
			wk.a3[j] = *b
		default:
			wk.a6[j] = *b
		}
	}
}

// runEncode is the full oracle for one image: Reset, exactly units() AddN
// calls, one call too many, then the independent reader and image/jpeg.
func (wk *worker) runEncode(c *encCase) []finding {
	wk.fs = wk.fs[:0]
	add := func(clause, format string, a ...any) { wk.fs = append(wk.fs, finding{clause, fmt.Sprintf(format, a...)}) }
	v := &wk.v
	v.begin(c, wk.st)
	wk.enc = lj.Encoder{}
	wk.st.famEval[c.family]++
	err, pan := safeReset(&wk.enc, v, c.ci.ct, c.w, c.h, wk.options(c))
	if pan != nil {
		add("panic:Reset", "Reset panics: %v", pan)
		return wk.fs
	}
	if err != nil {
		add("reset:error-on-valid-arguments:"+c.ci.name, "Reset(%s, %d, %d, quant=%s) = %v", c.ci.name, c.w, c.h, c.qname, err)
		return wk.fs
	}
	units := c.units()
	ctIdx := c.ci.n / 3 // 1, 3, 6 -> 0, 1, 2
	for u := int64(0); u < units; u++ {
		wk.fillUnit(c, u)
		before := v.total
		err, pan := safeAdd(&wk.enc, v, c.ci.n, &wk.a1, &wk.a3, &wk.a6)
		if pan != nil {
			add("panic:AddN", "Add%d panics on unit %d of %d: %v", c.ci.n, u, units, pan)
			return wk.fs
		}
		if err != nil {
			add("add:error-before-required-units:"+c.ci.name, "Add%d number %d of %d required returns %v", c.ci.n, u+1, units, err)
			return wk.fs
		}
		if n := v.total - before; n > wk.st.maxAddBytes[ctIdx] {
			wk.st.maxAddBytes[ctIdx] = n
		}
		if v.dead {
			break
		}
	}
	if !v.dead {
		wk.fillUnit(c, units)
		before := v.total
		err, pan := safeAdd(&wk.enc, v, c.ci.n, &wk.a1, &wk.a3, &wk.a6)
		if pan != nil {
			add("panic:AddN", "Add%d panics on the call after the last required unit: %v", c.ci.n, pan)
			return wk.fs
		}
		if err == nil {
			add("add:accepted-beyond-required-units:"+c.ci.name, "Add%d number %d succeeds although %dx%d needs %d units", c.ci.n, units+1, c.w, c.h, units)
		} else {
			wk.st.rejected++
		}
		if err != nil && v.total != before {
			add("add:bytes-written-by-failing-call", "the rejected extra Add%d wrote %d bytes", c.ci.n, v.total-before)
		}
		if err == nil {
			// the bytes of the extra unit would only confuse the reader
			wk.fs = append(wk.fs, v.fs...)
			return wk.fs
		}
	}
	v.drain(true)
	wk.fs = append(wk.fs, v.fs...)
	if v.dead || !v.finished {
		if !v.dead {
			add("harness:not-finished", "reader decoded %d of %d blocks", v.done, v.nblocks)
		}
		return wk.fs
	}
	wk.st.images++
	if v.nonzero {
		wk.st.imagesNontrivial++
	}
	if c.stdlib && !v.stream {
		wk.stdlib(c, v.buf, add)
	}
	return wk.fs
}

func (wk *worker) stdlib(c *encCase, data []byte, add func(string, string, ...any)) {
	var m image.Image
	var err error
	func() {
		defer func() {
			if r := recover(); r != nil {
				err = fmt.Errorf("image/jpeg panics: %v", r)
			}
		}()
		m, err = jpeg.Decode(bytes.NewReader(data))
	}()
	if err != nil {
		add("stdlib:image/jpeg-rejects:"+c.ci.name, "image/jpeg.Decode: %v", err)
		return
	}
	wk.st.stdlibDecoded++
	if b := m.Bounds(); b.Min.X != 0 || b.Min.Y != 0 || b.Dx() != c.w || b.Dy() != c.h {
		add("stdlib:bounds:"+c.ci.name, "image/jpeg decodes bounds %v, want %dx%d", b, c.w, c.h)
	}
	switch mm := m.(type) {
	case *image.Gray:
		if c.ci.n != 1 {
			add("stdlib:colour-model:"+c.ci.name, "image/jpeg sees a gray image")
		}
	case *image.YCbCr:
		want := image.YCbCrSubsampleRatio444
		if c.ci.n == 6 {
			want = image.YCbCrSubsampleRatio420
		}
		if c.ci.n == 1 || mm.SubsampleRatio != want {
			add("stdlib:colour-model:"+c.ci.name, "image/jpeg sees YCbCr %v", mm.SubsampleRatio)
		}
	default:
		add("stdlib:colour-model:"+c.ci.name, "image/jpeg returns %T", m)
	}
}
