// C18: the low-level JPEG encoder emits valid baseline JPEGs holding exactly the
// input data.
//
// Bounded-exhaustive enumeration (DESIGN section 4, C18) of image sizes x colour
// types x quantisation tables x coefficient-block families x AddN call
// histories on the real lib/lowleveljpeg Encoder. Everything the Encoder writes
// is read back by an independent baseline-JPEG reader written from T.81
// (reader.go) and compared, block for block, with round-to-nearest(coefficient /
// factor) computed independently; headers, the number of accepted units, the EOI
// position, image/jpeg acceptance, zero allocations and the DCT clauses are
// checked as well.
package main

import (
	"bytes"
	"encoding/json"
	"fmt"
	"image/color"
	"image/jpeg"
	"os"
	"runtime/pprof"
	"hash/fnv"
	"sort"
	"sync"
	"sync/atomic"
	"testing"
	"time"

	"verif/internal/ev"

	lj "github.com/google/wuffs/lib/lowleveljpeg"
)

// ---- witnesses ----

type encWitness struct {
	Kind       string     `json:"kind"` // "encode" | "alloc" | "reset-only"
	Family     string     `json:"family"`
	ColorType  string     `json:"color_type"`
	W          int        `json:"width"`
	H          int        `json:"height"`
	Quant      string     `json:"quant"`
	NilOptions bool       `json:"nil_options,omitempty"`
	NilFactors bool       `json:"nil_factors,omitempty"`
	Factors    [2][64]int `json:"factors"`
	Blocks     [][]int    `json:"blocks_cyclic"` // block i of the stream is Blocks[i % len]
	Note       string     `json:"note,omitempty"`
}

type histWitness struct {
	Kind string   `json:"kind"` // "history"
	Ops  []string `json:"ops"`
}

type validityWitness struct {
	Kind      string `json:"kind"` // "block-validity"
	ColorType string `json:"color_type"`
	Slot      int    `json:"slot"`
	Position  int    `json:"position"`
	Value     int    `json:"value"`
	Valid     bool   `json:"documented_valid"`
}

func witnessOf(kind string, c *encCase) encWitness {
	w := encWitness{Kind: kind, Family: c.family, ColorType: c.ci.name, W: c.w, H: c.h, Quant: c.qname, NilOptions: c.nilOptions, NilFactors: c.nilFactors}
	for t := range c.q {
		for i, v := range c.q[t] {
			w.Factors[t][i] = int(v)
		}
	}
	// only the part of the cycle the image uses
	n := len(c.blocks)
	if used := (c.units() + 1) * int64(c.ci.n); used < int64(n) {
		n = int(used)
	}
	for _, b := range c.blocks[:n] {
		row := make([]int, 64)
		for i, v := range b {
			row[i] = int(v)
		}
		w.Blocks = append(w.Blocks, row)
	}
	return w
}

func caseOf(w *encWitness) (*encCase, error) {
	ci := ctByName(w.ColorType)
	if ci == nil {
		return nil, fmt.Errorf("unknown colour type %q", w.ColorType)
	}
	c := &encCase{family: w.Family, ci: ci, w: w.W, h: w.H, qname: w.Quant, nilOptions: w.NilOptions, nilFactors: w.NilFactors, stdlib: true}
	q := &lj.Array2QuantizationFactors{}
	for t := range q {
		for i := range q[t] {
			q[t][i] = uint8(w.Factors[t][i])
		}
	}
	c.q = q
	for _, row := range w.Blocks {
		var b lj.BlockI16
		for i := range b {
			b[i] = int16(row[i])
		}
		c.blocks = append(c.blocks, b)
	}
	if len(c.blocks) == 0 {
		c.blocks = []lj.BlockI16{{}}
	}
	return c, nil
}

// ---- shared context ----

type ctx struct {
	r       *ev.Run
	workers []*worker
	watch   *ev.Watch
}

// run evaluates one image. The watchdog slot is refreshed every 256
// evaluations only (the slots of all workers share cache lines); callers call
// x.idle(w) when the worker has no more work in the phase.
func (x *ctx) run(w int, c *encCase) {
	wk := x.workers[w]
	if wk.seq&255 == 0 {
		x.watch.EnterFast(w, wk.seq)
	}
	wk.seq++
	fs := wk.runEncode(c)
	if len(fs) > 0 {
		x.report("encode", c, fs)
	}
}

func (x *ctx) idle(w int) {
	x.watch.Leave(w)
	x.workers[w].seq = (x.workers[w].seq | 255) + 1
}

func (x *ctx) report(kind string, c *encCase, fs []finding) {
	// prefer the smallest image: fewest blocks, then fewest non-zero coefficients
	used := int((c.units() + 1) * int64(c.ci.n))
	nz := int64(0)
	h := fnv.New64a()
	fmt.Fprintf(h, "%s/%d/%d/%s/", c.ci.name, c.w, c.h, c.qname)
	for i := 0; i < min(used, len(c.blocks)); i++ {
		for _, v := range c.blocks[i] {
			if v != 0 {
				nz++
			}
			h.Write([]byte{byte(v), byte(v >> 8)})
		}
	}
	key := []int64{0, c.units() * int64(c.ci.n), nz, int64(h.Sum64() >> 1)}
	for _, f := range fs {
		f := f
		cands.offer(f.clause, key, func() (string, any) {
			return fmt.Sprintf("%s [%s %dx%d, quant=%s, family=%s]", f.detail, c.ci.name, c.w, c.h, c.qname, c.family), witnessOf(kind, c)
		})
	}
}

// candStore keeps, per signature, the violation with the smallest key seen in
// the running phase, so that the recorded witness does not depend on which
// worker got there first; flush hands them to ev in signature order.
type cand struct {
	key  []int64
	what string
	wit  any
}

type candStore struct {
	mu sync.RWMutex
	m  map[string]*cand
}

var cands = &candStore{m: map[string]*cand{}}

func keyLess(a, b []int64) bool {
	for i := 0; i < len(a) && i < len(b); i++ {
		if a[i] != b[i] {
			return a[i] < b[i]
		}
	}
	return len(a) < len(b)
}

func (s *candStore) offer(sig string, key []int64, mk func() (string, any)) {
	s.mu.RLock()
	old := s.m[sig]
	s.mu.RUnlock()
	if old != nil && !keyLess(key, old.key) {
		return
	}
	what, wit := mk()
	s.mu.Lock()
	if old := s.m[sig]; old == nil || keyLess(key, old.key) {
		s.m[sig] = &cand{append([]int64(nil), key...), what, wit}
	}
	s.mu.Unlock()
}

func (s *candStore) flush(r *ev.Run) {
	s.mu.Lock()
	defer s.mu.Unlock()
	var sigs []string
	for k := range s.m {
		sigs = append(sigs, k)
	}
	sort.Strings(sigs)
	for _, k := range sigs {
		r.Violation(k, s.m[k].what, s.m[k].wit)
	}
	s.m = map[string]*cand{}
}

// ---- phase: allocations (sequential: AllocsPerRun counts process-wide mallocs) ----

type countWriter struct{ n int64 }

func (c *countWriter) Write(p []byte) (int, error) { c.n += int64(len(p)); return len(p), nil }

func allocPhase(x *ctx, mixed []lj.BlockI16, quants []qcfg) (evals int64) {
	wk := x.workers[0]
	sink := &countWriter{}
	var failed int64
	measure := func(c *encCase, resetOnly bool) {
		units := c.units()
		f := func() {
			wk.enc = lj.Encoder{}
			err, pan := safeReset(&wk.enc, sink, c.ci.ct, c.w, c.h, wk.options(c))
			if err != nil || pan != nil {
				failed++
				return
			}
			if resetOnly {
				return
			}
			for u := int64(0); u < units; u++ {
				wk.fillUnit(c, u)
				err, pan := safeAdd(&wk.enc, sink, c.ci.n, &wk.a1, &wk.a3, &wk.a6)
				if err != nil || pan != nil {
					failed++
					return
				}
			}
		}
		n := testing.AllocsPerRun(1, f)
		if n != 0 {
			// rule out a stray runtime allocation: the minimum of three more runs
			for i := 0; i < 3 && n != 0; i++ {
				if m := testing.AllocsPerRun(1, f); m < n {
					n = m
				}
			}
		}
		evals++
		if n != 0 {
			kind := "Reset+AddN"
			if resetOnly {
				kind = "Reset"
			}
			x.r.Violation("alloc:nonzero:"+kind+":"+c.ci.name,
				fmt.Sprintf("testing.AllocsPerRun reports %v allocations per %s sequence [%s %dx%d quant=%s]", n, kind, c.ci.name, c.w, c.h, c.qname), witnessOf("alloc", c))
		}
	}
	for ci := range ctInfos {
		info := &ctInfos[ci]
		for qi := range quants {
			qc := &quants[qi]
			per := 33 * info.n
			for off := 0; off < len(mixed); off += per {
				if x.r.Expired() {
					return
				}
				end := min(len(mixed), off+per)
				c := &encCase{family: "alloc", ci: info, w: info.mw * 33, h: info.mh, qname: qc.name, nilOptions: qc.nilOptions, nilFactors: qc.nilFactors, q: &qc.q, blocks: mixed[off:end]}
				measure(c, false)
			}
		}
		for _, w := range sizeSet {
			for _, h := range sizeSet {
				c := &encCase{family: "alloc-reset", ci: info, w: w, h: h, qname: quants[0].name, q: &quants[0].q, blocks: mixed[:1]}
				measure(c, true)
			}
		}
	}
	if failed > 0 {
		x.r.Add("alloc_phase_calls_returning_errors(see encode phases)", failed)
	}
	return evals
}

var sizeSet = []int{1, 2, 7, 8, 9, 15, 16, 17, 31, 32, 33, 255, 256, 65528, 65535}

// ---- phase: nil receiver and block validity boundary ----

func validityPhase(x *ctx) (evals int64) {
	var nilEnc *lj.Encoder
	sink := &verifierSink{}
	for name, f := range map[string]func() error{
		"Reset": func() error { return nilEnc.Reset(sink, lj.ColorTypeGray, 8, 8, nil) },
		"Add1":  func() error { return nilEnc.Add1(sink, &lj.Array1BlockI16{}) },
		"Add3":  func() error { return nilEnc.Add3(sink, &lj.Array3BlockI16{}) },
		"Add6":  func() error { return nilEnc.Add6(sink, &lj.Array6BlockI16{}) },
	} {
		func() {
			defer func() {
				if r := recover(); r != nil {
					x.r.Violation("panic:nil-receiver:"+name, fmt.Sprintf("(*Encoder)(nil).%s panics: %v", name, r), map[string]string{"kind": "nil-receiver", "method": name})
				}
			}()
			if err := f(); err == nil || len(sink.buf) != 0 {
				x.r.Violation("nil-receiver:accepted:"+name, fmt.Sprintf("(*Encoder)(nil).%s returns %v, wrote %d bytes", name, err, len(sink.buf)), map[string]string{"kind": "nil-receiver", "method": name})
			}
		}()
		evals++
	}
	wk := x.workers[0]
	q := uniformQ(1)
	for ci := range ctInfos {
		info := &ctInfos[ci]
		for slot := 0; slot < info.n; slot++ {
			for pos := 0; pos < 64; pos++ {
				type tv struct {
					v     int
					valid bool
				}
				tvs := []tv{{1023, true}, {-1023, true}, {1024, false}, {-1025, false}, {32767, false}, {-32768, false}, {-1024, pos == 0}}
				for _, t := range tvs {
					fs := validityCase(wk, info, &q, slot, pos, t.v, t.valid)
					evals++
					for _, f := range fs {
						x.r.Violation(f.clause, f.detail, validityWitness{"block-validity", info.name, slot, pos, t.v, t.valid})
					}
				}
			}
		}
	}
	return evals
}

func validityCase(wk *worker, info *ctInfo, q *lj.Array2QuantizationFactors, slot, pos, val int, valid bool) (fs []finding) {
	sink := &verifierSink{}
	wk.enc = lj.Encoder{}
	qq := *q
	if err, pan := safeReset(&wk.enc, sink, info.ct, info.mw, info.mh, &lj.EncoderOptions{QuantizationFactors: &qq}); err != nil || pan != nil {
		return []finding{{"reset:error-on-valid-arguments:" + info.name, fmt.Sprintf("Reset: %v %v", err, pan)}}
	}
	wk.a1, wk.a3, wk.a6 = lj.Array1BlockI16{}, lj.Array3BlockI16{}, lj.Array6BlockI16{}
	switch info.n {
	case 1:
		wk.a1[slot][pos] = int16(val)
	case 3:
		wk.a3[slot][pos] = int16(val)
	default:
		wk.a6[slot][pos] = int16(val)
	}
	before := len(sink.buf)
	err, pan := safeAdd(&wk.enc, sink, info.n, &wk.a1, &wk.a3, &wk.a6)
	kind := "ac"
	if pos == 0 {
		kind = "dc"
	}
	switch {
	case pan != nil:
		fs = append(fs, finding{"panic:AddN", fmt.Sprintf("Add%d panics with value %d at position %d of slot %d: %v", info.n, val, pos, slot, pan)})
	case valid && err != nil:
		fs = append(fs, finding{"validity:documented-valid-block-rejected:" + kind, fmt.Sprintf("Add%d rejects value %d at position %d of slot %d: %v", info.n, val, pos, slot, err)})
	case !valid && err == nil:
		fs = append(fs, finding{"validity:out-of-range-block-accepted:" + kind, fmt.Sprintf("Add%d accepts value %d at position %d of slot %d", info.n, val, pos, slot)})
	case !valid && len(sink.buf) != before:
		fs = append(fs, finding{"add:bytes-written-by-failing-call", fmt.Sprintf("Add%d wrote %d bytes while rejecting an invalid block", info.n, len(sink.buf)-before)})
	}
	return fs
}

// ---- phase: headers and unit counting over S x S ----

func headerCycle() []lj.BlockI16 {
	// seven cheap, different blocks (7 is coprime to 1, 3 and 6 so every slot sees every block)
	c := make([]lj.BlockI16, 7)
	c[1][0] = 5
	c[2][0], c[2][1] = -1024, 1
	c[3][0], c[3][zz[17]] = 1023, -3 // run of 16
	c[4][63] = 1
	c[5][0], c[5][8], c[5][9], c[5][2] = -300, 1023, -1023, 77
	return c
}

func headerPhase(x *ctx, quants []qcfg, unitCap int64) (full, resetOnly int64) {
	type job struct {
		info *ctInfo
		w, h int
		q    *qcfg
	}
	var jobs []job
	for ci := range ctInfos {
		for _, w := range sizeSet {
			for _, h := range sizeSet {
				for qi := range quants {
					jobs = append(jobs, job{&ctInfos[ci], w, h, &quants[qi]})
				}
			}
		}
	}
	// biggest first, for balance
	sort.SliceStable(jobs, func(i, j int) bool {
		return int64(jobs[i].w)*int64(jobs[i].h)*int64(jobs[i].info.n) > int64(jobs[j].w)*int64(jobs[j].h)*int64(jobs[j].info.n)
	})
	cyc := headerCycle()
	var nFull, nReset atomic.Int64
	ev.ParFor(len(jobs), func(w, i int) {
		if x.r.Expired() {
			return
		}
		j := jobs[i]
		c := &encCase{family: "sizes", ci: j.info, w: j.w, h: j.h, qname: j.q.name, nilOptions: j.q.nilOptions, nilFactors: j.q.nilFactors, q: &j.q.q, blocks: cyc, stdlib: true}
		wk := x.workers[w]
		fs := wk.resetOnly(c)
		if len(fs) > 0 {
			x.report("reset-only", c, fs)
			return
		}
		if c.units() > unitCap {
			nReset.Add(1)
			wk.st.hist["header_sweep:reset+header only (units above cap)"]++
			return
		}
		// the watchdog is not used here: one evaluation may legitimately take minutes
		if fs := wk.runEncode(c); len(fs) > 0 {
			x.report("encode", c, fs)
		}
		nFull.Add(1)
		wk.st.hist[fmt.Sprintf("header_sweep:all units added and decoded:%s", j.info.name)]++
	})
	return nFull.Load(), nReset.Load()
}

// resetOnly checks the bytes Reset writes: header fields and image/jpeg.DecodeConfig.
func (wk *worker) resetOnly(c *encCase) []finding {
	wk.fs = wk.fs[:0]
	add := func(clause, format string, a ...any) { wk.fs = append(wk.fs, finding{clause, fmt.Sprintf(format, a...)}) }
	v := &wk.v
	v.begin(c, wk.st)
	v.stream = false
	wk.enc = lj.Encoder{}
	err, pan := safeReset(&wk.enc, v, c.ci.ct, c.w, c.h, wk.options(c))
	if pan != nil {
		add("panic:Reset", "Reset panics: %v", pan)
		return wk.fs
	}
	if err != nil {
		add("reset:error-on-valid-arguments:"+c.ci.name, "Reset(%s, %d, %d, quant=%s) = %v", c.ci.name, c.w, c.h, c.qname, err)
		return wk.fs
	}
	h, perr := parseHeaderInto(&v.hdrStore, v.buf)
	if perr != nil {
		add("header:"+perr.Class, "%s", perr.Detail)
		return wk.fs
	}
	if h.scanOff != len(v.buf) {
		add("header:bytes-after-sos-header", "Reset wrote %d bytes after the SOS header", len(v.buf)-h.scanOff)
	}
	v.hdr = h
	v.checkHeader()
	wk.fs = append(wk.fs, v.fs...)
	cfg, cerr := jpeg.DecodeConfig(bytes.NewReader(v.buf))
	if cerr != nil {
		add("stdlib:image/jpeg-rejects-header:"+c.ci.name, "image/jpeg.DecodeConfig: %v", cerr)
	} else if cfg.Width != c.w || cfg.Height != c.h || (cfg.ColorModel == color.GrayModel) != (c.ci.n == 1) {
		add("stdlib:bounds:"+c.ci.name, "image/jpeg.DecodeConfig sees %dx%d %v", cfg.Width, cfg.Height, cfg.ColorModel)
	}
	wk.st.hist["reset_headers_checked:"+c.ci.name]++
	return wk.fs
}

// ---- phase: full encodes for every size <= 33 with a window sliding over all design blocks ----

func sizePhase(x *ctx, mixed []lj.BlockI16, quants []qcfg, small []int, windows int) (images int64) {
	type job struct {
		info *ctInfo
		w, h int
		q    *qcfg
	}
	var jobs []job
	for ci := range ctInfos {
		for _, w := range small {
			for _, h := range small {
				for qi := range quants {
					jobs = append(jobs, job{&ctInfos[ci], w, h, &quants[qi]})
				}
			}
		}
	}
	var n atomic.Int64
	ev.ParFor(len(jobs), func(w, i int) {
		j := jobs[i]
		c := &encCase{family: "size-sweep", ci: j.info, w: j.w, h: j.h, qname: j.q.name, nilOptions: j.q.nilOptions, nilFactors: j.q.nilFactors, q: &j.q.q, stdlib: true}
		// `windows` windows of the design-block sequence per configuration; the
		// start rotates with the job so that all jobs together tile the sequence
		per := int(c.units()+1) * j.info.n
		cnt := int64(0)
		step := ceilDiv(len(mixed), windows)
		for k := 0; k < windows; k++ {
			if x.r.Expired() {
				return
			}
			off := (k*step + i*per) % len(mixed)
			end := min(len(mixed), off+per)
			c.blocks = mixed[off:end]
			x.run(w, c)
			cnt++
		}
		n.Add(cnt)
		x.idle(w)
	})
	return n.Load()
}

// ---- phase: block families x bit phase x colour type x factors ----

type sweepOpts struct {
	quants      []qcfg
	shifters    int // number of shifter variants per item (16 = all), else rotating
	tails       int // 2 = with and without a following unit, 1 = rotating
	stdlibEvery int
}

func familyPhase(x *ctx, f fam, o sweepOpts) (images int64) {
	sh := shifterBlocks()
	const chunk = 256
	nChunks := ceilDiv(f.n, chunk)
	var total atomic.Int64
	ev.ParFor(nChunks, func(w, ch int) {
		var seq [3]lj.BlockI16
		var scratch [5 * 6]lj.BlockI16
		c := &encCase{family: f.name}
		var n int64
		for i := ch * chunk; i < min(f.n, (ch+1)*chunk); i++ {
			if x.r.Expired() {
				break
			}
			k := f.build(i, &seq)
			for ci := range ctInfos {
				info := &ctInfos[ci]
				for qi := range o.quants {
					qc := &o.quants[qi]
					for sv := 0; sv < o.shifters; sv++ {
						s := sv
						if o.shifters < 16 {
							s = (i*o.shifters + sv + qi) % 16
						}
						for tv := 0; tv < o.tails; tv++ {
							tail := tv
							if o.tails < 2 {
								tail = (i/16 + ci) % 2
							}
							bl := scratch[:0]
							for j := 0; j < info.n; j++ {
								bl = append(bl, sh[s])
							}
							for b := 0; b < k; b++ {
								for j := 0; j < info.n; j++ {
									bl = append(bl, seq[b])
								}
							}
							units := 1 + k
							if tail == 1 {
								for j := 0; j < info.n; j++ {
									bl = append(bl, sh[(s+5)%16])
								}
								units++
							}
							*c = encCase{family: f.name, ci: info, w: info.mw * units, h: info.mh, qname: qc.name, nilOptions: qc.nilOptions, nilFactors: qc.nilFactors, q: &qc.q, blocks: bl,
								stdlib: o.stdlibEvery > 0 && sv == 0 && i%o.stdlibEvery == 0}
							x.run(w, c)
							n++
						}
					}
				}
			}
		}
		total.Add(n)
		x.idle(w)
	})
	return total.Load()
}

// ---- phase: the whole domain of the rounded division ----

func divPhase(x *ctx) (images int64) {
	blocks := divBlocks()
	var n atomic.Int64
	ev.ParFor(255, func(w, qi int) {
		if x.r.Expired() {
			return
		}
		q := uniformQ(uint8(qi + 1))
		for ci := range ctInfos {
			info := &ctInfos[ci]
			units := ceilDiv(len(blocks), info.n)
			c := &encCase{family: "division-domain", ci: info, w: info.mw * units, h: info.mh, qname: fmt.Sprintf("uniform %d", qi+1), q: &q, blocks: blocks, stdlib: true}
			x.run(w, c)
			n.Add(1)
		}
		x.idle(w)
	})
	return n.Load()
}

// ---- phase: call histories ----

func historyPhase(x *ctx, depth int) (histories, nontrivial int64, states, trans int, outcomes map[string]int64) {
	ops := historyOps()
	A := len(ops)
	runners := make([]*histRunner, len(x.workers))
	for i := range runners {
		runners[i] = &histRunner{wk: x.workers[i], ops: ops, states: map[string]int64{}, trans: map[string]int64{}, outc: map[string]int64{}}
	}
	var nHist, nNon atomic.Int64
	for d := 0; d <= depth; d++ {
		total := 1
		for i := 0; i < d; i++ {
			total *= A
		}
		ev.ParFor(total, func(w, idx int) {
			if x.r.Expired() {
				return
			}
			hr := runners[w]
			var seqArr [8]int
			seq := seqArr[:d]
			t := idx
			for i := d - 1; i >= 0; i-- {
				seq[i] = t % A
				t /= A
			}
			okBefore := hr.okAdds
			fs, _ := hr.run(seq)
			hr.count++
			if hr.okAdds > okBefore {
				hr.nontrivial++
			}
			if len(fs) > 0 {
				wit := histWitness{Kind: "history"}
				for _, oi := range seq {
					wit.Ops = append(wit.Ops, ops[oi].name)
				}
				key := []int64{1, int64(d), int64(idx)}
				for _, f := range fs {
					f := f
					cands.offer(f.clause, key, func() (string, any) { return fmt.Sprintf("%s [history %v]", f.detail, wit.Ops), wit })
				}
			}
		})
	}
	st, tr := map[string]int64{}, map[string]int64{}
	outcomes = map[string]int64{}
	for _, hr := range runners {
		nHist.Add(hr.count)
		nNon.Add(hr.nontrivial)
		for k, v := range hr.states {
			st[k] += v
		}
		for k, v := range hr.trans {
			tr[k] += v
		}
		for k, v := range hr.outc {
			outcomes[k] += v
		}
	}
	x.r.MergeHist("history_model_states_visited", st)
	x.r.MergeHist("history_model_transitions", tr)
	x.r.MergeHist("history_rejection_reason=>error_returned", outcomes)
	return nHist.Load(), nNon.Load(), len(st), len(tr), outcomes
}

// ---- replay ----

func replay(path string) {
	b, err := os.ReadFile(path)
	if err != nil {
		ev.Fatal("%v", err)
	}
	var doc struct {
		Signature string          `json:"signature"`
		What      string          `json:"what"`
		Witness   json.RawMessage `json:"witness"`
	}
	if err := json.Unmarshal(b, &doc); err != nil {
		ev.Fatal("%v", err)
	}
	var kind struct {
		Kind string `json:"kind"`
	}
	json.Unmarshal(doc.Witness, &kind)
	fmt.Printf("replaying %s witness, recorded signature %q\n", kind.Kind, doc.Signature)
	wk := newWorker()
	show := func(fs []finding) {
		if len(fs) == 0 {
			fmt.Println("result: no finding (the witness passes on this tree)")
		}
		for _, f := range fs {
			fmt.Printf("FINDING %s\n   %s\n", f.clause, f.detail)
		}
	}
	switch kind.Kind {
	case "encode", "reset-only", "alloc":
		var w encWitness
		json.Unmarshal(doc.Witness, &w)
		c, err := caseOf(&w)
		if err != nil {
			ev.Fatal("%v", err)
		}
		fmt.Printf("Reset(%s, %d, %d, quant=%s) then %d x Add%d (+1 extra); %d distinct blocks in the cycle\n", c.ci.name, c.w, c.h, c.qname, c.units(), c.ci.n, len(c.blocks))
		for i := range c.blocks {
			if i < 12 {
				fmt.Printf("  block %d: %s\n", i, describeBlock(&c.blocks[i]))
			}
		}
		if kind.Kind == "reset-only" {
			show(wk.resetOnly(c))
			return
		}
		fs := append([]finding(nil), wk.runEncode(c)...)
		if !wk.v.stream {
			d := wk.v.buf
			fmt.Printf("output: %d bytes, head %X ... tail %X\n", len(d), d[:min(len(d), 24)], d[max(0, len(d)-48):])
		}
		if kind.Kind == "alloc" {
			sink := &countWriter{}
			n := testing.AllocsPerRun(1, func() {
				wk.enc = lj.Encoder{}
				safeReset(&wk.enc, sink, c.ci.ct, c.w, c.h, wk.options(c))
				for u := int64(0); u < c.units(); u++ {
					wk.fillUnit(c, u)
					safeAdd(&wk.enc, sink, c.ci.n, &wk.a1, &wk.a3, &wk.a6)
				}
			})
			fmt.Printf("testing.AllocsPerRun = %v\n", n)
			if n != 0 {
				fs = append(fs, finding{"alloc:nonzero", fmt.Sprint(n)})
			}
		}
		show(fs)
	case "history":
		var w histWitness
		json.Unmarshal(doc.Witness, &w)
		ops := historyOps()
		var seq []int
		for _, name := range w.Ops {
			found := false
			for i := range ops {
				if ops[i].name == name {
					seq = append(seq, i)
					found = true
				}
			}
			if !found {
				ev.Fatal("unknown operation %q", name)
			}
		}
		hr := &histRunner{wk: wk, ops: ops, keep: true, states: map[string]int64{}, trans: map[string]int64{}, outc: map[string]int64{}}
		fs, log := hr.run(seq)
		for _, l := range log {
			fmt.Println("  " + l)
		}
		show(fs)
	case "dct":
		var w dctCase
		json.Unmarshal(doc.Witness, &w)
		px := lj.BlockU8(w.Pixels)
		st := dctStats{}
		fs, coefs, back := checkDCT(&px, &st)
		fmt.Printf("pixels:\n%v\nForwardDCT:\n%v\nInverseDCT of that:\n%v\n", px, coefs, back)
		show(fs)
	case "block-validity":
		var w validityWitness
		json.Unmarshal(doc.Witness, &w)
		q := uniformQ(1)
		show(validityCase(wk, ctByName(w.ColorType), &q, w.Slot, w.Position, w.Value, w.Valid))
	default:
		fmt.Printf("witness kind %q is described by its text: %s\n", kind.Kind, doc.What)
	}
}

var stopProfile = func() {}

func main() {
	if len(os.Args) > 2 && os.Args[1] == "replay" {
		replay(os.Args[2])
		return
	}
	if p := os.Getenv("C18_CPUPROFILE"); p != "" {
		f, _ := os.Create(p)
		pprof.StartCPUProfile(f)
		defer pprof.StopCPUProfile()
		stopProfile = pprof.StopCPUProfile
	}
	r := ev.Start("C18", "exploration")
	r.SetBudget(12*time.Minute, 60*time.Minute)
	thorough := r.Thorough()
	nw := ev.Workers()
	x := &ctx{r: r, watch: ev.NewWatch(nw)}
	for i := 0; i < nw; i++ {
		x.workers = append(x.workers, newWorker())
	}
	t0 := time.Now()
	phase := func(name string) {
		cands.flush(r)
		r.Add("phase_ms_"+name, time.Since(t0).Milliseconds())
		t0 = time.Now()
	}
	var covered = map[string]any{}
	x.watch.Start(120*time.Second, 48<<30, func(worker int, id int64, why string) {
		r.Violation("hang:encode", "an Encoder call or its verification does not return: "+why, map[string]any{"kind": "hang", "worker": worker})
	}, func() {
		r.Finish(ev.Coverage{Evaluations: 1, DistinctNontrivial: 2, Rule: "aborted by the hang watchdog; see the violation"}, nil)
	})

	selfCheck(r)
	phase("selfcheck")

	quants := quantConfigs()
	design := []fam{
		sparseFam("sparse<=2@{0,1,12,16,62,63}", []int{0, 1, 12, 16, 62, 63}, 2, designValues),
		extremeFam(), runsFam(), symFam(), dcFam(),
	}
	// all design blocks in one sequence (window source for the size sweep and the allocation check)
	var mixed []lj.BlockI16
	{
		var seq [3]lj.BlockI16
		ex := extremeFam()
		for round := 0; round < 2; round++ { // extremes first, so that six of them share one 4:2:0 unit
			for i := 0; i < ex.n; i++ {
				ex.build(i, &seq)
				mixed = append(mixed, seq[0])
			}
		}
		for _, f := range design {
			for i := 0; i < f.n; i++ {
				k := f.build(i, &seq)
				mixed = append(mixed, seq[:k]...)
			}
		}
	}
	r.Add("design_blocks_in_window_source", int64(len(mixed)))
	for _, f := range design {
		r.Add("family_items:"+f.name, int64(f.n))
	}

	allocEvals := allocPhase(x, mixed, quants)
	r.Add("alloc_measurements", allocEvals)
	phase("alloc")

	validityEvals := validityPhase(x)
	r.Add("validity_boundary_cases", validityEvals)
	phase("validity")

	var nFam int64
	for _, f := range design {
		n := familyPhase(x, f, sweepOpts{quants: quants, shifters: 16, tails: 2, stdlibEvery: 1})
		r.Add("family_images:"+f.name, n)
		nFam += n
	}
	phase("design_families")

	nDiv := divPhase(x)
	r.Add("division_domain_images", nDiv)
	phase("division")

	depth := 4
	if thorough {
		depth = 5
	}
	nHist, nHistNon, nStates, nTrans, _ := historyPhase(x, depth)
	r.Add("histories", nHist)
	phase("histories")

	small := []int{1, 2, 7, 8, 9, 15, 16, 17, 31, 32, 33}
	windows := 64
	if thorough {
		windows = 1024
	}
	nSize := sizePhase(x, mixed, quants, small, windows)
	r.Add("size_sweep_images", nSize)
	phase("size_sweep")

	dst := runDCT(r, thorough)
	phase("dct")


	// extension beyond the DESIGN family: all 64 positions, both ends of every category
	all64 := make([]int, 64)
	for i := range all64 {
		all64[i] = i
	}
	var ext []fam
	var extOpts sweepOpts
	if thorough {
		ext = []fam{
			sparseFam("sparse<=2@all64,category-boundaries", all64, 2, boundaryValues),
			sparseFam("sparse<=3@{0,1,12,16,62,63},category-boundaries", []int{0, 1, 12, 16, 62, 63}, 3, boundaryValues),
			sparseFam("sparse<=3@all64,{+-1,+-1023}", all64, 3, func(dc bool) []int16 { return []int16{1, -1, 1023, -1023} }),
		}
		extOpts = sweepOpts{quants: quants, shifters: 2, tails: 1, stdlibEvery: 64}
	} else {
		ext = []fam{sparseFam("sparse<=2@all64,category-boundaries", all64, 2, boundaryValues)}
		extOpts = sweepOpts{quants: quants, shifters: 1, tails: 1, stdlibEvery: 64}
	}
	for _, f := range ext {
		r.Add("family_items:"+f.name, int64(f.n))
		n := familyPhase(x, f, extOpts)
		r.Add("family_images:"+f.name, n)
		nFam += n
	}
	phase("extended_families")

	unitCap := int64(1) << 18
	if thorough {
		unitCap = 1 << 40
	}
	hq := []qcfg{quants[8], quants[3]} // nil options, ramp
	full, ronly := headerPhase(x, hq, unitCap)
	r.Add("header_sweep_images_fully_counted", full)
	r.Add("header_sweep_images_reset_only", ronly)
	phase("headers")


	total := newStats()
	for _, wk := range x.workers {
		mergeStats(total, wk.st)
	}
	publishStats(r, total, covered)
	r.Add("dct_blocks", dst.evals)
	r.HistAdd("dct_pixel_error_after_forward_then_inverse", "0", dst.errHist[0])
	r.HistAdd("dct_pixel_error_after_forward_then_inverse", "1", dst.errHist[1])
	r.HistAdd("dct_pixel_error_after_forward_then_inverse", "2", dst.errHist[2])
	r.HistAdd("dct_pixel_error_after_forward_then_inverse", ">=3", dst.errHist[3])
	r.Add("dct_max_abs_ac", int64(dst.maxAbsAC))
	r.Add("dct_max_dc", int64(dst.maxDC))
	r.Add("dct_min_dc", int64(dst.minDC))

	r.Sample(map[string]any{"encode": "Reset(ycbcr420, 48x16, all1) + 3 x Add6: unit0 = shifter 3 in all six slots, unit1 = block{[0]=-1024,[63]=1023}, unit2 = shifter 8; 593-byte header, every block decoded and compared"})
	r.Sample(map[string]any{"history": []string{"Reset(420,17x16,nil)=2units", "Add6(valid)", "Reset(gray,8x8,nil)=1unit", "Add1(valid)"}, "then": "one extra Add1 must fail, file verified"})
	r.Sample(map[string]any{"division": "gray 528x8, uniform factor 2: every AC value -1023..1023 and DC -1024..1023"})
	r.Sample(map[string]any{"sizes": "Reset(ycbcr444, 65535, 256) + 262144 x Add3 with a 7-block cycle, streamed through the reader"})
	r.Sample(map[string]any{"dct": "step edge between column 2 and 3, levels 17 | 203"})

	stopProfile()
	evals := total.images + nHist + dst.evals + allocEvals + validityEvals + ronly
	r.Finish(ev.Coverage{
		Evaluations:        evals,
		DistinctNontrivial: total.imagesNontrivial + nHistNon + dst.nonconstant,
		Rule: "every enumerated input is distinct by construction (no sampling). Counted as non-trivial: complete files whose independently decoded scan holds at least one non-zero quantised coefficient and passed every clause; " +
			"call histories with at least one accepted AddN; DCT inputs that are not constant blocks. evaluations additionally counts allocation measurements, block-validity cases and Reset-only header checks",
		States:          int64(nStates),
		Transitions:     int64(nTrans),
		TracesValidated: nHist,
		Exhaustive:      true,
		Extra:           covered,
	}, []string{
		"rounding: the documentation says only 'rounded to the nearest integer' (ties unspecified), so either neighbour is accepted on an exact tie; which way ties go is reported in the histogram",
		"a ZRL directly followed by EOB is decodable and is not treated as an error (counted); a ZRL that leaves no room for a later coefficient is an error (T.81 Figure F.13)",
		"which error value a rejected call returns is recorded, not demanded; demanded is: non-nil error, nothing written, and every later AddN rejected until Reset",
		"image/jpeg, math/big and testing.AllocsPerRun are trusted",
		"sizes above 33 are exercised with a 7-block cycle only; in the quick tier the twelve images with more than 2^18 units are checked after Reset only (header, image/jpeg.DecodeConfig)",
	})
}

func mergeStats(t, s *stats) {
	t.images += s.images
	t.imagesNontrivial += s.imagesNontrivial
	t.blocks += s.blocks
	for a := range t.acSym {
		for b := range t.acSym[a] {
			t.acSym[a][b] += s.acSym[a][b]
		}
		for b := range t.dcCat[a] {
			t.dcCat[a][b] += s.dcCat[a][b]
		}
	}
	for i := range t.phase {
		t.phase[i] += s.phase[i]
		t.padBits[i] += s.padBits[i]
	}
	t.tiesAway += s.tiesAway
	t.tiesToward += s.tiesToward
	t.stuffed += s.stuffed
	t.ffBeforeEOI += s.ffBeforeEOI
	t.zrl += s.zrl
	t.zrlEOB += s.zrlEOB
	t.eob += s.eob
	t.full += s.full
	t.stdlibDecoded += s.stdlibDecoded
	t.rejected += s.rejected
	for i := range t.maxAddBytes {
		t.maxAddBytes[i] = max(t.maxAddBytes[i], s.maxAddBytes[i])
	}
	t.maxBlockBytes = max(t.maxBlockBytes, s.maxBlockBytes)
	for k, v := range s.hist {
		t.hist[k] += v
	}
	for k, v := range s.famEval {
		t.famEval[k] += v
	}
}

func publishStats(r *ev.Run, t *stats, covered map[string]any) {
	r.Add("files_fully_verified", t.images)
	r.Add("blocks_decoded_and_compared", t.blocks)
	r.Add("files_also_decoded_by_image/jpeg", t.stdlibDecoded)
	r.Add("extra_AddN_after_last_unit_rejected", t.rejected)
	r.Add("stuffed_0xFF00_bytes_unstuffed", t.stuffed)
	r.Add("files_with_stuffed_0xFF_directly_before_EOI", t.ffBeforeEOI)
	r.Add("ZRL_symbols", t.zrl)
	r.Add("ZRL_directly_before_EOB(non-canonical)", t.zrlEOB)
	r.Add("blocks_ending_with_EOB", t.eob)
	r.Add("blocks_ending_at_coefficient_63_without_EOB", t.full)
	r.Add("exact_ties_rounded_away_from_zero", t.tiesAway)
	r.Add("exact_ties_rounded_toward_zero", t.tiesToward)
	r.Add("max_bytes_written_by_one_Add1", t.maxAddBytes[0])
	r.Add("max_bytes_written_by_one_Add3", t.maxAddBytes[1])
	r.Add("max_bytes_written_by_one_Add6(buffer is 2924)", t.maxAddBytes[2])
	r.Add("max_bytes_of_one_block", t.maxBlockBytes)
	for i := 0; i < 8; i++ {
		r.HistAdd("bit_phase_at_block_start(unread bits of current byte)", fmt.Sprint(i), t.phase[i])
		r.HistAdd("pad_bits_before_EOI", fmt.Sprint(i), t.padBits[i])
	}
	distinctSyms := 0
	for a := 0; a < 2; a++ {
		name := []string{"luma", "chroma"}[a]
		nAC, nDC := 0, 0
		for s, n := range t.acSym[a] {
			if n > 0 {
				nAC++
				_ = s
			}
		}
		for _, n := range t.dcCat[a] {
			if n > 0 {
				nDC++
			}
		}
		distinctSyms += nAC + nDC
		r.Add("distinct_AC_symbols_exercised_"+name+"(of 162)", int64(nAC))
		r.Add("distinct_DC_categories_exercised_"+name+"(of 12)", int64(nDC))
		for c, n := range t.dcCat[a] {
			r.HistAdd("dc_category_"+name, fmt.Sprint(c), n)
		}
	}
	r.MergeHist("misc", t.hist)
	r.MergeHist("encodes_by_family", t.famEval)
	covered["distinct_huffman_symbols_exercised"] = distinctSyms
}
