// AddN call-sequence state machine: every sequence of operations up to a depth
// is run on a fresh Encoder and compared, call by call, with a counter model
// written from the package documentation.
package main

import (
	"errors"
	"fmt"
	"strings"

	lj "github.com/google/wuffs/lib/lowleveljpeg"
)

const (
	kReset = iota
	kAdd
)

const (
	argValid = iota
	argNil
	argInvalidBlock
)

type hop struct {
	name string
	kind int
	// Reset
	ci        *ctInfo
	ctRaw     lj.ColorType
	w, h      int
	optMode   int // 0 nil options, 1 options without factors, 2 explicit factors, 3 factors with a zero
	validArgs bool
	// Add
	n   int
	arg int
	// both
	failWriter bool
}

var errWriter = errors.New("c18: writer refuses")

type failingWriter struct{ calls int }

func (f *failingWriter) Write(p []byte) (int, error) { f.calls++; return 0, errWriter }

func historyOps() []hop {
	g, c4, c2 := &ctInfos[0], &ctInfos[1], &ctInfos[2]
	ops := []hop{
		{name: "Reset(gray,8x8,nil)=1unit", kind: kReset, ci: g, ctRaw: g.ct, w: 8, h: 8, optMode: 0, validArgs: true},
		{name: "Reset(gray,9x8,factors)=2units", kind: kReset, ci: g, ctRaw: g.ct, w: 9, h: 8, optMode: 2, validArgs: true},
		{name: "Reset(444,1x1,factors)=1unit", kind: kReset, ci: c4, ctRaw: c4.ct, w: 1, h: 1, optMode: 2, validArgs: true},
		{name: "Reset(444,8x16,options-without-factors)=2units", kind: kReset, ci: c4, ctRaw: c4.ct, w: 8, h: 16, optMode: 1, validArgs: true},
		{name: "Reset(420,16x16,factors)=1unit", kind: kReset, ci: c2, ctRaw: c2.ct, w: 16, h: 16, optMode: 2, validArgs: true},
		{name: "Reset(420,17x16,nil)=2units", kind: kReset, ci: c2, ctRaw: c2.ct, w: 17, h: 16, optMode: 0, validArgs: true},
		{name: "Reset(gray,0x8)", kind: kReset, ci: g, ctRaw: g.ct, w: 0, h: 8},
		{name: "Reset(444,8x65536)", kind: kReset, ci: c4, ctRaw: c4.ct, w: 8, h: 65536},
		{name: "Reset(colorType=2,8x8)", kind: kReset, ci: g, ctRaw: lj.ColorType(2), w: 8, h: 8},
		{name: "Reset(colorType=0,8x8)", kind: kReset, ci: g, ctRaw: lj.ColorTypeInvalid, w: 8, h: 8},
		{name: "Reset(420,16x16,factors-with-a-zero)", kind: kReset, ci: c2, ctRaw: c2.ct, w: 16, h: 16, optMode: 3},
		{name: "Reset(gray,8x8,nil,failing-writer)", kind: kReset, ci: g, ctRaw: g.ct, w: 8, h: 8, validArgs: true, failWriter: true},
	}
	for _, n := range []int{1, 3, 6} {
		ops = append(ops,
			hop{name: fmt.Sprintf("Add%d(valid)", n), kind: kAdd, n: n, arg: argValid},
			hop{name: fmt.Sprintf("Add%d(nil)", n), kind: kAdd, n: n, arg: argNil},
			hop{name: fmt.Sprintf("Add%d(invalid-block)", n), kind: kAdd, n: n, arg: argInvalidBlock},
			hop{name: fmt.Sprintf("Add%d(valid,failing-writer)", n), kind: kAdd, n: n, arg: argValid, failWriter: true},
		)
	}
	return ops
}

// histBlock is the content of slot j of the k-th successful-or-not valid Add of
// a history: non-zero, different DC in every slot and call so that prediction
// or bit-buffer state leaking across Reset or across a failed call is visible.
func histBlock(k, j int) (b lj.BlockI16) {
	dc := 150 + 97*k + 31*j
	if (j+k)%2 == 1 {
		dc = -dc
	}
	b[0] = int16(dc % 1000)
	b[1] = int16(5 + k)
	b[zz[17+j]] = int16(-(3 + 11*j))
	b[63] = int16(1 + (k % 3))
	return b
}

var histQ = stdQ(50)

const (
	phFresh = iota
	phReady
	phErrored
)

var phaseNames = []string{"fresh", "ready", "errored"}

// model is the counter model: documentation only.
type model struct {
	phase     int
	ci        *ctInfo
	remaining int64
	fileStart int // offset in the writer where the current file began
	q         lj.Array2QuantizationFactors
	blocks    []lj.BlockI16 // blocks accepted into the current file
	w, h      int
	qname     string
}

func (m *model) stateKey() string {
	if m.phase != phReady {
		return phaseNames[m.phase]
	}
	return fmt.Sprintf("ready/%s/remaining=%d", m.ci.name, m.remaining)
}

type histResult struct {
	fs       []finding
	log      []string
	states   []string
	complete bool
}

type histRunner struct {
	wk     *worker
	ops    []hop
	out    verifierSink
	keep   bool // keep a log (replay)
	states map[string]int64
	trans  map[string]int64
	outc   map[string]int64
	okAdds int64
	count, nontrivial int64
}

// verifierSink only collects bytes; the file is verified at the end.
type verifierSink struct{ buf []byte }

func (s *verifierSink) Write(p []byte) (int, error) { s.buf = append(s.buf, p...); return len(p), nil }

func errClass(err error) string {
	switch err {
	case nil:
		return "nil"
	case lj.ErrBadAddNForColorType:
		return "ErrBadAddNForColorType"
	case lj.ErrBadArgument:
		return "ErrBadArgument"
	case lj.ErrInvalidBlockI16:
		return "ErrInvalidBlockI16"
	case lj.ErrNilReceiver:
		return "ErrNilReceiver"
	case lj.ErrPreviouslyReturnedError:
		return "ErrPreviouslyReturnedError"
	case lj.ErrTooManyAddNCalls:
		return "ErrTooManyAddNCalls"
	case errWriter:
		return "writer's error"
	}
	return "other:" + err.Error()
}

// run executes the sequence seq (indices into ops) and returns the findings.
func (hr *histRunner) run(seq []int) (fs []finding, log []string) {
	wk := hr.wk
	wk.enc = lj.Encoder{}
	hr.out.buf = hr.out.buf[:0]
	fw := &failingWriter{}
	m := model{phase: phFresh}
	addCount := 0
	fail := func(clause, format string, a ...any) {
		fs = append(fs, finding{clause, fmt.Sprintf(format, a...)})
	}
	note := func(format string, a ...any) {
		if hr.keep {
			log = append(log, fmt.Sprintf(format, a...))
		}
	}
	doAdd := func(n, arg int, failW bool, label string) (ok bool) {
		var p1 *lj.Array1BlockI16
		var p3 *lj.Array3BlockI16
		var p6 *lj.Array6BlockI16
		var given []lj.BlockI16
		if arg != argNil {
			for j := 0; j < n; j++ {
				b := histBlock(addCount, j)
				if arg == argInvalidBlock && j == n-1 {
					b[63] = -1024
				}
				given = append(given, b)
				switch n {
				case 1:
					wk.a1[j] = b
				case 3:
					wk.a3[j] = b
				default:
					wk.a6[j] = b
				}
			}
			p1, p3, p6 = &wk.a1, &wk.a3, &wk.a6
		}
		addCount++
		// what the model expects
		expectOK := m.phase == phReady && m.ci.n == n && arg == argValid && m.remaining > 0 && !failW
		why := ""
		switch {
		case m.phase == phFresh:
			why = "no successful Reset yet"
		case m.phase == phErrored:
			why = "after an error"
		case m.ci.n != n:
			why = "wrong N for the colour type"
		case arg == argNil:
			why = "nil argument"
		case arg == argInvalidBlock:
			why = "invalid block"
		case m.remaining == 0:
			why = "too many units"
		case failW:
			why = "writer fails"
		}
		before := len(hr.out.buf)
		var err error
		var pan any
		if failW {
			err, pan = safeAdd(&wk.enc, fw, n, p1, p3, p6)
		} else {
			err, pan = safeAdd(&wk.enc, &hr.out, n, p1, p3, p6)
		}
		wrote := len(hr.out.buf) - before
		note("%s -> %s, %d bytes written (model: %s %s)", label, errClass(err), wrote, map[bool]string{true: "accept", false: "reject:"}[expectOK], why)
		hr.trans[m.stateKey()+" --"+opClass(kAdd, n, arg, failW)+"--> "+map[bool]string{true: "ok", false: "reject"}[expectOK]]++
		hr.outc[strings.ReplaceAll(why, " ", "-")+"=>"+errClass(err)]++
		if pan != nil {
			fail("panic:AddN", "%s panics (%s): %v", label, why, pan)
			m.phase = phErrored
			return false
		}
		if expectOK {
			if err != nil {
				fail("add:error-before-required-units:"+m.ci.name, "%s returns %v although the model (state %s) accepts it", label, err, m.stateKey())
				m.phase = phErrored
				return false
			}
			m.remaining--
			m.blocks = append(m.blocks, given...)
			hr.okAdds++
			return true
		}
		cls := strings.ReplaceAll(why, " ", "-")
		if err == nil {
			// same root causes as the image sweeps: same signatures
			clause := "history:add-accepted:" + cls
			switch {
			case m.phase == phReady && m.ci.n == n && arg == argValid && !failW && m.remaining == 0:
				clause = "add:accepted-beyond-required-units:" + m.ci.name
			case m.phase == phReady && m.ci.n == n && arg == argInvalidBlock:
				clause = "validity:out-of-range-block-accepted:ac"
			}
			fail(clause, "%s returns nil; the model (state %s) rejects it: %s", label, m.stateKey(), why)
		} else if wrote != 0 {
			fail("add:bytes-written-by-failing-call", "%s wrote %d bytes although it returned %v", label, wrote, err)
		}
		m.phase = phErrored
		return false
	}
	finishFile := func() {
		// complete the file and hand it to the full oracle
		for m.phase == phReady && m.remaining > 0 {
			if !doAdd(m.ci.n, argValid, false, fmt.Sprintf("(completion) Add%d(valid)", m.ci.n)) {
				return
			}
		}
		if m.phase != phReady {
			return
		}
		file := append([]byte(nil), hr.out.buf[m.fileStart:]...)
		doAdd(m.ci.n, argValid, false, fmt.Sprintf("(one too many) Add%d(valid)", m.ci.n))
		if len(fs) > 0 {
			return
		}
		c := &encCase{family: "history", ci: m.ci, w: m.w, h: m.h, qname: m.qname, q: &m.q, blocks: m.blocks, stdlib: true}
		v := &wk.v
		v.begin(c, wk.st)
		v.Write(file)
		v.drain(true)
		for _, f := range v.fs {
			fail(f.clause, "%s", f.detail)
		}
		if !v.dead && v.finished {
			wk.st.images++
			wk.st.imagesNontrivial++
			wk.stdlib(c, file, func(cl, format string, a ...any) { fail(cl, format, a...) })
			note("file of %d bytes verified: %d blocks", len(file), v.done)
		}
	}
	for _, oi := range seq {
		op := &hr.ops[oi]
		hr.states[m.stateKey()]++
		if len(fs) > 0 {
			return // model and implementation have diverged; later calls mean nothing
		}
		if op.kind == kAdd {
			doAdd(op.n, op.arg, op.failWriter, op.name)
			continue
		}
		// Reset
		var opts *lj.EncoderOptions
		var q lj.Array2QuantizationFactors
		qname := "default quality"
		switch op.optMode {
		case 0:
			q = stdQ(lj.DefaultQuality)
		case 1:
			q = stdQ(lj.DefaultQuality)
			opts = &lj.EncoderOptions{}
		case 2:
			q = histQ
			qq := q
			opts = &lj.EncoderOptions{QuantizationFactors: &qq}
			qname = "std50"
		case 3:
			qq := histQ
			qq[1][37] = 0
			opts = &lj.EncoderOptions{QuantizationFactors: &qq}
		}
		before := len(hr.out.buf)
		var err error
		var pan any
		if op.failWriter {
			err, pan = safeReset(&wk.enc, fw, op.ctRaw, op.w, op.h, opts)
		} else {
			err, pan = safeReset(&wk.enc, &hr.out, op.ctRaw, op.w, op.h, opts)
		}
		wrote := len(hr.out.buf) - before
		expectOK := op.validArgs && !op.failWriter
		note("%s -> %s, %d bytes written", op.name, errClass(err), wrote)
		hr.trans[m.stateKey()+" --"+opClass(kReset, 0, 0, op.failWriter)+map[bool]string{true: "", false: "(bad args)"}[op.validArgs]+"--> "+map[bool]string{true: "ok", false: "reject"}[expectOK]]++
		if pan != nil {
			fail("panic:Reset", "%s panics: %v", op.name, pan)
			return
		}
		if expectOK {
			if err != nil {
				fail("history:valid-reset-rejected", "%s returns %v (state %s)", op.name, err, m.stateKey())
				return
			}
			if wrote == 0 {
				fail("history:reset-wrote-nothing", "%s wrote no header", op.name)
			}
			m = model{phase: phReady, ci: op.ci, remaining: int64(ceilDiv(op.w, op.ci.mw)) * int64(ceilDiv(op.h, op.ci.mh)),
				fileStart: before, q: q, w: op.w, h: op.h, qname: qname}
		} else {
			if err == nil {
				fail("history:reset-accepted-bad-arguments", "%s returns nil", op.name)
			} else if wrote != 0 {
				fail("add:bytes-written-by-failing-call", "%s wrote %d bytes", op.name, wrote)
			}
			m.phase = phErrored
		}
	}
	hr.states[m.stateKey()]++
	if len(fs) == 0 {
		finishFile()
	}
	return fs, log
}

func opClass(kind, n, arg int, failW bool) string {
	s := "Reset"
	if kind == kAdd {
		s = fmt.Sprintf("Add%d(%s)", n, []string{"valid", "nil", "invalid"}[arg])
	}
	if failW {
		s += "/failing-writer"
	}
	return s
}
