// Quantisation configurations and block families (DESIGN section 4, C18 Space).
package main

import (
	"fmt"
	"sort"

	lj "github.com/google/wuffs/lib/lowleveljpeg"
)

type qcfg struct {
	name       string
	q          lj.Array2QuantizationFactors // factors the output must use
	nilOptions bool
	nilFactors bool
}

func uniformQ(v uint8) (q lj.Array2QuantizationFactors) {
	for t := range q {
		for i := range q[t] {
			q[t][i] = v
		}
	}
	return q
}

func stdQ(quality int) (q lj.Array2QuantizationFactors) {
	q.SetToStandardValues(quality)
	return q
}

func quantConfigs() []qcfg {
	one255 := uniformQ(1)
	one255[0][0], one255[1][63] = 255, 255
	one255b := uniformQ(1)
	one255b[0][1], one255b[1][8] = 255, 255
	ramp := uniformQ(1)
	for i := 0; i < 64; i++ {
		ramp[0][i] = uint8(i + 1)
		ramp[1][i] = uint8(255 - 3*i)
	}
	return []qcfg{
		{name: "all1", q: uniformQ(1)},
		{name: "all255", q: uniformQ(255)},
		{name: "std50", q: stdQ(50)},
		{name: "ramp", q: ramp},
		{name: "one255(luma DC, chroma 63)", q: one255},
		{name: "one255(luma 1, chroma 8)", q: one255b},
		{name: "std1", q: stdQ(1)},
		{name: "std100", q: stdQ(100)},
		// "A nil pointer is equivalent to using DefaultQuality."
		{name: "nil-options(default quality)", q: stdQ(lj.DefaultQuality), nilOptions: true},
		{name: "nil-factors(default quality)", q: stdQ(lj.DefaultQuality), nilFactors: true},
	}
}

// fam is an indexable family of block sequences (1..3 consecutive blocks).
type fam struct {
	name  string
	n     int
	build func(i int, dst *[3]lj.BlockI16) int
}

func listFam(name string, items [][]lj.BlockI16) fam {
	return fam{name: name, n: len(items), build: func(i int, dst *[3]lj.BlockI16) int {
		return copy(dst[:], items[i])
	}}
}

// designValues: {+-1, +-2, +-255, +-256, +-1023}, and -1024 for DC.
func designValues(dc bool) []int16 {
	v := []int16{1, -1, 2, -2, 255, -255, 256, -256, 1023, -1023}
	if dc {
		v = append(v, -1024)
	}
	return v
}

// boundaryValues: both ends of every magnitude category 1..10 (and -1024 for DC).
func boundaryValues(dc bool) []int16 {
	set := map[int16]bool{}
	for k := 0; k <= 10; k++ {
		for _, m := range []int{1 << k, 1<<k - 1} {
			if m >= 1 && m <= 1023 {
				set[int16(m)] = true
				set[int16(-m)] = true
			}
		}
	}
	if dc {
		set[-1024] = true
	}
	var v []int16
	for x := range set {
		v = append(v, x)
	}
	sort.Slice(v, func(i, j int) bool { return v[i] < v[j] })
	return v
}

// sparseFam: every block with at most k non-zero coefficients at the given
// natural-order positions, values from vals(position is DC).
func sparseFam(name string, positions []int, k int, vals func(dc bool) []int16) fam {
	type combo struct {
		pos   []int
		start int
		count int
	}
	var combos []combo
	total := 0
	var rec func(from int, cur []int)
	rec = func(from int, cur []int) {
		cnt := 1
		for _, p := range cur {
			cnt *= len(vals(p == 0))
		}
		combos = append(combos, combo{append([]int(nil), cur...), total, cnt})
		total += cnt
		if len(cur) == k {
			return
		}
		for i := from; i < len(positions); i++ {
			rec(i+1, append(cur, positions[i]))
		}
	}
	rec(0, nil)
	vDC, vAC := vals(true), vals(false)
	return fam{name: name, n: total, build: func(i int, dst *[3]lj.BlockI16) int {
		ci := sort.Search(len(combos), func(j int) bool { return combos[j].start > i }) - 1
		c := &combos[ci]
		r := i - c.start
		dst[0] = lj.BlockI16{}
		for _, p := range c.pos {
			v := vAC
			if p == 0 {
				v = vDC
			}
			dst[0][p] = v[r%len(v)]
			r /= len(v)
		}
		return 1
	}}
}

// extremeFam: every sign pattern of +-1023 repeating with period <= 4 along the
// zig-zag order (the longest code words and the most 0xFF bytes), with the DC
// following the pattern, or -1024, or +1023.
func extremeFam() fam {
	seen := map[[64]int16]bool{}
	var items [][]lj.BlockI16
	for period := 1; period <= 4; period++ {
		for bits := 0; bits < 1<<period; bits++ {
			var b lj.BlockI16
			for k := 0; k < 64; k++ {
				v := int16(1023)
				if bits>>(k%period)&1 == 1 {
					v = -1023
				}
				b[zz[k]] = v
			}
			for _, dc := range []int16{b[0], -1024, 1023} {
				bb := b
				bb[0] = dc
				if !seen[bb] {
					seen[bb] = true
					items = append(items, []lj.BlockI16{bb})
				}
			}
		}
	}
	// the same with magnitudes 511, 255 (9 and 8 one-bits) and mixed magnitudes
	for _, m := range []int16{511, 255, 1} {
		for _, sgn := range []int16{1, -1} {
			var b lj.BlockI16
			for k := range b {
				b[k] = sgn * m
			}
			items = append(items, []lj.BlockI16{b})
		}
	}
	return listFam("extreme", items)
}

// runsFam: zero runs of length 15, 16, 17, 31, 32, 47, 48, 62 between two
// coefficients at every zig-zag position where they fit, after the DC, and as
// trailing runs.
func runsFam() fam {
	var items [][]lj.BlockI16
	lens := []int{14, 15, 16, 17, 30, 31, 32, 33, 47, 48, 49, 61, 62}
	firsts := []int16{1, -1023}
	lasts := []int16{1, -1, 1023, -1023}
	for _, L := range lens {
		for a := 0; a+L+1 <= 63; a++ { // non-zero at zig-zag a (0 = DC position, may be 0-valued), then L zeros, then non-zero
			for _, f := range firsts {
				for _, l := range lasts {
					var b lj.BlockI16
					b[zz[a]] = f
					b[zz[a+L+1]] = l
					items = append(items, []lj.BlockI16{b})
					if a == 0 { // run directly after a zero DC
						b[0] = 0
						items = append(items, []lj.BlockI16{b})
					}
				}
			}
		}
		// trailing run of exactly L zeros: last non-zero at zig-zag 63-L
		for _, l := range lasts {
			var b lj.BlockI16
			b[zz[63-L]] = l
			items = append(items, []lj.BlockI16{b})
			if 63-L-1 >= 1 {
				b[zz[63-L-1]] = -l
				items = append(items, []lj.BlockI16{b})
			}
		}
	}
	// everything zero except the last / the first AC
	for _, l := range lasts {
		var b lj.BlockI16
		b[63] = l
		items = append(items, []lj.BlockI16{b})
		b = lj.BlockI16{}
		b[1] = l
		items = append(items, []lj.BlockI16{b})
	}
	return listFam("runs", items)
}

// symFam: every (run, size) AC symbol: run r in 0..15 before a value of every
// category s in 1..10 (both ends of the category, both signs), with the run
// starting after the DC, in the middle, and ending at index 63.
func symFam() fam {
	var items [][]lj.BlockI16
	for r := 0; r <= 15; r++ {
		for s := 1; s <= 10; s++ {
			for _, m := range []int{1 << (s - 1), 1<<s - 1} {
				for _, sg := range []int{1, -1} {
					v := int16(sg * m)
					for _, k0 := range []int{0, 20, 63 - r - 1} {
						var b lj.BlockI16
						if k0 > 0 {
							b[zz[k0]] = 3
						}
						b[zz[k0+r+1]] = v
						items = append(items, []lj.BlockI16{b})
					}
				}
			}
		}
	}
	return listFam("symbols", items)
}

// dcFam: ordered pairs (and a return) of DC values whose differences span every
// DC category up to +-2047.
func dcFam() fam {
	set := map[int]bool{0: true, -1024: true, 1023: true}
	for k := 0; k <= 10; k++ {
		for _, m := range []int{1<<k - 1, 1 << k, 1<<k + 1} {
			for _, sg := range []int{1, -1} {
				if v := sg * m; v >= -1024 && v <= 1023 {
					set[v] = true
				}
			}
		}
	}
	var vals []int
	for v := range set {
		vals = append(vals, v)
	}
	sort.Ints(vals)
	var items [][]lj.BlockI16
	for _, a := range vals {
		for _, b := range vals {
			var x, y lj.BlockI16
			x[0], y[0] = int16(a), int16(b)
			y[63] = 1
			items = append(items, []lj.BlockI16{x, y, x})
		}
	}
	return listFam("dc-sequences", items)
}

// divFam: for one factor q in every position, every coefficient value: the
// whole domain of the rounded division, 63 AC values and one DC value per block.
func divBlocks() []lj.BlockI16 {
	var out []lj.BlockI16
	v := -1023
	dc := -1024
	for v <= 1023 {
		var b lj.BlockI16
		b[0] = int16(dc)
		dc += 63
		if dc > 1023 {
			dc = 1023
		}
		for k := 1; k < 64; k++ {
			if v <= 1023 {
				b[k] = int16(v)
				v++
			}
		}
		out = append(out, b)
	}
	// every DC value as well
	for d := -1024; d <= 1023; d++ {
		var b lj.BlockI16
		b[0] = int16(d)
		out = append(out, b)
	}
	return out
}

// shifters move the bit phase at which the following block starts.
func shifterBlocks() []lj.BlockI16 {
	var out []lj.BlockI16
	for s := 0; s < 16; s++ {
		var b lj.BlockI16
		for i := 1; i <= s; i++ {
			b[zz[i]] = int16(1023 >> ((i - 1) % 10))
		}
		out = append(out, b)
	}
	return out
}

func describeBlock(b *lj.BlockI16) string {
	s := ""
	n := 0
	for k := 0; k < 64; k++ {
		if b[k] != 0 {
			n++
			if n <= 6 {
				s += fmt.Sprintf(" [%d]=%d", k, b[k])
			}
		}
	}
	if n > 6 {
		s += fmt.Sprintf(" ... (%d non-zero)", n)
	}
	if n == 0 {
		return "zero block"
	}
	return "block" + s
}
