// Forward / inverse DCT clauses on the enumerated BlockU8 family.
package main

import (
	"fmt"

	"verif/internal/ev"

	lj "github.com/google/wuffs/lib/lowleveljpeg"
)

type dctCase struct {
	Kind   string    `json:"kind"`
	Family string    `json:"family"`
	Pixels [64]uint8 `json:"pixels"`
}

type dctStats struct {
	evals, nonconstant int64
	maxErr             int
	errHist            [4]int64 // pixels with |error| 0, 1, 2, >=3
	maxAbsAC, maxDC    int
	minDC              int
}

// checkDCT applies the two clauses of the property to one block.
func checkDCT(px *lj.BlockU8, st *dctStats) (fs []finding, coefs lj.BlockI16, back lj.BlockU8) {
	defer func() {
		if r := recover(); r != nil {
			fs = append(fs, finding{"panic:DCT", fmt.Sprintf("ForwardDCT/InverseDCT panics: %v", r)})
		}
	}()
	coefs = px.ForwardDCT()
	// "valid" written out: DC in [-1024, 1023], AC in [-1023, 1023]; and the
	// package's own IsValid must agree.
	ok := coefs[0] >= -1024 && coefs[0] <= 1023
	for _, v := range coefs[1:] {
		if v < -1023 || v > 1023 {
			ok = false
		}
		if a := int(v); a > st.maxAbsAC {
			st.maxAbsAC = a
		} else if -a > st.maxAbsAC {
			st.maxAbsAC = -a
		}
	}
	st.maxDC = max(st.maxDC, int(coefs[0]))
	st.minDC = min(st.minDC, int(coefs[0]))
	if !ok {
		fs = append(fs, finding{"dct:forward-output-out-of-range", fmt.Sprintf("ForwardDCT gives DC %d, coefficients %v", coefs[0], coefs)})
	}
	if ok != coefs.IsValid() {
		fs = append(fs, finding{"dct:IsValid-disagrees-with-documented-range", fmt.Sprintf("IsValid()=%v for %v", coefs.IsValid(), coefs)})
	}
	var c2 lj.BlockI16
	c2.ForwardDCTFrom(px)
	if c2 != coefs {
		fs = append(fs, finding{"dct:ForwardDCTFrom-differs-from-ForwardDCT", ""})
	}
	back = coefs.InverseDCT()
	worst := 0
	at := 0
	for i := range px {
		d := int(px[i]) - int(back[i])
		if d < 0 {
			d = -d
		}
		if d > worst {
			worst, at = d, i
		}
		if d >= 3 {
			st.errHist[3]++
		} else {
			st.errHist[d]++
		}
	}
	if worst > st.maxErr {
		st.maxErr = worst
	}
	if worst > 1 {
		// The signature carries the size of the error and, for a block that is flat except for one
		// pixel, how far that pixel is from the background: a transform that is wrong in a different
		// way gives a different signature (see known_findings.json for the inherent cases).
		shape := "general-block"
		counts := map[uint8]int{}
		for _, v := range px {
			counts[v]++
		}
		if len(counts) == 2 {
			var bgv, one uint8
			single := false
			for v, n := range counts {
				if n == 1 {
					one, single = v, true
				} else {
					bgv = v
				}
			}
			if single {
				d := int(one) - int(bgv)
				if d < 0 {
					d = -d
				}
				shape = fmt.Sprintf("one-pixel-differs-by-%d-from-a-flat-block", d)
			}
		}
		fs = append(fs, finding{fmt.Sprintf("dct:inverse-of-forward-off-by-more-than-one:error=%d:%s", worst, shape), fmt.Sprintf("pixel %d: original %d, after ForwardDCT then InverseDCT %d", at, px[at], back[at])})
	}
	return fs, coefs, back
}

// dctFamilies enumerates the family; level 0 = DESIGN family, 1 = thorough
// extension. gen calls f(family, block) for every block of shard `shard`.
type dctJob struct {
	family string
	n      int
	build  func(i int, b *lj.BlockU8)
}

func dctJobs(thorough bool) []dctJob {
	var jobs []dctJob
	jobs = append(jobs, dctJob{"constant", 256, func(i int, b *lj.BlockU8) {
		for k := range b {
			b[k] = uint8(i)
		}
	}})
	// step edge at each of 7 columns / 7 rows, every ordered pair of levels
	jobs = append(jobs, dctJob{"step-edge", 14 * 256 * 256, func(i int, b *lj.BlockU8) {
		pos, a, c := i/65536, uint8(i>>8), uint8(i)
		for y := 0; y < 8; y++ {
			for x := 0; x < 8; x++ {
				t := x
				p := pos + 1
				if pos >= 7 {
					t = y
					p = pos - 7 + 1
				}
				if t < p {
					b[8*y+x] = a
				} else {
					b[8*y+x] = c
				}
			}
		}
	}})
	// single pixel on a flat background
	pixVals, bgVals := []int{0, 255}, []int{0, 128, 255}
	if thorough {
		pixVals, bgVals = nil, nil
		for v := 0; v < 256; v++ {
			pixVals = append(pixVals, v)
			bgVals = append(bgVals, v)
		}
	}
	jobs = append(jobs, dctJob{"single-pixel", 64 * len(pixVals) * len(bgVals), func(i int, b *lj.BlockU8) {
		p := i % 64
		i /= 64
		pv := pixVals[i%len(pixVals)]
		bg := bgVals[i/len(pixVals)]
		for k := range b {
			b[k] = uint8(bg)
		}
		b[p] = uint8(pv)
	}})
	// checkerboards of period 1, 2, 4 (cells of 1, 2, 4 pixels), every pair of levels, both orientations of stripes too
	jobs = append(jobs, dctJob{"checkerboard", 3 * 3 * 65536, func(i int, b *lj.BlockU8) {
		a, c := uint8(i>>8), uint8(i)
		i >>= 16
		period := []int{1, 2, 4}[i%3]
		mode := i / 3 // 0 checker, 1 vertical stripes, 2 horizontal stripes
		for y := 0; y < 8; y++ {
			for x := 0; x < 8; x++ {
				var t int
				switch mode {
				case 0:
					t = x/period + y/period
				case 1:
					t = x / period
				default:
					t = y / period
				}
				if t%2 == 0 {
					b[8*y+x] = a
				} else {
					b[8*y+x] = c
				}
			}
		}
	}})
	return jobs
}

func runDCT(r *ev.Run, thorough bool) (total dctStats) {
	jobs := dctJobs(thorough)
	total.minDC = 1 << 20
	for _, job := range jobs {
		if r.Expired() {
			return
		}
		per := make([]dctStats, ev.Workers())
		for i := range per {
			per[i].minDC = 1 << 20
		}
		const chunk = 1024
		nChunks := ceilDiv(job.n, chunk)
		ev.ParFor(nChunks, func(w, ci int) {
			if r.Expired() {
				return
			}
			st := &per[w]
			var b lj.BlockU8
			for i := ci * chunk; i < min(job.n, (ci+1)*chunk); i++ {
				job.build(i, &b)
				fs, _, _ := checkDCT(&b, st)
				st.evals++
				for k := 1; k < 64; k++ {
					if b[k] != b[0] {
						st.nonconstant++
						break
					}
				}
				for _, f := range fs {
					f, bb := f, b
					cands.offer(f.clause+":"+job.family, []int64{2, int64(i)}, func() (string, any) {
						return "BlockU8 of family " + job.family + ": " + f.detail, dctCase{"dct", job.family, bb}
					})
				}
			}
		})
		cands.flush(r)
		var fam dctStats
		fam.minDC = 1 << 20
		for _, s := range per {
			for _, t := range []*dctStats{&fam, &total} {
				t.evals += s.evals
				t.nonconstant += s.nonconstant
				t.maxErr = max(t.maxErr, s.maxErr)
				t.maxAbsAC = max(t.maxAbsAC, s.maxAbsAC)
				t.maxDC = max(t.maxDC, s.maxDC)
				t.minDC = min(t.minDC, s.minDC)
				for k := range t.errHist {
					t.errHist[k] += s.errHist[k]
				}
			}
		}
		r.Add("dct_blocks_"+job.family, fam.evals)
		r.HistAdd("dct_max_roundtrip_error_by_family", fmt.Sprintf("%s:max|error|=%d", job.family, fam.maxErr), fam.evals)
	}
	return total
}
