// Validation of the oracle itself (harness errors, never violations):
//
//  1. the independent reader is run on files written by Go's image/jpeg
//     encoder (a third implementation, gray and 4:2:0, several qualities and
//     sizes); its coefficients, de-quantised and put through a float IDCT, must
//     reproduce the planes image/jpeg decodes from the same file;
//  2. the reader must reject files damaged in the ways the property cares about
//     (missing stuffing byte, missing EOI, trailing bytes, extra entropy bytes,
//     padding with 0-bits);
//  3. the nearest-integer predicate is compared with exact rational rounding
//     over its whole domain;
//  4. the generated zig-zag table is a permutation matching Figure A.6.
package main

import (
	"bytes"
	"image"
	"image/color"
	"image/jpeg"
	"math"
	"math/big"

	"verif/internal/ev"
)

func pattern(x, y, salt int) uint8 {
	v := x*x*3 + y*y*5 + x*y*7 + salt*31
	if (x/3+y/2+salt)%4 == 0 {
		v += 131 * (x ^ y)
	}
	if salt%3 == 2 && (x+y)%2 == 0 {
		return uint8(255 * ((x / 2) % 2))
	}
	return uint8(v)
}

// decodeAll decodes every block of a complete file with the reader.
func decodeAll(data []byte) (h *jpegHeader, blocks [][64]int32, comps []int, e *entropy, err *readErr) {
	h, err = parseHeader(data)
	if err != nil {
		return
	}
	slots, mcus := h.mcuLayout()
	e = &entropy{d: data, pos: h.scanOff}
	var st blockStats
	for m := int64(0); m < mcus; m++ {
		for _, ci := range slots {
			var out [64]int32
			if err = e.decodeBlock(h, &h.comps[ci], &out, &st); err != nil {
				return
			}
			blocks = append(blocks, out)
			comps = append(comps, ci)
		}
	}
	_, err = e.finish()
	return
}

func idctFloat(c *[64]int32, q *[64]uint16) (px [64]int) {
	for y := 0; y < 8; y++ {
		for x := 0; x < 8; x++ {
			s := 0.0
			for v := 0; v < 8; v++ {
				for u := 0; u < 8; u++ {
					cu, cv := 1.0, 1.0
					if u == 0 {
						cu = math.Sqrt2 / 2
					}
					if v == 0 {
						cv = math.Sqrt2 / 2
					}
					s += cu * cv * float64(c[8*v+u]) * float64(q[8*v+u]) *
						math.Cos(float64(2*x+1)*float64(u)*math.Pi/16) * math.Cos(float64(2*y+1)*float64(v)*math.Pi/16)
				}
			}
			p := int(math.Round(s/4)) + 128
			px[8*y+x] = min(255, max(0, p))
		}
	}
	return px
}

func selfCheck(r *ev.Run) {
	// 4. zig-zag
	want := []int{0, 1, 8, 16, 9, 2, 3, 10, 17, 24, 32, 25, 18, 11, 4, 5, 12, 19, 26, 33, 40, 48, 41, 34, 27, 20, 13, 6, 7, 14}
	seen := [64]bool{}
	for k, n := range zz {
		if seen[n] {
			ev.Fatal("zig-zag table is not a permutation")
		}
		seen[n] = true
		if k < len(want) && want[k] != n {
			ev.Fatal("zig-zag table differs from Figure A.6 at %d", k)
		}
	}
	if zz[63] != 63 || zz[62] != 62 || zz[61] != 55 || zz[35] != 56 {
		ev.Fatal("zig-zag table tail wrong")
	}

	// 3. nearest predicate against exact rationals
	var checked int64
	for q := int32(1); q <= 255; q++ {
		for a := int32(-1024); a <= 1023; a++ {
			// exact: floor(a/q + 1/2) and ceil(a/q - 1/2)
			lo := new(big.Int)
			lo.Div(big.NewInt(int64(2*a+q)), big.NewInt(int64(2*q))) // Euclidean == floor for positive divisor
			hiNeg := new(big.Int)
			hiNeg.Div(big.NewInt(int64(-2*a+q)), big.NewInt(int64(2*q)))
			hi := -hiNeg.Int64()
			for g := a/q - 3; g <= a/q+3; g++ {
				d := a - g*q
				if d < 0 {
					d = -d
				}
				pred := 2*d <= q
				exact := int64(g) == lo.Int64() || int64(g) == hi
				if pred != exact {
					ev.Fatal("nearest predicate wrong for %d/%d candidate %d", a, q, g)
				}
				checked++
			}
		}
	}
	r.Add("selfcheck_nearest_predicate_cases", checked)

	// 1. reader against image/jpeg's encoder + decoder
	var files, blocksChecked int64
	var stuffedSample []byte
	var graySamples [][]byte
	for _, sz := range [][2]int{{1, 1}, {7, 9}, {8, 8}, {16, 16}, {17, 33}, {40, 24}, {64, 48}} {
		for _, quality := range []int{1, 30, 75, 100} {
			for salt := 0; salt < 3; salt++ {
				for _, colour := range []bool{false, true} {
					w, h := sz[0], sz[1]
					var src image.Image
					if colour {
						m := image.NewRGBA(image.Rect(0, 0, w, h))
						for y := 0; y < h; y++ {
							for x := 0; x < w; x++ {
								m.SetRGBA(x, y, color.RGBA{pattern(x, y, salt), pattern(y, x, salt+1), pattern(x+y, y, salt+2), 255})
							}
						}
						src = m
					} else {
						m := image.NewGray(image.Rect(0, 0, w, h))
						for y := 0; y < h; y++ {
							for x := 0; x < w; x++ {
								m.SetGray(x, y, color.Gray{pattern(x, y, salt)})
							}
						}
						src = m
					}
					var buf bytes.Buffer
					if err := jpeg.Encode(&buf, src, &jpeg.Options{Quality: quality}); err != nil {
						ev.Fatal("selfcheck: jpeg.Encode: %v", err)
					}
					data := buf.Bytes()
					hd, blocks, comps, ent, err := decodeAll(data)
					if err != nil {
						ev.Fatal("selfcheck: the reader rejects an image/jpeg file (%dx%d q=%d colour=%v): %v", w, h, quality, colour, err)
					}
					if hd.w != w || hd.h != h {
						ev.Fatal("selfcheck: reader dimensions")
					}
					if !colour {
						graySamples = append(graySamples, append([]byte(nil), data...))
					}
					if ent.stuffed > 0 && !colour && stuffedSample == nil && quality == 100 {
						stuffedSample = append([]byte(nil), data...)
					}
					dec, derr := jpeg.Decode(bytes.NewReader(data))
					if derr != nil {
						ev.Fatal("selfcheck: jpeg.Decode: %v", derr)
					}
					// walk blocks in MCU order, compare planes
					slots, _ := hd.mcuLayout()
					mcux := ceilDiv(w, 8*hd.hmax)
					if len(hd.scanComps) == 1 {
						mcux = ceilDiv(w, 8)
					}
					sumAbs, nPix := 0.0, 0
					for bi := range blocks {
						mcu := bi / len(slots)
						slot := bi % len(slots)
						ci := comps[bi]
						c := hd.comps[ci]
						// index of this block within its component inside the MCU
						within := 0
						for s := 0; s < slot; s++ {
							if slots[s] == ci {
								within++
							}
						}
						hh, vv := c.h, c.v
						if len(hd.scanComps) == 1 {
							hh, vv = 1, 1
						}
						bx := (mcu%mcux)*hh + within%hh
						by := (mcu/mcux)*vv + within/hh
						px := idctFloat(&blocks[bi], &hd.qt[c.tq])
						for y := 0; y < 8; y++ {
							for x := 0; x < 8; x++ {
								X, Y := bx*8+x, by*8+y
								var got int
								switch m := dec.(type) {
								case *image.Gray:
									if X >= w || Y >= h {
										continue
									}
									got = int(m.Pix[m.PixOffset(X, Y)])
								case *image.YCbCr:
									if ci == 0 {
										if X >= w || Y >= h {
											continue
										}
										got = int(m.Y[m.YOffset(X, Y)])
									} else {
										if X >= (w+1)/2 || Y >= (h+1)/2 {
											continue
										}
										off := m.COffset(2*X, 2*Y)
										if ci == 1 {
											got = int(m.Cb[off])
										} else {
											got = int(m.Cr[off])
										}
									}
								default:
									ev.Fatal("selfcheck: unexpected image type %T", dec)
								}
								d := math.Abs(float64(got - px[8*y+x]))
								if d > 2 {
									ev.Fatal("selfcheck: reader + float IDCT disagrees with image/jpeg at component %d (%d,%d) of %dx%d q=%d: %d vs %d", ci, X, Y, w, h, quality, px[8*y+x], got)
								}
								sumAbs += d
								nPix++
							}
						}
						blocksChecked++
					}
					if nPix >= 64 && sumAbs/float64(nPix) > 0.5 {
						ev.Fatal("selfcheck: mean plane difference %.3f", sumAbs/float64(nPix))
					}
					files++
				}
			}
		}
	}
	r.Add("selfcheck_stdlib_encoded_files_read", files)
	r.Add("selfcheck_stdlib_blocks_compared", blocksChecked)

	// 2. the reader must reject damaged files
	if stuffedSample == nil {
		ev.Fatal("selfcheck: no image/jpeg sample with a stuffed byte")
	}
	d := stuffedSample
	expect := func(name string, data []byte, classes ...string) {
		_, _, _, _, err := decodeAll(data)
		if err == nil {
			ev.Fatal("selfcheck: reader accepts a file with %s", name)
		}
		for _, c := range classes {
			if err.Class == c {
				return
			}
		}
		if len(classes) > 0 {
			ev.Fatal("selfcheck: reader reports %q for a file with %s", err.Class, name)
		}
	}
	hd, _ := parseHeader(d)
	// remove the last stuffing byte of the scan
	last := -1
	for i := hd.scanOff; i+1 < len(d)-2; i++ {
		if d[i] == 0xFF && d[i+1] == 0x00 {
			last = i
		}
	}
	unstuffed := append(append([]byte(nil), d[:last+1]...), d[last+2:]...)
	expect("a missing stuffing byte", unstuffed)
	expect("no EOI", d[:len(d)-2], "end-no-eoi", "scan-premature-end")
	expect("a byte after EOI", append(append([]byte(nil), d...), 0), "end-trailing-bytes")
	extra := append(append([]byte(nil), d[:len(d)-2]...), 0x12, 0xFF, 0xD9)
	expect("an extra entropy byte before EOI", extra, "end-extra-entropy-bytes")
	trunc := append(append([]byte(nil), d[:len(d)-12]...), 0xFF, 0xD9)
	expect("a truncated scan", trunc)
	// padding with 0-bits: take a sample whose last data byte holds padding
	neg := int64(5)
	for _, smp := range graySamples {
		h2, _ := parseHeader(smp)
		slots, mcus := h2.mcuLayout()
		e := &entropy{d: smp, pos: h2.scanOff}
		var st blockStats
		var out [64]int32
		for m := int64(0); m < mcus; m++ {
			for _, ci := range slots {
				e.decodeBlock(h2, &h2.comps[ci], &out, &st)
			}
		}
		i := len(smp) - 3
		if e.n > 0 && smp[i] != 0x00 {
			z := append([]byte(nil), smp...)
			z[i] &^= 1
			expect("0-bit padding", z, "end-pad-bits-not-ones")
			neg++
			break
		}
	}
	if neg != 6 {
		ev.Fatal("selfcheck: no sample with padding bits")
	}
	r.Add("selfcheck_negative_cases", neg)
}
