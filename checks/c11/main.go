// C11: the toolchain never crashes or hangs, whatever source text it is given;
// accepted programs give C that the C compiler accepts.
//
// Bounded-exhaustive exploration of source texts (see spaces.go):
//
//	(a) every token string up to a length bound over a 40-token alphabet, in 7
//	    syntactic contexts;
//	(b) every 1-deviation token / line / bracket-group mutation of every
//	    top-level declaration of every .wuffs file in the tree (std, hello-wuffs-c);
//	(c) every short byte string over all 256 values and over a 12-byte alphabet,
//	    and nesting / size probes n = 10..10^5 (a few deeper);
//	(d) families of small accepted programs (progs.go, families.go: a signature
//	    x body grid, loop labels and jumps, status strings, names that the
//	    generated C also uses, field sections x field types, return types)
//	    through the freshly built `wuffs-c gen` and `gcc -fsyntax-only`
//	    (rungen.go); an accepted program for which no C is emitted is a
//	    violation too.
//
// Oracle: token.Tokenize, parse.Parse, render.Render, check.Check (and wuffs-c
// gen) return a value or an ordinary error: no panic (recover), no fatal exit
// and no stall (worker sub-processes with a memory-mapped journal naming the
// current input; ev.Watch with a stall of 60 s), Render's output within a
// deterministic bound, and gcc accepts the C of every accepted program. An
// error is never a violation.
package main

import (
	"bufio"
	"encoding/json"
	"fmt"
	"io"
	"os"
	"os/exec"
	"path/filepath"
	"regexp"
	"runtime"
	"sort"
	"strings"
	"sync"
	"sync/atomic"
	"time"

	"verif/internal/ev"
)

type finding struct {
	sig, what string
	witness   map[string]any
	order     int64 // for a deterministic choice of witness
}

type coordinator struct {
	r     *ev.Run
	e     *env
	units []*unit
	order []int // scheduling order
	next  int
	heavy int
	mu    sync.Mutex

	journal *journal
	jpath   string

	findings  map[string]*finding
	classes   map[string]int64
	evals     int64
	inputs    int64
	reached   [5]int64
	parsedOK  int64
	accepted  int64
	done      int
	abandoned int
	restarts  int
	baseOK    int
	baseBad   int
	byKind    map[string]int64
	cpuKind   map[string]int64
	doneKind  map[string]int64
	samples   map[string]string
	slowest   []string
	stopAt    time.Time

	progAccepted []bool
	progUnits    int64
	progReady    chan struct{}
	progOnce     sync.Once
}

func (c *coordinator) addFinding(sig, what string, order int64, w map[string]any) {
	c.mu.Lock()
	defer c.mu.Unlock()
	if f, ok := c.findings[sig]; ok && f.order <= order {
		return
	}
	c.findings[sig] = &finding{sig, what, w, order}
}

// take hands out the next unit; heavy units are limited to 4 in flight.
func (c *coordinator) take() (int, bool) {
	c.mu.Lock()
	defer c.mu.Unlock()
	if time.Now().After(c.stopAt) {
		if c.next < len(c.order) {
			c.r.MarkCapped()
		}
		return 0, false
	}
	for k := c.next; k < len(c.order); k++ {
		ui := c.order[k]
		if ui < 0 {
			continue
		}
		if c.units[ui].heavy && c.heavy >= 5 {
			continue
		}
		c.order[k] = -1
		for c.next < len(c.order) && c.order[c.next] < 0 {
			c.next++
		}
		if c.units[ui].heavy {
			c.heavy++
		}
		return ui, true
	}
	return 0, false
}

func (c *coordinator) pending() bool {
	c.mu.Lock()
	defer c.mu.Unlock()
	return c.next < len(c.order) && !time.Now().After(c.stopAt)
}

func (c *coordinator) merge(u *unit, res *unitResult, complete bool) {
	c.mu.Lock()
	c.evals += res.Evals
	c.inputs += res.Inputs
	for i, v := range res.Reached {
		c.reached[i] += v
	}
	c.parsedOK += res.ParsedOK
	c.accepted += res.Accepted
	for k, v := range res.Classes {
		c.classes[k] += v
	}
	c.byKind[u.kind] += res.Evals
	c.cpuKind[u.kind] += res.CPUMillis
	if complete {
		c.done++
		c.doneKind[u.kind]++
		if u.kind == "prog" && c.doneKind["prog"] == c.progUnits {
			c.progOnce.Do(func() { close(c.progReady) })
		}
	}
	if res.BaseOK == 1 {
		c.baseOK++
	} else if res.BaseOK == -1 {
		c.baseBad++
	}
	if res.Sample != "" {
		if _, ok := c.samples[u.kind]; !ok || u.label < c.samples[u.kind+"\x00label"] {
			c.samples[u.kind] = res.Sample
			c.samples[u.kind+"\x00label"] = u.label
		}
	}
	for _, i := range res.AcceptedIdx {
		c.progAccepted[i] = true
	}
	if res.MaxMillis >= 3000 {
		c.slowest = append(c.slowest, fmt.Sprintf("%6dms wall (unit cpu %dms) %s", res.MaxMillis, res.CPUMillis, u.label))
	}
	c.mu.Unlock()
	for _, cr := range res.Crashes {
		w := map[string]any{"kind": "source", "unit": u.label, "input": cr.Desc, "stage": cr.Stage, "with_context": cr.Ctx}
		if cr.Text != "" {
			w["source"] = cr.Text
		} else {
			w["regenerate"] = c.regenSpec(u)
		}
		c.addFinding(cr.Sig, cr.What+"; input: "+cr.Desc, int64(res.Unit)<<32|cr.Idx, w)
	}
}

func (c *coordinator) regenSpec(u *unit) map[string]any {
	switch u.kind {
	case "nest":
		return map[string]any{"unit_kind": u.kind, "pattern": nestPatterns[u.pattern].name, "depth": u.depth}
	case "seedpkg":
		return map[string]any{"unit_kind": u.kind, "package": c.e.pkgs[u.pkg].Dir}
	}
	return map[string]any{"unit_kind": u.kind, "label": u.label}
}

// regenerate the text of input (ui, idx, phase) for a witness.
func (c *coordinator) regenerate(ui int, idx int64, phase int64) (desc string, text []byte, withCtx bool) {
	u := c.units[ui]
	if u.kind == "seedpkg" {
		return "unmodified seed package " + c.e.pkgs[u.pkg].Dir, nil, false
	}
	var k int64 = -1
	u.enumerate(c.e, func(in *input) bool {
		k++
		if k == idx {
			desc = in.desc()
			text = append([]byte(nil), in.text...)
			if phase == 1 && in.ctx != nil {
				text = joinUnit(in.text, in.ctx)
				withCtx = true
			}
			return false
		}
		return true
	})
	return
}

var reFatal = regexp.MustCompile(`(?m)^(fatal error: .*|panic: .*|runtime: goroutine stack exceeds.*|runtime: out of memory.*|signal: .*)$`)

func classifyDeath(stderr string, waitErr error) (msg, where string) {
	msg = "abnormal exit"
	if m := reFatal.FindAllString(stderr, -1); len(m) > 0 {
		msg = m[0]
		for _, x := range m {
			if strings.HasPrefix(x, "fatal error: ") {
				msg = x
				break
			}
		}
	} else if waitErr != nil {
		msg = waitErr.Error()
	}
	msg = reHex.ReplaceAllString(msg, "H")
	msg = reDigits.ReplaceAllString(msg, "N")
	where = topWuffsFrame(stderr, "")
	return
}

type tailBuf struct {
	mu sync.Mutex
	b  []byte
}

func (t *tailBuf) Write(p []byte) (int, error) {
	t.mu.Lock()
	if len(t.b) < 64<<10 { // keep the head: the fatal message and the top frames come first
		t.b = append(t.b, p...)
	}
	t.mu.Unlock()
	return len(p), nil
}

type proc struct {
	cmd    *exec.Cmd
	in     io.WriteCloser
	out    *bufio.Reader
	stderr *tailBuf
}

func (c *coordinator) spawn(slot, nslots int) *proc {
	exe, _ := os.Executable()
	cmd := exec.Command(exe, "worker", c.e.tier, c.jpath, fmt.Sprint(slot), fmt.Sprint(nslots))
	cmd.Env = append(os.Environ(), "GOMAXPROCS=2")
	in, _ := cmd.StdinPipe()
	out, _ := cmd.StdoutPipe()
	tb := &tailBuf{}
	cmd.Stderr = tb
	if err := cmd.Start(); err != nil {
		ev.Fatal("cannot start worker: %v", err)
	}
	return &proc{cmd, in, bufio.NewReaderSize(out, 1<<20), tb}
}

func (c *coordinator) runSlot(slot, nslots int) {
	p := c.spawn(slot, nslots)
	defer func() {
		p.in.Close()
		p.cmd.Wait()
	}()
	cells := c.journal.slot(slot)
	for {
		ui, ok := c.take()
		if !ok {
			if c.pending() { // only heavy units left and 4 are in flight
				time.Sleep(200 * time.Millisecond)
				continue
			}
			return
		}
		u := c.units[ui]
		resume := int64(0)
		restarts := 0
		for {
			atomic.StoreInt64(&cells[0], -1)
			fmt.Fprintf(p.in, "%d %d\n", ui, resume)
			var res, hang *unitResult
			for {
				line, err := p.out.ReadBytes('\n')
				if err != nil {
					break
				}
				var x unitResult
				if json.Unmarshal(line, &x) != nil {
					continue
				}
				if x.Hang {
					hang = &x
					continue
				}
				res = &x
				break
			}
			if res != nil {
				c.merge(u, res, true)
				break
			}
			// the worker died
			waitErr := p.cmd.Wait()
			idx := atomic.LoadInt64(&cells[1])
			stage := atomic.LoadInt64(&cells[2])
			phase := atomic.LoadInt64(&cells[3])
			junit := atomic.LoadInt64(&cells[0])
			stderr := string(p.stderr.b)
			if hang == nil && (junit != int64(ui) || stage <= stIdle || stage >= int64(len(stageName))) {
				ev.Fatal("worker for unit %q died outside an evaluation (journal unit=%d idx=%d stage=%d): %v\n%s",
					u.label, junit, idx, stage, waitErr, firstLines(stderr, 30))
			}
			if hang != nil {
				idx = hang.HangIdx
			}
			desc, text, withCtx := c.regenerate(ui, idx, phase)
			sname := "?"
			if stage > 0 && stage < int64(len(stageName)) {
				sname = stageName[stage]
			}
			w := map[string]any{"kind": "source", "unit": u.label, "input": desc, "stage": sname, "with_context": withCtx}
			if text != nil && len(text) <= 256<<10 {
				w["source"] = string(text)
			} else {
				w["regenerate"] = c.regenSpec(u)
			}
			if hang != nil {
				sig := fmt.Sprintf("hang:%s@%s", hang.HangStage, hang.HangWhere)
				w["stage"] = hang.HangStage
				c.addFinding(sig, fmt.Sprintf("%s does not return: %s (innermost wuffs frame %s); input: %s (%d bytes)",
					hang.HangStage, hang.HangWhy, hang.HangWhere, desc, len(text)), int64(ui)<<32|idx, w)
			} else {
				msg, where := classifyDeath(stderr, waitErr)
				sig := fmt.Sprintf("fatal:%s:%s@%s", sname, msg, where)
				w["stderr_head"] = firstLines(stderr, 12)
				c.addFinding(sig, fmt.Sprintf("the process running %s died: %s (innermost wuffs frame %s); input: %s (%d bytes)",
					sname, msg, where, desc, len(text)), int64(ui)<<32|idx, w)
			}
			c.mu.Lock()
			c.restarts++
			c.evals += idx - resume + 1
			c.mu.Unlock()
			restarts++
			p = c.spawn(slot, nslots)
			if restarts >= 6 {
				c.mu.Lock()
				c.abandoned++
				c.mu.Unlock()
				c.r.MarkCapped()
				break
			}
			resume = idx + 1
		}
		if u.heavy {
			c.mu.Lock()
			c.heavy--
			c.mu.Unlock()
		}
	}
}

func firstLines(s string, n int) string {
	l := strings.Split(s, "\n")
	if len(l) > n {
		l = l[:n]
	}
	return strings.Join(l, "\n")
}

func main() {
	if len(os.Args) > 1 && os.Args[1] == "worker" {
		workerMain(os.Args[2:])
		return
	}
	if len(os.Args) > 2 && os.Args[1] == "replay" {
		replay(os.Args[2])
		return
	}
	if len(os.Args) > 2 && os.Args[1] == "replay-child" {
		replayChild(os.Args[2])
		return
	}
	if len(os.Args) > 2 && os.Args[1] == "units" {
		e := buildEnv(os.Args[2])
		us := buildUnits(e)
		for i, u := range us {
			if len(os.Args) > 3 && !strings.Contains(u.label, os.Args[3]) {
				continue
			}
			fmt.Printf("%d\t%.0f\t%s\n", i, u.cost, u.label)
		}
		return
	}
	if len(os.Args) > 3 && os.Args[1] == "progs" {
		for i, s := range buildCands(os.Args[2] == "thorough") {
			os.WriteFile(filepath.Join(os.Args[3], pkgName(i)+".wuffs"), []byte("// "+s.desc+"\n"+s.text()), 0o644)
		}
		return
	}
	if len(os.Args) > 2 && os.Args[1] == "count" {
		e := buildEnv(os.Args[2])
		us := buildUnits(e)
		tot := map[string]int64{}
		bytesTot := map[string]int64{}
		nu := map[string]int{}
		for _, u := range us {
			if u.kind == "nest" || u.kind == "seedpkg" {
				tot[u.kind]++
				nu[u.kind]++
				continue
			}
			nu[u.kind]++
			u.enumerate(e, func(in *input) bool {
				tot[u.kind]++
				bytesTot[u.kind] += int64(len(in.text))
				return true
			})
		}
		for k, v := range tot {
			fmt.Printf("%-8s units=%d inputs=%d bytes=%d\n", k, nu[k], v, bytesTot[k])
		}
		return
	}
	if len(os.Args) > 3 && os.Args[1] == "rununit" {
		e := buildEnv(os.Args[2])
		us := buildUnits(e)
		var ui int
		fmt.Sscan(os.Args[3], &ui)
		u := us[ui]
		t0 := time.Now()
		n, n2, acc := 0, 0, 0
		var tp1, tp2 time.Duration
		u.enumerate(e, func(in *input) bool {
			n++
			a := time.Now()
			r := pipeline([]srcFile{{Name: "in.wuffs", Src: in.text}}, e.useRes, in.ctx != nil)
			tp1 += time.Since(a)
			if in.ctx != nil && r.ParsedOK {
				n2++
				a = time.Now()
				r = pipeline([]srcFile{{Name: "in.wuffs", Src: joinUnit(in.text, in.ctx)}}, e.useRes, false)
				tp2 += time.Since(a)
			}
			if r.Accepted {
				acc++
			}
			return true
		})
		fmt.Printf("%s: %d inputs, %d second-phase, %d accepted, %v total, phase1 %v, phase2 %v\n", u.label, n, n2, acc, time.Since(t0), tp1, tp2)
		return
	}
	if len(os.Args) > 2 && os.Args[1] == "try" {
		b, _ := os.ReadFile(os.Args[2])
		e := buildEnv("quick")
		t0 := time.Now()
		r := pipeline([]srcFile{{Name: "try.wuffs", Src: b}}, e.useRes, false)
		fmt.Printf("%v %+v\n", time.Since(t0), r)
		if os.Getenv("REP") != "" {
			t0 = time.Now()
			for i := 0; i < 100; i++ {
				pipeline([]srcFile{{Name: "try.wuffs", Src: b}}, e.useRes, false)
			}
			fmt.Printf("per run %v\n", time.Since(t0)/100)
			t0 = time.Now()
			for i := 0; i < 100; i++ {
				pipeline([]srcFile{{Name: "try.wuffs", Src: b}}, e.useRes, true)
			}
			fmt.Printf("per run without check %v\n", time.Since(t0)/100)
		}
		return
	}

	r := ev.Start("C11", "exploration")
	r.SetBudget(9*time.Minute, 55*time.Minute)
	scratch := os.Getenv("VERIF_SCRATCH")
	if scratch == "" {
		scratch = fmt.Sprintf("/dev/shm/verif-c11.%d", os.Getpid())
		os.MkdirAll(scratch, 0o755)
		defer os.RemoveAll(scratch)
	}

	e := buildEnv(r.Tier)
	units := buildUnits(e)
	c := &coordinator{r: r, e: e, units: units, findings: map[string]*finding{}, classes: map[string]int64{},
		byKind: map[string]int64{}, cpuKind: map[string]int64{}, doneKind: map[string]int64{}, samples: map[string]string{}}
	c.progAccepted = make([]bool, len(e.progs))
	c.order = make([]int, len(units))
	for i := range c.order {
		c.order[i] = i
	}
	// Scheduling order: candidate programs, the probes and the seed packages
	// first; then all other spaces interleaved so that each has progressed by the same
	// fraction (largest units first within a space) if the time budget cuts the run.
	{
		byKind := map[string][]int{}
		for i, u := range units {
			byKind[u.kind] = append(byKind[u.kind], i)
		}
		key := make([]float64, len(units))
		for k, l := range byKind {
			sort.SliceStable(l, func(a, b int) bool { return units[l[a]].cost > units[l[b]].cost })
			for j, i := range l {
				switch {
				case k == "prog":
					key[i] = -3
				case k == "nest":
					key[i] = -2 + float64(j)/float64(len(l)+1) // all probes early, the long ones first
				case k == "seedpkg":
					key[i] = -1
				default:
					key[i] = float64(j) / float64(len(l))
				}
			}
		}
		sort.SliceStable(c.order, func(a, b int) bool { return key[c.order[a]] < key[c.order[b]] })
	}
	phase1 := 170 * time.Second
	if r.Thorough() {
		phase1 = 30 * time.Minute
	}
	if s := os.Getenv("C11_PHASE1_S"); s != "" {
		var n int
		fmt.Sscan(s, &n)
		phase1 = time.Duration(n) * time.Second
	} else if s := os.Getenv("VERIF_BUDGET_S"); s != "" {
		var n int
		fmt.Sscan(s, &n)
		if d := time.Duration(n) * time.Second * 6 / 10; d < phase1 {
			phase1 = d
		}
	}
	c.stopAt = time.Now().Add(phase1)

	nslots := runtime.GOMAXPROCS(0)
	c.jpath = filepath.Join(scratch, "c11.journal")
	c.journal = openJournal(c.jpath, nslots, true)
	for i := range c.journal.cells {
		c.journal.cells[i] = -1
	}
	// (d) accepted programs -> wuffs-c gen -> gcc: starts as soon as the candidate
	// programs have been classified (those units are scheduled first) and runs
	// alongside the remaining source-text units.
	c.progReady = make(chan struct{})
	for _, u := range units {
		if u.kind == "prog" {
			c.progUnits++
		}
	}
	if c.progUnits == 0 {
		c.progOnce.Do(func() { close(c.progReady) })
	}
	pgCh := make(chan *progStats, 1)
	go func() {
		<-c.progReady
		pgCh <- runPrograms(r, scratch, c)
	}()
	var wg sync.WaitGroup
	for s := 0; s < nslots; s++ {
		wg.Add(1)
		go func(s int) {
			defer wg.Done()
			c.runSlot(s, nslots)
		}(s)
	}
	wg.Wait()
	fmt.Printf("C11: source-text phase done after %.0fs: %d/%d units, %d evaluations\n", time.Since(c.stopAt.Add(-phase1)).Seconds(), c.done, len(units), c.evals)

	c.progOnce.Do(func() { close(c.progReady) }) // in case the budget cut the candidate units short
	pg := <-pgCh

	// report
	var sigs []string
	for s := range c.findings {
		sigs = append(sigs, s)
	}
	sort.Strings(sigs)
	for _, s := range sigs {
		f := c.findings[s]
		r.Violation(f.sig, f.what, f.witness)
	}
	for k, v := range c.classes {
		r.HistAdd("outcome_class", k, v)
	}
	for i, v := range c.reached {
		if v > 0 {
			r.HistAdd("last_stage_entered", stageName[i], v)
		}
	}
	for k, v := range c.byKind {
		r.HistAdd("evaluations_by_space", k, v)
	}
	for k, v := range c.doneKind {
		r.HistAdd("units_completed_by_space", k, v)
	}
	for k, v := range c.cpuKind {
		r.HistAdd("worker_cpu_seconds_by_space", k, v/1000)
	}
	var kinds []string
	for k := range c.samples {
		if !strings.Contains(k, "\x00") {
			kinds = append(kinds, k)
		}
	}
	sort.Strings(kinds)
	for _, k := range kinds {
		r.Sample(c.samples[k])
	}
	for _, s := range pg.samples {
		r.Sample(s)
	}
	sort.Strings(c.slowest)
	if len(c.slowest) > 12 {
		c.slowest = c.slowest[len(c.slowest)-12:]
	}
	r.Add("source_texts_enumerated", c.inputs)
	r.Add("pipeline_evaluations", c.evals)
	r.Add("texts_tokenized_and_parsed", c.parsedOK)
	r.Add("texts_accepted_by_check", c.accepted)
	r.Add("units_total", int64(len(units)))
	r.Add("units_completed", int64(c.done))
	r.Add("units_abandoned_after_repeated_worker_deaths", int64(c.abandoned))
	r.Add("worker_restarts", int64(c.restarts))
	r.Add("decl_units_accepted_unmutated", int64(c.baseOK))
	r.Add("decl_units_rejected_unmutated", int64(c.baseBad))
	r.Add("seed_files", int64(countFiles(e.pkgs)))
	r.Add("seed_declarations", int64(len(e.decls)))
	r.Add("programs_generated", pg.generated)
	r.Add("programs_accepted", pg.accepted)
	r.Add("programs_c_generated", pg.genOK)
	r.Add("programs_gen_error_no_c_emitted", pg.genErr)
	r.Add("programs_gen_crashed", pg.genCrash)
	r.Add("program_packs", pg.packs)
	r.Add("programs_rerun_singly", pg.singleReruns)
	r.Add("pack_attribution_disagreements", pg.packDisagreements)
	r.Add("programs_gcc_accepted", pg.gccOK)
	r.Add("programs_gcc_rejected", pg.gccBad)
	r.Add("gcc_runs", pg.gccRuns)

	exhaustive := c.done == len(units) && pg.complete
	distinct := int64(len(c.classes))
	r.Finish(ev.Coverage{
		Evaluations:        c.evals + pg.genRuns + pg.gccChecked,
		DistinctNontrivial: distinct,
		Rule: "number of distinct outcome classes observed, a class being the last stage entered plus the error text with quoted fragments, numbers and " +
			"non-vocabulary words abstracted (or 'accepted'); evaluations = runs of the tokenize/parse/render/check pipeline on one source text, plus wuffs-c gen runs, plus programs checked by gcc",
		Exhaustive: exhaustive,
		Explanation: fmt.Sprintf("%d of %d units completed (token strings, byte strings, nesting probes, declaration mutations%s); %d generated programs, %d accepted, all accepted ones through wuffs-c gen and gcc -fsyntax-only",
			c.done, len(units), map[bool]string{true: ", whole-file line mutations", false: ""}[r.Thorough()], pg.generated, pg.accepted),
		Extra: map[string]any{
			"slowest_single_evaluations": c.slowest,
			"mutation_stride":            e.stride,
			"token_alphabet_size":        40,
			"mutation_alphabet_size":     len(mutAlphabet),
			"gcc_diagnostic_classes":     pg.diagClasses,
			"program_feature_histogram":  pg.features,
		},
	}, []string{
		"Render is only called on token streams that parse (as cmd/wuffsfmt does); Check only on files that parse (as lang/generate does).",
		"`use` declarations are resolved from summaries of the seed packages computed by a port of cmd/wuffs genWuffs.",
		"A declaration's mutants are checked against a reduced rest-of-package (other function bodies emptied, unused consts dropped); each reduced unit is validated to be accepted unmutated.",
		"Termination: an evaluation that has consumed 60 s of CPU time (900 s for the n >= 10^4 probes), or 900 s of wall-clock, is declared non-terminating; single evaluations normally take microseconds to a few seconds of CPU.",
		"Stack overflow is judged with the Go runtime's default 1 GB goroutine stack limit.",
		"In the quick tier the replace/insert mutations use every 12th (position+token) combination of the mutation alphabet; the thorough tier uses all.",
		"gcc " + pg.gccVersion + " -fsyntax-only -Wall -Werror=implicit with the freshly generated base code.",
	})
}

func countFiles(pkgs []seedPkg) int {
	n := 0
	for _, p := range pkgs {
		n += len(p.Files)
	}
	return n
}
