package main

// wuffs-c gen and gcc for the accepted candidate programs.

import (
	"bytes"
	"fmt"
	"os"
	"path/filepath"
	"regexp"
	"sort"
	"strings"
	"sync"
	"time"

	"verif/internal/ev"
	"verif/internal/wgen"
)

const packSize = 16

// job is one package handed to wuffs-c gen and gcc: a single program, or a
// pack of methods (m0, m1, ...) that share a header.
type job struct {
	name    string
	text    string
	members []int // indices into env.progs
	pack    bool
	genOK   bool
}

type hit struct {
	member int // index into job.members; -1: an error that is not inside one member's function
	class  string
	line   string
}

var reInFunction = regexp.MustCompile(`: In function '([^']+)':`)
var reMemberFunc = regexp.MustCompile(`__foo__m(\d+)$`)

type progRunner struct {
	r   *ev.Run
	c   *coordinator
	e   *env
	st  *progStats
	wc  string
	dir string
	mu  sync.Mutex
}

func (pr *progRunner) single(i int) *job {
	return &job{name: pkgName(i), text: pr.e.progs[i].text(), members: []int{i}}
}

// genJobs runs wuffs-c gen on every job. A single program for which no C is
// emitted is a violation (a crash, or an error message: the program was
// accepted); a failing pack is only marked, its members are re-run singly.
func (pr *progRunner) genJobs(jobs []*job) {
	ev.ParFor(len(jobs), func(_, k int) {
		if pr.r.Expired() {
			return
		}
		j := jobs[k]
		src := filepath.Join(pr.dir, j.name+".wuffs")
		os.WriteFile(src, []byte(j.text), 0o644)
		out, serr, err, timedOut := runCmd(3*time.Minute, pr.dir, nil, pr.wc, "gen", "-package_name", j.name, src)
		pr.mu.Lock()
		defer pr.mu.Unlock()
		pr.st.genRuns++
		if err == nil && !timedOut {
			j.genOK = true
			os.WriteFile(filepath.Join(pr.dir, j.name+".c"), out, 0o644)
			if !j.pack {
				pr.st.genOK++
			}
			return
		}
		if j.pack {
			return
		}
		i := j.members[0]
		cd := pr.e.progs[i]
		w := map[string]any{"kind": "program", "program": cd.desc, "source": cd.text(), "package_name": j.name}
		es := string(serr)
		switch {
		case timedOut:
			pr.c.addFinding("hang:gen@wuffs-c", "wuffs-c gen did not finish within 180 s on an accepted program: "+cd.desc, int64(i), w)
		case strings.Contains(es, "panic: ") || strings.Contains(es, "fatal error: ") || strings.Contains(es, "goroutine "):
			msg, where := classifyDeath(es, err)
			w["stderr_head"] = firstLines(es, 14)
			pr.st.genCrash++
			pr.st.diagClasses["gen crash: "+msg+"@"+where+" ("+cd.shape+")"]++
			pr.c.addFinding(fmt.Sprintf("gen:%s@%s", msg, where),
				fmt.Sprintf("wuffs-c gen crashed on a program that check.Check accepts: %s (innermost wuffs frame %s); program: %s", msg, where, cd.desc), int64(i), w)
		default:
			// The generator answers with an error message: no C is emitted for a
			// program that was accepted.
			first := strings.TrimSpace(firstLines(es, 1))
			cls := strings.TrimPrefix(classOf("gen", fmt.Errorf("%s", first)), "gen: ")
			pr.st.genErr++
			pr.st.diagClasses["gen error (no C emitted): "+cls+" ("+cd.shape+")"]++
			w["stderr_head"] = firstLines(es, 4)
			pr.c.addFinding("gen-error:"+cls,
				fmt.Sprintf("wuffs-c gen emits no C for a program that check.Check accepts, it exits with %q; program: %s", first, cd.desc), int64(i), w)
		}
	})
}

// compileJobs runs gcc over the jobs in batches and returns, per failing job,
// the errors attributed to it (first error per member).
func (pr *progRunner) compileJobs(jobs []*job, tag string) map[*job][]hit {
	res := map[*job][]hit{}
	const batch = 32
	var batches [][]*job
	for a := 0; a < len(jobs); a += batch {
		b := a + batch
		if b > len(jobs) {
			b = len(jobs)
		}
		batches = append(batches, jobs[a:b])
	}
	ev.ParFor(len(batches), func(_, bi int) {
		if pr.r.Expired() {
			return
		}
		local := map[*job][]hit{}
		var work func(js []*job, t string)
		work = func(js []*job, t string) {
			if len(js) == 0 {
				return
			}
			names := make([]string, len(js))
			byFile := map[string]*job{}
			for k, j := range js {
				names[k] = j.name
				byFile[j.name+".c"] = j
			}
			ok, diag := compileBatch(pr.dir, fmt.Sprintf("%s%d%s", tag, bi, t), names, nil)
			pr.mu.Lock()
			pr.st.gccRuns++
			pr.mu.Unlock()
			if ok {
				return
			}
			// Attribute every error to a job by the file it is reported in or, when
			// that is the base code (an error inside a macro expansion), by the most
			// recent line that names a job's file; and within a pack to the member
			// whose function gcc says it is in.
			found := map[*job][]hit{}
			seen := map[*job]map[int]bool{}
			var cur *job
			curFunc := ""
			for _, ln := range strings.Split(diag, "\n") {
				var own *job
				if k := strings.Index(ln, ".c:"); k > 0 {
					if j, ok := byFile[filepath.Base(ln[:k+2])]; ok {
						own = j
						if cur != j {
							curFunc = ""
						}
						cur = j
					}
				}
				if m := reInFunction.FindStringSubmatch(ln); m != nil && own != nil {
					curFunc = m[1]
				} else if own != nil && strings.Contains(ln, ": At top level:") {
					curFunc = ""
				}
				m := reGccDiag.FindStringSubmatch(ln)
				if m == nil {
					continue
				}
				who := own
				if who == nil {
					who = cur
				}
				if who == nil {
					continue
				}
				member := 0
				if who.pack {
					member = -1
					if fm := reMemberFunc.FindStringSubmatch(curFunc); fm != nil {
						var k int
						fmt.Sscan(fm[1], &k)
						if k < len(who.members) {
							member = k
						}
					}
				}
				if seen[who] == nil {
					seen[who] = map[int]bool{}
				}
				if !seen[who][member] {
					seen[who][member] = true
					found[who] = append(found[who], hit{member, gccClass(m[5]), m[0]})
				}
			}
			if len(js) == 1 {
				h := found[js[0]]
				if len(h) == 0 {
					h = []hit{{-1, "gcc failed without a diagnostic in the program's file", firstLines(diag, 6)}}
					if !js[0].pack {
						h[0].member = 0
					}
				}
				local[js[0]] = h
				return
			}
			if len(found) == 0 || len(t) > 24 {
				work(js[:len(js)/2], t+"a")
				work(js[len(js)/2:], t+"b")
				return
			}
			var rest []*job
			for _, j := range js {
				if h, bad := found[j]; bad {
					local[j] = h
				} else {
					rest = append(rest, j)
				}
			}
			work(rest, t+"r")
		}
		work(batches[bi], "")
		pr.mu.Lock()
		for j, h := range local {
			res[j] = h
		}
		pr.mu.Unlock()
	})
	return res
}

func runPrograms(r *ev.Run, scratch string, c *coordinator) *progStats {
	st := &progStats{diagClasses: map[string]int64{}, features: map[string]int64{}}
	e := c.e
	st.generated = int64(len(e.progs))
	var accepted []int
	c.mu.Lock()
	for i, ok := range c.progAccepted {
		if ok {
			accepted = append(accepted, i)
		}
	}
	progUnitsDone := c.doneKind["prog"]
	c.mu.Unlock()
	sort.Ints(accepted)
	st.accepted = int64(len(accepted))
	for _, i := range accepted {
		st.features["accepted family "+e.progs[i].family]++
	}
	for _, cd := range e.progs {
		st.features["candidates family "+cd.family]++
	}
	if v, _, _, _ := runCmd(10*time.Second, "/", nil, "gcc", "-dumpfullversion"); len(v) > 0 {
		st.gccVersion = strings.TrimSpace(string(v))
	}

	binDir, err := wgen.BuildTools(scratch)
	if err != nil {
		ev.Fatal("building the tools: %v", err)
	}
	pr := &progRunner{r: r, c: c, e: e, st: st, wc: filepath.Join(binDir, "wuffs-c"), dir: filepath.Join(scratch, "progs")}
	os.MkdirAll(pr.dir, 0o755)
	base, berr, err, _ := runCmd(2*time.Minute, pr.dir, nil, pr.wc, "gen", "-package_name", "base")
	if err != nil {
		ev.Fatal("wuffs-c gen -package_name base: %v\n%s", err, berr)
	}
	os.WriteFile(filepath.Join(pr.dir, "wuffs-base.c"), base, 0o644)

	// the generated base code on its own (it holds generated interface methods too)
	{
		os.WriteFile(filepath.Join(pr.dir, "baseonly.c"), []byte("#define WUFFS_IMPLEMENTATION\n#include \"./wuffs-base.c\"\n"), 0o644)
		_, serr, err, _ := runCmd(10*time.Minute, pr.dir, []string{"LC_ALL=C"}, "gcc", append(append([]string{}, gccFlags...), filepath.Join(pr.dir, "baseonly.c"))...)
		st.gccRuns++
		st.gccChecked++
		if err != nil {
			cls, first := "gcc failed without a diagnostic", firstLines(string(serr), 6)
			if m := reGccDiag.FindStringSubmatch(string(serr)); m != nil {
				cls, first = gccClass(m[5]), m[0]
			}
			st.diagClasses["gcc: "+cls+" (base package)"]++
			c.addFinding("gcc:"+cls+":base-package", "gcc rejects the freshly generated base code (wuffs-c gen -package_name base): "+first, -1,
				map[string]any{"kind": "program", "program": "the base package", "package_name": "base", "gcc": first})
			return st
		}
	}

	// round 1: packs of methods that share a header, and single programs
	var jobs []*job
	byHeader := map[string][]int{}
	var headers []string
	for _, i := range accepted {
		cd := e.progs[i]
		if cd.pack && cd.method != "" {
			if _, ok := byHeader[cd.header]; !ok {
				headers = append(headers, cd.header)
			}
			byHeader[cd.header] = append(byHeader[cd.header], i)
		} else {
			jobs = append(jobs, pr.single(i))
		}
	}
	packNo := 0
	for _, h := range headers {
		ids := byHeader[h]
		for a := 0; a < len(ids); a += packSize {
			b := a + packSize
			if b > len(ids) {
				b = len(ids)
			}
			var t strings.Builder
			t.WriteString(h)
			for k, i := range ids[a:b] {
				t.WriteString(strings.ReplaceAll(e.progs[i].method, "MNAME", fmt.Sprintf("m%d", k)))
				t.WriteString("\n")
			}
			jobs = append(jobs, &job{name: fmt.Sprintf("q%05d", packNo), text: t.String(), members: ids[a:b], pack: true})
			packNo++
		}
	}
	st.packs = int64(packNo)
	pr.genJobs(jobs)

	var genOKJobs []*job
	for _, j := range jobs {
		if j.genOK {
			genOKJobs = append(genOKJobs, j)
		}
	}
	// self-check: gcc must see the implementation section of every package in a batch
	if len(genOKJobs) >= 2 {
		good, _ := os.ReadFile(filepath.Join(pr.dir, genOKJobs[1].name+".c"))
		bad := bytes.Replace(good, []byte("  if (!self) {"), []byte("  if (!self_canary_undeclared) {"), 1)
		if bytes.Equal(good, bad) {
			bad = append(append([]byte{}, good...), "\nint canary_fn(void) { return canary_undeclared; }\n"...)
		}
		os.WriteFile(filepath.Join(pr.dir, "canary.c"), bad, 0o644)
		okc, diag := compileBatch(pr.dir, "canarybatch", []string{genOKJobs[0].name, "canary"}, map[string]string{"canary": strings.ToUpper(genOKJobs[1].name)})
		if okc || !strings.Contains(diag, "canary") {
			ev.Fatal("gcc self-check: a deliberately broken second package in a batch was not rejected:\n%s", firstLines(diag, 10))
		}
	}

	// final verdict per program: "" = gcc accepts, else "class\x00diagnostic line"
	final := map[int]string{}
	decided := map[int]bool{}
	provisional := map[int]hit{}
	var todo []int // programs to (re-)run singly
	res := pr.compileJobs(genOKJobs, "batch")
	for _, j := range jobs {
		if !j.genOK {
			if j.pack {
				todo = append(todo, j.members...)
			} else {
				decided[j.members[0]] = true
				final[j.members[0]] = "\x01" // no C emitted: reported by genJobs
			}
			continue
		}
		hits := res[j]
		if !j.pack {
			i := j.members[0]
			decided[i] = true
			if len(hits) > 0 {
				final[i] = hits[0].class + "\x00" + hits[0].line
			}
			continue
		}
		whole := false
		for _, h := range hits {
			if h.member < 0 {
				whole = true
			}
		}
		if whole {
			todo = append(todo, j.members...)
			continue
		}
		for _, h := range hits {
			provisional[j.members[h.member]] = h
		}
		for _, i := range j.members {
			if _, bad := provisional[i]; !bad {
				decided[i] = true
			}
		}
	}
	// confirm the two lowest-numbered programs of every provisional signature on
	// their own; if a confirmation disagrees, every program of that signature is re-run singly
	bySig := map[string][]int{}
	for i, h := range provisional {
		k := h.class + ":" + e.progs[i].shape
		bySig[k] = append(bySig[k], i)
	}
	confirm := map[int]string{}
	for k, l := range bySig {
		sort.Ints(l)
		for n, i := range l {
			if n < 2 {
				confirm[i] = k
				todo = append(todo, i)
			}
		}
	}
	for round := 0; len(todo) > 0 && round < 4 && !r.Expired(); round++ {
		sort.Ints(todo)
		var sj []*job
		for n, i := range todo {
			if n > 0 && todo[n-1] == i {
				continue
			}
			sj = append(sj, pr.single(i))
		}
		st.singleReruns += int64(len(sj))
		todo = nil
		pr.genJobs(sj)
		var okj []*job
		distrust := map[string]bool{}
		for _, j := range sj {
			if j.genOK {
				okj = append(okj, j)
			} else {
				i := j.members[0]
				decided[i] = true
				final[i] = "\x01" // no C emitted: reported by genJobs
				if k, ok := confirm[i]; ok {
					distrust[k] = true
					st.packDisagreements++
					delete(provisional, i)
				}
			}
		}
		rs := pr.compileJobs(okj, fmt.Sprintf("single%d_", round))
		for _, j := range okj {
			i := j.members[0]
			decided[i] = true
			delete(final, i)
			if h := rs[j]; len(h) > 0 {
				final[i] = h[0].class + "\x00" + h[0].line
			}
			if k, ok := confirm[i]; ok {
				got := ""
				if h := rs[j]; len(h) > 0 {
					got = h[0].class + ":" + e.progs[i].shape
				}
				if got != k {
					distrust[k] = true
					st.packDisagreements++
				}
				delete(provisional, i)
			}
		}
		for k := range distrust {
			for _, i := range bySig[k] {
				if _, still := provisional[i]; still {
					delete(provisional, i)
					todo = append(todo, i)
				}
			}
		}
	}
	for i, h := range provisional {
		decided[i] = true
		final[i] = h.class + "\x00" + h.line + " (reported inside a pack of methods; the two lowest-numbered programs of this signature were confirmed on their own)"
	}

	okSamples := []int{}
	nDecided := 0
	for _, i := range accepted {
		if !decided[i] {
			continue
		}
		nDecided++
		cd := e.progs[i]
		d := final[i]
		if d == "\x01" {
			continue
		}
		st.gccChecked++
		if d == "" {
			st.gccOK++
			st.features["gcc-ok "+cd.feature]++
			if len(okSamples) < 2 || (cd.family != "grid" && len(okSamples) < 4) {
				okSamples = append(okSamples, i)
			}
			continue
		}
		st.gccBad++
		parts := strings.SplitN(d, "\x00", 2)
		st.diagClasses["gcc: "+parts[0]+" ("+cd.shape+")"]++
		st.features["gcc-rejected "+cd.feature]++
		w := map[string]any{"kind": "program", "program": cd.desc, "source": cd.text(), "package_name": pkgName(i), "gcc": parts[1]}
		c.addFinding("gcc:"+parts[0]+":"+cd.shape, fmt.Sprintf("gcc rejects the C generated for a program that check.Check accepts: %s; program: %s",
			strings.TrimSpace(parts[1]), cd.desc), int64(i), w)
	}
	st.complete = nDecided == len(accepted) && !r.Expired() && progUnitsDone == int64((len(e.progs)+progChunk-1)/progChunk)
	for _, i := range okSamples {
		st.samples = append(st.samples, "program accepted, C generated, gcc accepts: "+e.progs[i].desc)
	}
	return st
}
