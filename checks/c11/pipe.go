package main

// The pipeline under test, driven exactly as cmd/wuffsfmt and cmd/wuffs-c
// (lang/generate) drive it:
//
//	wuffsfmt : token.Tokenize -> parse.Parse(AllowDoubleUnderscoreNames) -> render.Render
//	wuffs-c  : token.Tokenize -> parse.Parse(nil) -> check.Check(resolveUse) -> cgen
//
// Every stage runs under recover(). A recovered panic is a violation; an
// error value never is. Unrecoverable failures (stack overflow, fatal
// errors, non-termination) are handled by the process structure in worker.go.

import (
	"fmt"
	"os"
	"path/filepath"
	"regexp"
	"runtime"
	"sort"
	"strings"
	"sync/atomic"

	"verif/internal/ev"

	a "github.com/google/wuffs/lang/ast"
	"github.com/google/wuffs/lang/check"
	"github.com/google/wuffs/lang/parse"
	"github.com/google/wuffs/lang/render"
	t "github.com/google/wuffs/lang/token"
)

const (
	stIdle     = 0
	stTokenize = 1
	stParse    = 2
	stRender   = 3
	stCheck    = 4
)

var stageName = [...]string{"idle", "tokenize", "parse", "render", "check"}

// curStage is where the journal's stage cell lives (worker.go points it into
// the shared mapping; in the coordinator and in replays it is a plain cell).
var curStage = new(int64)

func setStage(s int64) { atomic.StoreInt64(curStage, s) }

// srcFile is one file handed to the pipeline.
type srcFile struct {
	Name string
	Src  []byte
}

// crash describes a recovered panic.
type crash struct {
	Stage string
	Sig   string // root-cause signature
	What  string
}

// result of one pipeline evaluation.
type result struct {
	Reached  int    // last stage entered
	ParsedOK bool   // every file tokenized and parsed (generate.Do's options)
	Accepted bool   // Check returned nil
	Class    string // outcome class: "accepted" or "<stage>: <normalised error text>"
	Crashes  []crash
	Rendered int64 // bytes written by Render (-1: not run)
}

// countWriter discards but counts (Render takes an io.Writer; a nested source
// renders to O(lines x depth) bytes, which need not be kept).
type countWriter struct{ n int64 }

func (w *countWriter) Write(p []byte) (int, error) { w.n += int64(len(p)); return len(p), nil }

// runStage calls f under recover and converts a panic to a crash with the
// signature (stage, normalised panic message, top wuffs frame).
func runStage(stage int64, f func() error) (err error, cr *crash) {
	setStage(stage)
	defer func() {
		if v := recover(); v != nil {
			cr = describePanic(stageName[stage], v)
		}
	}()
	err = f()
	return err, nil
}

var reDigits = regexp.MustCompile(`[0-9]+`)
var reHex = regexp.MustCompile(`0x[0-9a-fA-F]+`)

func normPanic(v any) string {
	s := fmt.Sprint(v)
	if e, ok := v.(error); ok {
		s = e.Error()
	}
	s = reHex.ReplaceAllString(s, "H")
	s = reDigits.ReplaceAllString(s, "N")
	if len(s) > 120 {
		s = s[:120]
	}
	return s
}

// describePanic must be called from the deferred function that recovered.
// Signature: panic:<stage>:<normalised message>@<file:line of the top wuffs
// frame><-<function of the next wuffs frame> (the second frame separates
// different callers that hand a bad value to the same accessor).
func describePanic(stage string, v any) *crash {
	pcs := make([]uintptr, 64)
	n := runtime.Callers(2, pcs)
	frames := runtime.CallersFrames(pcs[:n])
	const mod = "github.com/google/wuffs/"
	top, caller := "?", ""
	var trace []string
	for {
		fr, more := frames.Next()
		if i := strings.Index(fr.Function, mod); i >= 0 {
			fn := fr.Function[i+len(mod):]
			short := fn[strings.LastIndex(fn, "/")+1:]
			file := fr.File
			if k := strings.LastIndex(file, "/lang/"); k >= 0 {
				file = file[k+1:]
			} else {
				file = strings.TrimPrefix(file, ev.Repo()+"/")
			}
			if top == "?" {
				top = fmt.Sprintf("%s:%d", file, fr.Line)
			} else if caller == "" {
				caller = short
			}
			if len(trace) < 6 {
				trace = append(trace, fmt.Sprintf("%s (%s:%d)", short, filepath.Base(fr.File), fr.Line))
			}
		}
		if !more {
			break
		}
	}
	msg := normPanic(v)
	return &crash{
		Stage: stage,
		Sig:   fmt.Sprintf("panic:%s:%s@%s<-%s", stage, msg, top, caller),
		What:  fmt.Sprintf("%s panics: %v; wuffs frames: %s", stage, v, strings.Join(trace, " <- ")),
	}
}

// useResolver serves `use "std/foo"` from summaries computed from the seeds
// (a port of cmd/wuffs genWuffs, which writes gen/wuffs/std/foo.wuffs).
type useResolver map[string][]byte

func (u useResolver) resolve(usePath string) ([]byte, error) {
	if b, ok := u[usePath]; ok {
		return b, nil
	}
	return nil, fmt.Errorf("open %s: no such file or directory", usePath)
}

// keepWords are left alone by classOf so that the error classes stay readable.
var keepWords = map[string]bool{}

func init() {
	for _, w := range strings.Fields(`token parse check render expected got at in for of the a an is not and or to from with within
 cannot invalid internal error unrecognized byte string literal identifier too long many lines distinct tokens
 implicit top level declaration const name value status message does start func method named double underscore used struct
 choosy function be pub coroutine cpu_arch public extra field type refine non numeric assertion chain contain only pre inv post
 order choose var statement function pure while iterate loop label duplicate matching unlabeled labeled yield followed by return
 impure expression suspension condition effect free assignment LHS assign value stronger than variable argument arg length advance
 unroll count larger has sub ful binary unary associative form no operator types mismatch bounds range overflow underflow
 recursion depth large missing incorrect unchecked node defined receiver args field default zero pointer containing allowed base
 interface implement implements resolve use recursive call prove index slice array table both already inconsistent element
 unreachable suspendible inside outside io_bind io_limit shift division constant legacy octal syntax control character final
 backslash multi needs be le suffix ideal number integer bool boolean than short long names as it its if else break continue
 convert Wuffs C resume suspend local TODO support typed variables`) {
		keepWords[w] = true
	}
}

// classOf abstracts an error text to a class: quoted fragments, numbers and
// all words that are not part of the fixed message vocabulary are replaced.
func classOf(stage string, err error) string {
	s := err.Error()
	if i := strings.Index(s, ". Facts:\n"); i >= 0 {
		s = s[:i]
	}
	out := make([]byte, 0, 128)
	out = append(out, stage...)
	out = append(out, ": "...)
	isAl := func(c byte) bool { return c == '_' || ('a' <= c && c <= 'z') || ('A' <= c && c <= 'Z') }
	isNum := func(c byte) bool { return '0' <= c && c <= '9' }
	for i := 0; i < len(s) && len(out) < 110; {
		c := s[i]
		switch {
		case c == '"' || c == '`' || (c == '\'' && (i == 0 || !isAl(s[i-1]))):
			j := i + 1
			for j < len(s) && s[j] != c {
				if s[j] == '\\' {
					j++
				}
				j++
			}
			out = append(out, 'Q')
			i = j + 1
		case isNum(c):
			for i < len(s) && (isNum(s[i]) || isAl(s[i])) {
				i++
			}
			out = append(out, 'N')
		case isAl(c):
			j := i
			for j < len(s) && (isAl(s[j]) || isNum(s[j])) {
				j++
			}
			if keepWords[s[i:j]] {
				out = append(out, s[i:j]...)
			} else {
				out = append(out, '_')
			}
			i = j
		case c < ' ' || c >= 0x7f:
			out = append(out, '?')
			i++
		default:
			out = append(out, c)
			i++
		}
	}
	return string(out)
}

// growthBound is the deterministic bound on Render's output: every input byte
// is copied at most a small constant number of times (numbers gain
// underscores, tokens gain a space), and every line gets at most
// 4*(open curlies + 2) bytes of indentation plus alignment padding bounded by
// the longest token.
func growthBound(srcLen, lines, comments, curlies int) int64 {
	return 64*int64(srcLen) + 64<<10 + int64(lines+comments+2)*int64(4*(curlies+3)+1024)
}

// pipeline evaluates the files as one package. useRes may be nil.
func pipeline(files []srcFile, useRes useResolver, noCheck bool) (res result) {
	res.Rendered = -1
	tm := &t.Map{}
	var asts []*a.File
	allParsed := true
	for _, f := range files {
		var tokens []t.Token
		var comments []string
		res.Reached = stTokenize
		err, cr := runStage(stTokenize, func() (e error) {
			// cap == len: a reused buffer with spare capacity would let the tokenizer slice
			// one byte past the end of the source without the out-of-range panic showing
			tokens, comments, e = t.Tokenize(tm, f.Name, f.Src[:len(f.Src):len(f.Src)])
			return e
		})
		if cr != nil {
			res.Crashes = append(res.Crashes, *cr)
			res.Class = "tokenize: PANIC"
			return res
		}
		if err != nil {
			res.Class = classOf("tokenize", err)
			return res
		}

		res.Reached = stParse
		var file *a.File
		err, cr = runStage(stParse, func() (e error) {
			file, e = parse.Parse(tm, f.Name, tokens, nil)
			return e
		})
		if cr != nil {
			res.Crashes = append(res.Crashes, *cr)
			res.Class = "parse: PANIC"
			return res
		}
		fmtOK := err == nil
		if err != nil && strings.Contains(err.Error(), "double-underscore") {
			// wuffsfmt parses with AllowDoubleUnderscoreNames.
			err2, cr2 := runStage(stParse, func() (e error) {
				_, e = parse.Parse(tm, f.Name, tokens, &parse.Options{AllowDoubleUnderscoreNames: true})
				return e
			})
			if cr2 != nil {
				res.Crashes = append(res.Crashes, *cr2)
				res.Class = "parse: PANIC"
				return res
			}
			fmtOK = err2 == nil
		}
		if fmtOK {
			// The formatter: only reached when the parse succeeded (cmd/wuffsfmt).
			if res.Reached < stRender {
				res.Reached = stRender
			}
			w := &countWriter{}
			rerr, cr := runStage(stRender, func() error { return render.Render(w, tm, tokens, comments) })
			if cr != nil {
				res.Crashes = append(res.Crashes, *cr)
			} else if rerr == nil {
				curlies := 0
				for _, tok := range tokens {
					if tok.ID == t.IDOpenCurly {
						curlies++
					}
				}
				lines := 1
				if len(tokens) > 0 {
					lines = int(tokens[len(tokens)-1].Line)
				}
				if w.n > growthBound(len(f.Src), lines, len(comments), curlies) {
					res.Crashes = append(res.Crashes, crash{Stage: "render", Sig: "growth:render:output exceeds the deterministic bound",
						What: fmt.Sprintf("render.Render wrote %d bytes for a %d-byte source (%d lines, %d open curlies); bound %d",
							w.n, len(f.Src), lines, curlies, growthBound(len(f.Src), lines, len(comments), curlies))})
				}
				res.Rendered += w.n + 1
			}
		}
		if err != nil {
			res.Class = classOf("parse", err)
			allParsed = false
			return res
		}
		asts = append(asts, file)
	}
	if !allParsed || len(asts) == 0 {
		if res.Class == "" {
			res.Class = "parse: no files"
		}
		return res
	}
	res.ParsedOK = true
	if noCheck {
		res.Class = "parsed"
		setStage(stIdle)
		return res
	}

	res.Reached = stCheck
	var ru func(string) ([]byte, error)
	if useRes != nil {
		ru = useRes.resolve
	} else {
		ru = useResolver(nil).resolve
	}
	err, cr := runStage(stCheck, func() (e error) {
		_, e = check.Check(tm, asts, ru)
		return e
	})
	setStage(stIdle)
	if cr != nil {
		res.Crashes = append(res.Crashes, *cr)
		res.Class = "check: PANIC"
		return res
	}
	if err != nil {
		res.Class = classOf("check", err)
		return res
	}
	res.Accepted = true
	res.Class = "accepted"
	return res
}

// ---- use summaries (port of cmd/wuffs/gen.go genWuffs) ----

func summarise(tm *t.Map, files []*a.File) []byte {
	out := &strings.Builder{}
	fmt.Fprintf(out, "// Code generated by running \"wuffs gen\". DO NOT EDIT.\n\n")
	for _, f := range files {
		for _, n := range f.TopLevelDecls() {
			switch n.Kind() {
			case a.KConst:
				n := n.AsConst()
				if !n.Public() {
					continue
				}
				fmt.Fprintf(out, "pub const %s : %s = %v\n", n.QID().Str(tm), n.XType().Str(tm), n.Value().Str(tm))
			case a.KFunc:
				n := n.AsFunc()
				if !n.Public() || n.Receiver().IsZero() {
					continue
				}
				fmt.Fprintf(out, "pub func %s.%s%v(", n.Receiver().Str(tm), n.FuncName().Str(tm), n.Effect())
				for i, field := range n.In().Fields() {
					field := field.AsField()
					if i > 0 {
						fmt.Fprintf(out, ", ")
					}
					fmt.Fprintf(out, "%s: %s", field.Name().Str(tm), field.XType().Str(tm))
				}
				fmt.Fprintf(out, ") ")
				if o := n.Out(); o != nil {
					fmt.Fprintf(out, "%s ", o.Str(tm))
				}
				fmt.Fprintf(out, "{ }\n")
			case a.KStatus:
				n := n.AsStatus()
				if !n.Public() {
					continue
				}
				fmt.Fprintf(out, "pub status %s\n", n.QID().Str(tm))
			case a.KStruct:
				n := n.AsStruct()
				if !n.Public() {
					continue
				}
				fmt.Fprintf(out, "pub struct %s", n.QID().Str(tm))
				if n.Classy() {
					fmt.Fprintf(out, "?")
				}
				if imps := n.Implements(); len(imps) > 0 {
					fmt.Fprintf(out, " implements ")
					for i, imp := range imps {
						if i > 0 {
							fmt.Fprintf(out, ", ")
						}
						fmt.Fprintf(out, "%s", imp.AsTypeExpr().Str(tm))
					}
				}
				fmt.Fprintf(out, "()\n")
			}
		}
	}
	return []byte(out.String())
}

// seedPkg is one directory of .wuffs files (= one Wuffs package).
type seedPkg struct {
	Dir   string // relative to the repo root
	Files []srcFile
}

func loadSeeds() []seedPkg {
	var pkgs []seedPkg
	byDir := map[string]*seedPkg{}
	var dirs []string
	for _, top := range []string{"std", "hello-wuffs-c", "test", "example"} {
		root := filepath.Join(ev.Repo(), top)
		filepath.Walk(root, func(p string, info os.FileInfo, err error) error {
			if err != nil || info.IsDir() || !strings.HasSuffix(p, ".wuffs") || strings.HasPrefix(info.Name(), ".") {
				return nil
			}
			b, err := os.ReadFile(p)
			if err != nil {
				ev.Fatal("read %s: %v", p, err)
			}
			rel, _ := filepath.Rel(ev.Repo(), p)
			d := filepath.Dir(rel)
			if byDir[d] == nil {
				byDir[d] = &seedPkg{Dir: d}
				dirs = append(dirs, d)
			}
			byDir[d].Files = append(byDir[d].Files, srcFile{Name: rel, Src: b})
			return nil
		})
	}
	sort.Strings(dirs)
	for _, d := range dirs {
		p := byDir[d]
		sort.Slice(p.Files, func(i, j int) bool { return p.Files[i].Name < p.Files[j].Name })
		pkgs = append(pkgs, *p)
	}
	return pkgs
}

// buildUseResolver parses every seed package (harness-side use of the parser on
// the unmodified seeds; a failure here is reported by the seed units, not here)
// and stores its public summary under "<dir>.wuffs".
func buildUseResolver(pkgs []seedPkg) useResolver {
	u := useResolver{}
	for _, p := range pkgs {
		func() {
			defer func() { recover() }()
			tm := &t.Map{}
			var files []*a.File
			for _, f := range p.Files {
				toks, _, err := t.Tokenize(tm, f.Name, f.Src)
				if err != nil {
					return
				}
				af, err := parse.Parse(tm, f.Name, toks, &parse.Options{AllowDoubleUnderscoreNames: true})
				if err != nil {
					return
				}
				files = append(files, af)
			}
			u[filepath.ToSlash(p.Dir)+".wuffs"] = summarise(tm, files)
		}()
	}
	return u
}
